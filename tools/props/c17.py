"""C17 — a callback layer that overrides nothing changes nothing."""
import json, itertools, struct
import os
import kdf, dumpgen

THEOREMS = ["Kdf.Props.C17.top_calls_ok", "Kdf.Props.C17.topCall_transparent_of", "Kdf.Props.C17.topCall_transparent",
            "Kdf.Props.C17.invokeSpec_skip", "Kdf.Props.C17.invoke_eq_spec", "Kdf.Props.C17.passthrough_transparent_of",
            "Kdf.Props.C17.add_del_restores", "Kdf.Props.C17.del_passthrough",
            "Kdf.Props.C17.forwarders_ok", "Kdf.Props.C17.passthrough_transparent",
            "Kdf.Props.C17.invoke_never_diverges"]
NH = 7


def spec(stack, h):
    """stack: list of (priv, mask), top first."""
    n = len(stack)
    for i, (priv, mask) in enumerate(stack):
        if mask >> h & 1:
            return "called %d %d %d" % ((n - 1 - i) * 8 + h, priv, n - i)
    return "base %d" % h


def gen(R):
    stacks = [[]]
    masks_small = [0, 127] + [1 << h for h in range(NH)] + [127 ^ (1 << h) for h in range(NH)]
    # exhaustive: depth 1 and 2 over the structured mask set
    for m in masks_small:
        stacks.append([(1001, m)])
    for m0, m1 in itertools.product(masks_small, repeat=2):
        stacks.append([(1001, m0), (1002, m1)])
    n_rand = 600 if R.tier == "quick" else 20000
    for _ in range(n_rand):
        d = R.rng.randint(1, 8 if R.tier == "thorough" else 6)
        st = []
        for j in range(d):
            k = R.rng.random()
            m = 0 if k < 0.4 else (127 if k < 0.5 else R.rng.randrange(128))
            st.append((R.rng.randrange(1, 1 << 20), m))
        stacks.append(st)
    # every stack is followed by the same stack without its top layer (the
    # comparison point of the property)
    out = []
    for s in stacks:
        out.append(s)
        if s:
            out.append(s[1:])
    return out


def scripts(R, stacks):
    """Per stack: invoke all hooks; for a sample of stacks also delete layers in
    random (non-LIFO) order, invoking all hooks after each removal."""
    out = []
    for s in stacks:
        ops = [("inv", h) for h in range(NH)]
        if len(s) >= 2 and R.rng.random() < 0.5:
            live = len(s)
            while live > 0:
                i = R.rng.randrange(live)
                ops.append(("del", i))
                live -= 1
                ops += [("inv", h) for h in range(NH)]
        out.append(ops)
    return out


def to_text(stacks, scr):
    lines = []
    for s, ops in zip(stacks, scr):
        lines.append("stack %d %s" % (len(s), " ".join("; %d %d" % pm for pm in s)))
        lines += ["%s %d" % o for o in ops]
    return "\n".join(lines) + "\n"


def spec_ids(stack):
    """attach the stable implementation-id base (height at creation) to each layer"""
    n = len(stack)
    return [(priv, mask, (n - 1 - i) * 8) for i, (priv, mask) in enumerate(stack)]


def spec2(layers, h):
    n = len(layers)
    for i, (priv, mask, base) in enumerate(layers):
        if mask >> h & 1:
            return "called %d %d %d" % (base + h, priv, n - i)
    return "base %d" % h


KT, DM, VM = 0xffffffff80000000, 0xffff880000000000, 0xffffc90000000000


def write_linux_elf(R, path, cut_vmalloc_tables=False):
    """ELF64 x86-64 Linux vmcore: 16 frames of RAM in the direct mapping, 4-level page tables (root = init_top_pgt, in kernel
    text) that map the direct mapping, six vmalloc pages and the kernel-text pages of the tables and of init_uts_ns; VMCOREINFO
    with the symbols the dump object and the x86-64 set-up of libaddrxlat resolve through the callback chain."""
    rng = R.rng
    root_pfn = 0x1c00 + rng.randrange(1, 16)
    uts_pfn = 0x1e00 + rng.randrange(1, 32)
    uts_off = 0x20 * rng.randrange(1, 60)
    m36 = (1 << 36) - 1
    mapping = {}
    for i in range(16):
        mapping[((DM >> 12) + i) & m36] = i
    vm = {}
    for i in range(6):
        vpn = ((VM >> 12) + rng.randrange(1, 4) + 5 * i) & m36
        mapping[vpn] = 15 - i; vm[vpn] = 15 - i
    mapping[((KT >> 12) + uts_pfn) & m36] = uts_pfn
    for i in range(14):
        mapping[((KT >> 12) + root_pfn + i) & m36] = root_pfn + i
    root, tables = dumpgen.x86_64_pgt_pages(mapping, [root_pfn + i for i in range(14)])
    npt = max(tables) - root_pfn + 1
    tdata = b"".join(tables.get(root_pfn + i, bytes(4096)) for i in range(npt))
    names = (b"Linux", b"c17-node-%d" % rng.randrange(1000), b"5.4.0-verif", b"#1 SMP", b"x86_64", b"(none)")
    uts = b"\0" * uts_off + struct.pack("<I", 6) + b"".join(x.ljust(65, b"\0") for x in names)
    vmci = (b"OSRELEASE=5.4.0-verif\nPAGESIZE=4096\nSYMBOL(init_uts_ns)=%x\nSYMBOL(swapper_pg_dir)=%x\nSYMBOL(init_top_pgt)=%x\n"
            b"SYMBOL(_stext)=ffffffff81000000\nNUMBER(phys_base)=0\nSIZE(list_head)=16\nOFFSET(list_head.next)=8\nLENGTH(mem_section)=2048\n"
            % (KT + (uts_pfn << 12) + uts_off, KT + (root_pfn << 12), KT + (root_pfn << 12)))
    segs = [dict(pfn=0, npages=16, voff=DM),
            dict(paddr=root_pfn << 12, filesz=len(tdata), memsz=len(tdata), voff=KT, data=tdata),
            dict(paddr=uts_pfn << 12, filesz=4096, memsz=4096, voff=KT, data=uts.ljust(4096, b"\0"))]
    victims = []
    if cut_vmalloc_tables:
        # a TRUNCATED core: the last-level tables of the vmalloc mappings are the last LOAD segments of the file and the file
        # ends where the first of them begins (their pages lie wholly behind the end of the file) -- fetching one of their entries fails in the dump with KDUMP_ERR_EOF, a status that
        # libkdumpfile hands through libaddrxlat as a negative number
        for vpn in vm:
            t = root_pfn
            for sh in (27, 18, 9):
                e = struct.unpack_from("<Q", tables[t], 8 * ((vpn >> sh) & 511))[0]
                t = (e >> 12) & ((1 << 40) - 1)
            if t not in victims:
                victims.append(t)
        keep = [root_pfn + i for i in range(npt) if root_pfn + i not in victims]
        pt = lambda q: dict(paddr=q << 12, filesz=4096, memsz=4096, voff=KT, data=tables.get(q, bytes(4096)))
        segs = [segs[0], segs[2]] + [pt(q) for q in keep] + [pt(q) for q in victims]
    dumpgen.write_elf(path, segs, notes=dumpgen.elf_note(b"VMCOREINFO", 0, vmci))
    if victims:
        size = os.path.getsize(path)
        with open(path, "r+b") as f:
            f.truncate(size - 4096 * len(victims))
    return dict(root=root_pfn << 12, uts=(uts_pfn << 12) + uts_off, vm=vm, nodename=names[1].decode(), victims=victims)


def dump_observations(R, info):
    rng = R.rng
    vms = sorted(info["vm"])
    obs = ["attr linux.uts.sysname", "attr linux.uts.nodename", "attr linux.uts.release", "attr linux.uts.machine", "attr arch.name",
           "attr addrxlat.ostype", "attr linux.version_code", "hook 1 x",
           "hook 3 init_uts_ns", "hook 3 init_top_pgt", "hook 3 _stext", "hook 3 nosuch", "hook 2 cr3", "hook 2 rip",
           "hook 4 list_head", "hook 4 nosuch", "hook 5 list_head next", "hook 5 list_head prev", "hook 6 phys_base", "hook 6 nosuch",
           "page 0 %x" % (info["root"] + 8 * rng.randrange(1, 512)), "page 1 %x" % (info["uts"] + 4), "page 0 5000000",
           "page 2 %x" % (DM + 0x3000 + 8 * rng.randrange(512)),
           "read 2 %x 8" % (KT + info["uts"] + 4), "str 2 %x" % (KT + info["uts"] + 4 + 65), "read 0 2000 16",
           "read 2 %x 4096" % (DM + 0x2000), "conv 2 %x 1" % (KT + info["root"] + 0x10), "conv 2 %x 0" % (DM + 0x1234), "conv 0 1234 2"]
    for vpn in vms:
        va = (0xffff << 48) | (vpn << 12)
        off = rng.choice([0, 8, 0x123, 0xff8, rng.randrange(4096)])
        obs.append("read 2 %x %d" % (va + off, min(rng.choice([8, 16, 64]), 4096 - off)))
        obs.append("conv 2 %x 0" % (va + off))
    obs.append("read 2 %x 17" % (((0xffff << 48) | (vms[0] << 12)) + 4088))   # crosses into a page that is not mapped
    obs.append("conv 2 %x 0" % (VM + (1 << 30)))
    return obs


def dump_layers(R, proof):
    """layers that override nothing on the context a dump object hands out (kdump_get_addrxlat + addrxlat_ctx_add_cb), added
    before or after the dump is opened: attributes, all seven hooks on the top record, KVADDR reads and conversions through
    0..3 layers, and again after the layers were removed in a random order, must agree with the plain context.
    Returns (failure or None, coverage dict, model lines, implementation-side answers for the model lines)."""
    rng = R.rng
    path = R.path("c17-linux.elf")
    info = write_linux_elf(R, path)
    obs = dump_observations(R, info)
    cfgs = [(0, 1, "-")]
    for n in (1, 2, 3):
        for when in (0, 1):
            order = list(range(n)); rng.shuffle(order)
            cfgs.append((n, when, "".join(map(str, order))))
    if R.tier == "thorough":
        for n in (4, 6, 8):
            for when in (0, 1):
                order = list(range(n)); rng.shuffle(order)
                cfgs.append((n, when, "".join(map(str, order[:rng.randrange(1, n + 1)]))))
    text = "".join("cfg %s %d %d linux %s\n%s\n" % (path, n, when, order, "\n".join(obs)) for (n, when, order) in cfgs)
    exe = R.build_harness("s_cbdump", ["s_cbdump.c"])
    rc, out, err = R.run_harness(exe, stdin_text=text, env={"ASAN_OPTIONS": "detect_leaks=1:handle_segv=1"})
    runs, cur = [], None
    for l in kdf.obs(out):
        if l.startswith("== cfg"):
            cur = []; runs.append(cur)
        elif cur is not None and not l.startswith("#"):
            cur.append(l)
    def split(lines, phase):
        d = {}
        for l in lines:
            if l.startswith("x/x/%d " % phase) and " -> " in l:
                k, v = l[6:].split(" -> ", 1)
                d[k] = v
        return d
    replay = lambda n, when, order: dict(stream="cbdump", dump="tools/props/c17.py write_linux_elf (VERIF_SEED=%d)" % R.seed,
                                         input="cfg <dump> %d %d linux %s\n%s\n" % (n, when, order, "\n".join(obs)),
                                         layers=n, added="before open" if when == 0 else "after open", removal_order=order,
                                         broken_theorems=proof["broken"])
    fail = None
    cov = dict(dump_configs=len(cfgs), dump_observations=0, dump_nontrivial=0)
    if not runs:
        raise kdf.CheckBroken("cbdump harness gave no output: rc=%s %s" % (rc, err[-1500:]))
    plain = split(runs[0], 0)
    if plain.get("open", "x").split()[0] != "0" or plain.get("attr linux.uts.nodename") != "str " + info["nodename"]:
        raise kdf.CheckBroken("the plain context does not open the generated vmcore as expected: %s" % {k: plain.get(k) for k in ("open", "attr linux.uts.nodename")})
    if not all(plain.get(o, "").startswith("ok") for o in obs if o.startswith("read 2 ffffc9") and not o.endswith(" 17")):
        raise kdf.CheckBroken("the plain context cannot read the generated vmalloc pages: %s" % {o: plain.get(o) for o in obs if o.startswith("read 2 ffffc9")})
    model_lines, impl_answers = [], []
    for ci, (n, when, order) in enumerate(cfgs):
        if ci >= len(runs) or not any(l.startswith("x/x/0 open") for l in runs[ci]):
            fail = fail or ("%d layer(s) that override nothing, added %s: the process ended (rc=%s): %s" %
                            (n, "before open" if when == 0 else "after open", rc, " | ".join(err.strip().split("\n")[:4])[:500]), replay(n, when, order))
            break
        for phase in ((0, 1) if order != "-" else (0,)):
            got = split(runs[ci], phase)
            for o in (["open"] if phase == 0 else []) + obs:
                cov["dump_observations"] += 1
                cov["dump_nontrivial"] += n > 0
                if got.get(o) != plain.get(o) and fail is None:
                    fail = ("dump context, %d layer(s) that override nothing added %s%s: '%s' gives '%s', the plain context gives '%s'" %
                            (n, "before open" if when == 0 else "after open", " and removed again (order %s)" % order if phase else "",
                             o, got.get(o), plain.get(o)), dict(replay(n, when, order), observation=o, got=got.get(o), want=plain.get(o), phase=phase))
        if n:
            # the calls the libraries make themselves through the top record, as the model sees them: n pass-through layers on
            # the dump object's layer (which overrides every hook); the implementation's answer is read off the observations
            got = split(runs[ci], 0)
            st = "stack %d %s ; 999 127" % (n + 1, " ".join("; %d 0" % (1001 + j) for j in range(n)))
            for hook, keys in ((3, ["attr linux.uts.nodename", "attr linux.uts.sysname"] if when == 0 else None),
                               (0, [o for o in obs if o.startswith("read 2 ffffc9") and not o.endswith(" ")][:3])):
                if not keys:
                    continue
                model_lines += [st, "top %d %d" % (hook, n)]
                impl_answers.append("called %d 999 1" % hook if all(got.get(k) == plain.get(k) for k in keys) else "not-the-dump-layer %d" % hook)
    if rc != 0 and fail is None:
        fail = ("dump-context harness ended abnormally (rc=%s): %s" % (rc, " | ".join(err.strip().split("\n")[:4])[:500]), dict(stream="cbdump"))
    return fail, cov, model_lines, impl_answers


def py_dump_walk(R, d, truncated=False):
    """Python binding on a dump's context (python/kdumpfile.c + python/addrxlat.c built by py_layers): page-table walks through
    1..3 Context layers against a reference walk with plain reads"""
    import os, re, subprocess, sys, collections
    path = R.path("c17-py%s.elf" % ("-cut" if truncated else ""))
    info = write_linux_elf(R, path, cut_vmalloc_tables=truncated)
    vas = []
    for vpn in sorted(info["vm"]):
        vas.append(((0xffff << 48) | (vpn << 12)) + R.rng.choice([0, 8, 0xff8, R.rng.randrange(4096)]))
    vas += [DM + 0x5000 + R.rng.randrange(4096), KT + info["uts"], VM + (1 << 30)]
    r = subprocess.run([sys.executable, os.path.join(kdf.VERIF, "harness/py_dumpwalk.py"), path, "%x" % info["root"]] + ["%x" % v for v in vas],
                       capture_output=True, text=True, env=dict(os.environ, PYTHONPATH=d), timeout=300)
    obs = collections.defaultdict(dict)
    nobs = 0
    for l in r.stdout.split("\n"):
        m = re.match(r"(again )?(\w+) (\w+) (\d) -> (.*)", l.strip())
        if m:
            nobs += 1
            obs[(m.group(2), m.group(3))][(int(m.group(4)), bool(m.group(1)))] = m.group(5)
    rp = dict(stream="py-dumpwalk", dump="tools/props/c17.py write_linux_elf (VERIF_SEED=%d%s)" % (R.seed, ", cut_vmalloc_tables=True: the file ends "
              "where the LOAD segment of the last-level page table of the vmalloc addresses begins" if truncated else ""), vaddrs=["%x" % v for v in vas],
              replay="PYTHONPATH=<dir with _addrxlat.so, _kdumpfile.so built from python/*.c> python3 harness/py_dumpwalk.py <dump> %x %s"
                     % (info["root"], " ".join("%x" % v for v in vas)))
    if r.returncode != 0 or "done" not in r.stdout or nobs < 4 * 4 * len(vas):
        return ("python dump-walk script stopped (rc=%s) after %d observations: %s" % (r.returncode, nobs, r.stderr.strip()[-600:]),
                dict(rp, stdout_tail=r.stdout[-1000:], stderr=r.stderr[-1500:])), nobs
    good = sum(v.get((0, False), "").startswith("val") for v in obs.values())
    if good < 2 * len(vas) and not truncated:
        raise kdf.CheckBroken("reference walks of the generated vmcore fail: %s" % dict(list(obs.items())[:4]))
    if truncated:
        cutva = ["%x" % v for v in vas[:len(info["vm"])]]
        bad = [va for va in cutva if obs[("kvread", va)].get((0, False)) != "exc EOFException"]
        if bad:
            raise kdf.CheckBroken("the truncated vmcore does not fail with EOF where its page tables are cut off: %s" %
                                  {va: obs[("kvread", va)].get((0, False)) for va in bad})
    for (what, va), v in sorted(obs.items()):
        want = v.get((0, False))
        if what not in ("word", "kvread") and not want.startswith("val"):
            want = None          # an address that does not translate: the layered walks must fail too (whatever the exception)
        # kvread: a read by libkdumpfile itself -- the dump's C code receives the status of its own page hook back through the
        # Python layers as a number and turns it into its own status: the SAME exception class as without any layer
        for key, got in sorted(v.items()):
            if key == (0, False):
                continue
            if (want is None and got.startswith("val")) or (want is not None and got != want):
                return ("Python binding on a dump's context%s: %s of %s through %d pass-through Context layer(s)%s gives '%s'; %s gives '%s'"
                        % (" (truncated vmcore)" if truncated else "", what, va, key[0], " (after lower layers were dropped)" if key[1] else "", got,
                           "the same read without any layer" if what == "kvread" else "the reference walk with plain reads", v.get((0, False))), dict(rp, what=what, vaddr=va, layers=key[0], got=got, want=v.get((0, False)))), nobs
    return None, nobs


def py_layers(R):
    """The Python binding's callback layers (python/addrxlat.c): build the extension from the working tree and run
    harness/py_layers.py.  Returns (failure or None, number of observations, distinct non-trivial)."""
    import os, re, shutil, subprocess, sys, sysconfig, collections
    # both libraries as one position-independent shared object (no sanitizers), the two extension modules linked against it,
    # so that the dump object (_kdumpfile) and the Context layers (_addrxlat) work on the same libaddrxlat
    pic, _ = R.build_lib(san=False, extra=("-fPIC",), tag="libpic")
    tree = R.path("libpic", "tree")
    d = R.path("pyl")
    os.makedirs(d, exist_ok=True)
    r = subprocess.run(["gcc", "-shared", "-o", os.path.join(d, "libkdfall.so"), "-Wl,--whole-archive", pic, "-Wl,--no-whole-archive"] + kdf.LIBS,
                       capture_output=True, text=True)
    if r.returncode:
        raise kdf.CheckBroken("shared library for the Python modules does not link:\n" + r.stderr[-2000:])
    procs = []
    for mod in ("addrxlat", "kdumpfile"):
        cmd = ["gcc", "-shared", "-fPIC", "-O1", "-g", "-w", "-DHAVE_CONFIG_H", "-I" + tree, "-I" + os.path.join(tree, "include"),
               "-I" + os.path.join(tree, "src"), "-I" + os.path.join(tree, "src/addrxlat"), "-I" + os.path.join(kdf.REPO, "python"),
               "-I" + sysconfig.get_paths()["include"], os.path.join(kdf.REPO, "python/%s.c" % mod), "-L" + d, "-lkdfall",
               "-Wl,-rpath," + d, "-o", os.path.join(d, "_%s.so" % mod)]
        procs.append((mod, subprocess.Popen(cmd, stdout=subprocess.PIPE, stderr=subprocess.PIPE, text=True)))
    for mod, pr in procs:
        out, err = pr.communicate()
        if pr.returncode:
            raise kdf.CheckBroken("python/%s.c does not compile from the working tree:\n%s" % (mod, err[-2000:]))
    if os.path.exists(os.path.join(d, "kdumpfile")):
        shutil.rmtree(os.path.join(d, "kdumpfile"))
    shutil.copytree(os.path.join(kdf.REPO, "python/kdumpfile"), os.path.join(d, "kdumpfile"), ignore=shutil.ignore_patterns("Makefile*"))
    if os.path.exists(os.path.join(d, "addrxlat")):
        shutil.rmtree(os.path.join(d, "addrxlat"))
    shutil.copytree(os.path.join(kdf.REPO, "python/addrxlat"), os.path.join(d, "addrxlat"), ignore=shutil.ignore_patterns("Makefile*"))
    r = subprocess.run([sys.executable, os.path.join(kdf.VERIF, "harness/py_layers.py")], capture_output=True, text=True,
                       env=dict(os.environ, PYTHONPATH=d), timeout=300)
    obs = collections.defaultdict(dict)
    nobs = 0
    for l in r.stdout.split("\n"):
        m = re.match(r"(again )?(\S+) (\S+) (\d) -> (.*)", l.strip())
        if m:
            nobs += 1
            obs[(m.group(2), m.group(3))][(int(m.group(4)), bool(m.group(1)))] = m.group(5)
    if r.returncode != 0 or nobs < 900:
        return ("python layer script stopped (rc=%s) after %d observations: %s" % (r.returncode, nobs, r.stderr.strip()[-600:]),
                dict(stream="py-layers", stdout_tail=r.stdout[-1500:], stderr=r.stderr[-1500:])), nobs, 0
    nontriv = 0
    for (hook, key), v in sorted(obs.items()):
        if hook in ("after-del",):
            if v.get((0, False), "").startswith("val ") is False:
                return ("bottom layer after the upper layers were removed: %s" % v, dict(stream="py-layers", hook=hook, outcomes=str(v))), nobs, nontriv
            continue
        kind = key.split(":")[0] if ":" in key else None
        # a value or a foreign exception must come through unchanged from the bottom layer's own method; addrxlat's own exceptions,
        # None and unconvertible results are turned into a status by the first layer: compared from one layer upwards
        # (memarr: the page fetch is made by libaddrxlat's C code through the context object -- already one layer at "0")
        first = 0 if (hook in ("read_caps", "layer-is-new", "memarr") or kind in ("val", "zero", "big", "myerr", "key")) else 1
        want = v.get((first, False))
        for n in range(0 if kind and kind.startswith("sc") else first, 4):
            nontriv += n > 0
            if kind and kind.startswith("sc"):
                # independent expectation: the status the bottom implementation returned is the status that arrives, whatever
                # its sign and whether libaddrxlat has a name for it, with the bottom implementation's message
                stv = kind[2:].replace("m", "-")
                got = v.get((n, False)) or ""
                m = re.match(r"exc (\w+) \('(-?\d+)', (.*)\)$", got)
                # (memarr: libaddrxlat's conversion may answer a page that has no data with "no way to translate"; which status the
                # conversion reports is its business -- it must be the same through every number of layers, and carry the message)
                # A C caller receives the status as a number and puts its own context in front of the message ("...: status N for ...");
                # a bare bottom message means the status did not arrive as a status (it was parked as a Python exception instead).
                if not m or (m.group(2) != stv and hook != "memarr") or ("status %s for" % kind[2:]) not in m.group(3) or \
                        (hook == "memarr" and (": status %s for" % kind[2:]) not in m.group(3)):
                    bare = bool(m) and hook == "memarr" and (": status %s for" % kind[2:]) not in m.group(3)
                    return ("Python binding: hook %s, bottom implementation returns status %s: through %d pass-through layer(s) the caller gets '%s' "
                            "%s" % (hook, stv, n, got, "-- libaddrxlat's C code (the MEMARR look-up that fetched the page) did not receive status %s: "
                                    "its own message context is missing, the layer handed it a stored Python exception (status -1) instead" % stv
                                    if bare else "instead of status %s with the bottom implementation's message" % stv),
                            dict(stream="py-layers", hook=hook, key=key, status=int(stv), layers=n, outcomes={str(k): x for k, x in v.items()},
                                 replay="PYTHONPATH=<dir with _addrxlat.so built from python/addrxlat.c> python3 harness/py_layers.py")), nobs, nontriv
                if n < first:
                    continue
            if v.get((n, False)) != want:
                return ("Python binding: hook %s for %s through %d pass-through layer(s) gives '%s'; %s gives '%s'" %
                        (hook, key, n, v.get((n, False)), "the bottom layer's own method" if first == 0 else "one pass-through layer", want),
                        dict(stream="py-layers", hook=hook, key=key, outcomes={str(k): x for k, x in v.items()},
                             replay="PYTHONPATH=<dir with _addrxlat.so built from python/addrxlat.c> python3 harness/py_layers.py")), nobs, nontriv
        if (1, True) in v and v[(1, True)] != v.get((1, False)):
            return ("Python binding: hook %s for %s through one layer gives '%s' after other layers were created and removed, '%s' before" %
                    (hook, key, v[(1, True)], v.get((1, False))), dict(stream="py-layers", hook=hook, key=key)), nobs, nontriv
    return None, nobs, nontriv


def run(R):
    facts, changed = R.extract()
    proof = R.prove(["Kdf.Props.C17"], THEOREMS)
    stacks = gen(R)
    scr = scripts(R, stacks)
    text = to_text(stacks, scr)
    exe = R.build_harness("s_cb", ["s_cb.c"])
    rc, out, err = R.run_harness(exe, stdin_text=text, env={"ASAN_OPTIONS": "detect_leaks=0:handle_segv=0:detect_stack_use_after_return=0"})
    impl = kdf.obs(out)
    model = kdf.obs(R.run_driver("cb", text))
    exp_n = sum(len(o) for o in scr)
    if len(impl) != exp_n:
        raise kdf.CheckBroken("cb harness produced %d lines, expected %d; rc=%s\n%s" % (len(impl), exp_n, rc, err[-2000:]))
    mism = kdf.diff_streams(impl, model)
    # --- the property's executable statement, evaluated on the implementation
    fails = []
    kinds = {}
    nontrivial = set()
    k = 0
    for si, (s, ops) in enumerate(zip(stacks, scr)):
        layers = spec_ids(s)
        ndel = 0
        for oi, (op, arg) in enumerate(ops):
            got = impl[k]; k += 1
            if op == "del":
                del layers[arg]
                ndel += 1
                continue
            h = arg
            want = spec2(layers, h)
            kind = ("after-del/" if ndel else "") + ("passthrough-top" if layers and not (layers[0][1] >> h & 1) else "override-top" if layers else "empty")
            kinds[kind] = kinds.get(kind, 0) + 1
            if layers and not (layers[0][1] >> h & 1):
                nontrivial.add((tuple(layers), h))
            if got != want:
                fails.append((len(s) + ndel, si, oi, h, got, want))
    pyfail, pyobs, pynontriv = py_layers(R)
    pywfail, pywobs = py_dump_walk(R, R.path("pyl")) if not pyfail else (None, 0)
    if not pyfail and not pywfail:
        pywfail, n2 = py_dump_walk(R, R.path("pyl"), truncated=True)
        pywobs += n2
    dfail, dcov, dmodel, dimpl = dump_layers(R, proof)
    dmism = None
    if dmodel:
        dm = [l for l in kdf.obs(R.run_driver("cb", "\n".join(dmodel) + "\n")) if not l.startswith("bad-op")]
        dmism = kdf.diff_streams(dimpl, dm)
    if dfail and not fails:
        R.violation(dfail[0], dfail[1])
    if pyfail and not fails:
        R.violation(pyfail[0], dict(pyfail[1], broken_theorems=proof["broken"]))
    if pywfail and not fails:
        R.violation(pywfail[0], dict(pywfail[1], broken_theorems=proof["broken"]))
    if fails:
        fails.sort()
        d, si, oi, h, got, want = fails[0]
        R.violation("hook %d on stack %s (top first, (priv,mask)) after ops %s: implementation gave '%s', the previously "
                    "installed implementation with its own record would give '%s'" % (h, stacks[si], scr[si][:oi], got, want),
                    dict(stream="cb", stack=stacks[si], ops=scr[si][:oi + 1], hook=h, got=got, want=want,
                         input="stack %d %s\n" % (len(stacks[si]), " ".join("; %d %d" % pm for pm in stacks[si])) +
                               "".join("%s %d\n" % o for o in scr[si][:oi + 1]),
                         broken_theorems=proof["broken"], n_failing=len(fails)))
    elif (proof["broken"] or mism is not None or dmism is not None) and not (dfail or pyfail or pywfail):
        R.violation("proof obligation or correspondence broken: theorems %s; first differing line %s; dump-context stream %s" %
                    (proof["broken"], mism, dmism),
                    dict(stream="cb", broken_theorems=proof["broken"], lean_log=proof["log"][-1500:],
                         first_diff=None if mism is None else dict(index=mism,
                             impl=impl[mism] if mism < len(impl) else None,
                             model=model[mism] if mism < len(model) else None)),
                    found_input=False)
    cov = dict(obligations=proof["obligations"], discharged=proof["discharged"],
               checker_cmd="cd lean && lake build Kdf.Props.C17 && lake env lean <(#print axioms …)",
               trusted_base=["Lean 4 kernel", "axioms: " + ", ".join(sorted({a for v in proof["axioms"].values() for a in v}) or ["none"]),
                             "tools/extract.py (regex over next_*_cb and addrxlat_ctx_add_cb)",
                             "harness/s_cb.c + gcc + ASan"],
               broken_theorems=proof["broken"], generated_facts=facts.get("cb"),
               evaluations=exp_n, distinct_nontrivial=len(nontrivial),
               rule="stacks of 0..8 layers (exhaustive for depth<=2 over 16 structured masks, random beyond), each "
                    "followed by the same stack without its top layer, all 7 hooks; non-trivial = distinct (stack,hook) "
                    "whose top layer leaves the hook untouched",
               traces_validated_against_impl=len(impl), correspondence_first_diff=mism,
               case_kinds=kinds, python_layer_observations=pyobs, python_layer_nontrivial=pynontriv,
               python_dump_walk_observations=pywobs, dump_context=dcov, dump_context_model_lines=len(dimpl), dump_context_first_diff=dmism,
               samples=[dict(stack=stacks[i], ops=scr[i][:12]) for i in (1, len(stacks) // 2, len(stacks) - 2)])
    return "proof", cov, ["an implementation's behaviour is a function of (its identity, the record it is called with)",
                          "C indirect calls behave as modelled; stack overflow of the real code is reported as 'diverge'",
                          "dump context (harness/s_cbdump.c): one generated x86-64 Linux vmcore (ELF) per run; the dump object's layer is "
                          "modelled as a layer that overrides every hook; of the libraries' own calls through the top record (Model.Cb.topCall, "
                          "record passed = Kdf.Gen.topCallPasses from the sources) the symbol look-up at open and the page fetch of page-table "
                          "walks are tied to the implementation by their visible effect (UTS attributes, KVADDR reads), the other hooks by "
                          "the extracted call-site table only",
                          "Python binding (python/addrxlat.c): not modelled; its layers are compared with each other and with the bottom "
                          "layer's own methods (7 hooks x 29 outcome kinds x 0..3 layers) on the implementation only; the outcome kinds include "
                          "20 status numbers (every libaddrxlat code, unknown positive codes, negative codes as libkdumpfile tunnels its own "
                          "statuses) which must arrive unchanged, also at a C caller (a MEMARR look-up by libaddrxlat through the layers); on a dump's "
                          "context: reads of kernel virtual addresses by libkdumpfile itself (which receives its own page hook's status back as a "
                          "number) through 0..3 layers, on an intact and on a truncated vmcore whose vmalloc page tables lie behind the end of the file"]
