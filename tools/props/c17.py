"""C17 — a callback layer that overrides nothing changes nothing."""
import json, itertools
import kdf

THEOREMS = ["Kdf.Props.C17.invoke_eq_spec", "Kdf.Props.C17.passthrough_transparent_of",
            "Kdf.Props.C17.add_del_restores", "Kdf.Props.C17.del_passthrough",
            "Kdf.Props.C17.forwarders_ok", "Kdf.Props.C17.passthrough_transparent",
            "Kdf.Props.C17.invoke_never_diverges"]
NH = 7


def spec(stack, h):
    """stack: list of (priv, mask), top first."""
    n = len(stack)
    for i, (priv, mask) in enumerate(stack):
        if mask >> h & 1:
            return "called %d %d %d" % ((n - 1 - i) * 8 + h, priv, n - i)
    return "base %d" % h


def gen(R):
    stacks = [[]]
    masks_small = [0, 127] + [1 << h for h in range(NH)] + [127 ^ (1 << h) for h in range(NH)]
    # exhaustive: depth 1 and 2 over the structured mask set
    for m in masks_small:
        stacks.append([(1001, m)])
    for m0, m1 in itertools.product(masks_small, repeat=2):
        stacks.append([(1001, m0), (1002, m1)])
    n_rand = 600 if R.tier == "quick" else 20000
    for _ in range(n_rand):
        d = R.rng.randint(1, 8 if R.tier == "thorough" else 6)
        st = []
        for j in range(d):
            k = R.rng.random()
            m = 0 if k < 0.4 else (127 if k < 0.5 else R.rng.randrange(128))
            st.append((R.rng.randrange(1, 1 << 20), m))
        stacks.append(st)
    # every stack is followed by the same stack without its top layer (the
    # comparison point of the property)
    out = []
    for s in stacks:
        out.append(s)
        if s:
            out.append(s[1:])
    return out


def scripts(R, stacks):
    """Per stack: invoke all hooks; for a sample of stacks also delete layers in
    random (non-LIFO) order, invoking all hooks after each removal."""
    out = []
    for s in stacks:
        ops = [("inv", h) for h in range(NH)]
        if len(s) >= 2 and R.rng.random() < 0.5:
            live = len(s)
            while live > 0:
                i = R.rng.randrange(live)
                ops.append(("del", i))
                live -= 1
                ops += [("inv", h) for h in range(NH)]
        out.append(ops)
    return out


def to_text(stacks, scr):
    lines = []
    for s, ops in zip(stacks, scr):
        lines.append("stack %d %s" % (len(s), " ".join("; %d %d" % pm for pm in s)))
        lines += ["%s %d" % o for o in ops]
    return "\n".join(lines) + "\n"


def spec_ids(stack):
    """attach the stable implementation-id base (height at creation) to each layer"""
    n = len(stack)
    return [(priv, mask, (n - 1 - i) * 8) for i, (priv, mask) in enumerate(stack)]


def spec2(layers, h):
    n = len(layers)
    for i, (priv, mask, base) in enumerate(layers):
        if mask >> h & 1:
            return "called %d %d %d" % (base + h, priv, n - i)
    return "base %d" % h


def run(R):
    facts, changed = R.extract()
    proof = R.prove(["Kdf.Props.C17"], THEOREMS)
    stacks = gen(R)
    scr = scripts(R, stacks)
    text = to_text(stacks, scr)
    exe = R.build_harness("s_cb", ["s_cb.c"])
    rc, out, err = R.run_harness(exe, stdin_text=text, env={"ASAN_OPTIONS": "detect_leaks=0:handle_segv=0:detect_stack_use_after_return=0"})
    impl = kdf.obs(out)
    model = kdf.obs(R.run_driver("cb", text))
    exp_n = sum(len(o) for o in scr)
    if len(impl) != exp_n:
        raise kdf.CheckBroken("cb harness produced %d lines, expected %d; rc=%s\n%s" % (len(impl), exp_n, rc, err[-2000:]))
    mism = kdf.diff_streams(impl, model)
    # --- the property's executable statement, evaluated on the implementation
    fails = []
    kinds = {}
    nontrivial = set()
    k = 0
    for si, (s, ops) in enumerate(zip(stacks, scr)):
        layers = spec_ids(s)
        ndel = 0
        for oi, (op, arg) in enumerate(ops):
            got = impl[k]; k += 1
            if op == "del":
                del layers[arg]
                ndel += 1
                continue
            h = arg
            want = spec2(layers, h)
            kind = ("after-del/" if ndel else "") + ("passthrough-top" if layers and not (layers[0][1] >> h & 1) else "override-top" if layers else "empty")
            kinds[kind] = kinds.get(kind, 0) + 1
            if layers and not (layers[0][1] >> h & 1):
                nontrivial.add((tuple(layers), h))
            if got != want:
                fails.append((len(s) + ndel, si, oi, h, got, want))
    if fails:
        fails.sort()
        d, si, oi, h, got, want = fails[0]
        R.violation("hook %d on stack %s (top first, (priv,mask)) after ops %s: implementation gave '%s', the previously "
                    "installed implementation with its own record would give '%s'" % (h, stacks[si], scr[si][:oi], got, want),
                    dict(stream="cb", stack=stacks[si], ops=scr[si][:oi + 1], hook=h, got=got, want=want,
                         input="stack %d %s\n" % (len(stacks[si]), " ".join("; %d %d" % pm for pm in stacks[si])) +
                               "".join("%s %d\n" % o for o in scr[si][:oi + 1]),
                         broken_theorems=proof["broken"], n_failing=len(fails)))
    elif proof["broken"] or mism is not None:
        R.violation("proof obligation or correspondence broken: theorems %s; first differing line %s" %
                    (proof["broken"], mism),
                    dict(stream="cb", broken_theorems=proof["broken"], lean_log=proof["log"][-1500:],
                         first_diff=None if mism is None else dict(index=mism,
                             impl=impl[mism] if mism < len(impl) else None,
                             model=model[mism] if mism < len(model) else None)),
                    found_input=False)
    cov = dict(obligations=proof["obligations"], discharged=proof["discharged"],
               checker_cmd="cd lean && lake build Kdf.Props.C17 && lake env lean <(#print axioms …)",
               trusted_base=["Lean 4 kernel", "axioms: " + ", ".join(sorted({a for v in proof["axioms"].values() for a in v}) or ["none"]),
                             "tools/extract.py (regex over next_*_cb and addrxlat_ctx_add_cb)",
                             "harness/s_cb.c + gcc + ASan"],
               broken_theorems=proof["broken"], generated_facts=facts.get("cb"),
               evaluations=exp_n, distinct_nontrivial=len(nontrivial),
               rule="stacks of 0..8 layers (exhaustive for depth<=2 over 16 structured masks, random beyond), each "
                    "followed by the same stack without its top layer, all 7 hooks; non-trivial = distinct (stack,hook) "
                    "whose top layer leaves the hook untouched",
               traces_validated_against_impl=len(impl), correspondence_first_diff=mism,
               case_kinds=kinds,
               samples=[dict(stack=stacks[i], ops=scr[i][:12]) for i in (1, len(stacks) // 2, len(stacks) - 2)])
    return "proof", cov, ["an implementation's behaviour is a function of (its identity, the record it is called with)",
                          "C indirect calls behave as modelled; stack overflow of the real code is reported as 'diverge'"]
