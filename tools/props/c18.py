"""C18 — running out of memory is an error, not an accident.

Systematic n-th-allocation failure on the real library (harness/s_oom.c: every
case in a forked child; lock ledger by pthread interposition; leak = library
blocks still live after the survivors were freed; follow-up calls on the
survivors), the ledger model of the constructors/unwinders (lean/Kdf/Model/Oom.lean)
tied by comparing its allocation/free/lock trace with the intercepted real
trace for every n, add_pfn_region against its model, and the translation-map
atomicity stream of C10 under allocation failure.

Round 2: LKCD, SADUMP and s390 dumps are generated (tools/dumpgen.py write_lkcd /
write_sadump / write_s390); objects have clones (per-context buffers); the faulted
call may be an open on an object whose earlier open failed or that has another
dump open, a change of
arch.page_size / cache.size on an open dump, the first query of a lazily built
attribute (memory.pagemap, file.pagemap, max_pfn) or per_ctx_alloc itself; the
follow-up puts the attribute back, sweeps every page through every clone and
frees everything.  Modelled and tied by traces: per_ctx_alloc (`slot`), the
arch.page_size hook chain of LKCD (`pgsz`), mem_pagemap_revalidate's lock
discipline (`pmap`).

Round 4: a SET of files (split diskdump, kdump_open_fdset) is opened with the fault
armed, on a fresh object and on one that has slots registered already; the survivor's
file set must be what it was (file.set.<N> slots = file.set.number, one fd and one
name each, no key behind the last slot), it then opens ONE file through an array of
exactly one descriptor and the set again.  file.set.number raised on a fresh object is
modelled (`nfiles`: numFilesGrow = all-or-nothing group under the writer lock) and tied
by traces."""
import concurrent.futures, os, re
import kdf, dumpgen
from props import c10

OWN = ["kdumpNew_fail", "kdumpNew_ok", "kdumpNew_oom_safe", "kdumpClone_fail", "kdumpClone_ok", "kdumpClone_oom_safe",
       "addRegion_nomem", "addRegion_fail_unchanged", "addRegion_ok",
       "allocAll_fail", "allocAll_ok", "pgRound_slot_fail", "pgRound_safe", "setPageSize_safe", "pagemapGet_safe", "numFilesGrow_safe"]
CITED = ["Kdf.Props.C10.set_nomem", "Kdf.Props.C10.history", "Kdf.Props.C16.vadd_trunc", "Kdf.Props.C16.vadd_inbounds"]
THEOREMS = ["Kdf.Props.C18." + t for t in OWN] + CITED
VOFF = 0xffff880000000000
FAIL_OK = {"null", "system", "nomem"}          # what a call that ran out of memory may answer
ADDRXLAT_OK = ("xlat", "read-kv")              # scenarios whose failure is reported through the addrxlat layer


def fields(line):
    t = line.split()
    f = dict(x.split("=", 1) for x in t[1:] if "=" in x)
    f["name"] = t[0]
    return f


def canon_trace(raw):
    """sort every maximal run of frees by block id (free order inside one unwinding step is not modelled)"""
    out, burst = [], []
    def flush():
        burst.sort(key=lambda x: (x == "fp", int(x[1:]) if x != "fp" else 0))
        out.extend(burst)
        del burst[:]
    for e in raw.split():
        if e[0] == "f":
            burst.append(e)
        else:
            flush()
            out.append(e)
    flush()
    return " ".join(out)


class Scn:
    """one scenario = one harness case line template + what is needed to replay it"""
    def __init__(self, name, tmpl, dump=None, addrxlat=False, model=None, optional=False):
        self.name, self.tmpl, self.dump, self.addrxlat, self.model, self.optional = name, tmpl, dump, addrxlat, model, optional
        self.N = None
        self.clean = None

    def line(self, n, trace=0):
        return "case " + self.tmpl.format(n=n, t=trace)


def make_dumps(R, idx):
    """random small dumps; returns dict name -> (path, pages, generator description)"""
    rng = R.rng
    d = {}
    segs, pfn = [], rng.randint(1, 3)
    for _ in range(rng.randint(1, 3)):
        n = rng.randint(1, 3)
        segs.append(dict(pfn=pfn, npages=n, voff=VOFF))
        pfn += n + rng.randint(1, 3)
    p = R.path("c18-%d.elf" % idx)
    dumpgen.write_elf(p, segs)
    d["elf"] = (p, [s["pfn"] + i for s in segs for i in range(s["npages"])], dict(writer="write_elf", segs=segs))
    # the same segments with per-CPU PRSTATUS notes and VMCOREINFO: per-CPU blob attributes and their derived registers are allocated at open
    p = R.path("c18-%d.elfn" % idx)
    dumpgen.write_elf(p, segs, notes=dumpgen.std_notes())
    d["elfn"] = (p, [s["pfn"] + i for s in segs for i in range(s["npages"])], dict(writer="write_elf", segs=segs, notes="std_notes"))
    p = R.path("c18-%d.uelf" % idx)
    first, npg = rng.randint(4, 20), rng.randint(36, 48)
    shift = rng.choice([2048, 512, 1024, 3000])
    dumpgen.write_elf_unaligned(p, first, npg, shift=shift)
    d["uelf"] = (p, list(range(first + npg - 1, first + npg - 32, -1)), dict(writer="write_elf_unaligned", pfn=first, npages=npg, shift=shift))
    pages = sorted(rng.sample(range(1, 12), rng.randint(3, 6)))
    meth = {q: rng.choice(["raw", "zlib", "snappy", "zstd"]) for q in pages}
    vmci = b"OSRELEASE=5.4.0-verif\nPAGESIZE=4096\n" if rng.random() < 0.7 else None
    p = R.path("c18-%d.dd" % idx)
    dumpgen.write_diskdump(p, pages, max_mapnr=16, ram=range(12), methods=meth, vmcoreinfo=vmci)
    d["dd"] = (p, pages, dict(writer="write_diskdump", pages=pages, max_mapnr=16, ram=12, methods=meth, vmcoreinfo=bool(vmci)))
    p = R.path("c18-%d.flat" % idx)
    order = rng.choice(["fwd", "rev"])
    dumpgen.write_diskdump(p, pages, max_mapnr=16, ram=range(12), methods={pages[0]: "zlib"},
                           flattened=dict(chunk=4096, order=order))
    d["flat"] = (p, pages, dict(writer="write_diskdump", pages=pages, max_mapnr=16, ram=12, methods={pages[0]: "zlib"},
                                flattened=dict(chunk=4096, order=order)))
    # the same content cut into many small records: the per-file offset array of the flattened map (flatmap.c, grown in steps
    # of 32 segments) is re-allocated several times while the file is opened
    p = R.path("c18-%d.flatmany" % idx)
    chunk = rng.choice([96, 160, 256, 400, 700])
    dumpgen.write_diskdump(p, pages, max_mapnr=16, ram=range(12), methods={pages[0]: "zlib"},
                           flattened=dict(chunk=chunk, order=order))
    d["flatmany"] = (p, pages, dict(writer="write_diskdump", pages=pages, max_mapnr=16, ram=12, methods={pages[0]: "zlib"},
                                    flattened=dict(chunk=chunk, order=order)))
    mach, cls, be = rng.choice([("s390x", 64, True), ("i386", 32, False), ("arm", 32, False),
                                ("riscv64", 64, False), ("x86_64", 64, False)])   # 4 KiB pages without further attributes
    segs2 = [dict(pfn=rng.randint(1, 4), npages=rng.randint(1, 3), voff=0x80000000 if cls == 32 else VOFF)]
    p = R.path("c18-%d.elfm" % idx)
    dumpgen.write_elf(p, segs2, machine=mach, elfclass=cls, be=be)
    d["elfm"] = (p, [segs2[0]["pfn"] + i for i in range(segs2[0]["npages"])],
                 dict(writer="write_elf", segs=segs2, machine=mach, elfclass=cls, be=be))
    # ---- formats with per-context buffers, lazily built indexes and page maps: LKCD, SADUMP, s390
    PS = 4096
    pf, q = [], rng.randint(0, 3)
    for _ in range(rng.randint(5, 8)):
        pf.append(q)
        q += rng.choice([1, 1, 1, 2, 3, rng.randint(4, 15), rng.randint(17, 40)])      # gaps inside and beyond MAX_PFN_GAP
    ver = rng.choice([2, 5, 8, 9, 10])
    comp = rng.choice([0, 1, 1])
    kinds = {q: rng.choice(["raw", "compressed", "compressed", "auto"]) for q in pf}
    order = list(pf)
    if rng.random() < 0.5:
        rng.shuffle(order)                                                            # file order != frame order
    p = R.path("c18-%d.lkcd" % idx)
    dumpgen.write_lkcd(p, [dict(pfn=q, data=dumpgen.page_bytes(q, PS), kind=kinds[q]) for q in order], version=ver, compression=comp)
    d["lkcd"] = (p, pf, dict(writer="write_lkcd", order=order, kinds=kinds, version=ver, compression=comp))
    dumped = sorted(rng.sample(range(1, 14), rng.randint(3, 6)))
    ram = sorted(set(dumped) | set(rng.sample(range(0, 15), rng.randint(2, 6))))
    kind = rng.choice(["single", "single", "media"])
    ncpu = rng.randint(1, 3)
    p = R.path("c18-%d.sadump" % idx)
    dumpgen.write_sadump([p], {q: dumpgen.page_bytes(q, PS) for q in dumped}, ram=ram, max_mapnr=16, kind=kind, nr_cpus=ncpu)
    d["sadump"] = (p, dumped, dict(writer="write_sadump", pages=dumped, ram=ram, max_mapnr=16, kind=kind, nr_cpus=ncpu))
    d["sadump-ram"] = ram
    npg = rng.randint(3, 6)
    p = R.path("c18-%d.s390" % idx)
    dumpgen.write_s390(p, {q: dumpgen.page_bytes(q, PS) for q in range(npg)}, npg)
    d["s390"] = (p, list(range(npg)), dict(writer="write_s390", npages=npg))
    # a SET of files: one diskdump split into 2..3 windows of frames (kdump_open_fdset)
    spages = sorted(rng.sample(range(1, 15), rng.randint(4, 7)))
    nsp = rng.randint(2, 3)
    cuts = [0] + sorted(rng.sample(range(2, 14), nsp - 1)) + [16]
    sp = []
    for k in range(nsp):
        q = R.path("c18-%d.split%d" % (idx, k))
        dumpgen.write_diskdump(q, spages, max_mapnr=16, ram=range(15), split=(cuts[k], cuts[k + 1]))
        sp.append(q)
    d["split"] = (",".join(sp), spages, dict(writer="write_diskdump_split", pages=spages, max_mapnr=16, ram=15, cuts=cuts))
    p = R.path("c18-%d.junk" % idx)
    open(p, "wb").write(bytes(rng.getrandbits(8) | 1 for _ in range(256)) + b"\0" * 70000)
    d["junk"] = (p, [], dict(writer="junk"))
    return d


def pl(pages):
    return ",".join(str(q * 4096) for q in pages) if pages else "-"


def scenarios(R, dumps, first):
    S = []
    def add(name, tmpl, dump=None, **kw):
        S.append(Scn(name, tmpl, dump=dumps[dump][2] if dump else None, **kw))
    e, u, dd, fl = dumps["elf"], dumps["uelf"], dumps["dd"], dumps["flat"]
    if first:
        add("new", "new {n} {t}", model="new")
        slots = [0, 1, 3] if R.tier == "quick" else [0, 1, 2, 3, 5, 16]
        for k in slots:
            add("clone0s%d" % k, "clone0s%d {n} {t}" % k, model="clone 0 %d" % k)
            add("clonexs%d" % k, "clonexs%d {n} {t}" % k, model="clone 1 %d" % k)
        for kind in ("str", "num", "sub", "vmci", "iter", "nfiles%d" % R.rng.randint(2, 5)):
            add("attr-" + kind, "attr {n} {t} " + kind, model=("nfiles " + kind[6:]) if kind.startswith("nfiles") else None)
        add("sysinit", "sysinit {n} {t}")
    add("clone0-elf", "clone0 {n} {t} %s %s" % (e[0], pl(e[1])), "elf")
    add("clonex-elf", "clonex {n} {t} %s %s" % (e[0], pl(e[1])), "elf")
    add("clonex-dd", "clonexs1 {n} {t} %s %s" % (dd[0], pl(dd[1])), "dd")
    add("open-elf", "open {n} {t} %s -1 %s" % (e[0], pl(e[1])), "elf")
    en = dumps["elfn"]
    add("open-elf-notes", "open {n} {t} %s -1 %s" % (en[0], pl(en[1])), "elfn")
    add("open-elf-nommap", "open {n} {t} %s 0 %s" % (e[0], pl(e[1])), "elf")
    add("open-dd", "open {n} {t} %s -1 %s" % (dd[0], pl(dd[1])), "dd")
    add("open-flat", "open {n} {t} %s -1 %s" % (fl[0], pl(fl[1])), "flat")
    fm = dumps["flatmany"]
    add("open-flat-many", "open {n} {t} %s -1 %s" % (fm[0], pl(fm[1])), "flatmany")
    if R.tier != "quick":
        add("reopen-flat-many", "open {n} {t} %s -1 %s 1 0 %s" % (fm[0], pl(fm[1]), fl[0]), "flatmany")
    add("read-elf", "read {n} {t} %s -1 1 0 0 %s" % (e[0], pl(e[1])), "elf")
    add("read-kv-elf", "read {n} {t} %s -1 2 %d 0 %s" % (e[0], VOFF, pl(e[1])), "elf", addrxlat=True)
    add("read-uelf", "read {n} {t} %s 0 1 0 0 %s" % (u[0], pl(u[1])), "uelf")
    add("read-dd", "read {n} {t} %s -1 1 0 2 %s" % (dd[0], pl(dd[1])), "dd")
    add("read-dd-kphys", "read {n} {t} %s -1 0 0 0 %s" % (dd[0], pl(dd[1])), "dd", addrxlat=True)
    add("read-flat", "read {n} {t} %s 0 1 0 0 %s" % (fl[0], pl(fl[1])), "flat")
    add("xlat-elf", "xlat {n} {t} %s %s" % (e[0], pl(e[1])), "elf", addrxlat=True)
    add("xlat-dd", "xlat {n} {t} %s %s" % (dd[0], pl(dd[1])), "dd", addrxlat=True)
    add("free-elf", "free {n} {t} %s 2" % e[0], "elf")
    # generated LKCD / SADUMP / s390 dumps: open (also on an object that has clones, and on one whose earlier open
    # failed), clone, read through a clone, attribute changes that re-allocate buffers, lazily built attributes
    lk, sa, z, junk = dumps["lkcd"], dumps["sadump"], dumps["s390"], dumps["junk"]
    rng = R.rng
    ncl = rng.randint(1, 3)
    add("open-lkcd-gen", "open {n} {t} %s -1 %s" % (lk[0], pl(lk[1])), "lkcd")
    add("open-lkcd-clones", "open {n} {t} %s -1 %s 1 %d" % (lk[0], pl(lk[1]), ncl), "lkcd")
    add("open-sadump-gen", "open {n} {t} %s %d %s" % (sa[0], rng.choice([-1, 0]), pl(sa[1])), "sadump")
    add("open-s390", "open {n} {t} %s -1 %s" % (z[0], pl(z[1])), "s390")
    nm, tgt = rng.choice([("lkcd", lk), ("sadump", sa), ("dd", dd), ("elf", e)])
    add("reopen-junk-" + nm, "open {n} {t} %s -1 %s 1 %d !%s" % (tgt[0], pl(tgt[1]), rng.randint(0, 1), junk[0]), nm)
    # ... and on an object that has another dump open (the first one must be closed, whatever fails later)
    (n1, first_d), (n2, second_d) = rng.sample([("lkcd", lk), ("sadump", sa), ("dd", dd), ("elf", e), ("s390", z)], 2)
    add("reopen-%s-%s" % (n1, n2), "open {n} {t} %s -1 %s 1 %d %s" % (second_d[0], pl(second_d[1]), rng.randint(0, 1), first_d[0]), n2)
    add("clone0-lkcd-gen", "clone0 {n} {t} %s %s" % (lk[0], pl(lk[1])), "lkcd")
    add("clonex-lkcd-gen", "clonex {n} {t} %s %s" % (lk[0], pl(lk[1])), "lkcd")
    rd = list(lk[1])
    if rng.random() < 0.5:
        rng.shuffle(rd)
    add("read-lkcd", "read {n} {t} %s -1 1 0 %d %s %d" % (lk[0], rng.choice([0, 2]), pl(rd), rng.randint(0, 2)), "lkcd")
    add("read-sadump", "read {n} {t} %s 0 1 0 0 %s 1" % (sa[0], pl(sa[1])), "sadump")
    add("read-s390", "read {n} {t} %s 0 1 0 2 %s" % (z[0], pl(z[1])), "s390")
    add("pgsz-lkcd", "setattr {n} {t} %s -1 %s %d arch.page_size %d 4096" % (lk[0], pl(lk[1]), ncl, rng.choice([8192, 16384, 2048])), "lkcd",
        model="pgsz")
    add("cachesz-lkcd", "setattr {n} {t} %s -1 %s %d cache.size %d 7" % (lk[0], pl(lk[1]), rng.randint(0, 2), rng.randint(1, 9)), "lkcd")
    add("cachesz-dd", "setattr {n} {t} %s -1 %s %d cache.size %d 7" % (dd[0], pl(dd[1]), rng.randint(0, 2), rng.randint(1, 9)), "dd")
    add("maxpfn-lkcd", "getattr {n} {t} %s -1 %s %d max_pfn" % (lk[0], pl(lk[1]), rng.randint(0, 1)), "lkcd")
    add("mempagemap-dd", "getattr {n} {t} %s -1 %s %d memory.pagemap %s" % (dd[0], pl(dd[1]), rng.randint(0, 1), pl(range(12))), "dd", model="pmap")
    add("filepagemap-dd", "getattr {n} {t} %s 0 %s 0 file.pagemap %s" % (dd[0], pl(dd[1]), pl(dd[1])), "dd")
    add("mempagemap-sadump", "getattr {n} {t} %s 0 %s %d memory.pagemap %s" % (sa[0], pl(sa[1]), rng.randint(0, 1), pl(dumps["sadump-ram"])),
        "sadump", model="pmap")
    add("filepagemap-sadump", "getattr {n} {t} %s -1 %s 0 file.pagemap %s" % (sa[0], pl(sa[1]), pl(sa[1])), "sadump")
    add("filepagemap-elf", "getattr {n} {t} %s -1 %s 0 file.pagemap %s" % (e[0], pl(e[1]), pl(e[1])), "elf")
    # a set of files (split diskdump): the file.set.<N> slots are created inside the call; then one file through the same object,
    # then the set again.  Also on an object that has some slots registered already (the first NEW slot is then not slot 0).
    spl = dumps["split"]
    nsp = spl[0].count(",") + 1
    one_nm, one = rng.choice([("elf", e), ("dd", dd)])
    add("fdset-split", "fdset {n} {t} %s %d %s %s %s 0" % (spl[0], rng.choice([-1, 0]), pl(spl[1]), one[0], pl(one[1])), "split")
    add("fdset-split-pre", "fdset {n} {t} %s -1 %s %s %s %d" % (spl[0], pl(spl[1]), one[0], pl(one[1]), rng.randint(1, nsp - 1)), "split")
    add("free-lkcd", "free {n} {t} %s 0" % lk[0], "lkcd")
    if first and R.tier != "quick":
        # a memory bitmap with more than 2 * RGN_ALLOC_INC runs: the region array is grown three times
        pages = sorted(rng.sample(range(1, 40), 4))
        ram = sorted(set(range(0, 4200, 2)) | set(pages))
        p = R.path("c18-big.dd")
        dumpgen.write_diskdump(p, pages, max_mapnr=4200, ram=ram, methods={q: "raw" for q in pages})
        S.append(Scn("mempagemap-dd-big", "getattr {n} {t} %s -1 %s 1 memory.pagemap %s" % (p, pl(pages), pl(ram)),
                     dump=dict(writer="write_diskdump", pages=pages, max_mapnr=4200, ram_list=ram, methods={q: "raw" for q in pages},
                               vmcoreinfo=False), model="pmap"))
    if first:
        for c in ([1, 2, 3] if R.tier == "quick" else [1, 2, 3, 4, 6]):
            add("slot-c%d" % c, "slot {n} {t} %d %d %d" % (c, rng.choice([24, 4096, 65536]), rng.randint(0, 2)), model="slot %d" % c)
    if R.tier != "quick":
        em = dumps["elfm"]
        add("open-elfm", "open {n} {t} %s %d %s" % (em[0], R.rng.choice([-1, 0, 1]), pl(em[1])), "elfm")
        add("clonex-elfm", "clonexs2 {n} {t} %s %s" % (em[0], pl(em[1])), "elfm")
        add("open2-dd", "open {n} {t} %s 1 %s 2" % (dd[0], pl(dd[1])), "dd")        # the failing open twice, then the follow-up
        add("open2-elf", "open {n} {t} %s -1 %s 3" % (e[0], pl(e[1])), "elf")
        add("read-elf-mmap", "read {n} {t} %s 1 1 0 0 %s" % (e[0], pl(e[1])), "elf")
        add("read-dd-nommap", "read {n} {t} %s 0 1 0 3 %s" % (dd[0], pl(dd[1])), "dd")
    if first:
        # formats without a generator: the library's own test dumps, when the tree has been built
        out = os.path.join(kdf.REPO, "tests", "out")
        for nm, fn in (("lkcd", "lkcd-basic-raw.dump"), ("sadump", "sadump-basic-single.dump")):
            fp = os.path.join(out, fn)
            if os.path.exists(fp):
                S.append(Scn("open-" + nm, "open {n} {t} %s -1 -" % fp, dump=dict(file="tests/out/" + fn), optional=True))
                S.append(Scn("clone0-" + nm, "clone0 {n} {t} %s -" % fp, dump=dict(file="tests/out/" + fn), optional=True))
    return S


def run_lines(R, exe, lines, par=None):
    """run case lines on several harness processes; returns observation lines in order"""
    par = par or max(1, min(kdf.NCPU, 8))
    chunks = [lines[i::par] for i in range(par)]
    def one(ch):
        if not ch:
            return []
        rc, out, err = R.run_harness(exe, stdin_text="\n".join(ch) + "\n", timeout=1200)
        o = kdf.obs(out)
        if rc != 0:
            raise kdf.CheckBroken("s_oom stopped rc=%s: %s" % (rc, err[-800:]))
        return o
    with concurrent.futures.ThreadPoolExecutor(par) as ex:
        res = list(ex.map(one, chunks))
    # de-interleave: each case gives 1 line (+1 trace line when t=1)
    outs = [None] * len(lines)
    for ci, ch in enumerate(chunks):
        o, k = res[ci], 0
        for j, ln in enumerate(ch):
            want = 2 if ln.split()[3] == "1" else 1
            outs[ci + j * par] = o[k:k + want]
            k += want
        if k != len(o):
            raise kdf.CheckBroken("s_oom printed %d lines for %d expected" % (len(o), k))
    return outs


def judge(sc, n, f):
    """the property on one observation; returns list of symptoms (empty = holds)"""
    sym = []
    inj = int(f["inj"]) > 0
    ret = f["ret"].split("C16")[0].strip()
    if f["end"] != "done":
        sym.append(f["end"].split("@")[0].replace(":", "-") + "@" + f["end"].split("@")[-1])
        return sym
    okret = ret in ("ok", "obj", "void")
    if inj and okret and int(f.get("shrink", 0)) < int(f["inj"]):
        # (a refused request to make a block SMALLER may be ignored by the caller: everything else is still required)
        sym.append("success-despite-failed-allocation")
    if inj and not okret and not (ret in FAIL_OK or (sc.addrxlat and ret == "addrxlat")):
        sym.append("status-" + ret)
    if not inj and ret != sc.clean["ret"].split("C16")[0].strip():
        sym.append("differs-from-clean-run-without-fault:" + ret)
    if f["locks"] != "0":
        sym.append("lock-held")
    elif f["leak"] != "0":
        sym.append("leak")
    if f["follow"] != "ok":
        sym.append("survivor-" + re.sub(r"0x[0-9a-f]+|\d+", "N", f["follow"]))
    return sym


def run(R):
    facts, changed = R.extract()
    proof = R.prove(["Kdf.Props.C18", "Kdf.Props.C10", "Kdf.Props.C16"], THEOREMS)
    lib, cflags = R.build_lib()
    exe = R.build_harness("s_oom", ["s_oom.c"], lib=lib, cflags=cflags, ldflags=[kdf.ALLOC_WRAP])
    exe_rgn = R.build_harness("s_oomrgn", ["s_oomrgn.c"], lib=lib, cflags=cflags + ["-ffunction-sections", "-fdata-sections"],
                              ldflags=["-Wl,--gc-sections", kdf.ALLOC_WRAP])
    exe_map = R.build_harness("s_map", ["s_map.c"], lib=lib, cflags=cflags, ldflags=[kdf.ALLOC_WRAP])

    # ------------------------------------------------------------ API-level enumeration
    nsets = 1 if R.tier == "quick" else 200
    S = []
    for i in range(nsets):
        S += scenarios(R, make_dumps(R, i), first=(i == 0))
    clean = run_lines(R, exe, [sc.line(0) for sc in S])
    for sc, o in zip(S, clean):
        sc.clean = fields(o[0])
        sc.N = int(sc.clean["cnt"])
    setup_bad = [(sc.name, sc.clean) for sc in S if sc.clean["end"] != "done" or sc.clean["follow"] != "ok" or sc.clean["leak"] != "0"
                 or sc.clean["locks"] != "0"]
    cases = []
    for sc in S:
        for n in range(1, sc.N + 2):
            cases.append((sc, n))
    outs = run_lines(R, exe, [sc.line(n, 1 if sc.model else 0) for sc, n in cases])
    findings = {}        # (scenario, symptoms) -> [n...]
    per_scn = {}
    obs_by = {}
    injected = 0
    for (sc, n), o in zip(cases, outs):
        f = fields(o[0])
        t = o[1].split(" ", 3) if len(o) > 1 else []
        obs_by[(sc, n)] = (f, t[3] if len(t) > 3 else "")
        sym = judge(sc, n, f)
        injected += int(f["inj"]) > 0
        per_scn.setdefault(sc.name, [0, 0])
        per_scn[sc.name][0] += 1
        if sym:
            per_scn[sc.name][1] += 1
            findings.setdefault((sc, ";".join(sym)), []).append((n, o[0]))
    for name, c in setup_bad:
        sc = [s for s in S if s.name == name][0]
        findings.setdefault((sc, "clean-run-not-clean"), []).append((0, str(c)))
    c16_notes = sorted({"%s n=%s %s" % (sc.name, n, o[0][o[0].index("C16"):].split()[0]) for (sc, n), o in zip(cases, outs) if "C16" in o[0]})
    for (sc, sym), lst in sorted(findings.items(), key=lambda kv: (kv[0][0].name, kv[1][0][0])):
        ns = [n for n, _ in lst]
        n0, line0 = lst[0]
        key = "%s:%s" % (re.sub(r"-\d+$", "", sc.name), sym.split(";")[0].split("@")[0])
        R.violation("%s: failing allocation %s of %d -> %s (first: n=%d: %s)" % (sc.name, ranges(ns), sc.N, sym, n0, line0[:200]),
                    dict(stream="oom", scenario=sc.name, harness_input=sc.line(n0), dump=sc.dump, n=n0, all_n=ns, symptoms=sym,
                         observation=line0, how="build harness/s_oom.c against the library with kdf.ALLOC_WRAP, regenerate the dump with "
                                            "tools/dumpgen.py from 'dump', feed 'harness_input' (KDF_OOM_STDERR=1 shows the sanitizer report)",
                         broken_theorems=proof["broken"]), key=key)

    # ------------------------------------------------------------ model correspondence (traces for every n)
    mlines, mcases = [], []
    for sc in S:
        if not sc.model:
            continue
        if sc.model == "new":
            g = int(re.search(r"nglobal=(\d+)", sc.clean.get("par", "nglobal=0")).group(1))
            x = sc.N - 7 - g
            if x < 0:
                g, x = max(sc.N - 7, 0), 0
            for n in range(0, sc.N + 2):
                mlines.append("new %d %d %d" % (g, x, n)); mcases.append((sc, n))
        elif sc.model.startswith("clone"):
            _, xl, k = sc.model.split()
            m = sc.N - 7 - int(k) if xl == "1" else 0
            for n in range(0, sc.N + 2):
                mlines.append("clone %s %s %d %d" % (xl, k, max(m, 0), n)); mcases.append((sc, n))
        elif sc.model.startswith("slot"):
            for n in range(0, sc.N + 2):
                mlines.append("slot %s %s %d" % (sc.name, sc.model.split()[1], n)); mcases.append((sc, n))
        elif sc.model == "pgsz":
            # contexts = clones + 1; the hook chain runs twice: N = 2 * (contexts + cache blocks)
            c = int(re.search(r"clones=(\d+)", sc.clean.get("par", "clones=0")).group(1)) + 1
            m = max(sc.N // 2 - c, 0)
            for n in range(0, sc.N + 2):
                mlines.append("pgsz %s %d %d %d" % (sc.name, c, m, n)); mcases.append((sc, n))
        elif sc.model.startswith("nfiles"):
            # k new slots of sc.N / k blocks each, kept only as a whole
            k = int(sc.model.split()[1])
            for n in range(0, sc.N + 2):
                mlines.append("nfiles %s %d %d %d" % (sc.name, sc.N // k, k, n)); mcases.append((sc, n))
        elif sc.model == "pmap":
            for n in range(0, sc.N + 2):
                mlines.append("pmap %s %d %d" % (sc.name, sc.N, n)); mcases.append((sc, n))
    tr0 = run_lines(R, exe, [sc.line(0, 1) for sc in S if sc.model])
    k = 0
    for sc in S:
        if sc.model:
            t = tr0[k][1].split(" ", 3); k += 1
            obs_by[(sc, 0)] = (sc.clean, t[3] if len(t) > 3 else "")
    mout = kdf.obs(R.run_driver("oom", "\n".join(mlines) + "\n"))
    mism = None
    traces_ok = 0
    for i, (sc, n) in enumerate(mcases):
        f, tr = obs_by[(sc, n)]
        leak = f["leak"]
        if sc.model == "pmap":
            # the window also holds the bitmap queries made after kdump_get_attr returned; the model is the first
            # call (up to the release of the shared lock); its ledger = blocks obtained and kept by the call
            ev = tr.split()
            if "U0" in ev:
                tr = " ".join(ev[:ev.index("U0") + 1])
            leak = str(sum(1 for x in tr.split() if x[0] == "a") - sum(1 for x in tr.split() if x[0] == "f" and x != "fp"))
        impl_sum = "%s n=%d ret=%s inj=%s cnt=%s locks=%s leak=%s end=%s" % (
            sc.name, n, f["ret"], min(int(f["inj"]), 1), f["cnt"], f["locks"], leak, "done" if f["end"] == "done" else f["end"])
        m = re.search(r"refs=(-?\d+/-?\d+/-?\d+)", f.get("par", ""))
        if sc.model.startswith("clone"):
            impl_sum += " refs=" + (m.group(1) if m else "?")
        impl_tr = "T " + canon_trace(tr)
        msum, mtr = mout[2 * i], mout[2 * i + 1].rstrip()
        if (impl_sum, impl_tr.rstrip()) != (msum, mtr):
            if mism is None:
                mism = dict(scenario=sc.name, n=n, model_input=mlines[i], impl=[impl_sum, impl_tr], model=[msum, mtr])
        else:
            traces_ok += 1

    # ------------------------------------------------------------ add_pfn_region against its model
    rc, out, err = R.run_harness(exe_rgn, stdin_text="inc\n")
    inc = int(kdf.obs(out)[0].split()[1])
    rl = []
    for n0 in sorted({0, 1, inc - 1, inc, inc + 1, 2 * inc, 3 * inc} | {R.rng.randrange(0, 4 * inc) for _ in range(6 if R.tier == "quick" else 40)}):
        rl += ["rgn %d %d 0" % (inc, n0), "rgn %d %d 1" % (inc, n0)]
    rc, out, err = R.run_harness(exe_rgn, stdin_text="\n".join(rl) + "\n")
    rimpl = kdf.obs(out)
    rmodel = kdf.obs(R.run_driver("oom", "\n".join(rl) + "\n"))
    rfail = None
    if rc != 0 or len(rimpl) != len(rl):
        rfail = (min(len(rimpl), len(rl) - 1), "add_pfn_region harness stopped rc=%s: %s" % (rc, err.strip()[:300]))
    else:
        for i, (ln, o) in enumerate(zip(rl, rimpl)):
            _, _, n0, ok = ln.split(); n0 = int(n0)
            need = n0 % inc == 0
            t = fields(o)
            want = "null" if (need and ok == "0") else "ok"
            if o.split()[1] != want or t["kept"] != "true" or int(t["n"]) != (n0 if want == "null" else n0 + 1) or "LEAK" in o:
                rfail = (i, "add_pfn_region on a map of %d regions with the growth allocation %s: '%s' (expected %s, earlier regions intact)"
                            % (n0, "failing" if ok == "0" else "succeeding", o, want))
                break
    if rfail:
        R.violation(rfail[1], dict(stream="oom/rgn", input=rl[rfail[0]], impl=rimpl[rfail[0]:rfail[0] + 1]), key="add_pfn_region")
    rmism = kdf.diff_streams(rimpl, rmodel)

    # ------------------------------------------------------------ translation-map atomicity under allocation failure (C10 machinery)
    seqs = []
    for _ in range(150 if R.tier == "quick" else 20000):
        seq, bounds = [], [0, c10.W - 1]
        for _ in range(R.rng.randint(2, 10)):
            def pick():
                b = R.rng.choice(bounds)
                return min(max(b + R.rng.choice([-1, 0, 0, 1]) if R.rng.random() < 0.7 else R.rng.getrandbits(R.rng.randint(1, 64)), 0), c10.W - 1)
            a, b = sorted((pick(), pick()))
            seq.append(("set", 0, a, b - a, R.rng.choice([-1, 0, 1, 2, 3])))
            bounds += [a, b]
        if R.rng.random() < 0.3:
            seq.append(("copy", 0, 1))
        seqs.append(seq)
    lines, owner = [], []
    for si, s in enumerate(seqs):
        ls = ["new 0", "new 1", "new 2", "new 3"] + c10.to_lines(s, R, None)
        lines += ls; owner += [si] * len(ls)
    text = "\n".join(lines) + "\n"
    rc, out, err = R.run_harness(exe_map, stdin_text=text)
    mimpl = kdf.obs(out)
    mmodel = kdf.obs(R.run_driver("map", text))
    idx, msg = c10.check_property(lines, mimpl)
    if idx is None and (rc != 0 or len(mimpl) != len(lines)):
        idx, msg = len(mimpl), "map harness stopped (rc=%s): %s" % (rc, err.strip().split("\n")[0] if err.strip() else "")
    nomem_sets = sum(1 for o in mimpl if o.startswith("nomem"))
    if idx is not None:
        si = owner[min(idx, len(owner) - 1)]
        first = owner.index(si)
        R.violation("translation map under allocation failure: " + msg,
                    dict(stream="map", sequence=seqs[si], input="\n".join(lines[first:idx + 1]) + "\n", impl_output=mimpl[first:idx + 1],
                         stderr=err[-1200:]), key="map-set-nomem")
    map_mism = kdf.diff_streams(mimpl, mmodel)

    if not R.violations and (proof["broken"] or mism is not None or rmism is not None or map_mism is not None):
        R.violation("proof obligation or correspondence broken: theorems %s; oom trace mismatch %s; rgn %s; map %s"
                    % (proof["broken"], None if mism is None else (mism["scenario"], mism["n"]), rmism, map_mism),
                    dict(stream="oom", broken_theorems=proof["broken"], lean_log=proof["log"][-1500:], first_diff=mism,
                         rgn_first_diff=None if rmism is None else dict(line=rl[rmism], impl=rimpl[rmism:rmism + 1], model=rmodel[rmism:rmism + 1]),
                         map_first_diff=None if map_mism is None else dict(line=lines[map_mism], impl=mimpl[map_mism:map_mism + 1],
                                                                           model=mmodel[map_mism:map_mism + 1])),
                    found_input=False)

    sample = []
    for sc, n in cases[:: max(1, len(cases) // 3)][:3]:
        f = obs_by[(sc, n)][0]
        sample.append(dict(scenario=sc.name, n=n, ret=f["ret"], leak=f["leak"], locks=f["locks"], follow=f["follow"]))
    cov = dict(obligations=proof["obligations"], discharged=proof["discharged"],
               checker_cmd="cd lean && lake build Kdf.Props.C18 Kdf.Props.C10 Kdf.Props.C16 && #print axioms on each theorem",
               trusted_base=["Lean 4 kernel", "axioms: " + ", ".join(sorted({a for v in proof["axioms"].values() for a in v}) or ["none"]),
                             "malloc/calloc/realloc/strdup succeed or fail as scheduled (link-time --wrap); an allocation made through another "
                             "entry point (mmap, posix_memalign, a compression library's own allocator) is not failed",
                             "a realloc that asks for a SMALLER block is failed like any other, but the call may ignore that refusal "
                             "(reported as shrink=k; crash/leak/lock/follow-up rules still apply)",
                             "lock ledger = interposed pthread_rwlock_*/pthread_mutex_* of the calling thread; glibc's EDEADLK answer for a writer "
                             "re-locking its own rwlock is reproduced, a reader upgrading to writer is reported as a deadlock",
                             "harness/s_oom.c, s_oomrgn.c, s_map.c, tools/dumpgen.py, gcc + ASan/UBSan"],
               broken_theorems=proof["broken"], theorems=THEOREMS,
               evaluations=len(cases) + len(rl) + len(lines), distinct_nontrivial=injected,
               rule="for each scenario (create; clone x flags x per-context slots on fresh and opened objects; open ELF/ELF-nommap/diskdump/"
                    "flattened/generated LKCD (v2..v10, raw+RLE, frame gaps)/SADUMP (single, media)/s390 [+ LKCD/SADUMP test dumps of the tree "
                    "when present], also on an object that has clones, on one whose earlier open of a non-dump failed and on one that has a dump of "
                    "another format open; read MACHPHYS/KPHYS/"
                    "KVADDR incl. unaligned ELF through the read cache, compressed diskdump pages, LKCD/SADUMP/s390 pages through a clone; "
                    "arch.page_size and cache.size changed on an open dump with clones and put back; first query of memory.pagemap / "
                    "file.pagemap / max_pfn (bits compared with the generator's frame sets); per_ctx_alloc on 1..3 contexts; "
                    "translation set-up; six attribute operations (incl. file.set.number raised by 2..5 files, resized afterwards); a set of "
                    "2..3 split diskdump files opened by kdump_open_fdset on a fresh object and on one with slots registered before, followed by "
                    "a single-file open through a one-element descriptor array and the set again, the file.set.<N> slots checked against "
                    "file.set.number each time; addrxlat sys_os_init; free) the "
                    "clean run is counted (N allocations) and every n in 1..N+1 is failed in a forked child: status/NULL, crash or sanitizer "
                    "report, lock ledger at return, leak after freeing the survivors, follow-up calls on the survivors (attributes, full page "
                    "sweep against generator content, re-open after a failed open); non-trivial = cases in which an allocation really failed",
               traces_validated_against_impl=traces_ok + (len(rimpl) if rmism is None else rmism) + (len(mimpl) if map_mism is None else map_mism),
               correspondence_first_diff=mism, scenarios={k: dict(cases=v[0], failing=v[1]) for k, v in sorted(per_scn.items())},
               allocations_per_scenario={sc.name: sc.N for sc in S}, map_sets_refused_for_lack_of_memory=nomem_sets,
               c16_notes=c16_notes[:12], optional_scenarios=[sc.name for sc in S if sc.optional],
               samples=sample)
    return "proof", cov, ["exactly one allocation fails per call (the property's fault model)",
                          "the modelled constructors are kdump_new, kdump_clone, alloc_ctx, attr_dict_new, xlat_new/xlat_clone, add_pfn_region, "
                          "per_ctx_alloc/per_ctx_free, num_files_pre_hook growing the file set (numFilesGrow), "
                          "lkcd_realloc_compressed + def_realloc_caches (arch.page_size on an open LKCD dump), "
                          "mem_pagemap_revalidate (locks and region-array growth); all other allocation sites are enumerated and observed, not proved",
                          "implementation-only (no model): open/read of LKCD, SADUMP, s390; re-open after a failed open; cache.size changes; "
                          "kdump_open_fdset on a set of files and the opens that follow it (the file-set consistency test reads struct attr_data); "
                          "file.pagemap and max_pfn queries; the LKCD page index (search_page_desc); the growth of the per-file offset array of a "
                          "flattened dump (open-flat-many: every allocation of the open fails once, the object is then re-opened and freed)",

                          "single-threaded: lock findings are self-deadlocks / holds at return, not races (C05)"]


def ranges(ns):
    ns = sorted(ns)
    out, i = [], 0
    while i < len(ns):
        j = i
        while j + 1 < len(ns) and ns[j + 1] == ns[j] + 1:
            j += 1
        out.append("%d" % ns[i] if i == j else "%d..%d" % (ns[i], ns[j]))
        i = j + 1
    return ",".join(out)


def replay(R, path):
    """re-run one recorded case (stream `oom`) on the current tree: regenerates the dump from the
    recorded generator arguments, feeds the recorded harness line, prints the observation"""
    import json
    rp = json.load(open(path))
    if rp.get("stream") != "oom" or "harness_input" not in rp:
        print("replay: stream %s is replayed by feeding 'input' to the harness named in the file" % rp.get("stream"))
        return 2
    lib, cflags = R.build_lib()
    exe = R.build_harness("s_oom", ["s_oom.c"], lib=lib, cflags=cflags, ldflags=[kdf.ALLOC_WRAP])
    line = rp["harness_input"]
    d = rp.get("dump")
    if d and "writer" in d:
        p = R.path("replay.dump")
        if d["writer"] == "write_elf":
            dumpgen.write_elf(p, d["segs"], machine=d.get("machine", "x86_64"), elfclass=d.get("elfclass", 64), be=d.get("be", False),
                              notes=dumpgen.std_notes() if d.get("notes") == "std_notes" else b"")
        elif d["writer"] == "write_elf_unaligned":
            dumpgen.write_elf_unaligned(p, d["pfn"], d["npages"], shift=d["shift"])
        elif d["writer"] == "write_lkcd":
            dumpgen.write_lkcd(p, [dict(pfn=q, data=dumpgen.page_bytes(q, 4096), kind=d["kinds"][str(q)]) for q in d["order"]],
                               version=d["version"], compression=d["compression"])
        elif d["writer"] == "write_sadump":
            dumpgen.write_sadump([p], {q: dumpgen.page_bytes(q, 4096) for q in d["pages"]}, ram=d["ram"], max_mapnr=d["max_mapnr"],
                                 kind=d["kind"], nr_cpus=d["nr_cpus"])
        elif d["writer"] == "write_diskdump_split":
            sp = []
            for k in range(len(d["cuts"]) - 1):
                q = R.path("replay.split%d" % k)
                dumpgen.write_diskdump(q, d["pages"], max_mapnr=d["max_mapnr"], ram=range(d["ram"]), split=(d["cuts"][k], d["cuts"][k + 1]))
                sp.append(q)
            w = line.split()
            one = R.path("replay.one")
            ps1 = [int(x, 0) // 4096 for x in w[8].split(",")] if w[8] != "-" else []
            dumpgen.write_elf(one, [dict(pfn=q, npages=1, voff=VOFF) for q in ps1] or [dict(pfn=1, npages=1, voff=VOFF)])
            w[4], w[7] = ",".join(sp), one
            line, p = " ".join(w), None
        elif d["writer"] == "write_s390":
            dumpgen.write_s390(p, {q: dumpgen.page_bytes(q, 4096) for q in range(d["npages"])}, d["npages"])
        else:
            meth = {int(k): v for k, v in d["methods"].items()}
            dumpgen.write_diskdump(p, d["pages"], max_mapnr=d["max_mapnr"], ram=d["ram_list"] if "ram_list" in d else range(d["ram"]), methods=meth,
                                   vmcoreinfo=b"OSRELEASE=5.4.0-verif\nPAGESIZE=4096\n" if d.get("vmcoreinfo") else None,
                                   flattened=d.get("flattened"))
        if " !" in line:            # the file that is not a dump (any will do)
            j = R.path("replay.junk")
            open(j, "wb").write(bytes(range(1, 256)) + b"\0" * 70000)
            line = re.sub(r" !\S+", " !" + j, line)
        if p is not None:
            line = re.sub(r"(?<!!)/var/tmp/kdfverif\.\S+", p, line)
    elif d and "file" in d:
        line = re.sub(r"\S*/tests/out/\S+", os.path.join(kdf.REPO, d["file"]), line)
    rc, out, err = R.run_harness(exe, stdin_text=line + "\n")
    o = kdf.obs(out)
    print("replay:", line)
    print("observed:", o[0] if o else (rc, err[-400:]))
    print("recorded:", rp.get("observation"))
    f = fields(o[0]) if o else None
    bad = not f or f["end"] != "done" or f["locks"] != "0" or f["leak"] != "0" or f["follow"] != "ok" or \
        (int(f["inj"]) > int(f.get("shrink", 0)) and f["ret"].split("C16")[0].strip() in ("ok", "obj"))
    if bad:
        print("VIOLATION property=C18 replay=%s" % path)
    return 1 if bad else 0
