"""C16, flow family: 64-bit size fields of a corrupt dump that reach an allocation (ctx_malloc and friends).

Every size class (small and valid, larger than the file, 2^31, 2^32, 2^47, 2^62, 2^63-1, 2^63, 2^63+k, 2^64-1, random) is written
into
  * the VMCOREINFO entry of the os_info page of an s390x ELF dump (magic and checksum valid), reached by
    kdump_set_attr("addrxlat.ostype", "linux") -- the status of the hook comes back to the API unwrapped;
  * n_descsz / n_namesz of the VMCOREINFO ELF note the s390x lowcore points to (LC_VMCORE_INFO), same call;
  * sh_size of the section-name string table of an ELF dump with sections (open path).
The monitor of harness/s_flow.c says ` C16:empty-message` when a failing call leaves no text; on top of that the chain of a
failing call must tell about the object whose size was absurd (expectation `need`), not only the file name and a strerror.
The allocation step itself is modelled by Kdf.Model.ErrFlow.ctxMalloc (driver line `alloc`)."""
import os, struct
import dumpgen

M64 = (1 << 64) - 1


def size_classes(rng, file_size):
    k = rng.randrange(1, 1 << 20)
    cs = [("small", rng.choice([1, 8, 37, 64])), ("larger than the file", file_size + rng.randrange(1, 4096)),
          ("2^31", 1 << 31), ("2^32", 1 << 32), ("2^32+k", (1 << 32) + k), ("2^47", 1 << 47), ("2^62", 1 << 62), ("2^63-1", (1 << 63) - 1),
          ("2^63", 1 << 63), ("2^63+k", (1 << 63) + k), ("2^64-k", (M64 - k) & M64), ("2^64-1", M64),
          ("random above 2^63", (1 << 63) | rng.getrandbits(63)), ("random 64-bit", rng.getrandbits(64) | 1)]
    return cs


def add(R, rng, L, ddesc):
    """appends the calls to L (harness lines of stream flow) and the dump descriptions to ddesc;
    returns the expectations: list of (index of the call line in L, text the error chain must contain, what)"""
    quick = R.tier == "quick"
    exp = []
    ps = 4096
    # ---- (a) s390x ELF dump, no VMCOREINFO note: os_info of the lowcore
    for ci, (cls, size) in enumerate(size_classes(rng, 3 * ps)):
        addr = rng.choice([0x100, 0x1000, 0x2000 - 8, 0x2100])
        p = R.path("c16-s390-osinfo-%d.elf" % ci)
        desc = dumpgen.c16_write_s390x_elf(p, vmci_addr=addr, vmci_size=size)
        ddesc[p] = desc
        L.append("open " + p)
        if size >= 1 << 47:       # no allocator can give that much (user address space / PTRDIFF_MAX): the model is told malloc failed
            L.append("M alloc %d 0" % size)
        L.append("setstr addrxlat.ostype linux")
        exp.append((len(L) - 1, "VMCOREINFO", "os_info VMCOREINFO entry size %#x (%s)" % (size, cls)))
        L.append("get linux.vmcoreinfo.raw")
    # ---- (a') the VMCOREINFO note of the lowcore (32-bit fields: their sum does not wrap in size_t, swept over the 32-bit classes)
    for ci, (namesz, descsz) in enumerate([(11, 37), (11, 0xffffffff), (0xffffffff, 0xffffffff), (0xfffffffd, 8),
                                            (11, 1 << 31), (rng.getrandbits(32), rng.getrandbits(32))]):
        p = R.path("c16-s390-note-%d.elf" % ci)
        ddesc[p] = dumpgen.c16_write_s390x_elf(p, note=(namesz, descsz))
        L += ["open " + p, "setstr addrxlat.ostype linux"]
        exp.append((len(L) - 1, "", "lowcore VMCOREINFO note namesz=%#x descsz=%#x" % (namesz, descsz)))
    # ---- (b) sh_size of the section-name string table (open path)
    for ci, (cls, size) in enumerate(size_classes(rng, 2 * ps)):
        p = R.path("c16-strtab-%d.elf" % ci)
        ddesc[p] = dumpgen.c16_write_elf_strtab(p, size)
        L += ["open " + p]
        exp.append((len(L) - 1, "" if cls == "small" else "ELF string table", "sh_size of .shstrtab %#x (%s)" % (size, cls)))
    return exp


def verdict(L, obs, exp, ddesc):
    """the expectation on the text of failing calls: (message, replay) or None"""
    idx = {}
    n = 0
    for k, l in enumerate(L):
        if l.startswith("M ") or l.startswith("failat "):
            continue
        idx[k] = n
        n += 1
    for k, need, what in exp:
        i = idx.get(k)
        if i is None or i >= len(obs):
            continue
        head, _, msg = obs[i].partition(" | ")
        st = head.split()[1] if len(head.split()) > 1 else "?"
        if st == "ok":
            continue
        if msg.strip() in ("", "-") or need not in msg:
            k0 = max(j for j in range(k + 1) if L[j].startswith("open "))
            path = L[k0][5:]
            return ("public call '%s' failed with '%s': the error chain %s (%s; dump: %s)" % (
                        L[k][:100], obs[i][:200], "is empty" if msg.strip() in ("", "-") else "does not name '%s'" % need, what, ddesc.get(path, "?")[:300]),
                    dict(stream="flow", input="\n".join(l for l in L[k0:k + 1]).replace(os.path.dirname(path) + "/", ""), size_field=what,
                         dump=ddesc.get(path), dump_bytes_hex=open(path, "rb").read().hex() if os.path.getsize(path) <= 16384 else None))
    return None
