"""Dump-file writers used by the generators (not part of any proof).

Content convention shared with the Lean driver (lean/Driver/Content.lean) and
the property checks: the byte stored at physical address `pa` is
`content_byte(pa)` unless `pa` is in the explicit NUL set."""
import struct

M64 = (1 << 64) - 1


def content_byte(pa):
    x = (pa * 0x9E3779B97F4A7C15 + 0x1234567) & M64
    b = x >> 56
    return b if b else 1


def page_bytes(pfn, ps, nuls=()):
    base = pfn * ps
    b = bytearray(content_byte(base + i) for i in range(ps))
    for a in nuls:
        if base <= a < base + ps:
            b[a - base] = 0
    return bytes(b)


def fnv(data):
    h = 0xcbf29ce484222325
    for c in data:
        h = ((h ^ c) * 0x100000001b3) & M64
    return h


EM = dict(x86_64=62, i386=3, aarch64=183, ppc64=21, s390x=22, arm=40, riscv64=243, alpha=0x9026)


def write_elf(path, segs, ps=4096, machine="x86_64", elfclass=64, be=False, nuls=(), notes=b"",
              etype=4, phpad=0):
    """segs: list of dicts(pfn=, npages=, voff=<virt - phys>, filepages=<npages with file data, default all>)
    Page-aligned PT_LOAD segments; returns nothing."""
    E = ">" if be else "<"
    nph = len(segs) + (1 if notes else 0)
    if elfclass == 64:
        ehsz, phsz = 64, 56
    else:
        ehsz, phsz = 52, 32
    # phpad: e_phentsize is that much larger than the program header structure (the ELF specification lets the file
    # header declare the entry size); the extra bytes of every entry are junk
    base_phsz, phsz = phsz, phsz + phpad
    hdr_end = ehsz + nph * phsz
    off = (hdr_end + len(notes) + ps - 1) // ps * ps
    ph = b""
    body = []
    if notes:
        if elfclass == 64:
            ph += struct.pack(E + "IIQQQQQQ", 4, 0, hdr_end, 0, 0, len(notes), len(notes), 0)
        else:
            ph += struct.pack(E + "IIIIIIII", 4, hdr_end, 0, 0, len(notes), len(notes), 0, 0)
    for s in segs:
        if "paddr" in s:                      # byte-granular segment
            pa, filesz, memsz = s["paddr"], s["filesz"], s["memsz"]
        else:
            pa = s["pfn"] * ps
            memsz = s["npages"] * ps
            filesz = s.get("filepages", s["npages"]) * ps
        va = (pa + s.get("voff", 0)) & (M64 if elfclass == 64 else 0xffffffff)
        if elfclass == 64:
            ph += struct.pack(E + "IIQQQQQQ", 1, 7, off, va, pa, filesz, memsz, ps)
        else:
            ph += struct.pack(E + "IIIIIIII", 1, off, va, pa, filesz, memsz, 7, ps)
        body.append((off, pa, filesz, s.get("data")))
        off += (filesz + ps - 1) // ps * ps
    ident = b"\x7fELF" + bytes([2 if elfclass == 64 else 1, 2 if be else 1, 1, 0]) + b"\0" * 8
    if elfclass == 64:
        eh = ident + struct.pack(E + "HHIQQQIHHHHHH", etype, EM.get(machine, machine), 1, 0, ehsz, 0, 0, ehsz, phsz, nph, 0, 0, 0)
    else:
        eh = ident + struct.pack(E + "HHIIIIIHHHHHH", etype, EM.get(machine, machine), 1, 0, ehsz, 0, 0, ehsz, phsz, nph, 0, 0, 0)
    if phpad:
        ph = b"".join(ph[i:i + base_phsz] + b"\xee" * phpad for i in range(0, len(ph), base_phsz))
    with open(path, "wb") as f:
        f.write(eh + ph + notes)
        nulset = set(nuls)
        for o, pa, n, explicit in body:
            f.seek(o)
            if explicit is not None:
                f.write(bytes(explicit[:n]).ljust(n, b"\0"))
            elif pa % ps == 0 and n % ps == 0:
                for i in range(n // ps):
                    f.write(page_bytes(pa // ps + i, ps, nuls))
            else:
                f.write(bytes(0 if (pa + i) in nulset else content_byte(pa + i) for i in range(n)))
        f.truncate(max(off, f.tell()))


# ---------------------------------------------------------------- diskdump / KDUMP
import zlib

DH_ZLIB, DH_LZO, DH_SNAPPY, DH_ZSTD = 0x1, 0x2, 0x4, 0x20


def snappy_literal(data):
    """valid snappy stream consisting of literals only"""
    n = len(data)
    out = bytearray()
    v = n
    while True:                       # uncompressed length varint
        b = v & 0x7f
        v >>= 7
        out.append(b | (0x80 if v else 0))
        if not v:
            break
    pos = 0
    while pos < n:
        k = min(n - pos, 65536)
        if k <= 60:
            out.append((k - 1) << 2)
        elif k <= 256:
            out += bytes([60 << 2, k - 1])
        else:
            out += bytes([61 << 2, (k - 1) & 0xff, (k - 1) >> 8])
        out += data[pos:pos + k]
        pos += k
    return bytes(out)


def zstd_raw(data):
    """valid zstd frame with one raw block (single-segment, 2-byte content size)"""
    n = len(data)
    assert 256 <= n <= 65535 + 256 and n < (1 << 21)
    fhd = (1 << 6) | (1 << 5)          # FCS field size 2 bytes, single segment
    hdr = struct.pack("<IB", 0xFD2FB528, fhd) + struct.pack("<H", n - 256)
    bh = (n << 3) | 1                  # last block, raw
    return hdr + struct.pack("<I", bh)[:3] + data


def compress_page(data, method, level=None):
    if method == "raw":
        return data, 0
    if method == "zlib":
        return zlib.compress(data), DH_ZLIB
    if method == "zlib-stored":
        return zlib.compress(data, 0), DH_ZLIB
    if method == "snappy":
        return snappy_literal(data), DH_SNAPPY
    if method == "zstd":
        return zstd_raw(data), DH_ZSTD
    if method == "lzo":
        return data, DH_LZO             # not decodable: exercises the NOTIMPL exit
    if method == "zlib-bad":
        return bytes((b * 7 + 3) & 0xff for b in data[:100]), DH_ZLIB     # flagged zlib, does not inflate
    raise ValueError(method)


def write_diskdump(path, pages, ps=4096, max_mapnr=None, ram=None, version=6, machine="x86_64",
                   split=None, nuls=(), methods=None, vmcoreinfo=None, flattened=None, be=False, bits=64,
                   phys_base=0, nr_cpus=1):
    """pages: iterable of pfns stored in the file.  ram: pfns marked as RAM in the first
    bitmap (default: pages).  split=(start_pfn, end_pfn): this file carries descriptors for
    that window only.  methods: dict pfn -> compression method (default raw).
    flattened: None | dict(chunk=<bytes per record>, order='fwd'|'rev'|'shuffle', rng=random)"""
    E = ">" if be else "<"
    pages = sorted(set(pages))
    ram = sorted(set(ram if ram is not None else pages) | set(pages))
    if max_mapnr is None:
        max_mapnr = (max(ram) + 1) if ram else 1
    bmp_bytes = (max_mapnr + 7) // 8
    bmp_blocks1 = max(1, (bmp_bytes + ps - 1) // ps)
    bitmap_blocks = 2 * bmp_blocks1
    b1 = bytearray(bmp_blocks1 * ps)
    b2 = bytearray(bmp_blocks1 * ps)
    for p in ram:
        if p < max_mapnr:
            b1[p >> 3] |= 1 << (p & 7)
    for p in pages:
        b2[p >> 3] |= 1 << (p & 7)
    sub_hdr_size = 1
    uts = [b"Linux", b"verif", b"5.4.0-verif", b"#1 SMP", machine.encode(), b"(none)"]
    hdr = b"KDUMP   " + struct.pack(E + "i", version) + b"".join(u.ljust(65, b"\0") for u in uts)
    if bits == 64:
        hdr += b"\0" * 6 + struct.pack(E + "QQ", 0, 0)
    else:
        hdr += b"\0" * 2 + struct.pack(E + "II", 0, 0)
    hdr += struct.pack(E + "IiiIIIIIIi", 0, ps, sub_hdr_size, bitmap_blocks, max_mapnr & 0xffffffff,
                       len(ram), 0, 0, 0, nr_cpus)
    pdoff = (1 + sub_hdr_size + bitmap_blocks) * ps
    if split:
        spfn, epfn = split
        mine = [p for p in pages if spfn <= p < epfn]
    else:
        spfn, epfn = 0, 0
        mine = pages
    dataoff = pdoff + 24 * len(mine)
    dataoff = (dataoff + ps - 1) // ps * ps
    vmci_off = vmci_size = 0
    blobs = b""
    if vmcoreinfo:
        vmci_off = (1 + sub_hdr_size) * ps - 0      # placed right after data, fixed below
    descs = bytearray()
    data = bytearray()
    for p in mine:
        raw = page_bytes(p, ps, nuls)
        c, flags = compress_page(raw, (methods or {}).get(p, "raw"))
        descs += struct.pack(E + "QIIQ", dataoff + len(data), len(c), flags, 0)
        data += c
    end = dataoff + len(data)
    if vmcoreinfo:
        vmci_off, vmci_size = end, len(vmcoreinfo)
        blobs = vmcoreinfo
    if bits == 64:
        sub = struct.pack(E + "QiiQQQQQQQQQQQ", phys_base, 0, 1 if split else 0,
                          spfn if version < 6 else 0, epfn if version < 6 else 0,
                          vmci_off, vmci_size, 0, 0, 0, 0, spfn, epfn, max_mapnr)
    else:
        sub = struct.pack(E + "IiiIIQIQIQIQQQ", phys_base, 0, 1 if split else 0,
                          spfn if version < 6 else 0, epfn if version < 6 else 0,
                          vmci_off, vmci_size, 0, 0, 0, 0, spfn, epfn, max_mapnr)
    img = bytearray(end + len(blobs))
    img[0:len(hdr)] = hdr
    img[ps:ps + len(sub)] = sub
    img[(1 + sub_hdr_size) * ps:(1 + sub_hdr_size) * ps + len(b1)] = b1
    img[(1 + sub_hdr_size + bmp_blocks1) * ps:(1 + sub_hdr_size + bmp_blocks1) * ps + len(b2)] = b2
    img[pdoff:pdoff + len(descs)] = descs
    img[dataoff:dataoff + len(data)] = data
    img[end:] = blobs
    if flattened:
        write_flattened(path, bytes(img), **flattened)
    else:
        with open(path, "wb") as f:
            f.write(img)
    return dict(pdoff=pdoff, dataoff=dataoff, size=len(img))


def write_flattened(path, img, chunk=4096, order="fwd", rng=None, holes=(), rewrites=0):
    """makedumpfile flattened format: 4096-byte header, records (offset, size, data), END."""
    recs = []
    pos = 0
    while pos < len(img):
        k = chunk if not rng else rng.choice([chunk, max(16, chunk // 3), chunk * 2 + 5, 1 + rng.randrange(chunk)])
        k = min(k, len(img) - pos)
        if not any(lo <= pos < hi for lo, hi in holes):
            recs.append((pos, img[pos:pos + k]))
        pos += k
    if order == "rev":
        recs.reverse()
    elif order == "shuffle" and rng:
        rng.shuffle(recs)
    # overlapping rewrites: an early record with stale bytes that a later record overwrites
    for _ in range(rewrites):
        if rng and recs:
            i = rng.randrange(len(recs))
            off, d = recs[i]
            recs.insert(rng.randrange(i + 1), (off, bytes((b ^ 0x5a) for b in d)))
    with open(path, "wb") as f:
        f.write((b"makedumpfile".ljust(16, b"\0") + struct.pack(">qq", 1, 1)).ljust(4096, b"\0"))
        for off, d in recs:
            f.write(struct.pack(">qq", off, len(d)) + d)
        f.write(struct.pack(">qq", -1, 0))


def flatten_file(src, dst, **kw):
    write_flattened(dst, open(src, "rb").read(), **kw)


# ---------------------------------------------------------------- C11: explicit flattened record streams
def write_flat_records(path, recs, end=True, trailing=b"", sig=b"makedumpfile", ftype=1, version=1):
    """Flattened file from an explicit record list [(pos, data-bytes)] written in that order.
    A record may also be (pos, size, data) to lie about its size (invalid streams)."""
    with open(path, "wb") as f:
        f.write((sig.ljust(16, b"\0") + struct.pack(">qq", ftype, version)).ljust(4096, b"\0"))
        for r in recs:
            if len(r) == 2:
                pos, data = r
                size = len(data)
            else:
                pos, size, data = r
            f.write(struct.pack(">qq", pos, size) + data)
        if end:
            f.write(struct.pack(">qq", -1, 0))
        f.write(trailing)


def rearrange(recs, size=None):
    """The rearranged file: zeroes, then every record written in stream order."""
    top = max([p + len(d) for p, d in recs] + [size or 0])
    img = bytearray(top)
    for p, d in recs:
        img[p:p + len(d)] = d
    return bytes(img)


def segment_image(img, rng, cuts=(), max_rec=9000, order="shuffle", holes=True, stale=2):
    """Cut `img` into flattened records such that rearrange(records)[:len(img)] == img:
    record boundaries at `cuts` plus random ones, records in the given order, all-zero
    pieces left out as holes, `stale` early records with garbage that later records overwrite."""
    import re
    n = len(img)
    cs = {0, n} | {c for c in cuts if 0 < c < n}
    if holes:
        for m in re.finditer(rb"\x00{48,}", img):
            cs.add(m.start()); cs.add(m.end())
    pts = sorted(cs)
    full = [pts[0]]
    for a, b in zip(pts, pts[1:]):
        p = a
        while b - p > max_rec:
            p += rng.randint(max(1, max_rec // 3), max_rec)
            full.append(p)
        full.append(b)
    pieces = [(a, img[a:b]) for a, b in zip(full, full[1:]) if b > a]
    stale_recs = []
    covered = []
    for _ in range(stale):
        if n < 4:
            break
        a = rng.randrange(n - 1)
        b = min(n, a + rng.choice([1, 7, 24, 300, 4096, 5000]))
        stale_recs.append((a, bytes(rng.getrandbits(8) | 1 for _ in range(b - a))))
        covered.append((a, b))
    keep = []
    for a, d in pieces:
        zero = holes and not any(d) and not any(x < a + len(d) and a < y for x, y in covered)
        if zero and rng.random() < 0.8:
            continue
        keep.append((a, bytes(d)))
    if order == "rev":
        keep.reverse()
    elif order == "shuffle":
        rng.shuffle(keep)
    recs = stale_recs + keep
    assert rearrange(recs, n)[:n] == bytes(img) and all(p + len(d) <= n for p, d in recs)
    return recs


# ---------------------------------------------------------------- Xen domain dump (xc_core in ELF), C19
def xc_page(idx, pfn, ps=4096, be=False):
    """Content of the idx-th stored page: the 16-byte tag (idx, pfn) repeated."""
    return struct.pack("<QQ", idx & M64, pfn & M64) * (ps // 16)


def write_xc_core(path, entries, p2m=True, ps=4096, be=False, machine="x86_64", map_off=0x1000,
                  sect_order=None, pad_entries=0, note_name=b".note.Xen", prstatus=None):
    """entries: list of (pfn, mfn) (mfn ignored for the pfn-only layout).  The page list section
    (.xen_p2m: 16-byte (pfn, gmfn) records; .xen_pfn: 8-byte pfn records) is put at file offset
    `map_off` (>= 0x800, any alignment), `.xen_pages` on the next page boundary after it.
    `sect_order` permutes the four payload section headers (default note, map, pages).
    `pad_entries` trailing bytes (< record size) are added to the section size (ignored by the reader).
    `note_name`: the library takes the page size from the DUMPCORE_HEADER note only if the note is
    named ".note.Xen"; with the name "Xen" the header note is ignored and the architecture default applies.
    `prstatus`: bytes of a `.xen_prstatus` section (register records of the virtual CPUs), stored
    behind the pages; None = no such section.
    Returns dict(pages_off=, map_off=)."""
    E = ">" if be else "<"
    n = len(entries)
    entsz = 16 if p2m else 8
    assert map_off >= 0x800
    strtab = b"\0.shstrtab\0.note.Xen\0.xen_pages\0.xen_p2m\0.xen_pfn\0.xen_prstatus\0"
    name = {k: strtab.index(b"\0" + k.encode() + b"\0") + 1
            for k in (".shstrtab", ".note.Xen", ".xen_pages", ".xen_p2m", ".xen_pfn", ".xen_prstatus")}
    map_size = n * entsz + pad_entries
    pages_off = (map_off + map_size + ps - 1) // ps * ps
    if pages_off == 0:
        pages_off = ps
    desc = struct.pack(E + "QQQQ", 0xf00febed if p2m else 0xf00febee, 1, n, ps)
    nn = note_name + b"\0"
    note = struct.pack(E + "III", len(nn), len(desc), 0x2000001) + nn + b"\0" * (-len(nn) % 4) + desc
    def shdr(nm, typ, off, size):
        return struct.pack(E + "IIQQQQIIQQ", nm, typ, 0, 0, off, size, 0, 0, 0, 0)
    payload = [shdr(name[".note.Xen"], 7, 0x400, len(note)),
               shdr(name[".xen_p2m" if p2m else ".xen_pfn"], 1, map_off, map_size),
               shdr(name[".xen_pages"], 1, pages_off, n * ps)]
    if sect_order:
        payload = [payload[i] for i in sect_order]
    prst_off = pages_off + n * ps
    if prstatus is not None:
        payload.append(shdr(name[".xen_prstatus"], 1, prst_off, len(prstatus)))
    sh = shdr(0, 0, 0, 0) + shdr(name[".shstrtab"], 3, 0x200, len(strtab)) + b"".join(payload)
    ident = b"\x7fELF" + bytes([2, 2 if be else 1, 1, 0]) + b"\0" * 8
    eh = ident + struct.pack(E + "HHIQQQIHHHHHH", 4, EM[machine], 1, 0, 0, 0x40, 0, 64, 56, 0, 64, 2 + len(payload), 1)
    with open(path, "wb") as f:
        f.write(eh)
        f.seek(0x40); f.write(sh)
        f.seek(0x200); f.write(strtab)
        f.seek(0x400); f.write(note)
        f.seek(map_off)
        if p2m:
            f.write(b"".join(struct.pack(E + "QQ", e[0] & M64, e[1] & M64) for e in entries))
        else:
            f.write(b"".join(struct.pack(E + "Q", e[0] & M64) for e in entries))
        f.write(b"\xee" * pad_entries)
        f.seek(pages_off)
        for i, e in enumerate(entries):
            f.write(xc_page(i, e[0], ps))
        f.truncate(max(f.tell(), pages_off + n * ps, pages_off))
        if prstatus is not None:
            f.seek(prst_off); f.write(prstatus)
    return dict(pages_off=pages_off, map_off=map_off)


# ====================================================================== C01 additions
# Writers for LKCD, SADUMP and s390 dumps.  These take an explicit *image*
# (dict pfn -> page bytes) so that page contents are arbitrary.

def rle_encode(data):
    """LKCD run-length encoding exactly as tests/rle.c: compress_rle()/rleop()"""
    out = bytearray()

    def op(c, rep):
        ln = min(3, rep + 1 if c == 0 else rep)
        if ln > 2:
            out.extend((0, rep, c))
        elif ln > 1:
            out.extend((c, c))
        else:
            out.append(c)
    if not data:
        return b""
    prev, rep = data[0], 1
    for cur in data[1:]:
        if cur != prev or rep == 0xff:
            op(prev, rep)
            prev, rep = cur, 1
        else:
            rep += 1
    op(prev, rep)
    return bytes(out)


def rle_decode(src, dstlen):
    """mirror of uncompress_rle(); returns bytes or None (= -1)"""
    out = bytearray()
    i, n = 0, len(src)
    while i < n:
        b = src[i]; i += 1
        if b == 0:
            if i >= n:
                return None
            cnt = src[i]; i += 1
            if cnt:
                if dstlen - len(out) < cnt or i >= n:
                    return None
                out.extend(bytes([src[i]]) * cnt); i += 1
                continue
        if len(out) >= dstlen:
            return None
        out.append(b)
    return bytes(out)


def _uts(machine, E=None):
    names = [b"Linux", b"verif", b"5.4.0-verif", b"#1 SMP", machine.encode(), b"(none)"]
    return b"".join(u.ljust(65, b"\0") for u in names)


LKCD_MAGIC = 0xa8190173618f23ed
LKCD_RAW, LKCD_COMPRESSED, LKCD_END = 1, 2, 4


def write_lkcd(path, stream, ps=4096, version=9, be=False, bits=64, compression=0, machine="x86_64",
               data_offset=None, end_marker=True, mclx=0):
    """stream: list of dict(pfn=, data=<page bytes>, kind='raw'|'compressed'|'auto', skip=<unused bytes
    after the data, counted in dp_size>, flags=<explicit dp_flags>, addr_off=<byte offset inside the page
    added to dp_address>).  compression: 0 none, 1 RLE, 2 GZIP (header field for v5+; v1..v3 are RLE by
    definition).  Returns dict(recs=[dict(pfn, desc_off, data_off, size, flags)], end=<offset of END>)."""
    E = ">" if be else "<"
    base = version
    if base < 9:
        data_offset = 65536                    # LKCD_OFFSET_TO_FIRST_PAGE
    elif data_offset is None:
        data_offset = 256 * 1024
    common = struct.pack(E + "QIIIIQQQ", LKCD_MAGIC, version | mclx, 0, 8, ps, 0, 0, 0)
    panic = b"verif".ljust(256, b"\0")
    uts = _uts(machine)
    if base == 1:
        hdr = common + struct.pack(E + "III", 0, 0, len(stream)) + panic
        hdr += (b"\0" * 8 if bits == 32 else b"\0" * 4 + b"\0" * 16) + uts + b"\0" * 2
    elif base < 8:
        hdr = common + struct.pack(E + "I", len(stream)) + panic
        if bits == 32:
            hdr += b"\0" * 8 + uts + b"\0" * 2 + struct.pack(E + "IIII", 0, compression, 0, 0)
        else:
            hdr += b"\0" * 4 + b"\0" * 16 + uts + b"\0" * 2 + struct.pack(E + "QIII", 0, compression, 0, 0)
    else:
        hdr = common + struct.pack(E + "I", len(stream)) + panic + b"\0" * 16 + uts
        hdr += struct.pack(E + "QIIIQ", 0, compression, 0, 0, data_offset)
    eff = compression if base >= 5 else 1      # v1..v3: RLE
    body = bytearray()
    recs = []
    for rec in stream:
        data = rec["data"]
        kind = rec.get("kind", "auto")
        raw = True
        blob = data
        if kind != "raw" and eff in (1, 2):
            c = rle_encode(data) if eff == 1 else zlib.compress(data, rec.get("level", 6))
            if kind == "compressed" or len(c) < len(data):
                blob, raw = c, False
        flags = rec.get("flags", LKCD_RAW if raw else LKCD_COMPRESSED)
        skip = rec.get("skip", 0)
        desc_off = data_offset + len(body)
        body += struct.pack(E + "QII", rec["pfn"] * ps + rec.get("addr_off", 0), len(blob) + skip, flags)
        body += blob + b"\0" * skip
        recs.append(dict(pfn=rec["pfn"], desc_off=desc_off, data_off=desc_off + 16, size=len(blob) + skip,
                         flags=flags, raw=raw))
    end = data_offset + len(body)
    if end_marker:
        body += struct.pack(E + "QII", 0, 0, LKCD_END)
    with open(path, "wb") as f:
        f.write(hdr.ljust(data_offset, b"\0"))
        f.write(body)
    return dict(recs=recs, end=end, data_offset=data_offset)


# ---------------------------------------------------------------- s390
S390_MAGIC = 0xa8190173618f23fd


def write_s390(path, img, npages, ps=4096, arch=2, hdr_size=4096, tod=0x1234, end_tod=None, mem_pad=0):
    """img: dict pfn -> bytes; frames without an entry are zero.  arch: 1 = s390 (31-bit), 2 = s390x."""
    mem_size = npages * ps
    h1 = struct.pack(">QIIIIQQQI4sQQIIIQBHH", S390_MAGIC, 5, hdr_size, 4, ps, mem_size, 0, mem_size, npages,
                     b"\0" * 4, tod, 0, arch, 0, arch, mem_size, 0, 1, 1)
    with open(path, "wb") as f:
        f.write(h1.ljust(hdr_size, b"\0"))
        for p in range(npages):
            f.write(img.get(p, b"\0" * ps))
        f.write(b"DUMP_END" + struct.pack(">Q", tod + 1 if end_tod is None else end_tod))
        f.write(b"\0" * mem_pad)
    return dict(dataoff=hdr_size)


# ---------------------------------------------------------------- SADUMP
SADUMP_CPU_STATE = 1024       # sizeof(struct sadump_smram_cpu_state)
SADUMP_EFER_OFF = 992         # offsetof(ia32_efer)


def _msb0(bits, nbytes):
    b = bytearray(nbytes)
    for p in bits:
        b[p >> 3] |= 0x80 >> (p & 7)
    return bytes(b)


def write_sadump(paths, img, ram=None, max_mapnr=None, kind="single", ndisks=1, cuts=None, bs=4096,
                 header_version=1, nr_cpus=1, long_mode=True, cpu_extra=0):
    """img: dict pfn -> page bytes of the dumped frames; ram: frames marked in the first (memory) bitmap.
    kind: 'single' | 'diskset' | 'media'.  diskset: paths[k] is disk #k+1; `cuts` = how many of the dumped
    pages (in ascending frame order) each disk holds (default: even split).
    Returns dict(data_pos=[...per disk], counts=[...], bmp_pos=, block_size=)."""
    dumped = sorted(img)
    ram = sorted(set(ram if ram is not None else dumped) | set(dumped))
    if max_mapnr is None:
        max_mapnr = (max(ram) + 1) if ram else 1
    bmp_size = ((max_mapnr + 7) // 8 + bs - 1) // bs * bs
    guid_sys, guid_set = bytes(range(16)), bytes(range(16, 32))
    stamp = struct.pack("<HBBBBBBIhBB", 2020, 1, 2, 3, 4, 5, 0, 0, 0, 0, 0)

    def part_header(disk_no, used, vol):
        h = struct.pack("<IIIIII", 0x75646173, 0x0000706d, 1, 0, 1, 1) + b"\0" * 64
        h += guid_sys + guid_set + vol + stamp + struct.pack("<IIQ", disk_no, 0, used)
        assert len(h) == 168
        out = bytearray(h)
        m = 0
        while len(out) < bs:
            out += struct.pack("<I", m)
            m = ((m + 7) * 11) & 0xffffffff
        return bytes(out)

    if kind != "diskset":
        ndisks = 1
    if cuts is None:
        q, r = divmod(len(dumped), ndisks)
        cuts = [q + (1 if k < r else 0) for k in range(ndisks)]
    assert sum(cuts) == len(dumped) and len(cuts) == ndisks
    vols = [bytes([0x20 + k]) * 16 for k in range(ndisks)]
    info = dict(data_pos=[], counts=list(cuts), block_size=bs)
    start = 0
    for k in range(ndisks):
        mine = dumped[start:start + cuts[k]]
        start += cuts[k]
        part_pos = bs if kind == "media" else 0
        if part_pos and part_pos != 4096:
            raise ValueError("media backup needs a 4096-byte block")
        out = bytearray()
        if kind == "media":
            out += (guid_sys + guid_set + stamp + bytes([1, 0, 0, 0])).ljust(bs, b"\0")
        if k > 0:
            data_pos = bs                                       # partition header + data only
            used = data_pos + len(mine) * 4096
            out += part_header(k + 1, used, vols[k])
        else:
            hdr_pos = part_pos + bs
            dsh = b""
            if kind == "diskset":
                need = 16 + 32 * ndisks
                dsh_blocks = (need + bs - 1) // bs
                dsh = struct.pack("<IIQ", dsh_blocks, ndisks, 0)
                for v in vols:
                    dsh += v + struct.pack("<QII", 0, 0, 0)
                dsh = dsh.ljust(dsh_blocks * bs, b"\0")
                hdr_pos += len(dsh)
            cpu_sz = SADUMP_CPU_STATE + cpu_extra
            sub_size = (4 + nr_cpus * (16 + cpu_sz) + bs - 1) // bs * bs
            sub = bytearray(sub_size)
            struct.pack_into("<I", sub, 0, nr_cpus * cpu_sz)
            for c in range(nr_cpus):
                # only the last CPU is in long mode: the loader has to look at every CPU state
                efer = (1 << 10) if (long_mode and c == nr_cpus - 1) else 0
                struct.pack_into("<Q", sub, 4 + nr_cpus * 16 + c * cpu_sz + SADUMP_EFER_OFF, efer)
            bmp_pos = hdr_pos + bs + sub_size + bmp_size
            data_pos = bmp_pos + bmp_size
            used = data_pos + len(mine) * 4096
            sh = b"sadump\0\0" + struct.pack("<II", header_version, 0) + stamp
            sh += struct.pack("<IIIIIIIIIIIIII", 0, 0, bs, 0, sub_size // bs, bmp_size // bs, bmp_size // bs,
                              max_mapnr & 0xffffffff if header_version else max_mapnr, len(ram), used // bs,
                              used // bs, 0, nr_cpus, 0)
            sh += struct.pack("<QQQQ", max_mapnr if header_version else 0, len(ram), used // bs, used // bs)
            assert len(sh) == 120
            out += part_header(1 if kind == "diskset" else 0, used, vols[0])
            out += dsh
            out += sh.ljust(bs, b"\0")
            out += sub
            out += _msb0([p for p in ram if p < max_mapnr], bmp_size)
            out += _msb0(dumped, bmp_size)
            info["bmp_pos"] = bmp_pos
            assert len(out) == data_pos
        for p in mine:
            out += img[p]
        info["data_pos"].append(data_pos)
        with open(paths[k], "wb") as f:
            f.write(out)
    return info


def diskdump_sub_header_32(path, ps, be=False, pad=False, vmcoreinfo=b"OSRELEASE=5.4.0-verif\nPAGESIZE=4096\n"):
    """Rewrite the 32-bit KDUMP sub-header of a file written by write_diskdump(bits=32): store VMCOREINFO inside
    the sub-header block (where makedumpfile puts it) and, with pad=True, use the layout of 32-bit architectures
    that align 64-bit fields to 64 bits (kdump_sub_header_32pad, e.g. ARM)."""
    E = ">" if be else "<"
    with open(path, "r+b") as f:
        f.seek(ps)
        (phys_base, level, split, spfn, epfn, _ov, _sv, on, sn, oe, se, s64, e64, m64) = \
            struct.unpack(E + "IiiIIQIQIQIQQQ", f.read(80))
        ov, sv = ps + 512, len(vmcoreinfo)
        if pad:
            sub = struct.pack(E + "IiiII4xQI4xQI4xQI4xQQQ", phys_base, level, split, spfn, epfn, ov, sv, on, sn, oe, se,
                              s64, e64, m64)
        else:
            sub = struct.pack(E + "IiiIIQIQIQIQQQ", phys_base, level, split, spfn, epfn, ov, sv, on, sn, oe, se,
                              s64, e64, m64)
        f.seek(ps)
        f.write(sub.ljust(512, b"\0") + vmcoreinfo)


# ---------------------------------------------------------------- C18 (appended)
def write_elf_unaligned(path, pfn, npages, ps=4096, shift=None, voff=0xffffffff80000000):
    """ELF64 x86_64 core with ONE PT_LOAD whose file offset is not page aligned
    (offset = ps + shift, default shift = ps // 2): every memory page straddles
    two file-cache pages, so a read with file.mmap_policy=never needs a bounce
    buffer whenever the two cache pages are not adjacent in memory."""
    shift = ps // 2 if shift is None else shift
    off = ps + shift
    pa = pfn * ps
    ph = struct.pack("<IIQQQQQQ", 1, 7, off, (pa + voff) & M64, pa, npages * ps, npages * ps, 1)
    ident = b"\x7fELF" + bytes([2, 1, 1, 0]) + b"\0" * 8
    eh = ident + struct.pack("<HHIQQQIHHHHHH", 4, EM["x86_64"], 1, 0, 64, 0, 0, 64, 56, 1, 0, 0, 0)
    with open(path, "wb") as f:
        f.write(eh + ph)
        f.seek(off)
        for i in range(npages):
            f.write(page_bytes(pfn + i, ps))

# ---- appended for C04 (history independence)


# ---------------------------------------------------------------- appended for C04
def salted_page(pfn, ps, salt=0, nuls=()):
    """page content that also depends on `salt` (to tell copies of one frame apart)"""
    if not salt:
        return page_bytes(pfn, ps, nuls)
    base = pfn * ps
    return bytes(content_byte(((base + i) ^ (salt * 0x5851F42D4C957F2D)) & M64) for i in range(ps))


def pattern_page(pfn, ps, salt=0):
    """compressible page: the first 64 content bytes of the frame, repeated"""
    base = pfn * ps
    first = bytes(content_byte(((base + i) ^ (salt * 0x5851F42D4C957F2D)) & M64) for i in range(64))
    return (first * (ps // 64 + 1))[:ps]


def rle_lkcd(data):
    """LKCD run-length encoding: 0,0 = literal NUL; 0,n,c = c repeated n times; else literal"""
    out = bytearray()
    i, n = 0, len(data)
    while i < n:
        c = data[i]
        j = i
        while j < n and data[j] == c and j - i < 255:
            j += 1
        if j - i >= 4 or (c == 0 and j - i >= 2):
            out += bytes([0, j - i, c])
            i = j
        elif c == 0:
            out += b"\0\0"
            i += 1
        else:
            out.append(c)
            i += 1
    return bytes(out)


LKCD_MAGIC = 0xa8190173618f23ed
LKCD_RAW, LKCD_COMPRESSED, LKCD_END = 1, 2, 4


def write_lkcd_hist(path, entries, ps=4096, compression=2, data_offset=65536, machine="x86_64",
               version=9, end=True, nuls=(), be=False):
    """LKCD v9 dump.  entries: descriptors in FILE order, each a dict
       pfn=<frame>, kind='raw'|'comp'|'badflags' (default raw), salt=<content salt>,
       skip=<bytes of slack after the data, counted in dp_size>, content=<explicit page bytes>.
    compression: header field (1 = RLE, 2 = GZIP).  Frames may repeat, be unordered, have
    gaps and be far apart.  Returns list of (pfn, descriptor offset)."""
    E = ">" if be else "<"
    uts = [b"Linux", b"verif", b"5.4.0-verif", b"#1 SMP", machine.encode(), b"(none)"]
    hdr = struct.pack(E + "QIIIIQQQ", LKCD_MAGIC, version, 0, 2, ps, 0, 0, LKCD_MAGIC)
    hdr += struct.pack(E + "I", len(entries)) + b"\0" * 0x100 + struct.pack(E + "QQ", 0, 0)
    hdr += b"".join(u.ljust(65, b"\0") for u in uts)
    hdr += struct.pack(E + "QIIIQ", 0, compression, 0, 0, data_offset)
    hdr = hdr[:8 + 4] + struct.pack(E + "I", len(hdr)) + hdr[16:]
    offs = []
    with open(path, "wb") as f:
        f.write(hdr)
        f.seek(data_offset)
        for e in entries:
            raw = e.get("content")
            kind = e.get("kind", "raw")
            if raw is None:
                raw = (pattern_page(e["pfn"], ps, e.get("salt", 0)) if kind == "comp"
                       else salted_page(e["pfn"], ps, e.get("salt", 0), nuls))
            if kind == "comp":
                data = rle_lkcd(raw) if compression == 1 else zlib.compress(raw)
                flags = LKCD_COMPRESSED
            elif kind == "badflags":
                data, flags = raw, 0
            else:
                data, flags = raw, LKCD_RAW
            skip = e.get("skip", 0)
            if kind != "comp":
                skip = 0                      # a raw page must have dp_size == page size
            elif not e.get("oversize"):
                skip = max(0, min(skip, ps - len(data)))   # the reader's buffer for compressed data is one page
            offs.append((e["pfn"], f.tell()))
            f.write(struct.pack(E + "QII", e["pfn"] * ps, len(data) + skip, flags))
            f.write(data)
            if skip:
                f.seek(skip, 1)
        if end:
            f.write(struct.pack(E + "QII", 0, 0, LKCD_END))
        else:
            f.truncate(f.tell())
    return offs


def write_elf_salted(path, segs, ps=4096, machine="x86_64", truncate_to=None, skew=0):
    """ELF64-LE core with byte-granular PT_LOAD segments that may overlap in memory.
    segs: dicts(paddr=, filesz=, memsz=, voff=, salt=) in program-header order; the byte
    stored for physical address pa of a segment with salt s is salted content (salt 0 =
    content_byte(pa)).  truncate_to: cut the file at that size.  Returns the list of
    (file_offset, seg) in header order."""
    nph = len(segs)
    ehsz, phsz = 64, 56
    # skew: the data of every segment starts that many bytes behind a page boundary of the file
    off = (ehsz + nph * phsz + ps - 1) // ps * ps + skew
    ph = b""
    out = []
    for s in segs:
        va = (s["paddr"] + s.get("voff", 0)) & M64
        ph += struct.pack("<IIQQQQQQ", 1, 7, off, va, s["paddr"], s["filesz"], s["memsz"], ps if not skew else 1)
        out.append((off, s))
        off += (s["filesz"] + ps - 1) // ps * ps
    ident = b"\x7fELF" + bytes([2, 1, 1, 0]) + b"\0" * 8
    eh = ident + struct.pack("<HHIQQQIHHHHHH", 4, EM[machine], 1, 0, ehsz, 0, 0, ehsz, phsz, nph, 0, 0, 0)
    with open(path, "wb") as f:
        f.write(eh + ph)
        for o, s in out:
            f.seek(o)
            salt = s.get("salt", 0)
            pa0 = s["paddr"]
            f.write(bytes(content_byte(((pa0 + i) ^ (salt * 0x5851F42D4C957F2D)) & M64) if salt else content_byte(pa0 + i)
                          for i in range(s["filesz"])))
        f.truncate(max(off, f.tell()))
        if truncate_to is not None:
            f.truncate(truncate_to)
    return out


def write_diskdump_custom(path, pages, custom, **kw):
    """write_diskdump with explicit contents for some frames: custom = {pfn: bytes(page)}"""
    global page_bytes
    orig = page_bytes
    def pb(pfn, ps, nuls=()):
        c = custom.get(pfn)
        return bytes(c) if c is not None else orig(pfn, ps, nuls)
    page_bytes = pb
    try:
        return write_diskdump(path, pages, **kw)
    finally:
        page_bytes = orig


def x86_64_pgt_pages(mapping, table_pfns, ps=4096):
    """4-level x86-64 page tables for {virtual page number: physical frame}; table pages are
    taken from the list table_pfns (first = root).  Returns (root_pfn, {pfn: bytes})."""
    free = list(table_pfns)
    root = free.pop(0)
    tables = {root: [0] * 512}
    def child(tpfn, idx):
        e = tables[tpfn][idx]
        if e & 1:
            return e >> 12 & ((1 << 40) - 1)
        n = free.pop(0)
        tables[n] = [0] * 512
        tables[tpfn][idx] = (n << 12) | 0x63
        return n
    for vpn, pfn in mapping.items():
        i4, i3, i2, i1 = (vpn >> 27) & 511, (vpn >> 18) & 511, (vpn >> 9) & 511, vpn & 511
        t = child(child(child(root, i4), i3), i2)
        tables[t][i1] = (pfn << 12) | 0x63
    return root, {p: struct.pack("<512Q", *t) for p, t in tables.items()}

# ---- appended for C05


def write_elf_sparse(path, segs, ps=4096):
    """ELF64 little-endian x86_64 core with page-aligned PT_LOAD segments at explicit file
    offsets (C05: data beyond the first 4 MiB mmap window of the file cache).
    segs: list of dicts(pfn=, npages=, offset=<page-aligned file offset>)."""
    ehsz, phsz = 64, 56
    ph = b""
    for s_ in segs:
        pa = s_["pfn"] * ps
        sz = s_["npages"] * ps
        ph += struct.pack("<IIQQQQQQ", 1, 7, s_["offset"], pa, pa, sz, sz, ps)
    ident = b"\x7fELF" + bytes([2, 1, 1, 0]) + b"\0" * 8
    eh = ident + struct.pack("<HHIQQQIHHHHHH", 4, EM["x86_64"], 1, 0, ehsz, 0, 0, ehsz, phsz, len(segs), 0, 0, 0)
    with open(path, "wb") as f:
        f.write(eh + ph)
        for s_ in segs:
            f.seek(s_["offset"])
            for i in range(s_["npages"]):
                f.write(page_bytes(s_["pfn"] + i, ps))
# ======================================================================
# C03 additions (appended): ELF notes / sections, LKCD, SADUMP, s390,
# diskdump notes, and field tables (file offset, width, endianness of every
# header / descriptor field) used by the hostile-input generators.
# ======================================================================

def elf_note(name, ntype, desc, be=False):
    E = ">" if be else "<"
    nm = name + b"\0"
    return (struct.pack(E + "III", len(nm), len(desc), ntype) + nm.ljust((len(nm) + 3) & ~3, b"\0") +
            desc.ljust((len(desc) + 3) & ~3, b"\0"))


def prstatus_x86_64(pid=1):
    """elf_prstatus of x86-64 (336 bytes): pr_pid at 32, registers at 112."""
    b = bytearray(336)
    struct.pack_into("<I", b, 32, pid)
    for i in range(27):
        struct.pack_into("<Q", b, 112 + 8 * i, 0x1000 * (i + 1) + pid)
    return bytes(b)


def std_notes(be=False, vmcoreinfo=b"OSRELEASE=5.4.0-verif\nPAGESIZE=4096\nSYMBOL(swapper_pg_dir)=ffffffff81c0a000\n",
              prstatus=True):
    n = b""
    if prstatus:
        n += elf_note(b"CORE", 1, prstatus_x86_64(1), be)
        n += elf_note(b"CORE", 1, prstatus_x86_64(2), be)
    if vmcoreinfo is not None:
        n += elf_note(b"VMCOREINFO", 0, vmcoreinfo, be)
    return n


def elf_fields(elfclass=64, be=False, nph=0, nsh=0, phoff=None, shoff=None):
    """[(name, off, width, be)] for the ELF header, every program and section header."""
    f = []
    def add(name, off, w):
        f.append((name, off, w, 1 if be else 0))
    if elfclass == 64:
        for name, off, w in (("e_type", 16, 2), ("e_machine", 18, 2), ("e_version", 20, 4), ("e_entry", 24, 8),
                             ("e_phoff", 32, 8), ("e_shoff", 40, 8), ("e_flags", 48, 4), ("e_ehsize", 52, 2),
                             ("e_phentsize", 54, 2), ("e_phnum", 56, 2), ("e_shentsize", 58, 2), ("e_shnum", 60, 2),
                             ("e_shstrndx", 62, 2), ("ei_class", 4, 1), ("ei_data", 5, 1)):
            add(name, off, w)
        phoff = 64 if phoff is None else phoff
        for i in range(nph):
            o = phoff + 56 * i
            for name, d, w in (("p_type", 0, 4), ("p_flags", 4, 4), ("p_offset", 8, 8), ("p_vaddr", 16, 8),
                               ("p_paddr", 24, 8), ("p_filesz", 32, 8), ("p_memsz", 40, 8), ("p_align", 48, 8)):
                add("ph%d.%s" % (i, name), o + d, w)
        for i in range(nsh):
            o = shoff + 64 * i
            for name, d, w in (("sh_name", 0, 4), ("sh_type", 4, 4), ("sh_flags", 8, 8), ("sh_addr", 16, 8),
                               ("sh_offset", 24, 8), ("sh_size", 32, 8), ("sh_link", 40, 4), ("sh_info", 44, 4),
                               ("sh_addralign", 48, 8), ("sh_entsize", 56, 8)):
                add("sh%d.%s" % (i, name), o + d, w)
    else:
        for name, off, w in (("e_type", 16, 2), ("e_machine", 18, 2), ("e_version", 20, 4), ("e_entry", 24, 4),
                             ("e_phoff", 28, 4), ("e_shoff", 32, 4), ("e_flags", 36, 4), ("e_ehsize", 40, 2),
                             ("e_phentsize", 42, 2), ("e_phnum", 44, 2), ("e_shentsize", 46, 2), ("e_shnum", 48, 2),
                             ("e_shstrndx", 50, 2), ("ei_class", 4, 1), ("ei_data", 5, 1)):
            add(name, off, w)
        phoff = 52 if phoff is None else phoff
        for i in range(nph):
            o = phoff + 32 * i
            for name, d, w in (("p_type", 0, 4), ("p_offset", 4, 4), ("p_vaddr", 8, 4), ("p_paddr", 12, 4),
                               ("p_filesz", 16, 4), ("p_memsz", 20, 4), ("p_flags", 24, 4), ("p_align", 28, 4)):
                add("ph%d.%s" % (i, name), o + d, w)
        for i in range(nsh):
            o = shoff + 40 * i
            for name, d, w in (("sh_name", 0, 4), ("sh_type", 4, 4), ("sh_flags", 8, 4), ("sh_addr", 12, 4),
                               ("sh_offset", 16, 4), ("sh_size", 20, 4), ("sh_link", 24, 4), ("sh_info", 28, 4),
                               ("sh_addralign", 32, 4), ("sh_entsize", 36, 4)):
                add("sh%d.%s" % (i, name), o + d, w)
    return f


def note_fields(blob_off, notes, be=False):
    """fields of every Elf_Nhdr inside a note blob placed at file offset blob_off"""
    f, p, i = [], 0, 0
    E = ">" if be else "<"
    while p + 12 <= len(notes):
        namesz, descsz, _ = struct.unpack_from(E + "III", notes, p)
        for name, d in (("n_namesz", 0), ("n_descsz", 4), ("n_type", 8)):
            f.append(("note%d.%s" % (i, name), blob_off + p + d, 4, 1 if be else 0))
        p += 12 + ((namesz + 3) & ~3) + ((descsz + 3) & ~3)
        i += 1
    return f


def note_desc_fields(blob_off, notes, be=False, maxdesc=64, width=8):
    """the words of every short note descriptor (e.g. the Xen dumpcore header) as fields"""
    f, p, i = [], 0, 0
    E = ">" if be else "<"
    while p + 12 <= len(notes):
        namesz, descsz, _ = struct.unpack_from(E + "III", notes, p)
        d = p + 12 + ((namesz + 3) & ~3)
        if descsz <= maxdesc:
            for k in range(0, descsz - width + 1, width):
                f.append(("note%d.desc+%d" % (i, k), blob_off + d + k, width, 1 if be else 0))
        p = d + ((descsz + 3) & ~3)
        i += 1
    return f


def write_elf_sections(path, ps=4096, machine="x86_64", pages=(3, 4, 7), p2m=True, be=False, prstatus=True,
                       strtab_terminated=True, prstatus_last=False):
    """xc_core-like ELF64: no program headers, sections .shstrtab, .note.Xen, .xen_prstatus,
    .xen_pages, .xen_p2m (or .xen_pfn).  Returns dict(fields=, bounds=)."""
    E = ">" if be else "<"
    names = [b"", b".shstrtab", b".note.Xen", b".xen_prstatus", b".xen_pages", b".xen_p2m" if p2m else b".xen_pfn"]
    strtab = b""
    nameoff = []
    for n in names:
        nameoff.append(len(strtab))
        strtab += n + b"\0"
    if not strtab_terminated:
        strtab = strtab[:-1]
    xen_hdr = struct.pack(E + "QQQQ", 0xF00FEBED if p2m else 0xF00FEBEE, 1, len(pages), ps)
    notes = (elf_note(b"Xen", 0x2000001, xen_hdr, be) + elf_note(b"Xen", 0x2000003, struct.pack(E + "Q", 1), be) +
             elf_note(b".note.Xen", 0x2000001, xen_hdr, be) + elf_note(b".note.Xen", 0x2000003, struct.pack(E + "Q", 1), be))
    prst = bytes(bytearray(range(256)) * 21)[:5168] if prstatus else b""     # one vcpu_guest_context-sized record
    if prstatus_last:
        prst += b"\x11" * 8                                                   # and a trailing partial one
    if p2m:
        mapb = b"".join(struct.pack(E + "QQ", p, 0x100 + p) for p in pages)
    else:
        mapb = b"".join(struct.pack(E + "Q", p) for p in pages)
    ehsz, shsz = 64, 64
    bodies = [b"", strtab, notes, prst, None, mapb]
    off = ehsz
    offs = []
    for i, b in enumerate(bodies):
        if b is None:
            off = (off + ps - 1) // ps * ps
            offs.append(off)
            off += len(pages) * ps
        else:
            off = (off + 7) & ~7
            offs.append(off)
            off += len(b)
    shoff = (off + 7) & ~7
    if prstatus_last:
        # the register section is the last thing in the file and ends exactly at a page boundary (= the end of the file):
        # section headers directly behind the ELF header, every other body behind them
        shoff = ehsz
        off = shoff + shsz * len(bodies)
        offs = []
        for i, b in enumerate(bodies):
            if i == 3:
                offs.append(None)
            elif b is None:
                off = (off + ps - 1) // ps * ps
                offs.append(off)
                off += len(pages) * ps
            else:
                off = (off + 7) & ~7
                offs.append(off)
                off += len(b)
        end = (off + len(prst) + ps - 1) // ps * ps
        offs[3] = end - len(prst)
    sh = b""
    for i, b in enumerate(bodies):
        size = len(pages) * ps if b is None else len(b)
        sh += struct.pack(E + "IIQQQQIIQQ", nameoff[i], 0 if i == 0 else (3 if i == 1 else (7 if i == 2 else 1)), 0, 0,
                          offs[i] if i else 0, size if i else 0, 0, 0, 8, 0)
    ident = b"\x7fELF" + bytes([2, 2 if be else 1, 1, 0]) + b"\0" * 8
    eh = ident + struct.pack(E + "HHIQQQIHHHHHH", 4, EM[machine], 1, 0, 0, shoff, 0, ehsz, 56, 0, shsz, len(bodies), 1)
    img = bytearray(max(shoff + len(sh), offs[3] + len(prst)) if prstatus_last else shoff + len(sh))
    img[0:len(eh)] = eh
    for i, b in enumerate(bodies):
        if b is None:
            for k, p in enumerate(pages):
                img[offs[i] + k * ps:offs[i] + (k + 1) * ps] = page_bytes(p, ps)
        else:
            img[offs[i]:offs[i] + len(b)] = b
    img[shoff:shoff + len(sh)] = sh
    with open(path, "wb") as f:
        f.write(img)
    fields = elf_fields(64, be, 0, len(bodies), shoff=shoff) + note_fields(offs[2], notes, be) + note_desc_fields(offs[2], notes, be)
    for k in range(len(pages)):
        w = 16 if p2m else 8
        fields.append(("map%d.pfn" % k, offs[5] + k * w, 8, 1 if be else 0))
        if p2m:
            fields.append(("map%d.gmfn" % k, offs[5] + k * w + 8, 8, 1 if be else 0))
    bounds = sorted({0, ehsz, shoff, shoff + len(sh)} | set(offs) | {offs[i] + (len(b) if b is not None else len(pages) * ps) for i, b in enumerate(bodies)} |
                    {shoff + 64 * i for i in range(len(bodies))})
    return dict(fields=fields, bounds=bounds, size=len(img))


def elf_layout(path, elfclass, be, nph, notes):
    """fields/bounds of a file written by write_elf (program headers directly after the ELF header)."""
    ehsz, phsz = (64, 56) if elfclass == 64 else (52, 32)
    hdr_end = ehsz + nph * phsz
    size = len(open(path, "rb").read())
    fields = elf_fields(elfclass, be, nph)
    if notes:
        fields += note_fields(hdr_end, notes, be)
    bounds = sorted({0, 16, ehsz, hdr_end, hdr_end + len(notes), size} | {ehsz + phsz * i for i in range(nph)} |
                    {x for x in range(4096, size, 4096)})
    return dict(fields=fields, bounds=bounds, size=size)


def diskdump_layout(path, ps=4096, bits=64, be=False, ndesc=0, pdoff=None, sub_hdr_size=1):
    b = 1 if be else 0
    f = [("signature", 0, 8, 0), ("header_version", 8, 4, b)]
    o = 12 + 6 * 65 + (6 if bits == 64 else 2) + (16 if bits == 64 else 8)
    for name in ("status", "block_size", "sub_hdr_size", "bitmap_blocks", "max_mapnr", "total_ram_blocks",
                 "device_blocks", "written_blocks", "current_cpu", "nr_cpus"):
        f.append((name, o, 4, b))
        o += 4
    for i, u in enumerate(("sysname", "nodename", "release", "version", "machine", "domainname")):
        f.append(("uts." + u + "[0]", 12 + 65 * i, 1, 0))
        f.append(("uts." + u + "[64]", 12 + 65 * i + 64, 1, 0))
    if bits == 64:
        sub = [("phys_base", 8), ("dump_level", 4), ("split", 4), ("start_pfn", 8), ("end_pfn", 8), ("offset_vmcoreinfo", 8),
               ("size_vmcoreinfo", 8), ("offset_note", 8), ("size_note", 8), ("offset_eraseinfo", 8), ("size_eraseinfo", 8),
               ("start_pfn_64", 8), ("end_pfn_64", 8), ("max_mapnr_64", 8)]
    else:
        sub = [("phys_base", 4), ("dump_level", 4), ("split", 4), ("start_pfn", 4), ("end_pfn", 4), ("offset_vmcoreinfo", 8),
               ("size_vmcoreinfo", 4), ("offset_note", 8), ("size_note", 4), ("offset_eraseinfo", 8), ("size_eraseinfo", 4),
               ("start_pfn_64", 8), ("end_pfn_64", 8), ("max_mapnr_64", 8)]
    o = ps
    for name, w in sub:
        f.append(("sub." + name, o, w, b))
        o += w
    size = len(open(path, "rb").read())
    bounds = {0, 8, 12, ps, o, 2 * ps, size}
    if pdoff is not None:
        bounds |= {pdoff}
        for i in range(ndesc):
            d = pdoff + 24 * i
            f += [("pd%d.offset" % i, d, 8, b), ("pd%d.size" % i, d + 4 + 4, 4, b), ("pd%d.flags" % i, d + 12, 4, b),
                  ("pd%d.page_flags" % i, d + 16, 8, b)]
            bounds |= {d, d + 24}
        # first bytes of the two bitmaps
        f += [("bitmap1[0]", (1 + sub_hdr_size) * ps, 1, 0), ("bitmap2[0]", (pdoff + (1 + sub_hdr_size) * ps) // 2, 1, 0)]
        bounds |= {(1 + sub_hdr_size) * ps, (pdoff + (1 + sub_hdr_size) * ps) // 2}
    bounds |= {x for x in range(0, size, ps)}
    return dict(fields=f, bounds=sorted(bounds), size=size)


def add_diskdump_notes(path, notes, ps=4096, bits=64, be=False):
    """append a note blob to a (non-flattened) diskdump file and point the sub-header at it"""
    E = ">" if be else "<"
    img = bytearray(open(path, "rb").read())
    img += bytes(-len(img) % 8)             # note headers are read in place: keep them aligned
    off = len(img)
    img += notes
    if bits == 64:
        struct.pack_into(E + "QQ", img, ps + 8 + 4 + 4 + 8 + 8 + 8 + 8, off, len(notes))
    else:
        struct.pack_into(E + "QI", img, ps + 4 + 4 + 4 + 4 + 4 + 8 + 4, off, len(notes))
    open(path, "wb").write(img)
    return off


def flattened_layout(path):
    """record headers of a flattened file: fields + bounds"""
    img = open(path, "rb").read()
    f = [("flat.signature", 0, 8, 0), ("flat.type", 16, 8, 1), ("flat.version", 24, 8, 1)]
    bounds = {0, 16, 32, 4096, len(img)}
    pos, i = 4096, 0
    while pos + 16 <= len(img):
        off, size = struct.unpack_from(">qq", img, pos)
        f += [("rec%d.offset" % i, pos, 8, 1), ("rec%d.size" % i, pos + 8, 8, 1)]
        bounds |= {pos, pos + 16}
        if off < 0:
            break
        pos += 16 + size
        i += 1
    return dict(fields=f, bounds=sorted(bounds), size=len(img))


def rle_compress(data):
    """LKCD RLE: 0,n,b = run of n (n>=1) copies of b; 0,0 = literal NUL; other bytes literal."""
    out = bytearray()
    i = 0
    while i < len(data):
        b = data[i]
        j = i
        while j < len(data) and data[j] == b and j - i < 255:
            j += 1
        n = j - i
        if n >= 4 or (b == 0 and n >= 2):
            out += bytes([0, n, b])
            i = j
        elif b == 0:
            out += b"\0\0"
            i += 1
        else:
            out.append(b)
            i += 1
    return bytes(out)


def c03_write_lkcd(path, pages, ps=4096, version=8, compress=1, be=False, machine="x86_64", methods=None,
               data_offset=65536, end_marker=True, nuls=(), streams=None):
    """LKCD v8/v9/v10 (unified header).  compress: 0 none, 1 RLE, 2 GZIP.  methods: pfn -> 'raw'|'comp'.
    Returns dict(fields=, bounds=, pages={pfn: (descoff, dataoff, size)})."""
    E = ">" if be else "<"
    b = 1 if be else 0
    uts = [b"Linux", b"verif", b"5.4.0-verif", b"#1 SMP", machine.encode(), b"(none)"]
    hdr = struct.pack(E + "QIIIIQQQ", 0xa8190173618f23ed, version, 742, 0, ps, len(pages) * ps, 0, (max(pages) + 1) * ps if pages else 0)
    hdr += struct.pack(E + "I", len(pages)) + b"panic".ljust(256, b"\0") + struct.pack(E + "QQ", 0, 0)
    hdr += b"".join(u.ljust(65, b"\0") for u in uts)
    hdr += struct.pack(E + "QIII", 0, compress, 0, 0)
    hdr += struct.pack(E + "Q", data_offset)
    img = bytearray(hdr.ljust(data_offset, b"\0"))
    fields = [("dh_magic_number", 0, 8, b), ("dh_version", 8, 4, b), ("dh_header_size", 12, 4, b), ("dh_dump_level", 16, 4, b),
              ("dh_page_size", 20, 4, b), ("dh_memory_size", 24, 8, b), ("dh_memory_start", 32, 8, b), ("dh_memory_end", 40, 8, b),
              ("dh_num_pages", 48, 4, b), ("dh_current_task", 714, 8, b), ("dh_dump_compress", 722, 4, b), ("dh_dump_flags", 726, 4, b),
              ("dh_dump_device", 730, 4, b), ("dh_dump_buffer_size", 734, 8, b)]
    for i, u in enumerate(("sysname", "nodename", "release", "version", "machine", "domainname")):
        fields.append(("uts." + u + "[0]", 324 + 65 * i, 1, 0))
        fields.append(("uts." + u + "[64]", 324 + 65 * i + 64, 1, 0))
    bounds = {0, 48, 52, 308, 324, 714, 742, data_offset}
    pinfo = {}
    for k, p in enumerate(pages):
        raw = page_bytes(p, ps, nuls)
        m = (methods or {}).get(p, "comp" if compress else "raw")
        if streams and p in streams:                # hand-made compressed stream
            d, fl = streams[p], 2
        elif m == "comp" and compress == 1:
            d, fl = rle_compress(raw), 2
        elif m == "comp" and compress == 2:
            d, fl = zlib.compress(raw), 2
        else:
            d, fl = raw, 1
        o = len(img)
        img += struct.pack(E + "QII", p * ps, len(d), fl) + d
        fields += [("dp%d.address" % k, o, 8, b), ("dp%d.size" % k, o + 8, 4, b), ("dp%d.flags" % k, o + 12, 4, b)]
        bounds |= {o, o + 16, o + 16 + len(d)}
        pinfo[p] = (o, o + 16, len(d))
    if end_marker:
        o = len(img)
        img += struct.pack(E + "QII", 0, 0, 4)
        fields += [("end.address", o, 8, b), ("end.size", o + 8, 4, b), ("end.flags", o + 12, 4, b)]
        bounds |= {o, o + 16}
    with open(path, "wb") as f:
        f.write(img)
    return dict(fields=fields, bounds=sorted(bounds | {len(img)}), size=len(img), pages=pinfo)


def _sadump_magic(n, start=0x12345):
    out, m = [], start
    for _ in range(n):
        out.append(m & 0xffffffff)
        m = (11 * (m + 7)) & 0xffffffff
    return out


def c03_write_sadump(path, pages, ps=4096, kind="single", max_mapnr=None, ram=None, nr_cpus=2, header_version=1,
                 lma=True, block_size=4096, disk_num=1):
    """Fujitsu SADUMP, one file: kind = 'single' | 'diskset' (one disk) | 'media'.
    Returns dict(fields=, bounds=)."""
    pages = sorted(set(pages))
    ram = sorted(set(ram if ram is not None else pages) | set(pages))
    if max_mapnr is None:
        max_mapnr = (max(ram) + 1) if ram else 1
    bs = block_size
    guid = lambda k: bytes((k * 17 + i) & 0xff for i in range(16))
    stamp = struct.pack("<HBBBBBBIhBB", 2024, 1, 2, 3, 4, 5, 0, 0, 0, 0, 0)
    fields, bounds = [], {0}
    img = bytearray()
    part_pos = 0
    if kind == "media":
        media = guid(1) + guid(2) + stamp + bytes([1, 0, 1, 1])
        img += media.ljust(bs, b"\0")
        fields += [("media.sequential_num", 48, 1, 0), ("media.term_cord", 49, 1, 0), ("media.disk_set_header_size", 50, 1, 0),
                   ("media.disks_in_use", 51, 1, 0), ("media.sadump_id[0]", 0, 1, 0), ("media.disk_set_id[0]", 16, 1, 0),
                   ("media.time_stamp.year", 32, 2, 0)]
        part_pos = bs
        bounds |= {52, bs}
    part = struct.pack("<IIIIII", 0x75646173, 0x0000706d, 1, 0, 0, 0) + b"\0" * 64
    part += guid(1) + guid(2) + guid(3) + stamp
    part += struct.pack("<IIQ", 1 if kind == "diskset" else 0, 0, 0)          # used_device patched below
    assert len(part) == 168
    magics = _sadump_magic((bs - 168) // 4)
    part += b"".join(struct.pack("<I", m) for m in magics)
    img += part
    P = part_pos
    fields += [("part.signature0", P, 4, 0), ("part.signature1", P + 4, 4, 0), ("part.enable", P + 8, 4, 0), ("part.compress", P + 16, 4, 0),
               ("part.sadump_id[0]", P + 88, 1, 0), ("part.disk_set_id[0]", P + 104, 1, 0), ("part.vol_id[0]", P + 120, 1, 0),
               ("part.time_stamp.year", P + 136, 2, 0), ("part.set_disk_set", P + 152, 4, 0), ("part.used_device", P + 160, 8, 0),
               ("part.magic[0]", P + 168, 4, 0), ("part.magic[1]", P + 172, 4, 0), ("part.magic[last]", P + bs - 4, 4, 0)]
    bounds |= {P, P + 168, P + bs}
    if kind == "diskset":
        D = len(img)
        dsh = struct.pack("<IIQ", 1, disk_num, 0) + guid(3) + struct.pack("<QII", 0, 0, 0)
        img += dsh.ljust(bs, b"\0")
        fields += [("dset.disk_set_header_size", D, 4, 0), ("dset.disk_num", D + 4, 4, 0), ("dset.disk_set_size", D + 8, 8, 0),
                   ("dset.vol0.id[0]", D + 16, 1, 0), ("dset.vol0.vol_size", D + 32, 8, 0), ("dset.vol0.status", D + 40, 4, 0)]
        bounds |= {D, D + 16, D + 48, D + bs}
    H = len(img)
    bmp_bytes = (max_mapnr + 7) // 8
    bmp_blocks = max(1, (bmp_bytes + bs - 1) // bs)
    cpu_sz = 1024
    sub = struct.pack("<I", cpu_sz * nr_cpus) + b"".join(struct.pack("<QQ", i, i) for i in range(nr_cpus))
    cpus_off = len(sub)
    for i in range(nr_cpus):
        st = bytearray(cpu_sz)
        struct.pack_into("<Q", st, 992, (1 << 10) if lma else 0)
        sub += bytes(st)
    sub_blocks = (len(sub) + bs - 1) // bs
    sh = (b"sadump\0\0" + struct.pack("<II", header_version, 0) + stamp +
          struct.pack("<IIIIIIIIIIIIII", 0, 0, bs, 0, sub_blocks, bmp_blocks, bmp_blocks, max_mapnr & 0xffffffff, len(ram), 0, 0, 0, nr_cpus, 0) +
          struct.pack("<QQQQ", max_mapnr, len(ram), 0, 0))
    assert len(sh) == 120
    img += sh.ljust(bs, b"\0")
    names = ["status", "compress", "block_size", "extra_hdr_size", "sub_hdr_size", "bitmap_blocks", "dumpable_bitmap_blocks", "max_mapnr",
             "total_ram_blocks", "device_blocks", "written_blocks", "current_cpu", "nr_cpus", "_pad2"]
    fields += [("hdr.signature", H, 8, 0), ("hdr.header_version", H + 8, 4, 0)]
    for i, n in enumerate(names):
        fields.append(("hdr." + n, H + 32 + 4 * i, 4, 0))
    for i, n in enumerate(("max_mapnr_64", "total_ram_blocks_64", "device_blocks_64", "written_blocks_64")):
        fields.append(("hdr." + n, H + 88 + 8 * i, 8, 0))
    bounds |= {H, H + 120, H + bs}
    S = len(img)
    img += sub.ljust(sub_blocks * bs, b"\0")
    fields += [("sub.size", S, 4, 0), ("sub.apic0.id", S + 4, 8, 0)]
    for i in range(nr_cpus):
        fields.append(("sub.cpu%d.ia32_efer" % i, S + cpus_off + i * cpu_sz + 992, 8, 0))
    bounds |= {S, S + 4, S + cpus_off, S + len(sub), S + sub_blocks * bs}
    b1 = bytearray(bmp_blocks * bs)
    b2 = bytearray(bmp_blocks * bs)
    for p in ram:
        if p < max_mapnr:
            b1[p >> 3] |= 0x80 >> (p & 7)
    for p in pages:
        b2[p >> 3] |= 0x80 >> (p & 7)
    B = len(img)
    img += b1 + b2
    fields += [("bitmap1[0]", B, 1, 0), ("bitmap2[0]", B + len(b1), 1, 0)]
    bounds |= {B, B + len(b1), B + 2 * len(b1)}
    for p in pages:
        bounds.add(len(img))
        img += page_bytes(p, ps)
    struct.pack_into("<Q", img, P + 160, len(img))
    with open(path, "wb") as f:
        f.write(img)
    return dict(fields=fields, bounds=sorted(bounds | {len(img)}), size=len(img))


def c03_write_s390(path, npages=4, ps=4096, arch=2, hdr_size=4096, end_marker=True):
    """s390 stand-alone dump (big endian)."""
    mem = npages * ps
    h = struct.pack(">QIIIIQQQI4xQQIIIQBHH", 0xa8190173618f23fd, 5, hdr_size, 4, ps, mem, 0, mem, npages,
                    0x1000, 0, arch, 0, arch, mem, 0, 1, 1)
    assert len(h) == 97
    img = bytearray(h.ljust(hdr_size, b"\0"))
    for p in range(npages):
        img += page_bytes(p, ps)
    E = len(img)
    if end_marker:
        img += b"DUMP_END" + struct.pack(">Q", 0x2000)
    with open(path, "wb") as f:
        f.write(img)
    fields = [("magic", 0, 8, 1), ("version", 8, 4, 1), ("hdr_size", 12, 4, 1), ("dump_level", 16, 4, 1), ("page_size", 20, 4, 1),
              ("mem_size", 24, 8, 1), ("mem_start", 32, 8, 1), ("mem_end", 40, 8, 1), ("num_pages", 48, 4, 1), ("tod", 56, 8, 1),
              ("cpu_id", 64, 8, 1), ("arch", 72, 4, 1), ("volnr", 76, 4, 1), ("build_arch", 80, 4, 1), ("mem_size_real", 84, 8, 1),
              ("mvdump", 92, 1, 1), ("cpu_cnt", 93, 2, 1), ("real_cpu_cnt", 95, 2, 1), ("end.str[0]", E, 1, 1), ("end.tod", E + 8, 8, 1)]
    bounds = sorted({0, 97, 0x200, 0x800, hdr_size, E, E + 8, len(img)} | {hdr_size + k * ps for k in range(npages)})
    return dict(fields=fields, bounds=bounds, size=len(img))


def s390_cksum32(data, csum=0):
    """cksum32 of src/kdumpfile/util.c: big-endian 32-bit words added with end-around carry"""
    n = len(data) // 4 * 4
    for (w,) in struct.iter_unpack(">I", data[:n]):
        prev = csum
        csum = (csum + w) & 0xffffffff
        if csum < prev:
            csum = (csum + 1) & 0xffffffff
    rest = data[n:]
    if rest:
        val = 0
        for b in rest:
            val = (val >> 8) | (b << 24)
        prev = csum
        csum = (csum + val) & 0xffffffff
        if csum < prev:
            csum = (csum + 1) & 0xffffffff
    return csum


def c03_write_s390os(path, npages=32, ps=4096, os_info=True):
    """s390x stand-alone dump whose lowcore points to a valid os_info page (with VMCOREINFO entry and checksums) and to a
    VMCOREINFO ELF note: what `addrxlat.ostype = linux` parses on s390x.  Returns dict(fields=, bounds=, size=)."""
    hdr_size = 4096
    mem = npages * ps
    h = struct.pack(">QIIIIQQQI4xQQIIIQBHH", 0xa8190173618f23fd, 5, hdr_size, 4, ps, mem, 0, mem, npages,
                    0x1000, 0, 2, 0, 2, mem, 0, 1, 1)
    pages = [bytearray(page_bytes(p, ps)) for p in range(npages)]
    vmci = b"OSRELEASE=5.4.0-s390x\nPAGESIZE=4096\nSYMBOL(swapper_pg_dir)=12000\n"
    OSI, VMCI, NOTE = 0x10000, 0x2000, 0x3000
    pages[VMCI // ps][0:len(vmci)] = vmci
    name = b"VMCOREINFO\0"
    note = struct.pack(">III", len(name), len(vmci), 0) + name.ljust((len(name) + 3) & ~3, b"\0") + vmci
    pages[NOTE // ps][0:len(note)] = note
    lc = pages[0]
    lc[0xe0c:0xe14] = struct.pack(">Q", NOTE)
    if os_info:                   # (else: NULL os_info pointer, the library falls back to the note behind LC_VMCORE_INFO)
        lc[0xe18:0xe20] = struct.pack(">Q", OSI)
    osi = bytearray(ps)
    body = struct.pack(">HHQQ", 1, 6, 0, 0) + struct.pack(">QQI", VMCI, len(vmci), s390_cksum32(vmci)) + struct.pack(">QQI", 0, 0, 0)
    osi[12:12 + len(body)] = body
    osi[0:8] = struct.pack(">Q", 0x4f53494e464f535a)
    osi[8:12] = struct.pack(">I", s390_cksum32(bytes(osi[12:])))
    pages[OSI // ps][:] = osi
    img = bytearray(h.ljust(hdr_size, b"\0"))
    for p in pages:
        img += p
    E = len(img)
    img += b"DUMP_END" + struct.pack(">Q", 0x2000)
    with open(path, "wb") as f:
        f.write(img)
    D = hdr_size
    fields = [("version", 8, 4, 1), ("hdr_size", 12, 4, 1), ("page_size", 20, 4, 1), ("mem_size", 24, 8, 1), ("mem_end", 40, 8, 1),
              ("num_pages", 48, 4, 1), ("arch", 72, 4, 1),
              ("lc.vmcoreinfo", D + 0xe0c, 8, 1), ("lc.os_info", D + 0xe18, 8, 1),
              ("osi.magic", D + OSI, 8, 1), ("osi.csum", D + OSI + 8, 4, 1), ("osi.version_major", D + OSI + 12, 2, 1),
              ("osi.e0.addr", D + OSI + 32, 8, 1), ("osi.e0.size", D + OSI + 40, 8, 1), ("osi.e0.csum", D + OSI + 48, 4, 1),
              ("note.namesz", D + NOTE, 4, 1), ("note.descsz", D + NOTE + 4, 4, 1), ("note.type", D + NOTE + 8, 4, 1),
              ("note.name[0]", D + NOTE + 12, 1, 1), ("vmci[0]", D + VMCI, 1, 1)]
    bounds = sorted({0, 97, hdr_size, D + VMCI, D + NOTE, D + OSI, D + OSI + ps, E, E + 8, len(img)})
    return dict(fields=fields, bounds=bounds, size=len(img))


# ---------------------------------------------------------------- C16: 64-bit size fields that reach an allocation
def c16_write_s390x_elf(path, vmci_addr=0x100, vmci_size=37, note=None, ps=4096):
    """big-endian s390x ELF core without a VMCOREINFO note: one PT_LOAD of two pages at physical address 0.  The lowcore (page 0)
    points through LC_OS_INFO (0xe18) to an os_info page at 0x1000 with valid magic and checksum whose VMCOREINFO entry is
    (vmci_addr, vmci_size) -- or, with note=(namesz, descsz), has no os_info and points through LC_VMCORE_INFO (0xe0c) to an ELF
    note header with these sizes at 0x1800.  Returns a description of the file."""
    mem = bytearray(2 * ps)
    if note is None:
        mem[0xe18:0xe20] = struct.pack(">Q", ps)
        osi = bytearray(ps)
        body = struct.pack(">HHQQ", 1, 1, 0, 0) + struct.pack(">QQI", vmci_addr, vmci_size & M64, 0) + struct.pack(">QQI", 0, 0, 0)
        osi[12:12 + len(body)] = body
        osi[0:8] = struct.pack(">Q", 0x4f53494e464f535a)
        osi[8:12] = struct.pack(">I", s390_cksum32(bytes(osi[12:])))
        mem[ps:2 * ps] = osi
        what = "LC_OS_INFO (0xe18) -> os_info page at 0x1000 (magic, checksum valid) with VMCOREINFO entry addr=%#x size=%#x" % (vmci_addr, vmci_size)
    else:
        namesz, descsz = note
        mem[0xe0c:0xe14] = struct.pack(">Q", 0x1800)
        mem[0x1800:0x1800 + 24] = struct.pack(">III", namesz & 0xffffffff, descsz & 0xffffffff, 0) + b"VMCOREINFO\0\0"
        what = "LC_OS_INFO NULL, LC_VMCORE_INFO (0xe0c) -> ELF note at 0x1800 with n_namesz=%#x n_descsz=%#x" % (namesz, descsz)
    write_elf(path, [dict(paddr=0, filesz=2 * ps, memsz=2 * ps, data=bytes(mem))], ps=ps, machine="s390x", be=True)
    return "dumpgen.c16_write_s390x_elf: s390x big-endian ELF64 core, no notes, one PT_LOAD paddr=0 filesz=memsz=0x2000; lowcore " + what


def c16_write_elf_strtab(path, shsize, be=False, machine="x86_64"):
    """ELF64 core without program headers and with two sections: the null section and .shstrtab (e_shstrndx = 1) whose
    sh_size is `shsize` (the table in the file is 11 bytes long and NUL-terminated).  Returns a description of the file."""
    E = ">" if be else "<"
    strtab = b"\0.shstrtab\0"
    ehsz, shsz = 64, 64
    stroff = ehsz
    shoff = (stroff + len(strtab) + 7) & ~7
    sh = struct.pack(E + "IIQQQQIIQQ", 0, 0, 0, 0, 0, 0, 0, 0, 0, 0) + \
        struct.pack(E + "IIQQQQIIQQ", 1, 3, 0, 0, stroff, shsize & M64, 0, 0, 1, 0)
    ident = b"\x7fELF" + bytes([2, 2 if be else 1, 1, 0]) + b"\0" * 8
    eh = ident + struct.pack(E + "HHIQQQIHHHHHH", 4, EM[machine], 1, 0, 0, shoff, 0, ehsz, 56, 0, shsz, 2, 1)
    img = bytearray(shoff + len(sh))
    img[0:len(eh)] = eh
    img[stroff:stroff + len(strtab)] = strtab
    img[shoff:] = sh
    with open(path, "wb") as f:
        f.write(img)
    return ("dumpgen.c16_write_elf_strtab: %s ELF64 core, e_phnum=0, e_shnum=2, e_shstrndx=1, section 1 = SHT_STRTAB at file offset %#x "
            "with sh_size=%#x (the file is %#x bytes long)" % (machine, stroff, shsize & M64, len(img)))
# ---------------------------------------------------------------- appended for C01 (ELF extended numbering)
def write_elf_table(path, segs, ps=4096, machine="x86_64", elfclass=64, be=False, notes=b"", shnum_field=1, force_xnum=False):
    """ELF core whose program header table may need the gABI 'extended numbering': with 0xffff (PN_XNUM) or more
    program headers (or force_xnum) e_phnum is PN_XNUM and the real number is sh_info of section header 0; e_shnum is
    `shnum_field` (1: the null section counted in the header, as the kernel writes it; 0: the number of sections is
    extended as well, sh_size of section header 0 = 1).  The section header stands between the notes and the data.
    segs: dicts(paddr, filesz, memsz, voff, data=bytes | None) in table order; each gets its file offset as s['off'].
    Returns dict(e_phnum, e_shnum, e_shoff, sh_size, sh_info, nph)."""
    E = ">" if be else "<"
    nph = len(segs) + (1 if notes else 0)
    xnum = force_xnum or nph >= 0xffff
    ehsz, phsz, shsz = (64, 56, 64) if elfclass == 64 else (52, 32, 40)
    hdr_end = ehsz + nph * phsz
    shoff = (hdr_end + len(notes) + 7) // 8 * 8 if xnum else 0
    off = ((shoff + shsz if xnum else hdr_end + len(notes)) + ps - 1) // ps * ps
    mask = M64 if elfclass == 64 else 0xffffffff
    ph = []
    if notes:
        if elfclass == 64:
            ph.append(struct.pack(E + "IIQQQQQQ", 4, 0, hdr_end, 0, 0, len(notes), len(notes), 0))
        else:
            ph.append(struct.pack(E + "IIIIIIII", 4, hdr_end, 0, 0, len(notes), len(notes), 0, 0))
    for s in segs:
        s["off"] = off
        va = (s["paddr"] + s.get("voff", 0)) & mask
        if elfclass == 64:
            ph.append(struct.pack(E + "IIQQQQQQ", 1, 7, off, va, s["paddr"], s["filesz"], s["memsz"], ps))
        else:
            ph.append(struct.pack(E + "IIIIIIII", 1, off, va, s["paddr"], s["filesz"], s["memsz"], 7, ps))
        off += (s["filesz"] + ps - 1) // ps * ps
    e_phnum = 0xffff if xnum else nph
    e_shnum = shnum_field if xnum else 0
    sh_size = 1 if (xnum and shnum_field == 0) else 0
    ident = b"\x7fELF" + bytes([2 if elfclass == 64 else 1, 2 if be else 1, 1, 0]) + b"\0" * 8
    if elfclass == 64:
        eh = ident + struct.pack(E + "HHIQQQIHHHHHH", 4, EM[machine], 1, 0, ehsz, shoff, 0, ehsz, phsz, e_phnum, shsz if xnum else 0, e_shnum, 0)
        sh = struct.pack(E + "IIQQQQIIQQ", 0, 0, 0, 0, 0, sh_size, 0, nph, 0, 0)
    else:
        eh = ident + struct.pack(E + "HHIIIIIHHHHHH", 4, EM[machine], 1, 0, ehsz, shoff, 0, ehsz, phsz, e_phnum, shsz if xnum else 0, e_shnum, 0)
        sh = struct.pack(E + "IIIIIIIIII", 0, 0, 0, 0, 0, sh_size, 0, nph, 0, 0)
    with open(path, "wb") as f:
        f.write(eh + b"".join(ph) + notes)
        if xnum:
            f.seek(shoff)
            f.write(sh)
        for s in segs:
            if s["filesz"]:
                f.seek(s["off"])
                f.write(bytes(s["data"][:s["filesz"]]).ljust(s["filesz"], b"\0"))
        f.truncate(max(off, f.tell()))
    return dict(e_phnum=e_phnum, e_shnum=e_shnum, e_shoff=shoff, sh_size=sh_size, sh_info=nph if xnum else 0, nph=nph, xnum=xnum)


def c03_s390x_elf_lowcore(path, ps=4096):
    """c16_write_s390x_elf() in its legacy-lowcore form (NULL os_info, LC_VMCORE_INFO -> ELF note in dump memory) with a complete
    VMCOREINFO note, plus the field table of the lowcore pointers and the note header.  Returns dict(fields=, bounds=, size=)."""
    vmci = b"OSRELEASE=5.4.0-s390x\nPAGESIZE=4096\n"
    c16_write_s390x_elf(path, note=(11, len(vmci)), ps=ps)
    img = bytearray(open(path, "rb").read())
    hdr = struct.pack(">III", 11, len(vmci), 0) + b"VMCOREINFO\0\0"
    n = img.find(hdr)
    img[n + 24:n + 24 + len(vmci)] = vmci
    with open(path, "wb") as f:
        f.write(img)
    lc = n - 0x1800
    fields = [("lc.vmcoreinfo", lc + 0xe0c, 8, 1), ("lc.os_info", lc + 0xe18, 8, 1), ("note.namesz", n, 4, 1), ("note.descsz", n + 4, 4, 1),
              ("note.type", n + 8, 4, 1), ("note.name[0]", n + 12, 1, 1)]
    return dict(fields=fields + elf_fields(64, True, nph=1), bounds=sorted({0, 64, lc, n, n + 12, n + 24, n + 24 + len(vmci), len(img)}), size=len(img))
