"""Dump-file writers used by the generators (not part of any proof).

Content convention shared with the Lean driver (lean/Driver/Content.lean) and
the property checks: the byte stored at physical address `pa` is
`content_byte(pa)` unless `pa` is in the explicit NUL set."""
import struct

M64 = (1 << 64) - 1


def content_byte(pa):
    x = (pa * 0x9E3779B97F4A7C15 + 0x1234567) & M64
    b = x >> 56
    return b if b else 1


def page_bytes(pfn, ps, nuls=()):
    base = pfn * ps
    b = bytearray(content_byte(base + i) for i in range(ps))
    for a in nuls:
        if base <= a < base + ps:
            b[a - base] = 0
    return bytes(b)


def fnv(data):
    h = 0xcbf29ce484222325
    for c in data:
        h = ((h ^ c) * 0x100000001b3) & M64
    return h


EM = dict(x86_64=62, i386=3, aarch64=183, ppc64=21, s390x=22, arm=40, riscv64=243)


def write_elf(path, segs, ps=4096, machine="x86_64", elfclass=64, be=False, nuls=(), notes=b"",
              etype=4):
    """segs: list of dicts(pfn=, npages=, voff=<virt - phys>, filepages=<npages with file data, default all>)
    Page-aligned PT_LOAD segments; returns nothing."""
    E = ">" if be else "<"
    nph = len(segs) + (1 if notes else 0)
    if elfclass == 64:
        ehsz, phsz = 64, 56
    else:
        ehsz, phsz = 52, 32
    hdr_end = ehsz + nph * phsz
    off = (hdr_end + len(notes) + ps - 1) // ps * ps
    ph = b""
    body = []
    if notes:
        if elfclass == 64:
            ph += struct.pack(E + "IIQQQQQQ", 4, 0, hdr_end, 0, 0, len(notes), len(notes), 0)
        else:
            ph += struct.pack(E + "IIIIIIII", 4, hdr_end, 0, 0, len(notes), len(notes), 0, 0)
    for s in segs:
        pa = s["pfn"] * ps
        va = (pa + s.get("voff", 0)) & (M64 if elfclass == 64 else 0xffffffff)
        memsz = s["npages"] * ps
        filesz = s.get("filepages", s["npages"]) * ps
        if elfclass == 64:
            ph += struct.pack(E + "IIQQQQQQ", 1, 7, off, va, pa, filesz, memsz, ps)
        else:
            ph += struct.pack(E + "IIIIIIII", 1, off, va, pa, filesz, memsz, 7, ps)
        body.append((off, s["pfn"], filesz // ps))
        off += filesz
    ident = b"\x7fELF" + bytes([2 if elfclass == 64 else 1, 2 if be else 1, 1, 0]) + b"\0" * 8
    if elfclass == 64:
        eh = ident + struct.pack(E + "HHIQQQIHHHHHH", etype, EM[machine], 1, 0, ehsz, 0, 0, ehsz, phsz, nph, 0, 0, 0)
    else:
        eh = ident + struct.pack(E + "HHIIIIIHHHHHH", etype, EM[machine], 1, 0, ehsz, 0, 0, ehsz, phsz, nph, 0, 0, 0)
    with open(path, "wb") as f:
        f.write(eh + ph + notes)
        for o, pfn, n in body:
            f.seek(o)
            for i in range(n):
                f.write(page_bytes(pfn + i, ps, nuls))
        f.truncate(max(off, f.tell()))
