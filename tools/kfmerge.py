#!/usr/bin/env python3
"""append KNOWN_FINDINGS lines of an agent that /verif does not have yet (fix hashes rewritten to /repo's)"""
import sys, subprocess, re
a = sys.argv[1]
mine = open('/verif/KNOWN_FINDINGS').read()
have = set(l.strip() for l in mine.split('\n'))
add = []
for l in open(a).read().split('\n'):
    l = l.strip()
    if not l or l.startswith('#') or l in have:
        continue
    if not re.match(r'(finding|fixed):', l):
        continue
    m = re.match(r'fixed: property=(C\d+) (\w+) (.*)', l)
    if m:
        # map the agent's commit to /repo's commit with the same subject
        subj = subprocess.run(['git', '-C', sys.argv[2], 'log', '--format=%s', '-1', m.group(2)], capture_output=True, text=True).stdout.strip()
        if subj:
            h = subprocess.run(['git', '-C', '/repo', 'log', '--format=%h', '--fixed-strings', '--grep', subj, '-1'], capture_output=True, text=True).stdout.strip()
            if h:
                l = 'fixed: property=%s %s %s' % (m.group(1), h, m.group(3))
        if any(x.startswith('fixed: property=%s ' % m.group(1)) and m.group(3)[:60] in x for x in have):
            continue
    add.append(l)
open('/verif/KNOWN_FINDINGS', 'a').write(''.join(x + '\n' for x in add))
print('appended', len(add))
for x in add: print('  ', x[:160])
