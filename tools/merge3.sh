#!/bin/sh
# merge3.sh <agent-verif-dir> <base-commit> <file>...  : 3-way merge of shared files (current /verif, base, agent's)
A=$1; B=$2; shift 2
for f in "$@"; do
  git -C /verif show $B:$f > /tmp/merge3.base 2>/dev/null || : > /tmp/merge3.base
  cp /verif/$f /tmp/merge3.cur
  if git merge-file -p /tmp/merge3.cur /tmp/merge3.base $A/$f > /tmp/merge3.out; then cp /tmp/merge3.out /verif/$f; echo "merged $f"; else echo "CONFLICT in $f (left unchanged; see /tmp/merge3.out)"; cp /tmp/merge3.out /tmp/merge3.$(basename $f).conflict; fi
done
