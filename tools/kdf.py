#!/usr/bin/env python3
"""Common machinery for the /verif checks.

Every check goes through `Run`:
  * private scratch directory under /var/tmp (removed on exit, also on error),
  * library objects compiled from /repo's *current working tree*,
  * harness binaries linked against them,
  * fact extraction into lean/Kdf/Gen, `lake build` of the model, the driver
    and the property theorems (under a file lock), axiom / sorry audit,
  * correspondence diff, failure search hooks, evidence and replay writers.
"""
import contextlib, fcntl, hashlib, json, os, random, re, shutil, signal
import subprocess, sys, tempfile, time

VERIF = os.path.dirname(os.path.dirname(os.path.abspath(__file__)))
REPO = os.environ.get("KDF_REPO", "/repo")
LEAN = os.path.join(VERIF, "lean")
HARNESS = os.path.join(VERIF, "harness")
GUARD = "LIBKDUMPFILE_VERIF"
ALLOWED_AXIOMS = {"propext", "Classical.choice", "Quot.sound"}
NCPU = os.cpu_count() or 4

SAN = ["-fsanitize=address,undefined", "-fno-sanitize-recover=undefined",
       "-fno-omit-frame-pointer"]
BASE_CFLAGS = ["-O1", "-g", "-w", "-DHAVE_CONFIG_H", "-D" + GUARD,
               "-D_GNU_SOURCE"]
ALLOC_WRAP = "-Wl,--wrap=malloc,--wrap=calloc,--wrap=realloc,--wrap=strdup,--wrap=free"
LIBS = ["-lz", "-lsnappy", "-lzstd", "-lpthread", "-ldl"]


def sh(cmd, **kw):
    kw.setdefault("stdout", subprocess.PIPE)
    kw.setdefault("stderr", subprocess.STDOUT)
    kw.setdefault("text", True)
    return subprocess.run(cmd, **kw)


class CheckBroken(Exception):
    """The machinery itself failed (not a verdict about libkdumpfile)."""


class Violation:
    def __init__(self, prop, what, replay, found_input=True, key=None):
        self.prop, self.what, self.replay = prop, what, replay
        self.found_input = found_input
        self.key = key or what


def known_findings():
    """Parse /verif/KNOWN_FINDINGS: lines `finding: property=Cxx key=<key> <text>`
    and `fixed: property=Cxx <commit> <text>` (fixed lines suppress nothing)."""
    out = {}
    p = os.path.join(VERIF, "KNOWN_FINDINGS")
    if not os.path.exists(p):
        return out
    for line in open(p):
        line = line.strip()
        m = re.match(r"finding:\s+property=(C\d+)\s+key=(\S+)\s+(.*)", line)
        if m:
            out.setdefault(m.group(1), {})[m.group(2)] = m.group(3)
    return out


class Run:
    def __init__(self, prop, tier, seed):
        self.prop, self.tier, self.seed = prop, tier, seed
        self.t0 = time.time()
        self.scratch = tempfile.mkdtemp(prefix="kdfverif.", dir="/var/tmp")
        self.rng = random.Random((seed << 8) ^ int(prop[1:]))
        self.violations = []
        self.known = []
        self.notes = []
        self.cov = {}
        self.libdir = None

    # ------------------------------------------------------------------ scratch
    def cleanup(self):
        shutil.rmtree(self.scratch, ignore_errors=True)

    def path(self, *a):
        return os.path.join(self.scratch, *a)

    # ------------------------------------------------------------- library build
    def build_lib(self, san=True, extra=(), tag="lib"):
        """Compile src/addrxlat and src/kdumpfile of the working tree into an
        archive.  Returns (archive, cflags-for-harness)."""
        d = self.path(tag)
        if os.path.exists(os.path.join(d, "libkdf.a")):
            return os.path.join(d, "libkdf.a"), self._cflags(d, san, extra)
        os.makedirs(d)
        src = os.path.join(d, "tree")
        os.makedirs(src)
        for sub in ("src", "include"):
            shutil.copytree(os.path.join(REPO, sub), os.path.join(src, sub),
                            ignore=shutil.ignore_patterns("*.o", "*.lo", "*.la", ".libs", ".deps", "*.a"))
        shutil.copy(os.path.join(REPO, "config.h"), src)
        # regenerate public headers from the .h.in templates of the working tree
        cfg = open(os.path.join(src, "config.h")).read()
        ver = re.search(r'#define PACKAGE_VERSION "([^"]+)"', cfg).group(1)
        vs = (ver.split(".") + ["0", "0"])[:3]
        for h in ("addrxlat", "kdumpfile"):
            t = open(os.path.join(src, "include/libkdumpfile", h + ".h.in")).read()
            t = (t.replace("@PACKAGE_VER_MAJOR@", vs[0]).replace("@PACKAGE_VER_MINOR@", vs[1])
                  .replace("@PACKAGE_VER_MICRO@", vs[2]).replace("@PACKAGE_VERSION@", ver))
            open(os.path.join(src, "include/libkdumpfile", h + ".h"), "w").write(t)
        files = []
        for sub in ("src/addrxlat", "src/kdumpfile"):
            for f in sorted(os.listdir(os.path.join(src, sub))):
                if f.endswith(".c") and not f.startswith("test-"):
                    files.append(os.path.join(sub, f))
        cflags = self._cflags(d, san, extra)
        jobs = []
        objs = []
        for f in files:
            o = os.path.join(d, f.replace("/", "_")[:-2] + ".o")
            objs.append(o)
            jobs.append(["gcc", "-c"] + cflags + ["-ffunction-sections", "-o", o, os.path.join(src, f)])
        procs = []
        fails = []
        for j in jobs:
            procs.append((j, subprocess.Popen(j, stdout=subprocess.PIPE, stderr=subprocess.STDOUT, text=True)))
            if len(procs) >= NCPU:
                jj, p = procs.pop(0)
                out, _ = p.communicate()
                if p.returncode:
                    fails.append((jj, out))
        for jj, p in procs:
            out, _ = p.communicate()
            if p.returncode:
                fails.append((jj, out))
        if fails:
            raise CheckBroken("library does not compile from the working tree:\n" + fails[0][1][-3000:])
        r = sh(["ar", "rcs", os.path.join(d, "libkdf.a")] + objs)
        if r.returncode:
            raise CheckBroken("ar failed: " + r.stdout)
        self.libdir = d
        return os.path.join(d, "libkdf.a"), cflags

    def _cflags(self, d, san, extra):
        src = os.path.join(d, "tree")
        return (BASE_CFLAGS + (SAN if san else []) + list(extra) +
                ["-I" + src, "-I" + os.path.join(src, "include"), "-I" + os.path.join(src, "src"),
                 "-I" + os.path.join(src, "src/kdumpfile"), "-I" + os.path.join(src, "src/addrxlat")])

    def tree(self, tag="lib"):
        return self.path(tag, "tree")

    def build_harness(self, name, sources, lib=None, cflags=None, ldflags=(), out=None):
        if lib is None:
            lib, cflags = self.build_lib()
        out = out or self.path(name)
        cmd = (["gcc"] + cflags + ["-I" + HARNESS, "-o", out] +
               [s if os.path.isabs(s) else os.path.join(HARNESS, s) for s in sources] +
               [lib] + list(ldflags) + LIBS)
        r = sh(cmd)
        if r.returncode:
            raise CheckBroken("harness %s does not build:\n%s" % (name, r.stdout[-4000:]))
        return out

    def run_harness(self, exe, args=(), stdin_text=None, timeout=600, env=None):
        e = dict(os.environ)
        e["ASAN_OPTIONS"] = "detect_leaks=0:abort_on_error=0:allocator_may_return_null=1:handle_segv=1"
        e["UBSAN_OPTIONS"] = "print_stacktrace=1:halt_on_error=1"
        if env:
            e.update(env)
        try:
            p = subprocess.run([exe] + list(args), input=stdin_text, stdout=subprocess.PIPE,
                               stderr=subprocess.PIPE, text=True, timeout=timeout, env=e,
                               errors="replace")
            return p.returncode, p.stdout, p.stderr
        except subprocess.TimeoutExpired as ex:
            so = ex.stdout.decode(errors="replace") if isinstance(ex.stdout, bytes) else (ex.stdout or "")
            se = ex.stderr.decode(errors="replace") if isinstance(ex.stderr, bytes) else (ex.stderr or "")
            return -999, so, se + "\nTIMEOUT"

    # -------------------------------------------------------------------- Lean
    @contextlib.contextmanager
    def lean_lock(self):
        os.makedirs(os.path.join(LEAN, ".lake"), exist_ok=True)
        f = open(os.path.join(LEAN, ".lake", "verif.lock"), "w")
        fcntl.flock(f, fcntl.LOCK_EX)
        try:
            yield
        finally:
            fcntl.flock(f, fcntl.LOCK_UN)
            f.close()

    def extract(self):
        import extract
        with self.lean_lock():
            return extract.run(REPO, os.path.join(LEAN, "Kdf", "Gen"), self.scratch)

    def lake_build(self, targets):
        with self.lean_lock():
            r = sh(["lake", "build"] + list(targets), cwd=LEAN)
        return r.returncode == 0, r.stdout

    def driver(self):
        """Path of the compiled model driver (builds it if needed)."""
        ok, out = self.lake_build(["kdfdrv"])
        if not ok:
            raise CheckBroken("model driver does not build:\n" + out[-4000:])
        return os.path.join(LEAN, ".lake", "build", "bin", "kdfdrv")

    def run_driver(self, stream, text, timeout=900):
        exe = self.driver()
        p = subprocess.run([exe, stream], input=text, stdout=subprocess.PIPE, stderr=subprocess.PIPE,
                           text=True, timeout=timeout)
        if p.returncode:
            raise CheckBroken("model driver failed on stream %s: %s" % (stream, p.stderr[-2000:]))
        return p.stdout

    def prove(self, modules, theorems):
        """Build the property modules and audit the axioms of `theorems`.
        Returns dict(obligations=, discharged=, broken=[names], log=)."""
        res = dict(obligations=len(theorems), discharged=0, broken=[], log="", axioms={})
        ok, out = self.lake_build(modules)
        res["log"] = out[-6000:]
        if not ok:
            # which theorems are affected?  Everything in modules that failed.
            res["broken"] = list(theorems)
            res["build_failed"] = True
            return res
        # textual audit of the sources that the modules consist of
        bad = self.grep_forbidden()
        if bad:
            raise CheckBroken("forbidden construct in Lean sources: " + "; ".join(bad[:5]))
        src = "".join("import %s\n" % m for m in modules) + "".join("#print axioms %s\n" % t for t in theorems)
        f = self.path("audit.lean")
        open(f, "w").write(src)
        with self.lean_lock():
            r = sh(["lake", "env", "lean", f], cwd=LEAN)
        txt = r.stdout
        cur = None
        ax = {}
        for m in re.finditer(r"'([^']+)' (depends on axioms: \[([^\]]*)\]|does not depend on any axioms)", txt, re.S):
            name = m.group(1)
            ax[name] = [a.strip() for a in (m.group(3) or "").replace("\n", " ").split(",") if a.strip()]
        for t in theorems:
            if t not in ax:
                res["broken"].append(t)
            elif set(ax[t]) - ALLOWED_AXIOMS:
                raise CheckBroken("theorem %s depends on disallowed axioms %s" % (t, ax[t]))
            else:
                res["discharged"] += 1
        res["axioms"] = ax
        if r.returncode and not res["broken"]:
            raise CheckBroken("axiom audit failed:\n" + txt[-3000:])
        # the toolchain's independent re-checker replays the compiled property modules through the kernel (3-6 s per module)
        if not res["broken"]:
            rechecked = []
            for m in modules:
                if ".Props." not in m:
                    continue
                with self.lean_lock():
                    rc = sh(["lake", "env", "leanchecker", m], cwd=LEAN)
                if rc.returncode:
                    res["broken"] = list(theorems)
                    res["discharged"] = 0
                    res["log"] = ("leanchecker rejected %s:\n" % m) + rc.stdout[-3000:]
                    break
                rechecked.append(m)
            res["leanchecker"] = rechecked
            self.rechecked = sorted(set(getattr(self, "rechecked", [])) | set(rechecked))
        return res

    def grep_forbidden(self):
        bad = []
        pat = re.compile(r"\bsorry\b|\badmit\b|^\s*axiom\s|native_decide|bv_decide|implemented_by|\bunsafe\s|maxHeartbeats 0")
        for root, _, files in os.walk(os.path.join(LEAN, "Kdf")):
            for fn in files:
                if not fn.endswith(".lean"):
                    continue
                p = os.path.join(root, fn)
                txt = open(p).read()
                # strip comments
                txt = re.sub(r"/-.*?-/", lambda m: "\n" * m.group(0).count("\n"), txt, flags=re.S)
                for i, line in enumerate(txt.split("\n"), 1):
                    line = line.split("--")[0]
                    if pat.search(line):
                        bad.append("%s:%d: %s" % (os.path.relpath(p, VERIF), i, line.strip()))
        return bad

    # ------------------------------------------------------------- verdicts
    def replay_path(self, obj):
        os.makedirs(os.path.join(VERIF, "replays"), exist_ok=True)
        blob = json.dumps(obj, sort_keys=True, indent=1)
        h = hashlib.sha1(blob.encode()).hexdigest()[:12]
        p = os.path.join(VERIF, "replays", "%s-%s.json" % (self.prop, h))
        open(p, "w").write(blob + "\n")
        return p

    def violation(self, what, replay_obj, key=None, found_input=True):
        """Record a violation unless its key is listed in KNOWN_FINDINGS."""
        kf = known_findings().get(self.prop, {})
        if key is not None and key in kf:
            if key not in [k for k, _ in self.known]:
                self.known.append((key, kf[key]))
            return
        replay_obj = dict(replay_obj)
        replay_obj.setdefault("property", self.prop)
        replay_obj.setdefault("what", what)
        replay_obj.setdefault("seed", self.seed)
        p = self.replay_path(replay_obj)
        self.violations.append(Violation(self.prop, what, p, found_input, key))

    def finish(self, level, coverage, assumptions):
        os.makedirs(os.path.join(VERIF, "evidence"), exist_ok=True)
        cov = dict(coverage)
        cov["known_findings_matched"] = [k for k, _ in self.known]
        cov["notes"] = self.notes
        cov["leanchecker_rechecked"] = getattr(self, "rechecked", [])
        ev = dict(property_id=self.prop, tier=self.tier, seed=self.seed, level=level,
                  coverage=cov, assumptions=assumptions,
                  wall_s=round(time.time() - self.t0, 2), violations=len(self.violations))
        with open(os.path.join(VERIF, "evidence", self.prop + ".json"), "w") as f:
            json.dump(ev, f, indent=1, sort_keys=True)
            f.write("\n")
        for k, txt in self.known:
            print("KNOWN-FINDING: property=%s %s (%s)" % (self.prop, k, txt))
        seen = set()
        for v in self.violations:
            if v.replay in seen:
                continue
            seen.add(v.replay)
            tail = "" if v.found_input else " no-failing-input-found"
            print("VIOLATION property=%s replay=%s%s" % (v.prop, v.replay, tail))
            print("  -> " + v.what[:400])
        return 1 if self.violations else 0


def diff_streams(a_lines, b_lines):
    """First index where the two observation streams differ, or None."""
    n = min(len(a_lines), len(b_lines))
    for i in range(n):
        if a_lines[i] != b_lines[i]:
            return i
    if len(a_lines) != len(b_lines):
        return n
    return None


def obs(text):
    return [l[1:].strip() for l in text.split("\n") if l.startswith(">")]
