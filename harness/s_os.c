/* Stream `os` (C08): real addrxlat_sys_os_init on synthesized kernel images, the
 * generic layout machinery of sys.c (sys_set_layout, sys_set_physmaps) and the
 * recursive page-table scanners of step.c (lowest_mapped, highest_mapped,
 * lowest_unmapped, highest_linear), over a pure-function memory with overrides
 * served through get_page, and symbols / registers / numbers served through
 * the sym_value, reg_value, sym_sizeof, sym_offsetof and num_value callbacks.
 * Protocol: lean/Driver/Os.lean (the model twin understands the layout / scan
 * part; `osinit` scripts are evaluated against the Python oracle of
 * tools/props/c08.py).  `reset` (image scripts only) starts a new image on the
 * same addrxlat_sys_t: the history class "initialised more than once". */
#include "hcommon.h"
#include <libkdumpfile/addrxlat.h>
#include "addrxlat-priv.h"

/* ------------------------------------------------------------------ memory */
static uint64_t seed; static uint32_t and_[2], or_[2]; static int be;
#define HSZ (1u << 18)
struct ovr { int as; uint64_t a; uint32_t v; int used; };
static struct ovr *ovr; static unsigned novr;
struct badpg { int as; uint64_t a; int st; };
static struct badpg bad[256]; static unsigned nbad;
static unsigned long rcaps = 7;
static unsigned npages;
/* C16 mode (`c16 1`): every failure raised by a callback carries its own event number in its message
 * (`[ev<n>] ...`), every page request is listed (`P <as> <addr>` lines) and osinit / conv print an `E` line:
 *   E <op> <status> ev=<events so far> | <error string of the context, "-" when empty>
 * None of these lines starts with `>`, so the C08 observation stream is unchanged. */
static int c16mode; static unsigned evno;
static addrxlat_ctx_t *ctx_for_c16(void);
static addrxlat_status cb_fail(const addrxlat_cb_t *cb, addrxlat_status st, const char *what, const char *name)
{
	if (c16mode)
		return addrxlat_ctx_err(cb->priv, st, "[ev%u] %s%s%s", ++evno, what, *name ? " " : "", name);
	return addrxlat_ctx_err(cb->priv, st, "%s%s%s", what, *name ? " " : "", name);
}
static void c16_line(const char *op, addrxlat_status st)
{
	const char *e;
	if (!c16mode) return;
	e = addrxlat_ctx_get_err(ctx_for_c16());
	printf("E %s %s ev=%u | %s\n", op, xstatus_name(st), evno, e && *e ? e : "-");
}

static uint32_t mix(uint64_t as, uint64_t a4)
{
	uint64_t z = seed + 0x9E3779B97F4A7C15ULL * (a4 / 4 + 1) + as * 0xD1B54A32D192ED03ULL;
	z = (z ^ (z >> 30)) * 0xBF58476D1CE4E5B9ULL;
	z = (z ^ (z >> 27)) * 0x94D049BB133111EBULL;
	z ^= z >> 31;
	return (uint32_t)z;
}
static unsigned hslot(int as, uint64_t a4)
{
	uint64_t h = (a4 * 0x9E3779B97F4A7C15ULL) ^ ((uint64_t)as * 0xD1B54A32D192ED03ULL);
	return (unsigned)(h >> 40) & (HSZ - 1);
}
static void ovr_set(int as, uint64_t a4, uint32_t v)
{
	unsigned i = hslot(as, a4);
	if (novr >= HSZ / 2) return;
	while (ovr[i].used && !(ovr[i].as == as && ovr[i].a == a4)) i = (i + 1) & (HSZ - 1);
	if (!ovr[i].used) ++novr;
	ovr[i].used = 1; ovr[i].as = as; ovr[i].a = a4; ovr[i].v = v;
}
static uint32_t cell(int as, uint64_t a4)
{
	unsigned i = hslot(as, a4);
	while (ovr[i].used) {
		if (ovr[i].as == as && ovr[i].a == a4) return ovr[i].v;
		i = (i + 1) & (HSZ - 1);
	}
	i = (a4 / 4) % 2;
	return (mix(as, a4) & and_[i]) | or_[i];
}
static void put_page(const addrxlat_buffer_t *buf) { free((void *)buf->ptr); }
static addrxlat_status get_page(const addrxlat_cb_t *cb, addrxlat_buffer_t *buf)
{
	unsigned char *p; unsigned i;
	++npages;
	if ((int)buf->addr.as < 0 || buf->addr.as > 2)
		return cb_fail(cb, ADDRXLAT_ERR_NODATA, "no such address space", "");
	buf->addr.addr &= ~(addrxlat_addr_t)0xfff;
	if (c16mode == 1) printf("P %d %" PRIu64 "\n", (int)buf->addr.as, (uint64_t)buf->addr.addr);
	for (i = nbad; i-- > 0; )
		if (bad[i].as == (int)buf->addr.as && bad[i].a == buf->addr.addr)
			return cb_fail(cb, bad[i].st, "page not available", "");
	p = malloc(4096);
	for (i = 0; i < 1024; ++i) {
		uint32_t v = cell(buf->addr.as, buf->addr.addr + 4 * i);
		if (be) { p[4*i] = v >> 24; p[4*i+1] = v >> 16; p[4*i+2] = v >> 8; p[4*i+3] = v; }
		else { p[4*i] = v; p[4*i+1] = v >> 8; p[4*i+2] = v >> 16; p[4*i+3] = v >> 24; }
	}
	buf->ptr = p; buf->size = 4096;
	buf->byte_order = be ? ADDRXLAT_BIG_ENDIAN : ADDRXLAT_LITTLE_ENDIAN;
	buf->put_page = put_page;
	return ADDRXLAT_OK;
}
static unsigned long read_caps(const addrxlat_cb_t *cb) { return rcaps; }

/* ----------------------------------------------------------------- symbols */
struct symdef { char kind[12]; char name[96]; uint64_t val; };
static struct symdef syms[256]; static unsigned nsyms;
/* `hide <kind> <name> <status>`: look-ups of that one name fail with that status (`hide - - ok` = none) */
static char hide_kind[16], hide_name[96]; static int hide_st;
/* C16 histories (`xhide <kind> <name> <status>`): any number of further names, in force until `hide - - ok`; the
 * translation context is NOT replaced by xhide / kbad / kunbad / sysonly, so that what a tolerated failure left in the
 * context is still there when the next call runs */
struct xhide { char kind[16]; char name[96]; int st; };
static struct xhide xh[64]; static unsigned nxh;
static addrxlat_status look(const addrxlat_cb_t *cb, const char *kind, const char *name, addrxlat_addr_t *val)
{
	unsigned i;
	if (hide_st && !strcmp(hide_kind, kind) && !strcmp(hide_name, name))
		return cb_fail(cb, hide_st, "refused", name);
	for (i = 0; i < nxh; ++i)
		if (!strcmp(xh[i].kind, kind) && !strcmp(xh[i].name, name))
			return cb_fail(cb, xh[i].st, "refused", name);
	for (i = nsyms; i-- > 0; )
		if (!strcmp(syms[i].kind, kind) && !strcmp(syms[i].name, name)) { *val = syms[i].val; return ADDRXLAT_OK; }
	if (c16mode) {
		char what[32];
		snprintf(what, sizeof what, "no %s", kind);
		return cb_fail(cb, ADDRXLAT_ERR_NODATA, what, name);
	}
	return addrxlat_ctx_err(cb->priv, ADDRXLAT_ERR_NODATA, "no %s %s", kind, name);
}
static addrxlat_status cb_reg(const addrxlat_cb_t *cb, const char *name, addrxlat_addr_t *val) { return look(cb, "reg", name, val); }
static addrxlat_status cb_sym(const addrxlat_cb_t *cb, const char *name, addrxlat_addr_t *val) { return look(cb, "sym", name, val); }
static addrxlat_status cb_sizeof(const addrxlat_cb_t *cb, const char *name, addrxlat_addr_t *val) { return look(cb, "sizeof", name, val); }
static addrxlat_status cb_num(const addrxlat_cb_t *cb, const char *name, addrxlat_addr_t *val) { return look(cb, "num", name, val); }
static addrxlat_status cb_offsetof(const addrxlat_cb_t *cb, const char *obj, const char *elem, addrxlat_addr_t *val)
{
	char nm[96];
	snprintf(nm, sizeof nm, "%s.%s", obj, elem);
	return look(cb, "offsetof", nm, val);
}

static addrxlat_ctx_t *ctx; static addrxlat_cb_t *cb; static addrxlat_sys_t *sys;
static addrxlat_ctx_t *ctx_for_c16(void) { return ctx; }
static void new_ctx(void)
{
	if (ctx) addrxlat_ctx_decref(ctx);
	ctx = addrxlat_ctx_new(); cb = addrxlat_ctx_add_cb(ctx);
	cb->priv = ctx; cb->get_page = get_page; cb->read_caps = read_caps;
	cb->reg_value = cb_reg; cb->sym_value = cb_sym; cb->sym_sizeof = cb_sizeof;
	cb->sym_offsetof = cb_offsetof; cb->num_value = cb_num;
}
static addrxlat_status status_of(const char *s)
{
	if (!strcmp(s, "ok")) return ADDRXLAT_OK;
	if (!strcmp(s, "notimpl")) return ADDRXLAT_ERR_NOTIMPL;
	if (!strcmp(s, "notpresent")) return ADDRXLAT_ERR_NOTPRESENT;
	if (!strcmp(s, "invalid")) return ADDRXLAT_ERR_INVALID;
	if (!strcmp(s, "nomem")) return ADDRXLAT_ERR_NOMEM;
	if (!strcmp(s, "nodata")) return ADDRXLAT_ERR_NODATA;
	if (!strncmp(s, "custom", 6)) return -(s[6] ? atoi(s + 6) : 4);   /* a caller's own status, e.g. a tunnelled kdump_status */
	return ADDRXLAT_ERR_NOMETH;
}

/* ------------------------------------------------------------------- dumps */
static void dump_sys(void)
{
	int i; unsigned k;
	for (i = 0; i < ADDRXLAT_SYS_MAP_NUM; ++i) {
		addrxlat_map_t *map = addrxlat_sys_get_map(sys, i);
		if (!map) { printf("> map %d none\n", i); continue; }
		{
			size_t len = addrxlat_map_len(map), j; const addrxlat_range_t *r = addrxlat_map_ranges(map);
			printf("> map %d ", i);
			if (!len) printf("empty");
			for (j = 0; j < len; ++j) printf("%s%" PRIu64 ":%d", j ? "," : "", (uint64_t)r[j].endoff, (int)r[j].meth);
			putchar('\n');
		}
	}
	for (i = 0; i < ADDRXLAT_SYS_METH_NUM; ++i) {
		const addrxlat_meth_t *m = addrxlat_sys_get_meth(sys, i);
		switch (m->kind) {
		case ADDRXLAT_NOMETH: break;
		case ADDRXLAT_LINEAR:
			printf("> meth %d linear %d %" PRIu64 "\n", i, (int)m->target_as, (uint64_t)m->param.linear.off); break;
		case ADDRXLAT_PGT:
			printf("> meth %d pgt %s %d %d %" PRIu64 " %" PRIu64 " ", i, addrxlat_pte_format_name(m->param.pgt.pf.pte_format),
			       (int)m->target_as, (int)m->param.pgt.root.as,
			       m->param.pgt.root.as == ADDRXLAT_NOADDR ? (uint64_t)0 : (uint64_t)m->param.pgt.root.addr,
			       (uint64_t)m->param.pgt.pte_mask);
			for (k = 0; k < m->param.pgt.pf.nfields; ++k) printf("%s%u", k ? "," : "", (unsigned)m->param.pgt.pf.fieldsz[k]);
			putchar('\n'); break;
		case ADDRXLAT_LOOKUP:
			printf("> meth %d lookup %d %" PRIu64 " ", i, (int)m->target_as, (uint64_t)m->param.lookup.endoff);
			for (k = 0; k < m->param.lookup.nelem; ++k)
				printf("%s%" PRIu64 ":%" PRIu64, k ? "," : "", (uint64_t)m->param.lookup.tbl[k].orig, (uint64_t)m->param.lookup.tbl[k].dest);
			if (!m->param.lookup.nelem) putchar('-');
			putchar('\n'); break;
		case ADDRXLAT_MEMARR:
			printf("> meth %d memarr %d %d %" PRIu64 " %u %u %u\n", i, (int)m->target_as, (int)m->param.memarr.base.as,
			       (uint64_t)m->param.memarr.base.addr, m->param.memarr.shift, m->param.memarr.elemsz, m->param.memarr.valsz); break;
		default:
			printf("> meth %d kind%d\n", i, (int)m->kind);
		}
	}
}

/* the pure hardware walk: the method SYS_MAP_HW assigns to the address, walked with
 * addrxlat_walk; the result is brought to KPHYSADDR with the MACHPHYS->KPHYS map */
static addrxlat_status hw_walk(uint64_t a, addrxlat_fulladdr_t *res)
{
	addrxlat_map_t *map = addrxlat_sys_get_map(sys, ADDRXLAT_SYS_MAP_HW);
	addrxlat_sys_meth_t mi = map ? addrxlat_map_search(map, a) : ADDRXLAT_SYS_METH_NONE;
	addrxlat_step_t step; addrxlat_status st;
	res->as = ADDRXLAT_NOADDR; res->addr = 0;
	if (mi == ADDRXLAT_SYS_METH_NONE)
		return ADDRXLAT_ERR_NOMETH;
	memset(&step, 0, sizeof step);
	step.ctx = ctx; step.sys = sys; step.meth = addrxlat_sys_get_meth(sys, mi);
	step.base.as = ADDRXLAT_KVADDR; step.base.addr = a;
	st = addrxlat_walk(&step);
	if (st == ADDRXLAT_OK && step.base.as != ADDRXLAT_KPHYSADDR)
		st = addrxlat_fulladdr_conv(&step.base, ADDRXLAT_KPHYSADDR, ctx, sys);
	if (st == ADDRXLAT_OK) *res = step.base;
	return st;
}
/* one virtual address through the fast paths (KV -> KPHYS conversion) and through the hardware walk */
static void do_q(uint64_t a)
{
	addrxlat_fulladdr_t fa, hw; addrxlat_status st, sh;
	fa.as = ADDRXLAT_KVADDR; fa.addr = a;
	st = addrxlat_fulladdr_conv(&fa, ADDRXLAT_KPHYSADDR, ctx, sys);
	sh = hw_walk(a, &hw);
	printf("> q %" PRIu64 " | %s %d %" PRIu64 " | %s %d %" PRIu64 "\n", a, xstatus_name(st), (int)fa.as, (uint64_t)fa.addr,
	       xstatus_name(sh), (int)hw.as, (uint64_t)hw.addr);
}
/* one physical address through the reverse direct map and back */
static void do_rt(uint64_t a)
{
	addrxlat_fulladdr_t fa, back; addrxlat_status st, sb = ADDRXLAT_ERR_NOMETH;
	fa.as = ADDRXLAT_KPHYSADDR; fa.addr = a;
	st = addrxlat_fulladdr_conv(&fa, ADDRXLAT_KVADDR, ctx, sys);
	back = fa;
	if (st == ADDRXLAT_OK)
		sb = addrxlat_fulladdr_conv(&back, ADDRXLAT_KPHYSADDR, ctx, sys);
	printf("> rt %" PRIu64 " | %s %d %" PRIu64 " | %s %d %" PRIu64 "\n", a, xstatus_name(st), (int)fa.as, (uint64_t)fa.addr,
	       st == ADDRXLAT_OK ? xstatus_name(sb) : "-", (int)back.as, (uint64_t)back.addr);
}

static const char *val_of(const char *line, const char *key, char *out, size_t n)
{
	char pat[64]; const char *p;
	snprintf(pat, sizeof pat, " %s=", key);
	p = strstr(line, pat);
	if (!p) return NULL;
	p += strlen(pat);
	{ size_t i = 0; while (p[i] && p[i] != ' ' && p[i] != '\n' && i + 1 < n) { out[i] = p[i]; ++i; } out[i] = 0; }
	return out;
}

int main(void)
{
	static char line[1 << 16];
	ovr = calloc(HSZ, sizeof *ovr);
	sys = addrxlat_sys_new();
	new_ctx();
	setvbuf(stdout, NULL, _IOLBF, 0);
	while (fgets(line, sizeof line, stdin)) {
		char fmt[64], fields[256], tb[4096], sname[96], kind[16]; int t, ras, tas, slot; uint64_t a, b, c, d; unsigned sh, es, vs, bb, n;
		unsigned long a0, o0, a1, o1, caps;
		addrxlat_meth_t meth;
		memset(&meth, 0, sizeof meth);
		if (line[0] == '#' || line[0] == '\n') continue;
		if (sscanf(line, "mem %" SCNu64 " %lu %lu %lu %lu %u", &a, &a0, &o0, &a1, &o1, &bb) == 6) {
			seed = a; and_[0] = a0; or_[0] = o0; and_[1] = a1; or_[1] = o1; be = bb;
			new_ctx();
		} else if (sscanf(line, "ovr %d %" SCNu64 " %" SCNu64, &t, &a, &b) == 3) {
			ovr_set(t, a, (uint32_t)b);
			new_ctx();
		} else if (sscanf(line, "bad %d %" SCNu64 " %31s", &t, &a, sname) == 3) {
			if (nbad < 256) { bad[nbad].as = t; bad[nbad].a = a; bad[nbad].st = status_of(sname); ++nbad; }
			new_ctx();
		} else if (!strncmp(line, "clr", 3)) {
			memset(ovr, 0, HSZ * sizeof *ovr); novr = 0; nbad = 0; nsyms = 0; rcaps = 7;
			seed = 0; and_[0] = and_[1] = or_[0] = or_[1] = 0; be = 0;
			addrxlat_sys_decref(sys); sys = addrxlat_sys_new();
			new_ctx();
		} else if (!strncmp(line, "reset", 5)) {
			/* a new dump behind the SAME addrxlat_sys_t: memory, symbols, bad pages and the context (with its
			 * read cache) are new, the translation system keeps whatever the previous osinit left in it */
			memset(ovr, 0, HSZ * sizeof *ovr); novr = 0; nbad = 0; nsyms = 0; rcaps = 7;
			seed = 0; and_[0] = and_[1] = or_[0] = or_[1] = 0; be = 0;
			new_ctx();
		} else if (!strncmp(line, "newsys", 6)) {
			addrxlat_sys_decref(sys); sys = addrxlat_sys_new();
			new_ctx();
		} else if (sscanf(line, "rcaps %lu", &caps) == 1) {
			rcaps = caps;
		} else if (sscanf(line, "c16 %d", &t) == 1) {
			c16mode = t;        /* 1: tags, E lines and P lines; 2: tags and E lines */
		} else if (!strncmp(line, "unbad", 5)) {
			nbad = 0; new_ctx();
		} else if (sscanf(line, "xhide %15s %95s %31s", kind, sname, fmt) == 3) {
			if (nxh < 64) { strcpy(xh[nxh].kind, kind); strcpy(xh[nxh].name, sname); xh[nxh].st = status_of(fmt); ++nxh; }
		} else if (sscanf(line, "kbad %d %" SCNu64 " %31s", &t, &a, sname) == 3) {
			/* like `bad`, the context stays */
			if (nbad < 256) { bad[nbad].as = t; bad[nbad].a = a; bad[nbad].st = status_of(sname); ++nbad; }
		} else if (!strncmp(line, "kunbad", 6)) {
			nbad = 0;
		} else if (!strncmp(line, "sysonly", 7)) {
			/* a new translation system used with the SAME context */
			addrxlat_sys_decref(sys); sys = addrxlat_sys_new();
		} else if (sscanf(line, "xwalk %" SCNu64, &a) == 1) {
			/* addrxlat_walk with the method SYS_MAP_HW assigns to the address */
			addrxlat_map_t *map = addrxlat_sys_get_map(sys, ADDRXLAT_SYS_MAP_HW);
			addrxlat_sys_meth_t mi = map ? addrxlat_map_search(map, a) : ADDRXLAT_SYS_METH_NONE;
			addrxlat_step_t step; addrxlat_status st;
			memset(&step, 0, sizeof step);
			if (mi == ADDRXLAT_SYS_METH_NONE) {
				puts("E xwalk none ev=0 | -");
			} else {
				step.ctx = ctx; step.sys = sys; step.meth = addrxlat_sys_get_meth(sys, mi);
				step.base.as = ADDRXLAT_KVADDR; step.base.addr = a;
				st = addrxlat_walk(&step);
				printf("> xwalk %s %d %" PRIu64 "\n", xstatus_name(st), (int)step.base.as, (uint64_t)step.base.addr);
				c16_line("xwalk", st);
			}
		} else if (sscanf(line, "hide %15s %95s %31s", kind, sname, fmt) == 3) {
			strcpy(hide_kind, kind); strcpy(hide_name, sname); hide_st = status_of(fmt);
			if (!hide_st) nxh = 0;
		} else if (sscanf(line, "sym %15s %95s %" SCNu64, kind, sname, &a) == 3) {
			if (nsyms < 256) { strcpy(syms[nsyms].kind, kind); strcpy(syms[nsyms].name, sname); syms[nsyms].val = a; ++nsyms; }
		} else if (!strncmp(line, "osinit", 6)) {
			addrxlat_opt_t opts[16]; unsigned no = 0; char v[10][128]; addrxlat_status st; addrxlat_fulladdr_t fa;
			if (val_of(line, "arch", v[0], 128)) addrxlat_opt_arch(&opts[no++], v[0]);
			if (val_of(line, "os", v[1], 128)) addrxlat_opt_os_type(&opts[no++], v[1]);
			if (val_of(line, "ver", v[2], 128)) addrxlat_opt_version_code(&opts[no++], strtoul(v[2], NULL, 0));
			if (val_of(line, "phys_bits", v[3], 128)) addrxlat_opt_phys_bits(&opts[no++], strtoul(v[3], NULL, 0));
			if (val_of(line, "virt_bits", v[4], 128)) addrxlat_opt_virt_bits(&opts[no++], strtoul(v[4], NULL, 0));
			if (val_of(line, "page_shift", v[5], 128)) addrxlat_opt_page_shift(&opts[no++], strtoul(v[5], NULL, 0));
			if (val_of(line, "phys_base", v[6], 128)) addrxlat_opt_phys_base(&opts[no++], strtoull(v[6], NULL, 0));
			if (val_of(line, "rootpgt", v[7], 128)) {
				char *p; fa.as = strtol(v[7], &p, 0); if (*p == ':') ++p; fa.addr = strtoull(p, NULL, 0);
				addrxlat_opt_rootpgt(&opts[no++], &fa);
			}
			if (val_of(line, "xen_p2m_mfn", v[8], 128)) addrxlat_opt_xen_p2m_mfn(&opts[no++], strtoul(v[8], NULL, 0));
			if (val_of(line, "xen_xlat", v[9], 128)) addrxlat_opt_xen_xlat(&opts[no++], strtoul(v[9], NULL, 0));
			npages = 0;
			st = addrxlat_sys_os_init(sys, ctx, no, opts);
			printf("> osinit %s | pages=%u inflight=%s\n", xstatus_name(st), npages, ctx->inflight ? "LEFT" : "0");
			c16_line("osinit", st);
			dump_sys();
			puts("> end");
		} else if (!strncmp(line, "dump", 4)) {
			dump_sys(); puts("> end");
		} else if (sscanf(line, "meth %d pgt %63s %d %d %" SCNu64 " %" SCNu64 " %255s", &slot, fmt, &t, &ras, &a, &b, fields) == 7) {
			char *p = fields;
			n = 0;
			meth.kind = ADDRXLAT_PGT; meth.target_as = t;
			meth.param.pgt.root.as = ras; meth.param.pgt.root.addr = a; meth.param.pgt.pte_mask = b;
			meth.param.pgt.pf.pte_format = addrxlat_pte_format(fmt);
			while (*p && n < ADDRXLAT_FIELDS_MAX) { meth.param.pgt.pf.fieldsz[n++] = strtoul(p, &p, 10); if (*p == ',') ++p; }
			meth.param.pgt.pf.nfields = n;
			addrxlat_sys_set_meth(sys, slot, &meth);
		} else if (sscanf(line, "meth %d linear %d %" SCNu64, &slot, &t, &a) == 3) {
			meth.kind = ADDRXLAT_LINEAR; meth.target_as = t; meth.param.linear.off = a;
			addrxlat_sys_set_meth(sys, slot, &meth);
		} else if (sscanf(line, "meth %d nometh", &slot) == 1 && strstr(line, "nometh")) {
			meth.kind = ADDRXLAT_NOMETH; meth.target_as = ADDRXLAT_NOADDR;
			addrxlat_sys_set_meth(sys, slot, &meth);
		} else if (sscanf(line, "layout %d %4095s", &slot, tb) == 2) {
			/* layout <mapidx> first:last:meth:act,...   act: 0 none 1 direct 2 rdirect 3 ident_kphys 4 ident_machphys */
			struct sys_region rg[33]; struct os_init_data ctl; char *p = tb; addrxlat_status st;
			n = 0;
			while (*p && *p != '-' && n < 32) {
				rg[n].first = strtoull(p, &p, 10); if (*p == ':') ++p;
				rg[n].last = strtoull(p, &p, 10); if (*p == ':') ++p;
				rg[n].meth = strtol(p, &p, 10); if (*p == ':') ++p;
				rg[n].act = strtol(p, &p, 10); if (*p == ',') ++p;
				++n;
			}
			rg[n].first = rg[n].last = 0; rg[n].meth = ADDRXLAT_SYS_METH_NUM; rg[n].act = SYS_ACT_NONE;
			memset(&ctl, 0, sizeof ctl); ctl.sys = sys; ctl.ctx = ctx;
			st = sys_set_layout(&ctl, slot, rg);
			printf("> layout %s\n", xstatus_name(st));
			dump_sys(); puts("> end");
		} else if (sscanf(line, "physmaps %" SCNu64, &a) == 1) {
			struct os_init_data ctl; addrxlat_status st;
			memset(&ctl, 0, sizeof ctl); ctl.sys = sys; ctl.ctx = ctx;
			st = sys_set_physmaps(&ctl, a);
			printf("> physmaps %s\n", xstatus_name(st));
			dump_sys(); puts("> end");
		} else if (sscanf(line, "scan %15s %d %" SCNu64 " %" SCNu64 " %" SCNu64, kind, &slot, &a, &b, &c) >= 4) {
			addrxlat_step_t step; addrxlat_status st; addrxlat_addr_t addr = a;
			memset(&step, 0, sizeof step);
			step.ctx = ctx; step.sys = sys; step.meth = addrxlat_sys_get_meth(sys, slot);
			if (!strcmp(kind, "lm")) st = lowest_mapped(&step, &addr, b);
			else if (!strcmp(kind, "hm")) st = highest_mapped(&step, &addr, b);
			else if (!strcmp(kind, "lu")) st = lowest_unmapped(&step, &addr, b);
			else st = highest_linear(&step, &addr, b, c);
			printf("> scan %s %s %" PRIu64, kind, xstatus_name(st), (uint64_t)addr);
			if (st == ADDRXLAT_OK && (!strcmp(kind, "lm") || !strcmp(kind, "hm")))
				printf(" %d %" PRIu64, (int)step.base.as, (uint64_t)step.base.addr);
			printf(" | noerr=%d\n", ctx->noerr.notpresent ? 1 : 0);
		} else if (sscanf(line, "conv %d %d %" SCNu64, &tas, &t, &a) == 3) {
			addrxlat_fulladdr_t fa; addrxlat_status st;
			fa.as = t; fa.addr = a;
			st = addrxlat_fulladdr_conv(&fa, tas, ctx, sys);
			printf("> conv %s %d %" PRIu64 "\n", xstatus_name(st), (int)fa.as, (uint64_t)fa.addr);
			c16_line("conv", st);
		} else if (sscanf(line, "q %" SCNu64, &a) == 1) {
			do_q(a);
		} else if (sscanf(line, "rt %" SCNu64, &a) == 1) {
			do_rt(a);
		} else if (!strncmp(line, "probe", 5)) {
			/* queries at every boundary of the ranges the library set up */
			static const int64_t d[] = { -4096, -1, 0, 1, 4095, 4096 };
			addrxlat_map_t *map = addrxlat_sys_get_map(sys, ADDRXLAT_SYS_MAP_KV_PHYS);
			size_t len, j; const addrxlat_range_t *r; uint64_t start = 0; unsigned k;
			if (map) {
				len = addrxlat_map_len(map); r = addrxlat_map_ranges(map);
				for (j = 0; j < len; ++j) {
					uint64_t end = start + r[j].endoff;
					const addrxlat_meth_t *m = r[j].meth >= 0 ? addrxlat_sys_get_meth(sys, r[j].meth) : NULL;
					if (m && m->kind == ADDRXLAT_LINEAR) {
						for (k = 0; k < 6; ++k) do_q(start + d[k]);
						for (k = 0; k < 6; ++k) do_q(end - 4095 + d[k]);
						do_q(end + 1); do_q(start + (end - start) / 2);
					}
					start = end + 1;
				}
			}
			map = addrxlat_sys_get_map(sys, ADDRXLAT_SYS_MAP_KPHYS_DIRECT);
			start = 0;
			if (map) {
				len = addrxlat_map_len(map); r = addrxlat_map_ranges(map);
				for (j = 0; j < len; ++j) {
					uint64_t end = start + r[j].endoff;
					if (r[j].meth >= 0) {
						do_rt(start); do_rt(start + 4096); do_rt(end); do_rt(end - 4095); do_rt(end - 4096);
						do_rt(start + (end - start) / 2);
					}
					start = end + 1;
				}
			}
			puts("> probe-end");
		} else if (sscanf(line, "hw %" SCNu64, &a) == 1) {
			addrxlat_fulladdr_t hw; addrxlat_status st = hw_walk(a, &hw);
			printf("> hw %s %d %" PRIu64 "\n", xstatus_name(st), (int)hw.as, (uint64_t)hw.addr);
		} else
			puts("> bad-op");
	}
	return 0;
}
