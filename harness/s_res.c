/* Stream `res` (C15): every path gives back what it took.
 *
 * The public API is driven on real dump files; after EVERY operation one
 * `> S` line reports the library's resource state, read from the live private
 * structures (this TU includes cache.c with ENABLE_DEBUG for `struct cache`
 * and kdumpfile-priv.h; the private copies of the cache functions are
 * discarded by --gc-sections):
 *
 *   > S <op> <result> | pc=<refsum page cache> fc=<refsum mmap cache>
 *        fb=<refsum read cache> lent=<pages lent to addrxlat read caches>
 *        bpin=<library-held blob pins> fd=<ok|...> live=<library heap blocks>
 *        maps=<live mmap regions> app=<contexts and references the application holds>
 *
 * Operations prefixed with `T ` additionally print `> T <events> | <result>`:
 * the event trace of the call, recorded by link-time wrappers around
 * cache_get_entry / cache_insert / cache_discard / cache_put_entry
 * (-Wl,--wrap=_kdumpfile_priv_...), malloc/free, and interposed pread/mmap.
 * Annotations after `@` (entry validity, data addresses) are the external
 * behaviour handed to the model as its oracle; the rest is compared with the
 * model's trace (lean/Driver/Res.lean).  Lines starting with `M ` are for the
 * model only.
 */
#define ENABLE_DEBUG 1
#include "src/kdumpfile/cache.c"
#include <stdio.h>
#include <stdarg.h>
#include <stdint.h>
#include <inttypes.h>
#include <errno.h>
#include <fcntl.h>
#include <unistd.h>
#include <dlfcn.h>
#include <sys/stat.h>
#include <sys/mman.h>
#include <libkdumpfile/addrxlat.h>

int ax_lent(addrxlat_ctx_t *ctx);
int ax_read64(addrxlat_ctx_t *ctx, int as, unsigned long long addr, unsigned long long *val);
void ax_state(addrxlat_ctx_t *ctx, char *out, unsigned long sz);
int ax_nslots(void);
/* the library's fcache_get_fb (this TU is compiled with ENABLE_DEBUG, where INTERNAL_DECL gives plain names) */
kdump_status lib_fcache_get_fb(struct fcache *fc, struct fcache_entry *fce, unsigned fidx, off_t pos, void *fb, size_t sz)
	__asm__("_kdumpfile_priv_fcache_get_fb");

/* ------------------------------------------------------------------ names */
static const char *kst(kdump_status st)
{
	static const char *n[] = { "ok", "system", "notimpl", "nodata", "corrupt", "invalid", "nokey", "eof", "busy", "addrxlat" };
	return (unsigned)st < 10 ? n[st] : "UNDOCUMENTED";
}
static const char *xst(addrxlat_status st)
{
	static const char *n[] = { "ok", "notimpl", "notpresent", "invalid", "nomem", "nodata", "nometh" };
	return (unsigned)st < 7 ? n[st] : (int)st < 0 ? "custom" : "UNDOCUMENTED";
}

/* ------------------------------------------------------------------ trace */
static char tr[1 << 18];
static size_t trlen;
static int tracing;
static struct kdump_shared *tr_shared;
static void ev(const char *fmt, ...)
{
	va_list ap;
	if (!tracing || trlen > sizeof tr - 128) return;
	va_start(ap, fmt);
	trlen += vsnprintf(tr + trlen, sizeof tr - trlen, fmt, ap);
	va_end(ap);
}
static const char *cname1(struct kdump_shared *s, struct cache *c)
{
	if (s && c == s->cache) return "pc";
	if (s && s->fcache && c == s->fcache->cache) return "fc";
	if (s && s->fcache && c == s->fcache->fbcache) return "fb";
	return NULL;
}
static kdump_ctx_t *C[8];
/* page caches the library released (cache.size / page size changed, another file opened) while pages of them were still lent
 * to libaddrxlat: they live on until the last page comes back (cache_release) and still count as "the page cache" */
static struct cache *orphans[32]; static int norph;
static int is_orphan(struct cache *c) { int i; for (i = 0; i < norph; ++i) if (orphans[i] == c) return 1; return 0; }
static void orphan_gone(struct cache *c) { int i; for (i = 0; i < norph; ++i) if (orphans[i] == c) { orphans[i] = orphans[--norph]; return; } }
static const char *cname(struct cache *c)
{
	const char *n = cname1(tr_shared, c);
	int i;
	for (i = 0; !n && i < 8; ++i) if (C[i]) n = cname1(C[i]->shared, c);
	if (!n && is_orphan(c)) n = "pc";
	return n ? n : "xx";
}

struct cache_entry *__real__kdumpfile_priv_cache_get_entry(struct cache *, cache_key_t);
void __real__kdumpfile_priv_cache_put_entry(struct cache *, struct cache_entry *);
void __real__kdumpfile_priv_cache_insert(struct cache *, struct cache_entry *);
void __real__kdumpfile_priv_cache_discard(struct cache *, struct cache_entry *);

struct cache_entry *__wrap__kdumpfile_priv_cache_get_entry(struct cache *c, cache_key_t k)
{
	struct cache_entry *e = __real__kdumpfile_priv_cache_get_entry(c, k);
	if (e) {
		int valid = e->state == cs_valid;
		int failed = e->data == MAP_FAILED;
		ev("A:%s:%" PRIu64 "@%c%" PRIuPTR " ", cname(c), (uint64_t)k, valid ? 'h' : 's',
		   failed ? (uintptr_t)0 : (uintptr_t)e->data);
	} else
		ev("B:%s:%" PRIu64 " ", cname(c), (uint64_t)k);
	return e;
}
static unsigned refsum(struct cache *c);
void __real__kdumpfile_priv_cache_release(struct cache *c);
void __wrap__kdumpfile_priv_cache_release(struct cache *c)
{
	if (refsum(c) && norph < 32) orphans[norph++] = c;      /* survives until its last page is put */
	__real__kdumpfile_priv_cache_release(c);
}
void __wrap__kdumpfile_priv_cache_put_entry(struct cache *c, struct cache_entry *e)
{
	int last = is_orphan(c) && refsum(c) == 1;
	ev("R:%s:%" PRIu64 " ", cname(c), (uint64_t)e->key);
	__real__kdumpfile_priv_cache_put_entry(c, e);
	if (last) orphan_gone(c);
}
void __wrap__kdumpfile_priv_cache_insert(struct cache *c, struct cache_entry *e)
{
	ev("I:%s:%" PRIu64 " ", cname(c), (uint64_t)e->key);
	__real__kdumpfile_priv_cache_insert(c, e);
}
void __wrap__kdumpfile_priv_cache_discard(struct cache *c, struct cache_entry *e)
{
	int last = is_orphan(c) && refsum(c) == 1;
	ev("D:%s:%" PRIu64 " ", cname(c), (uint64_t)e->key);
	__real__kdumpfile_priv_cache_discard(c, e);
	if (last) orphan_gone(c);
}

/* ------------------------------------------------------------- allocator */
void *__real_malloc(size_t);
void *__real_calloc(size_t, size_t);
void *__real_realloc(void *, size_t);
void __real_free(void *);
static long alloc_live;
static unsigned long fail_malloc;          /* n-th malloc from now fails (0 = off) */
#define NBLK 4096
static struct { void *p; size_t sz; } blk[NBLK];   /* blocks obtained by malloc while tracing */
static void blk_add(void *p, size_t sz)
{
	int i;
	for (i = 0; i < NBLK; ++i) if (!blk[i].p) { blk[i].p = p; blk[i].sz = sz; return; }
}
static long blk_del(void *p)
{
	int i;
	for (i = 0; i < NBLK; ++i) if (blk[i].p == p) { blk[i].p = NULL; return (long)blk[i].sz; }
	return -1;
}
void *__wrap_malloc(size_t n)
{
	void *r;
	if (fail_malloc && !--fail_malloc) { ev("M:%zu:fail ", n); errno = ENOMEM; return NULL; }
	r = __real_malloc(n);
	if (r) { ++alloc_live; if (tracing) { blk_add(r, n); ev("M:%zu:ok ", n); } }
	return r;
}
void *__wrap_calloc(size_t a, size_t b) { void *r = __real_calloc(a, b); if (r) ++alloc_live; return r; }
void *__wrap_realloc(void *p, size_t n)
{
	void *r = __real_realloc(p, n);
	if (!p && r) ++alloc_live;
	return r;
}
void __wrap_free(void *p)
{
	if (p) {
		long sz = blk_del(p);
		--alloc_live;
		if (sz >= 0) ev("F:%ld ", sz);
	}
	__real_free(p);
}
char *__wrap_strdup(const char *s)
{
	size_t n = strlen(s) + 1; char *r = __real_malloc(n);
	if (r) { memcpy(r, s, n); ++alloc_live; }
	return r;
}

/* ------------------------------------------- file descriptors, pread, mmap */
#define MAXFD 64
static int appfd[MAXFD], nappfd;         /* descriptors handed to the library */
static int own_call;                     /* the harness itself is calling */
static char fdverdict[64] = "ok";
static int is_appfd(int fd) { int i; for (i = 0; i < nappfd; ++i) if (appfd[i] == fd) return 1; return 0; }
static void fd_flag(const char *what, int fd) { if (!own_call && is_appfd(fd) && !strcmp(fdverdict, "ok")) snprintf(fdverdict, sizeof fdverdict, "%s", what); }

static unsigned long fail_pread, fail_mmap;
static long maps_live;

static void *next(const char *name) { void *p = dlsym(RTLD_NEXT, name); if (!p) abort(); return p; }

ssize_t pread64(int fd, void *buf, size_t n, off_t off)
{
	static ssize_t (*real)(int, void *, size_t, off_t);
	ssize_t r;
	if (!real) real = next("pread64");
	if (is_appfd(fd) && fail_pread && !--fail_pread) {
		ev("p:%lld:fail ", (long long)off);
		errno = EIO;
		return -1;
	}
	r = real(fd, buf, n, off);
	if (is_appfd(fd)) ev("p:%lld:%s ", (long long)off, r < 0 ? "fail" : "ok");
	return r;
}
ssize_t pread(int fd, void *buf, size_t n, off_t off) { return pread64(fd, buf, n, off); }

void *mmap64(void *addr, size_t len, int prot, int flags, int fd, off_t off)
{
	static void *(*real)(void *, size_t, int, int, int, off_t);
	void *r;
	if (!real) real = next("mmap64");
	if (fd >= 0 && is_appfd(fd)) {
		if (fail_mmap && !--fail_mmap) {
			ev("m:%lld:fail ", (long long)off);
			errno = ENOMEM;
			return MAP_FAILED;
		}
		r = real(addr, len, prot, flags, fd, off);
		ev("m:%lld:%s@%" PRIuPTR " ", (long long)off, r == MAP_FAILED ? "fail" : "ok", r == MAP_FAILED ? (uintptr_t)0 : (uintptr_t)r);
		if (r != MAP_FAILED) ++maps_live;
		return r;
	}
	return real(addr, len, prot, flags, fd, off);
}
void *mmap(void *addr, size_t len, int prot, int flags, int fd, off_t off) { return mmap64(addr, len, prot, flags, fd, off); }

#define NMAP 256
int munmap(void *addr, size_t len)
{
	static int (*real)(void *, size_t);
	if (!real) real = next("munmap");
	if (len == ((size_t)sysconf(_SC_PAGESIZE) << 10)) --maps_live;   /* FCACHE_ORDER regions only */
	return real(addr, len);
}
int close(int fd)
{
	static int (*real)(int);
	if (!real) real = next("close");
	fd_flag("closed-by-library", fd);
	return real(fd);
}
off_t lseek64(int fd, off_t off, int whence)
{
	static off_t (*real)(int, off_t, int);
	if (!real) real = next("lseek64");
	fd_flag("lseek-by-library", fd);
	return real(fd, off, whence);
}
off_t lseek(int fd, off_t off, int whence) { return lseek64(fd, off, whence); }
ssize_t read(int fd, void *buf, size_t n)
{
	static ssize_t (*real)(int, void *, size_t);
	if (!real) real = next("read");
	fd_flag("read-by-library", fd);
	return real(fd, buf, n);
}

#define FDOFF 7      /* every descriptor is positioned here before the library sees it */
static const char *fd_state(void)
{
	int i;
	if (strcmp(fdverdict, "ok")) return fdverdict;
	own_call = 1;
	for (i = 0; i < nappfd; ++i) {
		struct stat st;
		if (fcntl(appfd[i], F_GETFD) == -1 || fstat(appfd[i], &st)) { own_call = 0; return "closed"; }
		if (lseek(appfd[i], 0, SEEK_CUR) != FDOFF) { own_call = 0; return "moved"; }
	}
	own_call = 0;
	return "ok";
}

/* --------------------------------------------------------------- objects */
#define NCTX 8
#define NSET 8
#define NOBJ 16
static struct { int fd[16]; int n; } SET[NSET];
enum otype { O_NONE, O_BMP, O_BLOB, O_AXCTX, O_AXSYS, O_REF, O_PAGE, O_CB };
static struct obj {
	enum otype t;
	void *p;
	long mypins;               /* pins taken by the harness itself */
	kdump_attr_ref_t ref;
	addrxlat_buffer_t buf;
	addrxlat_ctx_t *owner;     /* O_CB: the context the record was added to (the slot holds a reference to it) */
} O[NOBJ];

static unsigned refsum(struct cache *c)
{
	unsigned i, s = 0;
	if (!c) return 0;
	for (i = 0; i < 2 * c->cap; ++i) s += c->ce[i].refcnt;
	return s;
}

static void summary(const char *res)
{
	unsigned pc = 0, fc = 0, fb = 0; int lent = 0; long bpin = 0;
	struct kdump_shared *seen[NCTX]; addrxlat_ctx_t *ax[NCTX + NOBJ]; int ns = 0, na = 0, i, j, ns0 = 0;
	for (i = 0; i < NCTX; ++i) if (C[i]) {
		struct kdump_shared *s = C[i]->shared;
		for (j = 0; j < ns; ++j) if (seen[j] == s) break;
		if (j == ns) {
			seen[ns++] = s;
			pc += refsum(s->cache);
			if (!ns0) { int k; ns0 = 1; for (k = 0; k < norph; ++k) pc += refsum(orphans[k]); }
			if (s->fcache) { fc += refsum(s->fcache->cache); fb += refsum(s->fcache->fbcache); }
		}
		for (j = 0; j < na; ++j) if (ax[j] == C[i]->xlatctx) break;
		if (j == na) { ax[na++] = C[i]->xlatctx; lent += ax_lent(C[i]->xlatctx); }
	}
	for (i = 0; i < NOBJ; ++i) {
		if (O[i].t == O_AXCTX) {
			for (j = 0; j < na; ++j) if (ax[j] == O[i].p) break;
			if (j == na) { ax[na++] = O[i].p; lent += ax_lent(O[i].p); }
		} else if (O[i].t == O_CB) {
			for (j = 0; j < na; ++j) if (ax[j] == O[i].owner) break;
			if (j == na) { ax[na++] = O[i].owner; lent += ax_lent(O[i].owner); }
		} else if (O[i].t == O_BLOB) {
			/* pins the library holds = pin count - pins taken through any slot holding this blob */
			long mine = 0; int first = 1;
			for (j = 0; j < NOBJ; ++j) if (O[j].t == O_BLOB && O[j].p == O[i].p) { mine += O[j].mypins; if (j < i) first = 0; }
			if (first) bpin += (long)((kdump_blob_t *)O[i].p)->pincnt - mine;
		}
		else if (O[i].t == O_PAGE)
			++lent;            /* a page the harness took through the get_page callback */
	}
	{
		int app = 0;          /* contexts and references the application still holds */
		for (i = 0; i < NCTX; ++i) if (C[i]) ++app;
		for (i = 0; i < NOBJ; ++i) if (O[i].t != O_NONE) ++app;
		printf("> S %s | pc=%u fc=%u fb=%u lent=%d bpin=%ld fd=%s live=%ld maps=%ld app=%d\n", res, pc, fc, fb, lent, bpin, fd_state(),
		       alloc_live, maps_live, app);
	}
}

static uint64_t fnv(const unsigned char *p, size_t n)
{
	uint64_t h = 0xcbf29ce484222325ULL;
	while (n--) h = (h ^ *p++) * 0x100000001b3ULL;
	return h;
}
static size_t unhex(const char *s, unsigned char *out)
{
	size_t n = 0; unsigned v;
	while (s[0] && s[1] && sscanf(s, "%2x", &v) == 1) { out[n++] = v; s += 2; }
	return n;
}
static addrxlat_status nop_op(void *data, const addrxlat_fulladdr_t *addr) { *(addrxlat_fulladdr_t *)data = *addr; return ADDRXLAT_OK; }

static void drop_obj(struct obj *o)
{
	switch (o->t) {
	case O_BMP: kdump_bmp_decref(o->p); break;
	case O_BLOB: while (o->mypins-- > 0) kdump_blob_unpin(o->p); kdump_blob_decref(o->p); break;
	case O_AXCTX: addrxlat_ctx_decref(o->p); break;
	case O_AXSYS: addrxlat_sys_decref(o->p); break;
	case O_PAGE: o->buf.put_page(&o->buf); break;
	case O_CB: addrxlat_ctx_del_cb(o->owner, o->p); addrxlat_ctx_decref(o->owner); o->owner = NULL; break;
	default: break;
	}
	o->t = O_NONE; o->p = NULL; o->mypins = 0;
}

/* one operation; writes its result text into res */
static void run_op(char *line, char *res, size_t rsz)
{
	char key[256], arg[1 << 15]; unsigned c, c2, o, o2, as, n; uint64_t a, b; unsigned long fl; int pos;
	static unsigned char bytes[1 << 14];

	if (sscanf(line, "new %u", &c) == 1 && c < NCTX) {
		C[c] = kdump_new();
		snprintf(res, rsz, "new %s", C[c] ? "ok" : "null");
	} else if (sscanf(line, "open %u %u %u%n", &c, &o, &n, &pos) == 3 && c < NCTX && o < NSET && n <= 16) {
		char *p = line + pos; unsigned i; kdump_status st;
		SET[o].n = n;
		for (i = 0; i < n; ++i) {
			size_t l;
			while (*p == ' ') ++p;
			l = strcspn(p, " \n");
			memcpy(arg, p, l); arg[l] = 0; p += l;
			own_call = 1;
			SET[o].fd[i] = open(arg, O_RDONLY);
			if (SET[o].fd[i] >= 0) { lseek(SET[o].fd[i], FDOFF, SEEK_SET); }
			own_call = 0;
			if (SET[o].fd[i] >= 0 && nappfd < MAXFD) appfd[nappfd++] = SET[o].fd[i];
		}
		st = kdump_open_fdset(C[c], n, SET[o].fd);
		snprintf(res, rsz, "open %s", kst(st));
		if (getenv("RES_DEBUG") && st != KDUMP_OK) fprintf(stderr, "open: %s\n", kdump_get_err(C[c]));
	} else if (sscanf(line, "closefds %u", &o) == 1 && o < NSET) {
		int i, j;
		own_call = 1;
		for (i = 0; i < SET[o].n; ++i) {
			for (j = 0; j < nappfd; ++j) if (appfd[j] == SET[o].fd[i]) { appfd[j] = appfd[--nappfd]; break; }
			close(SET[o].fd[i]);
		}
		own_call = 0;
		SET[o].n = 0;
		snprintf(res, rsz, "closefds");
	} else if (sscanf(line, "clone %u %u %lu", &c, &c2, &fl) == 3 && c < NCTX && c2 < NCTX && C[c2]) {
		C[c] = kdump_clone(C[c2], fl);
		snprintf(res, rsz, "clone %s", C[c] ? "ok" : "null");
	} else if (sscanf(line, "free %u", &c) == 1 && c < NCTX && C[c]) {
		kdump_free(C[c]); C[c] = NULL;
		snprintf(res, rsz, "free");
	} else if (sscanf(line, "setnum %u %255s %" SCNu64, &c, key, &a) == 3 && c < NCTX && C[c]) {
		kdump_attr_t at; at.type = KDUMP_NUMBER; at.val.number = a;
		snprintf(res, rsz, "set %s", kst(kdump_set_attr(C[c], key, &at)));
	} else if (sscanf(line, "setaddr %u %255s %" SCNu64, &c, key, &a) == 3 && c < NCTX && C[c]) {
		kdump_attr_t at; at.type = KDUMP_ADDRESS; at.val.address = a;
		snprintf(res, rsz, "set %s", kst(kdump_set_attr(C[c], key, &at)));
	} else if (sscanf(line, "setstr %u %255s %1023s", &c, key, arg) == 3 && c < NCTX && C[c]) {
		kdump_attr_t at; at.type = KDUMP_STRING; at.val.string = arg;
		snprintf(res, rsz, "set %s", kst(kdump_set_attr(C[c], key, &at)));
	} else if (sscanf(line, "clear %u %255s", &c, key) == 2 && c < NCTX && C[c]) {
		snprintf(res, rsz, "set %s", kst(kdump_clear_attr(C[c], key)));
	} else if (sscanf(line, "setblob %u %255s %32000s", &c, key, arg) == 3 && c < NCTX && C[c]) {
		/* the application creates a blob and hands its reference over: kdump_set_attr() on a
		 * blob attribute consumes the reference, also when a hook fails (set_attr() in attr.c;
		 * the library's own tests rely on it).  To keep using the blob it takes a second one. */
		size_t len = unhex(arg, bytes);
		void *d = __wrap_malloc(len ? len : 1);
		kdump_blob_t *bl; kdump_attr_t at; kdump_status st;
		int keep = sscanf(line, "setblob %*u %*s %*s %u", &o) == 1 && o < NOBJ && O[o].t == O_NONE;
		memcpy(d, bytes, len);
		bl = kdump_blob_new(d, len);
		if (keep) kdump_blob_incref(bl);
		at.type = KDUMP_BLOB; at.val.blob = bl;
		st = kdump_set_attr(C[c], key, &at);
		if (keep) { O[o].t = O_BLOB; O[o].p = bl; O[o].mypins = 0; }
		snprintf(res, rsz, "set %s", kst(st));
	} else if (sscanf(line, "get %u %255s %u", &c, key, &o) >= 2 && c < NCTX && C[c]) {
		kdump_attr_t at; kdump_status st = kdump_get_attr(C[c], key, &at);
		int keep = sscanf(line, "get %*u %*s %u", &o) == 1 && o < NOBJ && O[o].t == O_NONE;
		if (st != KDUMP_OK) snprintf(res, rsz, "get %s", kst(st));
		else switch (at.type) {
		case KDUMP_NUMBER: snprintf(res, rsz, "get ok num:%" PRIu64, (uint64_t)at.val.number); break;
		case KDUMP_ADDRESS: snprintf(res, rsz, "get ok addr"); break;
		case KDUMP_STRING: snprintf(res, rsz, "get ok str:%zu", strlen(at.val.string)); break;
		case KDUMP_DIRECTORY: snprintf(res, rsz, "get ok dir"); break;
		case KDUMP_BITMAP:
			snprintf(res, rsz, "get ok bitmap");
			if (keep) { kdump_bmp_incref(at.val.bitmap); O[o].t = O_BMP; O[o].p = at.val.bitmap; }
			break;
		case KDUMP_BLOB:
			snprintf(res, rsz, "get ok blob:%zu", kdump_blob_size(at.val.blob));
			if (keep) { kdump_blob_incref(at.val.blob); O[o].t = O_BLOB; O[o].p = at.val.blob; O[o].mypins = 0; }
			break;
		default: snprintf(res, rsz, "get ok type:%d", (int)at.type);
		}
	} else if (sscanf(line, "ref %u %255s %u", &c, key, &o) == 3 && c < NCTX && C[c] && o < NOBJ && O[o].t == O_NONE) {
		kdump_status st = kdump_attr_ref(C[c], key, &O[o].ref);
		if (st == KDUMP_OK) { O[o].t = O_REF; O[o].p = C[c]; }
		snprintf(res, rsz, "ref %s", kst(st));
	} else if (sscanf(line, "unref %u %u", &o, &c) == 2 && o < NOBJ && O[o].t == O_REF && c < NCTX && C[c]) {
		kdump_attr_unref(C[c], &O[o].ref); O[o].t = O_NONE;
		snprintf(res, rsz, "unref");
	} else if (sscanf(line, "refget %u %u", &o, &c) == 2 && o < NOBJ && O[o].t == O_REF && c < NCTX && C[c]) {
		kdump_attr_t at; kdump_status st = kdump_attr_ref_get(C[c], &O[o].ref, &at);
		snprintf(res, rsz, "refget %s", kst(st));
	} else if (sscanf(line, "read %u %u %" SCNu64 " %" SCNu64, &c, &as, &a, &b) == 4 && c < NCTX && C[c]) {
		size_t len = b; unsigned char *buf = __real_malloc(len ? len : 1);
		kdump_status st = kdump_read(C[c], as, a, buf, &len);
		snprintf(res, rsz, "read %s %zu %" PRIu64, kst(st), len, len <= b ? fnv(buf, len) : 0);
		if (getenv("RES_DEBUG") && st != KDUMP_OK) fprintf(stderr, "read: %s\n", kdump_get_err(C[c]));
		__real_free(buf);
	} else if (sscanf(line, "str %u %u %" SCNu64, &c, &as, &a) == 3 && c < NCTX && C[c]) {
		char *s = NULL; kdump_status st = kdump_read_string(C[c], as, a, &s);
		if (st == KDUMP_OK) { snprintf(res, rsz, "str ok %zu", strlen(s)); __wrap_free(s); }
		else snprintf(res, rsz, "str %s", kst(st));
	} else if (sscanf(line, "vmci %u %15s %255s", &c, arg, key) >= 2 && c < NCTX && C[c]) {
		kdump_status st; char *s = NULL;
		if (!strcmp(arg, "raw")) st = kdump_vmcoreinfo_raw(C[c], &s);
		else if (!strcmp(arg, "line")) st = kdump_vmcoreinfo_line(C[c], key, &s);
		else { kdump_addr_t v; st = kdump_vmcoreinfo_symbol(C[c], key, &v); }
		if (st == KDUMP_OK && s) { snprintf(res, rsz, "vmci ok %zu", strlen(s)); __wrap_free(s); }
		else snprintf(res, rsz, "vmci %s", kst(st));
	} else if (sscanf(line, "ax %u %u %u", &c, &o, &o2) == 3 && c < NCTX && C[c] && o < NOBJ && o2 < NOBJ && O[o].t == O_NONE && O[o2].t == O_NONE && o != o2) {
		addrxlat_ctx_t *ax; addrxlat_sys_t *sys;
		kdump_status st = kdump_get_addrxlat(C[c], &ax, &sys);
		if (st == KDUMP_OK) { O[o].t = O_AXCTX; O[o].p = ax; O[o2].t = O_AXSYS; O[o2].p = sys; }
		snprintf(res, rsz, "ax %s", kst(st));
	} else if (sscanf(line, "memarr %u %u %" SCNu64 " %u %u %u", &o, &as, &a, &c, &c2, &n) == 6 && o < NOBJ && O[o].t == O_AXSYS) {
		/* KVADDR -> KPHYSADDR through an array in dump memory: value = mem[base + (addr >> shift) * elemsz] */
		addrxlat_meth_t m; addrxlat_map_t *map; addrxlat_range_t r = { ADDRXLAT_ADDR_MAX, ADDRXLAT_SYS_METH_PGT };
		memset(&m, 0, sizeof m);
		m.kind = ADDRXLAT_MEMARR; m.target_as = ADDRXLAT_KPHYSADDR;
		m.param.memarr.base.as = as; m.param.memarr.base.addr = a;
		m.param.memarr.shift = c; m.param.memarr.elemsz = c2; m.param.memarr.valsz = n;
		addrxlat_sys_set_meth(O[o].p, ADDRXLAT_SYS_METH_PGT, &m);
		map = addrxlat_map_new();
		if (map) {
			addrxlat_map_set(map, 0, &r);
			addrxlat_sys_set_map(O[o].p, ADDRXLAT_SYS_MAP_KV_PHYS, map);
			addrxlat_map_decref(map);        /* the system keeps the only reference */
		}
		snprintf(res, rsz, "memarr %s", map ? "ok" : "null");
	} else if (sscanf(line, "samemap %u %u", &o, &n) == 2 && o < NOBJ && O[o].t == O_AXSYS && n < ADDRXLAT_SYS_MAP_NUM) {
		/* re-install the map that is installed (borrowed reference) and use it afterwards */
		addrxlat_map_t *m = addrxlat_sys_get_map(O[o].p, n);
		size_t len = 0;
		addrxlat_sys_set_map(O[o].p, n, m);
		m = addrxlat_sys_get_map(O[o].p, n);
		if (m) len = addrxlat_map_len(m);
		snprintf(res, rsz, "samemap %s %zu", m ? "map" : "none", len);
	} else if (sscanf(line, "samemeth %u %u", &o, &n) == 2 && o < NOBJ && O[o].t == O_AXSYS && n < ADDRXLAT_SYS_METH_NUM) {
		const addrxlat_meth_t *m = addrxlat_sys_get_meth(O[o].p, n);
		addrxlat_meth_t copy = *m;
		addrxlat_sys_set_meth(O[o].p, n, &copy);
		snprintf(res, rsz, "samemeth %d", (int)addrxlat_sys_get_meth(O[o].p, n)->kind);
	} else if (sscanf(line, "xop %u %u %u %" SCNu64 " %lu", &o, &o2, &as, &a, &fl) == 5 && o < NOBJ && o2 < NOBJ && O[o].t == O_AXCTX && O[o2].t == O_AXSYS) {
		addrxlat_op_ctl_t ctl; addrxlat_fulladdr_t fa, out; addrxlat_status st;
		ctl.ctx = O[o].p; ctl.sys = O[o2].p; ctl.op = nop_op; ctl.data = &out; ctl.caps = fl;
		fa.as = as; fa.addr = a;
		st = addrxlat_op(&ctl, &fa);
		snprintf(res, rsz, "xop %s", xst(st));
		if (getenv("RES_DEBUG") && st != ADDRXLAT_OK) fprintf(stderr, "xop: %s\n", addrxlat_ctx_get_err(O[o].p));
	} else if (sscanf(line, "getpage %u %u %" SCNu64 " %u", &o, &as, &a, &o2) == 4 && o < NOBJ && O[o].t == O_AXCTX && o2 < NOBJ && O[o2].t == O_NONE) {
		/* the get_page callback libkdumpfile installed, called the way libaddrxlat calls it */
		const addrxlat_cb_t *cb = addrxlat_ctx_get_cb(O[o].p);
		addrxlat_status st;
		memset(&O[o2].buf, 0, sizeof O[o2].buf);
		O[o2].buf.addr.as = as; O[o2].buf.addr.addr = a;
		st = cb->get_page(cb, &O[o2].buf);
		if (st == ADDRXLAT_OK) { O[o2].t = O_PAGE; O[o2].p = (void *)O[o2].buf.ptr; }
		snprintf(res, rsz, "getpage %s", xst(st));
	} else if (sscanf(line, "addcb %u %u", &o, &o2) == 2 && o < NOBJ && O[o].t == O_AXCTX && o2 < NOBJ && O[o2].t == O_NONE) {
		/* an application callback record that overrides nothing, on top of what is installed; the slot keeps
		 * its own reference to the context, so that the record can be removed whenever the application likes */
		addrxlat_cb_t *cb = addrxlat_ctx_add_cb(O[o].p);
		if (cb) { O[o2].t = O_CB; O[o2].p = cb; O[o2].owner = O[o].p; addrxlat_ctx_incref(O[o].p); }
		ax_state(O[o].p, arg, 400);
		snprintf(res, rsz, "addcb %s %s", cb ? "ok" : "nomem", arg);
	} else if (sscanf(line, "delcb %u", &o) == 1 && o < NOBJ && O[o].t == O_CB) {
		addrxlat_ctx_t *ax = O[o].owner;
		addrxlat_ctx_del_cb(ax, O[o].p);
		ax_state(ax, arg, 400);
		O[o].t = O_NONE; O[o].p = NULL; O[o].owner = NULL;
		addrxlat_ctx_decref(ax);
		snprintf(res, rsz, "delcb %s", arg);
	} else if (sscanf(line, "axread %u %u %" SCNu64, &o, &as, &a) == 3 && o < NOBJ && O[o].t == O_AXCTX) {
		unsigned long long v; int st = ax_read64(O[o].p, as, a, &v);
		ax_state(O[o].p, arg, 400);
		snprintf(res, rsz, "axread %s %s", xst(st), arg);
	} else if (sscanf(line, "axstate %u", &o) == 1 && o < NOBJ && O[o].t == O_AXCTX) {
		ax_state(O[o].p, arg, 400);
		snprintf(res, rsz, "axstate %s", arg);
	} else if (sscanf(line, "fb %u %" SCNu64 " %" SCNu64, &c, &a, &b) == 3 && c < NCTX && C[c] && C[c]->shared->fcache && b <= 4096) {
		/* fcache_get_fb() the way make_xen_pfn_map_*() use it: an object of b bytes at file position a, bounce buffer at hand;
		 * then fcache_put() */
		static unsigned char bounce[4096];
		struct fcache_entry fce; kdump_status st;
		memset(&fce, 0, sizeof fce);
		st = lib_fcache_get_fb(C[c]->shared->fcache, &fce, 0, (off_t)a, bounce, b);
		if (st == KDUMP_OK) {
			snprintf(res, rsz, "fb ok %s %" PRIu64, fce.cache ? "entry" : "bounce", fnv(fce.data, b));
			if (fce.cache) __wrap__kdumpfile_priv_cache_put_entry(fce.cache, fce.ce);      /* fcache_put() */
		} else
			snprintf(res, rsz, "fb %s", kst(st));
	} else if (sscanf(line, "bits %u %" SCNu64 " %" SCNu64, &o, &a, &b) == 3 && o < NOBJ && O[o].t == O_BMP && b >= a && b - a < (1 << 16)) {
		size_t sz = ((b - a) >> 3) + 1; unsigned char *raw = __real_malloc(sz);
		kdump_status st = kdump_bmp_get_bits(O[o].p, a, b, raw);
		snprintf(res, rsz, "bits %s %" PRIu64, kst(st), fnv(raw, sz));
		__real_free(raw);
	} else if (sscanf(line, "fset %u %" SCNu64, &o, &a) == 2 && o < NOBJ && O[o].t == O_BMP) {
		kdump_addr_t idx = a; kdump_status st = kdump_bmp_find_set(O[o].p, &idx);
		snprintf(res, rsz, "fset %s %" PRIu64, kst(st), st == KDUMP_OK ? (uint64_t)idx : 0);
	} else if (sscanf(line, "fclr %u %" SCNu64, &o, &a) == 2 && o < NOBJ && O[o].t == O_BMP) {
		kdump_addr_t idx = a; kdump_status st = kdump_bmp_find_clear(O[o].p, &idx);
		snprintf(res, rsz, "fclr %s %" PRIu64, kst(st), st == KDUMP_OK ? (uint64_t)idx : 0);
	} else if (sscanf(line, "pin %u", &o) == 1 && o < NOBJ && O[o].t == O_BLOB) {
		volatile unsigned char *d = kdump_blob_pin(O[o].p); size_t sz = kdump_blob_size(O[o].p);
		++O[o].mypins;
		snprintf(res, rsz, "pin %zu %" PRIu64, sz, d ? fnv((const unsigned char *)d, sz) : 0);
	} else if (sscanf(line, "unpin %u", &o) == 1 && o < NOBJ && O[o].t == O_BLOB) {
		if (O[o].mypins <= 0) { snprintf(res, rsz, "unpin-none"); return; }
		kdump_blob_unpin(O[o].p); --O[o].mypins;
		snprintf(res, rsz, "unpin");
	} else if (sscanf(line, "bset %u %32000s", &o, arg) == 2 && o < NOBJ && O[o].t == O_BLOB) {
		size_t len = unhex(arg, bytes); void *d = __wrap_malloc(len ? len : 1); kdump_status st;
		memcpy(d, bytes, len);
		st = kdump_blob_set(O[o].p, d, len);
		if (st != KDUMP_OK) __wrap_free(d);
		snprintf(res, rsz, "bset %s", kst(st));
	} else if (sscanf(line, "drop %u", &o) == 1 && o < NOBJ && O[o].t != O_REF) {
		if (O[o].t == O_NONE) { snprintf(res, rsz, "drop-none"); return; }
		drop_obj(&O[o]);
		snprintf(res, rsz, "drop");
	} else if (sscanf(line, "fail %15s %" SCNu64, key, &a) == 2) {
		if (!strcmp(key, "malloc")) fail_malloc = a;
		else if (!strcmp(key, "pread")) fail_pread = a;
		else if (!strcmp(key, "mmap")) fail_mmap = a;
		snprintf(res, rsz, "fail");
	} else {
		/* operation on an object slot that holds no (or another kind of) object, e.g. because
		 * the call that should have produced it failed: no effect */
		static const char *objops[] = { "addcb", "delcb", "axread", "axstate", "memarr", "samemap", "samemeth", "xop", "getpage", "bits", "fset", "fclr", "pin",
						"unpin", "bset", "drop", "unref", "refget", NULL };
		int i;
		for (i = 0; objops[i]; ++i)
			if (!strncmp(line, objops[i], strlen(objops[i])) && line[strlen(objops[i])] == ' ') {
				snprintf(res, rsz, "noobj");
				return;
			}
		snprintf(res, rsz, "bad-op");
	}
}

int main(void)
{
	static char line[1 << 16], res[512];
	setvbuf(stdout, NULL, _IOLBF, 0);
	{
		int lzo = 0, snappy = 0, zstd = 0;
#if USE_LZO
		lzo = 1;
#endif
#if USE_SNAPPY
		snappy = 1;
#endif
#if USE_ZSTD
		zstd = 1;
#endif
		printf("> sizes pio=%zu fce=%zu embed=%d pgsz=%ld lzo=%d snappy=%d zstd=%d cb=%zu rcslots=%d\n", sizeof(struct page_io), sizeof(struct fcache_entry),
		       MAX_EMBED_FCES, sysconf(_SC_PAGESIZE), lzo, snappy, zstd, sizeof(addrxlat_cb_t), ax_nslots());
	}
	while (fgets(line, sizeof line, stdin)) {
		char *op = line;
		line[strcspn(line, "\n")] = 0;
		if (!strncmp(line, "M ", 2) || line[0] == '#' || !line[0]) continue;
		if (!strncmp(line, "T ", 2)) {
			unsigned c = 0;
			op = line + 2;
			tr_shared = NULL;
			/* the shared state whose caches name the events: context or addrxlat object of the op */
			if (sscanf(op, "%*s %u", &c) == 1) {
				if (!strncmp(op, "getpage", 7) || !strncmp(op, "drop", 4) || !strncmp(op, "xop", 3) ||
				    !strncmp(op, "axread", 6) || !strncmp(op, "addcb", 5) || !strncmp(op, "delcb", 5)) {
					unsigned i;
					for (i = 0; i < NCTX; ++i) if (C[i]) { tr_shared = C[i]->shared; break; }
				} else if (c < NCTX && C[c]) tr_shared = C[c]->shared;
			}
			trlen = 0; tr[0] = 0; tracing = 1;
		}
		run_op(op, res, sizeof res);
		if (strncmp(op, "fail ", 5)) fail_malloc = fail_pread = fail_mmap = 0;
		if (tracing) {
			tracing = 0;
			printf("> T %s| %s\n", tr, res);
		}
		if (strncmp(op, "fail ", 5)) summary(res);
	}
	return 0;
}
