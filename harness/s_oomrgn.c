/* Stream `oom`, op `rgn` (C18): the real add_pfn_region() of pfn.c (static,
 * reached by including the source) with a failing realloc.
 *   rgn <inc> <n0> <ok 0|1>   build a map of n0 regions (all allocations succeed), then add one
 *                             more with the growth allocation failing (ok=0) or not
 *   > rgn <ok|null> n=<nregions> allocs=<allocation attempts of the call> kept=<true|false: the first n0 regions are intact>
 * `inc` must equal RGN_ALLOC_INC (printed as `> inc <value>` for the line `inc`). */
#define ENABLE_DEBUG 1
#include "src/kdumpfile/pfn.c"
#include <stdio.h>
#include <inttypes.h>
/* Own wrappers with volatile, externally visible state: pfn.c lives in THIS translation unit, and the
 * compiler may otherwise assume that a call to the external function `realloc` cannot touch file-local
 * variables (it removes the stores that arm the fault). */
void *__real_malloc(size_t); void *__real_calloc(size_t, size_t); void *__real_realloc(void *, size_t); void __real_free(void *);
volatile unsigned long alloc_count, alloc_fail_at, alloc_failed; volatile long alloc_live;
static int alloc_should_fail(void) { ++alloc_count; if (alloc_fail_at && alloc_count == alloc_fail_at) { ++alloc_failed; return 1; } return 0; }
void *__wrap_malloc(size_t n) { void *r; if (alloc_should_fail()) return NULL; r = __real_malloc(n); if (r) ++alloc_live; return r; }
void *__wrap_calloc(size_t a, size_t b) { void *r; if (alloc_should_fail()) return NULL; r = __real_calloc(a, b); if (r) ++alloc_live; return r; }
void *__wrap_realloc(void *p, size_t n) { void *r; if (alloc_should_fail()) return NULL; r = __real_realloc(p, n); if (!p && r) ++alloc_live; return r; }
char *__wrap_strdup(const char *s) { return NULL; }
void __wrap_free(void *p) { if (p) --alloc_live; __real_free(p); }

kdump_status status_err(kdump_errmsg_t *err, kdump_status status, const char *msgfmt, ...) { return status; }

int main(void)
{
	static char line[256];
	setvbuf(stdout, NULL, _IOLBF, 0);
	while (fgets(line, sizeof line, stdin)) {
		unsigned inc, n0, ok, i;
		if (!strncmp(line, "inc", 3)) { printf("> inc %u\n", (unsigned)RGN_ALLOC_INC); continue; }
		if (sscanf(line, "rgn %u %u %u", &inc, &n0, &ok) == 3) {
			struct pfn_file_map pfm; struct pfn_region rgn, *r; int kept = 1;
			unsigned long before;
			memset(&pfm, 0, sizeof pfm);
			for (i = 0; i < n0; ++i) {
				rgn.pfn = i; rgn.cnt = 1; rgn.pos = 1000 + i;
				if (!add_pfn_region(&pfm, &rgn)) { puts("> rgn setup-failed"); break; }
			}
			if (i < n0) continue;
			rgn.pfn = n0; rgn.cnt = 1; rgn.pos = 1000 + n0;
			alloc_count = 0; alloc_fail_at = ok ? 0 : 1; before = alloc_failed;
			r = add_pfn_region(&pfm, &rgn);
			alloc_fail_at = 0;
			for (i = 0; i < n0; ++i)
				if (pfm.regions[i].pfn != i || pfm.regions[i].pos != 1000 + i) kept = 0;
			if (r && (pfm.regions[n0].pfn != n0 || r != &pfm.regions[n0])) kept = 0;
			printf("> rgn %s n=%zu allocs=%lu kept=%s%s\n", r ? "ok" : "null", pfm.nregions, alloc_count, kept ? "true" : "false",
			       (!r && alloc_failed == before) ? " FAILED-WITHOUT-FAULT" : "");
			__wrap_free(pfm.regions);
			if (alloc_live) { printf("> rgn LEAK %ld\n", alloc_live); alloc_live = 0; }
		} else
			puts("> bad-op");
	}
	return 0;
}
