/* n-th allocation failure for library allocations (link with
 * -Wl,--wrap=malloc,--wrap=calloc,--wrap=realloc,--wrap=strdup).
 * The harness's own allocations use the __real_ functions directly.
 *
 * alloc_plan: outcomes of the next allocations: bit i of alloc_mask (i <
 * alloc_planlen) says whether the i-th allocation from now succeeds; after the
 * plan is exhausted everything succeeds.  alloc_fail_at (1-based, 0 = off)
 * fails exactly that allocation.  alloc_count counts wrapped allocations.
 */
#ifndef VERIF_ALLOC_H
#define VERIF_ALLOC_H
#include <stddef.h>
#include <string.h>
void *__real_malloc(size_t);
void *__real_calloc(size_t, size_t);
void *__real_realloc(void *, size_t);
char *__real_strdup(const char *);
void __real_free(void *);
static unsigned long alloc_count, alloc_fail_at, alloc_failed;
static long alloc_live;    /* library blocks currently allocated (needs --wrap=free) */
static unsigned long alloc_mask = ~0UL; static unsigned alloc_planlen, alloc_planpos;
static int alloc_should_fail(void)
{
	++alloc_count;
	if (alloc_fail_at && alloc_count == alloc_fail_at) { ++alloc_failed; return 1; }
	if (alloc_planpos < alloc_planlen) {
		int ok = (alloc_mask >> alloc_planpos) & 1;
		++alloc_planpos;
		if (!ok) { ++alloc_failed; return 1; }
	}
	return 0;
}
void *__wrap_malloc(size_t n) { void *r; if (alloc_should_fail()) return NULL; r = __real_malloc(n); if (r) ++alloc_live; return r; }
void *__wrap_calloc(size_t a, size_t b) { void *r; if (alloc_should_fail()) return NULL; r = __real_calloc(a, b); if (r) ++alloc_live; return r; }
/* realloc alone: alloc_realloc_fail_at (1-based, 0 = off) fails exactly that realloc call; alloc_realloc_hook (if set) is
 * told about every call (newp == NULL: the call failed), so that a harness can tell which array a call grew */
static unsigned long alloc_realloc_count, alloc_realloc_fail_at;
static void (*alloc_realloc_hook)(void *oldp, void *newp, size_t n);
void *__wrap_realloc(void *p, size_t n)
{
	void *r;
	++alloc_realloc_count;
	if (alloc_realloc_fail_at && alloc_realloc_count == alloc_realloc_fail_at) {
		++alloc_count; ++alloc_failed;
		if (alloc_realloc_hook) alloc_realloc_hook(p, NULL, n);
		return NULL;
	}
	if (alloc_should_fail()) { if (alloc_realloc_hook) alloc_realloc_hook(p, NULL, n); return NULL; }
	r = __real_realloc(p, n);
	if (!p && r) ++alloc_live;
	if (alloc_realloc_hook) alloc_realloc_hook(p, r, n);
	return r;
}
void __wrap_free(void *p) { if (p) --alloc_live; __real_free(p); }
char *__wrap_strdup(const char *s)
{
	size_t n = strlen(s) + 1; char *r;
	if (alloc_should_fail()) return NULL;
	r = __real_malloc(n); if (r) { memcpy(r, s, n); ++alloc_live; } return r;
}
static void alloc_plan(unsigned long mask, unsigned len) { alloc_mask = mask; alloc_planlen = len; alloc_planpos = 0; }
static void alloc_reset(void) { alloc_planlen = alloc_planpos = 0; alloc_fail_at = 0; alloc_count = 0; }
#define ALLOC_WRAP_LDFLAGS "-Wl,--wrap=malloc,--wrap=calloc,--wrap=realloc,--wrap=strdup,--wrap=free"
#endif
