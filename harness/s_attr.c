/* Stream `attr`: the public attribute API on real contexts (C13).
 *
 * Slots: contexts C, references R, iterators I, blobs B are small numbers.
 * Paths: `@` is the NULL (root) path.  Values: nil | dir | num:<dec> |
 * addr:<dec> | str:<hex of the bytes> | blob:<slot> | bmp:<ref slot holding one>.
 *
 *   new C                 > new ok|null
 *   clone C D FLAGS       > clone ok|null
 *   free C                > free
 *   mkblob B HEX          > mkblob ok
 *   get C P               > get <st> [value]
 *   gett C P TYPE         > gett <st> [value]          kdump_get_typed_attr
 *   set C P V             > set <st>
 *   badset C P V ST       > set <st>                   a value the key's pre-set hook refuses (ST: status the model echoes)
 *   ref C R P             > ref <st>
 *   sub C R R2 S          > sub <st>                   kdump_sub_attr_ref
 *   rget C R              > rget <st> [value]
 *   rset C R V            > rset <st>
 *   rinfo R               > rinfo <type> <isset>
 *   setsub C R S V        > setsub <st>
 *   iter C I P            > iter <st> [key|-]
 *   riter C I R           > riter <st> [key|-]
 *   next C I              > next <st> [key|-]
 *   iget C I              > iget <st> [value] | iget end
 *   iref I R              > iref ok|end                reference := iterator position
 *   ls C P                > ls <st> key,key,...        whole directory, iteration order
 *   dump C                > dump path=value/P|V;...    walk by iterators from the root
 *   dumpat C P            > dump path=value/P|V;...    the same walk below the directory P
 *   open C FILE           > open <st>                  kdump_open_fd
 *   fdopen C FILE         > fdopen <st>                kdump_set_attr(file.fd = descriptor): the legacy alias of file.set.0.fd
 *   popen C FILE          > open <st>  and  > predump <tree before the failure teardown | ->
 *   nfiles C N            (same as set C file.set.number num:N)
 *   nfilesoom C N K [SLOT STAGE]  > nfilesoom <st>     the same with the K-th allocation of the call failing (K beyond the
 *                                                      call's allocations: nothing fails); SLOT/STAGE tell the model where
 *   nfilescnt C N         > nfilescnt <st> <allocations made by the call>
 *   setfn C HEX|-         > setfn <st>                 kdump_set_filename (one name; - = NULL)
 * The persistence flag printed by `dump` is read from the library's private
 * struct attr_data through the reference (it is the "set by the application"
 * mark of the property).
 */
#include <fcntl.h>
#include <unistd.h>
#include "kdumpfile-priv.h"
#include "hcommon.h"
#include "alloc.h"	/* n-th allocation failure (nfilesoom); link with kdf.ALLOC_WRAP */

#define NCTX 16
#define NREF 64
#define NIT 16
#define NBLOB 65536
static kdump_ctx_t *ctxs[NCTX];
static int ctxfd[NCTX][8], nctxfd[NCTX];
static kdump_attr_ref_t refs[NREF];
static int refok[NREF];
static kdump_attr_iter_t its[NIT];
static int itok[NIT];
static kdump_blob_t *blobs[NBLOB];

static const char *tname(kdump_attr_type_t t)
{
	switch (t) {
	case KDUMP_NIL: return "nil";
	case KDUMP_DIRECTORY: return "dir";
	case KDUMP_NUMBER: return "num";
	case KDUMP_ADDRESS: return "addr";
	case KDUMP_STRING: return "str";
	case KDUMP_BITMAP: return "bmp";
	case KDUMP_BLOB: return "blob";
	}
	return "badtype";
}
static int tparse(const char *s)
{
	static const char *n[] = { "nil", "dir", "num", "addr", "str", "bmp", "blob" };
	static const kdump_attr_type_t t[] = { KDUMP_NIL, KDUMP_DIRECTORY, KDUMP_NUMBER, KDUMP_ADDRESS,
		KDUMP_STRING, KDUMP_BITMAP, KDUMP_BLOB };
	int i;
	for (i = 0; i < 7; ++i) if (!strcmp(s, n[i])) return t[i];
	return -1;
}

static void pval(FILE *f, const kdump_attr_t *a, const struct attr_data *d)
{
	size_t i;
	switch (a->type) {
	case KDUMP_NUMBER:
		/* cache statistics depend on the file and on I/O: not part of the property */
		if (d && (!strcmp(d->template->key, "hits") || !strcmp(d->template->key, "misses")))
			fprintf(f, "num:STAT");
		else
			fprintf(f, "num:%" PRIu64, (uint64_t)a->val.number);
		break;
	case KDUMP_ADDRESS: fprintf(f, "addr:%" PRIu64, (uint64_t)a->val.address); break;
	case KDUMP_STRING:
		fprintf(f, "str:");
		for (i = 0; a->val.string[i]; ++i) fprintf(f, "%02x", (unsigned char)a->val.string[i]);
		break;
	case KDUMP_BITMAP: fprintf(f, "bmp"); break;
	case KDUMP_BLOB:
		for (i = 0; i < NBLOB; ++i) if (blobs[i] && blobs[i] == a->val.blob) break;
		if (i < NBLOB) fprintf(f, "blob:%zu", i);
		else {
			void *p = kdump_blob_pin(a->val.blob);
			fprintf(f, "blob:?%zu:%" PRIu64, kdump_blob_size(a->val.blob),
				fnv(p, kdump_blob_size(a->val.blob)));
			kdump_blob_unpin(a->val.blob);
		}
		break;
	case KDUMP_DIRECTORY: fprintf(f, "dir"); break;
	default: fprintf(f, "type:%d", (int)a->type);
	}
}

static char strbuf[1 << 16];
/* parse a value; returns 0 on success */
static int vparse(const char *s, kdump_attr_t *a)
{
	if (!strcmp(s, "nil")) { a->type = KDUMP_NIL; return 0; }
	if (!strcmp(s, "dir")) { a->type = KDUMP_DIRECTORY; return 0; }
	if (!strncmp(s, "num:", 4)) { a->type = KDUMP_NUMBER; a->val.number = strtoull(s + 4, NULL, 10); return 0; }
	if (!strncmp(s, "addr:", 5)) { a->type = KDUMP_ADDRESS; a->val.address = strtoull(s + 5, NULL, 10); return 0; }
	if (!strncmp(s, "str:", 4)) {
		size_t n = 0; const char *p = s + 4; unsigned b;
		while (p[0] && p[1] && sscanf(p, "%2x", &b) == 1) { strbuf[n++] = b; p += 2; }
		strbuf[n] = 0;
		a->type = KDUMP_STRING; a->val.string = strbuf; return 0;
	}
	if (!strncmp(s, "blob:", 5)) {
		int k = atoi(s + 5);
		if (k < 0 || k >= NBLOB || !blobs[k]) return -1;
		a->type = KDUMP_BLOB; a->val.blob = blobs[k];
		kdump_blob_incref(blobs[k]);     /* the attribute steals one reference */
		return 0;
	}
	if (!strncmp(s, "bmp:", 4)) {
		int r = atoi(s + 4); kdump_attr_t v;
		if (r < 0 || r >= NREF || !refok[r]) return -1;
		/* value of a bitmap attribute held by reference r (any context will do) */
		struct attr_data *d = refs[r]._ptr;
		if (d->template->type != KDUMP_BITMAP || !attr_isset(d)) return -1;
		v.val = *attr_value(d);
		a->type = KDUMP_BITMAP; a->val.bitmap = v.val.bitmap;
		kdump_bmp_incref(a->val.bitmap);
		return 0;
	}
	return -1;
}

static const char *P(const char *p) { return strcmp(p, "@") ? p : NULL; }

static void show(const char *op, kdump_ctx_t *ctx, kdump_status st, const kdump_attr_t *a,
		 const struct attr_data *d)
{
	printf("> %s %s", op, kstatus_name(st));
	if (st == KDUMP_OK && a) { putchar(' '); pval(stdout, a, d); }
	printf("%s\n", c16_monitor(ctx, st));
}
static const struct attr_data *node_of(kdump_ctx_t *ctx, const char *key)
{
	/* private lookup (does not touch the error state of the context) */
	struct attr_data *d;
	rwlock_rdlock(&ctx->shared->lock);
	d = lookup_attr(ctx->dict, key);
	rwlock_unlock(&ctx->shared->lock);
	return d;
}
static void showkey(const char *op, kdump_ctx_t *ctx, kdump_status st, const kdump_attr_iter_t *it)
{
	printf("> %s %s", op, kstatus_name(st));
	if (st == KDUMP_OK) printf(" %s", it->key ? (it->key[0] ? it->key : "\"\"") : "-");
	printf("%s\n", c16_monitor(ctx, st));
}

static void dump_dir(kdump_ctx_t *ctx, const kdump_attr_ref_t *dir, char *path, size_t plen, int *first)
{
	kdump_attr_iter_t it;
	kdump_status st = kdump_attr_ref_iter_start(ctx, dir, &it);
	if (st != KDUMP_OK) { printf("%s%.*s!iter-%s", *first ? "" : ";", (int)plen, path, kstatus_name(st)); *first = 0; return; }
	while (it.key) {
		kdump_attr_t a;
		size_t l = strlen(it.key), nl = plen + (plen ? 1 : 0) + l;
		struct attr_data *d = it.pos._ptr;
		if (nl >= 4000) break;
		if (plen) path[plen] = '.';
		memcpy(path + plen + (plen ? 1 : 0), it.key, l);
		st = kdump_attr_ref_get(ctx, &it.pos, &a);
		printf("%s%.*s=", *first ? "" : ";", (int)nl, path);
		*first = 0;
		if (st == KDUMP_OK) pval(stdout, &a, d); else printf("!%s", kstatus_name(st));
		printf("/%c", d->flags.persist ? 'P' : 'V');
		if (st == KDUMP_OK && a.type == KDUMP_DIRECTORY)
			dump_dir(ctx, &it.pos, path, nl, first);
		if (kdump_attr_iter_next(ctx, &it) != KDUMP_OK) break;
	}
	kdump_attr_iter_end(ctx, &it);
}

/* the same walk over the private structures (no public call: used inside kdump_open_fd, where the lock is held) */
static void priv_dump_dir(FILE *f, struct attr_data *dir, char *path, size_t plen, int *first)
{
	struct attr_data *d;
	for (d = dir->dir; d; d = d->next) {
		kdump_attr_t a;
		const char *key = d->template->key;
		size_t l = strlen(key), nl = plen + (plen ? 1 : 0) + l;
		if (!attr_isset(d)) continue;
		if (nl >= 4000) break;
		if (plen) path[plen] = '.';
		memcpy(path + plen + (plen ? 1 : 0), key, l);
		a.type = d->template->type;
		if (a.type != KDUMP_DIRECTORY) a.val = *attr_value(d);
		fprintf(f, "%s%.*s=", *first ? "" : ";", (int)nl, path);
		*first = 0;
		pval(f, &a, d);
		fprintf(f, "/%c", d->flags.persist ? 'P' : 'V');
		if (a.type == KDUMP_DIRECTORY) priv_dump_dir(f, d, path, nl, first);
	}
}

/* popen: what a probe that fails had set before open_dump() tore it down again.  clear_volatile_attrs() runs once
 * when the open starts and once more on the failure path: the tree is written down before the second call. */
static int cv_capture, cv_calls;
static char *cv_text; static size_t cv_len;
void __real__kdumpfile_priv_clear_volatile_attrs(kdump_ctx_t *ctx);
void __wrap__kdumpfile_priv_clear_volatile_attrs(kdump_ctx_t *ctx)
{
	if (cv_capture && ++cv_calls == 2) {
		static char path[4096];
		int first = 1;
		FILE *f = open_memstream(&cv_text, &cv_len);
		struct attr_data *root = lookup_attr(ctx->dict, NULL);
		if (root && attr_isset(root)) priv_dump_dir(f, root, path, 0, &first);
		else fprintf(f, "!root-unset");
		fclose(f);
	}
	__real__kdumpfile_priv_clear_volatile_attrs(ctx);
}

int main(void)
{
	static char line[1 << 17], a1[1 << 16], a2[1 << 16];
	int c, d, r, r2, i, b;
	unsigned long fl;
	setvbuf(stdout, NULL, _IOLBF, 0);
	while (fgets(line, sizeof line, stdin)) {
		kdump_attr_t at; kdump_status st;
		line[strcspn(line, "\n")] = 0;
		if (sscanf(line, "new %d", &c) == 1) {
			ctxs[c] = kdump_new(); nctxfd[c] = 0;
			printf("> new %s\n", ctxs[c] ? "ok" : "null");
		} else if (sscanf(line, "clone %d %d %lu", &c, &d, &fl) == 3) {
			ctxs[d] = kdump_clone(ctxs[c], fl); nctxfd[d] = 0;
			printf("> clone %s\n", ctxs[d] ? "ok" : "null");
		} else if (sscanf(line, "free %d", &c) == 1) {
			kdump_free(ctxs[c]); ctxs[c] = NULL;
			for (i = 0; i < nctxfd[c]; ++i) close(ctxfd[c][i]);
			nctxfd[c] = 0;
			puts("> free");
		} else if (sscanf(line, "mkblob %d %65535s", &b, a1) == 2) {
			size_t n = 0; const char *p = a1; unsigned x; char *data;
			if (!strcmp(a1, "-")) a1[0] = 0;
			data = malloc(strlen(a1) / 2 + 1);
			while (p[0] && p[1] && sscanf(p, "%2x", &x) == 1) { data[n++] = x; p += 2; }
			if (blobs[b]) kdump_blob_decref(blobs[b]);
			blobs[b] = kdump_blob_new(data, n);
			printf("> mkblob %s\n", blobs[b] ? "ok" : "null");
		} else if (sscanf(line, "gett %d %65535s %65535s", &c, a1, a2) == 3) {
			at.type = tparse(a2);
			st = kdump_get_typed_attr(ctxs[c], P(a1), &at);
			show("gett", ctxs[c], st, &at, st == KDUMP_OK ? node_of(ctxs[c], P(a1)) : NULL);
		} else if (sscanf(line, "get %d %65535s", &c, a1) == 2) {
			st = kdump_get_attr(ctxs[c], P(a1), &at);
			show("get", ctxs[c], st, &at, st == KDUMP_OK ? node_of(ctxs[c], P(a1)) : NULL);
		} else if (sscanf(line, "setsub %d %d %65535s %65535s", &c, &r, a1, a2) == 4) {
			if (!refok[r]) { puts("> bad-op"); continue; }
			if (vparse(a2, &at)) { puts("> setsub badvalue"); continue; }
			st = kdump_set_sub_attr(ctxs[c], &refs[r], a1, &at);
			show("setsub", ctxs[c], st, NULL, NULL);
		} else if (sscanf(line, "badset %d %65535s %65535s", &c, a1, a2) == 3) {
			/* a value the attribute's pre-set hook refuses (4th token = expected status, for the model only) */
			if (vparse(a2, &at)) { puts("> set badvalue"); continue; }
			st = kdump_set_attr(ctxs[c], P(a1), &at);
			show("set", ctxs[c], st, NULL, NULL);
		} else if (sscanf(line, "set %d %65535s %65535s", &c, a1, a2) == 3) {
			if (vparse(a2, &at)) { puts("> set badvalue"); continue; }
			st = kdump_set_attr(ctxs[c], P(a1), &at);
			show("set", ctxs[c], st, NULL, NULL);
		} else if (sscanf(line, "setfn %d %65535s", &c, a1) == 2) {
			/* kdump_set_filename: name given as hex, `-` = NULL (forget the name) */
			if (strcmp(a1, "-")) {
				size_t n = 0; const char *q = a1; unsigned bb;
				while (q[0] && q[1] && sscanf(q, "%2x", &bb) == 1) { strbuf[n++] = bb; q += 2; }
				strbuf[n] = 0;
				st = kdump_set_filename(ctxs[c], strbuf);
			} else
				st = kdump_set_filename(ctxs[c], NULL);
			show("setfn", ctxs[c], st, NULL, NULL);
		} else if (sscanf(line, "nfilesoom %d %d %d", &c, &d, &i) == 3) {
			at.type = KDUMP_NUMBER; at.val.number = d;
			alloc_reset(); alloc_fail_at = i;
			st = kdump_set_attr(ctxs[c], "file.set.number", &at);
			alloc_reset();
			show("nfilesoom", ctxs[c], st, NULL, NULL);
		} else if (sscanf(line, "nfilescnt %d %d", &c, &d) == 2) {
			unsigned long cnt;
			at.type = KDUMP_NUMBER; at.val.number = d;
			alloc_reset();
			st = kdump_set_attr(ctxs[c], "file.set.number", &at);
			cnt = alloc_count;
			alloc_reset();
			printf("> nfilescnt %s %lu\n", kstatus_name(st), cnt);
		} else if (sscanf(line, "nfiles %d %d", &c, &d) == 2) {
			at.type = KDUMP_NUMBER; at.val.number = d;
			st = kdump_set_attr(ctxs[c], "file.set.number", &at);
			show("nfiles", ctxs[c], st, NULL, NULL);
		} else if (sscanf(line, "ref %d %d %65535s", &c, &r, a1) == 3) {
			st = kdump_attr_ref(ctxs[c], P(a1), &refs[r]);
			refok[r] = st == KDUMP_OK;
			show("ref", ctxs[c], st, NULL, NULL);
		} else if (sscanf(line, "sub %d %d %d %65535s", &c, &r, &r2, a1) == 4) {
			kdump_attr_ref_t nr;
			if (!refok[r]) { puts("> bad-op"); continue; }
			st = kdump_sub_attr_ref(ctxs[c], &refs[r], a1, &nr);
			if (st == KDUMP_OK) { refs[r2] = nr; refok[r2] = 1; }
			show("sub", ctxs[c], st, NULL, NULL);
		} else if (sscanf(line, "rget %d %d", &c, &r) == 2) {
			if (!refok[r]) { puts("> bad-op"); continue; }
			st = kdump_attr_ref_get(ctxs[c], &refs[r], &at);
			show("rget", ctxs[c], st, &at, refs[r]._ptr);
		} else if (sscanf(line, "rset %d %d %65535s", &c, &r, a1) == 3) {
			if (!refok[r]) { puts("> bad-op"); continue; }
			if (vparse(a1, &at)) { puts("> rset badvalue"); continue; }
			st = kdump_attr_ref_set(ctxs[c], &refs[r], &at);
			show("rset", ctxs[c], st, NULL, NULL);
		} else if (sscanf(line, "rinfo %d", &r) == 1) {
			if (!refok[r]) { puts("> bad-op"); continue; }
			printf("> rinfo %s %d\n", tname(kdump_attr_ref_type(&refs[r])), !!kdump_attr_ref_isset(&refs[r]));
		} else if (sscanf(line, "unref %d %d", &c, &r) == 2) {
			kdump_attr_unref(ctxs[c], &refs[r]); refok[r] = 0;
		} else if (sscanf(line, "iter %d %d %65535s", &c, &i, a1) == 3) {
			st = kdump_attr_iter_start(ctxs[c], P(a1), &its[i]);
			if (st == KDUMP_OK) itok[i] = 1;
			showkey("iter", ctxs[c], st, &its[i]);
		} else if (sscanf(line, "riter %d %d %d", &c, &i, &r) == 3) {
			if (!refok[r]) { puts("> bad-op"); continue; }
			st = kdump_attr_ref_iter_start(ctxs[c], &refs[r], &its[i]);
			if (st == KDUMP_OK) itok[i] = 1;
			showkey("riter", ctxs[c], st, &its[i]);
		} else if (sscanf(line, "next %d %d", &c, &i) == 2) {
			if (!itok[i]) { puts("> bad-op"); continue; }
			st = kdump_attr_iter_next(ctxs[c], &its[i]);
			showkey("next", ctxs[c], st, &its[i]);
		} else if (sscanf(line, "iget %d %d", &c, &i) == 2) {
			if (!itok[i]) { puts("> bad-op"); continue; }
			if (!its[i].key) { puts("> iget end"); continue; }
			st = kdump_attr_ref_get(ctxs[c], &its[i].pos, &at);
			show("iget", ctxs[c], st, &at, its[i].pos._ptr);
		} else if (sscanf(line, "iref %d %d", &i, &r) == 2) {
			if (!itok[i]) { puts("> bad-op"); continue; }
			if (!its[i].key) { puts("> iref end"); continue; }
			refs[r] = its[i].pos; refok[r] = 1;
			puts("> iref ok");
		} else if (sscanf(line, "iend %d %d", &c, &i) == 2) {
			kdump_attr_iter_end(ctxs[c], &its[i]); itok[i] = 0;
		} else if (sscanf(line, "ls %d %65535s", &c, a1) == 2) {
			kdump_attr_iter_t it; int n = 0;
			st = kdump_attr_iter_start(ctxs[c], P(a1), &it);
			printf("> ls %s", kstatus_name(st));
			if (st == KDUMP_OK) {
				printf(" %s", it.key ? "" : "-");
				while (it.key && n < 100000) {
					printf("%s%s", n++ ? "," : "", it.key[0] ? it.key : "\"\"");
					if (kdump_attr_iter_next(ctxs[c], &it) != KDUMP_OK) { printf(",!next-failed"); break; }
				}
				kdump_attr_iter_end(ctxs[c], &it);
			}
			printf("%s\n", c16_monitor(ctxs[c], st));
		} else if (sscanf(line, "dump %d", &c) == 1) {
			static char path[4096];
			kdump_attr_ref_t root; int first = 1;
			st = kdump_attr_ref(ctxs[c], NULL, &root);
			printf("> dump ");
			if (st != KDUMP_OK) printf("!ref-%s", kstatus_name(st));
			else if (!kdump_attr_ref_isset(&root)) printf("!root-unset");
			else dump_dir(ctxs[c], &root, path, 0, &first);
			putchar('\n');
		} else if (sscanf(line, "dumpat %d %4000s", &c, a1) == 2) {
			/* the walk of `dump`, started at the directory a1 (works through a clone's private dictionary) */
			static char path[4096];
			kdump_attr_ref_t dir; int first = 1;
			st = kdump_attr_ref(ctxs[c], a1, &dir);
			printf("> dump ");
			if (st != KDUMP_OK) printf("!ref-%s", kstatus_name(st));
			else if (!kdump_attr_ref_isset(&dir)) printf("!root-unset");
			else { strcpy(path, a1); dump_dir(ctxs[c], &dir, path, strlen(a1), &first); }
			putchar('\n');
			if (st == KDUMP_OK) kdump_attr_unref(ctxs[c], &dir);
		} else if (sscanf(line, "popen %d %65535s", &c, a1) == 2) {
			int fd = open(a1, O_RDONLY);
			if (fd < 0) { puts("> open nofile"); puts("> predump -"); continue; }
			if (dup2(fd, 100 + c) < 0) { puts("> open nodup"); puts("> predump -"); continue; }
			close(fd);
			ctxfd[c][0] = 100 + c; nctxfd[c] = 1;
			cv_capture = 1; cv_calls = 0; cv_text = NULL;
			st = kdump_open_fd(ctxs[c], 100 + c);
			cv_capture = 0;
			printf("> open %s%s\n", kstatus_name(st), c16_monitor(ctxs[c], st));
			printf("> predump %s\n", cv_text ? cv_text : "-");
			free(cv_text); cv_text = NULL;
		} else if (sscanf(line, "fdopen %d %65535s", &c, a1) == 2) {
			/* the legacy way of opening a dump: kdump_set_attr(ctx, "file.fd", descriptor) */
			int fd = open(a1, O_RDONLY);
			if (fd < 0) { puts("> fdopen nofile"); continue; }
			if (dup2(fd, 100 + c) < 0) { puts("> fdopen nodup"); continue; }
			close(fd);
			nctxfd[c] = 0;
			ctxfd[c][nctxfd[c]++] = 100 + c;
			at.type = KDUMP_NUMBER; at.val.number = 100 + c;
			st = kdump_set_attr(ctxs[c], "file.fd", &at);
			show("fdopen", ctxs[c], st, NULL, NULL);
		} else if (sscanf(line, "open %d %65535s", &c, a1) == 2) {
			int fd = open(a1, O_RDONLY);
			if (fd < 0) { puts("> open nofile"); continue; }
			/* deterministic descriptor number: it is the value of file.set.0.fd */
			if (dup2(fd, 100 + c) < 0) { puts("> open nodup"); continue; }
			close(fd);
			fd = 100 + c;
			nctxfd[c] = 0;
			ctxfd[c][nctxfd[c]++] = fd;
			st = kdump_open_fd(ctxs[c], fd);
			show("open", ctxs[c], st, NULL, NULL);
		} else if (line[0] == '#' || !line[0] || !strncmp(line, "G ", 2) || !strncmp(line, "O ", 2) ||
			   !strncmp(line, "M ", 2) || !strncmp(line, "I ", 2) || !strncmp(line, "prov ", 5) ||
			   !strncmp(line, "openst ", 7)) {
			;
		} else
			puts("> bad-op");
	}
	for (c = 0; c < NCTX; ++c) if (ctxs[c]) kdump_free(ctxs[c]);
	for (b = 0; b < NBLOB; ++b) if (blobs[b]) kdump_blob_decref(blobs[b]);
	return 0;
}
