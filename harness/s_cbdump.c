/* Stream `cbdump` (C17): pass-through callback layers on the translation context
 * that a dump object hands out (kdump_get_addrxlat + addrxlat_ctx_add_cb).
 *
 * Input:
 *   cfg <path> <nlayers> <when> <ostype|-> <removal order, e.g. 012 | ->
 *        when = 0: the layers are added BEFORE the file is opened (the dump object's own
 *                  set-up -- OS type, UTS names, translation system -- already runs through them)
 *        when = 1: after open and OS type
 *        removal order: after the observations the layers are removed in this order
 *                  (indices in order of creation) and the observations are made once more
 *   attr <key>                     attribute of the dump object
 *   hook <h> <name> [<elem>]       hook h (1 read_caps, 2 reg_value, 3 sym_value, 4 sym_sizeof,
 *                                  5 sym_offsetof, 6 num_value) called on the TOP record of the context
 *   page <as> <addr>               hook 0 (get_page) on the top record, then put_page
 *   read <as> <addr> <len>         kdump_read
 *   conv <as> <addr> <target as>   addrxlat_fulladdr_conv through the context
 *   str <as> <addr>                kdump_read_string
 * Output: one `> <n>/<when>/<phase> <observation> -> <outcome>` line per observation;
 * phase 0 = layers in place, 1 = after their removal.  None of the layers overrides
 * anything, so every outcome must equal the one of the plain context (nlayers = 0).
 */
#include <stdio.h>
#include <stdlib.h>
#include <string.h>
#include <stdint.h>
#include <inttypes.h>
#include <fcntl.h>
#include <unistd.h>
#include <libkdumpfile/kdumpfile.h>
#include <libkdumpfile/addrxlat.h>

#define MAXL 8
#define MAXOBS 512

static char obs[MAXOBS][256];
static int nobs;
static char cfgline[1024];

static uint64_t fnv(const unsigned char *p, size_t n)
{
	uint64_t h = 0xcbf29ce484222325ULL;
	while (n--) h = (h ^ *p++) * 0x100000001b3ULL;
	return h;
}

/* what an application layer's private data points to: if a hook of the layer below were
 * run with THIS record it would see zeroes instead of its own data */
static unsigned char decoy[MAXL][256];

static void observe(kdump_ctx_t *ctx, addrxlat_ctx_t *ax, addrxlat_sys_t *sys, const char *tag)
{
	int i;
	for (i = 0; i < nobs; ++i) {
		char key[200], key2[64]; unsigned h, as, tas; uint64_t a, len;
		const char *o = obs[i];
		printf("> %s %s -> ", tag, o);
		if (sscanf(o, "attr %199s", key) == 1) {
			kdump_attr_t at; kdump_status st = kdump_get_attr(ctx, key, &at);
			if (st != KDUMP_OK) printf("status %d\n", (int)st);
			else if (at.type == KDUMP_STRING) printf("str %s\n", at.val.string);
			else if (at.type == KDUMP_NUMBER) printf("num %" PRIu64 "\n", (uint64_t)at.val.number);
			else if (at.type == KDUMP_ADDRESS) printf("addr %" PRIx64 "\n", (uint64_t)at.val.address);
			else printf("type %d\n", (int)at.type);
		} else if (sscanf(o, "hook %u %199s %63s", &h, key, key2) >= 2 && ax) {
			const addrxlat_cb_t *cb = addrxlat_ctx_get_cb(ax);
			addrxlat_addr_t v = 0x5a5a; addrxlat_status st = ADDRXLAT_OK;
			addrxlat_ctx_clear_err(ax);
			switch (h) {
			case 1: printf("caps %lx\n", cb->read_caps(cb)); continue;
			case 2: st = cb->reg_value(cb, key, &v); break;
			case 3: st = cb->sym_value(cb, key, &v); break;
			case 4: st = cb->sym_sizeof(cb, key, &v); break;
			case 5: st = cb->sym_offsetof(cb, key, key2, &v); break;
			case 6: st = cb->num_value(cb, key, &v); break;
			}
			if (st == ADDRXLAT_OK) printf("ok %" PRIx64 "\n", (uint64_t)v);
			else printf("status %d %s\n", (int)st, addrxlat_ctx_get_err(ax));
			addrxlat_ctx_clear_err(ax);
		} else if (sscanf(o, "page %u %" SCNx64, &as, &a) == 2 && ax) {
			const addrxlat_cb_t *cb = addrxlat_ctx_get_cb(ax);
			addrxlat_buffer_t buf; addrxlat_status st;
			memset(&buf, 0, sizeof buf);
			buf.addr.as = as; buf.addr.addr = a;
			addrxlat_ctx_clear_err(ax);
			st = cb->get_page(cb, &buf);
			if (st == ADDRXLAT_OK) {
				size_t off = a - buf.addr.addr;
				printf("ok addr %" PRIx64 " size %zu order %d at+%zu %016" PRIx64 "\n", (uint64_t)buf.addr.addr, buf.size,
				       (int)buf.byte_order, off, off + 8 <= buf.size ? fnv((const unsigned char *)buf.ptr + off, 8) : 0);
				if (buf.put_page) buf.put_page(&buf);
			} else
				printf("status %d %s\n", (int)st, addrxlat_ctx_get_err(ax));
			addrxlat_ctx_clear_err(ax);
		} else if (sscanf(o, "read %u %" SCNx64 " %" SCNu64, &as, &a, &len) == 3 && len <= 65536) {
			unsigned char *b = malloc(len ? len : 1); size_t n = len;
			kdump_status st = kdump_read(ctx, as, a, b, &n);
			if (st == KDUMP_OK) printf("ok %zu %016" PRIx64 "\n", n, fnv(b, n));
			else printf("status %d %zu %s\n", (int)st, n, kdump_get_err(ctx));
			free(b);
		} else if (sscanf(o, "str %u %" SCNx64, &as, &a) == 2) {
			char *s = NULL; kdump_status st = kdump_read_string(ctx, as, a, &s);
			if (st == KDUMP_OK) { printf("ok %s\n", s); free(s); }
			else printf("status %d %s\n", (int)st, kdump_get_err(ctx));
		} else if (sscanf(o, "conv %u %" SCNx64 " %u", &as, &a, &tas) == 3 && ax && sys) {
			addrxlat_fulladdr_t fa; addrxlat_status st;
			fa.as = as; fa.addr = a;
			addrxlat_ctx_clear_err(ax);
			st = addrxlat_fulladdr_conv(&fa, tas, ax, sys);
			if (st == ADDRXLAT_OK) printf("ok %d:%" PRIx64 "\n", (int)fa.as, (uint64_t)fa.addr);
			else printf("status %d %s\n", (int)st, addrxlat_ctx_get_err(ax));
			addrxlat_ctx_clear_err(ax);
		} else
			printf("skipped\n");
	}
}

static void run_cfg(void)
{
	char path[512], ostype[32], order[32], tag[64];
	int n, when, i, fd;
	kdump_ctx_t *ctx;
	addrxlat_ctx_t *ax = NULL; addrxlat_sys_t *sys = NULL;
	addrxlat_cb_t *layer[MAXL];
	int nl = 0;
	kdump_status st;

	if (sscanf(cfgline, "cfg %511s %d %d %31s %31s", path, &n, &when, ostype, order) != 5 || n > MAXL)
		return;
	ctx = kdump_new();
	if (!ctx) { printf("> %d/%d/0 new -> null\n", n, when); return; }
	if (when == 0 && n) {
		st = kdump_get_addrxlat(ctx, &ax, NULL);
		printf("> # early-get-addrxlat -> %d\n", (int)st);
		if (st == KDUMP_OK)
			for (i = 0; i < n; ++i) {
				layer[nl] = addrxlat_ctx_add_cb(ax);
				if (layer[nl]) { layer[nl]->priv = decoy[nl]; ++nl; }
			}
	}
	fd = open(path, O_RDONLY);
	st = kdump_open_fdset(ctx, 1, &fd);
	if (st == KDUMP_OK && strcmp(ostype, "-"))
		st = kdump_set_string_attr(ctx, KDUMP_ATTR_OSTYPE, ostype);
	printf("> x/x/0 open -> %d %s\n", (int)st, st == KDUMP_OK ? "" : kdump_get_err(ctx));
	kdump_clear_err(ctx);
	{
		addrxlat_ctx_t *ax2 = NULL;
		st = kdump_get_addrxlat(ctx, &ax2, &sys);
		if (st == KDUMP_OK) {
			if (ax && ax2 != ax) printf("> x/x/0 context-identity -> changed\n");
			if (ax) addrxlat_ctx_decref(ax);
			ax = ax2;
		} else {
			printf("> x/x/0 get-addrxlat -> %d %s\n", (int)st, kdump_get_err(ctx));
			kdump_clear_err(ctx);
		}
	}
	if (when == 1 && ax)
		for (i = 0; i < n; ++i) {
			layer[nl] = addrxlat_ctx_add_cb(ax);
			if (layer[nl]) { layer[nl]->priv = decoy[nl]; ++nl; }
		}
	snprintf(tag, sizeof tag, "x/x/0");
	observe(ctx, ax, sys, tag);
	if (strcmp(order, "-") && ax) {
		for (i = 0; order[i]; ++i) {
			int k = order[i] - '0';
			if (k >= 0 && k < nl && layer[k]) { addrxlat_ctx_del_cb(ax, layer[k]); layer[k] = NULL; }
		}
		snprintf(tag, sizeof tag, "x/x/1");
		observe(ctx, ax, sys, tag);
	}
	for (i = nl; i-- > 0; )
		if (layer[i] && ax) addrxlat_ctx_del_cb(ax, layer[i]);
	if (sys) addrxlat_sys_decref(sys);
	if (ax) addrxlat_ctx_decref(ax);
	kdump_free(ctx);
	if (fd >= 0) close(fd);
	printf("> # done %d layers\n", nl);
}

int main(void)
{
	char line[1024];
	int have = 0;
	setvbuf(stdout, NULL, _IOLBF, 0);
	while (fgets(line, sizeof line, stdin)) {
		line[strcspn(line, "\n")] = 0;
		if (!strncmp(line, "cfg ", 4)) {
			if (have) run_cfg();
			snprintf(cfgline, sizeof cfgline, "%s", line);
			have = 1; nobs = 0;
			printf("> == %s\n", line);
		} else if (line[0] && nobs < MAXOBS)
			snprintf(obs[nobs++], sizeof obs[0], "%s", line);
	}
	if (have) run_cfg();
	return 0;
}
