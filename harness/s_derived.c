/* Stream `derived` (C14): derived views of dump metadata through the public API.
 *
 *   new                         fresh context                       > new ok
 *   open <path>                 fresh context + kdump_open_fd       > open <status>
 *   regdef <name> <off> <len>   (layout description for the model)  -- no output
 *   endian <0|1>, initblob <hex>, xenrec <size> (for the model)     -- no output
 *   setnum <key> <n>            kdump_set_attr NUMBER               > set <status>
 *   setstr <key> <hex>          kdump_set_attr STRING               > set <status>
 *   setblob <key> <hex>         kdump_set_attr BLOB (new blob)      > set <status>
 *   clear <key>                 kdump_set_attr NIL                  > clear <status>
 *   get <key>                   kdump_get_attr                      > get <status> <value>
 *   poke <key> <off> <hex>      edit the blob in place (pin/unpin)  > poke <status>
 *   tree <key>                  all set leaves below <key>, sorted  > tree <status> <hexpath>=<value> ...
 *   vraw                        kdump_vmcoreinfo_raw                > vraw <status> <hex>
 *   vline <hexkey>              kdump_vmcoreinfo_line               > vline <status> <hex>
 *   vsym <hexkey>               kdump_vmcoreinfo_symbol             > vsym <status> <num>
 *
 * Values: num:<dec> addr:<dec> str:<hex> blob:<hex> dir  ("-" when not OK).
 * The C16 monitor verdicts go to `#` lines (not part of the observation stream).
 */
#include <fcntl.h>
#include <unistd.h>
#include "hcommon.h"

static kdump_ctx_t *ctx;
static int fd = -1;

static void c16(kdump_status st, const char *what)
{
	const char *m = c16_monitor(ctx, st);
	if (*m) printf("# %s%s\n", what, m);
}

static void drop(void)
{
	if (ctx) kdump_free(ctx);
	if (fd >= 0) close(fd);
	ctx = NULL; fd = -1;
}

static size_t unhex(const char *h, unsigned char **out)
{
	size_t n = strlen(h) / 2, i;
	unsigned char *b = malloc(n + 1);
	if (!strcmp(h, "-")) n = 0;
	for (i = 0; i < n; ++i) { unsigned x; sscanf(h + 2 * i, "%2x", &x); b[i] = x; }
	b[n] = 0;
	*out = b;
	return n;
}

static void puthex(const unsigned char *p, size_t n)
{
	size_t i;
	if (!n) putchar('-');
	for (i = 0; i < n; ++i) printf("%02x", p[i]);
}

static void putval(const kdump_attr_t *a)
{
	switch (a->type) {
	case KDUMP_NUMBER: printf("num:%" PRIu64, (uint64_t)a->val.number); break;
	case KDUMP_ADDRESS: printf("addr:%" PRIu64, (uint64_t)a->val.address); break;
	case KDUMP_STRING: printf("str:"); puthex((const unsigned char *)a->val.string, strlen(a->val.string)); break;
	case KDUMP_BLOB: {
		size_t n = kdump_blob_size(a->val.blob);
		unsigned char *p = kdump_blob_pin(a->val.blob);
		printf("blob:"); puthex(p, n);
		kdump_blob_unpin(a->val.blob);
		break;
	}
	case KDUMP_DIRECTORY: printf("dir"); break;
	case KDUMP_BITMAP: printf("bitmap"); break;
	default: printf("type:%d", (int)a->type);
	}
}

/* ---- recursive listing of the set leaves below a directory ---- */
struct ent { char *s; };
static struct ent *ents; static size_t nents, cents;
static char *sprint_val(const char *path, const kdump_attr_t *a)
{
	size_t pl = strlen(path), i, n;
	char *s, *q;
	if (a->type == KDUMP_STRING) {
		n = strlen(a->val.string);
		s = malloc(2 * pl + 2 * n + 16); q = s;
		if (!pl) *q++ = '-';
		for (i = 0; i < pl; ++i) q += sprintf(q, "%02x", (unsigned char)path[i]);
		q += sprintf(q, "=str:");
		if (!n) *q++ = '-';
		for (i = 0; i < n; ++i) q += sprintf(q, "%02x", (unsigned char)a->val.string[i]);
		*q = 0;
	} else {
		s = malloc(2 * pl + 64); q = s;
		if (!pl) *q++ = '-';
		for (i = 0; i < pl; ++i) q += sprintf(q, "%02x", (unsigned char)path[i]);
		if (a->type == KDUMP_NUMBER) sprintf(q, "=num:%" PRIu64, (uint64_t)a->val.number);
		else if (a->type == KDUMP_ADDRESS) sprintf(q, "=addr:%" PRIu64, (uint64_t)a->val.address);
		else sprintf(q, "=type:%d", (int)a->type);
	}
	return s;
}
static void add_ent(char *s)
{
	if (nents == cents) { cents = cents ? 2 * cents : 64; ents = realloc(ents, cents * sizeof *ents); }
	ents[nents++].s = s;
}
static int walk(kdump_attr_ref_t *dir, const char *prefix, int depth)
{
	kdump_attr_iter_t it;
	kdump_status st = kdump_attr_ref_iter_start(ctx, dir, &it);
	if (st != KDUMP_OK) return -1;
	while (it.key) {
		kdump_attr_t a;
		size_t l = strlen(prefix) + strlen(it.key) + 2;
		char *path = malloc(l);
		if (depth) snprintf(path, l, "%s.%s", prefix, it.key); else snprintf(path, l, "%s", it.key);
		if (kdump_attr_ref_type(&it.pos) == KDUMP_DIRECTORY) {
			if (depth < 64) walk(&it.pos, path, depth + 1);
		} else {
			st = kdump_attr_ref_get(ctx, &it.pos, &a);
			if (st == KDUMP_OK) add_ent(sprint_val(path, &a));
			else { char *s = malloc(2 * l + 32), *q = s; size_t i;
			       for (i = 0; path[i]; ++i) q += sprintf(q, "%02x", (unsigned char)path[i]);
			       sprintf(q, "=ERR:%s", kstatus_name(st)); add_ent(s); }
		}
		free(path);
		if (kdump_attr_iter_next(ctx, &it) != KDUMP_OK) break;
	}
	kdump_attr_iter_end(ctx, &it);
	return 0;
}
static int entcmp(const void *a, const void *b)
{
	return strcmp(((const struct ent *)a)->s, ((const struct ent *)b)->s);
}
static void do_tree(const char *key)
{
	kdump_attr_ref_t ref;
	kdump_status st = kdump_attr_ref(ctx, key, &ref);
	size_t i;
	if (st != KDUMP_OK) { printf("> tree %s\n", kstatus_name(st)); return; }
	nents = 0;
	if (!kdump_attr_ref_isset(&ref) || kdump_attr_ref_type(&ref) != KDUMP_DIRECTORY) {
		printf("> tree %s\n", kdump_attr_ref_isset(&ref) ? "notdir" : "nodata");
		kdump_attr_unref(ctx, &ref);
		return;
	}
	walk(&ref, "", 0);
	kdump_attr_unref(ctx, &ref);
	if (nents) qsort(ents, nents, sizeof *ents, entcmp);
	printf("> tree ok");
	for (i = 0; i < nents; ++i) { printf(" %s", ents[i].s); free(ents[i].s); }
	putchar('\n');
}

int main(void)
{
	static char line[1 << 18], key[512], hex[1 << 17];
	uint64_t n, off;
	setvbuf(stdout, NULL, _IOLBF, 0);
	while (fgets(line, sizeof line, stdin)) {
		kdump_attr_t a; kdump_status st; unsigned char *buf; size_t len;
		line[strcspn(line, "\n")] = 0;
		if (!strcmp(line, "new")) {
			drop(); ctx = kdump_new();
			printf("> new %s\n", ctx ? "ok" : "fail");
		} else if (!strncmp(line, "open ", 5)) {
			drop(); ctx = kdump_new();
			fd = open(line + 5, O_RDONLY);
			st = kdump_open_fd(ctx, fd);
			printf("> open %s\n", kstatus_name(st)); c16(st, line);
		} else if (!strncmp(line, "regdef ", 7) || !strncmp(line, "endian ", 7) || !strncmp(line, "initblob ", 9) ||
			   !strncmp(line, "xenrec ", 7)) {
			;
		} else if (!ctx) {
			puts("> no-context");
		} else if (sscanf(line, "setnum %511s %" SCNu64, key, &n) == 2) {
			a.type = KDUMP_NUMBER; a.val.number = n;
			st = kdump_set_attr(ctx, key, &a);
			printf("> set %s\n", kstatus_name(st)); c16(st, line);
		} else if (sscanf(line, "setstr %511s %131071s", key, hex) == 2) {
			unhex(hex, &buf);
			a.type = KDUMP_STRING; a.val.string = (char *)buf;
			st = kdump_set_attr(ctx, key, &a);
			printf("> set %s\n", kstatus_name(st)); c16(st, line);
			free(buf);
		} else if (sscanf(line, "setblob %511s %131071s", key, hex) == 2) {
			len = unhex(hex, &buf);
			a.type = KDUMP_BLOB; a.val.blob = kdump_blob_new_dup(buf, len);
			st = kdump_set_attr(ctx, key, &a);
			printf("> set %s\n", kstatus_name(st)); c16(st, line);
			free(buf);
		} else if (sscanf(line, "clear %511s", key) == 1) {
			a.type = KDUMP_NIL;
			st = kdump_set_attr(ctx, key, &a);
			printf("> clear %s\n", kstatus_name(st)); c16(st, line);
		} else if (sscanf(line, "get %511s", key) == 1) {
			st = kdump_get_attr(ctx, key, &a);
			printf("> get %s ", kstatus_name(st));
			if (st == KDUMP_OK) putval(&a); else putchar('-');
			putchar('\n'); c16(st, line);
		} else if (sscanf(line, "poke %511s %" SCNu64 " %131071s", key, &off, hex) == 3) {
			st = kdump_get_attr(ctx, key, &a);
			if (st == KDUMP_OK && a.type == KDUMP_BLOB) {
				unsigned char *p = kdump_blob_pin(a.val.blob);
				size_t sz = kdump_blob_size(a.val.blob);
				len = unhex(hex, &buf);
				if (off + len <= sz) { memcpy(p + off, buf, len); printf("> poke ok\n"); }
				else printf("> poke range\n");
				kdump_blob_unpin(a.val.blob);
				free(buf);
			} else printf("> poke %s\n", st == KDUMP_OK ? "notblob" : kstatus_name(st));
		} else if (sscanf(line, "tree %511s", key) == 1) {
			do_tree(key);
		} else if (!strcmp(line, "vraw")) {
			char *raw = NULL;
			st = kdump_vmcoreinfo_raw(ctx, &raw);
			printf("> vraw %s ", kstatus_name(st));
			if (st == KDUMP_OK) { puthex((unsigned char *)raw, strlen(raw)); free(raw); } else putchar('-');
			putchar('\n'); c16(st, line);
		} else if (sscanf(line, "vline %131071s", hex) == 1) {
			char *val = NULL;
			unhex(hex, &buf);
			st = kdump_vmcoreinfo_line(ctx, (char *)buf, &val);
			printf("> vline %s ", kstatus_name(st));
			if (st == KDUMP_OK) { puthex((unsigned char *)val, strlen(val)); free(val); } else putchar('-');
			putchar('\n'); c16(st, line);
			free(buf);
		} else if (sscanf(line, "vsym %131071s", hex) == 1) {
			kdump_addr_t v = 0;
			unhex(hex, &buf);
			st = kdump_vmcoreinfo_symbol(ctx, (char *)buf, &v);
			printf("> vsym %s %" PRIu64 "\n", kstatus_name(st), st == KDUMP_OK ? (uint64_t)v : 0);
			c16(st, line);
			free(buf);
		} else
			puts("> bad-op");
	}
	drop();
	return 0;
}
