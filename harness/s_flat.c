/* Stream `flat` (C11): the real flatmap.c on arbitrary flattened record streams,
 * and the descriptor lookup of diskdump_read_page on split file sets.
 *
 *   fopen <path>          fcache_new + flatmap_alloc + flatmap_init on one file
 *                         > fopen <status> <flat|plain> map <n> <endoff>:<meth>... offs <meth>=<off>...
 *   pread <pos> <len>     flatmap_pread_flat          > pread <status> <fnv>
 *   chunk <pos> <len>     flatmap_get_chunk_flat      > chunk <status> <fnv>      (+ fcache_put_chunk)
 *   split / sfile / path  layout description and model-only queries (ignored here)
 *   sopen <n> <path>...   kdump_open_fdset            > sopen <status>
 *   tprobe <pfn>          one-page MACHPHYS read; the first 24-byte read issued by
 *                         diskdump_read_page is the page descriptor
 *                         > tprobe pd=<fidx>:<pos> | pd=-
 *   zx <0|1>              set file.zero_excluded
 *   zprobe <pfn>          one-page MACHPHYS read      > zprobe pd=<fidx>:<pos> | zero | <status>
 *
 * Link with -Wl,--wrap=_kdumpfile_priv_fcache_pread,--wrap=_kdumpfile_priv_flatmap_pread_flat
 * Buffers are allocated at their exact size so that ASan sees any overrun.
 */
#include <fcntl.h>
#include <unistd.h>
#include "src/kdumpfile/kdumpfile-priv.h"
#include "hcommon.h"

/* ---- call log of the cross-TU file reads ---- */
static int depth, have_pd; static unsigned pd_fidx; static long long pd_pos;
kdump_status __real__kdumpfile_priv_fcache_pread(struct fcache *, void *, size_t, unsigned, off_t);
kdump_status __real__kdumpfile_priv_flatmap_pread_flat(struct flattened_map *, void *, size_t, unsigned, off_t);
static void note(size_t len, unsigned fidx, off_t pos)
{
	if (!depth && !have_pd && len == 24) { have_pd = 1; pd_fidx = fidx; pd_pos = pos; }
}
kdump_status __wrap__kdumpfile_priv_fcache_pread(struct fcache *fc, void *buf, size_t len, unsigned fidx, off_t pos)
{
	kdump_status r;
	note(len, fidx, pos);
	++depth; r = __real__kdumpfile_priv_fcache_pread(fc, buf, len, fidx, pos); --depth;
	return r;
}
kdump_status __wrap__kdumpfile_priv_flatmap_pread_flat(struct flattened_map *m, void *buf, size_t len, unsigned fidx, off_t pos)
{
	kdump_status r;
	note(len, fidx, pos);
	++depth; r = __real__kdumpfile_priv_flatmap_pread_flat(m, buf, len, fidx, pos); --depth;
	return r;
}

#define MAXF 16
static kdump_ctx_t *ctx;
static int fds[MAXF], nfds;
static struct flattened_map *fmap;	/* owned by ctx->shared once attached */

static void drop(void)
{
	int i;
	if (ctx) kdump_free(ctx);
	for (i = 0; i < nfds; ++i) close(fds[i]);
	ctx = NULL; nfds = 0; fmap = NULL;
}

int main(void)
{
	static char line[1 << 16];
	setvbuf(stdout, NULL, _IOLBF, 0);
	while (fgets(line, sizeof line, stdin)) {
		char path[600]; uint64_t a, b;
		line[strcspn(line, "\n")] = 0;
		if (sscanf(line, "fopen %599s", path) == 1) {
			kdump_status st;
			drop();
			ctx = kdump_new();
			fds[0] = open(path, O_RDONLY); nfds = 1;
			ctx->shared->fcache = fcache_new(1, fds, 16, 10);
			fmap = flatmap_alloc(1);
			ctx->shared->flatmap = fmap;
			st = flatmap_init(fmap, ctx);
			printf("> fopen %s", kstatus_name(st));
			if (st == KDUMP_OK && fmap->fmap[0].map) {
				const addrxlat_map_t *m = fmap->fmap[0].map;
				size_t n = addrxlat_map_len(m), i; long best;
				const addrxlat_range_t *r = addrxlat_map_ranges(m);
				long maxm = -1;
				printf(" flat map %zu", n);
				for (i = 0; i < n; ++i) {
					printf(" %" PRIu64 ":%ld", (uint64_t)r[i].endoff, (long)r[i].meth);
					if ((long)r[i].meth > maxm) maxm = r[i].meth;
				}
				printf(" offs");
				for (best = 0; best <= maxm; ++best) {
					for (i = 0; i < n; ++i) if ((long)r[i].meth == best) break;
					if (i < n) printf(" %ld=%lld", best, (long long)fmap->fmap[0].offs[best]);
				}
			} else if (st == KDUMP_OK)
				printf(" plain");
			else
				printf(" -");
			printf("%s\n", (st != KDUMP_OK && !*kdump_get_err(ctx)) ? " C16:empty-message" : "");
			if (st != KDUMP_OK) fmap = NULL;
		} else if (sscanf(line, "pread %" SCNu64 " %" SCNu64, &a, &b) == 2) {
			unsigned char *buf; kdump_status st;
			if (!fmap || !fmap->fmap[0].map) { puts("> pread no-map"); continue; }
			buf = malloc(b ? b : 1);
			memset(buf, 0xA5, b ? b : 1);
			st = flatmap_pread_flat(fmap, buf, b, 0, a);
			printf("> pread %s %" PRIu64 "\n", kstatus_name(st), st == KDUMP_OK ? fnv(buf, b) : 0);
			free(buf);
		} else if (sscanf(line, "chunk %" SCNu64 " %" SCNu64, &a, &b) == 2) {
			struct fcache_chunk fch; kdump_status st;
			if (!fmap || !fmap->fmap[0].map) { puts("> chunk no-map"); continue; }
			memset(&fch, 0, sizeof fch);
			st = flatmap_get_chunk_flat(fmap, &fch, b, 0, a);
			printf("> chunk %s %" PRIu64 "\n", kstatus_name(st), st == KDUMP_OK ? fnv(fch.data, b) : 0);
			if (st == KDUMP_OK) fcache_put_chunk(&fch);
		} else if (!strncmp(line, "sopen ", 6)) {
			char *p = line + 6; int i, n; kdump_status st;
			drop();
			n = strtol(p, &p, 10);
			for (i = 0; i < n && i < MAXF; ++i) {
				size_t l;
				while (*p == ' ') ++p;
				l = strcspn(p, " ");
				memcpy(path, p, l); path[l] = 0; p += l;
				fds[i] = open(path, O_RDONLY);
			}
			nfds = n;
			ctx = kdump_new();
			st = kdump_open_fdset(ctx, nfds, fds);
			printf("> sopen %s\n", kstatus_name(st));
		} else if (sscanf(line, "tprobe %" SCNu64, &a) == 1) {
			size_t n = get_page_size(ctx);
			unsigned char *buf = malloc(n);
			have_pd = 0;
			kdump_read(ctx, KDUMP_MACHPHYSADDR, a * n, buf, &n);
			if (have_pd) printf("> tprobe pd=%u:%lld\n", pd_fidx, pd_pos);
			else puts("> tprobe pd=-");
			free(buf);
		} else if (sscanf(line, "zx %" SCNu64, &a) == 1) {
			kdump_attr_t at; at.type = KDUMP_NUMBER; at.val.number = a;
			if (kdump_set_attr(ctx, "file.zero_excluded", &at) != KDUMP_OK) printf("> zx failed %s\n", kdump_get_err(ctx));
		} else if (sscanf(line, "zprobe %" SCNu64, &a) == 1) {
			/* one-page read with the option as set by `zx`: where does the content come from? */
			size_t n = get_page_size(ctx), i;
			unsigned char *buf = malloc(n);
			kdump_status st;
			have_pd = 0;
			memset(buf, 0xA5, n);
			st = kdump_read(ctx, KDUMP_MACHPHYSADDR, a * n, buf, &n);
			if (have_pd) printf("> zprobe pd=%u:%lld\n", pd_fidx, pd_pos);
			else if (st == KDUMP_OK) {
				for (i = 0; i < n && !buf[i]; ++i) ;
				printf("> zprobe %s\n", i == n && n == get_page_size(ctx) ? "zero" : "ok-but-not-zero");
			} else printf("> zprobe %s%s\n", kstatus_name(st), *kdump_get_err(ctx) ? "" : " C16:empty-message");
			free(buf);
		} else if (!strncmp(line, "split", 5) || !strncmp(line, "sfile ", 6) || !strncmp(line, "path ", 5)) {
			;
		} else
			puts("> bad-op");
	}
	drop();
	return 0;
}
