"""C17, Python layer: a Context object created from an existing C context stacks a callback layer whose
cb_* methods are the pass-through next_cb_* methods.  One line per observation:
    <hook> <key> <layers> -> <outcome>
The outcomes through 1, 2 and 3 pass-through layers must be identical, and equal to what the bottom
layer's method gives when that is a value or an exception."""
import sys
import addrxlat


class MyErr(Exception):
    pass


HOOKS1 = ("reg_value", "sym_value", "sym_sizeof", "num_value")


def act(kind, key):
    if kind == "val":
        return (sum(key.encode()) * 0x10001 + len(key)) | 1
    if kind == "zero":
        return 0
    if kind == "big":
        return 0xffffffffffffffff
    if kind == "none":
        return None
    if kind == "myerr":
        raise MyErr("my error for " + key)
    if kind == "key":
        raise KeyError(key)
    if kind == "nodata":
        raise addrxlat.NoDataError("no data for " + key)
    if kind == "notimpl":
        raise addrxlat.NotImplementedError("not implemented: " + key)
    if kind == "str":
        return "not a number"
    if kind.startswith("sc"):
        # any status, as a C implementation below a Python layer may return it: libaddrxlat's own codes, codes it does not
        # know, and negative ones (ADDRXLAT_ERR_CUSTOM_BASE downwards: libkdumpfile hands its own kdump_status through
        # libaddrxlat as -status)
        raise addrxlat.get_exception(int(kind[2:].replace("m", "-")), "status %s for %s" % (kind[2:], key))
    raise AssertionError(kind)


STATUSES = (1, 2, 3, 4, 5, 6, 7, 100, 0x7fffffff, -2, -3, -4, -5, -6, -7, -8, -9, -10, -1000, -0x7fffffff)
KINDS = ("val", "zero", "big", "none", "myerr", "key", "nodata", "notimpl", "str") + tuple(
    "sc" + str(n).replace("-", "m") for n in STATUSES)


class Base(addrxlat.Context):
    def cb_reg_value(self, name): return act(name.split(":")[0], "reg_value/" + name)
    def cb_sym_value(self, name): return act(name.split(":")[0], "sym_value/" + name)
    def cb_sym_sizeof(self, name): return act(name.split(":")[0], "sym_sizeof/" + name)
    def cb_num_value(self, name): return act(name.split(":")[0], "num_value/" + name)
    def cb_sym_offsetof(self, obj, elem): return act(obj.split(":")[0], "sym_offsetof/" + obj + "." + elem)
    def cb_read_caps(self): return addrxlat.CAPS(addrxlat.KVADDR) | addrxlat.CAPS(addrxlat.MACHPHYSADDR)
    def cb_get_page(self, addr):
        kind = KINDS[(addr.addr >> 12) % len(KINDS)]
        if kind in ("val", "zero", "big"):
            return (bytearray(((addr.addr >> 12) + i) & 0xff for i in range(64)), addrxlat.LITTLE_ENDIAN)
        return act(kind, "get_page/%x" % addr.addr)


def outcome(f, *a):
    try:
        r = f(*a)
    except BaseException as e:
        return "exc %s %r" % (type(e).__name__, tuple(str(x) for x in e.args))
    if isinstance(r, tuple):
        return "val (%s)" % ", ".join(x.hex() if isinstance(x, (bytes, bytearray)) else repr(x) for x in r)
    return "val %r" % (r,)


def with_layers(ctx, depth, fn):
    """fn(top) where top is a Context object `depth` pass-through layers above ctx: a custom translation
    method's first-step callback receives a Step made from the C step, whose .ctx is a new Context object
    (one more callback layer) on the same C context"""
    if depth == 0:
        return fn(ctx)
    res = []

    def first_step(step, addr):
        res.append(with_layers(step.ctx, depth - 1, fn))
        step.base = addrxlat.FullAddress(addrxlat.NOADDR, 0xabcdef)
        step.idx = (addr & 0xff, addr >> 8)
        step.remain = 2

    def next_step(step):
        step.base.addr = 0x123456 + step.idx[1]
        step.elemsz = 0x100

    meth = addrxlat.CustomMethod()
    meth.target_as = addrxlat.KPHYSADDR
    meth.cb_first_step = first_step
    meth.cb_next_step = next_step
    sys_ = addrxlat.System()
    map_ = addrxlat.Map()
    sys_.set_meth(addrxlat.SYS_METH_CUSTOM, meth)
    map_.set(0, addrxlat.Range(0xffff, addrxlat.SYS_METH_CUSTOM))
    sys_.set_map(addrxlat.SYS_MAP_KV_PHYS, map_)
    addr = addrxlat.FullAddress(addrxlat.KVADDR, 0x2300 + depth)      # distinct per nesting level (same address in flight = recursion)
    addr.conv(addrxlat.KPHYSADDR, ctx, sys_)
    if len(res) != 1:
        raise AssertionError("first-step callback ran %d times" % len(res))
    return res[0]


def memarr_conv(ctx, base):
    meth = addrxlat.MemoryArrayMethod()
    meth.target_as = addrxlat.KPHYSADDR
    meth.base = addrxlat.FullAddress(addrxlat.MACHPHYSADDR, base)
    meth.shift = 12
    meth.elemsz = 8
    meth.valsz = 8
    sys_ = addrxlat.System()
    map_ = addrxlat.Map()
    sys_.set_meth(addrxlat.SYS_METH_CUSTOM + 1, meth)
    map_.set(0, addrxlat.Range(0xffffff, addrxlat.SYS_METH_CUSTOM + 1))
    sys_.set_map(addrxlat.SYS_MAP_KV_PHYS, map_)
    fa = addrxlat.FullAddress(addrxlat.KVADDR, 0x3123)
    fa.conv(addrxlat.KPHYSADDR, ctx, sys_)
    return "%x" % fa.addr


def observe(n):
    def fn(obj):
        out = []
        out.append("layer-is-new - %d -> %s" % (n, "val %r" % (n == 0 or type(obj) is addrxlat.Context)))
        for kind in KINDS:
            for h in HOOKS1:
                key = "%s:%s" % (kind, h)
                out.append("%s %s %d -> %s" % (h, key, n, outcome(getattr(obj, "cb_" + h), key)))
            out.append("sym_offsetof %s:o.e %d -> %s" % (kind, n, outcome(obj.cb_sym_offsetof, kind + ":o", "e")))
        for pg in range(len(KINDS)):
            fa = addrxlat.FullAddress(addrxlat.MACHPHYSADDR, pg << 12)
            out.append("get_page %s:%x %d -> %s" % (KINDS[pg], pg << 12, n, outcome(obj.cb_get_page, fa)))
        # the same page fetches made by libaddrxlat itself (a C caller of the top record, which sees the status as a number):
        # a MEMARR look-up whose array lives in the page, through the context object under test
        for pg in range(len(KINDS)):
            out.append("memarr %s:%x %d -> %s" % (KINDS[pg], pg << 12, n, outcome(memarr_conv, obj, pg << 12)))
        out.append("read_caps - %d -> %s" % (n, outcome(obj.cb_read_caps)))
        return out
    return fn


def main():
    base = Base()
    for n in range(4):
        for l in with_layers(base, n, observe(n)):
            print(l)
        sys.stdout.flush()
    # the upper layers are gone again: the bottom layer must still work
    print("after-del sym_value 0 -> %s" % outcome(base.cb_sym_value, "val:x"))
    for l in with_layers(base, 1, observe(1)):
        print("again " + l)


main()
