/* Stream `read` (C12): the real kdump_read / kdump_read_string.
 * Protocol: lean/Driver/Read.lean.  `pg` and `miss` lines give the page oracle
 * to the model and are ignored here; `probe` discovers it. */
#include <fcntl.h>
#include <unistd.h>
#include "hcommon.h"
#include <libkdumpfile/addrxlat.h>
#include "alloc.h"

int main(void)
{
	static char line[1 << 16]; char path[800];
	kdump_ctx_t *ctx = NULL;
	int fd = -1;
	setvbuf(stdout, NULL, _IOLBF, 0);
	while (fgets(line, sizeof line, stdin)) {
		unsigned as, ps; uint64_t addr, len;
		if (sscanf(line, "open %799s %u", path, &ps) == 2) {
			kdump_status st;
			if (ctx) { kdump_free(ctx); close(fd); }
			ctx = kdump_new();
			fd = open(path, O_RDONLY);
			st = kdump_open_fd(ctx, fd);
			if (st != KDUMP_OK) { printf("> open-failed %s %s\n", kstatus_name(st), kdump_get_err(ctx)); }
			else if (!ps) {
				/* declared as a dump without a page size: say what the library thinks */
				kdump_attr_t at;
				st = kdump_get_attr(ctx, "arch.page_size", &at);
				printf("> nops %s\n", st == KDUMP_OK ? "set" : kstatus_name(st));
			}
		} else if (sscanf(line, "read %u %" SCNu64 " %" SCNu64, &as, &addr, &len) == 3) {
			size_t n = len, i;
			unsigned char *buf = __real_malloc(n + 64);
			kdump_status st;
			int dirty = 0;
			memset(buf, 0xA5, n + 64);
			st = kdump_read(ctx, as, addr, buf, &n);
			if (n <= len)
				for (i = n; i < len + 64; ++i) if (buf[i] != 0xA5) { dirty = 1; break; }
			printf("> %s %zu %" PRIu64 "%s%s\n", kstatus_name(st), n, n <= len ? fnv(buf, n) : 0,
			       dirty ? " DIRTY" : "", c16_monitor(ctx, st));
			__real_free(buf);
		} else if (sscanf(line, "str %u %" SCNu64, &as, &addr) == 2) {
			char *s = NULL;
			long live0 = alloc_live;
			kdump_status st = kdump_read_string(ctx, as, addr, &s);
			if (st == KDUMP_OK) {
				printf("> ok %zu %" PRIu64, strlen(s), fnv((unsigned char *)s, strlen(s)));
				__wrap_free(s);
			} else
				printf("> %s - -", kstatus_name(st));
			if (alloc_live != live0) printf(" LEAK=%ld", alloc_live - live0);
			printf("%s\n", c16_monitor(ctx, st));
		} else if (sscanf(line, "strf %u %" SCNu64 " %u", &as, &addr, &ps) == 3) {
			/* string read with the ps-th allocation of the call failing (environment fault, not modelled) */
			char *s = NULL;
			long live0 = alloc_live; unsigned long nf;
			kdump_status st;
			alloc_reset(); alloc_failed = 0; alloc_fail_at = ps;
			st = kdump_read_string(ctx, as, addr, &s);
			nf = alloc_failed; alloc_reset();
			if (st == KDUMP_OK) {
				printf("> ok %zu %" PRIu64, strlen(s), fnv((unsigned char *)s, strlen(s)));
				__wrap_free(s);
			} else
				printf("> %s - -", kstatus_name(st));
			if (alloc_live != live0) printf(" LEAK=%ld", alloc_live - live0);
			printf(" FAILED=%lu\n", nf);
		} else if (sscanf(line, "kphys_off %" SCNu64, &addr) == 1) {
			/* install KPHYSADDR -> MACHPHYSADDR = addr + off (a non-identity translation) */
			addrxlat_ctx_t *ax; addrxlat_sys_t *sys; addrxlat_meth_t m; addrxlat_map_t *map;
			addrxlat_range_t r = { ADDRXLAT_ADDR_MAX, ADDRXLAT_SYS_METH_KPHYS_MACHPHYS };
			unsigned char tmp[8]; size_t n = 8;
			kdump_attr_t vb; vb.type = KDUMP_NUMBER; vb.val.number = 48;
			kdump_set_attr(ctx, "addrxlat.default.virt_bits", &vb);  /* x86-64: 4-level paging */
			kdump_read(ctx, KDUMP_MACHPHYSADDR, 0, tmp, &n);      /* forces translation setup first */
			if (kdump_get_addrxlat(ctx, &ax, &sys) != KDUMP_OK) { printf("> xlat-failed %s\n", kdump_get_err(ctx)); continue; }
			memset(&m, 0, sizeof m);
			m.kind = ADDRXLAT_LINEAR; m.target_as = ADDRXLAT_MACHPHYSADDR; m.param.linear.off = addr;
			addrxlat_sys_set_meth(sys, ADDRXLAT_SYS_METH_KPHYS_MACHPHYS, &m);
			map = addrxlat_map_new();
			addrxlat_map_set(map, 0, &r);
			addrxlat_sys_set_map(sys, ADDRXLAT_SYS_MAP_KPHYS_MACHPHYS, map);
			addrxlat_sys_decref(sys); addrxlat_ctx_decref(ax);
		} else if (sscanf(line, "setps %u", &ps) == 1) {
			/* the page size becomes known after the dump was opened without one */
			kdump_attr_t at; at.type = KDUMP_NUMBER; at.val.number = ps;
			kdump_status st = kdump_set_attr(ctx, "arch.page_size", &at);
			printf("> setps %s%s\n", kstatus_name(st), c16_monitor(ctx, st));
		} else if (sscanf(line, "cache %u", &as) == 1) {
			kdump_attr_t at; at.type = KDUMP_NUMBER; at.val.number = as;
			if (kdump_set_attr(ctx, "cache.size", &at) != KDUMP_OK) puts("> cache-failed");
		} else if (sscanf(line, "probe %u %" SCNu64 " %u", &as, &addr, &ps) == 3) {
			/* oracle discovery: one whole page */
			size_t n = ps, i;
			unsigned char *buf = __real_malloc(n);
			kdump_status st = kdump_read(ctx, as, addr, buf, &n);
			printf("> %s ", kstatus_name(st));
			if (st == KDUMP_OK) for (i = 0; i < n; ++i) printf("%02x", buf[i]);
			else printf("-");
			printf("%s\n", c16_monitor(ctx, st));
			__real_free(buf);
		} else if (!strncmp(line, "pg ", 3) || !strncmp(line, "miss", 4)) {
			;
		} else
			puts("> bad-op");
	}
	if (ctx) { kdump_free(ctx); close(fd); }
	return 0;
}
