/* Stream `hist`, lines `fcfile` / `fcget` (C04 section 5: mmap versus read): the real fcache_get on a temporary file.
 *   fcfile <hex bytes | ->            the file's contents (any size, also empty)
 *   fcget <policy 0..3> <pos> <n>     > fcget data <hex of the first n bytes at pos> <policy afterwards> | > fcget refused <policy afterwards>
 * page size 4096, mmap window 8192 (order 1).  n <= 4096 - pos % 4096. */
#include <stdio.h>
#include <stdlib.h>
#include <string.h>
#include <unistd.h>
#include <inttypes.h>
#include "kdumpfile-priv.h"

int main(void)
{
	static char line[1 << 17];
	struct fcache *fc = NULL;
	int fd = -1;
	setvbuf(stdout, NULL, _IOLBF, 0);
	while (fgets(line, sizeof line, stdin)) {
		unsigned pol; uint64_t pos, n;
		line[strcspn(line, "\n")] = 0;
		if (!strncmp(line, "fcfile ", 7)) {
			char tmpl[] = "/var/tmp/kdf-fcget.XXXXXX";
			const char *h = line + 7; size_t l = strcmp(h, "-") ? strlen(h) / 2 : 0, i;
			unsigned char *buf = malloc(l ? l : 1);
			if (fc) { fcache_decref(fc); close(fd); }
			for (i = 0; i < l; ++i) { unsigned v; sscanf(h + 2 * i, "%2x", &v); buf[i] = v; }
			fd = mkstemp(tmpl); unlink(tmpl);
			if (l && write(fd, buf, l) != (ssize_t)l) { puts("> fcfile write-failed"); return 1; }
			free(buf);
			fc = fcache_new(1, &fd, 8, 1);
		} else if (sscanf(line, "fcget %u %" SCNu64 " %" SCNu64, &pol, &pos, &n) == 3 && fc) {
			struct fcache_entry fce;
			kdump_status st;
			fc->mmap_policy.number = pol;
			st = fcache_get(fc, &fce, 0, pos);
			if (st == KDUMP_OK) {
				uint64_t i;
				printf("> fcget data ");
				if (fce.len < n) printf("SHORT:%zu ", fce.len);
				for (i = 0; i < n && i < fce.len; ++i) printf("%02x", ((unsigned char *)fce.data)[i]);
				printf(" %u\n", (unsigned)fc->mmap_policy.number);
				fcache_put(&fce);
			} else
				printf("> fcget refused %u\n", (unsigned)fc->mmap_policy.number);
		} else
			puts("> bad-op");
	}
	if (fc) { fcache_decref(fc); close(fd); }
	return 0;
}
