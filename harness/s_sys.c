/* Stream `sys` (C09): real addrxlat_op / addrxlat_fulladdr_conv on a whole
 * translation system (five maps, sixteen method slots) over a pure-function
 * memory served through the get_page / read_caps callbacks.
 * Protocol: lean/Driver/Sys.lean. */
#include "hcommon.h"
#include <libkdumpfile/addrxlat.h>
#include "addrxlat-priv.h"	/* ctx->inflight (nesting depth monitor only) */

/* mirror of `struct inflight` of sys.c: only `next` is followed */
struct inflight { addrxlat_fulladdr_t faddr; const void *chain; struct inflight *next; };

static uint64_t seed; static uint32_t and_[2], or_[2]; static int be;
struct ovr { int as; uint64_t a; uint32_t v; };
static struct ovr ovr[8192]; static unsigned novr;
struct badpg { int as; uint64_t a; int st; };	/* st: status, or 1000 = OK with ptr NULL */
static struct badpg bad[256]; static unsigned nbad;
static unsigned long rcaps;
static unsigned maxdepth, npages, ncalls;
static addrxlat_fulladdr_t seen;
static addrxlat_status cbst;

static uint32_t mix(uint64_t as, uint64_t a4)
{
	uint64_t z = seed + 0x9E3779B97F4A7C15ULL * (a4 / 4 + 1) + as * 0xD1B54A32D192ED03ULL;
	z = (z ^ (z >> 30)) * 0xBF58476D1CE4E5B9ULL;
	z = (z ^ (z >> 27)) * 0x94D049BB133111EBULL;
	z ^= z >> 31;
	return (uint32_t)z;
}
static uint32_t cell(int as, uint64_t a4)
{
	unsigned i;
	for (i = novr; i-- > 0; )
		if (ovr[i].as == as && ovr[i].a == a4) return ovr[i].v;
	i = (a4 / 4) % 2;
	return (mix(as, a4) & and_[i]) | or_[i];
}
static unsigned depth_now(addrxlat_ctx_t *ctx)
{
	unsigned n = 0; struct inflight *p;
	for (p = ctx->inflight; p && n < 100000; p = p->next) ++n;
	return n;
}
static void put_page(const addrxlat_buffer_t *buf) { free((void *)buf->ptr); }
static addrxlat_status get_page(const addrxlat_cb_t *cb, addrxlat_buffer_t *buf)
{
	unsigned char *p; unsigned i;
	++npages;
	if ((int)buf->addr.as < 0 || buf->addr.as > 2)
		return addrxlat_ctx_err(cb->priv, ADDRXLAT_ERR_NODATA, "no such address space");
	buf->addr.addr &= ~(addrxlat_addr_t)0xfff;
	for (i = nbad; i-- > 0; )
		if (bad[i].as == (int)buf->addr.as && bad[i].a == buf->addr.addr) {
			if (bad[i].st == 1000) {	/* success without data */
				buf->size = 4096; buf->byte_order = ADDRXLAT_HOST_ENDIAN;
				return ADDRXLAT_OK;
			}
			return addrxlat_ctx_err(cb->priv, bad[i].st, "page not available");
		}
	p = malloc(4096);
	for (i = 0; i < 1024; ++i) {
		uint32_t v = cell(buf->addr.as, buf->addr.addr + 4 * i);
		if (be) { p[4*i] = v >> 24; p[4*i+1] = v >> 16; p[4*i+2] = v >> 8; p[4*i+3] = v; }
		else { p[4*i] = v; p[4*i+1] = v >> 8; p[4*i+2] = v >> 16; p[4*i+3] = v >> 24; }
	}
	buf->ptr = p; buf->size = 4096;
	buf->byte_order = be ? ADDRXLAT_BIG_ENDIAN : ADDRXLAT_LITTLE_ENDIAN;
	buf->put_page = put_page;
	return ADDRXLAT_OK;
}
static unsigned long read_caps(const addrxlat_cb_t *cb)
{
	unsigned d = depth_now(cb->priv);
	if (d > maxdepth) maxdepth = d;
	return rcaps;
}
static addrxlat_status the_op(void *data, const addrxlat_fulladdr_t *fa)
{
	++ncalls; seen = *fa;
	return cbst;
}

static addrxlat_ctx_t *ctx; static addrxlat_cb_t *cb; static addrxlat_sys_t *sys;
static void new_ctx(void)
{
	if (ctx) addrxlat_ctx_decref(ctx);
	ctx = addrxlat_ctx_new(); cb = addrxlat_ctx_add_cb(ctx);
	cb->priv = ctx; cb->get_page = get_page; cb->read_caps = read_caps;
}
static addrxlat_status status_of(const char *s)
{
	if (!strcmp(s, "ok")) return ADDRXLAT_OK;
	if (!strcmp(s, "notimpl")) return ADDRXLAT_ERR_NOTIMPL;
	if (!strcmp(s, "notpresent")) return ADDRXLAT_ERR_NOTPRESENT;
	if (!strcmp(s, "invalid")) return ADDRXLAT_ERR_INVALID;
	if (!strcmp(s, "nomem")) return ADDRXLAT_ERR_NOMEM;
	if (!strcmp(s, "nodata")) return ADDRXLAT_ERR_NODATA;
	return ADDRXLAT_ERR_NOMETH;
}
static addrxlat_lookup_elem_t tbls[ADDRXLAT_SYS_METH_NUM][64];

int main(void)
{
	static char line[65536];
	int nosys = 0;
	sys = addrxlat_sys_new();
	new_ctx();
	setvbuf(stdout, NULL, _IOLBF, 0);
	while (fgets(line, sizeof line, stdin)) {
		char fmt[64], fields[256], tb[4096], sname[32]; int t, ras, tas, slot; uint64_t a, b; unsigned sh, es, vs, bb, n;
		unsigned long a0, o0, a1, o1, caps;
		addrxlat_meth_t meth;
		memset(&meth, 0, sizeof meth);
		if (sscanf(line, "mem %" SCNu64 " %lu %lu %lu %lu %u", &a, &a0, &o0, &a1, &o1, &bb) == 6) {
			seed = a; and_[0] = a0; or_[0] = o0; and_[1] = a1; or_[1] = o1; be = bb;
			new_ctx();
		} else if (sscanf(line, "ovr %d %" SCNu64 " %" SCNu64, &t, &a, &b) == 3) {
			if (novr < 8192) { ovr[novr].as = t; ovr[novr].a = a; ovr[novr].v = b; ++novr; }
			new_ctx();
		} else if (sscanf(line, "bad %d %" SCNu64 " %31s", &t, &a, sname) == 3) {
			if (nbad < 256) { bad[nbad].as = t; bad[nbad].a = a; bad[nbad].st = status_of(sname); ++nbad; }
			new_ctx();
		} else if (sscanf(line, "null %d %" SCNu64, &t, &a) == 2) {
			if (nbad < 256) { bad[nbad].as = t; bad[nbad].a = a; bad[nbad].st = 1000; ++nbad; }
			new_ctx();
		} else if (!strncmp(line, "clr", 3)) {
			novr = 0; nbad = 0;
			new_ctx();
		} else if (!strncmp(line, "newsys", 6)) {
			addrxlat_sys_decref(sys); sys = addrxlat_sys_new(); nosys = 0;
			new_ctx();
		} else if (sscanf(line, "rcaps %lu", &caps) == 1) {
			rcaps = caps;
		} else if (sscanf(line, "nosys %d", &t) == 1) {
			nosys = t;
		} else if (sscanf(line, "meth %d pgt %63s %d %d %" SCNu64 " %" SCNu64 " %255s", &slot, fmt, &t, &ras, &a, &b, fields) == 7) {
			char *p = fields;
			n = 0;
			meth.kind = ADDRXLAT_PGT; meth.target_as = t;
			meth.param.pgt.root.as = ras; meth.param.pgt.root.addr = a; meth.param.pgt.pte_mask = b;
			meth.param.pgt.pf.pte_format = addrxlat_pte_format(fmt);
			while (*p && n < ADDRXLAT_FIELDS_MAX) { meth.param.pgt.pf.fieldsz[n++] = strtoul(p, &p, 10); if (*p == ',') ++p; }
			meth.param.pgt.pf.nfields = n;
			addrxlat_sys_set_meth(sys, slot, &meth);
		} else if (sscanf(line, "meth %d linear %d %" SCNu64, &slot, &t, &a) == 3) {
			meth.kind = ADDRXLAT_LINEAR; meth.target_as = t; meth.param.linear.off = a;
			addrxlat_sys_set_meth(sys, slot, &meth);
		} else if (sscanf(line, "meth %d lookup %d %" SCNu64 " %4095s", &slot, &t, &a, tb) >= 3) {
			char *p = tb;
			int got = sscanf(line, "meth %d lookup %d %" SCNu64 " %4095s", &slot, &t, &a, tb);
			n = 0;
			meth.kind = ADDRXLAT_LOOKUP; meth.target_as = t; meth.param.lookup.endoff = a;
			if (got == 4) while (*p && n < 64) {
				tbls[slot][n].orig = strtoull(p, &p, 10); if (*p == ':') ++p;
				tbls[slot][n].dest = strtoull(p, &p, 10); if (*p == ',') ++p; ++n;
			}
			meth.param.lookup.nelem = n; meth.param.lookup.tbl = tbls[slot];
			addrxlat_sys_set_meth(sys, slot, &meth);
		} else if (sscanf(line, "meth %d memarr %d %d %" SCNu64 " %u %u %u", &slot, &t, &ras, &a, &sh, &es, &vs) == 7) {
			meth.kind = ADDRXLAT_MEMARR; meth.target_as = t;
			meth.param.memarr.base.as = ras; meth.param.memarr.base.addr = a;
			meth.param.memarr.shift = sh; meth.param.memarr.elemsz = es; meth.param.memarr.valsz = vs;
			addrxlat_sys_set_meth(sys, slot, &meth);
		} else if (sscanf(line, "meth %d nometh", &slot) == 1 && strstr(line, "nometh")) {
			meth.kind = ADDRXLAT_NOMETH; meth.target_as = ADDRXLAT_NOADDR;
			addrxlat_sys_set_meth(sys, slot, &meth);
		} else if (sscanf(line, "map %d %4095s", &slot, tb) == 2) {
			/* map <idx> none | e:m,e:m,...  (a tiling from address 0) */
			if (!strcmp(tb, "none")) {
				addrxlat_sys_set_map(sys, slot, NULL);
				printf("> map %d none\n", slot);
			} else {
				addrxlat_map_t *map = addrxlat_map_new(); char *p = tb; uint64_t start = 0; size_t i, len;
				const addrxlat_range_t *r; int bad_ = 0;
				while (*p) {
					addrxlat_range_t rg;
					rg.endoff = strtoull(p, &p, 10); if (*p == ':') ++p;
					rg.meth = strtol(p, &p, 10); if (*p == ',') ++p;
					if (addrxlat_map_set(map, start, &rg) != ADDRXLAT_OK) bad_ = 1;
					start += rg.endoff + 1;
				}
				addrxlat_sys_set_map(sys, slot, map);
				len = addrxlat_map_len(map); r = addrxlat_map_ranges(map);
				printf("> map %d %s", slot, bad_ ? "FAILED " : "");
				for (i = 0; i < len; ++i) printf("%s%" PRIu64 ":%d", i ? "," : "", (uint64_t)r[i].endoff, (int)r[i].meth);
				putchar('\n');
			}
		} else if (sscanf(line, "op %lu %d %" SCNu64 " %31s", &caps, &t, &a, sname) == 4) {
			addrxlat_op_ctl_t ctl; addrxlat_fulladdr_t fa; addrxlat_status st;
			ctl.ctx = ctx; ctl.sys = nosys ? NULL : sys; ctl.op = the_op; ctl.data = NULL; ctl.caps = caps;
			fa.as = t; fa.addr = a; cbst = status_of(sname);
			maxdepth = npages = ncalls = 0;
			st = addrxlat_op(&ctl, &fa);
			printf("> op %s calls=%u", xstatus_name(st), ncalls);
			if (ncalls) printf(" %d %" PRIu64, (int)seen.as, (uint64_t)seen.addr);
			printf(" | depth=%u pages=%u left=%u\n", maxdepth, npages, depth_now(ctx));
		} else if (sscanf(line, "conv %d %d %" SCNu64, &tas, &t, &a) == 3) {
			addrxlat_fulladdr_t fa; addrxlat_status st;
			fa.as = t; fa.addr = a;
			maxdepth = npages = 0;
			st = addrxlat_fulladdr_conv(&fa, tas, ctx, nosys ? NULL : sys);
			printf("> conv %s %d %" PRIu64 " | depth=%u pages=%u left=%u\n", xstatus_name(st), (int)fa.as, (uint64_t)fa.addr,
			       maxdepth, npages, depth_now(ctx));
		} else
			puts("> bad-op");
	}
	return 0;
}
