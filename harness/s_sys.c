/* Stream `sys` (C09): real addrxlat_op / addrxlat_fulladdr_conv on a whole
 * translation system (five maps, sixteen method slots) over a pure-function
 * memory served through the get_page / read_caps callbacks.
 * Protocol: lean/Driver/Sys.lean. */
#include "hcommon.h"
#include <libkdumpfile/addrxlat.h>
#include "addrxlat-priv.h"	/* ctx->inflight (nesting depth monitor only) */

/* mirror of `struct inflight` of sys.c: only `next` is followed */
struct inflight { addrxlat_fulladdr_t faddr; const void *chain; struct inflight *next; };

static uint64_t seed; static uint32_t and_[2], or_[2]; static int be;
struct ovr { int as; uint64_t a; uint32_t v; };
static struct ovr ovr[8192]; static unsigned novr;
struct badpg { int as; uint64_t a; int st; };	/* st: status, or 1000 = OK with ptr NULL */
static struct badpg bad[256]; static unsigned nbad;
static unsigned long rcaps;
static unsigned maxdepth, npages, ncalls;
static unsigned gp_depth, gp_maxdepth;		/* get-page callbacks in progress / deepest nesting */
#define GP_RUNAWAY 200				/* far above any limit the library may enforce */
/* re-entrant get-page callback: before page <pfn> is delivered the 64-bit object at reent_as:<addr> is read
 * through the same context (think of a frame table that lives in the memory it describes) */
struct reent { uint64_t pfn, addr; };
static struct reent reent[64]; static unsigned nreent; static int reent_as;
static int reent_sys;		/* the callback's own read may use the translation system (read64 -> addrxlat_op) */
static const char *curline = "";
static addrxlat_fulladdr_t seen;
static addrxlat_status cbst;

static uint32_t mix(uint64_t as, uint64_t a4)
{
	uint64_t z = seed + 0x9E3779B97F4A7C15ULL * (a4 / 4 + 1) + as * 0xD1B54A32D192ED03ULL;
	z = (z ^ (z >> 30)) * 0xBF58476D1CE4E5B9ULL;
	z = (z ^ (z >> 27)) * 0x94D049BB133111EBULL;
	z ^= z >> 31;
	return (uint32_t)z;
}
static uint32_t cell(int as, uint64_t a4)
{
	unsigned i;
	for (i = novr; i-- > 0; )
		if (ovr[i].as == as && ovr[i].a == a4) return ovr[i].v;
	i = (a4 / 4) % 2;
	return (mix(as, a4) & and_[i]) | or_[i];
}
static unsigned depth_now(addrxlat_ctx_t *ctx)
{
	unsigned n = 0; struct inflight *p;
	for (p = ctx->inflight; p && n < 100000; p = p->next) ++n;
	return n;
}
/* give-back ledger of the callback: buffers delivered (status OK) / put_page calls; `lost` accumulates the
 * difference over the contexts that were destroyed (cleanup_cache has run) since the last `newctx` line */
static unsigned delivered, returned; static long lost;
static void put_page(const addrxlat_buffer_t *buf) { ++returned; free((void *)buf->ptr); }
static addrxlat_sys_t *sys;
static addrxlat_status get_page(const addrxlat_cb_t *cb, addrxlat_buffer_t *buf)
{
	/* remember what was asked for: a nested read may recycle the very slot `buf` points into */
	const addrxlat_fulladdr_t want = buf->addr;
	const addrxlat_addr_t page = want.addr & ~(addrxlat_addr_t)0xfff;
	unsigned char *p; unsigned i;
	++npages;
	if (++gp_depth > gp_maxdepth) gp_maxdepth = gp_depth;
	if (gp_depth > GP_RUNAWAY) {
		/* unbounded recursion: say so while there is stack left */
		printf("> RUNAWAY get_page nested %u deep for %d:%" PRIu64 " during `%s`\n", gp_depth, (int)want.as,
		       (uint64_t)want.addr, curline);
		fflush(stdout);
		_exit(3);
	}
	if ((int)want.as < 0 || want.as > 2) {
		--gp_depth;
		return addrxlat_ctx_err(cb->priv, ADDRXLAT_ERR_NODATA, "no such address space");
	}
	for (i = 0; i < nreent; ++i)
		if (reent[i].pfn == want.addr >> 12) {
			addrxlat_meth_t m; addrxlat_step_t step; addrxlat_status st;
			memset(&m, 0, sizeof m); memset(&step, 0, sizeof step);
			m.kind = ADDRXLAT_MEMARR; m.target_as = ADDRXLAT_KPHYSADDR;
			m.param.memarr.base.as = reent_as; m.param.memarr.base.addr = reent[i].addr;
			m.param.memarr.shift = 0; m.param.memarr.elemsz = 8; m.param.memarr.valsz = 8;
			step.ctx = cb->priv; step.sys = reent_sys ? sys : NULL; step.meth = &m; step.base.addr = 0;
			st = addrxlat_walk(&step);
			if (st != ADDRXLAT_OK) {
				--gp_depth;
				return addrxlat_ctx_err(cb->priv, st, "frame table entry not readable");
			}
			break;
		}
	for (i = nbad; i-- > 0; )
		if (bad[i].as == (int)want.as && bad[i].a == page) {
			--gp_depth;
			if (bad[i].st == 1000) {	/* success without data */
				buf->addr.as = want.as; buf->addr.addr = page; buf->ptr = NULL;
				buf->size = 4096; buf->byte_order = ADDRXLAT_HOST_ENDIAN;
				buf->put_page = put_page; ++delivered;
				return ADDRXLAT_OK;
			}
			return addrxlat_ctx_err(cb->priv, bad[i].st, "page not available");
		}
	p = malloc(4096);
	for (i = 0; i < 1024; ++i) {
		uint32_t v = cell(want.as, page + 4 * i);
		if (be) { p[4*i] = v >> 24; p[4*i+1] = v >> 16; p[4*i+2] = v >> 8; p[4*i+3] = v; }
		else { p[4*i] = v; p[4*i+1] = v >> 8; p[4*i+2] = v >> 16; p[4*i+3] = v >> 24; }
	}
	buf->addr.as = want.as; buf->addr.addr = page;
	buf->ptr = p; buf->size = 4096;
	buf->byte_order = be ? ADDRXLAT_BIG_ENDIAN : ADDRXLAT_LITTLE_ENDIAN;
	buf->put_page = put_page; ++delivered;
	--gp_depth;
	return ADDRXLAT_OK;
}
static unsigned long read_caps(const addrxlat_cb_t *cb)
{
	unsigned d = depth_now(cb->priv);
	if (d > maxdepth) maxdepth = d;
	return rcaps;
}
static addrxlat_status the_op(void *data, const addrxlat_fulladdr_t *fa)
{
	++ncalls; seen = *fa;
	return cbst;
}

static addrxlat_ctx_t *ctx; static addrxlat_cb_t *cb;
static void new_ctx(void)
{
	if (ctx) {
		/* the last reference: cleanup_cache() gives back every page the cache still holds */
		addrxlat_ctx_decref(ctx);
		lost += (long)delivered - (long)returned;
		delivered = returned = 0;
	}
	ctx = addrxlat_ctx_new(); cb = addrxlat_ctx_add_cb(ctx);
	cb->priv = ctx; cb->get_page = get_page; cb->read_caps = read_caps;
}
static addrxlat_status status_of(const char *s)
{
	if (!strcmp(s, "ok")) return ADDRXLAT_OK;
	if (!strcmp(s, "notimpl")) return ADDRXLAT_ERR_NOTIMPL;
	if (!strcmp(s, "notpresent")) return ADDRXLAT_ERR_NOTPRESENT;
	if (!strcmp(s, "invalid")) return ADDRXLAT_ERR_INVALID;
	if (!strcmp(s, "nomem")) return ADDRXLAT_ERR_NOMEM;
	if (!strcmp(s, "nodata")) return ADDRXLAT_ERR_NODATA;
	return ADDRXLAT_ERR_NOMETH;
}
static addrxlat_lookup_elem_t tbls[ADDRXLAT_SYS_METH_NUM][64];

/* ADDRXLAT_CUSTOM methods: the callback decides by (addr & mask) which arm applies;
 * 'f': finishes the translation in the first step (remain = 0) in an address space of its own choice,
 * 's': leaves one linear level to the library (which then stores target_as), 'e': fails */
struct carm { int kind; int as; uint64_t off; addrxlat_status st; };
struct cust { uint64_t mask; struct carm hit, miss; };
static struct cust custs[ADDRXLAT_SYS_METH_NUM];
static addrxlat_status c_first(addrxlat_step_t *step, addrxlat_addr_t addr)
{
	const struct cust *c = step->meth->param.custom.data;
	const struct carm *a = (addr & c->mask) ? &c->hit : &c->miss;
	switch (a->kind) {
	case 'f':
		step->base.as = a->as; step->base.addr = addr + a->off; step->remain = 0; step->elemsz = 0;
		return ADDRXLAT_OK;
	case 's':
		step->base.as = a->as; step->base.addr = a->off; step->remain = 1; step->elemsz = 1; step->idx[0] = addr;
		return ADDRXLAT_OK;
	}
	return addrxlat_ctx_err(step->ctx, a->st, "custom method refuses the address");
}
static addrxlat_status c_next(addrxlat_step_t *step) { return ADDRXLAT_OK; }
static int parse_arm(const char *w, struct carm *a)
{
	char sn[32]; int as; uint64_t off;
	memset(a, 0, sizeof *a);
	if (sscanf(w, "f:%d:%" SCNu64, &as, &off) == 2) { a->kind = 'f'; a->as = as; a->off = off; return 1; }
	if (sscanf(w, "s:%d:%" SCNu64, &as, &off) == 2) { a->kind = 's'; a->as = as; a->off = off; return 1; }
	if (sscanf(w, "e:%31s", sn) == 1) { a->kind = 'e'; a->st = status_of(sn); if (a->st == ADDRXLAT_OK) a->st = ADDRXLAT_ERR_NOMETH; return 1; }
	return 0;
}

int main(void)
{
	static char line[65536];
	int nosys = 0;
	sys = addrxlat_sys_new();
	new_ctx();
	setvbuf(stdout, NULL, _IOLBF, 0);
	while (fgets(line, sizeof line, stdin)) {
		char fmt[64], fields[256], tb[4096], sname[32], w1[64], w2[64]; int t, ras, tas, slot; uint64_t a, b; unsigned sh, es, vs, bb, n;
		unsigned long a0, o0, a1, o1, caps;
		addrxlat_meth_t meth;
		memset(&meth, 0, sizeof meth);
		line[strcspn(line, "\n")] = 0; curline = line;
		if (sscanf(line, "mem %" SCNu64 " %lu %lu %lu %lu %u", &a, &a0, &o0, &a1, &o1, &bb) == 6) {
			seed = a; and_[0] = a0; or_[0] = o0; and_[1] = a1; or_[1] = o1; be = bb;
			new_ctx();
		} else if (sscanf(line, "ovr %d %" SCNu64 " %" SCNu64, &t, &a, &b) == 3) {
			if (novr < 8192) { ovr[novr].as = t; ovr[novr].a = a; ovr[novr].v = b; ++novr; }
			new_ctx();
		} else if (sscanf(line, "bad %d %" SCNu64 " %31s", &t, &a, sname) == 3) {
			if (nbad < 256) { bad[nbad].as = t; bad[nbad].a = a; bad[nbad].st = status_of(sname); ++nbad; }
			new_ctx();
		} else if (sscanf(line, "null %d %" SCNu64, &t, &a) == 2) {
			if (nbad < 256) { bad[nbad].as = t; bad[nbad].a = a; bad[nbad].st = 1000; ++nbad; }
			new_ctx();
		} else if (!strncmp(line, "clr", 3)) {
			novr = 0; nbad = 0; nreent = 0; reent_sys = 0;
			new_ctx();
		} else if (!strncmp(line, "newctx", 6)) {
			new_ctx();
			printf("> newctx lost=%ld\n", lost); lost = 0;
		} else if (!strncmp(line, "reent off", 9)) {
			nreent = 0;
		} else if (sscanf(line, "reentsys %d", &t) == 1) {
			reent_sys = t;
		} else if (sscanf(line, "reent %d %4095s", &t, tb) == 2) {
			char *p = tb;
			reent_as = t; nreent = 0;
			while (*p && nreent < 64) {
				reent[nreent].pfn = strtoull(p, &p, 10); if (*p == ':') ++p;
				reent[nreent].addr = strtoull(p, &p, 10); if (*p == ',') ++p; ++nreent;
			}
		} else if (sscanf(line, "rd %d %" SCNu64, &t, &a) == 2) {
			addrxlat_meth_t m; addrxlat_step_t step; addrxlat_status st; struct read_cache_slot *sl; unsigned i;
			memset(&m, 0, sizeof m); memset(&step, 0, sizeof step);
			m.kind = ADDRXLAT_MEMARR; m.target_as = ADDRXLAT_KPHYSADDR;
			m.param.memarr.base.as = t; m.param.memarr.base.addr = a;
			m.param.memarr.shift = 0; m.param.memarr.elemsz = 8; m.param.memarr.valsz = 8;
			step.ctx = ctx; step.sys = NULL; step.meth = &m; step.base.addr = 0;
			unsigned d0 = delivered, r0 = returned;
			npages = 0; gp_depth = gp_maxdepth = 0;
			st = addrxlat_walk(&step);
			printf("> rd %s", xstatus_name(st));
			if (st == ADDRXLAT_OK) printf(" %" PRIu64, (uint64_t)step.raw.addr);
			printf(" gp=%u nest=%u got=%u put=%u mru=", npages, gp_maxdepth, delivered - d0, returned - r0);
			for (i = 0, sl = ctx->cache.mru; i < READ_CACHE_SLOTS; ++i, sl = sl->next)
				printf("%s%d", i ? "," : "", (int)(sl - ctx->cache.slot));
			printf(" slots=");
			for (i = 0; i < READ_CACHE_SLOTS; ++i) {
				const addrxlat_buffer_t *b = &ctx->cache.slot[i].buffer;
#ifdef KDF_SLOT_FILLING	/* the working tree's struct read_cache_slot has the `filling` mark (tools/props/c09.py looks) */
				int fl = ctx->cache.slot[i].filling != 0;
#else
				int fl = 0;
#endif
				printf("%s%d:%" PRIu64 ":%zu:%d:%d", i ? ";" : "", (int)b->addr.as, (uint64_t)b->addr.addr, b->size, b->ptr != NULL, fl);
			}
			putchar('\n');
		} else if (!strncmp(line, "newsys", 6)) {
			addrxlat_sys_decref(sys); sys = addrxlat_sys_new(); nosys = 0;
			new_ctx();
		} else if (sscanf(line, "rcaps %lu", &caps) == 1) {
			rcaps = caps;
		} else if (sscanf(line, "nosys %d", &t) == 1) {
			nosys = t;
		} else if (sscanf(line, "meth %d pgt %63s %d %d %" SCNu64 " %" SCNu64 " %255s", &slot, fmt, &t, &ras, &a, &b, fields) == 7) {
			char *p = fields;
			n = 0;
			meth.kind = ADDRXLAT_PGT; meth.target_as = t;
			meth.param.pgt.root.as = ras; meth.param.pgt.root.addr = a; meth.param.pgt.pte_mask = b;
			meth.param.pgt.pf.pte_format = addrxlat_pte_format(fmt);
			while (*p && n < ADDRXLAT_FIELDS_MAX) { meth.param.pgt.pf.fieldsz[n++] = strtoul(p, &p, 10); if (*p == ',') ++p; }
			meth.param.pgt.pf.nfields = n;
			addrxlat_sys_set_meth(sys, slot, &meth);
		} else if (sscanf(line, "meth %d custom %d %" SCNu64 " %63s %63s", &slot, &t, &a, w1, w2) == 5) {
			meth.kind = ADDRXLAT_CUSTOM; meth.target_as = t;
			custs[slot].mask = a;
			if (!parse_arm(w1, &custs[slot].hit) || !parse_arm(w2, &custs[slot].miss)) puts("> bad-op");
			meth.param.custom.first_step = c_first; meth.param.custom.next_step = c_next;
			meth.param.custom.data = &custs[slot];
			addrxlat_sys_set_meth(sys, slot, &meth);
		} else if (sscanf(line, "meth %d linear %d %" SCNu64, &slot, &t, &a) == 3) {
			meth.kind = ADDRXLAT_LINEAR; meth.target_as = t; meth.param.linear.off = a;
			addrxlat_sys_set_meth(sys, slot, &meth);
		} else if (sscanf(line, "meth %d lookup %d %" SCNu64 " %4095s", &slot, &t, &a, tb) >= 3) {
			char *p = tb;
			int got = sscanf(line, "meth %d lookup %d %" SCNu64 " %4095s", &slot, &t, &a, tb);
			n = 0;
			meth.kind = ADDRXLAT_LOOKUP; meth.target_as = t; meth.param.lookup.endoff = a;
			if (got == 4) while (*p && n < 64) {
				tbls[slot][n].orig = strtoull(p, &p, 10); if (*p == ':') ++p;
				tbls[slot][n].dest = strtoull(p, &p, 10); if (*p == ',') ++p; ++n;
			}
			meth.param.lookup.nelem = n; meth.param.lookup.tbl = tbls[slot];
			addrxlat_sys_set_meth(sys, slot, &meth);
		} else if (sscanf(line, "meth %d memarr %d %d %" SCNu64 " %u %u %u", &slot, &t, &ras, &a, &sh, &es, &vs) == 7) {
			meth.kind = ADDRXLAT_MEMARR; meth.target_as = t;
			meth.param.memarr.base.as = ras; meth.param.memarr.base.addr = a;
			meth.param.memarr.shift = sh; meth.param.memarr.elemsz = es; meth.param.memarr.valsz = vs;
			addrxlat_sys_set_meth(sys, slot, &meth);
		} else if (sscanf(line, "meth %d nometh", &slot) == 1 && strstr(line, "nometh")) {
			meth.kind = ADDRXLAT_NOMETH; meth.target_as = ADDRXLAT_NOADDR;
			addrxlat_sys_set_meth(sys, slot, &meth);
		} else if (sscanf(line, "map %d %4095s", &slot, tb) == 2) {
			/* map <idx> none | e:m,e:m,...  (a tiling from address 0) */
			if (!strcmp(tb, "none")) {
				addrxlat_sys_set_map(sys, slot, NULL);
				printf("> map %d none\n", slot);
			} else {
				addrxlat_map_t *map = addrxlat_map_new(); char *p = tb; uint64_t start = 0; size_t i, len;
				const addrxlat_range_t *r; int bad_ = 0;
				while (*p) {
					addrxlat_range_t rg;
					rg.endoff = strtoull(p, &p, 10); if (*p == ':') ++p;
					rg.meth = strtol(p, &p, 10); if (*p == ',') ++p;
					if (addrxlat_map_set(map, start, &rg) != ADDRXLAT_OK) bad_ = 1;
					start += rg.endoff + 1;
				}
				addrxlat_sys_set_map(sys, slot, map);
				len = addrxlat_map_len(map); r = addrxlat_map_ranges(map);
				printf("> map %d %s", slot, bad_ ? "FAILED " : "");
				for (i = 0; i < len; ++i) printf("%s%" PRIu64 ":%d", i ? "," : "", (uint64_t)r[i].endoff, (int)r[i].meth);
				putchar('\n');
			}
		} else if (sscanf(line, "op %lu %d %" SCNu64 " %31s", &caps, &t, &a, sname) == 4) {
			addrxlat_op_ctl_t ctl; addrxlat_fulladdr_t fa; addrxlat_status st;
			ctl.ctx = ctx; ctl.sys = nosys ? NULL : sys; ctl.op = the_op; ctl.data = NULL; ctl.caps = caps;
			fa.as = t; fa.addr = a; cbst = status_of(sname);
			maxdepth = npages = ncalls = 0; gp_depth = gp_maxdepth = 0;
			st = addrxlat_op(&ctl, &fa);
			printf("> op %s calls=%u", xstatus_name(st), ncalls);
			if (ncalls) printf(" %d %" PRIu64, (int)seen.as, (uint64_t)seen.addr);
			printf(" | depth=%u pages=%u left=%u nest=%u\n", maxdepth, npages, depth_now(ctx), gp_maxdepth);
		} else if (sscanf(line, "econv %d %d %" SCNu64, &tas, &t, &a) == 3) {
			/* C16: addrxlat_fulladdr_conv and what it leaves in the context's error string; the context is
			 * the one the preceding calls used (a stale message of an earlier call is part of the history) */
			addrxlat_fulladdr_t fa; addrxlat_status st; const char *e;
			fa.as = t; fa.addr = a;
			st = addrxlat_fulladdr_conv(&fa, tas, ctx, nosys ? NULL : sys);
			e = addrxlat_ctx_get_err(ctx);
			printf("> econv %s %d %" PRIu64 " %s | %s\n", xstatus_name(st), (int)fa.as, (uint64_t)fa.addr,
			       e && *e ? "set" : "empty", e && *e ? e : "-");
		} else if (sscanf(line, "conv %d %d %" SCNu64, &tas, &t, &a) == 3) {
			addrxlat_fulladdr_t fa; addrxlat_status st;
			fa.as = t; fa.addr = a;
			maxdepth = npages = 0; gp_depth = gp_maxdepth = 0;
			st = addrxlat_fulladdr_conv(&fa, tas, ctx, nosys ? NULL : sys);
			printf("> conv %s %d %" PRIu64 " | depth=%u pages=%u left=%u nest=%u\n", xstatus_name(st), (int)fa.as, (uint64_t)fa.addr,
			       maxdepth, npages, depth_now(ctx), gp_maxdepth);
		} else
			puts("> bad-op");
	}
	return 0;
}
