/* Stream `dump`, internal part (C01): the real uncompress_rle() of util.c on
 * exact-size heap buffers (ASan reports any access outside them).
 *   rle <dstlen> <hex src | ->      > rle ok <hex out | -> | > rle err
 * The page-level part of the stream runs through s_fmt.c (public API).
 */
#include "hcommon.h"

extern int real_uncompress_rle(unsigned char *dst, size_t *pdstlen,
			       const unsigned char *src, size_t srclen)
	__asm__("_kdumpfile_priv_uncompress_rle");

int main(void)
{
	static char line[1 << 17], hex[1 << 17];
	setvbuf(stdout, NULL, _IOLBF, 0);
	while (fgets(line, sizeof line, stdin)) {
		uint64_t dstlen;
		if (sscanf(line, "rle %" SCNu64 " %s", &dstlen, hex) == 2) {
			size_t n = !strcmp(hex, "-") ? 0 : strlen(hex) / 2, i, outlen = dstlen;
			unsigned char *src = malloc(n ? n : 1), *dst = malloc(dstlen ? dstlen : 1);
			unsigned char *s = n ? src : src + 1, *d = dstlen ? dst : dst + 1;  /* empty buffers: one past the end */
			unsigned v; int ret;
			for (i = 0; i < n; ++i) { sscanf(hex + 2 * i, "%2x", &v); src[i] = v; }
			ret = real_uncompress_rle(d, &outlen, s, n);
			if (ret) puts("> rle err");
			else {
				printf("> rle ok ");
				if (!outlen) putchar('-');
				for (i = 0; i < outlen && i < dstlen; ++i) printf("%02x", dst[i]);
				if (outlen > dstlen) printf(" LENGTH-BEYOND-BUFFER:%zu", outlen);
				putchar('\n');
			}
			free(src); free(dst);
		} else
			puts("> bad-op");
	}
	return 0;
}
