/* Stream `cache` (C06): the real cache.c, compiled into this translation unit
 * (ENABLE_DEBUG gives the functions plain names, so they do not clash with
 * the library's copies).  After every operation the whole state is printed in
 * the derived-arc form of lean/Driver/Cache.lean, followed by the raw ring
 * (R=<split>;<next/prev pairs>) for the independent well-formedness check. */
#define ENABLE_DEBUG 1
#include <stdlib.h>
/* every free() made by cache.c goes through here: this is how the harness sees the cache object being freed */
static void *watch_ptr; static int watch_freed;
static void h_free(void *p) { if (p && p == watch_ptr) watch_freed = 1; (free)(p); }
#define free(p) h_free(p)
#include "src/kdumpfile/cache.c"
#undef free
#include <stdio.h>
#include <string.h>

#define ELEM 8
static struct cache *C;

static void plist(const char *name, unsigned *v, unsigned n)
{
	unsigned i;
	printf("%s=", name);
	for (i = 0; i < n; ++i) printf("%s%u", i ? "," : "", v[i]);
	putchar(' ');
}

static void show(const char *res)
{
	unsigned N = 2 * C->cap, i, idx, n;
	static unsigned P[4096], GP[4096], U[4096], GB[4096], B[4096], F[4096];
	static unsigned char where[4096];      /* 1 U 2 GB 3 B 4 P 5 GP 6 F */
	unsigned nP = 0, nGP = 0, nU = 0, nGB = 0, nB = 0, nF = 0, ring;
	int bad = 0;

	memset(where, 0, sizeof where);
	/* in-flight list */
	idx = C->inflight;
	for (n = C->ninflight; n && nF < N; --n) {
		if (idx >= N || where[idx]) { bad = 1; break; }
		F[nF++] = idx; where[idx] = 6; idx = C->ce[idx].next;
	}
	if (C->ninflight > N) bad = 1;
	/* ring size: walk next from split until we are back */
	ring = 0; idx = C->split;
	if (idx >= N) bad = 1;
	if (!bad) do {
		if (idx >= N || ring > N) { bad = 1; break; }
		++ring; idx = C->ce[idx].next;
	} while (idx != C->split);
	if (!bad && ((unsigned long long)C->nprec + C->ngprec + C->nprobe + C->ngprobe > ring || ring + nF != N)) bad = 1;
	if (bad) {
		printf("> %s MALFORMED split=%u nprec=%u ngprec=%u nprobe=%u ngprobe=%u ninflight=%u R=", res,
		       C->split, C->nprec, C->ngprec, C->nprobe, C->ngprobe, C->ninflight);
		for (i = 0; i < N; ++i) printf("%u/%u,", C->ce[i].next, C->ce[i].prev);
		putchar('\n');
		return;
	}
	idx = C->ce[C->split].next;
	for (n = C->nprec; n; --n) { P[nP++] = idx; where[idx] = 4; idx = C->ce[idx].next; }
	for (n = C->ngprec; n; --n) { GP[nGP++] = idx; where[idx] = 5; idx = C->ce[idx].next; }
	for (n = ring - C->nprec - C->ngprec - C->nprobe - C->ngprobe; n; --n) { U[nU++] = idx; where[idx] = 1; idx = C->ce[idx].next; }
	for (n = C->ngprobe; n; --n) { GB[nGB++] = idx; where[idx] = 2; idx = C->ce[idx].next; }
	for (n = C->nprobe; n; --n) { B[nB++] = idx; where[idx] = 3; idx = C->ce[idx].next; }
	printf("> %s ", res);
	plist("U", U, nU); plist("GB", GB, nGB); plist("B", B, nB); plist("P", P, nP); plist("GP", GP, nGP); plist("F", F, nF);
	printf("dp=%u h=%llu m=%llu E=", C->dprobe, (unsigned long long)C->hits.number, (unsigned long long)C->misses.number);
	for (i = 0; i < N; ++i) {
		struct cache_entry *e = &C->ce[i];
		if (i) putchar(' ');
		printf("%u:", i);
		if (where[i] >= 2) printf("%llu", (unsigned long long)e->key); else putchar('_');
		printf(":%u:", e->refcnt);
		if (e->data) printf("%ld", (long)((char *)e->data - (char *)C->data) / ELEM); else putchar('-');
		if (where[i] == 6) putchar(e->state == cs_probe ? 'b' : e->state == cs_precious ? 'p' : 'v');
		else if (where[i] == 3 || where[i] == 4) putchar(e->state == cs_valid ? 'v' : 'x');
	}
	printf(" R=%u;", C->split);
	for (i = 0; i < N; ++i) printf("%u/%u,", C->ce[i].next, C->ce[i].prev);
	putchar('\n');
}

/* life cycle of a released cache: shadow reference counts kept by the harness (the object may be gone) */
static unsigned shadow[4096], shadowN;
static void show_life(const char *what)
{
	unsigned i, first = 1;
	printf("> %s freed=%d refs=", what, watch_freed);
	for (i = 0; i < shadowN; ++i)
		if (shadow[i]) { printf("%s%u:%u", first ? "" : ",", i, shadow[i]); first = 0; }
	putchar('\n');
}

int main(void)
{
	char line[256], res[64];
	int dead = 0, orphan = 0;
	setvbuf(stdout, NULL, _IOLBF, 0);
	while (fgets(line, sizeof line, stdin)) {
		unsigned long long k; unsigned cap;
		if (sscanf(line, "new %u", &cap) == 1) {
			if (C) cache_free(C);
			C = cache_alloc(cap, ELEM);
			dead = 0; orphan = 0; watch_ptr = NULL; watch_freed = 0;
			show("done");
		} else if (dead) {
			puts("> dead");
		} else if (!strncmp(line, "release", 7)) {
			unsigned i;
			shadowN = 2 * C->cap;
			for (i = 0; i < shadowN; ++i) shadow[i] = C->ce[i].refcnt;
			watch_ptr = C; watch_freed = 0;
			cache_release(C);
			orphan = 1;
			show_life("released");
			if (watch_freed) { C = NULL; dead = 1; }
		} else if (orphan && (sscanf(line, "put %llu", &k) == 1 || sscanf(line, "discard %llu", &k) == 1)) {
			if (k >= shadowN || !shadow[k]) { puts("> bad-op"); continue; }
			--shadow[k];
			if (line[0] == 'p') cache_put_entry(C, &C->ce[k]); else cache_discard(C, &C->ce[k]);
			show_life("orphan");
			if (watch_freed) { C = NULL; dead = 1; }
		} else if (orphan) {
			puts("> bad-op");
		} else if (sscanf(line, "get %llu", &k) == 1) {
			struct cache_entry *e = cache_get_entry(C, k);
			if (e) snprintf(res, sizeof res, "entry:%ld:%d", (long)(e - C->ce), cache_entry_valid(e));
			else strcpy(res, "busy");
			show(res);
		} else if (sscanf(line, "insert %llu", &k) == 1) {
			cache_insert(C, &C->ce[k]); show("done");
		} else if (sscanf(line, "put %llu", &k) == 1) {
			cache_put_entry(C, &C->ce[k]); show("done");
		} else if (sscanf(line, "discard %llu", &k) == 1) {
			cache_discard(C, &C->ce[k]); show("done");
		} else
			puts("> bad-op");
	}
	return 0;
}
