/* Stream `thr` (C05): clones of one dump used from several threads.
 *
 * The real library, with
 *   - pthread_mutex_lock/unlock/trylock and pthread_rwlock_rdlock/wrlock/unlock
 *     interposed (defined here, forwarded through dlsym(RTLD_NEXT)): every
 *     worker thread keeps a ledger of the locks it holds, the lock-order graph
 *     (held -> acquired) is recorded;
 *   - the cross-TU cache entry points wrapped (-Wl,--wrap=_kdumpfile_priv_cache_
 *     get_entry/insert/discard/put_entry): every cache operation is checked
 *     against the ledger (the model's lock table: cache_lock held, or
 *     shared->lock held for writing) and counted per cache;
 *   - inflate() and pread() interposed: a fill can be made to fail in a chosen
 *     thread, and both are scheduling points;
 *   - cache.c compiled into this unit (ENABLE_DEBUG => plain names, no clash)
 *     so that `struct cache` of the live caches can be read: reference sums
 *     at quiescence, full page-cache state after every page-cache operation.
 *
 * Two modes.  `ctl`: cooperative scheduler — exactly one worker runs, control
 * changes hands only at the interposed/wrapped points, following a script of
 * `until <thread> <event-kind>` directives and then seeded PCT priorities; the
 * totally ordered event log (E lines) is replayed on the Lean model.  `free`:
 * real parallelism; monitor + result checks + quiescent sums only.
 */
#define _GNU_SOURCE
#define ENABLE_DEBUG 1
#include "src/kdumpfile/cache.c"
#include <stdio.h>
#include <string.h>
#include <stdlib.h>
#include <stdarg.h>
#include <errno.h>
#include <fcntl.h>
#include <unistd.h>
#include <dlfcn.h>
#include <pthread.h>
#include <zlib.h>
#include <sys/mman.h>
#include <inttypes.h>
#include <libkdumpfile/kdumpfile.h>

/* ------------------------------------------------------------------ real functions */
static int (*r_mlock)(pthread_mutex_t *), (*r_munlock)(pthread_mutex_t *), (*r_mtrylock)(pthread_mutex_t *);
static int (*r_rdlock)(pthread_rwlock_t *), (*r_wrlock)(pthread_rwlock_t *), (*r_rwunlock)(pthread_rwlock_t *);
static int (*r_inflate)(z_streamp, int);
static ssize_t (*r_pread)(int, void *, size_t, off_t);
static ssize_t (*r_pread64)(int, void *, size_t, off_t);
static int (*r_cwait)(pthread_cond_t *, pthread_mutex_t *);
static void *(*r_mmap)(void *, size_t, int, int, int, off_t);
static void *(*r_mmap64)(void *, size_t, int, int, int, off_t);

#define REAL(p, name) do { if (!(p)) *(void **)&(p) = dlsym(RTLD_NEXT, name); } while (0)

/* ------------------------------------------------------------------ configuration */
#define MAXT 32
#define MAXOPS 4096
#define MAXHELD 16

enum { OP_READ, OP_GETATTR, OP_SETATTR, OP_PAGEMAP, OP_CLONE, OP_STR };
struct op { int kind; unsigned as; uint64_t addr, arg; uint64_t expect; int exp_kind; char name[64]; };
/* exp_kind: 0 = hash of the page, 1 = nodata, 2 = anything */

struct held { void *obj; char cls; char mode; };

struct worker {
	int id;
	kdump_ctx_t *ctx;
	pthread_t th;
	struct op *ops; int nops;
	int fail_inflate, fail_pread, fail_mmap;    /* n-th call fails (1-based), 0 = never */
	int n_inflate, n_pread, n_mmap;
	int in_api, in_str;
	struct held held[MAXHELD]; int nheld;
	/* cooperative scheduler */
	int finished;
	const char *at_kind; long arrived;
	void *want; char want_mode;      /* lock the thread waits for: 'm' mutex, 'r', 'w' */
	int prio;
	/* results (free mode) */
	long n_ok, n_busy, n_bad, n_err, n_nodata;
	char firstbad[256];
};

static struct worker W[MAXT];
static int NT, MODE_CTL, REPEAT = 1, PS = 4096;
static struct kdump_shared *SH;
static __thread struct worker *me;
static volatile int threads_phase;

/* ------------------------------------------------------------------ monitor state (global) */
static long n_cacheops, n_unlocked;         /* atomics */
static char first_unlocked[256];
static int edges[8][8];                      /* lock-order graph over classes */
static long leaked_locks;                    /* API returned with a non-empty ledger */
static char first_leak[256];

static int cls_index(char c) { return c == 'S' ? 0 : c == 'C' ? 1 : 2; }

static char lock_class(void *obj)
{
	if (SH && obj == (void *)&SH->cache_lock) return 'C';
	if (SH && obj == (void *)&SH->lock) return 'S';
	return 'M';
}

static void held_str(struct worker *w, char *out)
{
	int i; char *p = out;
	if (!w || !w->nheld) { strcpy(out, "-"); return; }
	for (i = 0; i < w->nheld; ++i) {
		if (i) *p++ = ',';
		*p++ = w->held[i].cls;
		if (w->held[i].cls == 'S') { *p++ = ':'; *p++ = w->held[i].mode; }
	}
	*p = 0;
}

static int holds_cache_lock(struct worker *w)
{
	int i;
	for (i = 0; i < w->nheld; ++i)
		if (w->held[i].cls == 'C' || (w->held[i].cls == 'S' && w->held[i].mode == 'w'))
			return 1;
	return 0;
}

/* ------------------------------------------------------------------ cooperative scheduler */
static pthread_mutex_t gm = PTHREAD_MUTEX_INITIALIZER;
static pthread_cond_t gc = PTHREAD_COND_INITIALIZER;
static int cur = -1;                 /* worker that owns the baton; -1: none yet; -2: main */
static long stepno;
static int deadlocked;

struct dir { int tid; char kind[16]; long start; int started; };
static struct dir script[256]; static int nscript, iscript;

static unsigned long long rng_state = 88172645463325252ULL;
static unsigned rnd(void) { rng_state ^= rng_state << 13; rng_state ^= rng_state >> 7; rng_state ^= rng_state << 17; return (unsigned)(rng_state >> 11); }
static long change_pt[16]; static int nchange;

/* model of the lock state, maintained by the scheduler */
struct lk { void *obj; int owner; int readers; };
static struct lk LK[16]; static int nLK;
static struct lk *lk_of(void *obj)
{
	int i;
	for (i = 0; i < nLK; ++i) if (LK[i].obj == obj) return &LK[i];
	if (nLK == 16) { fprintf(stderr, "too many locks\n"); _exit(3); }
	LK[nLK].obj = obj; LK[nLK].owner = -1; LK[nLK].readers = 0;
	return &LK[nLK++];
}

static int enabled(struct worker *w)
{
	struct lk *l;
	if (w->finished) return 0;
	if (!w->want) return 1;
	l = lk_of(w->want);
	if (w->want_mode == 'm') return l->owner < 0;
	if (w->want_mode == 'r') return l->owner < 0;
	return l->owner < 0 && l->readers == 0;
}

static void out(const char *fmt, ...)
{
	va_list ap; va_start(ap, fmt); vprintf(fmt, ap); va_end(ap);
}

static void report_deadlock(void)
{
	int i; char hs[64];
	deadlocked = 1;
	out("D deadlock");
	for (i = 0; i < NT; ++i) if (!W[i].finished) {
		held_str(&W[i], hs);
		out(" t%d:wants=%c%s:holds=%s", i, W[i].want ? lock_class(W[i].want) : '-',
		    W[i].want ? (W[i].want_mode == 'm' ? "" : W[i].want_mode == 'r' ? ":r" : ":w") : "", hs);
	}
	out("\n");
	fflush(stdout);
	_exit(0);        /* threads cannot be recovered; the log is the result */
}

/* choose the next worker; called with gm held */
static int pick(void)
{
	int i, best = -1;
	while (iscript < nscript) {
		struct dir *d = &script[iscript];
		struct worker *w = &W[d->tid];
		if (!d->started) { d->started = 1; d->start = stepno; }
		if (w->finished || (w->arrived > d->start && !strcmp(w->at_kind, d->kind))) { ++iscript; continue; }
		if (enabled(w)) return d->tid;
		break;          /* the scripted thread waits for a lock: let the priorities decide */
	}
	for (i = 0; i < nchange; ++i)
		if (change_pt[i] == stepno && cur >= 0) W[cur].prio = -(int)stepno;   /* PCT change point */
	for (i = 0; i < NT; ++i)
		if (enabled(&W[i]) && (best < 0 || W[i].prio > W[best].prio)) best = i;
	return best;
}

static int all_finished(void)
{
	int i;
	for (i = 0; i < NT; ++i) if (!W[i].finished) return 0;
	return 1;
}

/* scheduling point of the running worker (gm not held) */
static void yield_at(const char *kind)
{
	int nxt;
	if (!MODE_CTL || !me || !threads_phase) return;
	r_mlock(&gm);
	me->at_kind = kind; me->arrived = ++stepno;
	nxt = pick();
	if (nxt < 0) {
		if (all_finished()) { cur = -2; pthread_cond_broadcast(&gc); r_munlock(&gm); return; }
		report_deadlock();
	}
	if (nxt != me->id) {
		cur = nxt;
		pthread_cond_broadcast(&gc);
		while (cur != me->id) r_cwait(&gc, &gm);
	}
	r_munlock(&gm);
}

static void ledger_push(void *obj, char mode)
{
	int i; char c = lock_class(obj);
	if (!me || !me->in_api) return;
	for (i = 0; i < me->nheld; ++i)
		__sync_fetch_and_add(&edges[cls_index(me->held[i].cls)][cls_index(c)], 1);
	if (me->nheld < MAXHELD) { me->held[me->nheld].obj = obj; me->held[me->nheld].cls = c; me->held[me->nheld].mode = mode; ++me->nheld; }
}

static char ledger_pop(void *obj)
{
	int i; char mode = '?';
	if (!me || !me->in_api) return mode;
	for (i = me->nheld - 1; i >= 0; --i)
		if (me->held[i].obj == obj) {
			mode = me->held[i].mode;
			memmove(&me->held[i], &me->held[i + 1], (me->nheld - i - 1) * sizeof me->held[0]);
			--me->nheld;
			break;
		}
	return mode;
}

static int tracked(void) { return me && me->in_api && threads_phase; }

/* ------------------------------------------------------------------ interposed locks */
int pthread_mutex_lock(pthread_mutex_t *m)
{
	int r;
	REAL(r_mlock, "pthread_mutex_lock");
	if (!tracked() || m == &gm) return r_mlock(m);
	if (MODE_CTL) {
		me->want = m; me->want_mode = 'm';
		yield_at("lock");
		r_mlock(&gm); lk_of(m)->owner = me->id; me->want = NULL; r_munlock(&gm);
		out("E %d lock %c\n", me->id, lock_class(m));
	}
	r = r_mlock(m);
	ledger_push(m, 'm');
	return r;
}

int pthread_mutex_trylock(pthread_mutex_t *m)
{
	int r;
	REAL(r_mtrylock, "pthread_mutex_trylock");
	r = r_mtrylock(m);
	if (tracked() && r == 0) {
		if (MODE_CTL) { r_mlock(&gm); lk_of(m)->owner = me->id; r_munlock(&gm); out("E %d lock %c\n", me->id, lock_class(m)); }
		ledger_push(m, 'm');
	}
	return r;
}

int pthread_mutex_unlock(pthread_mutex_t *m)
{
	int r;
	REAL(r_munlock, "pthread_mutex_unlock");
	if (!tracked() || m == &gm) return r_munlock(m);
	ledger_pop(m);
	r = r_munlock(m);
	if (MODE_CTL) {
		r_mlock(&gm); lk_of(m)->owner = -1; r_munlock(&gm);
		out("E %d unlock %c\n", me->id, lock_class(m));
		yield_at("unlock");
	}
	return r;
}

int pthread_rwlock_rdlock(pthread_rwlock_t *l)
{
	int r;
	REAL(r_rdlock, "pthread_rwlock_rdlock");
	if (!tracked()) return r_rdlock(l);
	if (MODE_CTL) {
		me->want = l; me->want_mode = 'r';
		yield_at("rdlock");
		r_mlock(&gm); lk_of(l)->readers++; me->want = NULL; r_munlock(&gm);
		out("E %d rdlock %c\n", me->id, lock_class(l));
	}
	r = r_rdlock(l);
	ledger_push(l, 'r');
	return r;
}

int pthread_rwlock_wrlock(pthread_rwlock_t *l)
{
	int r;
	REAL(r_wrlock, "pthread_rwlock_wrlock");
	if (!tracked()) return r_wrlock(l);
	if (MODE_CTL) {
		me->want = l; me->want_mode = 'w';
		yield_at("wrlock");
		r_mlock(&gm); lk_of(l)->owner = me->id; me->want = NULL; r_munlock(&gm);
		out("E %d wrlock %c\n", me->id, lock_class(l));
	}
	r = r_wrlock(l);
	ledger_push(l, 'w');
	return r;
}

int pthread_rwlock_unlock(pthread_rwlock_t *l)
{
	int r; char mode;
	REAL(r_rwunlock, "pthread_rwlock_unlock");
	if (!tracked()) return r_rwunlock(l);
	mode = ledger_pop(l);
	r = r_rwunlock(l);
	if (MODE_CTL) {
		r_mlock(&gm);
		if (mode == 'w') lk_of(l)->owner = -1; else if (lk_of(l)->readers > 0) lk_of(l)->readers--;
		r_munlock(&gm);
		out("E %d %s %c\n", me->id, mode == 'w' ? "wrunlock" : mode == 'r' ? "rdunlock" : "rwunlock?", lock_class(l));
		yield_at("rwunlock");
	}
	return r;
}

/* size-targeted allocation failure (link with -Wl,--wrap=malloc): the per-context data of a
 * clone is the only block of PERCTX_SIZE bytes the library asks for */
#define PERCTX_SIZE 12347
void *__real_malloc(size_t);
static volatile int fail_perctx_malloc;
void *__wrap_malloc(size_t n)
{
	if (n == PERCTX_SIZE && fail_perctx_malloc && me && me->in_api) return NULL;
	return __real_malloc(n);
}
/* realloc() inside kdump_read_string is a scheduling point: the page the string is copied from must still be
 * pinned while another thread runs there */
void *__real_realloc(void *, size_t);
static void yield_at(const char *kind);
static int tracked(void);
void *__wrap_realloc(void *p, size_t n)
{
	if (me && me->in_str && tracked()) yield_at("realloc");
	return __real_realloc(p, n);
}
int lib_per_ctx_alloc(struct kdump_shared *, size_t) __asm__("_kdumpfile_priv_per_ctx_alloc");

/* ------------------------------------------------------------------ interposed fill primitives */
int inflate(z_streamp strm, int flush)
{
	REAL(r_inflate, "inflate");
	if (tracked()) {
		yield_at("inflate");
		if (me->fail_inflate && ++me->n_inflate == me->fail_inflate) {
			if (MODE_CTL) out("E %d inflate fail\n", me->id);
			return Z_MEM_ERROR;
		}
		if (MODE_CTL) out("E %d inflate ok\n", me->id);
	}
	return r_inflate(strm, flush);
}

static ssize_t do_pread(int which, int fd, void *buf, size_t n, off_t off)
{
	REAL(r_pread, "pread"); REAL(r_pread64, "pread64");
	if (tracked()) {
		yield_at("pread");
		if (me->fail_pread && ++me->n_pread == me->fail_pread) {
			if (MODE_CTL) out("E %d pread fail\n", me->id);
			errno = EIO;
			return -1;
		}
		if (MODE_CTL) out("E %d pread ok\n", me->id);
	}
	return which ? r_pread64(fd, buf, n, off) : r_pread(fd, buf, n, off);
}
ssize_t pread(int fd, void *buf, size_t n, off_t off) { return do_pread(0, fd, buf, n, off); }
ssize_t pread64(int fd, void *buf, size_t n, off_t off) { return do_pread(1, fd, buf, n, off); }

#ifndef S_THR_NO_MMAP_HOOK     /* the ThreadSanitizer runtime maps memory before dlsym() is usable */
static void *do_mmap(int which, void *addr, size_t len, int prot, int flags, int fd, off_t off)
{
	REAL(r_mmap, "mmap"); REAL(r_mmap64, "mmap64");
	if (fd >= 0 && tracked()) {
		if (me->fail_mmap && ++me->n_mmap == me->fail_mmap) {
			if (MODE_CTL) out("E %d mmap fail\n", me->id);
			errno = ENODEV;
			return MAP_FAILED;
		}
		if (MODE_CTL) out("E %d mmap ok\n", me->id);
	}
	return which ? r_mmap64(addr, len, prot, flags, fd, off) : r_mmap(addr, len, prot, flags, fd, off);
}
void *mmap(void *addr, size_t len, int prot, int flags, int fd, off_t off) { return do_mmap(0, addr, len, prot, flags, fd, off); }
void *mmap64(void *addr, size_t len, int prot, int flags, int fd, off_t off) { return do_mmap(1, addr, len, prot, flags, fd, off); }
#endif

/* ------------------------------------------------------------------ cache state (as harness/s_cache.c) */
static const char *cache_id(struct cache *c)
{
	if (SH && c == SH->cache) return "pg";
	if (SH && SH->fcache && c == SH->fcache->cache) return "fm";
	if (SH && SH->fcache && c == SH->fcache->fbcache) return "fb";
	return "xx";
}

static void plist(const char *name, unsigned *v, unsigned n)
{
	unsigned i;
	out("%s=", name);
	for (i = 0; i < n; ++i) out("%s%u", i ? "," : "", v[i]);
	out(" ");
}

static void show_state(struct cache *C)
{
	unsigned N = 2 * C->cap, i, idx, n;
	static unsigned P[4096], GP[4096], U[4096], GB[4096], B[4096], F[4096];
	static unsigned char where[4096];
	unsigned nP = 0, nGP = 0, nU = 0, nGB = 0, nB = 0, nF = 0, ring;
	int bad = 0;

	if (N > 4096) { out("S=TOOBIG"); return; }
	memset(where, 0, sizeof where);
	idx = C->inflight;
	for (n = C->ninflight; n && nF < N; --n) {
		if (idx >= N || where[idx]) { bad = 1; break; }
		F[nF++] = idx; where[idx] = 6; idx = C->ce[idx].next;
	}
	if (C->ninflight > N) bad = 1;
	ring = 0; idx = C->split;
	if (idx >= N) bad = 1;
	if (!bad) do {
		if (idx >= N || ring > N) { bad = 1; break; }
		++ring; idx = C->ce[idx].next;
	} while (idx != C->split);
	if (!bad && ((unsigned long long)C->nprec + C->ngprec + C->nprobe + C->ngprobe > ring || ring + nF != N)) bad = 1;
	if (bad) { out("MALFORMED split=%u nprec=%u ngprec=%u nprobe=%u ngprobe=%u ninflight=%u", C->split, C->nprec, C->ngprec, C->nprobe, C->ngprobe, C->ninflight); return; }
	idx = C->ce[C->split].next;
	for (n = C->nprec; n; --n) { P[nP++] = idx; where[idx] = 4; idx = C->ce[idx].next; }
	for (n = C->ngprec; n; --n) { GP[nGP++] = idx; where[idx] = 5; idx = C->ce[idx].next; }
	for (n = ring - C->nprec - C->ngprec - C->nprobe - C->ngprobe; n; --n) { U[nU++] = idx; where[idx] = 1; idx = C->ce[idx].next; }
	for (n = C->ngprobe; n; --n) { GB[nGB++] = idx; where[idx] = 2; idx = C->ce[idx].next; }
	for (n = C->nprobe; n; --n) { B[nB++] = idx; where[idx] = 3; idx = C->ce[idx].next; }
	plist("U", U, nU); plist("GB", GB, nGB); plist("B", B, nB); plist("P", P, nP); plist("GP", GP, nGP); plist("F", F, nF);
	out("dp=%u E=", C->dprobe);
	for (i = 0; i < N; ++i) {
		struct cache_entry *e = &C->ce[i];
		if (i) out(" ");
		out("%u:", i);
		if (where[i] >= 2) out("%llu", (unsigned long long)e->key); else out("_");
		out(":%u:", e->refcnt);
		if (e->data) out("%ld", (long)((char *)e->data - (char *)C->data) / (long)(C->elemsize ? C->elemsize : 1)); else out("-");
		if (where[i] == 6) out("%c", e->state == cs_probe ? 'b' : e->state == cs_precious ? 'p' : 'v');
		else if (where[i] == 3 || where[i] == 4) out("%c", e->state == cs_valid ? 'v' : 'x');
	}
}

static unsigned long refsum(struct cache *C)
{
	unsigned i; unsigned long s = 0;
	for (i = 0; i < 2 * C->cap; ++i) s += C->ce[i].refcnt;
	return s;
}

/* ------------------------------------------------------------------ wrapped cache operations */
struct cache_entry *__real__kdumpfile_priv_cache_get_entry(struct cache *, cache_key_t);
void __real__kdumpfile_priv_cache_insert(struct cache *, struct cache_entry *);
void __real__kdumpfile_priv_cache_discard(struct cache *, struct cache_entry *);
void __real__kdumpfile_priv_cache_put_entry(struct cache *, struct cache_entry *);

static void check_ledger(const char *opname, struct cache *c, long idx)
{
	__sync_fetch_and_add(&n_cacheops, 1);
	if (!holds_cache_lock(me)) {
		if (__sync_fetch_and_add(&n_unlocked, 1) == 0) {
			char hs[64]; held_str(me, hs);
			snprintf(first_unlocked, sizeof first_unlocked, "thread %d: cache_%s on cache %s entry %ld with held locks {%s}",
				 me->id, opname, cache_id(c), idx, hs);
		}
	}
}

static void log_op(const char *opname, struct cache *c, cache_key_t key, struct cache_entry *e, int isget, int valid_before)
{
	char hs[64];
	held_str(me, hs);
	if (isget) {
		if (e) out("E %d get %s %llu %ld:%s held=%s", me->id, cache_id(c), (unsigned long long)key, (long)(e - c->ce), valid_before ? "hit" : "miss", hs);
		else out("E %d get %s %llu busy held=%s", me->id, cache_id(c), (unsigned long long)key, hs);
	} else
		out("E %d %s %s %ld held=%s", me->id, opname, cache_id(c), (long)(e - c->ce), hs);
	if (SH && c == SH->cache) { out(" | "); show_state(c); }
	out("\n");
}

struct cache_entry *__wrap__kdumpfile_priv_cache_get_entry(struct cache *c, cache_key_t key)
{
	struct cache_entry *e;
	if (!tracked()) return __real__kdumpfile_priv_cache_get_entry(c, key);
	yield_at("get");
	check_ledger("get_entry", c, -1);
	e = __real__kdumpfile_priv_cache_get_entry(c, key);
	if (MODE_CTL) log_op("get", c, key, e, 1, e && cache_entry_valid(e));
	return e;
}

void __wrap__kdumpfile_priv_cache_insert(struct cache *c, struct cache_entry *e)
{
	if (!tracked()) { __real__kdumpfile_priv_cache_insert(c, e); return; }
	yield_at("insert");
	check_ledger("insert", c, e - c->ce);
	__real__kdumpfile_priv_cache_insert(c, e);
	if (MODE_CTL) log_op("insert", c, 0, e, 0, 0);
}

void __wrap__kdumpfile_priv_cache_discard(struct cache *c, struct cache_entry *e)
{
	if (!tracked()) { __real__kdumpfile_priv_cache_discard(c, e); return; }
	yield_at("discard");
	check_ledger("discard", c, e - c->ce);
	__real__kdumpfile_priv_cache_discard(c, e);
	if (MODE_CTL) log_op("discard", c, 0, e, 0, 0);
}

void __wrap__kdumpfile_priv_cache_put_entry(struct cache *c, struct cache_entry *e)
{
	if (!tracked()) { __real__kdumpfile_priv_cache_put_entry(c, e); return; }
	yield_at("put");
	check_ledger("put_entry", c, e - c->ce);
	__real__kdumpfile_priv_cache_put_entry(c, e);
	if (MODE_CTL) log_op("put", c, 0, e, 0, 0);
}

/* ------------------------------------------------------------------ workers */
static uint64_t fnv1(const unsigned char *p, size_t n)
{
	uint64_t h = 0xcbf29ce484222325ULL;
	while (n--) h = (h ^ *p++) * 0x100000001b3ULL;
	return h;
}

static const char *stname(kdump_status st)
{
	switch ((int)st) {
	case KDUMP_OK: return "ok"; case KDUMP_ERR_SYSTEM: return "system"; case KDUMP_ERR_NOTIMPL: return "notimpl";
	case KDUMP_ERR_NODATA: return "nodata"; case KDUMP_ERR_CORRUPT: return "corrupt"; case KDUMP_ERR_INVALID: return "invalid";
	case KDUMP_ERR_NOKEY: return "nokey"; case KDUMP_ERR_EOF: return "eof"; case KDUMP_ERR_BUSY: return "busy";
	case KDUMP_ERR_ADDRXLAT: return "addrxlat";
	}
	return "UNDOCUMENTED";
}

static void api_enter(void) { me->in_api = 1; }
static void api_leave(const char *what)
{
	if (me->nheld) {
		if (__sync_fetch_and_add(&leaked_locks, 1) == 0) {
			char hs[64]; held_str(me, hs);
			snprintf(first_leak, sizeof first_leak, "thread %d: %s returned holding {%s}", me->id, what, hs);
		}
	}
	me->in_api = 0;
}

static void run_op(struct worker *w, int i, int round)
{
	struct op *o = &w->ops[i];
	unsigned char *buf;
	char hs[64];
	kdump_status st;

	if (o->kind == OP_READ) {
		size_t n = PS;
		const char *verdict = "-";
		buf = malloc(PS);
		memset(buf, 0xA5, PS);
		api_enter();
		st = kdump_read(w->ctx, o->as, o->addr, buf, &n);
		held_str(w, hs);
		api_leave("kdump_read");
		if (st == KDUMP_OK) {
			int good = n == (size_t)PS && (o->exp_kind == 2 || (o->exp_kind == 0 && fnv1(buf, PS) == o->expect));
			verdict = good ? "good" : "bad";
			if (good) ++w->n_ok; else { ++w->n_bad; if (!w->firstbad[0]) snprintf(w->firstbad, sizeof w->firstbad, "thread %d op %d round %d: read as=%u addr=%" PRIu64 " returned wrong bytes (hash %016" PRIx64 ", expected %016" PRIx64 ")", w->id, i, round, o->as, o->addr, fnv1(buf, PS), o->expect); }
		} else if (st == KDUMP_ERR_BUSY) ++w->n_busy;
		else if (st == KDUMP_ERR_NODATA && o->exp_kind == 1) ++w->n_nodata;
		else { ++w->n_err; if (!w->firstbad[0] && !w->fail_inflate && !w->fail_pread && !w->fail_mmap) snprintf(w->firstbad, sizeof w->firstbad, "thread %d op %d round %d: read as=%u addr=%" PRIu64 " failed with %s: %s", w->id, i, round, o->as, o->addr, stname(st), kdump_get_err(w->ctx)); }
		if (MODE_CTL) out("R %d %d read %u %" PRIu64 " -> %s %s held=%s\n", w->id, i, o->as, o->addr, stname(st), verdict, hs);
		free(buf);
	} else if (o->kind == OP_STR) {
		char *str = NULL;
		const char *verdict = "-";
		api_enter();
		w->in_str = 1;
		st = kdump_read_string(w->ctx, o->as, o->addr, &str);
		w->in_str = 0;
		held_str(w, hs);
		api_leave("kdump_read_string");
		if (st == KDUMP_OK) {
			int good = o->exp_kind == 2 || (o->exp_kind == 0 && fnv1((unsigned char *)str, strlen(str)) == o->expect);
			verdict = good ? "good" : "bad";
			if (good) ++w->n_ok; else { ++w->n_bad; if (!w->firstbad[0]) snprintf(w->firstbad, sizeof w->firstbad, "thread %d op %d round %d: string at as=%u addr=%" PRIu64 " has wrong bytes (length %zu, hash %016" PRIx64 ", expected %016" PRIx64 ")", w->id, i, round, o->as, o->addr, strlen(str), fnv1((unsigned char *)str, strlen(str)), o->expect); }
			free(str);
		} else if (st == KDUMP_ERR_BUSY) ++w->n_busy;
		else if (st == KDUMP_ERR_NODATA && o->exp_kind == 1) ++w->n_nodata;
		else ++w->n_err;
		if (MODE_CTL) out("R %d %d read %u %" PRIu64 " -> %s %s held=%s\n", w->id, i, o->as, o->addr, stname(st), verdict, hs);
	} else if (o->kind == OP_GETATTR) {
		kdump_num_t num = 0;
		api_enter();
		st = kdump_get_number_attr(w->ctx, o->name, &num);
		held_str(w, hs);
		api_leave("kdump_get_number_attr");
		if (MODE_CTL) out("R %d %d getattr %s -> %s held=%s\n", w->id, i, o->name, stname(st), hs);
		if (st != KDUMP_OK && st != KDUMP_ERR_NODATA) ++w->n_err;
	} else if (o->kind == OP_SETATTR) {
		api_enter();
		st = kdump_set_number_attr(w->ctx, o->name, o->arg);
		held_str(w, hs);
		api_leave("kdump_set_number_attr");
		if (MODE_CTL) out("R %d %d setattr %s -> %s held=%s\n", w->id, i, o->name, stname(st), hs);
		if (st != KDUMP_OK) ++w->n_err;
	} else if (o->kind == OP_CLONE) {
		kdump_ctx_t *c;
		fail_perctx_malloc = (int)o->arg;
		api_enter();
		c = kdump_clone(w->ctx, 0);
		held_str(w, hs);
		api_leave("kdump_clone");
		fail_perctx_malloc = 0;
		if (MODE_CTL) out("R %d %d clone %d -> %s - held=%s\n", w->id, i, (int)o->arg, c ? "ok" : "nodata", hs);
		if (c) { api_enter(); kdump_free(c); api_leave("kdump_free"); }
	} else if (o->kind == OP_PAGEMAP) {
		kdump_attr_t at; kdump_addr_t idx = o->addr;
		api_enter();
		st = kdump_get_attr(w->ctx, "memory.pagemap", &at);
		if (st == KDUMP_OK) {
			st = kdump_bmp_find_set(at.val.bitmap, &idx);
			;
		}
		held_str(w, hs);
		api_leave("memory.pagemap query");
		if (MODE_CTL) out("R %d %d pagemap %" PRIu64 " -> %s %" PRIu64 " held=%s\n", w->id, i, o->addr, stname(st), (uint64_t)(st == KDUMP_OK ? idx : 0), hs);
		if (st == KDUMP_OK && idx != o->arg) { ++w->n_bad; if (!w->firstbad[0]) snprintf(w->firstbad, sizeof w->firstbad, "thread %d: first mapped page at or after %" PRIu64 " is %" PRIu64 ", expected %" PRIu64, w->id, o->addr, (uint64_t)idx, o->arg); }
	}
}

static pthread_barrier_t start_barrier;

static void *worker_main(void *arg)
{
	struct worker *w = arg;
	int i, r;
	me = w;
	if (MODE_CTL) {
		r_mlock(&gm);
		while (cur != w->id) r_cwait(&gc, &gm);
		r_munlock(&gm);
	} else
		pthread_barrier_wait(&start_barrier);
	for (r = 0; r < REPEAT; ++r)
		for (i = 0; i < w->nops; ++i)
			run_op(w, i, r);
	if (MODE_CTL) {
		int nxt;
		r_mlock(&gm);
		w->finished = 1; w->at_kind = "done"; w->arrived = ++stepno;
		nxt = pick();
		if (nxt < 0) {
			if (!all_finished()) report_deadlock();
			cur = -2;
		} else
			cur = nxt;
		pthread_cond_broadcast(&gc);
		r_munlock(&gm);
	}
	return NULL;
}

/* ------------------------------------------------------------------ main */
int main(int argc, char **argv)
{
	static char line[1024], path[800];
	kdump_ctx_t *ctx;
	int fd, i, t, cache_size = 0, mmap_policy = -1, pct_depth = 0, xlat_mask = 0, perctx = 0;
	long est = 400;
	unsigned long long seed = 1;
	FILE *in = argc > 1 ? fopen(argv[1], "r") : stdin;

	REAL(r_mlock, "pthread_mutex_lock"); REAL(r_munlock, "pthread_mutex_unlock"); REAL(r_cwait, "pthread_cond_wait");
	REAL(r_rdlock, "pthread_rwlock_rdlock"); REAL(r_wrlock, "pthread_rwlock_wrlock"); REAL(r_rwunlock, "pthread_rwlock_unlock");
	setvbuf(stdout, NULL, _IOFBF, 1 << 20);
	if (!in) { perror("case file"); return 2; }
	path[0] = 0;
	while (fgets(line, sizeof line, in)) {
		char a[64], b[64]; unsigned u; uint64_t x, y, z;
		if (sscanf(line, "dump %799s", path) == 1) ;
		else if (sscanf(line, "ps %d", &PS) == 1) ;
		else if (sscanf(line, "cache %d", &cache_size) == 1) ;
		else if (sscanf(line, "mmap %d", &mmap_policy) == 1) ;
		else if (sscanf(line, "mode %63s", a) == 1) MODE_CTL = !strcmp(a, "ctl");
		else if (sscanf(line, "threads %d", &NT) == 1) { if (NT > MAXT) NT = MAXT; for (i = 0; i < NT; ++i) { W[i].id = i; W[i].ops = calloc(MAXOPS, sizeof(struct op)); } }
		else if (sscanf(line, "xlatmask %d", &xlat_mask) == 1) ;
		else if (sscanf(line, "seed %llu", &seed) == 1) ;
		else if (sscanf(line, "pct %d %ld", &pct_depth, &est) == 2) ;
		else if (sscanf(line, "repeat %d", &REPEAT) == 1) ;
		else if (sscanf(line, "op %d read %u %" SCNu64 " %63s", &t, &u, &x, a) == 4 && t < NT && W[t].nops < MAXOPS) {
			struct op *o = &W[t].ops[W[t].nops++];
			o->kind = OP_READ; o->as = u; o->addr = x;
			if (!strcmp(a, "nodata")) o->exp_kind = 1; else if (!strcmp(a, "any")) o->exp_kind = 2;
			else { o->exp_kind = 0; o->expect = strtoull(a, NULL, 16); }
		} else if (sscanf(line, "op %d str %u %" SCNu64 " %63s", &t, &u, &x, a) == 4 && t < NT && W[t].nops < MAXOPS) {
			struct op *o = &W[t].ops[W[t].nops++];
			o->kind = OP_STR; o->as = u; o->addr = x;
			if (!strcmp(a, "nodata")) o->exp_kind = 1; else if (!strcmp(a, "any")) o->exp_kind = 2;
			else { o->exp_kind = 0; o->expect = strtoull(a, NULL, 16); }
		} else if (sscanf(line, "op %d getattr %63s", &t, a) == 2 && t < NT && W[t].nops < MAXOPS) {
			struct op *o = &W[t].ops[W[t].nops++]; o->kind = OP_GETATTR; strcpy(o->name, a);
		} else if (sscanf(line, "op %d setattr %63s %" SCNu64, &t, a, &x) == 3 && t < NT && W[t].nops < MAXOPS) {
			struct op *o = &W[t].ops[W[t].nops++]; o->kind = OP_SETATTR; strcpy(o->name, a); o->arg = x;
		} else if (sscanf(line, "op %d pagemap %" SCNu64 " %" SCNu64, &t, &y, &z) == 3 && t < NT && W[t].nops < MAXOPS) {
			struct op *o = &W[t].ops[W[t].nops++]; o->kind = OP_PAGEMAP; o->addr = y; o->arg = z;
		} else if (sscanf(line, "op %d clone %" SCNu64, &t, &x) == 2 && t < NT && W[t].nops < MAXOPS) {
			struct op *o = &W[t].ops[W[t].nops++]; o->kind = OP_CLONE; o->arg = x;
		} else if (sscanf(line, "perctx %d", &perctx) == 1) {
			;
		} else if (sscanf(line, "fail %d %63s %u", &t, a, &u) == 3 && t < NT) {
			if (!strcmp(a, "inflate")) W[t].fail_inflate = u; else if (!strcmp(a, "mmap")) W[t].fail_mmap = u; else W[t].fail_pread = u;
		} else if (sscanf(line, "until %d %15s", &t, b) == 2 && t < NT && nscript < 256) {
			script[nscript].tid = t; strcpy(script[nscript].kind, b); ++nscript;
		}
	}
	ctx = kdump_new();
	fd = open(path, O_RDONLY);
	if (fd < 0 || !ctx) { printf("X cannot open %s\n", path); return 2; }
	if (mmap_policy >= 0 && kdump_set_number_attr(ctx, KDUMP_ATTR_FILE_MMAP_POLICY, mmap_policy) != KDUMP_OK) { printf("X mmap policy: %s\n", kdump_get_err(ctx)); return 2; }
	if (kdump_open_fd(ctx, fd) != KDUMP_OK) { printf("X open failed: %s\n", kdump_get_err(ctx)); return 2; }
	if (cache_size && kdump_set_number_attr(ctx, "cache.size", cache_size) != KDUMP_OK) { printf("X cache.size: %s\n", kdump_get_err(ctx)); return 2; }
	SH = ctx->shared;
	if (perctx && lib_per_ctx_alloc(SH, PERCTX_SIZE) < 0) { printf("X per_ctx_alloc failed\n"); return 2; }
	for (i = 0; i < NT; ++i) {
		W[i].ctx = kdump_clone(ctx, (xlat_mask >> i) & 1 ? KDUMP_CLONE_XLAT : 0);
		if (!W[i].ctx) { printf("X clone %d failed\n", i); return 2; }
	}
	printf("I cap=%u threads=%d mode=%s pgstate: ", SH->cache ? SH->cache->cap : 0, NT, MODE_CTL ? "ctl" : "free");
	if (SH->cache) show_state(SH->cache);
	printf("\n");
	rng_state ^= seed * 0x9E3779B97F4A7C15ULL; for (i = 0; i < 8; ++i) rnd();
	for (i = 0; i < NT; ++i) W[i].prio = 1000 + (int)(rnd() % 1000) * MAXT + i;
	nchange = pct_depth > 16 ? 16 : pct_depth;
	for (i = 0; i < nchange; ++i) change_pt[i] = 1 + rnd() % (est > 0 ? est : 1);
	pthread_barrier_init(&start_barrier, NULL, NT);
	threads_phase = 1;
	for (i = 0; i < NT; ++i) pthread_create(&W[i].th, NULL, worker_main, &W[i]);
	if (MODE_CTL) {
		r_mlock(&gm);
		cur = pick();
		if (cur < 0) cur = -2;
		pthread_cond_broadcast(&gc);
		while (cur != -2) r_cwait(&gc, &gm);
		r_munlock(&gm);
	}
	for (i = 0; i < NT; ++i) pthread_join(W[i].th, NULL);
	threads_phase = 0;
	/* quiescent state */
	printf("Q pg=%lu fm=%lu fb=%lu\n", SH->cache ? refsum(SH->cache) : 0UL,
	       SH->fcache ? refsum(SH->fcache->cache) : 0UL, SH->fcache ? refsum(SH->fcache->fbcache) : 0UL);
	printf("M cacheops=%ld unlocked=%ld leaks=%ld\n", n_cacheops, n_unlocked, leaked_locks);
	if (n_unlocked) printf("M first-unlocked %s\n", first_unlocked);
	if (leaked_locks) printf("M first-leak %s\n", first_leak);
	printf("G");
	{ static const char nm[] = "SCM"; int a, b; for (a = 0; a < 3; ++a) for (b = 0; b < 3; ++b) if (edges[a][b]) printf(" %c>%c:%d", nm[a], nm[b], edges[a][b]); }
	printf("\n");
	for (i = 0; i < NT; ++i) {
		printf("T %d ok=%ld busy=%ld nodata=%ld bad=%ld err=%ld\n", i, W[i].n_ok, W[i].n_busy, W[i].n_nodata, W[i].n_bad, W[i].n_err);
		if (W[i].firstbad[0]) printf("B %s\n", W[i].firstbad);
	}
	for (i = 0; i < NT; ++i) kdump_free(W[i].ctx);
	kdump_free(ctx);
	close(fd);
	printf("Z done\n");
	return 0;
}
