/* Stream `cb` (C17): the real addrxlat callback chain.
 *
 * Input:   stack <n> ; <priv> <mask> ; ...      (top layer first)
 *          inv <hook 0..6>
 * Output:  > called <impl> <priv> <depth> | > base <hook> | > diverge
 * Implementation id of the layer at height j (bottom = 0) and hook h is j*8+h.
 */
#include <stdio.h>
#include <stdlib.h>
#include <string.h>
#include <unistd.h>
#include <sys/wait.h>
#include <sys/resource.h>
#include <libkdumpfile/addrxlat.h>

#define MAXL 8
static char outbuf[256];

static unsigned depth_of(const addrxlat_cb_t *cb)
{
	unsigned d = 0;
	while (cb->next) { ++d; cb = cb->next; }
	return d;
}
static void report(int id, const addrxlat_cb_t *cb)
{
	snprintf(outbuf, sizeof outbuf, "> called %d %lu %u", id,
		 (unsigned long)cb->priv, depth_of(cb));
}

#define IMPLS(L) \
static addrxlat_status gp##L(const addrxlat_cb_t *cb, addrxlat_buffer_t *b) { report(L*8+0, cb); return ADDRXLAT_OK; } \
static unsigned long rc##L(const addrxlat_cb_t *cb) { report(L*8+1, cb); return 0; } \
static addrxlat_status rv##L(const addrxlat_cb_t *cb, const char *n, addrxlat_addr_t *v) { report(L*8+2, cb); return ADDRXLAT_OK; } \
static addrxlat_status sv##L(const addrxlat_cb_t *cb, const char *n, addrxlat_addr_t *v) { report(L*8+3, cb); return ADDRXLAT_OK; } \
static addrxlat_status ss##L(const addrxlat_cb_t *cb, const char *n, addrxlat_addr_t *v) { report(L*8+4, cb); return ADDRXLAT_OK; } \
static addrxlat_status so##L(const addrxlat_cb_t *cb, const char *o, const char *e, addrxlat_addr_t *v) { report(L*8+5, cb); return ADDRXLAT_OK; } \
static addrxlat_status nv##L(const addrxlat_cb_t *cb, const char *n, addrxlat_addr_t *v) { report(L*8+6, cb); return ADDRXLAT_OK; }
IMPLS(0) IMPLS(1) IMPLS(2) IMPLS(3) IMPLS(4) IMPLS(5) IMPLS(6) IMPLS(7)

#define SETL(L) case L: \
	if (mask & 1) cb->get_page = gp##L; if (mask & 2) cb->read_caps = rc##L; \
	if (mask & 4) cb->reg_value = rv##L; if (mask & 8) cb->sym_value = sv##L; \
	if (mask & 16) cb->sym_sizeof = ss##L; if (mask & 32) cb->sym_offsetof = so##L; \
	if (mask & 64) cb->num_value = nv##L; break;

static void set_layer(addrxlat_cb_t *cb, int idx, unsigned mask)
{
	switch (idx) { SETL(0) SETL(1) SETL(2) SETL(3) SETL(4) SETL(5) SETL(6) SETL(7) }
}

static int nlay;
static unsigned long privs[MAXL];
static unsigned masks[MAXL];

static void invoke(addrxlat_ctx_t *ctx, int h)
{
	const addrxlat_cb_t *cb = addrxlat_ctx_get_cb(ctx);
	addrxlat_buffer_t buf;
	addrxlat_addr_t v = 0;
	memset(&buf, 0, sizeof buf);
	snprintf(outbuf, sizeof outbuf, "> base %d", h);
	switch (h) {
	case 0: cb->get_page(cb, &buf); break;
	case 1: cb->read_caps(cb); break;
	case 2: cb->reg_value(cb, "r", &v); break;
	case 3: cb->sym_value(cb, "s", &v); break;
	case 4: cb->sym_sizeof(cb, "s", &v); break;
	case 5: cb->sym_offsetof(cb, "o", "e", &v); break;
	case 6: cb->num_value(cb, "n", &v); break;
	}
	puts(outbuf);
	fflush(stdout);
}

/* run ops hs[from..n) in a child (deletions before `from` are replayed
 * silently); returns index of the op that crashed, or n.
 * hs[i] >= 0: invoke hook; hs[i] < 0: delete the layer at position -(hs[i]+1)
 * from the top of the current chain. */
static int run_child(const int *hs, int from, int n)
{
	int pfd[2], i, st, done = from;
	pid_t pid;
	char c;
	fflush(stdout);
	if (pipe(pfd)) exit(3);
	pid = fork();
	if (pid == 0) {
		struct rlimit rl = { 1 << 20, 1 << 20 };   /* small stack: fail fast */
		addrxlat_ctx_t *ctx;
		addrxlat_cb_t *cbs[MAXL];
		close(pfd[0]);
		setrlimit(RLIMIT_STACK, &rl);
		ctx = addrxlat_ctx_new();
		for (i = nlay - 1; i >= 0; --i) {
			cbs[i] = addrxlat_ctx_add_cb(ctx);
			cbs[i]->priv = (void *)privs[i];
			set_layer(cbs[i], nlay - 1 - i, masks[i]);
		}
		int live = nlay;
		for (i = 0; i < n; ++i) {
			if (hs[i] < 0) {
				int pos = -(hs[i] + 1), j;
				if (pos < live) {
					addrxlat_ctx_del_cb(ctx, cbs[pos]);
					for (j = pos; j + 1 < live; ++j) cbs[j] = cbs[j + 1];
					--live;
				}
				if (i >= from) { puts("> del"); fflush(stdout); }
			} else if (i >= from)
				invoke(ctx, hs[i]);
			if (i >= from && write(pfd[1], "x", 1) != 1) _exit(4);
		}
		/* remove the remaining layers top-down */
		for (i = 0; i < live; ++i)
			addrxlat_ctx_del_cb(ctx, cbs[i]);
		addrxlat_ctx_decref(ctx);
		_exit(0);
	}
	close(pfd[1]);
	while (read(pfd[0], &c, 1) == 1) ++done;
	close(pfd[0]);
	waitpid(pid, &st, 0);
	return done;
}

int main(void)
{
	char line[4096];
	int hs[4096], nh = 0;
	setvbuf(stdout, NULL, _IOLBF, 0);
	for (;;) {
		char *got = fgets(line, sizeof line, stdin);
		if (!got || !strncmp(line, "stack", 5)) {
			int from = 0;
			while (from < nh) {
				from = run_child(hs, from, nh);
				if (from < nh) { puts("> diverge"); ++from; }
			}
			nh = 0;
			if (!got) break;
			char *p = line + 5;
			nlay = strtol(p, &p, 10);
			if (nlay > MAXL) { puts("> bad-op"); nlay = 0; continue; }
			for (int i = 0; i < nlay; ++i) {
				while (*p == ' ' || *p == ';') ++p;
				privs[i] = strtoul(p, &p, 10);
				masks[i] = strtoul(p, &p, 10);
			}
		} else if (!strncmp(line, "inv", 3)) {
			if (nh < 4096) hs[nh++] = atoi(line + 3);
		} else if (!strncmp(line, "del", 3)) {
			if (nh < 4096) hs[nh++] = -(atoi(line + 3) + 1);
		}
	}
	return 0;
}
