/* Stream `pfnint` (C07): the static bit-scan functions and the region builder
 * of pfn.c, reached by including the source file.
 *   scan <cl|cm|sl|sm> <align 0..3> <hex bitmap> <pfn>     > scan <result>
 *   regions <msb0 0|1> <start> <end> <fileoff> <elemsz> <hex>   > regions pfn:cnt:pos ...
 */
#define ENABLE_DEBUG 1
#include "src/kdumpfile/pfn.c"
#include <stdio.h>
#include <inttypes.h>

/* the only external symbol pfn.c needs under ENABLE_DEBUG */
kdump_status status_err(kdump_errmsg_t *err, kdump_status status, const char *msgfmt, ...) { return status; }

static unsigned char store[1 << 16] __attribute__((aligned(8)));

static size_t unhex(const char *h, unsigned char *out)
{
	size_t n = 0; unsigned v;
	while (h[0] && h[1] && sscanf(h, "%2x", &v) == 1) { out[n++] = v; h += 2; }
	return n;
}

int main(void)
{
	static char line[1 << 17], hex[1 << 17];
	setvbuf(stdout, NULL, _IOLBF, 0);
	while (fgets(line, sizeof line, stdin)) {
		char fn[8]; unsigned al, msb; uint64_t pfn, st, en, off, esz;
		if (sscanf(line, "scan %7s %u %s %" SCNu64, fn, &al, hex, &pfn) == 4) {
			unsigned char *bm = store + 8 + (al & 3);
			size_t n = unhex(hex, bm);
			kdump_pfn_t r;
			if (!strcmp(fn, "cl")) r = skip_clear_lsb0(bm, n, pfn);
			else if (!strcmp(fn, "cm")) r = skip_clear_msb0(bm, n, pfn);
			else if (!strcmp(fn, "sl")) r = skip_set_lsb0(bm, n, pfn);
			else r = skip_set_msb0(bm, n, pfn);
			printf("> scan %" PRIu64 "\n", (uint64_t)r);
		} else if (sscanf(line, "regions %u %" SCNu64 " %" SCNu64 " %" SCNu64 " %" SCNu64 " %s", &msb, &st, &en, &off, &esz, hex) == 6) {
			struct pfn_file_map pfm; kdump_errmsg_t err; char ebuf[128]; size_t i;
			unsigned char *bm = store + 8;
			memset(store, 0, sizeof store);
			unhex(hex, bm);
			memset(&pfm, 0, sizeof pfm);
			memset(&err, 0, sizeof err);
			(void)ebuf;
			if (pfn_regions_from_bitmap(&err, &pfm, bm, msb, st, en, off, esz) != KDUMP_OK) { puts("> regions FAILED"); continue; }
			printf("> regions");
			for (i = 0; i < pfm.nregions; ++i)
				printf(" %" PRIu64 ":%" PRIu64 ":%" PRIu64, (uint64_t)pfm.regions[i].pfn, (uint64_t)pfm.regions[i].cnt, (uint64_t)pfm.regions[i].pos);
			putchar('\n');
			free(pfm.regions);
		} else
			puts("> bad-op");
	}
	return 0;
}
