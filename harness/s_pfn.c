/* Stream `pfnint` (C07): the static bit-scan functions and the region builder
 * of pfn.c, reached by including the source file.
 *   scan <cl|cm|sl|sm> <align 0..3> <hex bitmap> <pfn>     > scan <result>
 *   regions <msb0 0|1> <start> <end> <fileoff> <elemsz> <hex>   > regions pfn:cnt:pos ...
 */
#define ENABLE_DEBUG 1
#include "src/kdumpfile/pfn.c"
#include <stdio.h>
#include <inttypes.h>

/* bit helpers of bitmap.c: the library's own (its symbols carry the private prefix) */
void _kdumpfile_priv_set_bits(unsigned char *buf, size_t start, size_t end);
void _kdumpfile_priv_clear_bits(unsigned char *buf, size_t start, size_t end);
void set_bits(unsigned char *buf, size_t start, size_t end) { _kdumpfile_priv_set_bits(buf, start, end); }
void clear_bits(unsigned char *buf, size_t start, size_t end) { _kdumpfile_priv_clear_bits(buf, start, end); }

/* the only other external symbol pfn.c needs under ENABLE_DEBUG */
kdump_status status_err(kdump_errmsg_t *err, kdump_status status, const char *msgfmt, ...) { return status; }

static unsigned char store[1 << 16] __attribute__((aligned(8)));

static size_t unhex(const char *h, unsigned char *out)
{
	size_t n = 0; unsigned v;
	while (h[0] && h[1] && sscanf(h, "%2x", &v) == 1) { out[n++] = v; h += 2; }
	return n;
}

int main(void)
{
	static char line[1 << 17], hex[1 << 17];
	setvbuf(stdout, NULL, _IOLBF, 0);
	while (fgets(line, sizeof line, stdin)) {
		char fn[8]; unsigned al, msb; uint64_t pfn, st, en, off, esz;
		if (sscanf(line, "scan %7s %u %s %" SCNu64, fn, &al, hex, &pfn) == 4) {
			unsigned char *bm = store + 8 + (al & 3);
			size_t n = unhex(hex, bm);
			kdump_pfn_t r;
			if (!strcmp(fn, "cl")) r = skip_clear_lsb0(bm, n, pfn);
			else if (!strcmp(fn, "cm")) r = skip_clear_msb0(bm, n, pfn);
			else if (!strcmp(fn, "sl")) r = skip_set_lsb0(bm, n, pfn);
			else r = skip_set_msb0(bm, n, pfn);
			printf("> scan %" PRIu64 "\n", (uint64_t)r);
		} else if (sscanf(line, "regions %u %" SCNu64 " %" SCNu64 " %" SCNu64 " %" SCNu64 " %s", &msb, &st, &en, &off, &esz, hex) == 6) {
			struct pfn_file_map pfm; kdump_errmsg_t err; char ebuf[128]; size_t i;
			unsigned char *bm = store + 8;
			memset(store, 0, sizeof store);
			unhex(hex, bm);
			memset(&pfm, 0, sizeof pfm);
			memset(&err, 0, sizeof err);
			(void)ebuf;
			if (pfn_regions_from_bitmap(&err, &pfm, bm, msb, st, en, off, esz) != KDUMP_OK) { puts("> regions FAILED"); continue; }
			printf("> regions");
			for (i = 0; i < pfm.nregions; ++i)
				printf(" %" PRIu64 ":%" PRIu64 ":%" PRIu64, (uint64_t)pfm.regions[i].pfn, (uint64_t)pfm.regions[i].cnt, (uint64_t)pfm.regions[i].pos);
			putchar('\n');
			free(pfm.regions);
		} else if (!strncmp(line, "maps ", 5)) {
			/* maps <pfn> <first> <last> s:e:rpfn:cnt ...   split-file maps (one region each) in the given order:
			 * sort_pfn_file_maps, then find_mapped_pfn / find_unmapped_pfn at pfn and get_pfn_map_bits(first,last) */
			struct pfn_file_map maps[16]; struct pfn_region rg[16]; size_t n = 0, i; char *p = line + 5;
			uint64_t q = strtoull(p, &p, 10), first = strtoull(p, &p, 10), last = strtoull(p, &p, 10), a, b, c, d;
			int k; kdump_pfn_t f; bool ok;
			unsigned char bits[64];
			while (n < 16 && sscanf(p, " %" SCNu64 ":%" SCNu64 ":%" SCNu64 ":%" SCNu64 "%n", &a, &b, &c, &d, &k) == 4) {
				memset(&maps[n], 0, sizeof maps[n]);
				rg[n].pfn = c; rg[n].cnt = d; rg[n].pos = 0;
				maps[n].regions = d ? &rg[n] : NULL; maps[n].nregions = d ? 1 : 0; maps[n].fidx = n;
				maps[n].start_pfn = a; maps[n].end_pfn = b;
				++n; p += k;
			}
			sort_pfn_file_maps(maps, n);
			printf("> maps");
			for (i = 0; i < n; ++i) printf(" %" PRIu64, (uint64_t)maps[i].end_pfn);
			f = q; ok = find_mapped_pfn(maps, n, &f);
			if (ok) printf(" set=%" PRIu64, (uint64_t)f); else printf(" set=-");
			printf(" clr=%" PRIu64, (uint64_t)find_unmapped_pfn(maps, n, q));
			if (last >= first && (last - first) / 8 < sizeof bits) {
				memset(bits, 0xA5, sizeof bits);
				get_pfn_map_bits(maps, n, first, last, bits);
				printf(" bits=");
				for (i = 0; i <= (last - first) / 8; ++i) printf("%02x", bits[i]);
			}
			putchar('\n');
		} else
			puts("> bad-op");
	}
	return 0;
}
