/* Stream `hist` (C04): long histories on one context, every observed call
 * repeated on a freshly opened context of the same files.
 *
 *   open <n> <path>...            > open <status>
 *   zx <0|1>                      file.zero_excluded on the history context AND on every
 *                                 later fresh context (it is an input of the call, not history)
 *                                                               > set <status>
 *   pgt <root-machphys-addr>      install KVADDR -> MACHPHYSADDR through 4-level x86-64 page
 *                                 tables stored in the dump (history and fresh contexts)
 *                                                               > pgt <status>
 *   setnum <key> <value>          history context only (cache.size, file.mmap_policy)
 *                                                               > set <status>
 *   read <as> <addr> <len>        > <status> <len> <fnv>
 *   str <as> <addr>               > str <status> <len> <fnv>
 *   attr <key>                    > attr <status> <value>
 *   bits <file|mem> <first> <last>  > bits <status> <hex>
 *   fset|fclr <file|mem> <idx>    > fset|fclr <status> <idx>
 *   stats                         > stats <cache.hits> <cache.misses>    (never compared with fresh)
 *   F <cmd>                       run <cmd> on a fresh context (default cache size and mmap policy)
 *   layout / seg / desc / ...     model-only lines, ignored
 * A trailing " C16:…" token is the C16 monitor verdict; C04 strips it before comparing.
 */
#include <fcntl.h>
#include <unistd.h>
#include "hcommon.h"
#include <libkdumpfile/addrxlat.h>

#define MAXF 16
static char paths[MAXF][512];
static int nfiles, fds[MAXF];
static int zx_set, zx_val;
static int pgt_set; static uint64_t pgt_root;

static kdump_status set_num(kdump_ctx_t *ctx, const char *key, uint64_t v)
{
	kdump_attr_t at;
	at.type = KDUMP_NUMBER; at.val.number = v;
	return kdump_set_attr(ctx, key, &at);
}

static const char *install_pgt(kdump_ctx_t *ctx, uint64_t root)
{
	addrxlat_ctx_t *ax; addrxlat_sys_t *sys; addrxlat_meth_t m; addrxlat_map_t *map;
	addrxlat_range_t r = { ADDRXLAT_ADDR_MAX, ADDRXLAT_SYS_METH_PGT };
	unsigned char tmp[8]; size_t n = 8;
	static const addrxlat_paging_form_t pf = { ADDRXLAT_PTE_X86_64, 5, { 12, 9, 9, 9, 9 } };
	set_num(ctx, "addrxlat.default.virt_bits", 48);
	kdump_read(ctx, KDUMP_MACHPHYSADDR, 0, tmp, &n);      /* forces the translation setup first */
	if (kdump_get_addrxlat(ctx, &ax, &sys) != KDUMP_OK) return "xlat-failed";
	memset(&m, 0, sizeof m);
	m.kind = ADDRXLAT_PGT; m.target_as = ADDRXLAT_MACHPHYSADDR;
	m.param.pgt.root.as = ADDRXLAT_MACHPHYSADDR; m.param.pgt.root.addr = root;
	m.param.pgt.pte_mask = 0; m.param.pgt.pf = pf;
	addrxlat_sys_set_meth(sys, ADDRXLAT_SYS_METH_PGT, &m);
	map = addrxlat_map_new();
	if (!map || addrxlat_map_set(map, 0, &r) != ADDRXLAT_OK) return "map-failed";
	addrxlat_sys_set_map(sys, ADDRXLAT_SYS_MAP_KV_PHYS, map);
	addrxlat_sys_decref(sys); addrxlat_ctx_decref(ax);
	return "ok";
}

static kdump_ctx_t *do_open(kdump_status *pst, int *myfds, int fresh)
{
	kdump_ctx_t *ctx = kdump_new();
	int i;
	for (i = 0; i < nfiles; ++i) myfds[i] = open(paths[i], O_RDONLY);
	*pst = kdump_open_fdset(ctx, nfiles, myfds);
	if (*pst == KDUMP_OK && fresh) {
		if (zx_set) set_num(ctx, "file.zero_excluded", zx_val);
		if (pgt_set) install_pgt(ctx, pgt_root);
	}
	return ctx;
}

static void show_attr(kdump_ctx_t *ctx, const char *key)
{
	kdump_attr_t a;
	kdump_status st = kdump_get_attr(ctx, key, &a);
	printf("> attr %s ", kstatus_name(st));
	if (st == KDUMP_OK) switch (a.type) {
	case KDUMP_NUMBER: printf("num:%" PRIu64, (uint64_t)a.val.number); break;
	case KDUMP_ADDRESS: printf("addr:%" PRIu64, (uint64_t)a.val.address); break;
	case KDUMP_STRING: printf("str:%s", a.val.string); break;
	case KDUMP_BITMAP: printf("bitmap"); break;
	case KDUMP_BLOB: printf("blob:%zu", kdump_blob_size(a.val.blob)); break;
	case KDUMP_DIRECTORY: printf("dir"); break;
	default: printf("type:%d", (int)a.type);
	}
	else printf("-");
	printf("%s\n", c16_monitor(ctx, st));
}

static void run_cmd(kdump_ctx_t *ctx, char *line)
{
	char key[256], which[16]; unsigned as; uint64_t a, b;
	if (sscanf(line, "attr %255s", key) == 1) {
		show_attr(ctx, key);
	} else if (sscanf(line, "read %u %" SCNu64 " %" SCNu64, &as, &a, &b) == 3) {
		size_t n = b; unsigned char *buf = malloc(n ? n : 1);
		kdump_status st = kdump_read(ctx, as, a, buf, &n);
		if (st != KDUMP_OK && getenv("HIST_ERR")) fprintf(stderr, "[%s] %s\n", line, kdump_get_err(ctx));
		printf("> %s %zu %" PRIu64 "%s\n", kstatus_name(st), n, n <= b ? fnv(buf, n) : 0, c16_monitor(ctx, st));
		free(buf);
	} else if (sscanf(line, "str %u %" SCNu64, &as, &a) == 2) {
		char *s = NULL;
		kdump_status st = kdump_read_string(ctx, as, a, &s);
		if (st == KDUMP_OK) { printf("> str ok %zu %" PRIu64, strlen(s), fnv((unsigned char *)s, strlen(s))); free(s); }
		else printf("> str %s 0 0", kstatus_name(st));
		printf("%s\n", c16_monitor(ctx, st));
	} else if (!strcmp(line, "stats")) {
		kdump_attr_t h, m;
		kdump_status s1 = kdump_get_attr(ctx, "cache.hits", &h), s2 = kdump_get_attr(ctx, "cache.misses", &m);
		if (s1 == KDUMP_OK && s2 == KDUMP_OK) printf("> stats %" PRIu64 " %" PRIu64 "\n", (uint64_t)h.val.number, (uint64_t)m.val.number);
		else printf("> stats - -\n");
	} else if (sscanf(line, "bits %15s %" SCNu64 " %" SCNu64, which, &a, &b) == 3 ||
		   sscanf(line, "fset %15s %" SCNu64, which, &a) == 2 ||
		   sscanf(line, "fclr %15s %" SCNu64, which, &a) == 2) {
		kdump_attr_t at; kdump_status st;
		st = kdump_get_attr(ctx, !strcmp(which, "mem") ? "memory.pagemap" : "file.pagemap", &at);
		if (st != KDUMP_OK || at.type != KDUMP_BITMAP) { printf("> %.4s nobitmap %s\n", line, kstatus_name(st)); return; }
		if (!strncmp(line, "bits", 4)) {
			size_t sz = ((b - a) >> 3) + 1, i;
			unsigned char *raw = malloc(sz);
			memset(raw, 0xA5, sz);
			st = kdump_bmp_get_bits(at.val.bitmap, a, b, raw);
			printf("> bits %s ", kstatus_name(st));
			for (i = 0; i < sz; ++i) printf("%02x", raw[i]);
			putchar('\n');
			free(raw);
		} else {
			kdump_addr_t idx = a;
			st = !strncmp(line, "fset", 4) ? kdump_bmp_find_set(at.val.bitmap, &idx) : kdump_bmp_find_clear(at.val.bitmap, &idx);
			printf("> %.4s %s %" PRIu64 "\n", line, kstatus_name(st), st == KDUMP_OK ? (uint64_t)idx : 0);
		}
	} else
		puts("> bad-op");
}

static void close_all(kdump_ctx_t *ctx, int *f)
{
	int i;
	kdump_free(ctx);
	for (i = 0; i < nfiles; ++i) close(f[i]);
}

int main(void)
{
	static char line[1 << 16];
	kdump_ctx_t *ctx = NULL;
	int i;
	setvbuf(stdout, NULL, _IOLBF, 0);
	while (fgets(line, sizeof line, stdin)) {
		char key[256]; uint64_t a;
		line[strcspn(line, "\n")] = 0;
		if (!strncmp(line, "open ", 5)) {
			char *p = line + 5; kdump_status st;
			if (ctx) { close_all(ctx, fds); ctx = NULL; }
			zx_set = pgt_set = 0;
			nfiles = strtol(p, &p, 10);
			if (nfiles > MAXF) nfiles = MAXF;
			for (i = 0; i < nfiles; ++i) {
				while (*p == ' ') ++p;
				size_t l = strcspn(p, " ");
				memcpy(paths[i], p, l); paths[i][l] = 0; p += l;
			}
			ctx = do_open(&st, fds, 0);
			printf("> open %s%s\n", kstatus_name(st), c16_monitor(ctx, st));
		} else if (!strcmp(line, "close")) {
			if (ctx) { close_all(ctx, fds); ctx = NULL; }
		} else if (!strncmp(line, "layout", 6) || !strncmp(line, "seg ", 4) || !strncmp(line, "desc ", 5) ||
			   !strncmp(line, "page ", 5) || !strncmp(line, "#", 1)) {
			;       /* description for the model */
		} else if (!ctx) {
			puts("> no-context");
		} else if (sscanf(line, "zx %" SCNu64, &a) == 1) {
			kdump_status st = set_num(ctx, "file.zero_excluded", a);
			zx_set = 1; zx_val = (int)a;
			printf("> set %s%s\n", kstatus_name(st), c16_monitor(ctx, st));
		} else if (sscanf(line, "pgt %" SCNu64, &a) == 1) {
			pgt_set = 1; pgt_root = a;
			printf("> pgt %s\n", install_pgt(ctx, a));
		} else if (sscanf(line, "setnum %255s %" SCNu64, key, &a) == 2) {
			kdump_status st = set_num(ctx, key, a);
			printf("> set %s%s\n", kstatus_name(st), c16_monitor(ctx, st));
		} else if (!strncmp(line, "F ", 2)) {
			int myfds[MAXF]; kdump_status st;
			kdump_ctx_t *f = do_open(&st, myfds, 1);
			if (st != KDUMP_OK) printf("> fresh-open-failed %s\n", kstatus_name(st));
			else run_cmd(f, line + 2);
			close_all(f, myfds);
		} else
			run_cmd(ctx, line);
	}
	if (ctx) close_all(ctx, fds);
	return 0;
}
