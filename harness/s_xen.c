/* Stream `xen` (C19): Xen domain dumps (xc_core in ELF).
 *
 * Two groups of operations share one binary.
 *
 * (A) the static functions of elfdump.c, reached by including the source file
 *     (ENABLE_DEBUG gives its internal references plain names; the few that the
 *     called functions need are stubbed below and serve an in-memory table):
 *   build <failAt> <n> <pfn>...        pfn2idx_map_start/add.../end on one map
 *        > build ok|system R <pfn>:<idx>:<len> ... S <pfn>:<idx> ...
 *   search <pfn>                       > search <idx>|none
 *   tbl <shift> <swap> <mapoff> <pagesoff> <nonauto> <n> <pfn> <mfn> ...
 *        builds xen_pfnmap (and xen_mfnmap if nonauto) from the decoded values
 *        in list order and stores the records in dump byte order
 *        > tbl ok|system
 *   p2m <addr> / m2p <addr>            xc_p2m_first_step / xc_m2p_first_step
 *        > p2m ok <base> <idx0> <remain> <elemsz> | p2m nodata
 *   gp <as> <addr>                     xc_get_page
 *        > gp ok <file offset> <len> | gp nodata
 *
 * (B) the public API on a generated dump file:
 *   open <path> <virt_bits>            > open <status>          (a new context)
 *   reopen <path> <virt_bits> <how>    the context that is open is given another dump (how=0: kdump_open_fd,
 *        how=1: the file.fd attribute is set again); the old descriptor is closed afterwards
 *        > reopen <status>
 *   page <as> <frame>                  > page <status> <idx> <pfn> <uniform>
 *   rd <as> <addr>                     8 bytes at addr: > rd <status> <hex>
 *   conv <from> <to> <addr>            > conv ok <addr> | conv fail
 *   reinit <fetch> <os> <key> <n|a|s|c|x> <value>       (<os>: expectation for the model, ignored here)
 *        sets (n: number, a: address, s: string), clears (c) or leaves alone (x) an attribute that marks the
 *        address translation dirty; fetch=1: the application then asks for the translation
 *        handles again (kdump_get_addrxlat re-initialises the system and returns the same
 *        objects), fetch=0: the next kdump_read re-initialises it lazily
 *        > reinit <status of the set> <ok|fail: kdump_get_addrxlat | ->
 *   kv <addr>                          a read in the kernel virtual space (needs translation, so it
 *        runs the lazy set-up; its result is not part of this stream)        > kv done
 *   close
 * Lines the harness does not know (`dump …`, the layout for the model) print
 * nothing.
 */
#define ENABLE_DEBUG 1
#include "src/kdumpfile/elfdump.c"
#include <stdio.h>
#include <inttypes.h>
#include <fcntl.h>
#include <unistd.h>
#include "alloc.h"

static const char *kstatus_name(kdump_status st)
{
	switch ((int)st) {
	case KDUMP_OK: return "ok";
	case KDUMP_ERR_SYSTEM: return "system";
	case KDUMP_ERR_NOTIMPL: return "notimpl";
	case KDUMP_ERR_NODATA: return "nodata";
	case KDUMP_ERR_CORRUPT: return "corrupt";
	case KDUMP_ERR_INVALID: return "invalid";
	case KDUMP_ERR_NOKEY: return "nokey";
	case KDUMP_ERR_EOF: return "eof";
	case KDUMP_ERR_BUSY: return "busy";
	case KDUMP_ERR_ADDRXLAT: return "addrxlat";
	}
	return "UNDOCUMENTED";
}
static const char *xstatus_name(addrxlat_status st)
{
	switch ((int)st) {
	case ADDRXLAT_OK: return "ok";
	case ADDRXLAT_ERR_NOTIMPL: return "notimpl";
	case ADDRXLAT_ERR_NOTPRESENT: return "notpresent";
	case ADDRXLAT_ERR_INVALID: return "invalid";
	case ADDRXLAT_ERR_NOMEM: return "nomem";
	case ADDRXLAT_ERR_NODATA: return "nodata";
	case ADDRXLAT_ERR_NOMETH: return "nometh";
	}
	return (int)st < 0 ? "custom" : "UNDOCUMENTED";
}

/* ---- (A) in-memory stand-ins for what the included functions reference ---- */
static struct xen_p2m *memtbl;          /* records in dump byte order */
static size_t memtbl_n;
static off_t mem_mapoff;
static off_t last_chunk_pos; static size_t last_chunk_len;

kdump_status set_error(kdump_ctx_t *ctx, kdump_status ret, const char *msgfmt, ...) { return ret; }

kdump_status fcache_pread(struct fcache *fc, void *buf, size_t len, unsigned fidx, off_t pos)
{
	off_t rel = pos - mem_mapoff;
	if (rel < 0 || (uint64_t)rel + len > memtbl_n * sizeof *memtbl)
		return KDUMP_ERR_EOF;
	memcpy(buf, (char *)memtbl + rel, len);
	return KDUMP_OK;
}
kdump_status fcache_get_chunk(struct fcache *fc, struct fcache_chunk *fch, size_t len, unsigned fidx, off_t pos)
{
	last_chunk_pos = pos; last_chunk_len = len;
	fch->data = NULL; fch->nent = 0;
	return KDUMP_OK;
}
/* referenced only through the format_ops tables (kept alive by ASan's global registration), never called */
kdump_status cache_get_page(struct page_io *pio, read_page_fn *fn) { abort(); }
void cache_put_page(struct page_io *pio) { abort(); }
kdump_status vtop_init(kdump_ctx_t *ctx) { abort(); }
kdump_status addrxlat2kdump(kdump_ctx_t *ctx, addrxlat_status status) { abort(); }
kdump_status def_realloc_caches(kdump_ctx_t *ctx) { abort(); }
kdump_status flatmap_pread_flat(struct flattened_map *map, void *buf, size_t len, unsigned fidx, off_t pos) { abort(); }
kdump_status flatmap_get_chunk_flat(struct flattened_map *map, struct fcache_chunk *fch, size_t len, unsigned fidx, off_t pos) { abort(); }

static struct pfn2idx_map onemap; static int onemap_live;
static struct kdump_shared *fshared; static struct elfdump_priv fedp; static kdump_ctx_t *fctx;
static struct flattened_map *fflat; static addrxlat_ctx_t *faxctx; static int tbl_live;

static void show_map(struct pfn2idx_map *m)
{
	size_t i;
	printf(" R");
	for (i = 0; i < m->nranges; ++i)
		printf(" %" PRIu64 ":%" PRIu64 ":%" PRId64, (uint64_t)m->ranges[i].pfn, (uint64_t)m->ranges[i].idx, (int64_t)m->ranges[i].len);
	printf(" S");
	for (i = 0; i < m->nsingles; ++i)
		printf(" %" PRIu64 ":%" PRIu64, (uint64_t)m->singles[i].pfn, (uint64_t)m->singles[i].idx);
}

static kdump_status build_one(struct pfn2idx_map *m, const uint64_t *v, size_t n, size_t stride)
{
	struct pfn2idx_range cur; size_t i; kdump_status st = KDUMP_OK;
	/* poison: pfn2idx_map_start leaves cur.pfn unset */
	memset(&cur, 0xA5, sizeof cur);
	pfn2idx_map_start(m, &cur);
	for (i = 0; i < n && st == KDUMP_OK; ++i)
		st = pfn2idx_map_add(m, &cur, v[i * stride]);
	if (st == KDUMP_OK)
		st = pfn2idx_map_end(m, &cur);
	return st;
}

static uint64_t *parse_list(char *p, size_t n)
{
	uint64_t *v = __real_malloc((n ? n : 1) * sizeof *v); size_t i;
	for (i = 0; i < n; ++i) v[i] = strtoull(p, &p, 0);
	return v;
}

static void free_tbl(void)
{
	if (!tbl_live) return;
	pfn2idx_map_free(&fedp.xen_pfnmap);
	pfn2idx_map_free(&fedp.xen_mfnmap);
	__real_free(memtbl); memtbl = NULL;
	tbl_live = 0;
}

/* ---- (B) public API ---- */
static kdump_ctx_t *ctx; static int fd = -1; static unsigned pshift;
static addrxlat_ctx_t *axctx; static addrxlat_sys_t *axsys;

static void do_close(void)
{
	if (axsys) addrxlat_sys_decref(axsys);
	if (axctx) addrxlat_ctx_decref(axctx);
	axsys = NULL; axctx = NULL;
	if (ctx) kdump_free(ctx);
	ctx = NULL;
	if (fd >= 0) close(fd);
	fd = -1;
}

/* the realloc calls of one open (for `openf`) */
#define RR_MAX 4096
static struct { void *oldp, *newp; } rr[RR_MAX]; static size_t nrr;
static void rr_hook(void *oldp, void *newp, size_t n)
{
	if (nrr < RR_MAX) { rr[nrr].oldp = oldp; rr[nrr].newp = newp; ++nrr; }
}

int main(void)
{
	static char line[1 << 20];
	setvbuf(stdout, NULL, _IOLBF, 0);
	fshared = __real_calloc(1, sizeof *fshared);
	fctx = __real_calloc(1, sizeof *fctx);
	fflat = __real_calloc(1, sizeof *fflat + sizeof fflat->fmap[0]);
	fctx->shared = fshared; fshared->fmtdata = &fedp; fshared->flatmap = fflat;
	pthread_mutex_init(&fshared->cache_lock, NULL);
	faxctx = addrxlat_ctx_new();
	while (fgets(line, sizeof line, stdin)) {
		char path[512]; char *p; unsigned long failat, n; unsigned as, as2, shift, swap, nonauto, vbits; uint64_t a, mo, po;
		int used;
		line[strcspn(line, "\n")] = 0;
		if (sscanf(line, "build %lu %lu%n", &failat, &n, &used) == 2) {
			uint64_t *v = parse_list(line + used, n); kdump_status st;
			if (onemap_live) pfn2idx_map_free(&onemap);
			alloc_reset(); alloc_fail_at = failat;
			st = build_one(&onemap, v, n, 1);
			alloc_reset();
			onemap_live = 1;
			printf("> build %s", kstatus_name(st));
			if (st == KDUMP_OK) show_map(&onemap);
			else { pfn2idx_map_free(&onemap); onemap_live = 0; }
			putchar('\n');
			__real_free(v);
		} else if (sscanf(line, "search %" SCNu64, &a) == 1) {
			uint_fast64_t r;
			if (!onemap_live) { puts("> search nomap"); continue; }
			r = pfn2idx_map_search(&onemap, a);
			if (r == IDX_NONE) puts("> search none"); else printf("> search %" PRIu64 "\n", (uint64_t)r);
		} else if (sscanf(line, "tbl %u %u %" SCNu64 " %" SCNu64 " %u %lu%n", &shift, &swap, &mo, &po, &nonauto, &n, &used) == 6) {
			uint64_t *v = parse_list(line + used, 2 * n); size_t i; kdump_status st;
			free_tbl();
			memtbl = __real_malloc((n ? n : 1) * sizeof *memtbl); memtbl_n = n; mem_mapoff = mo;
			for (i = 0; i < n; ++i) {
				memtbl[i].pfn = swap ? __builtin_bswap64(v[2 * i]) : v[2 * i];
				memtbl[i].gmfn = swap ? __builtin_bswap64(v[2 * i + 1]) : v[2 * i + 1];
			}
			memset(&fedp, 0, sizeof fedp);
			fedp.xen_map_offset = mo; fedp.xen_pages_offset = po;
			fshared->page_shift.number = shift; fshared->page_size.number = (size_t)1 << shift;
			fshared->byte_order.number = swap ? KDUMP_BIG_ENDIAN : KDUMP_LITTLE_ENDIAN;
			fshared->xen_xlat.number = nonauto ? KDUMP_XEN_NONAUTO : KDUMP_XEN_AUTO;
			st = build_one(&fedp.xen_pfnmap, v, n, 2);
			if (st == KDUMP_OK && nonauto) st = build_one(&fedp.xen_mfnmap, v + 1, n, 2);
			tbl_live = 1;
			printf("> tbl %s\n", kstatus_name(st));
			__real_free(v);
		} else if (sscanf(line, "p2m %" SCNu64, &a) == 1 || sscanf(line, "m2p %" SCNu64, &a) == 1) {
			addrxlat_step_t step; addrxlat_meth_t meth; addrxlat_status st;
			if (!tbl_live) { puts("> notbl"); continue; }
			memset(&step, 0, sizeof step); memset(&meth, 0, sizeof meth);
			meth.kind = ADDRXLAT_CUSTOM; meth.param.custom.data = fshared;
			step.ctx = faxctx; step.meth = &meth;
			st = line[0] == 'p' ? xc_p2m_first_step(&step, a) : xc_m2p_first_step(&step, a);
			addrxlat_ctx_clear_err(faxctx);
			if (st == ADDRXLAT_OK)
				printf("> %.3s ok %" PRIu64 " %" PRIu64 " %u %u\n", line, (uint64_t)step.base.addr, (uint64_t)step.idx[0], step.remain, step.elemsz);
			else
				printf("> %.3s %s\n", line, xstatus_name(st));
		} else if (sscanf(line, "gp %u %" SCNu64, &as, &a) == 2) {
			struct page_io pio; kdump_status st;
			if (!tbl_live) { puts("> notbl"); continue; }
			memset(&pio, 0, sizeof pio);
			pio.ctx = fctx; pio.addr.as = as; pio.addr.addr = a;
			last_chunk_pos = -1; last_chunk_len = 0;
			st = xc_get_page(&pio);
			if (st == KDUMP_OK) printf("> gp ok %" PRId64 " %zu\n", (int64_t)last_chunk_pos, last_chunk_len);
			else printf("> gp %s\n", kstatus_name(st));
		} else if (sscanf(line, "openf %lu %*s %*s %511s %u", &failat, path, &vbits) == 3) {
			/* openf <n> <map> <k> <path> <virt_bits>: `open` with the n-th realloc() call of kdump_open_fd failing
			 * (<map> <k> tell the model which index array that is).  n = 0: nothing fails, and a line
			 * `# reallocs <labels>` names the array each realloc call of the open grew: P/p ranges/singles of the
			 * guest-frame index, M/m of the machine-frame index, - anything else */
			kdump_status st; kdump_attr_t at;
			do_close();
			ctx = kdump_new();
			fd = open(path, O_RDONLY);
			nrr = 0; alloc_realloc_hook = rr_hook;
			alloc_realloc_count = 0; alloc_realloc_fail_at = failat;
			st = kdump_open_fd(ctx, fd);
			alloc_realloc_fail_at = 0; alloc_realloc_hook = NULL;
			if (st == KDUMP_OK && !failat) {
				struct elfdump_priv *edp = ctx->shared->fmtdata;
				void *cur[4]; char lab[RR_MAX + 1]; size_t i; int t;
				cur[0] = edp->xen_pfnmap.ranges; cur[1] = edp->xen_pfnmap.singles;
				cur[2] = edp->xen_mfnmap.ranges; cur[3] = edp->xen_mfnmap.singles;
				for (i = nrr; i-- > 0; ) {
					lab[i] = '-';
					for (t = 0; t < 4; ++t)
						if (cur[t] && rr[i].newp == cur[t]) { lab[i] = "PpMm"[t]; cur[t] = rr[i].oldp; break; }
				}
				lab[nrr] = 0;
				printf("# reallocs %s\n", lab);
			}
			if (st == KDUMP_OK && vbits) {
				kdump_status s2 = kdump_set_number_attr(ctx, KDUMP_ATTR_XLAT_DEFAULT ".virt_bits", vbits);
				(void)s2; kdump_clear_err(ctx);
			}
			if (st == KDUMP_OK) {
				if (kdump_get_attr(ctx, KDUMP_ATTR_PAGE_SHIFT, &at) == KDUMP_OK) pshift = at.val.number;
				if (kdump_get_addrxlat(ctx, &axctx, &axsys) != KDUMP_OK) { axctx = NULL; axsys = NULL; }
				kdump_clear_err(ctx);
			}
			printf("> open %s\n", kstatus_name(st));
			if (st != KDUMP_OK) { fprintf(stderr, "openf %lu: %s\n", failat, kdump_get_err(ctx)); do_close(); }
		} else if (sscanf(line, "open %511s %u", path, &vbits) == 2) {
			kdump_status st; kdump_attr_t at;
			do_close();
			ctx = kdump_new();
			fd = open(path, O_RDONLY);
			st = kdump_open_fd(ctx, fd);
			if (st == KDUMP_OK && vbits) {
				/* no CPU state in the dump: tell addrxlat the paging mode */
				kdump_status s2 = kdump_set_number_attr(ctx, KDUMP_ATTR_XLAT_DEFAULT ".virt_bits", vbits);
				(void)s2; kdump_clear_err(ctx);
			}
			if (st == KDUMP_OK) {
				if (kdump_get_attr(ctx, KDUMP_ATTR_PAGE_SHIFT, &at) == KDUMP_OK) pshift = at.val.number;
				if (kdump_get_addrxlat(ctx, &axctx, &axsys) != KDUMP_OK) { axctx = NULL; axsys = NULL; }
				kdump_clear_err(ctx);
			}
			printf("> open %s\n", kstatus_name(st));
			if (st != KDUMP_OK) { fprintf(stderr, "open: %s\n", kdump_get_err(ctx)); do_close(); }
		} else if (sscanf(line, "reopen %511s %u %u", path, &vbits, &as) == 3) {
			/* the SAME context is given another dump: as=0 kdump_open_fd, as=1 the file.fd attribute */
			kdump_status st; kdump_attr_t at; int nfd;
			if (!ctx) { puts("> reopen noctx"); continue; }
			if (axsys) addrxlat_sys_decref(axsys);
			if (axctx) addrxlat_ctx_decref(axctx);
			axsys = NULL; axctx = NULL;
			nfd = open(path, O_RDONLY);
			st = as ? kdump_set_number_attr(ctx, KDUMP_ATTR_FILE_FD, nfd) : kdump_open_fd(ctx, nfd);
			if (fd >= 0) close(fd);
			fd = nfd;
			if (st == KDUMP_OK && vbits) {
				kdump_status s2 = kdump_set_number_attr(ctx, KDUMP_ATTR_XLAT_DEFAULT ".virt_bits", vbits);
				(void)s2; kdump_clear_err(ctx);
			}
			if (st == KDUMP_OK) {
				if (kdump_get_attr(ctx, KDUMP_ATTR_PAGE_SHIFT, &at) == KDUMP_OK) pshift = at.val.number;
				if (kdump_get_addrxlat(ctx, &axctx, &axsys) != KDUMP_OK) {
					fprintf(stderr, "reopen get_addrxlat: %s\n", kdump_get_err(ctx));
					axctx = NULL; axsys = NULL;
				}
				kdump_clear_err(ctx);
			}
			printf("> reopen %s\n", kstatus_name(st));
			if (st != KDUMP_OK) { fprintf(stderr, "reopen: %s\n", kdump_get_err(ctx)); do_close(); }
		} else if (!strcmp(line, "close")) {
			do_close();
		} else if (sscanf(line, "page %u %" SCNu64, &as, &a) == 2) {
			size_t ps = (size_t)1 << pshift, len = ps, i; kdump_status st; unsigned char *buf; int uni = 1;
			if (!ctx) { puts("> page noctx"); continue; }
			buf = __real_malloc(ps);
			st = kdump_read(ctx, as, a << pshift, buf, &len);
			if (st == KDUMP_OK && len == ps) {
				uint64_t tag[2];
				memcpy(tag, buf, 16);
				for (i = 16; i < ps; i += 16) if (memcmp(buf + i, buf, 16)) uni = 0;
				printf("> page ok %" PRIu64 " %" PRIu64 " %d\n", tag[0], tag[1], uni);
			} else if (st == KDUMP_OK)
				printf("> page short %zu\n", len);
			else
				printf("> page %s%s\n", kstatus_name(st), *kdump_get_err(ctx) ? "" : " C16:empty-message");
			kdump_clear_err(ctx);
			__real_free(buf);
		} else if (sscanf(line, "rd %u %" SCNu64, &as, &a) == 2) {
			size_t len = 8, i; unsigned char buf[8]; kdump_status st;
			if (!ctx) { puts("> rd noctx"); continue; }
			st = kdump_read(ctx, as, a, buf, &len);
			printf("> rd %s ", kstatus_name(st));
			if (st == KDUMP_OK) for (i = 0; i < len; ++i) printf("%02x", buf[i]); else putchar('-');
			putchar('\n');
			kdump_clear_err(ctx);
		} else if (sscanf(line, "conv %u %u %" SCNu64, &as, &as2, &a) == 3) {
			addrxlat_fulladdr_t fa; addrxlat_status st;
			if (!ctx || !axsys) { puts("> conv noctx"); continue; }
			fa.as = as; fa.addr = a;
			st = addrxlat_fulladdr_conv(&fa, as2, axctx, axsys);
			if (st == ADDRXLAT_OK) printf("> conv ok %" PRIu64 "\n", (uint64_t)fa.addr);
			else printf("> conv fail\n");   /* nodata from the first step surfaces as nometh: any failure = missing */
			addrxlat_ctx_clear_err(axctx);
		} else if (!strncmp(line, "reinit ", 7)) {
			char key[256], kind[8], val[256]; unsigned fetch, os; kdump_attr_t at; kdump_status st, s2 = KDUMP_OK;
			if (sscanf(line, "reinit %u %u %255s %7s %255s", &fetch, &os, key, kind, val) != 5) { puts("> bad-op"); continue; }
			if (!ctx) { puts("> reinit noctx"); continue; }
			switch (kind[0]) {
			case 'n': at.type = KDUMP_NUMBER; at.val.number = strtoull(val, NULL, 0); break;
			case 'a': at.type = KDUMP_ADDRESS; at.val.address = strtoull(val, NULL, 0); break;
			case 's': at.type = KDUMP_STRING; at.val.string = val; break;
			default: at.type = KDUMP_NIL; break;
			}
			st = kind[0] == 'x' ? KDUMP_OK : kdump_set_attr(ctx, key, &at);     /* x: no change, only ask again */
			if (st != KDUMP_OK) fprintf(stderr, "reinit set %s: %s\n", key, kdump_get_err(ctx));
			kdump_clear_err(ctx);
			if (fetch) {
				addrxlat_ctx_t *c2 = NULL; addrxlat_sys_t *s2p = NULL;
				s2 = kdump_get_addrxlat(ctx, &c2, &s2p);
				if (s2 == KDUMP_OK) {
					if (axsys) addrxlat_sys_decref(axsys);
					if (axctx) addrxlat_ctx_decref(axctx);
					axctx = c2; axsys = s2p;
				} else fprintf(stderr, "reinit get_addrxlat after %s: %s\n", key, kdump_get_err(ctx));
				kdump_clear_err(ctx);
				printf("> reinit %s %s\n", kstatus_name(st), s2 == KDUMP_OK ? "ok" : "fail");   /* which failure: not part of the stream */
			} else
				printf("> reinit %s -\n", kstatus_name(st));
		} else if (sscanf(line, "kv %" SCNu64, &a) == 1) {
			size_t len = 8; unsigned char buf[8];
			if (!ctx) { puts("> kv noctx"); continue; }
			(void)kdump_read(ctx, KDUMP_KVADDR, a, buf, &len);
			kdump_clear_err(ctx);
			puts("> kv done");
		} else if (!strncmp(line, "dump ", 5) || !line[0] || line[0] == '#') {
			;
		} else
			puts("> bad-op");
	}
	do_close();
	return 0;
}
