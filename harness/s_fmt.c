/* Stream `fmt`: public API on real dump files (C01, C04, C07, C11, C15 …).
 *
 *   open <n> <path>...            > open <status>
 *   F <cmd>                       run <cmd> on a freshly opened context of the same files
 *   attr <key>                    > attr <status> <value>
 *   setnum <key> <value>          > set <status>
 *   probe <as> <addr> <ps>        > <status> <hex | ->
 *   read <as> <addr> <len>        > <status> <len> <fnv>
 *   rdc <as> <addr> <len>         > <status> <len> <crc32>          (C01)
 *   L <anything>                  layout line for the model driver, ignored here
 *   bits <file|mem> <first> <last>  > bits <status> <hex>
 *   fset|fclr <file|mem> <idx>    > fset|fclr <status> <idx>
 *   fault <off> <0|1>             > fault ok        (with -DFMT_FAULT, C01) the next 16-byte fcache_pread() at file
 *                                 offset <off> (an LKCD page descriptor) fails once: 0 = KDUMP_ERR_SYSTEM (EIO), 1 = KDUMP_ERR_BUSY
 *   unfault                       > fault fired|pending    and disarms
 *   vsym|vline <hexname|->        > vsym <status> <num | ->   /  > vline <status> <hex>. | -   then ` | <error string | ->`  (kdump_vmcoreinfo_symbol / _line)
 *   close
 *   tree                          > tree key=value|key=value|...   (whole attribute tree)
 * Every line also carries the C16 monitor verdict (status documented, message
 * present iff failure).  Buffers are allocated at their exact size so that
 * ASan reports any write outside them.
 */
#include <fcntl.h>
#include <unistd.h>
#include <zlib.h>
#include "hcommon.h"

#ifdef FMT_FAULT
/* one transient failure of a descriptor read, injected at the cross-TU call lkcd.c -> fcache_pread()
 * (link with -Wl,--wrap=_kdumpfile_priv_fcache_pread) */
#include <errno.h>
struct fcache;
kdump_status __real__kdumpfile_priv_fcache_pread(struct fcache *, void *, size_t, unsigned, off_t);
static int fault_armed, fault_fired, fault_kind; static off_t fault_off;
kdump_status __wrap__kdumpfile_priv_fcache_pread(struct fcache *fc, void *buf, size_t len, unsigned fidx, off_t pos)
{
	if (fault_armed && len == 16 && pos == fault_off) {
		fault_armed = 0; fault_fired = 1;
		if (fault_kind) return KDUMP_ERR_BUSY;
		errno = EIO;
		return KDUMP_ERR_SYSTEM;
	}
	return __real__kdumpfile_priv_fcache_pread(fc, buf, len, fidx, pos);
}
#endif

#define MAXF 16
static char paths[MAXF][512];
static int nfiles, fds[MAXF];

static kdump_ctx_t *do_open(kdump_status *pst, int *myfds)
{
	kdump_ctx_t *ctx = kdump_new();
	int i;
	for (i = 0; i < nfiles; ++i) myfds[i] = open(paths[i], O_RDONLY);
	*pst = kdump_open_fdset(ctx, nfiles, myfds);
	return ctx;
}

static void show_attr(kdump_ctx_t *ctx, const char *key)
{
	kdump_attr_t a;
	kdump_status st = kdump_get_attr(ctx, key, &a);
	printf("> attr %s ", kstatus_name(st));
	if (st == KDUMP_OK) switch (a.type) {
	case KDUMP_NUMBER: printf("num:%" PRIu64, (uint64_t)a.val.number); break;
	case KDUMP_ADDRESS: printf("addr:%" PRIu64, (uint64_t)a.val.address); break;
	case KDUMP_STRING: printf("str:%s", a.val.string); break;
	case KDUMP_BITMAP: printf("bitmap"); break;
	case KDUMP_BLOB: printf("blob:%zu", kdump_blob_size(a.val.blob)); break;
	case KDUMP_DIRECTORY: printf("dir"); break;
	default: printf("type:%d", (int)a.type);
	}
	else printf("-");
	printf("%s\n", c16_monitor(ctx, st));
}

/* `tree`: the whole attribute tree on one line, `key=value` separated by `|`
 * (C11: compared between a plain dump and its flattened / split variants). */
static void dump_tree(kdump_ctx_t *ctx, const kdump_attr_ref_t *dir, const char *prefix)
{
	kdump_attr_iter_t it;
	if (kdump_attr_ref_iter_start(ctx, dir, &it) != KDUMP_OK) { printf("%s=ITER-FAILED|", prefix); return; }
	while (it.key) {
		char path[512]; kdump_attr_t a; kdump_status st;
		snprintf(path, sizeof path, "%s%s%s", prefix, *prefix ? "." : "", it.key);
		if (kdump_attr_ref_type(&it.pos) == KDUMP_DIRECTORY)
			dump_tree(ctx, &it.pos, path);
		else if (!kdump_attr_ref_isset(&it.pos))
			printf("%s=unset|", path);
		else if ((st = kdump_attr_ref_get(ctx, &it.pos, &a)) != KDUMP_OK)
			printf("%s=ERR:%s|", path, kstatus_name(st));
		else {
			printf("%s=", path);
			switch (a.type) {
			case KDUMP_NUMBER: printf("num:%" PRIu64, (uint64_t)a.val.number); break;
			case KDUMP_ADDRESS: printf("addr:%" PRIu64, (uint64_t)a.val.address); break;
			case KDUMP_STRING: {
				const char *c;
				printf("str:");
				for (c = a.val.string; *c; ++c)
					if (*c < 0x20 || *c == '|' || *c == 0x7f) printf("\\x%02x", (unsigned char)*c); else putchar(*c);
				break;
			}
			case KDUMP_BITMAP: printf("bitmap"); break;
			case KDUMP_BLOB: {
				size_t n = kdump_blob_size(a.val.blob);
				void *d = kdump_blob_pin(a.val.blob);
				printf("blob:%zu:%" PRIu64, n, d ? fnv(d, n) : 0);
				kdump_blob_unpin(a.val.blob);
				break;
			}
			default: printf("type:%d", (int)a.type);
			}
			putchar('|');
		}
		if (kdump_attr_iter_next(ctx, &it) != KDUMP_OK) break;
	}
	kdump_attr_iter_end(ctx, &it);
}

static void run_cmd(kdump_ctx_t *ctx, char *line)
{
	char key[256], which[16]; unsigned as, ps; uint64_t a, b;
	if (sscanf(line, "attr %255s", key) == 1) {
		show_attr(ctx, key);
	} else if (sscanf(line, "setnum %255s %" SCNu64, key, &a) == 2) {
		kdump_attr_t at; kdump_status st;
		at.type = KDUMP_NUMBER; at.val.number = a;
		st = kdump_set_attr(ctx, key, &at);
		printf("> set %s%s\n", kstatus_name(st), c16_monitor(ctx, st));
	} else if (!strncmp(line, "setfn ", 6)) {
		/* the optional file name used in messages: `setfn -` removes it again */
		const char *name = strcmp(line + 6, "-") ? line + 6 : NULL;
		kdump_status st = kdump_set_filename(ctx, name);
		printf("> setfn %s%s\n", kstatus_name(st), c16_monitor(ctx, st));
	} else if (!strncmp(line, "reopen ", 7)) {
		/* another file on the same context (the descriptor stays open until the process ends) */
		int fd = open(line + 7, O_RDONLY);
		kdump_status st = kdump_open_fd(ctx, fd);
		const char *e = kdump_get_err(ctx);
		printf("> reopen %s msg=%s%s\n", kstatus_name(st), st == KDUMP_OK ? "-" : (e && strstr(e, "file #0")) ? "names-file#0" : "other",
		       c16_monitor(ctx, st));
	} else if (!strncmp(line, "setstr ", 7)) {
		char val[256]; kdump_attr_t at; kdump_status st;
		if (sscanf(line, "setstr %255s %255s", key, val) != 2) { puts("> bad-op"); return; }
		at.type = KDUMP_STRING; at.val.string = val;
		st = kdump_set_attr(ctx, key, &at);
		printf("> set %s%s\n", kstatus_name(st), c16_monitor(ctx, st));
	} else if (sscanf(line, "probe %u %" SCNu64 " %u", &as, &a, &ps) == 3) {
		size_t n = ps, i; unsigned char *buf = malloc(n);
		kdump_status st = kdump_read(ctx, as, a, buf, &n);
		printf("> %s ", kstatus_name(st));
		if (st == KDUMP_OK) for (i = 0; i < n; ++i) printf("%02x", buf[i]); else printf("-");
		printf("%s\n", c16_monitor(ctx, st));
		free(buf);
	} else if (sscanf(line, "read %u %" SCNu64 " %" SCNu64, &as, &a, &b) == 3) {
		size_t n = b; unsigned char *buf = malloc(n ? n : 1);
		kdump_status st = kdump_read(ctx, as, a, buf, &n);
		printf("> %s %zu %" PRIu64 "%s\n", kstatus_name(st), n, n <= b ? fnv(buf, n) : 0, c16_monitor(ctx, st));
		free(buf);
	} else if (sscanf(line, "bits %15s %" SCNu64 " %" SCNu64, which, &a, &b) == 3 ||
		   sscanf(line, "fset %15s %" SCNu64, which, &a) == 2 ||
		   sscanf(line, "fclr %15s %" SCNu64, which, &a) == 2) {
		kdump_attr_t at; kdump_status st;
		st = kdump_get_attr(ctx, !strcmp(which, "mem") ? "memory.pagemap" : "file.pagemap", &at);
		if (st != KDUMP_OK || at.type != KDUMP_BITMAP) { printf("> %.4s nobitmap %s\n", line, kstatus_name(st)); return; }
		if (!strncmp(line, "bits", 4)) {
			size_t sz = ((b - a) >> 3) + 1, i;
			unsigned char *raw = malloc(sz);
			memset(raw, 0xA5, sz);
			st = kdump_bmp_get_bits(at.val.bitmap, a, b, raw);
			printf("> bits %s ", kstatus_name(st));
			for (i = 0; i < sz; ++i) printf("%02x", raw[i]);
			putchar('\n');
			free(raw);
		} else {
			kdump_addr_t idx = a;
			st = !strncmp(line, "fset", 4) ? kdump_bmp_find_set(at.val.bitmap, &idx) : kdump_bmp_find_clear(at.val.bitmap, &idx);
			printf("> %.4s %s %" PRIu64 "%s\n", line, kstatus_name(st), st == KDUMP_OK ? (uint64_t)idx : 0,
			       (st != KDUMP_OK && !*kdump_bmp_get_err(at.val.bitmap)) ? " C16:empty-message" : "");
		}
	} else if (sscanf(line, "rdc %u %" SCNu64 " %" SCNu64, &as, &a, &b) == 3) {
		/* C01: like `read`, but the digest is CRC-32 (cheap to recompute for the oracle); the buffer is
		 * pre-filled so that bytes the library does not deliver cannot pass for data */
		size_t n = b; unsigned char *buf = malloc(n ? n : 1);
		kdump_status st;
		memset(buf, 0xA5, n ? n : 1);
		st = kdump_read(ctx, as, a, buf, &n);
		printf("> %s %zu %lu%s\n", kstatus_name(st), n, n <= b ? (unsigned long)crc32(0L, buf, n) : 0UL, c16_monitor(ctx, st));
		free(buf);
	} else if (!strncmp(line, "L ", 2) || !strncmp(line, "dd", 2) || !strncmp(line, "msb0", 4) || !strncmp(line, "elf ", 4) || !strncmp(line, "seg ", 4)) {
		;       /* layout description for the model */
#ifdef FMT_FAULT
	} else if (sscanf(line, "fault %" SCNu64 " %u", &a, &as) == 2) {
		fault_off = (off_t)a; fault_kind = as; fault_armed = 1; fault_fired = 0;
		puts("> fault ok");
	} else if (!strcmp(line, "unfault")) {
		printf("> fault %s\n", fault_fired ? "fired" : "pending");
		fault_armed = fault_fired = 0;
#endif
	} else if (!strncmp(line, "vsym ", 5) || !strncmp(line, "vline ", 6)) {
		/* VMCOREINFO look-ups by name; the name is hex-coded (`-` = the empty name) so that every byte can occur */
		int sym = line[1] == 's'; const char *h = line + (sym ? 5 : 6); char name[256]; size_t n = 0; kdump_status st;
		if (strcmp(h, "-")) for (; h[0] && h[1] && n < sizeof name - 1; h += 2) { unsigned v; sscanf(h, "%2x", &v); name[n++] = (char)v; }
		name[n] = 0;
		if (sym) {
			kdump_addr_t v = 0;
			st = kdump_vmcoreinfo_symbol(ctx, name, &v);
			printf("> vsym %s ", kstatus_name(st));
			if (st == KDUMP_OK) printf("%" PRIu64, (uint64_t)v); else printf("-");
		} else {
			char *v = NULL;
			st = kdump_vmcoreinfo_line(ctx, name, &v);
			printf("> vline %s ", kstatus_name(st));
			if (st == KDUMP_OK) { for (h = v; *h; ++h) printf("%02x", (unsigned char)*h); putchar('.'); free(v); } else printf("-");
		}
		{ const char *e = kdump_get_err(ctx); printf("%s | %s\n", c16_monitor(ctx, st), e && *e ? e : "-"); }
	} else if (!strcmp(line, "tree")) {
		kdump_attr_ref_t root;
		kdump_status st = kdump_attr_ref(ctx, NULL, &root);
		if (st != KDUMP_OK) { printf("> tree %s\n", kstatus_name(st)); return; }
		printf("> tree ");
		dump_tree(ctx, &root, "");
		putchar('\n');
		kdump_attr_unref(ctx, &root);
	} else
		puts("> bad-op");
}

int main(void)
{
	static char line[1 << 16];
	kdump_ctx_t *ctx = NULL;
	int i;
	setvbuf(stdout, NULL, _IOLBF, 0);
	while (fgets(line, sizeof line, stdin)) {
		line[strcspn(line, "\n")] = 0;
		if (!strncmp(line, "open ", 5)) {
			char *p = line + 5; kdump_status st;
			if (ctx) { kdump_free(ctx); for (i = 0; i < nfiles; ++i) close(fds[i]); ctx = NULL; }
			nfiles = strtol(p, &p, 10);
			for (i = 0; i < nfiles && i < MAXF; ++i) {
				while (*p == ' ') ++p;
				size_t l = strcspn(p, " ");
				memcpy(paths[i], p, l); paths[i][l] = 0; p += l;
			}
			ctx = do_open(&st, fds);
			printf("> open %s%s\n", kstatus_name(st), c16_monitor(ctx, st));
		} else if (!strcmp(line, "close")) {
			if (ctx) { kdump_free(ctx); for (i = 0; i < nfiles; ++i) close(fds[i]); ctx = NULL; }
		} else if (!strncmp(line, "F ", 2)) {
			int myfds[MAXF]; kdump_status st;
			kdump_ctx_t *f = do_open(&st, myfds);
			if (st != KDUMP_OK) printf("> fresh-open-failed %s\n", kstatus_name(st));
			else run_cmd(f, line + 2);
			kdump_free(f);
			for (i = 0; i < nfiles; ++i) close(myfds[i]);
		} else if (ctx)
			run_cmd(ctx, line);
		else
			puts("> no-context");
	}
	if (ctx) { kdump_free(ctx); for (i = 0; i < nfiles; ++i) close(fds[i]); }
	return 0;
}
