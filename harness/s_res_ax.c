/* Stream `res` (C15), helper translation unit: looks into the private read
 * cache of an addrxlat context (addrxlat-priv.h cannot be included together
 * with kdumpfile-priv.h).  Number of pages currently lent to the context by
 * its get_page callback = slots whose buffer has a non-zero size. */
#include "src/addrxlat/addrxlat-priv.h"

int ax_lent(addrxlat_ctx_t *ctx)
{
	int i, n = 0;
	for (i = 0; i < READ_CACHE_SLOTS; ++i)
		if (ctx->cache.slot[i].buffer.size)
			++n;
	return n;
}

unsigned long ax_ctx_refcnt(addrxlat_ctx_t *ctx) { return ctx->refcnt; }

/* a 64-bit read through the context's read cache: do_read64() -> get_cache_buf() -> top get_page callback */
int ax_read64(addrxlat_ctx_t *ctx, int as, unsigned long long addr, unsigned long long *val)
{
	addrxlat_fulladdr_t fa;
	uint64_t v = 0;
	addrxlat_status st;
	fa.as = as; fa.addr = addr;
	st = do_read64(ctx, &fa, &v);
	*val = v;
	if (st != ADDRXLAT_OK) addrxlat_ctx_clear_err(ctx);
	return (int)st;
}

/* state of the read cache: slots in array order ("as:addr" of the lent page, "-" when empty), then the MRU ring as slot indices */
void ax_state(addrxlat_ctx_t *ctx, char *out, unsigned long sz)
{
	unsigned long n = 0;
	int i;
	struct read_cache_slot *sl;
	n += snprintf(out + n, sz - n, "s=");
	for (i = 0; i < READ_CACHE_SLOTS && n < sz; ++i) {
		addrxlat_buffer_t *b = &ctx->cache.slot[i].buffer;
		if (b->size) n += snprintf(out + n, sz - n, "%s%d:%llu", i ? "," : "", (int)b->addr.as, (unsigned long long)b->addr.addr);
		else n += snprintf(out + n, sz - n, "%s-", i ? "," : "");
	}
	n += snprintf(out + n, sz - n, " o=");
	for (i = 0, sl = ctx->cache.mru; i < READ_CACHE_SLOTS && n < sz; ++i, sl = sl->next)
		n += snprintf(out + n, sz - n, "%s%d", i ? "," : "", (int)(sl - ctx->cache.slot));
}

int ax_nslots(void) { return READ_CACHE_SLOTS; }
