/* Stream `res` (C15), helper translation unit: looks into the private read
 * cache of an addrxlat context (addrxlat-priv.h cannot be included together
 * with kdumpfile-priv.h).  Number of pages currently lent to the context by
 * its get_page callback = slots whose buffer has a non-zero size. */
#include "src/addrxlat/addrxlat-priv.h"

int ax_lent(addrxlat_ctx_t *ctx)
{
	int i, n = 0;
	for (i = 0; i < READ_CACHE_SLOTS; ++i)
		if (ctx->cache.slot[i].buffer.size)
			++n;
	return n;
}

unsigned long ax_ctx_refcnt(addrxlat_ctx_t *ctx) { return ctx->refcnt; }
