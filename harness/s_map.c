/* Stream `map` (C10): the real addrxlat_map_* functions with realloc failing
 * on schedule.  See lean/Driver/Map.lean for the protocol. */
#include <stdio.h>
#include <stdlib.h>
#include <string.h>
#include <inttypes.h>
#include <libkdumpfile/addrxlat.h>
#include "alloc.h"

static addrxlat_map_t *maps[4];

static void show(const char *pfx, addrxlat_map_t *m)
{
	size_t i, n = m ? addrxlat_map_len(m) : 0;
	const addrxlat_range_t *r = m ? addrxlat_map_ranges(m) : NULL;
	printf("> %s %zu", pfx, n);
	for (i = 0; i < n; ++i)
		printf(" %" PRIu64 ":%ld", (uint64_t)r[i].endoff, (long)r[i].meth);
	putchar('\n');
}

int main(void)
{
	char line[512];
	setvbuf(stdout, NULL, _IOLBF, 0);
	for (int i = 0; i < 4; ++i) maps[i] = addrxlat_map_new();
	while (fgets(line, sizeof line, stdin)) {
		unsigned id, dst, a1, a2;
		uint64_t addr, endoff; long meth;
		if (sscanf(line, "new %u", &id) == 1 && id < 4) {
			addrxlat_map_decref(maps[id]);
			maps[id] = addrxlat_map_new();
			show("ok", maps[id]);
		} else if (sscanf(line, "set %u %" SCNu64 " %" SCNu64 " %ld %u", &id, &addr, &endoff, &meth, &a1) == 5 && id < 4) {
			addrxlat_range_t r = { endoff, meth };
			addrxlat_status st;
			alloc_plan(a1 ? ~0UL : 0UL, 8);
			st = addrxlat_map_set(maps[id], addr, &r);
			alloc_reset();
			show(st == ADDRXLAT_OK ? "ok" : st == ADDRXLAT_ERR_NOMEM ? "nomem" : "other", maps[id]);
		} else if (sscanf(line, "reinst %u", &id) == 1 && id < 4) {
			/* the map lives in a translation system that holds its only reference; it is fetched and
			 * installed again (get, modify, set back), then handed back to the harness */
			static addrxlat_sys_t *sys;
			addrxlat_map_t *m;
			if (!sys) sys = addrxlat_sys_new();
			addrxlat_sys_set_map(sys, ADDRXLAT_SYS_MAP_KV_PHYS, maps[id]);
			addrxlat_map_decref(maps[id]);
			m = addrxlat_sys_get_map(sys, ADDRXLAT_SYS_MAP_KV_PHYS);
			addrxlat_sys_set_map(sys, ADDRXLAT_SYS_MAP_KV_PHYS, m);
			m = addrxlat_sys_get_map(sys, ADDRXLAT_SYS_MAP_KV_PHYS);
			addrxlat_map_incref(m);
			addrxlat_sys_set_map(sys, ADDRXLAT_SYS_MAP_KV_PHYS, NULL);
			maps[id] = m;
			show("ok", m);
		} else if (sscanf(line, "search %u %" SCNu64, &id, &addr) == 2 && id < 4) {
			printf("> %ld\n", (long)addrxlat_map_search(maps[id], addr));
		} else if (sscanf(line, "copy %u %u %u %u", &id, &dst, &a1, &a2) == 4 && id < 4 && dst < 4) {
			addrxlat_map_t *c;
			alloc_plan((a1 ? 1 : 0) | (a2 ? 2 : 0), 2);
			c = addrxlat_map_copy(maps[id]);
			alloc_reset();
			if (c) {
				if (dst != id) { addrxlat_map_decref(maps[dst]); maps[dst] = c; show("copy ok", c); }
				else { show("copy ok", c); addrxlat_map_decref(maps[dst]); maps[dst] = c; }
			} else
				puts("> copy null");
		} else
			puts("> bad-op");
	}
	for (int i = 0; i < 4; ++i) addrxlat_map_decref(maps[i]);
	return 0;
}
