/* Stream `map` (C10): the real addrxlat_map_* functions with realloc failing
 * on schedule.  See lean/Driver/Map.lean for the protocol. */
#include <stdio.h>
#include <stdlib.h>
#include <string.h>
#include <inttypes.h>
#include <libkdumpfile/addrxlat.h>
#include "addrxlat-priv.h"	/* sys_set_layout(), struct os_init_data, struct sys_region */
#include "alloc.h"

static addrxlat_map_t *maps[4];

/* layout tables: a translation system whose slots KV_PHYS (target) and KPHYS_DIRECT (reverse direct map, filled
 * by the direct action) start out as NULL */
static addrxlat_sys_t *lsys;
static addrxlat_ctx_t *lctx;

static void showslot(addrxlat_map_t *m)
{
	size_t i, n = m ? addrxlat_map_len(m) : 0;
	const addrxlat_range_t *r = m ? addrxlat_map_ranges(m) : NULL;
	if (!m) { printf(" null"); return; }
	printf(" %zu", n);
	for (i = 0; i < n; ++i)
		printf(" %" PRIu64 ":%ld", (uint64_t)r[i].endoff, (long)r[i].meth);
}

static void show(const char *pfx, addrxlat_map_t *m)
{
	size_t i, n = m ? addrxlat_map_len(m) : 0;
	const addrxlat_range_t *r = m ? addrxlat_map_ranges(m) : NULL;
	printf("> %s %zu", pfx, n);
	for (i = 0; i < n; ++i)
		printf(" %" PRIu64 ":%ld", (uint64_t)r[i].endoff, (long)r[i].meth);
	putchar('\n');
}

int main(void)
{
	static char line[4096];
	setvbuf(stdout, NULL, _IOLBF, 0);
	for (int i = 0; i < 4; ++i) maps[i] = addrxlat_map_new();
	while (fgets(line, sizeof line, stdin)) {
		unsigned id, dst, a1, a2;
		uint64_t addr, endoff; long meth;
		if (!strncmp(line, "lnew", 4)) {
			if (lsys) addrxlat_sys_decref(lsys);
			lsys = addrxlat_sys_new();
			if (!lctx) lctx = addrxlat_ctx_new();
			puts("> ok");
		} else if (!strncmp(line, "osinit ", 7)) {
			/* osinit <arch> <k> : addrxlat_sys_os_init(arch, os_type=linux) on a fresh translation system with the
			 * k-th allocation failing; all maps of the system are shown (implementation only, no model) */
			char arch[32]; unsigned long k, cnt; unsigned i;
			addrxlat_opt_t opts[2]; addrxlat_sys_t *sys; addrxlat_status st;
			if (sscanf(line + 7, "%31s %lu", arch, &k) != 2) { puts("> bad-op"); continue; }
			if (!lctx) lctx = addrxlat_ctx_new();
			sys = addrxlat_sys_new();
			addrxlat_opt_arch(&opts[0], arch);
			addrxlat_opt_os_type(&opts[1], "linux");
			addrxlat_ctx_clear_err(lctx);
			alloc_reset();
			alloc_fail_at = k;
			st = addrxlat_sys_os_init(sys, lctx, 2, opts);
			cnt = alloc_count;
			alloc_reset();
			printf("> osinit %d allocs %lu", (int)st, cnt);
			for (i = 0; i < ADDRXLAT_SYS_MAP_NUM; ++i) {
				printf(" |");
				showslot(addrxlat_sys_get_map(sys, i));
			}
			putchar('\n');
			addrxlat_sys_decref(sys);
		} else if (!strncmp(line, "osmod ", 6)) {
			/* osmod <arch> <virt_bits|0> <rootpgt 0|1> <slot> <addr> <endoff> <meth> : the maps that
			 * addrxlat_sys_os_init() (a client of addrxlat_map_copy) leaves in a fresh translation system are
			 * shown, a caller assigns one range on the map of <slot>, all maps are shown again
			 * (implementation only, no model) */
			char arch[32]; unsigned long vb; unsigned rp, slot, i, no = 0;
			uint64_t a, eo; long m;
			addrxlat_opt_t opts[4]; addrxlat_sys_t *sys; addrxlat_status st, st2 = -1;
			addrxlat_fulladdr_t root = { 0, ADDRXLAT_KPHYSADDR };
			addrxlat_map_t *map;
			if (sscanf(line + 6, "%31s %lu %u %u %" SCNu64 " %" SCNu64 " %ld", arch, &vb, &rp, &slot, &a, &eo, &m) != 7
			    || slot >= ADDRXLAT_SYS_MAP_NUM) { puts("> bad-op"); continue; }
			if (!lctx) lctx = addrxlat_ctx_new();
			sys = addrxlat_sys_new();
			addrxlat_opt_arch(&opts[no++], arch);
			addrxlat_opt_os_type(&opts[no++], "linux");
			if (vb) addrxlat_opt_virt_bits(&opts[no++], vb);
			if (rp) addrxlat_opt_rootpgt(&opts[no++], &root);
			addrxlat_ctx_clear_err(lctx);
			alloc_reset();
			st = addrxlat_sys_os_init(sys, lctx, no, opts);
			printf("> osmod %d", (int)st);
			for (i = 0; i < ADDRXLAT_SYS_MAP_NUM; ++i) {
				printf(" |");
				showslot(addrxlat_sys_get_map(sys, i));
			}
			map = addrxlat_sys_get_map(sys, slot);
			if (map) {
				addrxlat_range_t r = { eo, m };
				st2 = addrxlat_map_set(map, a, &r);
			}
			printf(" # %d", (int)st2);
			for (i = 0; i < ADDRXLAT_SYS_MAP_NUM; ++i) {
				printf(" |");
				showslot(addrxlat_sys_get_map(sys, i));
			}
			putchar('\n');
			addrxlat_ctx_clear_err(lctx);
			addrxlat_sys_decref(sys);
		} else if (!strncmp(line, "layout ", 7)) {
			/* layout <k> <n> {<first> <last> <meth> <direct 0|1>}*n : sys_set_layout() of the table into slot
			 * KV_PHYS with the k-th allocation failing (k = 0: none) */
			static struct sys_region tab[34];
			struct os_init_data ctl;
			unsigned long k; unsigned n, i; int pos, adv;
			addrxlat_status st;
			if (!lsys) { lsys = addrxlat_sys_new(); lctx = addrxlat_ctx_new(); }
			if (sscanf(line + 7, "%lu %u%n", &k, &n, &pos) != 2 || n > 32) { puts("> bad-op"); continue; }
			for (i = 0; i < n; ++i) {
				uint64_t f, l; long m; unsigned d;
				if (sscanf(line + 7 + pos, " %" SCNu64 " %" SCNu64 " %ld %u%n", &f, &l, &m, &d, &adv) != 4) break;
				pos += adv;
				tab[i].first = f; tab[i].last = l; tab[i].meth = m;
				tab[i].act = d ? SYS_ACT_DIRECT : SYS_ACT_NONE;
			}
			if (i != n) { puts("> bad-op"); continue; }
			tab[n].first = tab[n].last = 0; tab[n].meth = ADDRXLAT_SYS_METH_NUM; tab[n].act = SYS_ACT_NONE;
			memset(&ctl, 0, sizeof ctl);
			ctl.sys = lsys; ctl.ctx = lctx;
			addrxlat_ctx_clear_err(lctx);
			alloc_reset();
			alloc_fail_at = k;
			st = sys_set_layout(&ctl, ADDRXLAT_SYS_MAP_KV_PHYS, tab);
			alloc_reset();
			printf("> %s M", st == ADDRXLAT_OK ? "ok" : st == ADDRXLAT_ERR_NOMEM ? "nomem" : "other");
			showslot(addrxlat_sys_get_map(lsys, ADDRXLAT_SYS_MAP_KV_PHYS));
			printf(" R");
			showslot(addrxlat_sys_get_map(lsys, ADDRXLAT_SYS_MAP_KPHYS_DIRECT));
			putchar('\n');
		} else if (sscanf(line, "new %u", &id) == 1 && id < 4) {
			addrxlat_map_decref(maps[id]);
			maps[id] = addrxlat_map_new();
			show("ok", maps[id]);
		} else if (sscanf(line, "set %u %" SCNu64 " %" SCNu64 " %ld %u", &id, &addr, &endoff, &meth, &a1) == 5 && id < 4) {
			addrxlat_range_t r = { endoff, meth };
			addrxlat_status st;
			alloc_plan(a1 ? ~0UL : 0UL, 8);
			st = addrxlat_map_set(maps[id], addr, &r);
			alloc_reset();
			show(st == ADDRXLAT_OK ? "ok" : st == ADDRXLAT_ERR_NOMEM ? "nomem" : "other", maps[id]);
		} else if (sscanf(line, "reinst %u", &id) == 1 && id < 4) {
			/* the map lives in a translation system that holds its only reference; it is fetched and
			 * installed again (get, modify, set back), then handed back to the harness */
			static addrxlat_sys_t *sys;
			addrxlat_map_t *m;
			if (!sys) sys = addrxlat_sys_new();
			addrxlat_sys_set_map(sys, ADDRXLAT_SYS_MAP_KV_PHYS, maps[id]);
			addrxlat_map_decref(maps[id]);
			m = addrxlat_sys_get_map(sys, ADDRXLAT_SYS_MAP_KV_PHYS);
			addrxlat_sys_set_map(sys, ADDRXLAT_SYS_MAP_KV_PHYS, m);
			m = addrxlat_sys_get_map(sys, ADDRXLAT_SYS_MAP_KV_PHYS);
			addrxlat_map_incref(m);
			addrxlat_sys_set_map(sys, ADDRXLAT_SYS_MAP_KV_PHYS, NULL);
			maps[id] = m;
			show("ok", m);
		} else if (sscanf(line, "search %u %" SCNu64, &id, &addr) == 2 && id < 4) {
			printf("> %ld\n", (long)addrxlat_map_search(maps[id], addr));
		} else if (sscanf(line, "copy %u %u %u %u", &id, &dst, &a1, &a2) == 4 && id < 4 && dst < 4) {
			addrxlat_map_t *c;
			alloc_plan((a1 ? 1 : 0) | (a2 ? 2 : 0), 2);
			c = addrxlat_map_copy(maps[id]);
			alloc_reset();
			if (c) {
				if (dst != id) { addrxlat_map_decref(maps[dst]); maps[dst] = c; show("copy ok", c); }
				else { show("copy ok", c); addrxlat_map_decref(maps[dst]); maps[dst] = c; }
			} else
				puts("> copy null");
		} else
			puts("> bad-op");
	}
	for (int i = 0; i < 4; ++i) addrxlat_map_decref(maps[i]);
	return 0;
}
