"""C17, Python binding on a dump's context: every kdumpfile.get_addrxlat_ctx() call wraps the dump object's translation
context in one more addrxlat.Context object, i.e. stacks one more callback layer whose methods are the pass-through
next_cb_* methods.  Page-table walks through 1..3 such layers must fetch the same page-table entries as a reference walk
done with plain kdumpfile.read() calls (0 layers): libkdumpfile's get_page hook returns whole pages and moves the buffer
address down to the page boundary, page-table entries sit at addresses that are not page aligned.  Reads of kernel virtual
addresses by the dump object itself (`kvread`) must give the same bytes -- or fail with the same exception class -- whether or
not such layers sit on its context: a page fetch that fails in the dump (e.g. behind the end of a truncated file) comes back
to libkdumpfile through the layers as a negative status number.

usage: py_dumpwalk.py <dump> <root physical address (hex)> <vaddr (hex)> ...
One line per observation:  <what> <vaddr> <layers> -> <outcome>"""
import sys
import kdumpfile
import addrxlat

path = sys.argv[1]
root_phys = int(sys.argv[2], 16)
vaddrs = [int(x, 16) for x in sys.argv[3:]]

k = kdumpfile.kdumpfile(path)
k.attr['addrxlat.ostype'] = 'linux'
xsys = k.get_addrxlat_sys()
pgt = xsys.get_meth(addrxlat.SYS_METH_PGT)


def outcome(f, *a):
    try:
        return "val %s" % (f(*a),)
    except BaseException as e:
        return "exc %s" % type(e).__name__


def ref_walk(vaddr):
    """4-level x86-64 walk with k.read() only; returns the physical address, as the Step walk below reports it"""
    table = root_phys
    for shift in (39, 30, 21, 12):
        idx = (vaddr >> shift) & 0x1ff
        pte = int.from_bytes(bytes(k.read(kdumpfile.KDUMP_KPHYSADDR, table + 8 * idx, 8)), 'little')
        if not pte & 1:
            raise LookupError('not present')
        table = pte & 0x000ffffffffff000
    return "%x" % (table | (vaddr & 0xfff))


def step_walk(ctx, vaddr):
    step = addrxlat.Step(ctx=ctx, sys=xsys, meth=pgt)
    step.launch(vaddr)
    while step.remain > 1:
        step.step()
    return "%x" % (step.base.addr + step.idx[0] * step.elemsz)


def conv_walk(ctx, vaddr):
    fa = addrxlat.FullAddress(addrxlat.KVADDR, vaddr)
    fa.conv(addrxlat.KPHYSADDR, ctx, xsys)
    return "%x" % fa.addr


def page_word(ctx, addr):
    """the 64-bit word at a physical address, fetched through the layer's page hook: the buffer may start below the address"""
    fa = addrxlat.FullAddress(addrxlat.KPHYSADDR, addr)
    r = ctx.cb_get_page(fa)
    data = bytes(r[0])
    off = addr - fa.addr
    return "%x@%x+%x" % (int.from_bytes(data[off:off + 8], 'little'), fa.addr, off)


def ref_word(addr):
    pg = addr & ~0xfff
    return "%x@%x+%x" % (int.from_bytes(bytes(k.read(kdumpfile.KDUMP_KPHYSADDR, addr, 8)), 'little'), pg, addr - pg)


def kv_read(vaddr):
    """8 bytes at a kernel virtual address, read by libkdumpfile itself: its C code translates the address through the callback
    chain (all layers stacked so far) and gets the status of its own page hook back as a number"""
    return bytes(k.read(kdumpfile.KDUMP_KVADDR, vaddr, 8)).hex()


def observe(ctx, n, tag=""):
    for v in vaddrs:
        print("%skvread %x %d -> %s" % (tag, v, n, outcome(kv_read, v)))
        if ctx is None:
            print("%swalk %x %d -> %s" % (tag, v, n, outcome(ref_walk, v)))
            print("%sconv %x %d -> %s" % (tag, v, n, outcome(ref_walk, v)))
            print("%sword %x %d -> %s" % (tag, v, n, outcome(ref_word, root_phys + 8 * ((v >> 39) & 0x1ff))))
        else:
            print("%swalk %x %d -> %s" % (tag, v, n, outcome(step_walk, ctx, v)))
            print("%sconv %x %d -> %s" % (tag, v, n, outcome(conv_walk, ctx, v)))
            print("%sword %x %d -> %s" % (tag, v, n, outcome(page_word, ctx, root_phys + 8 * ((v >> 39) & 0x1ff))))
    sys.stdout.flush()


observe(None, 0)
layers = []
for depth in (1, 2, 3):
    layers.append(k.get_addrxlat_ctx())          # one more pass-through layer
    observe(layers[-1], depth)
# remove the layers from the bottom: the remaining top layer must still work
while len(layers) > 1:
    del layers[0]
    observe(layers[-1], len(layers), "again ")
print("done")
