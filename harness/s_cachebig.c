/* C06 probe (no sanitizer: 5 GiB of untouched address space): a cache whose buffers take more than 4 GiB —
 * every entry of the first half owns its own buffer, data + i * elemsize, no two entries share one.
 *   > big ok <n> | > big alias <i> <j> | > big wrong <i> | > big skipped (allocation refused) */
#define ENABLE_DEBUG 1
#include "src/kdumpfile/cache.c"
#include <stdio.h>
#include <inttypes.h>

int main(void)
{
	static const struct { unsigned n; size_t sz; } cfg[] = { { 5, (size_t)1 << 30 }, { 3, ((size_t)1 << 31) + 4096 }, { 65537, 65536 } };
	unsigned k, i, j;
	for (k = 0; k < sizeof cfg / sizeof cfg[0]; ++k) {
		struct cache *c = cache_alloc(cfg[k].n, cfg[k].sz);
		int bad = 0;
		if (!c) { puts("> big skipped"); continue; }
		for (i = 0; i < c->cap && !bad; ++i) {
			if ((uintptr_t)c->ce[i].data != (uintptr_t)c->data + (uintptr_t)i * c->elemsize) { printf("> big wrong %u\n", i); bad = 1; break; }
			for (j = (i > 3 ? i - 3 : 0); j < i; ++j)
				if (c->ce[i].data == c->ce[j].data) { printf("> big alias %u %u\n", j, i); bad = 1; break; }
		}
		for (i = c->cap; i < 2 * c->cap && !bad; ++i)
			if (c->ce[i].data) { printf("> big wrong %u\n", i); bad = 1; }
		if (!bad) printf("> big ok %u\n", c->cap);
		cache_free(c);
	}
	return 0;
}
