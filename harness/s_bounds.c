/* Stream `bounds` (C03): the real parsing steps whose indices come from the file,
 * run on generated field values; protocol in lean/Driver/Bounds.lean.
 *
 * The static functions are reached by including the source files (without
 * ENABLE_DEBUG, so their references resolve to the library objects; the only
 * external definitions of notes.c, flatmap.c and diskdump.c are then taken from
 * this translation unit and the archive members are not pulled in).
 * Cross-TU calls are intercepted with -Wl,--wrap:
 *   _kdumpfile_priv_fcache_get_chunk, _kdumpfile_priv_pfn_regions_from_bitmap, addrxlat_map_set
 * Every buffer has its exact size (ASan).
 */
#define _GNU_SOURCE
#include "src/kdumpfile/notes.c"
#include "src/kdumpfile/flatmap.c"
#include "src/kdumpfile/diskdump.c"
#include <stdio.h>
#include <inttypes.h>
#include <fcntl.h>
#include <unistd.h>
#include <sys/mman.h>

static const char *stname(kdump_status st)
{
	switch ((int)st) {
	case KDUMP_OK: return "ok";
	case KDUMP_ERR_SYSTEM: return "system";
	case KDUMP_ERR_NOTIMPL: return "notimpl";
	case KDUMP_ERR_NODATA: return "nodata";
	case KDUMP_ERR_CORRUPT: return "corrupt";
	case KDUMP_ERR_INVALID: return "invalid";
	case KDUMP_ERR_NOKEY: return "nokey";
	case KDUMP_ERR_EOF: return "eof";
	case KDUMP_ERR_BUSY: return "busy";
	case KDUMP_ERR_ADDRXLAT: return "addrxlat";
	}
	return "UNDOCUMENTED";
}

static size_t unhex(const char *h, unsigned char **out)
{
	size_t n = strlen(h) / 2, i;
	unsigned char *p = malloc(n ? n : 1);
	for (i = 0; i < n; ++i) { unsigned v; sscanf(h + 2 * i, "%2x", &v); p[i] = v; }
	*out = realloc(p, n ? n : 1);		/* exact size */
	return n;
}

/* ---- interception ---- */
static int gc_mode;			/* 0 pass through, 1 record + succeed with empty chunk, 2 record + fail */
static int gc_called;
static size_t gc_len;
static off_t gc_pos;
kdump_status __real__kdumpfile_priv_fcache_get_chunk(struct fcache *fc, struct fcache_chunk *fch, size_t len, unsigned fidx, off_t pos);
kdump_status __wrap__kdumpfile_priv_fcache_get_chunk(struct fcache *fc, struct fcache_chunk *fch, size_t len, unsigned fidx, off_t pos)
{
	if (!gc_mode)
		return __real__kdumpfile_priv_fcache_get_chunk(fc, fch, len, fidx, pos);
	gc_called++; gc_len = len; gc_pos = pos;
	if (gc_mode == 2)
		return KDUMP_ERR_NODATA;
	fch->data = NULL; fch->nent = 0;
	return KDUMP_OK;
}

static int rg_called;
static kdump_pfn_t rg_start, rg_end;
static off_t rg_fileoff;
kdump_status __wrap__kdumpfile_priv_pfn_regions_from_bitmap(kdump_errmsg_t *err, struct pfn_file_map *pfm, const unsigned char *bitmap,
							    bool is_msb0, kdump_pfn_t start_pfn, kdump_pfn_t end_pfn, off_t fileoff, off_t elemsz)
{
	rg_called++; rg_start = start_pfn; rg_end = end_pfn; rg_fileoff = fileoff;
	return KDUMP_OK;
}

#define MAXSET 4096
static int ms_rec, ms_n;
static struct { uint64_t addr, endoff; long meth; } ms[MAXSET];
addrxlat_status __real_addrxlat_map_set(addrxlat_map_t *map, addrxlat_addr_t addr, const addrxlat_range_t *range);
addrxlat_status __wrap_addrxlat_map_set(addrxlat_map_t *map, addrxlat_addr_t addr, const addrxlat_range_t *range)
{
	if (ms_rec && ms_n < MAXSET) { ms[ms_n].addr = addr; ms[ms_n].endoff = range->endoff; ms[ms_n].meth = range->meth; ++ms_n; }
	return __real_addrxlat_map_set(map, addr, range);
}

/* ---- notes ---- */
static unsigned char *nt_base;
static char *nt_out; static size_t nt_len; static FILE *nt_f; static unsigned nt_cnt;
static kdump_status rec_note(kdump_ctx_t *ctx, Elf32_Word type, const char *name, size_t namesz, void *desc, size_t descsz)
{
	fprintf(nt_f, " %u:%td:%zu:%td:%zu", (unsigned)type, (unsigned char *)name - nt_base, namesz, (unsigned char *)desc - nt_base, descsz);
	++nt_cnt;
	return KDUMP_OK;
}

/* ---- flat state ---- */
static struct flattened_map *fl_map;
static kdump_ctx_t *fl_ctx;
static int fl_fd = -1;

static void fl_reset(void)
{
	if (fl_map) { flatmap_free(fl_map); fl_map = NULL; }
	if (fl_ctx) { kdump_free(fl_ctx); fl_ctx = NULL; }
	if (fl_fd >= 0) { close(fl_fd); fl_fd = -1; }
}

int main(void)
{
	static char line[1 << 20], hex[1 << 20];
	setvbuf(stdout, NULL, _IOLBF, 0);
	while (fgets(line, sizeof line, stdin)) {
		uint64_t a, b, c, d; long long sa; unsigned be;
		hex[0] = 0;
		if (sscanf(line, "rle %" SCNu64 " %s", &a, hex) >= 1 && !strncmp(line, "rle ", 4)) {
			unsigned char *src, *dst = malloc(a);
			size_t n = unhex(hex, &src), dl = a, i;
			int r = uncompress_rle(dst, &dl, src, n);
			if (r) puts("> rle err");
			else {
				printf("> rle ok %zu ", dl);
				for (i = 0; i < dl && i < a; ++i) printf("%02x", dst[i]);
				putchar('\n');
			}
			free(src); free(dst);
		} else if (sscanf(line, "notes %u %s", &be, hex) >= 1 && !strncmp(line, "notes ", 6)) {
			kdump_ctx_t *ctx = kdump_new();
			unsigned char *data;
			size_t n = unhex(hex, &data);
			kdump_status st;
			set_byte_order(ctx, be ? KDUMP_BIG_ENDIAN : KDUMP_LITTLE_ENDIAN);
			nt_base = data; nt_cnt = 0;
			nt_f = open_memstream(&nt_out, &nt_len);
			st = do_notes(ctx, data, n, rec_note);
			fclose(nt_f);
			if (st == KDUMP_OK) printf("> notes %u%s\n", nt_cnt, nt_out);
			else printf("> notes status %s\n", stname(st));
			free(nt_out); free(data);
			kdump_free(ctx);
		} else if (sscanf(line, "ddhdr %lld %" SCNu64 " %" SCNu64, &sa, &a, &b) == 3) {
			kdump_ctx_t *ctx = kdump_new();
			kdump_status st = try_header(ctx, (int32_t)sa, (uint32_t)a, (uint32_t)b);
			printf("> ddhdr %s\n", st == KDUMP_OK ? "accept" : st == KDUMP_ERR_CORRUPT ? "reject" : stname(st));
			kdump_free(ctx);
		} else if (sscanf(line, "ddbmp %" SCNu64 " %lld %" SCNu64 " %" SCNu64, &a, &sa, &b, &c) == 4) {
			kdump_ctx_t *ctx = kdump_new();
			struct disk_dump_priv *ddp = calloc(1, sizeof *ddp + sizeof ddp->pdmap[0]);
			struct pfn_file_map *pdmap = &ddp->pdmap[0];
			kdump_status st;
			ddp->num_files = 1;
			ctx->shared->fmtdata = ddp;
			ctx->shared->flatmap = flatmap_alloc(1);
			st = set_page_size(ctx, a);
			set_max_pfn(ctx, c);
			pdmap->fidx = 0; pdmap->start_pfn = 0; pdmap->end_pfn = KDUMP_PFN_MAX;
			gc_mode = 1; gc_called = rg_called = 0;
			if (st == KDUMP_OK)
				st = read_bitmap(ctx, pdmap, (int32_t)sa, (uint32_t)b);
			gc_mode = 0;
			if (st == KDUMP_ERR_CORRUPT && !gc_called) puts("> ddbmp corrupt");
			else if (st == KDUMP_OK && gc_called == 1 && rg_called == 1)
				printf("> ddbmp req %lld %zu %lld %" PRIu64 " %lld\n", (long long)gc_pos, gc_len, (long long)rg_fileoff,
				       (uint64_t)get_max_pfn(ctx), (long long)ddp->mem_pagemap_off);
			else printf("> ddbmp status %s calls %d %d\n", stname(st), gc_called, rg_called);
			if (rg_called && (rg_end > (kdump_pfn_t)gc_len * 8 || ddp->mem_pagemap_size != gc_len))
				puts("# ddbmp scans more bits than the chunk holds");
			ctx->shared->fmtdata = NULL;
			free(ddp);
			kdump_free(ctx);
		} else if (sscanf(line, "flat %" SCNu64 " %s", &a, hex) >= 1 && !strncmp(line, "flat ", 5)) {
			unsigned char *data;
			size_t n = unhex(hex, &data), i;
			static const unsigned char zero[4096];
			struct flattened_file_map *fm;
			kdump_status st;
			fl_reset();
			fl_fd = memfd_create("flat", 0);
			if (a >= 4096) {
				if (write(fl_fd, zero, 4096) != 4096) return 3;
				if (n > a - 4096) n = a - 4096;
				if (n && write(fl_fd, data, n) != (ssize_t)n) return 3;
				if (ftruncate(fl_fd, a)) return 3;
			} else if (ftruncate(fl_fd, a)) return 3;
			free(data);
			fl_ctx = kdump_new();
			fl_ctx->shared->fcache = fcache_new(1, &fl_fd, 16, 10);
			fl_map = flatmap_alloc(1);
			fl_map->fcache = fl_ctx->shared->fcache;
			fcache_incref(fl_map->fcache);
			fm = &fl_map->fmap[0];
			ms_rec = 1; ms_n = 0;
			st = flatmap_file_init(fm, fl_ctx, 0);
			ms_rec = 0;
			if (st == KDUMP_OK) {
				size_t nr = addrxlat_map_len(fm->map);
				const addrxlat_range_t *r = addrxlat_map_ranges(fm->map);
				printf("> flat ok %d", ms_n);
				for (i = 0; i < (size_t)ms_n; ++i)
					printf(" %" PRIu64 ":%" PRIu64 ":%lld", ms[i].addr, ms[i].endoff + 1, (long long)fm->offs[ms[i].meth]);
				printf(" map");
				for (i = 0; i < nr; ++i) printf(" %" PRIu64 ":%ld", (uint64_t)r[i].endoff, (long)r[i].meth);
				putchar('\n');
			} else {
				printf("> flat %s\n", st == KDUMP_ERR_CORRUPT ? "corrupt" :
				       /* the read of a record header failed: EOF, or an offset the file system refuses */
				       (st == KDUMP_ERR_EOF || st == KDUMP_ERR_NODATA || (st == KDUMP_ERR_SYSTEM && strstr(kdump_get_err(fl_ctx), "Cannot read flattened header"))) ? "readerr" : stname(st));
				fl_reset();
			}
		} else if (sscanf(line, "chunk %" SCNu64 " %" SCNu64, &a, &b) == 2) {
			struct fcache_chunk fch;
			kdump_status st;
			if (!fl_map) { puts("> chunk nomap"); continue; }
			gc_mode = 2; gc_called = 0;
			st = flatmap_get_chunk_flat(fl_map, &fch, b, 0, (off_t)a);
			gc_mode = 0;
			if (gc_called) printf("> chunk direct %lld\n", (long long)gc_pos);
			else {
				if (st == KDUMP_OK) fcache_put_chunk(&fch);
				puts("> chunk copy");
			}
		} else if (sscanf(line, "pgshift %" SCNu64, &a) == 1) {
			kdump_ctx_t *ctx = kdump_new();
			kdump_num_t sh = 0;
			kdump_status st = kdump_set_number_attr(ctx, "arch.page_size", a);
			if (st == KDUMP_OK && kdump_get_number_attr(ctx, "arch.page_shift", &sh) == KDUMP_OK)
				printf("> pgshift %" PRIu64 "\n", (uint64_t)sh);
			else printf("> pgshift %s\n", stname(st));
			kdump_free(ctx);
		} else if (!strncmp(line, "open ", 5)) {
			kdump_ctx_t *ctx = kdump_new();
			int fd;
			kdump_status st;
			line[strcspn(line, "\n")] = 0;
			fd = open(line + 5, O_RDONLY);
			st = kdump_open_fd(ctx, fd);
			printf("> open %s %s\n", stname(st), st == KDUMP_OK ? "-" : strstr(kdump_get_err(ctx), "CPU state too small") ? "cpu-state-too-small" :
			       strstr(kdump_get_err(ctx), "Invalid number of CPUs") ? "no-cpus" : "other");
			kdump_free(ctx);
			close(fd);
		} else
			puts("> bad-op");
	}
	fl_reset();
	return 0;
}
