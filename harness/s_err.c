/* Stream `err` (C16): the real err_add / err_clear of src/errmsg.h on a
 * kdump_errmsg_t allocated at its exact size (ASan red zones on both sides),
 * with realloc failing on schedule.  Protocol: lean/Driver/Err.lean. */
#include <stdio.h>
#include <stdlib.h>
#include <string.h>
#include "src/errmsg.h"
#include "alloc.h"

static kdump_errmsg_t *err;

static void show(void)
{
	const char *s = err_str(err);
	size_t i, n = s ? strlen(s) : 0;
	printf("> ");
	for (i = 0; i < n; ++i) printf("%02x", (unsigned char)s[i]);
	printf("- ");
	if (!s) printf("null");
	else if (s >= err->buf && s < err->buf + err->bufsz) printf("buf:%ld", (long)(s - err->buf));
	else printf("dyn:%ld", (long)(s - err->dyn));
	printf(" dyn=%d\n", err->dyn ? 1 : 0);
}

int main(void)
{
	static char line[1 << 16], msg[1 << 15];
	setvbuf(stdout, NULL, _IOLBF, 0);
	while (fgets(line, sizeof line, stdin)) {
		unsigned n, ok; char hex[1 << 15];
		if (sscanf(line, "init %u", &n) == 1) {
			if (err) { err_cleanup(err); __real_free(err); }
			err = __real_malloc(sizeof(kdump_errmsg_t) + n);
			memset(err->buf, 0xAA, n);
			err_init(err, n);
			show();
		} else if (sscanf(line, "addbad %u", &ok) == 1) {
			/* a format string vsnprintf() rejects: the message becomes "(bad format string)" */
			alloc_plan(ok ? ~0UL : 0UL, 4);
			err_add(err, "%9999999999999d", 1);
			alloc_reset();
			show();
		} else if (sscanf(line, "add %s %u", hex, &ok) == 2 && strlen(hex) > 1) {
			size_t l = strlen(hex) / 2, i; unsigned v;
			for (i = 0; i < l; ++i) { sscanf(hex + 2 * i, "%2x", &v); msg[i] = v; }
			msg[l] = 0;
			alloc_plan(ok ? ~0UL : 0UL, 4);
			err_add(err, "%s", msg);
			alloc_reset();
			show();
		} else if (sscanf(line, "add %u", &ok) == 1) {
			alloc_plan(ok ? ~0UL : 0UL, 4);
			err_add(err, "%s", "");
			alloc_reset();
			show();
		} else if (!strncmp(line, "clear", 5)) {
			err_clear(err); show();
		} else
			puts("> bad-op");
	}
	return 0;
}
