/* Stream `flow` (C16): the error-message discipline of public libkdumpfile calls
 * (which call clears, which one prepends, which one tolerates a failure of a part).
 *
 *   open <path>                fresh context + kdump_open_fd
 *   setstr <key> <value>       kdump_set_attr STRING
 *   setnum <key> <n>           kdump_set_attr NUMBER
 *   clear <key>                kdump_set_attr NIL
 *   setblob <key> <hex>        kdump_set_attr BLOB (a new blob with these bytes)
 *   get <key>                  kdump_get_attr (value not shown)
 *   read <as> <addr> <len>     kdump_read
 *   rdstr <as> <addr>          kdump_read_string
 *   failat <n>                 the n-th allocation from now on fails (0 = off)
 *   M <anything>               scenario description for the model driver: the line is
 *                              followed by the call it describes; ignored here
 * Every call answers
 *   > <op> <status><monitor verdict> | <error string of the context, "-" when NULL or empty>
 * where the verdict is that of hcommon.h `c16_monitor` (documented status, message
 * iff failure, no stale message after success, no link twice).
 */
#include <fcntl.h>
#include <unistd.h>
#include "hcommon.h"
#include "alloc.h"

static kdump_ctx_t *ctx;
static int fd = -1;

static void answer(const char *op, kdump_status st)
{
	const char *e = ctx ? kdump_get_err(ctx) : NULL;
	alloc_fail_at = 0;
	printf("> %s %s%s | %s\n", op, kstatus_name(st), ctx ? c16_monitor(ctx, st) : "", e && *e ? e : "-");
}

int main(void)
{
	static char line[1 << 15], key[512], val[1 << 14];
	uint64_t a, n; unsigned as;
	setvbuf(stdout, NULL, _IOLBF, 0);
	while (fgets(line, sizeof line, stdin)) {
		kdump_attr_t at; kdump_status st;
		line[strcspn(line, "\n")] = 0;
		if (line[0] == 'M' && line[1] == ' ')
			continue;
		if (sscanf(line, "failat %" SCNu64, &n) == 1) {
			alloc_count = 0; alloc_fail_at = n;
			continue;
		}
		if (!strncmp(line, "open ", 5)) {
			uint64_t keep = alloc_fail_at;
			alloc_fail_at = 0;
			if (ctx) kdump_free(ctx);
			if (fd >= 0) close(fd);
			ctx = kdump_new();
			fd = open(line + 5, O_RDONLY);
			alloc_count = 0; alloc_fail_at = keep;
			st = kdump_open_fd(ctx, fd);
			answer("open", st);
		} else if (!ctx) {
			puts("> no-context");
		} else if (sscanf(line, "setstr %511s %4095s", key, val) == 2) {
			at.type = KDUMP_STRING; at.val.string = val;
			st = kdump_set_attr(ctx, key, &at);
			answer("set", st);
		} else if (sscanf(line, "setnum %511s %" SCNu64, key, &n) == 2) {
			at.type = KDUMP_NUMBER; at.val.number = n;
			st = kdump_set_attr(ctx, key, &at);
			answer("set", st);
		} else if (sscanf(line, "setblob %511s %16383s", key, val) == 2) {
			size_t len = strlen(val) / 2, i; unsigned char *b = __real_malloc(len + 1);
			for (i = 0; i < len; ++i) { unsigned x; sscanf(val + 2 * i, "%2x", &x); b[i] = x; }
			at.type = KDUMP_BLOB; at.val.blob = kdump_blob_new_dup(b, len);
			st = kdump_set_attr(ctx, key, &at);
			answer("set", st);
			__real_free(b);
		} else if (sscanf(line, "clear %511s", key) == 1) {
			at.type = KDUMP_NIL;
			st = kdump_set_attr(ctx, key, &at);
			answer("clear", st);
		} else if (sscanf(line, "get %511s", key) == 1) {
			st = kdump_get_attr(ctx, key, &at);
			answer("get", st);
		} else if (sscanf(line, "read %u %" SCNu64 " %" SCNu64, &as, &a, &n) == 3) {
			size_t len = n; unsigned char *buf = __real_malloc(len ? len : 1);
			st = kdump_read(ctx, as, a, buf, &len);
			answer("read", st);
			__real_free(buf);
		} else if (sscanf(line, "rdstr %u %" SCNu64, &as, &a) == 2) {
			char *s = NULL;
			st = kdump_read_string(ctx, as, a, &s);
			answer("rdstr", st);
			if (st == KDUMP_OK) free(s);
		} else
			puts("> bad-op");
	}
	if (ctx) kdump_free(ctx);
	if (fd >= 0) close(fd);
	return 0;
}
