/* helpers shared by the stream harnesses */
#ifndef VERIF_HCOMMON_H
#define VERIF_HCOMMON_H
#include <stdio.h>
#include <stdlib.h>
#include <string.h>
#include <stdint.h>
#include <inttypes.h>
#include <libkdumpfile/kdumpfile.h>

static const char *kstatus_name(kdump_status st)
{
	switch ((int)st) {
	case KDUMP_OK: return "ok";
	case KDUMP_ERR_SYSTEM: return "system";
	case KDUMP_ERR_NOTIMPL: return "notimpl";
	case KDUMP_ERR_NODATA: return "nodata";
	case KDUMP_ERR_CORRUPT: return "corrupt";
	case KDUMP_ERR_INVALID: return "invalid";
	case KDUMP_ERR_NOKEY: return "nokey";
	case KDUMP_ERR_EOF: return "eof";
	case KDUMP_ERR_BUSY: return "busy";
	case KDUMP_ERR_ADDRXLAT: return "addrxlat";
	}
	return "UNDOCUMENTED";
}
static const char *xstatus_name(addrxlat_status st)
{
	switch ((int)st) {
	case ADDRXLAT_OK: return "ok";
	case ADDRXLAT_ERR_NOTIMPL: return "notimpl";
	case ADDRXLAT_ERR_NOTPRESENT: return "notpresent";
	case ADDRXLAT_ERR_INVALID: return "invalid";
	case ADDRXLAT_ERR_NOMEM: return "nomem";
	case ADDRXLAT_ERR_NODATA: return "nodata";
	case ADDRXLAT_ERR_NOMETH: return "nometh";
	}
	return (int)st < 0 ? "custom" : "UNDOCUMENTED";
}
static uint64_t fnv(const unsigned char *p, size_t n)
{
	uint64_t h = 0xcbf29ce484222325ULL;
	while (n--) h = (h ^ *p++) * 0x100000001b3ULL;
	return h;
}
/* C16 monitor, compiled into every stream: status in the documented set,
 * non-OK => non-empty message, OK => no stale message. */
static const char *c16_monitor(kdump_ctx_t *ctx, kdump_status st)
{
	const char *e = kdump_get_err(ctx);
	if ((int)st < 0 || (int)st > KDUMP_ERR_ADDRXLAT) return " C16:undocumented-status";
	if (st != KDUMP_OK && (!e || !*e)) return " C16:empty-message";
	if (st == KDUMP_OK && e && *e) return " C16:stale-message";
	if (e && *e) {
		/* the chain is built by prepending; no link of it may appear twice */
		static char buf[4096]; char *parts[64]; int n = 0, i, j; char *p, *q;
		strncpy(buf, e, sizeof buf - 1); buf[sizeof buf - 1] = 0;
		for (p = buf; p && n < 64; p = q) {
			q = strstr(p, ": ");
			if (q) { *q = 0; q += 2; }
			parts[n++] = p;
		}
		for (i = 0; i < n; ++i)
			for (j = i + 1; j < n; ++j)
				if (strlen(parts[i]) > 8 && !strcmp(parts[i], parts[j]))
					return " C16:duplicate-message";
	}
	return "";
}
#endif
