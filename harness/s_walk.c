/* Stream `walk` (C02): real addrxlat_walk and addrxlat_launch + addrxlat_step
 * over a pure-function memory.  Protocol: lean/Driver/Walk.lean. */
#include "hcommon.h"
#include <libkdumpfile/addrxlat.h>

static uint64_t seed; static uint32_t and_[2] = { ~0u, ~0u }, or_[2]; static int be;
struct ovr { int as; uint64_t a; uint32_t v; };
static struct ovr ovr[4096]; static unsigned novr;

static uint32_t mix(uint64_t as, uint64_t a4)
{
	uint64_t z = seed + 0x9E3779B97F4A7C15ULL * (a4 / 4 + 1) + as * 0xD1B54A32D192ED03ULL;
	z = (z ^ (z >> 30)) * 0xBF58476D1CE4E5B9ULL;
	z = (z ^ (z >> 27)) * 0x94D049BB133111EBULL;
	z ^= z >> 31;
	return (uint32_t)z;
}
static uint32_t cell(int as, uint64_t a4)
{
	unsigned i;
	for (i = novr; i-- > 0; )
		if (ovr[i].as == as && ovr[i].a == a4) return ovr[i].v;
	i = (a4 / 4) % 2;
	return (mix(as, a4) & and_[i]) | or_[i];
}
static void put_page(const addrxlat_buffer_t *buf) { free((void *)buf->ptr); }
static addrxlat_status get_page(const addrxlat_cb_t *cb, addrxlat_buffer_t *buf)
{
	unsigned char *p; unsigned i;
	if ((int)buf->addr.as < 0 || buf->addr.as > 2)
		return addrxlat_ctx_err(cb->priv, ADDRXLAT_ERR_NODATA, "no such address space");
	buf->addr.addr &= ~(addrxlat_addr_t)0xfff;
	p = malloc(4096);
	for (i = 0; i < 1024; ++i) {
		uint32_t v = cell(buf->addr.as, buf->addr.addr + 4 * i);
		if (be) { p[4*i] = v >> 24; p[4*i+1] = v >> 16; p[4*i+2] = v >> 8; p[4*i+3] = v; }
		else { p[4*i] = v; p[4*i+1] = v >> 8; p[4*i+2] = v >> 16; p[4*i+3] = v >> 24; }
	}
	buf->ptr = p; buf->size = 4096;
	buf->byte_order = be ? ADDRXLAT_BIG_ENDIAN : ADDRXLAT_LITTLE_ENDIAN;
	buf->put_page = put_page;
	return ADDRXLAT_OK;
}
static unsigned long read_caps(const addrxlat_cb_t *cb)
{
	return ADDRXLAT_CAPS(ADDRXLAT_KPHYSADDR) | ADDRXLAT_CAPS(ADDRXLAT_MACHPHYSADDR) | ADDRXLAT_CAPS(ADDRXLAT_KVADDR);
}

static addrxlat_meth_t meth;
static addrxlat_lookup_elem_t tbl[64];

static void show_step(const addrxlat_step_t *s)
{
	int i;
	printf("%u,%d,%" PRIu64 ",%u,", (unsigned)s->remain, (int)s->base.as, (uint64_t)s->base.addr, (unsigned)s->elemsz);
	for (i = 0; i <= ADDRXLAT_FIELDS_MAX; ++i) printf("%s%" PRIu64, i ? ":" : "", (uint64_t)s->idx[i]);
}

int main(void)
{
	static char line[8192];
	addrxlat_ctx_t *ctx = addrxlat_ctx_new();
	addrxlat_cb_t *cb = addrxlat_ctx_add_cb(ctx);
	addrxlat_sys_t *sys = addrxlat_sys_new();
	cb->priv = ctx; cb->get_page = get_page; cb->read_caps = read_caps;
	setvbuf(stdout, NULL, _IOLBF, 0);
	meth.kind = ADDRXLAT_NOMETH;
	while (fgets(line, sizeof line, stdin)) {
		char fmt[64], fields[256], tb[4096]; int t, ras; uint64_t a, b, c; unsigned sh, es, vs, bb; unsigned long a0, o0, a1, o1;
		if (sscanf(line, "mem %" SCNu64 " %lu %lu %lu %lu %u", &a, &a0, &o0, &a1, &o1, &bb) == 6) {
			seed = a; and_[0] = a0; or_[0] = o0; and_[1] = a1; or_[1] = o1; be = bb;
			/* the library caches pages: drop them */
			addrxlat_ctx_decref(ctx); ctx = addrxlat_ctx_new(); cb = addrxlat_ctx_add_cb(ctx);
			cb->priv = ctx; cb->get_page = get_page; cb->read_caps = read_caps;
		} else if (sscanf(line, "ovr %d %" SCNu64 " %" SCNu64, &t, &a, &b) == 3) {
			if (novr < 4096) { ovr[novr].as = t; ovr[novr].a = a; ovr[novr].v = b; ++novr; }
			addrxlat_ctx_decref(ctx); ctx = addrxlat_ctx_new(); cb = addrxlat_ctx_add_cb(ctx);
			cb->priv = ctx; cb->get_page = get_page; cb->read_caps = read_caps;
		} else if (sscanf(line, "xor %d %" SCNu64 " %" SCNu64, &t, &a, &b) == 3) {
			uint32_t cur = cell(t, a);
			if (novr < 4096) { ovr[novr].as = t; ovr[novr].a = a; ovr[novr].v = cur ^ (uint32_t)b; ++novr; }
			addrxlat_ctx_decref(ctx); ctx = addrxlat_ctx_new(); cb = addrxlat_ctx_add_cb(ctx);
			cb->priv = ctx; cb->get_page = get_page; cb->read_caps = read_caps;
		} else if (!strncmp(line, "clr", 3)) {
			novr = 0;
			addrxlat_ctx_decref(ctx); ctx = addrxlat_ctx_new(); cb = addrxlat_ctx_add_cb(ctx);
			cb->priv = ctx; cb->get_page = get_page; cb->read_caps = read_caps;
		} else if (sscanf(line, "meth pgt %63s %d %d %" SCNu64 " %" SCNu64 " %255s", fmt, &t, &ras, &a, &b, fields) == 6) {
			char *p = fields; unsigned n = 0;
			memset(&meth, 0, sizeof meth);
			meth.kind = ADDRXLAT_PGT; meth.target_as = t;
			meth.param.pgt.root.as = ras; meth.param.pgt.root.addr = a; meth.param.pgt.pte_mask = b;
			meth.param.pgt.pf.pte_format = addrxlat_pte_format(fmt);
			while (*p && n < ADDRXLAT_FIELDS_MAX) { meth.param.pgt.pf.fieldsz[n++] = strtoul(p, &p, 10); if (*p == ',') ++p; }
			meth.param.pgt.pf.nfields = n;
		} else if (sscanf(line, "meth linear %d %" SCNu64, &t, &a) == 2) {
			memset(&meth, 0, sizeof meth);
			meth.kind = ADDRXLAT_LINEAR; meth.target_as = t; meth.param.linear.off = a;
		} else if (sscanf(line, "meth lookup %d %" SCNu64 " %4095s", &t, &a, tb) >= 2) {
			char *p = tb; unsigned n = 0;
			int got = sscanf(line, "meth lookup %d %" SCNu64 " %4095s", &t, &a, tb);
			memset(&meth, 0, sizeof meth);
			meth.kind = ADDRXLAT_LOOKUP; meth.target_as = t; meth.param.lookup.endoff = a;
			if (got == 3) while (*p && n < 64) {
				tbl[n].orig = strtoull(p, &p, 10); if (*p == ':') ++p;
				tbl[n].dest = strtoull(p, &p, 10); if (*p == ',') ++p; ++n;
			}
			meth.param.lookup.nelem = n; meth.param.lookup.tbl = tbl;
		} else if (sscanf(line, "meth memarr %d %d %" SCNu64 " %u %u %u", &t, &ras, &a, &sh, &es, &vs) == 6) {
			memset(&meth, 0, sizeof meth);
			meth.kind = ADDRXLAT_MEMARR; meth.target_as = t;
			meth.param.memarr.base.as = ras; meth.param.memarr.base.addr = a;
			meth.param.memarr.shift = sh; meth.param.memarr.elemsz = es; meth.param.memarr.valsz = vs;
		} else if (!strncmp(line, "meth nometh", 11)) {
			memset(&meth, 0, sizeof meth); meth.kind = ADDRXLAT_NOMETH;
		} else if (sscanf(line, "walk %" SCNu64, &a) == 1) {
			addrxlat_step_t step; addrxlat_status st; int guard;
			memset(&step, 0, sizeof step);
			step.ctx = ctx; step.sys = sys; step.meth = &meth; step.base.addr = a; step.base.as = ADDRXLAT_KVADDR;
			st = addrxlat_walk(&step);
			if (st == ADDRXLAT_OK) printf("> walk ok %d %" PRIu64 "\n", (int)step.base.as, (uint64_t)step.base.addr);
			else printf("> walk %s%s\n", xstatus_name(st), *addrxlat_ctx_get_err(ctx) ? "" : " C16:empty-message");
			memset(&step, 0, sizeof step);
			step.ctx = ctx; step.sys = sys; step.meth = &meth;
			st = addrxlat_launch(&step, a);
			if (st != ADDRXLAT_OK) { printf("> steps %s \n", xstatus_name(st)); continue; }
			/* collect states, then print status first */
			{
				static addrxlat_step_t hist[64]; int n = 0, i;
				hist[n++] = step;
				for (guard = 0; guard < 40 && step.remain; ++guard) {
					st = addrxlat_step(&step);
					if (st != ADDRXLAT_OK) break;
					hist[n++] = step;
				}
				printf("> steps %s ", xstatus_name(st));
				for (i = 0; i < n; ++i) { if (i) putchar('|'); show_step(&hist[i]); }
				putchar('\n');
			}
		} else if (!strncmp(line, "twalk", 5)) {
			;
		} else
			puts("> bad-op");
	}
	return 0;
}
