/* Stream `oom` (C18): systematic n-th-allocation failure on the real library.
 *
 * Every input line is one case, run in a forked child so that a crash, a
 * sanitizer report or a self-deadlock is a RESULT of the case:
 *
 *   case <scenario> <n> <trace 0|1> [args...]
 *
 * n = 0: clean run (reports how many allocations the call makes); n > 0: the
 * n-th library allocation made inside the API call under test fails.
 * The child works in four stages: setup (no fault), call (fault armed, lock
 * ledger and allocation trace recorded), followup (the surviving objects must
 * still answer), free (survivors are freed; library blocks still live = leak).
 *
 * Output, one line per case (two with trace=1):
 *   > <scenario> n=<n> ret=<null|obj|status> inj=<allocations failed> cnt=<allocations in the call>
 *       locks=<locks still held when the call returned> leak=<blocks> follow=<ok|...> end=<done|crash:<kind>@<stage>|deadlock@<stage>|timeout@<stage>|exit<k>@<stage>> [par=...]
 *   > T <scenario> n=<n> <events>
 * Trace events (call window only): a<i> allocation i succeeded, F<i> allocation
 * i failed, f<i> block of allocation i freed, fp pre-existing block freed,
 * r<i> realloc attempt i moved/grew an existing block, R<k>/W<k>/U<k>
 * rdlock/wrlock/unlock of rwlock k, M<k>/m<k> mutex lock/unlock (k = order
 * of first appearance in the window).
 *
 * Scenarios: new | clone<0|x>[s<k>] [dump pages] | open <dump> <mmap policy> <pages> [reps] [clones] [[!]first dump]
 * | read <dump> <policy> <as> <delta> <cache> <pages> [clones] | setattr <dump> <policy> <pages> <clones> <key> <new> <old>
 * | getattr <dump> <policy> <pages> <clones> <key> [frames expected in a bitmap] | slot <contexts> <size> [slots in use]
 * | xlat | attr <kind> | free | sysinit.  A failed attempt to make a block smaller is counted in shrink=<k>.
 *
 * The allocation wrappers are this file's own (same contract as alloc.h:
 * link with kdf.ALLOC_WRAP; the harness itself uses __real_*).
 */
#include <fcntl.h>
#include <unistd.h>
#include <dlfcn.h>
#include <errno.h>
#include <pthread.h>
#include <signal.h>
#include <sys/mman.h>
#include <sys/wait.h>
#include <malloc.h>
#include "kdumpfile-priv.h"
#include "hcommon.h"
#include <libkdumpfile/addrxlat.h>

/* ------------------------------------------------------------ shared result */
struct result {
	char stage[16], ret[32], follow[96], par[96];
	unsigned long inj, cnt, shrink;
	long locks, leak;
	int deadlock, badunlock;
	unsigned tlen;
	char trace[1 << 17];
};
static struct result *RES;
static int tracing, in_window;

static void tev(const char *fmt, unsigned long v)
{
	if (!in_window || RES->tlen + 24 > sizeof RES->trace) return;
	RES->tlen += snprintf(RES->trace + RES->tlen, 24, fmt, v);
}

/* ------------------------------------------------------------ allocator */
void *__real_malloc(size_t); void *__real_calloc(size_t, size_t);
void *__real_realloc(void *, size_t); void __real_free(void *);
static unsigned long alloc_count, alloc_fail_at, alloc_failed, alloc_failed_shrink;
static long alloc_live;
#define PT 65536
static struct { void *p; unsigned long id; } ptab[PT];	/* live library blocks; id 0 = allocated outside the window */
static unsigned ph(void *p) { return (unsigned)(((uintptr_t)p >> 4) * 2654435761u) & (PT - 1); }
static void pt_add(void *p, unsigned long id)
{
	unsigned h = ph(p), k;
	for (k = 0; k < PT; ++k, h = (h + 1) & (PT - 1))
		if (!ptab[h].p || ptab[h].p == (void *)1) { ptab[h].p = p; ptab[h].id = id; return; }
}
static long pt_del(void *p)		/* id, or -1 if unknown */
{
	unsigned h = ph(p), k;
	for (k = 0; k < PT && ptab[h].p; ++k, h = (h + 1) & (PT - 1))
		if (ptab[h].p == p) { ptab[h].p = (void *)1; return (long)ptab[h].id; }
	return -1;
}
static int should_fail(void)
{
	++alloc_count;
	if (alloc_fail_at && alloc_count == alloc_fail_at) { ++alloc_failed; tev("F%lu ", alloc_count); errno = ENOMEM; return 1; }
	return 0;
}
static void *took(void *r)
{
	if (r) { ++alloc_live; pt_add(r, in_window ? alloc_count : 0); tev("a%lu ", alloc_count); }
	return r;
}
void *__wrap_malloc(size_t n) { return should_fail() ? NULL : took(__real_malloc(n)); }
void *__wrap_calloc(size_t a, size_t b) { return should_fail() ? NULL : took(__real_calloc(a, b)); }
char *__wrap_strdup(const char *s)
{
	size_t n = strlen(s) + 1; char *r;
	if (should_fail()) return NULL;
	r = __real_malloc(n); if (r) memcpy(r, s, n);
	return took(r);
}
void *__wrap_realloc(void *p, size_t n)
{
	void *r; long id;
	if (!p) return __wrap_malloc(n);
	if (should_fail()) {
		/* a request to make a block smaller: the caller may ignore that it was refused */
		if (n <= malloc_usable_size(p)) ++alloc_failed_shrink;
		return NULL;
	}
	r = __real_realloc(p, n);
	if (r) { id = pt_del(p); pt_add(r, id < 0 ? 0 : id); tev("r%lu ", alloc_count); }
	return r;
}
void __wrap_free(void *p)
{
	if (p) {
		long id = pt_del(p);
		--alloc_live;
		if (id > 0) tev("f%lu ", id); else tev("fp ", 0);
	}
	__real_free(p);
}

/* ------------------------------------------------------------ lock ledger */
static int (*real_rdlock)(pthread_rwlock_t *), (*real_wrlock)(pthread_rwlock_t *), (*real_rwunlock)(pthread_rwlock_t *);
static int (*real_mlock)(pthread_mutex_t *), (*real_munlock)(pthread_mutex_t *), (*real_mtrylock)(pthread_mutex_t *);
#define NL 64
static struct { void *l; int rd, wr; } held[NL];
static void *seen[NL]; static int nseen;
static int lock_no(void *l)
{
	int i;
	for (i = 0; i < nseen; ++i) if (seen[i] == l) return i;
	if (nseen < NL) seen[nseen++] = l;
	return nseen - 1;
}
static int hslot(void *l, int make)
{
	int i, fr = -1;
	for (i = 0; i < NL; ++i) { if (held[i].l == l) return i; if (!held[i].l && fr < 0) fr = i; }
	if (make && fr >= 0) { held[fr].l = l; held[fr].rd = held[fr].wr = 0; return fr; }
	return -1;
}
static long locks_held(void)
{
	long n = 0; int i;
	for (i = 0; i < NL; ++i) if (held[i].l) n += held[i].rd + held[i].wr;
	return n;
}
void __sanitizer_print_stack_trace(void);
static void self_deadlock(void)
{
	/* single-threaded harness: waiting for a lock this thread holds never ends */
	if (RES) RES->deadlock = 1;
	if (getenv("KDF_OOM_STDERR")) __sanitizer_print_stack_trace();
	_exit(97);
}
static void resolve(void)
{
	real_rdlock = dlsym(RTLD_NEXT, "pthread_rwlock_rdlock");
	real_wrlock = dlsym(RTLD_NEXT, "pthread_rwlock_wrlock");
	real_rwunlock = dlsym(RTLD_NEXT, "pthread_rwlock_unlock");
	real_mlock = dlsym(RTLD_NEXT, "pthread_mutex_lock");
	real_munlock = dlsym(RTLD_NEXT, "pthread_mutex_unlock");
	real_mtrylock = dlsym(RTLD_NEXT, "pthread_mutex_trylock");
}
int pthread_rwlock_rdlock(pthread_rwlock_t *l)
{
	int s, r;
	if (!real_rdlock) resolve();
	s = hslot(l, 0);
	if (s >= 0 && held[s].wr) return real_rdlock(l);	/* glibc answers EDEADLK, nothing is acquired */
	r = real_rdlock(l);
	if (!r) { s = hslot(l, 1); if (s >= 0) ++held[s].rd; tev("R%lu ", lock_no(l)); }
	return r;
}
int pthread_rwlock_wrlock(pthread_rwlock_t *l)
{
	int s, r;
	if (!real_wrlock) resolve();
	s = hslot(l, 0);
	if (s >= 0 && held[s].wr) return real_wrlock(l);	/* glibc answers EDEADLK, nothing is acquired */
	if (s >= 0 && held[s].rd) self_deadlock();		/* a reader waiting for itself: never returns */
	r = real_wrlock(l);
	if (!r) { s = hslot(l, 1); if (s >= 0) ++held[s].wr; tev("W%lu ", lock_no(l)); }
	return r;
}
int pthread_rwlock_unlock(pthread_rwlock_t *l)
{
	int s;
	if (!real_rwunlock) resolve();
	s = hslot(l, 0);
	if (s >= 0) {
		if (held[s].wr) --held[s].wr; else if (held[s].rd) --held[s].rd;
		if (!held[s].wr && !held[s].rd) held[s].l = NULL;
	}
	tev("U%lu ", lock_no(l));
	return real_rwunlock(l);
}
int pthread_mutex_lock(pthread_mutex_t *l)
{
	int s, r;
	if (!real_mlock) resolve();
	if (!RES) return real_mlock(l);		/* before main */
	s = hslot(l, 0);
	if (s >= 0 && held[s].wr) self_deadlock();
	r = real_mlock(l);
	if (!r) { s = hslot(l, 1); if (s >= 0) ++held[s].wr; tev("M%lu ", lock_no(l)); }
	return r;
}
int pthread_mutex_unlock(pthread_mutex_t *l)
{
	int s;
	if (!real_munlock) resolve();
	if (!RES) return real_munlock(l);
	s = hslot(l, 0);
	if (s >= 0) { if (held[s].wr) --held[s].wr; if (!held[s].wr && !held[s].rd) held[s].l = NULL; }
	tev("m%lu ", lock_no(l));
	return real_munlock(l);
}

/* ------------------------------------------------------------ helpers */
static unsigned char content_byte(uint64_t pa)
{
	uint64_t x = pa * 0x9E3779B97F4A7C15ULL + 0x1234567ULL;
	unsigned char b = x >> 56;
	return b ? b : 1;
}
static void stage(const char *s) { snprintf(RES->stage, sizeof RES->stage, "%s", s); }
static void window_open(unsigned long n)
{
	alloc_count = 0; alloc_failed = 0; alloc_failed_shrink = 0; alloc_fail_at = n; nseen = 0; in_window = 1;
}
static void window_close(void)
{
	in_window = 0; alloc_fail_at = 0;
	RES->inj += alloc_failed;
	RES->shrink += alloc_failed_shrink;
	if (alloc_count > RES->cnt) RES->cnt = alloc_count;
	if (locks_held() > RES->locks) RES->locks = locks_held();
}
static void follow(const char *fmt, ...)
{
	va_list ap;
	if (strcmp(RES->follow, "ok")) return;		/* keep the first complaint */
	va_start(ap, fmt); vsnprintf(RES->follow, sizeof RES->follow, fmt, ap); va_end(ap);
}
static const char *cls(kdump_status st)		/* status class of a call that hit an allocation failure */
{
	return kstatus_name(st);
}
/* read one page; returns status, *good = data matches the generator's content */
static kdump_status rd_page(kdump_ctx_t *ctx, int as, uint64_t addr, uint64_t pa, size_t ps, int *good)
{
	static unsigned char buf[65536];
	size_t len = ps, i;
	kdump_status st;
	memset(buf, 0xee, ps);
	st = kdump_read(ctx, as, addr, buf, &len);
	*good = (st == KDUMP_OK && len == ps);
	for (i = 0; *good && i < ps; ++i) if (buf[i] != content_byte(pa + i)) *good = 0;
	return st;
}
static int parse_list(const char *s, uint64_t *out, int max)
{
	int n = 0; char *e;
	if (!strcmp(s, "-")) return 0;
	while (*s && n < max) { out[n++] = strtoull(s, &e, 0); if (*e != ',') break; s = e + 1; }
	return n;
}
/* a surviving dump object must still answer */
static void ctx_alive(kdump_ctx_t *ctx, const char *who)
{
	kdump_attr_t a; kdump_status st;
	st = kdump_get_attr(ctx, "cache.size", &a);
	if (st != KDUMP_OK) follow("%s:get-attr-%s", who, kstatus_name(st));
	a.type = KDUMP_NUMBER; a.val.number = 5;
	st = kdump_set_attr(ctx, "cache.size", &a);
	if (st != KDUMP_OK) follow("%s:set-attr-%s", who, kstatus_name(st));
	a.val.number = 0;
	st = kdump_get_attr(ctx, "cache.size", &a);
	if (st != KDUMP_OK || a.val.number != 5) follow("%s:attr-lost", who);
}
static void sweep(kdump_ctx_t *ctx, const uint64_t *pages, int np, size_t ps, const char *who)
{
	int i, good; kdump_status st;
	for (i = 0; i < np; ++i) {
		st = rd_page(ctx, KDUMP_MACHPHYSADDR, pages[i], pages[i], ps, &good);
		if (!good) { follow("%s:page-%#" PRIx64 "-%s", who, pages[i], st == KDUMP_OK ? "wrong-data" : kstatus_name(st)); return; }
	}
}
static kdump_ctx_t *fresh(int nslots, const char *path, int policy, int *fdp)
{
	kdump_ctx_t *ctx = kdump_new();
	int i;
	if (!ctx) { follow("setup:kdump_new"); return NULL; }
	for (i = 0; i < nslots; ++i)
		if (per_ctx_alloc(ctx->shared, 24 + 8 * i) < 0) follow("setup:per_ctx_alloc");
	if (policy >= 0) {
		kdump_attr_t a; a.type = KDUMP_NUMBER; a.val.number = policy;
		if (kdump_set_attr(ctx, KDUMP_ATTR_FILE_MMAP_POLICY, &a) != KDUMP_OK) follow("setup:mmap-policy");
	}
	if (path && strcmp(path, "-")) {
		kdump_status st;
		*fdp = open(path, O_RDONLY);
		st = kdump_open_fd(ctx, *fdp);
		if (st != KDUMP_OK) follow("setup:open-%s", kstatus_name(st));
	}
	return ctx;
}


/* clones of an object: flags letter per clone ('0' plain, 'x' KDUMP_CLONE_XLAT) */
#define MAXCL 8
static kdump_ctx_t *CL[MAXCL]; static int NCL;
static void mkclones(kdump_ctx_t *ctx, int n, int xlat_odd)
{
	for (NCL = 0; NCL < n && NCL < MAXCL; ++NCL) {
		CL[NCL] = kdump_clone(ctx, (xlat_odd && (NCL & 1)) ? KDUMP_CLONE_XLAT : 0);
		if (!CL[NCL]) { follow("setup:clone-%d", NCL); break; }
	}
}
static void clones_alive(const uint64_t *pages, int np, size_t ps)
{
	int i; char who[16];
	for (i = 0; i < NCL; ++i) {
		snprintf(who, sizeof who, "clone%d", i);
		ctx_alive(CL[i], who);
		sweep(CL[i], pages, np, ps, who);
	}
}
static kdump_status set_num(kdump_ctx_t *ctx, const char *key, uint64_t v)
{
	kdump_attr_t a; a.type = KDUMP_NUMBER; a.val.number = v;
	return kdump_set_attr(ctx, key, &a);
}
/* attribute query: numbers are reported, bitmaps are compared bit by bit with the expected frame set */
static kdump_status query_attr(kdump_ctx_t *ctx, const char *key, const uint64_t *exp, int nexp, size_t ps, char *val, size_t vlen)
{
	kdump_attr_t a; kdump_status st;
	static unsigned char raw[1024]; unsigned i, nbits = 512; int k;
	st = kdump_get_attr(ctx, key, &a);
	snprintf(val, vlen, "-");
	if (st != KDUMP_OK) return st;
	if (a.type == KDUMP_NUMBER) snprintf(val, vlen, "%llu", (unsigned long long)a.val.number);
	else if (a.type == KDUMP_BITMAP) {
		kdump_addr_t idx = 0;
		static unsigned char want_bit[8 * sizeof raw];
		memset(raw, 0xA5, sizeof raw);
		memset(want_bit, 0, sizeof want_bit);
		for (k = 0; k < nexp; ++k) {
			if (exp[k] / ps >= 8 * sizeof raw) continue;
			want_bit[exp[k] / ps] = 1;
			if (exp[k] / ps + 64 > nbits) nbits = (exp[k] / ps + 64) & ~7u;
		}
		if (nbits > 8 * sizeof raw) nbits = 8 * sizeof raw;
		st = kdump_bmp_get_bits(a.val.bitmap, 0, nbits - 1, raw);
		if (st != KDUMP_OK) return st;
		for (i = 0; i < nbits; ++i) {
			int want = want_bit[i], got = (raw[i >> 3] >> (i & 7)) & 1;
			if (want != got) { snprintf(val, vlen, "bit-%u-is-%d", i, got); return st; }
		}
		if (nexp) {
			st = kdump_bmp_find_set(a.val.bitmap, &idx);
			if (st != KDUMP_OK) return st;
			for (k = 0; k < nexp; ++k) if (exp[k] / ps < idx) { snprintf(val, vlen, "find_set-%llu", (unsigned long long)idx); return st; }
		}
		snprintf(val, vlen, "bits-ok");
	} else snprintf(val, vlen, "type%d", (int)a.type);
	return st;
}

/* the file set of an object: as many file.set.<N> slots as file.set.number says, numbered 0..number-1, each with exactly
 * one `fd` and one `name` child; through the public interface the key behind the last slot does not exist */
static void fileset_check(kdump_ctx_t *ctx, const char *who)
{
	struct attr_data *d, *c;
	size_t num = get_num_files(ctx), slots = 0;
	char key[40]; kdump_attr_ref_t ref; kdump_status st;
	for (d = gattr(ctx, GKI_dir_file_set)->dir; d; d = d->next) {
		int nfd = 0, nname = 0;
		if (d->template->type != KDUMP_DIRECTORY) continue;
		++slots;
		if (d->template->fidx >= num) { follow("%s:stale-file.set.%zu-of-%zu", who, (size_t)d->template->fidx, num); return; }
		for (c = d->dir; c; c = c->next) { nfd += !strcmp(c->template->key, "fd"); nname += !strcmp(c->template->key, "name"); }
		if (nfd != 1 || nname != 1) { follow("%s:file.set.%zu-has-%d-fd-%d-name", who, (size_t)d->template->fidx, nfd, nname); return; }
	}
	if (slots != num) { follow("%s:%zu-slots-for-%zu-files", who, slots, num); return; }
	snprintf(key, sizeof key, "file.set.%zu", num);
	st = kdump_attr_ref(ctx, key, &ref);
	if (st == KDUMP_OK) { kdump_attr_unref(ctx, &ref); follow("%s:key-%s-exists", who, key); }
}

/* ------------------------------------------------------------ scenarios */
static addrxlat_status no_page(const addrxlat_cb_t *cb, addrxlat_buffer_t *buf)
{
	return addrxlat_ctx_err(cb->priv, ADDRXLAT_ERR_NODATA, "no data");
}
static unsigned long no_caps(const addrxlat_cb_t *cb) { return 0; }

static void run_case(const char *sc, unsigned long n, int argc, char **argv)
{
	const char *path = argc > 0 ? argv[0] : "-";
	int fd = -1, fd0 = -1;
	uint64_t pages[256]; int np = 0;
	size_t ps = 4096;
	kdump_ctx_t *ctx = NULL, *ctx2 = NULL;

	strcpy(RES->follow, "ok");
	strcpy(RES->ret, "-");
	stage("setup");

	if (!strcmp(sc, "new")) {
		stage("call"); window_open(n);
		ctx = kdump_new();
		window_close();
		strcpy(RES->ret, ctx ? "obj" : "null");
		snprintf(RES->par, sizeof RES->par, "nglobal=%d", (int)NR_GLOBAL_ATTRS);
		stage("followup");
		if (ctx) ctx_alive(ctx, "new");
	} else if (!strncmp(sc, "clone", 5)) {
		/* clone<flags>[s<k>]: flags 0|x (KDUMP_CLONE_XLAT); k per-context slots; optional dump; pages for the survivors */
		unsigned long flags = sc[5] == 'x' ? KDUMP_CLONE_XLAT : 0;
		int nslots = strchr(sc, 's') ? atoi(strchr(sc, 's') + 1) : 0;
		unsigned long r_sh, r_dict, r_xlat;
		if (argc > 1) np = parse_list(argv[1], pages, 256);
		ctx = fresh(nslots, path, -1, &fd);
		if (!ctx) return;
		r_sh = ctx->shared->refcnt; r_dict = ctx->dict->refcnt; r_xlat = ctx->xlat->refcnt;
		stage("call"); window_open(n);
		ctx2 = kdump_clone(ctx, flags);
		window_close();
		strcpy(RES->ret, ctx2 ? "obj" : "null");
		snprintf(RES->par, sizeof RES->par, "slots=%d", nslots);
		stage("followup");
		if (RES->locks == 0) {
			snprintf(RES->par, sizeof RES->par, "slots=%d,refs=%ld/%ld/%ld", nslots, (long)(ctx->shared->refcnt - r_sh),
				 (long)(ctx->dict->refcnt - r_dict), (long)(ctx->xlat->refcnt - r_xlat));
			if (!ctx2 && (ctx->shared->refcnt != r_sh || ctx->dict->refcnt != r_dict || ctx->xlat->refcnt != r_xlat))
				follow("orig:refcounts-changed-%lu/%lu/%lu->%lu/%lu/%lu", r_sh, r_dict, r_xlat,
				       ctx->shared->refcnt, ctx->dict->refcnt, ctx->xlat->refcnt);
			ctx_alive(ctx, "orig");
			sweep(ctx, pages, np, ps, "orig");
			if (ctx2) { ctx_alive(ctx2, "clone"); sweep(ctx2, pages, np, ps, "clone"); }
		}
	} else if (!strcmp(sc, "open")) {
		/* open <path> <policy> <pages> [reps: the faulted call is made this many times] [clones made before the open]
		 *      [dump that the object has open already] */
		int policy = argc > 1 ? atoi(argv[1]) : -1;
		int reps = argc > 3 ? atoi(argv[3]) : 1;
		int ncl = argc > 4 ? atoi(argv[4]) : 0;
		kdump_status st;
		if (argc > 2) np = parse_list(argv[2], pages, 256);
		/* a leading '!' = a file that is not a dump: that first open fails and leaves its file cache behind */
		ctx = fresh(0, argc > 5 && argv[5][0] != '!' ? argv[5] : "-", policy, &fd0);
		if (!ctx) return;
		if (argc > 5 && argv[5][0] == '!') {
			fd0 = open(argv[5] + 1, O_RDONLY);
			if (kdump_open_fd(ctx, fd0) == KDUMP_OK) follow("setup:not-a-dump-opened");
		}
		mkclones(ctx, ncl, 0);
		fd = open(path, O_RDONLY);
		stage("call");
		do {
			unsigned long inj0 = RES->inj;
			window_open(n);
			st = kdump_open_fd(ctx, fd);
			window_close();
			/* reported: the answer of the last attempt that really hit the failing allocation
			 * (a repeated attempt on the survivor may need fewer allocations and go through) */
			if (RES->inj != inj0 || !inj0)
				snprintf(RES->ret, sizeof RES->ret, "%s%s", kstatus_name(st), c16_monitor(ctx, st));
		} while (--reps > 0 && st != KDUMP_OK && RES->locks == 0);
		if (RES->inj > 1) RES->inj = 1;
		stage("followup");
		if (RES->locks == 0) {
			ctx_alive(ctx, "ctx");
			if (st == KDUMP_OK) sweep(ctx, pages, np, ps, "opened");
			else {
				int good;
				/* whatever the object still knows about, asking it for a page must be safe */
				if (np) (void)rd_page(ctx, KDUMP_MACHPHYSADDR, pages[0], pages[0], ps, &good);
				/* the surviving object can be used for another attempt */
				st = kdump_open_fd(ctx, fd);
				if (st != KDUMP_OK) follow("reopen-%s", kstatus_name(st));
				else sweep(ctx, pages, np, ps, "reopened");
			}
			if (st == KDUMP_OK) clones_alive(pages, np, ps);
		}
	} else if (!strcmp(sc, "read")) {
		/* read <path> <policy> <as> <addr-delta> <cache> <pages: read in this order, each with the fault armed> */
		int policy = atoi(argv[1]), as = atoi(argv[2]), i, good;
		uint64_t delta = strtoull(argv[3], NULL, 0);
		int cache = atoi(argv[4]);
		int bad = 0;
		kdump_status st = KDUMP_OK, worst = KDUMP_OK;
		kdump_ctx_t *rctx;
		np = parse_list(argv[5], pages, 256);
		ctx = fresh(0, path, policy, &fd);
		if (!ctx) return;
		mkclones(ctx, argc > 6 ? atoi(argv[6]) : 0, 0);
		rctx = NCL ? CL[NCL - 1] : ctx;
		if (cache > 0) { kdump_attr_t a; a.type = KDUMP_NUMBER; a.val.number = cache; kdump_set_attr(ctx, "cache.size", &a); }
		if (as != KDUMP_MACHPHYSADDR) {
			/* paging form given here; the translation system itself is built inside the first read */
			kdump_attr_t a; a.type = KDUMP_NUMBER; a.val.number = 48;
			if (kdump_set_attr(ctx, "addrxlat.default.virt_bits", &a) != KDUMP_OK) follow("setup:virt_bits");
		}
		stage("call");
		for (i = 0; i < np; ++i) {
			unsigned long inj0 = RES->inj, shr0 = RES->shrink;
			window_open(n);
			st = rd_page(rctx, as, pages[i] + delta, pages[i], ps, &good);
			window_close();
			if (RES->inj != inj0) {		/* this read hit the failing allocation */
				if (st == KDUMP_OK) { if (RES->shrink - shr0 < RES->inj - inj0) ++bad; else if (!good) follow("read-%d-wrong-data", i); }
				else if (worst == KDUMP_OK || st != KDUMP_ERR_SYSTEM) worst = st;
				if (*c16_monitor(rctx, st) && !strstr(RES->par, "C16")) snprintf(RES->par, sizeof RES->par, "%s", c16_monitor(rctx, st) + 1);
			} else if (!good)
				follow("read-%d-without-fault-%s", i, st == KDUMP_OK ? "wrong-data" : kstatus_name(st));
			if (RES->locks) break;
			/* the same read again, memory being available */
			st = rd_page(rctx, as, pages[i] + delta, pages[i], ps, &good);
			if (!good) {
				if (!strcmp(RES->follow, "ok")) snprintf(RES->par, sizeof RES->par, "err=%.80s", st == KDUMP_OK ? "" : kdump_get_err(rctx));
				follow("reread-%d-%s", i, st == KDUMP_OK ? "wrong-data" : kstatus_name(st));
			}
		}
		snprintf(RES->ret, sizeof RES->ret, "%s", RES->inj ? (bad ? "ok" : kstatus_name(worst)) : "ok");
		stage("followup");
		if (RES->locks == 0) { ctx_alive(ctx, "ctx"); sweep(ctx, pages, np, ps, "ctx"); clones_alive(pages, np, ps); }
	} else if (!strcmp(sc, "setattr")) {
		/* setattr <path> <policy> <pages> <clones> <key> <new value> <value to restore>: a number attribute of an
		 * opened dump that has clones is changed with the fault armed, then put back */
		int policy = atoi(argv[1]), ncl = atoi(argv[3]);
		const char *key = argv[4];
		uint64_t nv = strtoull(argv[5], NULL, 0), ov = strtoull(argv[6], NULL, 0);
		kdump_status st;
		np = parse_list(argv[2], pages, 256);
		ctx = fresh(0, path, policy, &fd);
		if (!ctx) return;
		mkclones(ctx, ncl, 1);
		sweep(ctx, pages, np, ps, "setup");
		stage("call"); window_open(n);
		st = set_num(NCL > 1 ? CL[0] : ctx, key, nv);
		window_close();
		snprintf(RES->ret, sizeof RES->ret, "%s%s", kstatus_name(st), c16_monitor(NCL > 1 ? CL[0] : ctx, st));
		snprintf(RES->par, sizeof RES->par, "clones=%d", NCL);
		stage("followup");
		if (RES->locks == 0) {
			st = set_num(ctx, key, ov);
			if (st != KDUMP_OK) follow("restore-%s-%s", key, kstatus_name(st));
			else { sweep(ctx, pages, np, ps, "ctx"); ctx_alive(ctx, "ctx"); clones_alive(pages, np, ps); }
		}
	} else if (!strcmp(sc, "getattr")) {
		/* getattr <path> <policy> <pages> <clones> <key> [frames expected in a bitmap]: an attribute that is
		 * computed on first use (page maps, max_pfn) is asked for with the fault armed */
		int policy = atoi(argv[1]), ncl = atoi(argv[3]);
		const char *key = argv[4];
		static uint64_t exp[4400]; int nexp = argc > 5 ? parse_list(argv[5], exp, 4400) : 0;
		char val[48], val2[48];
		kdump_status st;
		np = parse_list(argv[2], pages, 256);
		ctx = fresh(0, path, policy, &fd);
		if (!ctx) return;
		mkclones(ctx, ncl, 0);
		stage("call"); window_open(n);
		st = query_attr(NCL ? CL[NCL - 1] : ctx, key, exp, nexp, ps, val, sizeof val);
		window_close();
		snprintf(RES->ret, sizeof RES->ret, "%s", kstatus_name(st));
		snprintf(RES->par, sizeof RES->par, "val=%s", val);
		stage("followup");
		if (RES->locks == 0) {
			sweep(ctx, pages, np, ps, "ctx");
			st = query_attr(ctx, key, exp, nexp, ps, val2, sizeof val2);
			if (st != KDUMP_OK) follow("second-query-%s", kstatus_name(st));
			else if (!strncmp(val2, "bit-", 4) || !strncmp(val2, "find_set", 8)) follow("second-query-%s", val2);
			else snprintf(RES->par, sizeof RES->par, "val=%s,then=%s", val, val2);
			ctx_alive(ctx, "ctx");
			clones_alive(pages, np, ps);
		}
	} else if (!strcmp(sc, "slot")) {
		/* slot <contexts> <size> [slots in use before]: per_ctx_alloc on an object with that many contexts */
		int nctx = atoi(argv[0]), pre = argc > 2 ? atoi(argv[2]) : 0, slot;
		size_t sz = strtoul(argv[1], NULL, 0);
		ctx = fresh(pre, "-", -1, &fd);
		if (!ctx) return;
		mkclones(ctx, nctx - 1, 0);
		stage("call"); window_open(n);
		slot = per_ctx_alloc(ctx->shared, sz);
		window_close();
		strcpy(RES->ret, slot >= 0 ? "obj" : "null");
		snprintf(RES->par, sizeof RES->par, "slot=%d,size=%zu", slot, ctx->shared->per_ctx_size[slot >= 0 ? slot : pre]);
		stage("followup");
		if (slot < 0 && ctx->shared->per_ctx_size[pre]) follow("slot-%d-stays-taken", pre);
		if (slot >= 0) {
			int i;
			memset(ctx->data[slot], 0x5a, sz);
			for (i = 0; i < NCL; ++i) memset(CL[i]->data[slot], 0x5a, sz);
			per_ctx_free(ctx->shared, slot);
		}
		ctx_alive(ctx, "ctx");
	} else if (!strcmp(sc, "xlat")) {
		/* xlat <path>: give the paging form of an opened dump and ask for the translation objects (builds the hardware maps) */
		kdump_attr_t a; kdump_status st;
		addrxlat_ctx_t *ax = NULL; addrxlat_sys_t *sys = NULL;
		if (argc > 1) np = parse_list(argv[1], pages, 256);
		ctx = fresh(0, path, -1, &fd);
		if (!ctx) return;
		stage("call"); window_open(n);
		a.type = KDUMP_NUMBER; a.val.number = 48;
		st = kdump_set_attr(ctx, "addrxlat.default.virt_bits", &a);
		if (st == KDUMP_OK) st = kdump_get_addrxlat(ctx, &ax, &sys);
		window_close();
		snprintf(RES->ret, sizeof RES->ret, "%s%s", kstatus_name(st), c16_monitor(ctx, st));
		stage("followup");
		if (RES->locks == 0) {
			if (st == KDUMP_OK) { addrxlat_sys_decref(sys); addrxlat_ctx_decref(ax); }
			ctx_alive(ctx, "ctx");
			sweep(ctx, pages, np, ps, "ctx");
			st = kdump_get_addrxlat(ctx, &ax, &sys);
			if (st != KDUMP_OK) follow("get_addrxlat-%s", kstatus_name(st));
			else { addrxlat_sys_decref(sys); addrxlat_ctx_decref(ax); }
			if (np) {	/* and the translation works: a page through the KPHYS -> MACHPHYS map */
				int good;
				st = rd_page(ctx, KDUMP_KPHYSADDR, pages[0], pages[0], ps, &good);
				if (!good) follow("kphys-read-%s", st == KDUMP_OK ? "wrong-data" : kstatus_name(st));
			}
		}
	} else if (!strcmp(sc, "attr")) {
		/* attr <kind>: set attributes on a fresh object */
		const char *kind = argc > 0 ? argv[0] : "str";
		kdump_attr_t a; kdump_status st = KDUMP_OK;
		ctx = fresh(0, "-", -1, &fd);
		if (!ctx) return;
		stage("call"); window_open(n);
		if (!strcmp(kind, "str")) {
			a.type = KDUMP_STRING; a.val.string = "x86_64";
			st = kdump_set_attr(ctx, KDUMP_ATTR_ARCH_NAME, &a);
		} else if (!strcmp(kind, "num")) {
			a.type = KDUMP_NUMBER; a.val.number = 4096;
			st = kdump_set_attr(ctx, KDUMP_ATTR_PAGE_SIZE, &a);
		} else if (!strcmp(kind, "sub")) {
			kdump_attr_ref_t ref;
			st = kdump_attr_ref(ctx, "linux.uts", &ref);
			if (st == KDUMP_OK) {
				a.type = KDUMP_STRING; a.val.string = "5.4.0";
				st = kdump_set_sub_attr(ctx, &ref, "release", &a);
				kdump_attr_unref(ctx, &ref);
			}
		} else if (!strcmp(kind, "vmci")) {
			a.type = KDUMP_STRING; a.val.string = "OSRELEASE=5.4.0\nPAGESIZE=4096\nSYMBOL(init_uts_ns)=ffffffff81000000\nLENGTH(x.y)=12\n";
			st = kdump_set_attr(ctx, "linux.vmcoreinfo.raw", &a);
			if (st == KDUMP_ERR_INVALID) {	/* blob attribute: go through the text form */
				kdump_blob_t *b; char *copy = __wrap_strdup(a.val.string);
				if (!copy) st = KDUMP_ERR_SYSTEM;
				else if (!(b = kdump_blob_new(copy, strlen(copy)))) { __wrap_free(copy); st = KDUMP_ERR_SYSTEM; }
				else {
					a.type = KDUMP_BLOB; a.val.blob = b;
					st = kdump_set_attr(ctx, "linux.vmcoreinfo.raw", &a);	/* the reference goes to the attribute */
				}
			}
		} else if (!strncmp(kind, "nfiles", 6)) {
			/* nfiles<k>: the number of files of the set is raised to k (k slots file.set.<N>.{fd,name} are created) */
			st = set_num(ctx, "file.set.number", atoi(kind + 6));
		} else if (!strcmp(kind, "iter")) {
			kdump_attr_iter_t it;
			st = kdump_attr_iter_start(ctx, "addrxlat.default", &it);
			if (st == KDUMP_OK) {
				while (it.key && st == KDUMP_OK) st = kdump_attr_iter_next(ctx, &it);
				kdump_attr_iter_end(ctx, &it);
			}
		}
		window_close();
		snprintf(RES->ret, sizeof RES->ret, "%s%s", kstatus_name(st), c16_monitor(ctx, st));
		stage("followup");
		if (RES->locks == 0) {
			ctx_alive(ctx, "ctx");
			fileset_check(ctx, "ctx");
			if (!strncmp(kind, "nfiles", 6)) {
				/* and the file set can still be given another size */
				if (set_num(ctx, "file.set.number", 2) != KDUMP_OK) follow("file.set.number-2");
				fileset_check(ctx, "resized");
				if (set_num(ctx, "file.set.number", 4) != KDUMP_OK) follow("file.set.number-4");
				fileset_check(ctx, "resized");
			}
		}
	} else if (!strcmp(sc, "fdset")) {
		/* fdset <p1,p2,..> <policy> <pages of the set> <single dump> <its pages> <slots registered before> : a SET of dump
		 * files is opened with the fault armed (kdump_open_fdset grows file.set.number, creating file.set.<N>.{fd,name});
		 * the survivor must hold the file set it had, open a single file (through an array of exactly one descriptor),
		 * and then the whole set again */
		int policy = atoi(argv[1]), pre = argc > 5 ? atoi(argv[5]) : 0, nf = 0, i;
		int fds[8]; char *q, *paths = argv[0];
		uint64_t pages1[64]; int np1 = 0;
		size_t num0;
		kdump_status st;
		np = parse_list(argv[2], pages, 256);
		if (argc > 4) np1 = parse_list(argv[4], pages1, 64);
		ctx = fresh(0, "-", policy, &fd);
		if (!ctx) return;
		if (pre && set_num(ctx, "file.set.number", pre) != KDUMP_OK) follow("setup:file.set.number");
		for (q = strtok(paths, ","); q && nf < 8; q = strtok(NULL, ",")) fds[nf++] = open(q, O_RDONLY);
		num0 = get_num_files(ctx);
		stage("call"); window_open(n);
		st = kdump_open_fdset(ctx, nf, fds);
		window_close();
		snprintf(RES->ret, sizeof RES->ret, "%s%s", kstatus_name(st), c16_monitor(ctx, st));
		snprintf(RES->par, sizeof RES->par, "files=%d,pre=%d", nf, pre);
		stage("followup");
		if (RES->locks == 0) {
			int *one = __real_malloc(sizeof(int));		/* exactly one descriptor: reading a second one is reported */
			fileset_check(ctx, "set");
			if (st != KDUMP_OK && RES->inj && get_num_files(ctx) != num0 && get_num_files(ctx) != (size_t)nf)
				follow("set:file.set.number-%zu-was-%zu", get_num_files(ctx), num0);
			ctx_alive(ctx, "ctx");
			if (st == KDUMP_OK) sweep(ctx, pages, np, ps, "set");
			fd0 = open(argv[3], O_RDONLY);
			*one = fd0;
			st = kdump_open_fdset(ctx, 1, one);
			if (st != KDUMP_OK) follow("single-open-%s", kstatus_name(st));
			else { fileset_check(ctx, "single"); sweep(ctx, pages1, np1, ps, "single"); }
			st = kdump_open_fdset(ctx, nf, fds);
			if (st != KDUMP_OK) follow("set-reopen-%s", kstatus_name(st));
			else { fileset_check(ctx, "set-again"); sweep(ctx, pages, np, ps, "set-again"); }
			__real_free(one);
		}
		if (RES->locks == 0) { kdump_free(ctx); ctx = NULL; }
		for (i = 0; i < nf; ++i) close(fds[i]);
	} else if (!strcmp(sc, "free")) {
		ctx = fresh(argc > 1 ? atoi(argv[1]) : 0, path, -1, &fd);
		if (!ctx) return;
		ctx2 = kdump_clone(ctx, KDUMP_CLONE_XLAT);
		stage("call"); window_open(n);
		kdump_free(ctx);
		if (ctx2) kdump_free(ctx2);
		window_close();
		ctx = ctx2 = NULL;
		strcpy(RES->ret, "void");
	} else if (!strcmp(sc, "sysinit")) {
		/* addrxlat level: context, system, OS initialisation (x86_64 hardware maps, no OS, no data source) */
		addrxlat_ctx_t *ax = NULL; addrxlat_sys_t *sys = NULL; addrxlat_cb_t *cb;
		addrxlat_opt_t opts[3]; addrxlat_status st = ADDRXLAT_ERR_NOMEM;
		stage("call"); window_open(n);
		ax = addrxlat_ctx_new();
		if (ax && (cb = addrxlat_ctx_add_cb(ax))) {
			cb->priv = ax; cb->get_page = no_page; cb->read_caps = no_caps;
			sys = addrxlat_sys_new();
			if (sys) {
				addrxlat_opt_arch(&opts[0], "x86_64");
				addrxlat_opt_virt_bits(&opts[1], 48);
				st = addrxlat_sys_os_init(sys, ax, 2, opts);
			}
		}
		window_close();
		snprintf(RES->ret, sizeof RES->ret, "%s", !ax || !sys ? "null" : xstatus_name(st));
		if (ax && sys && st != ADDRXLAT_OK && !*addrxlat_ctx_get_err(ax)) snprintf(RES->par, sizeof RES->par, "C16:empty-message");
		stage("followup");
		if (sys && ax && RES->locks == 0) {
			/* survivors: a second initialisation must work */
			addrxlat_opt_arch(&opts[0], "x86_64");
			addrxlat_opt_virt_bits(&opts[1], 48);
			addrxlat_ctx_clear_err(ax);
			if (addrxlat_sys_os_init(sys, ax, 2, opts) != ADDRXLAT_OK) follow("second-os_init-failed");
		}
		stage("free");
		if (sys) addrxlat_sys_decref(sys);
		if (ax) addrxlat_ctx_decref(ax);
	} else {
		follow("unknown-scenario");
	}

	stage("free");
	if (RES->locks == 0) {
		int i;
		for (i = 0; i < NCL; ++i) if (CL[i]) kdump_free(CL[i]);
		if (ctx2) kdump_free(ctx2);
		if (ctx) kdump_free(ctx);
		if (fd >= 0) close(fd);
		if (fd0 >= 0) close(fd0);
		RES->leak = alloc_live;
	} else
		RES->leak = -1;		/* cannot free an object whose lock is held */
	stage("done");
}

/* ------------------------------------------------------------ driver loop */
int main(void)
{
	static char line[1 << 16];
	char errpath[64];
	resolve();
	RES = mmap(NULL, sizeof *RES, PROT_READ | PROT_WRITE, MAP_SHARED | MAP_ANONYMOUS, -1, 0);
	snprintf(errpath, sizeof errpath, "/var/tmp/kdf-oom-%d.err", (int)getpid());
	setvbuf(stdout, NULL, _IOLBF, 0);
	while (fgets(line, sizeof line, stdin)) {
		char *tok[16]; int nt = 0, status; pid_t pid;
		char *p = strtok(line, " \n");
		char end[96];
		while (p && nt < 16) { tok[nt++] = p; p = strtok(NULL, " \n"); }
		if (nt < 4 || strcmp(tok[0], "case")) { puts("> bad-op"); continue; }
		memset(RES, 0, offsetof(struct result, trace));
		RES->trace[0] = 0;
		fflush(stdout);
		pid = fork();
		if (pid == 0) {
			int efd = getenv("KDF_OOM_STDERR") ? -1 : open(errpath, O_WRONLY | O_CREAT | O_TRUNC, 0600);
			if (efd >= 0) { dup2(efd, 2); close(efd); }
			alarm(20);
			tracing = atoi(tok[3]);
			run_case(tok[1], strtoul(tok[2], NULL, 0), nt - 4, tok + 4);
			_exit(0);
		}
		waitpid(pid, &status, 0);
		if (WIFEXITED(status) && WEXITSTATUS(status) == 0 && !strcmp(RES->stage, "done"))
			strcpy(end, "done");
		else if (RES->deadlock)
			snprintf(end, sizeof end, "deadlock@%s", RES->stage);
		else if (WIFSIGNALED(status) && WTERMSIG(status) == SIGALRM)
			snprintf(end, sizeof end, "timeout@%s", RES->stage);
		else {
			/* sanitizer report?  take its kind from the child's stderr */
			char kind[48] = "", buf[8192]; FILE *f = fopen(errpath, "r");
			if (f) {
				size_t k = fread(buf, 1, sizeof buf - 1, f); char *q;
				buf[k] = 0; fclose(f);
				if ((q = strstr(buf, "AddressSanitizer: ")) || (q = strstr(buf, "LeakSanitizer: ")))
					if (!strncmp(strchr(q, ':') + 2, "attempting double-free", 22)) strcpy(kind, "double-free");
					else sscanf(strchr(q, ':') + 2, "%47[A-Za-z-]", kind);
				else if ((q = strstr(buf, "runtime error: ")))
					strcpy(kind, "ubsan");
			}
			if (*kind) snprintf(end, sizeof end, "crash:%s@%s", kind, RES->stage);
			else if (WIFSIGNALED(status)) snprintf(end, sizeof end, "crash:signal%d@%s", WTERMSIG(status), RES->stage);
			else snprintf(end, sizeof end, "exit%d@%s", WEXITSTATUS(status), RES->stage);
		}
		if (in_window) in_window = 0;
	{
			char shr[24] = "";
			if (RES->shrink) snprintf(shr, sizeof shr, " shrink=%lu", RES->shrink);
			printf("> %s n=%s ret=%s inj=%lu cnt=%lu locks=%ld leak=%ld follow=%s end=%s%s%s%s\n", tok[1], tok[2],
			       RES->ret, RES->inj, RES->cnt, RES->locks, RES->leak, RES->follow, end,
			       shr, *RES->par ? " par=" : "", RES->par);
		}
		if (atoi(tok[3]))
			printf("> T %s n=%s %s\n", tok[1], tok[2], RES->trace);
	}
	unlink(errpath);
	return 0;
}
