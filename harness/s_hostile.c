/* Stream `hostile` (C03): arbitrary byte sequences offered as dump files.
 *
 *   base <id> <path>                     load a well-formed dump (kept in memory)
 *   field <id> <off> <width> <be>        a header/descriptor field of base <id> (mutation hint)
 *   case <cid> <tmo_ms> <nfiles> { <baseid> <nmut> { p <off> <hex> | t <len> | a <hex> }* }*
 *        build the input files (patch / truncate-or-zero-extend / append), offer
 *        them to the library in a forked child and run the fixed operation script
 *        (open, attribute enumeration, page-map queries, reads in all address
 *        spaces, vmcoreinfo, free).  A crash / sanitizer report / time-out of the
 *        child is a *result*:
 *   > <cid> ok|badstatus|timeout|crash open=<status> ops=<n> last=<op> digest=<hex> [sig=<kind@function>] [new=<edges>]
 *   fuzz <seed> <iters> <tmo_ms> <maxsec>
 *        coverage-guided mutation loop over the corpus collected from the cases
 *        run so far (needs a library built with -fsanitize-coverage=trace-pc;
 *        without it the loop still runs, unguided).  Failing inputs are printed as
 *   > f<k> <result line as above>
 *   # input f<k> <nfiles> { <baseid> <nmut> ... }       (diff against the base: replayable as a case)
 *   > fuzz-done iters=<n> corpus=<n> edges=<n> fails=<n>
 *
 * Every buffer handed to the library has its exact size so that ASan sees any
 * write outside it.  The script is deterministic: the digest covers every
 * status and value returned.
 */
#define _GNU_SOURCE
#include <sys/mman.h>
#include <sys/wait.h>
#include <sys/time.h>
#include <sys/stat.h>
#include <signal.h>
#include <unistd.h>
#include <fcntl.h>
#include <errno.h>
#include <time.h>
#include <stdarg.h>
#include "hcommon.h"

#define MAXBASE 512
#define MAXF 8
#define COVSZ (1u << 16)
#define MAXFIELD 4096

struct buf { unsigned char *p; size_t n; };
static struct buf base[MAXBASE];
struct field { unsigned id; size_t off; unsigned width, be; };
static struct field fields[MAXFIELD];
static unsigned nfields;

#define MAXBATCH 16
struct slot {			/* summary of one finished case of a batch */
	char op[160];
	unsigned nops;
	int open_status, bad;
	char bad_op[160];
	uint64_t digest;
	long errsz;		/* size of the child's stderr file after the case */
	int done;
};
struct shm {
	volatile char op[160];
	volatile unsigned nops;
	volatile int open_status;
	volatile int bad;
	volatile char bad_op[160];
	volatile uint64_t digest;
	volatile struct slot slot[MAXBATCH];
	unsigned char cov[COVSZ];
};
static struct shm *shm;
static unsigned char *covmap;		/* NULL in the parent */
static uintptr_t cov_prev;

__attribute__((no_sanitize_coverage, no_sanitize("address", "undefined")))
void __sanitizer_cov_trace_pc(void)
{
	if (covmap) {
		uintptr_t pc = (uintptr_t)__builtin_return_address(0);
		covmap[(pc ^ cov_prev) & (COVSZ - 1)] = 1;
		cov_prev = (pc >> 1) * 0x9E3779B1u;
	}
}

/* ------------------------------------------------------------------ child */
static void OP(const char *fmt, ...)
{
	char tmp[160];
	va_list ap;
	va_start(ap, fmt);
	vsnprintf(tmp, sizeof tmp, fmt, ap);
	va_end(ap);
	memcpy((char *)shm->op, tmp, sizeof tmp);
	shm->nops++;
}
static void mix(uint64_t v)
{
	shm->digest = (shm->digest ^ v) * 0x100000001b3ULL;
}
static kdump_status ST(kdump_status st)
{
	mix((uint64_t)(int)st + 0x51);
	if (((int)st < 0 || (int)st > KDUMP_ERR_ADDRXLAT) && !shm->bad) {
		shm->bad = 1;
		memcpy((char *)shm->bad_op, (char *)shm->op, sizeof shm->bad_op);
	}
	return st;
}

static unsigned attr_budget;

static void exercise_bitmap(kdump_ctx_t *ctx, kdump_bmp_t *bmp, const char *name, uint64_t max_pfn)
{
	kdump_addr_t idx = 0, firstset = 0;
	int hop;
	static const uint64_t spans[][2] = { {0, 63}, {0, 0}, {3, 200}, {4090, 4110} };
	unsigned i;
	for (hop = 0; hop < 6; ++hop) {
		kdump_addr_t s = idx, c;
		OP("%s.find_set %" PRIu64, name, (uint64_t)idx);
		if (ST(kdump_bmp_find_set(bmp, &s)) != KDUMP_OK)
			break;
		mix(s);
		if (!hop) firstset = s;
		c = s;
		OP("%s.find_clear %" PRIu64, name, (uint64_t)c);
		if (ST(kdump_bmp_find_clear(bmp, &c)) != KDUMP_OK)
			break;
		mix(c);
		if (c <= idx && hop) break;
		idx = c;
	}
	for (i = 0; i < sizeof spans / sizeof spans[0] + 3; ++i) {
		uint64_t a, b;
		size_t sz, k;
		unsigned char *raw;
		if (i < sizeof spans / sizeof spans[0]) { a = spans[i][0]; b = spans[i][1]; }
		else if (i == sizeof spans / sizeof spans[0]) { a = firstset; b = firstset + 130; if (b < a) continue; }
		else if (i == sizeof spans / sizeof spans[0] + 1) { a = max_pfn > 9 ? max_pfn - 9 : 0; b = a + 77; if (b < a) continue; }
		else { a = ~(uint64_t)0 - 70; b = ~(uint64_t)0; }
		sz = ((b - a) >> 3) + 1;
		raw = malloc(sz);
		memset(raw, 0xA5, sz);
		OP("%s.get_bits %" PRIu64 " %" PRIu64, name, a, b);
		ST(kdump_bmp_get_bits(bmp, a, b, raw));
		for (k = 0; k < sz; ++k) mix(raw[k]);
		free(raw);
	}
}

static void walk_attrs(kdump_ctx_t *ctx, const kdump_attr_ref_t *dir, const char *path, int depth, uint64_t max_pfn)
{
	kdump_attr_iter_t it;
	kdump_status st;
	OP("attr_iter_start %s", path);
	st = dir ? kdump_attr_ref_iter_start(ctx, dir, &it) : kdump_attr_iter_start(ctx, NULL, &it);
	if (ST(st) != KDUMP_OK)
		return;
	while (it.key && attr_budget) {
		char sub[160];
		kdump_attr_t a;
		--attr_budget;
		snprintf(sub, sizeof sub, "%s.%s", path, it.key);
		OP("attr_ref_get %s", sub);
		st = ST(kdump_attr_ref_get(ctx, &it.pos, &a));
		if (st == KDUMP_OK) {
			mix(a.type);
			switch (a.type) {
			case KDUMP_NUMBER: mix(a.val.number); break;
			case KDUMP_ADDRESS: mix(a.val.address); break;
			case KDUMP_STRING: { const char *s = a.val.string; while (*s) mix((unsigned char)*s++); break; }
			case KDUMP_BLOB: {
				size_t n, k; unsigned char *p;
				OP("blob %s", sub);
				n = kdump_blob_size(a.val.blob);
				p = kdump_blob_pin(a.val.blob);
				for (k = 0; k < n; ++k) mix(p[k]);
				kdump_blob_unpin(a.val.blob);
				break;
			}
			case KDUMP_BITMAP:
				exercise_bitmap(ctx, a.val.bitmap, sub, max_pfn);
				break;
			case KDUMP_DIRECTORY:
				if (depth < 10)
					walk_attrs(ctx, &it.pos, sub, depth + 1, max_pfn);
				break;
			default: break;
			}
		}
		OP("attr_iter_next %s", sub);
		if (ST(kdump_attr_iter_next(ctx, &it)) != KDUMP_OK)
			break;
	}
	OP("attr_iter_end %s", path);
	kdump_attr_iter_end(ctx, &it);
}

static void do_read(kdump_ctx_t *ctx, int as, uint64_t addr, size_t len)
{
	size_t n = len, k;
	unsigned char *buf = malloc(len ? len : 1);
	OP("read as=%d addr=%#" PRIx64 " len=%zu", as, addr, len);
	ST(kdump_read(ctx, as, addr, buf, &n));
	mix(n);
	if (n <= len) for (k = 0; k < n; ++k) mix(buf[k]);
	else if (!shm->bad) { shm->bad = 2; memcpy((char *)shm->bad_op, (char *)shm->op, sizeof shm->bad_op); }
	free(buf);
}

static void script(int nfiles, const int *fds)
{
	kdump_ctx_t *ctx;
	kdump_status st;
	kdump_num_t num;
	uint64_t ps = 4096, max_pfn = 0, firstfile = 0;
	kdump_attr_t at;
	int pass, as;

	OP("new");
	ctx = kdump_new();
	if (!ctx) return;
	OP("open_fdset n=%d", nfiles);
	st = ST(kdump_open_fdset(ctx, nfiles, fds));
	shm->open_status = st;

	for (pass = 0; pass < 2; ++pass) {
		OP("get arch.page_size");
		if (ST(kdump_get_number_attr(ctx, "arch.page_size", &num)) == KDUMP_OK && num) ps = num;
		OP("get max_pfn");
		if (ST(kdump_get_number_attr(ctx, "max_pfn", &num)) == KDUMP_OK) max_pfn = num;
		mix(ps); mix(max_pfn);
		attr_budget = 4000;
		walk_attrs(ctx, NULL, "", 0, max_pfn);
		if (pass) break;

		OP("get file.pagemap");
		if (ST(kdump_get_attr(ctx, "file.pagemap", &at)) == KDUMP_OK && at.type == KDUMP_BITMAP) {
			kdump_addr_t i = 0;
			OP("file.pagemap.find_set 0");
			if (ST(kdump_bmp_find_set(at.val.bitmap, &i)) == KDUMP_OK) firstfile = i;
		}
		if (ps > (1u << 20)) ps = 1u << 20;
		for (as = 0; as <= 3; ++as) {		/* KPHYS, MACHPHYS, KV, NOADDR-ish/XENV */
			uint64_t voff = as == KDUMP_KVADDR ? 0xffff880000000000ULL : 0;
			do_read(ctx, as, voff + 0, ps);
			do_read(ctx, as, voff + ps - 3, 10);
			do_read(ctx, as, voff + firstfile * ps, ps);
			do_read(ctx, as, voff + (firstfile + 1) * ps + 5, 2 * ps + 1);
			if (as == KDUMP_MACHPHYSADDR || as == KDUMP_KPHYSADDR) {
				unsigned k;
				for (k = 1; k < 7; ++k) do_read(ctx, as, k * ps, ps);
				do_read(ctx, as, (max_pfn - 1) * ps, ps);
				do_read(ctx, as, max_pfn * ps - 7, 16);
				do_read(ctx, as, max_pfn * ps, ps);
				do_read(ctx, as, ~(uint64_t)0 - 5, 6);
			}
		}
		{
			/* the OS-specific set-up of the translation (symbols, utsname, lowcore … read from the dump) */
			static const char *const os[] = { "linux", "xen" };
			unsigned k;
			for (k = 0; k < 2; ++k) {
				OP("set addrxlat.ostype %s", os[k]);
				ST(kdump_set_string_attr(ctx, "addrxlat.ostype", os[k]));
				do_read(ctx, KDUMP_KVADDR, 0xffff880000000000ULL + firstfile * ps, 64);
				do_read(ctx, KDUMP_KPHYSADDR, firstfile * ps, 64);
				do_read(ctx, KDUMP_KVADDR, 0xffffffff81000000ULL, 16);
			}
		}
		{
			char *s = NULL;
			OP("read_string");
			if (ST(kdump_read_string(ctx, KDUMP_MACHPHYSADDR, firstfile * ps, &s)) == KDUMP_OK) { mix(strlen(s)); free(s); }
			s = NULL;
			OP("vmcoreinfo_raw");
			if (ST(kdump_vmcoreinfo_raw(ctx, &s)) == KDUMP_OK) { mix(strlen(s)); free(s); }
			s = NULL;
			OP("vmcoreinfo_line");
			if (ST(kdump_vmcoreinfo_line(ctx, "OSRELEASE", &s)) == KDUMP_OK) { mix(strlen(s)); free(s); }
			{
				kdump_addr_t sym;
				OP("vmcoreinfo_symbol");
				if (ST(kdump_vmcoreinfo_symbol(ctx, "swapper_pg_dir", &sym)) == KDUMP_OK) mix(sym);
			}
		}
	}
	{
		/* a history on the open dump: the application overrides the page size (x16, halved, back to what the
		 * dump announced) and reads again; per-context buffers that depend on the page size must follow */
		static const struct { unsigned mul, div; } chg[] = { { 16, 1 }, { 1, 2 }, { 1, 1 } };
		unsigned k, j;
		/* (a small page cache first: the cache is re-allocated with every change of the page size) */
		OP("set cache.size 8");
		ST(kdump_set_number_attr(ctx, "cache.size", 8));
		for (k = 0; k < 3; ++k) {
			uint64_t nps = ps * chg[k].mul / chg[k].div;
			if (nps < 8 || nps > (1u << 20)) continue;
			OP("set arch.page_size %" PRIu64, nps);
			ST(kdump_set_number_attr(ctx, "arch.page_size", nps));
			for (j = 0; j < 3; ++j) do_read(ctx, KDUMP_MACHPHYSADDR, j * nps, nps);
			do_read(ctx, KDUMP_MACHPHYSADDR, firstfile * ps, 64);
			do_read(ctx, KDUMP_KPHYSADDR, firstfile * nps + 5, 64);
		}
	}
	OP("free");
	kdump_free(ctx);
	OP("done");
}

/* ----------------------------------------------------------------- parent */
struct input { int nfiles; unsigned baseid[MAXF]; struct buf f[MAXF]; };

static void input_free(struct input *in)
{
	int i;
	for (i = 0; i < in->nfiles; ++i) free(in->f[i].p);
	in->nfiles = 0;
}

static size_t unhex(const char *s, unsigned char **out)
{
	size_t n = strlen(s) / 2, i;
	unsigned char *p = malloc(n ? n : 1);
	for (i = 0; i < n; ++i) { unsigned v; sscanf(s + 2 * i, "%2x", &v); p[i] = v; }
	*out = p;
	return n;
}

/* parse "{ <baseid> <nmut> {p off hex | t len | a hex}* }*" from strtok stream */
static int parse_input(struct input *in, int nfiles)
{
	int i;
	in->nfiles = 0;
	if (nfiles < 1 || nfiles > MAXF) return -1;
	for (i = 0; i < nfiles; ++i) {
		char *t = strtok(NULL, " ");
		unsigned id, nmut, m;
		if (!t) return -1;
		id = strtoul(t, NULL, 10);
		t = strtok(NULL, " ");
		if (!t || id >= MAXBASE) return -1;
		nmut = strtoul(t, NULL, 10);
		in->baseid[i] = id;
		in->f[i].n = base[id].n;
		in->f[i].p = malloc(base[id].n ? base[id].n : 1);
		if (base[id].n) memcpy(in->f[i].p, base[id].p, base[id].n);
		in->nfiles = i + 1;
		for (m = 0; m < nmut; ++m) {
			char *k = strtok(NULL, " ");
			if (!k) return -1;
			if (*k == 'p') {
				size_t off = strtoull(strtok(NULL, " "), NULL, 10), n;
				unsigned char *d;
				n = unhex(strtok(NULL, " "), &d);
				if (off + n > in->f[i].n) {
					in->f[i].p = realloc(in->f[i].p, off + n);
					memset(in->f[i].p + in->f[i].n, 0, off + n - in->f[i].n);
					in->f[i].n = off + n;
				}
				memcpy(in->f[i].p + off, d, n);
				free(d);
			} else if (*k == 't') {
				size_t len = strtoull(strtok(NULL, " "), NULL, 10);
				if (len > (64u << 20)) len = 64u << 20;
				if (len > in->f[i].n) {
					in->f[i].p = realloc(in->f[i].p, len);
					memset(in->f[i].p + in->f[i].n, 0, len - in->f[i].n);
				}
				in->f[i].n = len;
			} else if (*k == 'a') {
				unsigned char *d;
				size_t n = unhex(strtok(NULL, " "), &d);
				in->f[i].p = realloc(in->f[i].p, in->f[i].n + n + 1);
				memcpy(in->f[i].p + in->f[i].n, d, n);
				in->f[i].n += n;
				free(d);
			} else
				return -1;
		}
	}
	return 0;
}

static int errfd = -1, verbose;
static char errpath[64];

static char *last_str(char *hay, const char *needle)
{
	char *r = NULL, *p = hay;
	while ((p = strstr(p, needle))) { r = p; ++p; }
	return r;
}

/* fatal: the child died; the decisive UBSan report is then the last one
 * (alignment reports are recoverable and may precede it) */
static void signature(char *sig, size_t sz, char *errtxt, int fatal)
{
	/* kind: ASan "ERROR: AddressSanitizer: <kind>" or UBSan "runtime error: <msg>" */
	char kind[96] = "unknown", func[96] = "?";
	char *p = strstr(errtxt, "ERROR: AddressSanitizer: "), *q;
	if (p) {
		p += strlen("ERROR: AddressSanitizer: ");
		snprintf(kind, sizeof kind, "%.*s", (int)strcspn(p, " \n"), p);
	} else if ((p = fatal ? last_str(errtxt, "runtime error: ") : strstr(errtxt, "runtime error: "))) {
		static const char *const pats[] = { "signed integer overflow", "shift exponent", "left shift", "division by zero",
			"null pointer", "misaligned address", "out of bounds", "load of value", "negative", "applying", "unsigned integer overflow", NULL };
		int i;
		p += strlen("runtime error: ");
		snprintf(kind, sizeof kind, "ubsan-other");
		for (i = 0; pats[i]; ++i)
			if (!strncmp(p, pats[i], strlen(pats[i])) || (strstr(p, pats[i]) && strstr(p, pats[i]) < p + strcspn(p, "\n"))) {
				snprintf(kind, sizeof kind, "ubsan-%s", pats[i]);
				break;
			}
		for (q = kind; *q; ++q) if (*q == ' ') *q = '-';
	} else if ((p = strstr(errtxt, "LeakSanitizer")))
		snprintf(kind, sizeof kind, "leak");
	/* first frame inside the library sources */
	for (q = p ? p : errtxt; (q = strstr(q, " in ")); q += 4) {
		char *eol = q + strcspn(q, "\n");
		char *src = strstr(q, "/src/kdumpfile/");
		if (!src || src > eol) src = strstr(q, "/src/addrxlat/");
		if (src && src < eol) {
			snprintf(func, sizeof func, "%.*s", (int)strcspn(q + 4, " \n"), q + 4);
			break;
		}
	}
	snprintf(sig, sz, "%s@%s", kind, func);
}

/* did the child leave a sanitizer *report* on stderr?  (ASan's "WARNING: failed to
 * allocate" lines for refused giant allocations are not reports) */
static int stderr_has_report(void)
{
	static char t[32768];
	ssize_t n;
	if (lseek(errfd, 0, SEEK_END) == 0) return 0;
	lseek(errfd, 0, SEEK_SET);
	n = read(errfd, t, sizeof t - 1);
	t[n > 0 ? n : 0] = 0;
	return strstr(t, "runtime error:") || strstr(t, "ERROR: ") || strstr(t, "Sanitizer: ");
}

static uint64_t now_ms(void)
{
	struct timespec ts;
	clock_gettime(CLOCK_MONOTONIC, &ts);
	return (uint64_t)ts.tv_sec * 1000 + ts.tv_nsec / 1000000;
}

/* run one input; returns 0 ok, 1 badstatus, 2 timeout, 3 crash; line gets the text */
static int run_input(const struct input *in, unsigned tmo_ms, char *line, size_t linesz, int usecov)
{
	int fds[MAXF], i, status, res;
	pid_t pid;
	char sig[200] = "";
	uint64_t t0;

	for (i = 0; i < in->nfiles; ++i) {
		fds[i] = memfd_create("hostile", 0);
		if (fds[i] < 0) { perror("memfd_create"); exit(3); }
		if (in->f[i].n && write(fds[i], in->f[i].p, in->f[i].n) != (ssize_t)in->f[i].n) { perror("write"); exit(3); }
	}
	memset((void *)shm, 0, offsetof(struct shm, slot));
	if (usecov) memset(shm->cov, 0, sizeof shm->cov);
	shm->open_status = -1;
	if (ftruncate(errfd, 0) || lseek(errfd, 0, SEEK_SET) < 0) { perror("errfile"); exit(3); }
	fflush(stdout);
	t0 = now_ms();
	pid = fork();
	if (pid < 0) { perror("fork"); exit(3); }
	if (!pid) {
		struct itimerval tv = { {0, 0}, { tmo_ms / 1000, (tmo_ms % 1000) * 1000 } };
		dup2(errfd, 2);
		signal(SIGALRM, SIG_DFL);
		setitimer(ITIMER_REAL, &tv, NULL);
		if (usecov) covmap = shm->cov;
		script(in->nfiles, fds);
		covmap = NULL;
		_exit(0);
	}
	for (;;) {
		pid_t w = waitpid(pid, &status, WNOHANG);
		if (w == pid) break;
		if (w < 0 && errno != EINTR) { perror("waitpid"); exit(3); }
		if (now_ms() - t0 > tmo_ms + 1500) { kill(pid, SIGKILL); waitpid(pid, &status, 0); status = -1; break; }
		usleep(now_ms() - t0 < 20 ? 200 : 2000);
	}
	for (i = 0; i < in->nfiles; ++i) close(fds[i]);

	if (status == -1 || (WIFSIGNALED(status) && WTERMSIG(status) == SIGALRM)) {
		res = 2;
		snprintf(sig, sizeof sig, " sig=timeout@%.60s", (char *)shm->op);
		for (i = 0; sig[i]; ++i) if (sig[i] == ' ' && i > 4) sig[i] = '_';
	} else if (WIFEXITED(status) && WEXITSTATUS(status) == 0 && !stderr_has_report()) {
		res = shm->bad ? 1 : 0;
		if (shm->bad) {
			snprintf(sig, sizeof sig, " sig=%s@%.80s", shm->bad == 1 ? "undocumented-status" : "read-length-grew", (char *)shm->bad_op);
			for (i = 5; sig[i]; ++i) if (sig[i] == ' ') sig[i] = '_';
		}
	} else {
		/* abnormal end, or a recoverable sanitizer report (alignment) on stderr */
		static char errtxt[32768];
		char s2[200];
		ssize_t n;
		res = 3;
		lseek(errfd, 0, SEEK_SET);
		n = read(errfd, errtxt, sizeof errtxt - 1);
		errtxt[n > 0 ? n : 0] = 0;
		if (verbose) {
			char *l = errtxt; int nl = 0;
			while (*l && nl++ < 40) {
				size_t k = strcspn(l, "\n");
				printf("# err %.*s\n", (int)(k > 300 ? 300 : k), l);
				l += k + (l[k] == '\n');
			}
		}
		signature(s2, sizeof s2, errtxt, !(WIFEXITED(status) && WEXITSTATUS(status) == 0));
		if (!strncmp(s2, "unknown@", 8) && WIFSIGNALED(status))
			snprintf(s2, sizeof s2, "signal-%d@%.80s", WTERMSIG(status), (char *)shm->op);
		snprintf(sig, sizeof sig, " sig=%s", s2);
		for (i = 5; sig[i]; ++i) if (sig[i] == ' ') sig[i] = '_';
	}
	{
		char last[160];
		snprintf(last, sizeof last, "%s", (char *)shm->op);
		for (i = 0; last[i]; ++i) if (last[i] == ' ') last[i] = '_';
		snprintf(line, linesz, "%s open=%s ops=%u last=%s digest=%016" PRIx64 "%s",
			 res == 0 ? "ok" : res == 1 ? "badstatus" : res == 2 ? "timeout" : "crash",
			 shm->open_status == -1 ? "none" : kstatus_name(shm->open_status), shm->nops, last, (uint64_t)shm->digest, sig);
	}
	return res;
}

/* Run several inputs in ONE forked child (the fork and the tear-down of an ASan
 * process cost more than the script).  Cases that finished without leaving
 * anything on stderr are reported from their slot; a case that left a report,
 * or during which the child died or timed out, is run again on its own by
 * run_input(), and the rest of the batch gets a new child. */
struct pend { char cid[64]; unsigned tmo; struct input in; };

static void emit(const char *cid, const char *res) { printf("> %s %s\n", cid, res); }

static void run_batch(struct pend *p, int n)
{
	static char res[1024];
	int start = 0, i, k;
	while (start < n) {
		int fds[MAXBATCH][MAXF], status, ndone = 0;
		pid_t pid;
		uint64_t tprog;
		long prev_err = 0;
		if (n - start == 1) {
			run_input(&p[start].in, p[start].tmo, res, sizeof res, 0);
			emit(p[start].cid, res);
			return;
		}
		for (i = start; i < n; ++i)
			for (k = 0; k < p[i].in.nfiles; ++k) {
				fds[i][k] = memfd_create("hostile", 0);
				if (fds[i][k] < 0) { perror("memfd_create"); exit(3); }
				if (p[i].in.f[k].n && write(fds[i][k], p[i].in.f[k].p, p[i].in.f[k].n) != (ssize_t)p[i].in.f[k].n) { perror("write"); exit(3); }
			}
		memset((void *)shm, 0, offsetof(struct shm, cov));
		if (ftruncate(errfd, 0) || lseek(errfd, 0, SEEK_SET) < 0) { perror("errfile"); exit(3); }
		fflush(stdout);
		pid = fork();
		if (pid < 0) { perror("fork"); exit(3); }
		if (!pid) {
			dup2(errfd, 2);
			signal(SIGALRM, SIG_DFL);
			for (i = start; i < n; ++i) {
				struct itimerval tv = { {0, 0}, { p[i].tmo / 1000, (p[i].tmo % 1000) * 1000 } };
				struct stat st;
				volatile struct slot *sl = &shm->slot[i];
				memset((void *)shm, 0, offsetof(struct shm, slot));
				shm->open_status = -1;
				setitimer(ITIMER_REAL, &tv, NULL);
				script(p[i].in.nfiles, fds[i]);
				memcpy((void *)sl->op, (void *)shm->op, sizeof sl->op);
				memcpy((void *)sl->bad_op, (void *)shm->bad_op, sizeof sl->bad_op);
				sl->nops = shm->nops; sl->open_status = shm->open_status; sl->bad = shm->bad; sl->digest = shm->digest;
				sl->errsz = fstat(2, &st) ? -1 : (long)st.st_size;
				sl->done = 1;
			}
			_exit(0);
		}
		tprog = now_ms();
		for (;;) {
			pid_t w = waitpid(pid, &status, WNOHANG);
			int d = 0;
			if (w == pid) break;
			if (w < 0 && errno != EINTR) { perror("waitpid"); exit(3); }
			for (i = start; i < n; ++i) d += shm->slot[i].done;
			if (d != ndone) { ndone = d; tprog = now_ms(); }
			if (now_ms() - tprog > p[start].tmo + 1500) { kill(pid, SIGKILL); waitpid(pid, &status, 0); break; }
			usleep(300);
		}
		for (i = start; i < n; ++i)
			for (k = 0; k < p[i].in.nfiles; ++k) close(fds[i][k]);
		for (i = start; i < n && shm->slot[i].done; ++i) {
			struct slot sl;
			memcpy(&sl, (void *)&shm->slot[i], sizeof sl);
			if (sl.errsz != prev_err) {
				prev_err = sl.errsz;
				run_input(&p[i].in, p[i].tmo, res, sizeof res, 0);	/* clobbers shm->slot? no: only the header */
			} else {
				char last[160], sig[220] = "";
				snprintf(last, sizeof last, "%s", sl.op);
				for (k = 0; last[k]; ++k) if (last[k] == ' ') last[k] = '_';
				if (sl.bad) {
					snprintf(sig, sizeof sig, " sig=%s@%.80s", sl.bad == 1 ? "undocumented-status" : "read-length-grew", sl.bad_op);
					for (k = 5; sig[k]; ++k) if (sig[k] == ' ') sig[k] = '_';
				}
				snprintf(res, sizeof res, "%s open=%s ops=%u last=%s digest=%016" PRIx64 "%s", sl.bad ? "badstatus" : "ok",
					 sl.open_status == -1 ? "none" : kstatus_name(sl.open_status), sl.nops, last, sl.digest, sig);
			}
			emit(p[i].cid, res);
		}
		if (i < n) {		/* the child died or hung in case i */
			if (WIFSIGNALED(status) && (WTERMSIG(status) == SIGALRM || WTERMSIG(status) == SIGKILL)) {
				char last[160], sig[100];
				snprintf(last, sizeof last, "%s", (char *)shm->op);
				for (k = 0; last[k]; ++k) if (last[k] == ' ') last[k] = '_';
				snprintf(sig, sizeof sig, "timeout@%.60s", last);
				snprintf(res, sizeof res, "timeout open=%s ops=%u last=%s digest=%016" PRIx64 " sig=%s",
					 shm->open_status == -1 ? "none" : kstatus_name(shm->open_status), shm->nops, last, (uint64_t)shm->digest, sig);
			} else
				run_input(&p[i].in, p[i].tmo, res, sizeof res, 0);
			emit(p[i].cid, res);
			++i;
		}
		start = i;
	}
}

/* ------------------------------------------------------------------ fuzz */
struct centry { struct input in; };
static struct centry *corpus;
static unsigned ncorpus, capcorpus;
static unsigned char seen[COVSZ];
static unsigned nedges;

static unsigned newcov(void)
{
	unsigned i, n = 0;
	for (i = 0; i < COVSZ; ++i)
		if (shm->cov[i] && !seen[i]) { seen[i] = 1; ++n; }
	nedges += n;
	return n;
}

static void corpus_add(const struct input *in)
{
	int i;
	struct input *c;
	if (ncorpus == capcorpus) {
		capcorpus = capcorpus ? 2 * capcorpus : 256;
		corpus = realloc(corpus, capcorpus * sizeof *corpus);
	}
	c = &corpus[ncorpus++].in;
	*c = *in;
	for (i = 0; i < in->nfiles; ++i) {
		c->f[i].p = malloc(in->f[i].n ? in->f[i].n : 1);
		memcpy(c->f[i].p, in->f[i].p, in->f[i].n);
	}
}

static uint64_t rs;
static uint64_t rnd(void)
{
	rs ^= rs << 13; rs ^= rs >> 7; rs ^= rs << 17;
	return rs;
}
static uint64_t interesting(unsigned width, uint64_t orig)
{
	uint64_t max = width >= 8 ? ~(uint64_t)0 : (((uint64_t)1 << (8 * width)) - 1);
	switch (rnd() % 16) {
	case 0: return 0;
	case 1: return 1;
	case 2: return max;
	case 3: return max >> 1;
	case 4: return (max >> 1) + 1;
	case 5: return orig + 1;
	case 6: return orig - 1;
	case 7: return orig * 2;
	case 8: return orig / 2;
	case 9: return (uint64_t)1 << (rnd() % (8 * width));
	case 10: return orig ^ ((uint64_t)1 << (rnd() % (8 * width)));
	case 11: return 4096u << (rnd() % 6);
	case 12: return max - (rnd() % 16);
	case 13: return rnd() % 64;
	case 14: return orig + (rnd() % 65) - 32;
	default: return rnd();
	}
}
static void put_val(unsigned char *p, unsigned width, unsigned be, uint64_t v)
{
	unsigned i;
	for (i = 0; i < width; ++i)
		p[be ? width - 1 - i : i] = v >> (8 * i);
}
static uint64_t get_val(const unsigned char *p, unsigned width, unsigned be)
{
	uint64_t v = 0;
	unsigned i;
	for (i = 0; i < width; ++i)
		v |= (uint64_t)p[be ? width - 1 - i : i] << (8 * i);
	return v;
}

static void mutate(struct input *in)
{
	unsigned nm = 1 + rnd() % 4, m;
	for (m = 0; m < nm; ++m) {
		int fi = rnd() % in->nfiles;
		struct buf *b = &in->f[fi];
		unsigned k = rnd() % 20;
		if (k < 11) {			/* a known field */
			unsigned cnt = 0, i, pick;
			for (i = 0; i < nfields; ++i) if (fields[i].id == in->baseid[fi]) ++cnt;
			if (!cnt) { k = 12; goto rawval; }
			pick = rnd() % cnt;
			for (i = 0; i < nfields; ++i)
				if (fields[i].id == in->baseid[fi] && !pick--) break;
			if (fields[i].off + fields[i].width <= b->n) {
				unsigned char *p = b->p + fields[i].off;
				put_val(p, fields[i].width, fields[i].be, interesting(fields[i].width, get_val(p, fields[i].width, fields[i].be)));
			}
			continue;
		}
 rawval:
		if (!b->n && k < 18) k = 18;
		if (k < 15) {			/* aligned word at a header-biased offset */
			static const unsigned ws[] = { 1, 2, 4, 4, 8 };
			unsigned w = ws[rnd() % 5], be = rnd() % 4 == 0;
			size_t lim = (rnd() % 3) ? (b->n < 8192 ? b->n : 8192) : b->n, off;
			if (lim < w) continue;
			off = (rnd() % (lim - w + 1)) & ~(size_t)(w - 1);
			put_val(b->p + off, w, be, interesting(w, get_val(b->p + off, w, be)));
		} else if (k < 16) {		/* bit flip */
			size_t off = rnd() % b->n;
			b->p[off] ^= 1u << (rnd() % 8);
		} else if (k < 18) {		/* block copy */
			size_t len = 1 + rnd() % 64, src, dst;
			if (b->n < len) continue;
			src = rnd() % (b->n - len + 1); dst = rnd() % (b->n - len + 1);
			memmove(b->p + dst, b->p + src, len);
		} else {			/* truncate / extend */
			size_t len;
			switch (rnd() % 4) {
			case 0: len = rnd() % (b->n + 1); break;
			case 1: len = b->n > 16 ? b->n - 1 - rnd() % 16 : 0; break;
			case 2: len = (b->n & ~(size_t)4095) + (rnd() % 3) * 4096; break;
			default: len = b->n + 1 + rnd() % 5000; break;
			}
			if (len > b->n) {
				b->p = realloc(b->p, len);
				memset(b->p + b->n, rnd() % 2 ? 0 : 0xff, len - b->n);
			}
			b->n = len;
		}
	}
}

static void print_diff(const char *tag, const struct input *in)
{
	int i;
	printf("# input %s %d", tag, in->nfiles);
	for (i = 0; i < in->nfiles; ++i) {
		const struct buf *b = &in->f[i], *o = &base[in->baseid[i]];
		size_t lim = b->n < o->n ? b->n : o->n, p = 0;
		unsigned nmut = 0;
		char *text = NULL; size_t tl = 0;
		FILE *ms = open_memstream(&text, &tl);
		if (b->n != o->n) { fprintf(ms, " t %zu", b->n); ++nmut; }
		while (p < b->n) {
			size_t q, e, gap;
			if (p < lim ? b->p[p] == o->p[p] : b->p[p] == 0) { ++p; continue; }
			/* run of differences, merging gaps shorter than 8 */
			e = p + 1; gap = 0;
			for (q = p + 1; q < b->n && gap < 8; ++q) {
				if (q < lim ? b->p[q] != o->p[q] : b->p[q] != 0) { e = q + 1; gap = 0; } else ++gap;
			}
			fprintf(ms, " p %zu ", p);
			for (q = p; q < e; ++q) fprintf(ms, "%02x", b->p[q]);
			++nmut;
			p = e;
		}
		fclose(ms);
		printf(" %u %u%s", in->baseid[i], nmut, text);
		free(text);
	}
	putchar('\n');
}

static void input_copy(struct input *dst, const struct input *src)
{
	int i;
	*dst = *src;
	for (i = 0; i < src->nfiles; ++i) {
		dst->f[i].p = malloc(src->f[i].n ? src->f[i].n : 1);
		memcpy(dst->f[i].p, src->f[i].p, src->f[i].n);
	}
}

int main(int argc, char **argv)
{
	static char line[1 << 22], res[1024];
	static struct pend pend[MAXBATCH];
	int npend = 0;
	int usecov = 0, ai;
	for (ai = 1; ai < argc; ++ai) {
		if (!strcmp(argv[ai], "cov")) usecov = 1;
		if (!strcmp(argv[ai], "verbose")) verbose = 1;
	}
	setvbuf(stdout, NULL, _IOLBF, 0);
	shm = mmap(NULL, sizeof *shm, PROT_READ | PROT_WRITE, MAP_SHARED | MAP_ANONYMOUS, -1, 0);
	if (shm == MAP_FAILED) { perror("mmap"); return 3; }
	snprintf(errpath, sizeof errpath, "/var/tmp/hostile-err.%d", (int)getpid());
	errfd = open(errpath, O_RDWR | O_CREAT | O_TRUNC, 0600);
	if (errfd < 0) { perror(errpath); return 3; }
	unlink(errpath);

#define FLUSH() do { int q_; if (npend) run_batch(pend, npend); for (q_ = 0; q_ < npend; ++q_) input_free(&pend[q_].in); npend = 0; } while (0)
	while (fgets(line, sizeof line, stdin)) {
		char *cmd;
		line[strcspn(line, "\n")] = 0;
		cmd = strtok(line, " ");
		if (!cmd) continue;
		if (strcmp(cmd, "case")) FLUSH();
		if (!strcmp(cmd, "base")) {
			unsigned id = strtoul(strtok(NULL, " "), NULL, 10);
			char *path = strtok(NULL, " ");
			struct stat st;
			int fd = open(path, O_RDONLY);
			if (fd < 0 || fstat(fd, &st) || id >= MAXBASE) { printf("> bad-base %s\n", path); continue; }
			free(base[id].p);
			base[id].n = st.st_size;
			base[id].p = malloc(st.st_size ? st.st_size : 1);
			if (read(fd, base[id].p, st.st_size) != st.st_size) { printf("> bad-base %s\n", path); }
			close(fd);
		} else if (!strcmp(cmd, "field")) {
			if (nfields < MAXFIELD) {
				fields[nfields].id = strtoul(strtok(NULL, " "), NULL, 10);
				fields[nfields].off = strtoull(strtok(NULL, " "), NULL, 10);
				fields[nfields].width = strtoul(strtok(NULL, " "), NULL, 10);
				fields[nfields].be = strtoul(strtok(NULL, " "), NULL, 10);
				if (fields[nfields].width >= 1 && fields[nfields].width <= 8) ++nfields;
			}
		} else if (!strcmp(cmd, "case")) {
			char cid[64];
			unsigned tmo; int nf, r;
			struct input in;
			snprintf(cid, sizeof cid, "%s", strtok(NULL, " "));
			tmo = strtoul(strtok(NULL, " "), NULL, 10);
			nf = strtol(strtok(NULL, " "), NULL, 10);
			if (parse_input(&in, nf)) { printf("> %s bad-case\n", cid); input_free(&in); continue; }
			if (!usecov && !verbose) {	/* batched */
				size_t tot = 0; int k;
				for (k = 0; k < in.nfiles; ++k) tot += in.f[k].n;
				snprintf(pend[npend].cid, sizeof pend[0].cid, "%s", cid);
				pend[npend].tmo = tmo; pend[npend].in = in;
				++npend;
				if (npend == MAXBATCH || tot > (1u << 20)) FLUSH();
				continue;
			}
			r = run_input(&in, tmo, res, sizeof res, usecov);
			if (usecov) {
				unsigned n = newcov();
				if (n && r == 0) corpus_add(&in);
				printf("> %s %s new=%u\n", cid, res, n);
			} else
				printf("> %s %s\n", cid, res);
			input_free(&in);
		} else if (!strcmp(cmd, "fuzz")) {
			uint64_t seed = strtoull(strtok(NULL, " "), NULL, 10), t0 = now_ms();
			unsigned iters = strtoul(strtok(NULL, " "), NULL, 10);
			unsigned tmo = strtoul(strtok(NULL, " "), NULL, 10);
			unsigned maxsec = strtoul(strtok(NULL, " "), NULL, 10);
			unsigned it, fails = 0, nsig = 0, k;
			static char sigs[256][200]; static unsigned sigcnt[256];
			rs = seed * 0x9E3779B97F4A7C15ULL + 0x1234567;
			if (!rs) rs = 1;
			if (!ncorpus) { printf("> fuzz-done iters=0 corpus=0 edges=%u fails=0\n", nedges); continue; }
			for (it = 0; it < iters && now_ms() - t0 < (uint64_t)maxsec * 1000; ++it) {
				struct input in;
				int r;
				char tag[32];
				input_copy(&in, &corpus[rnd() % ncorpus].in);
				mutate(&in);
				r = run_input(&in, tmo, res, sizeof res, usecov);
				snprintf(tag, sizeof tag, "f%u", it);
				if (r) {
					char *s = strstr(res, " sig=");
					++fails;
					for (k = 0; k < nsig; ++k) if (s && !strcmp(sigs[k], s)) break;
					if (k == nsig && nsig < 256) { snprintf(sigs[nsig], sizeof sigs[0], "%s", s ? s : ""); sigcnt[nsig++] = 0; }
					if (k < 256 && sigcnt[k]++ < 2) {
						print_diff(tag, &in);
						printf("> %s %s\n", tag, res);
					}
				} else if (usecov && newcov())
					corpus_add(&in);
				input_free(&in);
			}
			printf("> fuzz-done iters=%u corpus=%u edges=%u fails=%u\n", it, ncorpus, nedges, fails);
		} else
			printf("> bad-op %s\n", cmd);
	}
	FLUSH();
	return 0;
}
