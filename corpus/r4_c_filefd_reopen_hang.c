#include <libkdumpfile/kdumpfile.h>
#include <stdio.h>
#include <fcntl.h>
#include <unistd.h>
int main(int argc, char **argv)
{
	kdump_ctx_t *ctx = kdump_new();
	int fd1 = open(argv[1], O_RDONLY), fd2 = open(argv[2], O_RDONLY);
	kdump_status st = kdump_open_fd(ctx, fd1);
	printf("open1 %d %s\n", st, kdump_get_err(ctx));
	st = kdump_set_number_attr(ctx, KDUMP_ATTR_FILE_FD, fd2);
	printf("set file.fd %d %s\n", st, kdump_get_err(ctx));
	alarm(5);
	kdump_free(ctx);
	puts("freed");
	return 0;
}
