import Kdf.Spec.ArchWalk
/-!
# Specification of the Linux/ppc64 software page-table format "RPN shift 30" — C02

There is no hardware manual for this format: ppc64 Linux page tables are a
*software* tree (the hash MMU is filled from it), so the "architecture" is
the Linux kernel.  This file is written from the kernel's definitions, not from
`/repo/src/addrxlat/ppc64.c`:

* `arch/powerpc/include/asm/pte-hash64.h`, `pte-hash64-64k.h`:
  `_PAGE_PRESENT = 0x001` ("software: pte contains a translation"),
  `_PAGE_USER = 0x002`, `PTE_RPN_SHIFT = 30` with 64 KiB pages,
  `pte_pfn(pte) = pte_val(pte) >> PTE_RPN_SHIFT`; physical address
  `pfn << PAGE_SHIFT` (`PAGE_SHIFT = 16`).
* `pgtable-ppc64-64k.h`: index sizes.  Kernels ≤ 3.9: PTE 12, PMD 12, PUD 0,
  PGD 4 (44-bit region).  Kernels 3.10 … 4.5: PTE 8, PMD 10, PUD 0, PGD 12
  (46-bit region).  The PUD is folded, so there are three levels of tables.
  Directory entries hold the *kernel virtual address* of the next table
  (`pmd_page_vaddr(pmd) = pmd_val(pmd) & ~PMD_MASKED_BITS`).  (From 4.6 on the
  entries hold physical addresses and the PTE layout changes: a different format.)
* `arch/powerpc/mm/hugetlbpage.c`, `asm/page.h`, `asm/hugetlb.h` (3.10 … 4.4,
  `CONFIG_PPC_BOOK3S_64`), the "new hugepage directory format":
  ```
  With the new table format we have 4 cases for pgds and pmds:
  (1) invalid (all zeroes)
  (2) pointer to next table, as normal; bottom 6 bits == 0
  (3) leaf pte for huge page, bottom two bits != 00
  (4) hugepd pointer, bottom two bits == 00, next 4 bits indicate size of table
  ```
  `hugepd_ok(hpd) = ((hpd.pd & 0x3) == 0) && ((hpd.pd & HUGEPD_SHIFT_MASK) != 0)`,
  `hugepd_page(hpd) = hpd.pd & ~HUGEPD_SHIFT_MASK` (`HUGEPD_SHIFT_MASK = 0x3f`; the
  pointer is an ordinary kernel virtual address, nothing is OR-ed in; the
  allocation is `hpdp->pd = (unsigned long)new | (shift_to_mmu_psize(pshift) << 2)`),
  `hugepd_shift(hpd) = mmu_psize_to_shift((hpd.pd & HUGEPD_SHIFT_MASK) >> 2)`,
  `hugepte_offset(hpd, addr, pdshift) = hugepd_page(hpd) + ((addr & ((1 << pdshift) - 1)) >> hugepd_shift(hpd))`,
  and `add_huge_page_size()` refuses `shift <= PAGE_SHIFT`; a hugepd is only
  installed at a level whose span (`pdshift`) is larger than the huge page.
* `asm/mmu.h`: `MMU_PAGE_4K = 0, 16K, 64K, 64K_AP, 256K, 1M, 4M, 8M, 16M, 64M,
  256M, 1G, 16G, 64G = 13`, `MMU_PAGE_COUNT = 14`.

This is the only kernel generation that has all three ingredients the library's
single format `ppc64_linux_rpn30` combines (RPN shift 30, leaf PTEs in directory
entries, hugepd pointers that encode an MMU page-size index).  Kernels ≤ 3.9
used another hugepd encoding (`hugepd_ok = (signed long)pd > 0`,
`hugepd_page = (pd & ~0x3f) | PD_HUGE`, `hugepd_shift = pd & 0x3f` — the raw
shift) and had no leaf PTEs in directories.

The walker is written in "output address ∥ low virtual-address bits" style; it
is not the generic `archWalk` because table pointers live in the kernel virtual
address space (not in the target space) and because of the hugepd indirection.

## Places where this specification knowingly follows the library
1. **No range check on the input address** (`Canon.ignore`): the kernel requires
   the bits between the mapped range and the region id (top nibble) to be zero;
   the library leaves range/region selection to the translation map
   (`linux_layout` in ppc64.c routes only the vmalloc/IO/user ranges to page-table
   methods) and the method ignores all address bits above the top index.
2. **Alignment of table pointers**: the kernel masks `PMD_MASKED_BITS`/
   `PUD_MASKED_BITS = 0x1ff` (64K configuration) and relies on the tables being
   naturally aligned (`pgtable_cache_add` uses `align = table size`); here the
   low `log2(table size)` bits are ignored.  The two agree on every pointer the
   kernel can produce; bits 9 … `log2(size) − 1` are must-be-zero.
3. **PFN of a huge page is not required to be aligned** to the huge-page size;
   the offset is added to `pfn << 16` (as `pte_pfn() << PAGE_SHIFT | offset` would
   for an aligned pfn).
4. **Root in address space `NOADDR`** gives `nodata`, and a read error is passed
   through: library conventions, not part of the format.
5. `_PAGE_PRESENT` is the only flag interpreted.  (`_PAGE_BUSY`, `_PAGE_HASHPTE`
   and the hash slot bits never make an entry "none" here: `pte_none` masks them,
   the library and this specification compare the whole entry with zero.)
6. The table of page sizes is the full static `MMU_PAGE_*` list; a running
   kernel only enables those the CPU reports (`mmu_psize_defs[].shift != 0`).
-/
namespace Kdf.Spec.ArchPpc64
open Kdf.Model.Pgt Kdf.Spec.ArchWalk

/-- kernel virtual address space (`ADDRXLAT_KVADDR`) -/
def KVADDR : Nat := 2

/-- `PTE_RPN_SHIFT` of the 64 KiB-page hash PTE -/
def rpnShift : Nat := 30

/-- page shift of MMU page-size index `psize` (`asm/mmu.h`), 0 = undefined -/
def psizeShift (psize : Nat) : Nat :=
  [12, 14, 16, 16, 18, 20, 22, 23, 24, 26, 28, 30, 34, 36].getD psize 0

/-- The two points on which real and hypothetical producers of this format
differ; `kernel` below is the specification, `libkdumpfile` records what the
library implements (used to state the known deviations precisely, and for
experiments; it is *not* a specification). -/
structure Dialect where
  /-- is a non-zero directory entry whose bottom two bits are 00 a hugepd pointer? -/
  isHugepd : Nat → Bool
  /-- kernel virtual address of the huge-PTE table a hugepd entry points to -/
  hugepdTable : Nat → Nat
  /-- must a PTE have `_PAGE_PRESENT` to translate? -/
  needPresent : Bool

/-- Linux 3.10 … 4.4, book3s-64 -/
def kernel : Dialect where
  isHugepd e := e / 4 % 16 ≠ 0                 -- (pd & 0x3f) != 0, bottom two bits known to be 00
  hugepdTable e := e / 2^6 * 2^6               -- pd & ~HUGEPD_SHIFT_MASK
  needPresent := true

/-- what `/repo/src/addrxlat/ppc64.c` implements (see REPORT / `knownDeviation`) -/
def libkdumpfile : Dialect where
  isHugepd e := e / 2^63 % 2 = 0
  hugepdTable e := e / 2^6 * 2^6 + (if e / 2^63 % 2 = 0 then 2^63 else 0)
  needPresent := false

/-- A last-level PTE (or a leaf PTE in a directory, or a PTE of a hugepd table)
mapping a naturally aligned region of `2^lowBits` bytes. -/
def finalPte (d : Dialect) (t pageShift pte lowBits va : Nat) : Except XStatus FullAddr :=
  if pte = 0 then .error .notpresent                          -- pte_none
  else if d.needPresent ∧ pte % 2 = 0 then .error .notpresent -- !_PAGE_PRESENT: swap/migration entry
  else .ok ⟨(pte / 2^rpnShift * 2^pageShift % W + va % 2^lowBits) % W, t⟩

/-- Walk from the table `tbl` whose entries are selected by address field `r`
(`r = 0`: `tbl` is the page itself). -/
def descend (d : Dialect) (mem : Mem) (fields : List Nat) (t pteMask va : Nat) :
    Nat → FullAddr → Except XStatus FullAddr
  | 0, page => .ok ⟨(page.addr + va % 2^(fields.getD 0 0)) % W, t⟩
  | r+1, tbl =>
    let pageShift := fields.getD 0 0
    let span := spanBits fields (r+1)                 -- pdshift of this level
    let idx := va / 2^span % 2^(fields.getD (r+1) 0)
    match mem tbl.as ((tbl.addr + idx * 8) % W) 8 with
    | .error e => .error e
    | .ok raw =>
      let e := raw &&& ((W - 1) ^^^ pteMask)
      if r = 0 then finalPte d t pageShift e pageShift va          -- PTE page
      else if e = 0 then .error .notpresent                        -- (1) none
      else if e % 4 ≠ 0 then finalPte d t pageShift e span va      -- (3) leaf PTE of a huge page
      else if d.isHugepd e then                                    -- (4) hugepd
        let shift := psizeShift (e / 4 % 16)
        if pageShift < shift ∧ shift < span then
          let hidx := va % 2^span / 2^shift
          match mem KVADDR ((d.hugepdTable e + hidx * 8) % W) 8 with
          | .error er => .error er
          | .ok raw2 => finalPte d t pageShift (raw2 &&& ((W - 1) ^^^ pteMask)) shift va
        else .error .invalid              -- undefined page size, not larger than a page, or not smaller than the span
      else                                                         -- (2) next table
        let k := 3 + fields.getD r 0      -- log2 of the size of the next table
        descend d mem fields t pteMask va r ⟨e / 2^k * 2^k, KVADDR⟩

def specWith (d : Dialect) (mem : Mem) (t : Nat) (root : FullAddr) (pteMask : Nat) (pf : PagingForm)
    (va : Nat) : Except XStatus FullAddr :=
  if root.as = NOADDR then .error .nodata
  else descend d mem pf.fieldsz t pteMask va (pf.fieldsz.length - 1) root

/-- The specification. -/
def specPpc64 (mem : Mem) (t : Nat) (root : FullAddr) (pteMask : Nat) (pf : PagingForm) (va : Nat) :
    Except XStatus FullAddr :=
  specWith kernel mem t root pteMask pf va

/-- The paging forms Linux defines for 64 KiB pages with `PTE_RPN_SHIFT = 30`
(page offset, PTE index, PMD index, PGD index; the PUD is folded):
`[16,12,12,4]` up to 3.9 (the only one `sys_ppc64` in the library sets up and the
test-suite uses), `[16,8,10,12]` for 3.10 … 4.5. -/
def archFormPpc64 (pf : PagingForm) : Bool :=
  pf.fmt = .ppc64LinuxRpn30 && (pf.fieldsz = [16, 12, 12, 4] || pf.fieldsz = [16, 8, 10, 12])

/-! ## Known deviations of the library

`knownDeviation` is true iff the walk — followed as far as specification and
library agree — meets an entry of one of these classes:

* **D1 (present bit ignored)**: a PTE that ends the translation (last-level PTE
  or leaf PTE in a directory entry) is non-zero but has `_PAGE_PRESENT` (bit 0)
  clear.  Specification: `notpresent` (swap or migration entry: the upper bits
  are a swap type/offset, not a frame number).  Library: translates it
  (`pgt_ppc64_linux` only tests `!pte`), i.e. returns a bogus physical address
  for a swapped-out user page.  (Caveat: kernels 3.13 … 3.19 mark NUMA-hinting
  PTEs by clearing `_PAGE_PRESENT` and setting `_PAGE_NUMA = 0x10`; those still
  carry a valid frame number.  The library does not distinguish them either.)
* **D2 (hugepd recognition and pointer)**: a non-zero directory entry with bottom
  two bits 00 that is a hugepd pointer for the kernel (bits 5:2 ≠ 0) or for the
  library (bit 63 = 0, `is_hugepd_linux`), except when both reject it as
  `invalid` (bit 63 = 0, bits 5:2 ≠ 0, undefined page size).  The library
  mixes the ≤ 3.9 recognition rule and pointer reconstruction
  (`!(pte & PD_HUGE)`, `| PD_HUGE`) with the ≥ 3.10 size encoding
  (`mmu_psize << 2`): real ≥ 3.10 hugepd pointers (bit 63 set) are walked as
  ordinary tables with the wrong index; entries with bit 63 clear and bits 5:0 = 0
  are treated as a hugepd of 4 KiB pages; if both agree that it is a hugepd the
  table address differs in bit 63; and the library accepts page sizes ≤ 64 KiB or
  ≥ the span of the directory entry.
-/

/-- D1 on a translation-ending PTE -/
def devFinal (pte : Nat) : Bool := pte ≠ 0 && pte % 2 = 0

/-- D2 on a non-zero directory entry with bottom two bits 00 -/
def devDir (e : Nat) : Bool :=
  let top := e / 2^63 % 2
  let psize := e / 4 % 16
  !(top = 1 && psize = 0) &&                                -- both: next table
  !(top = 0 && psize ≠ 0 && psizeShift psize = 0)           -- both: invalid

/-- class of the first deviating entry on the walk: 0 none, 1 = D1, 2 = D2 -/
def deviationClass (mem : Mem) (fields : List Nat) (pteMask va : Nat) : Nat → FullAddr → Nat
  | 0, _ => 0
  | r+1, tbl =>
    let idx := va / 2^(spanBits fields (r+1)) % 2^(fields.getD (r+1) 0)
    match mem tbl.as ((tbl.addr + idx * 8) % W) 8 with
    | .error _ => 0
    | .ok raw =>
      let e := raw &&& ((W - 1) ^^^ pteMask)
      if r = 0 then (if devFinal e then 1 else 0)
      else if e = 0 then 0
      else if e % 4 ≠ 0 then (if devFinal e then 1 else 0)
      else if devDir e then 2
      else if e / 4 % 16 = 0 then
        let k := 3 + fields.getD r 0
        deviationClass mem fields pteMask va r ⟨e / 2^k * 2^k, KVADDR⟩
      else 0

def knownDeviationClass (mem : Mem) (_t : Nat) (root : FullAddr) (pteMask : Nat) (pf : PagingForm) (va : Nat) : Nat :=
  if root.as = NOADDR then 0 else deviationClass mem pf.fieldsz pteMask va (pf.fieldsz.length - 1) root

def knownDeviation (mem : Mem) (t : Nat) (root : FullAddr) (pteMask : Nat) (pf : PagingForm) (va : Nat) : Bool :=
  knownDeviationClass mem t root pteMask pf va ≠ 0

end Kdf.Spec.ArchPpc64
