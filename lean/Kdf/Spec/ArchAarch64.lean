import Kdf.Spec.ArchWalk
/-!
# Architectural specification of the AArch64 stage-1 translation table walk — C02

Written from the Arm Architecture Reference Manual for A-profile (DDI 0487),
chapter D8 "The AArch64 Virtual Memory System Architecture" (VMSAv8-64), *not*
from `src/addrxlat/aarch64.c`.

## What the manual says (the parts that determine the output address)

* Translation granule `2^g` bytes, `g ∈ {12, 14, 16}`.  Every descriptor is 64 bits,
  so a full table resolves `g - 3` input-address bits; the last lookup level is
  level 3 and resolves IA bits `[g+(g-3)-1 : g]`, level 2 the next `g-3` bits, and
  so on.  The initial lookup level is determined by the input-address size
  `64 - TxSZ`; the table at the initial level may resolve fewer than `g-3` bits
  (it is then smaller than a granule).  No concatenation at stage 1.
  => paging form `[g, g-3, …, g-3, top]` with `1 ≤ top ≤ g-3`.
  In the numbering of this framework field `r ≥ 1` is lookup level `4 - r`
  (r = 1: level 3, r = 2: level 2, r = 3: level 1, r = 4: level 0, r = 5: level -1).
* Input-address size: 48 bits at most; 52 bits with FEAT_LVA (64 KB granule) or
  FEAT_LPA2 (4 KB / 16 KB granule, TCR_ELx.DS = 1).  Smallest size: TxSZ ≤ 39
  (25 bits), with FEAT_TTST TxSZ ≤ 48 (16 bits; 64 KB granule: TxSZ ≤ 47, 17 bits).
* A virtual address is translated through TTBR0 if bits [63:vb] are all zero and
  through TTBR1 if they are all one (vb = 64 - TxSZ; top-byte-ignore, a
  per-regime option, is not assumed); any other address generates a Translation
  fault without any table access.
* Descriptor, bit 0 = valid.  Bit 0 = 0: invalid descriptor -> Translation fault.
  Bits[1:0] = 0b11: table descriptor at levels -1, 0, 1, 2; page descriptor at level 3.
  Bits[1:0] = 0b01: block descriptor at the levels that support blocks, otherwise
  (level 3, and every level without block support) a reserved encoding that is
  treated as invalid -> Translation fault.
* Levels with block descriptors:
    4 KB granule:  level 1 (1 GB), level 2 (2 MB);  level 0 (512 GB) only with FEAT_LPA2/DS=1
    16 KB granule: level 2 (32 MB);                 level 1 (64 GB)  only with FEAT_LPA2/DS=1
    64 KB granule: level 2 (512 MB);                level 1 (4 TB)   only with FEAT_LPA (52-bit OA)
  never at level -1.
* Address fields (n = number of IA bits the entry maps: n = g for table and page
  descriptors, the region size for blocks):
    48-bit OA (VMSAv8-64):          address[47:n] = descriptor[47:n]
    FEAT_LPA, 64 KB granule:        address[47:n] = descriptor[47:n],  address[51:48] = descriptor[15:12]
    FEAT_LPA2 (DS=1), 4/16 KB:      address[49:n] = descriptor[49:n],  address[51:50] = descriptor[9:8]
  The same layout holds for next-level table addresses.  Bits below n that are not
  re-used as above are RES0 (bit 16 of a block is nT with FEAT_BBM).
* Result = output address ∥ IA[n-1:0].

## Status mapping and places where the library's conventions are followed

* "invalid descriptor" (bit 0 = 0) is reported as `notpresent`; a reserved
  encoding as `invalid`.  Architecturally both are Translation faults; the split
  is the library's vocabulary (the same split is used for RISC-V in `ArchWalk`).
* RES0 / IGNORED / attribute bits (descriptor[63:52], [51:48] resp. [51:50],
  [11:2] apart from the re-used address bits, the low bits of a block address)
  are ignored.  Hardware does not check RES0 bits either; an Address size fault
  for output addresses beyond the implemented PA size is *not* modelled (the PA
  size is not a parameter of the method), nor are permissions / access flag.
* The translation-table base (`root`) is taken as is (no TTBR alignment / BADDR
  rules, no CnP/ASID); `root.as = NOADDR` gives `nodata` and `pte_mask` is applied
  to each descriptor (library parameters, no architectural counterpart).
* Out-of-range virtual addresses are reported as `invalid` (cf. non-canonical
  x86-64 addresses).  See `knownDeviation`, class `vaRange`.
-/
namespace Kdf.Spec.ArchAarch64
open Kdf.Model.Pgt Kdf.Spec.ArchWalk

/-- The three descriptor layouts. -/
inductive Layout | v8 | lpa | lpa2
  deriving DecidableEq, Repr, Inhabited

def layoutOf : PteFormat → Option Layout
  | .aarch64 => some .v8 | .aarch64Lpa => some .lpa | .aarch64Lpa2 => some .lpa2 | _ => none

/-- Does lookup level `4 - r` support block descriptors? (`g` = log2 of the granule) -/
def blockAllowed (l : Layout) (g r : Nat) : Bool :=
  match l, g with
  | .v8, 12 => r = 2 || r = 3                 -- level 2 (2 MB), level 1 (1 GB)
  | .v8, 14 => r = 2                          -- level 2 (32 MB)
  | .v8, 16 => r = 2                          -- level 2 (512 MB)
  | .lpa, 16 => r = 2 || r = 3                -- + level 1 (4 TB)
  | .lpa2, 12 => r = 2 || r = 3 || r = 4      -- + level 0 (512 GB)
  | .lpa2, 14 => r = 2 || r = 3               -- + level 1 (64 GB)
  | _, _ => false

/-- Address held by a descriptor whose low `n` address bits are not part of the field. -/
def descAddr (l : Layout) (pte n : Nat) : Nat :=
  match l with
  | .v8 => pte % 2^48 / 2^n * 2^n
  | .lpa => pte % 2^48 / 2^n * 2^n + pte / 2^12 % 2^4 * 2^48
  | .lpa2 => pte % 2^50 / 2^n * 2^n + pte / 2^8 % 2^2 * 2^50

/-- Entry decoder for `descend`: the entry selected by field `r`. -/
def decodeAarch64 (l : Layout) (fields : List Nat) (r pte : Nat) : Desc :=
  let g := fields.getD 0 0
  if pte % 2 = 0 then .notPresent                           -- invalid descriptor
  else if pte / 2 % 2 = 1 then                              -- 0b11
    if r = 1 then .leaf (descAddr l pte g)                  -- page (level 3)
    else .table (descAddr l pte g)                          -- table (levels -1 … 2)
  else                                                      -- 0b01
    if r ≠ 1 ∧ blockAllowed l g r then .leaf (descAddr l pte (spanBits fields r))
    else .invalid                                           -- reserved encoding

/-- `[g, g-3, …, g-3, top]` for an input-address size of `vb` bits -/
def formFields (g vb : Nat) : List Nat :=
  g :: (List.replicate ((vb - g) / (g - 3)) (g - 3) ++
        (if (vb - g) % (g - 3) = 0 then [] else [(vb - g) % (g - 3)]))

/-- granules of a layout -/
def granuleOk (l : Layout) (g : Nat) : Bool :=
  match l with
  | .v8 => g = 12 || g = 14 || g = 16
  | .lpa => g = 16
  | .lpa2 => g = 12 || g = 14

/-- smallest / largest input-address size -/
def minVa (g : Nat) : Nat := if g = 16 then 17 else 16
def maxVa (l : Layout) (g : Nat) : Nat :=
  match l with
  | .v8 => if g = 16 then 52 else 48          -- FEAT_LVA does not depend on FEAT_LPA
  | .lpa => 52
  | .lpa2 => 52

/-- The paging forms the architecture defines for the three formats.  The LPA and
LPA2 layouts are selected by the output-address size / `TCR_ELx.DS`, not by the
input-address size, so they include the forms with 48 or fewer VA bits (the
library's own tests use e.g. `aarch64_lpa:16,13,13,6`). -/
def archFormAarch64 (pf : PagingForm) : Bool :=
  match layoutOf pf.fmt, pf.fieldsz with
  | some l, g :: _ =>
    let vb := spanBits pf.fieldsz pf.fieldsz.length
    granuleOk l g && decide (minVa g ≤ vb) && decide (vb ≤ maxVa l g) && pf.fieldsz == formFields g vb
  | _, _ => false

/-- TTBR0 range (upper bits all zero) or TTBR1 range (upper bits all one). -/
def vaInRange (vb va : Nat) : Bool := va / 2^vb = 0 || va / 2^vb = (W - 1) / 2^vb

/-- Specification of a page-table method with one of the three AArch64 formats.
Arguments: memory, target address space, table base, PTE mask, paging form, VA. -/
def specAarch64 (mem : Mem) (t : Nat) (root : FullAddr) (pteMask : Nat) (pf : PagingForm)
    (va : Nat) : Except XStatus FullAddr :=
  match layoutOf pf.fmt with
  | none => .error .notimpl
  | some l =>
    if root.as = NOADDR then .error .nodata
    else if !vaInRange (spanBits pf.fieldsz pf.fieldsz.length) va then .error .invalid
    else descend (decodeAarch64 l pf.fieldsz) mem pf.fieldsz 8 t pteMask va (pf.fieldsz.length - 1) root

/-! ## Known deviations of the library from the architecture

`knownDeviation` is *not* part of the specification.  It delimits the inputs on
which `/repo/src/addrxlat/aarch64.c` is known to differ from `specAarch64`, so that
the comparison can proceed on all the others.  One class is left (`vaRange`, recorded
in `KNOWN_FINDINGS` under the key `aarch64-va-range`).  The former class `oaTopBit`
(LPA/LPA2 address extraction dropped descriptor bit 47 resp. 49) is gone: the library
was fixed (commit b158e8f) and `walk_eq_spec_aarch64` holds without it.  The
arguments `mem t root pteMask` are kept for a uniform signature. -/

/-- **Class `vaRange`.**  The virtual address lies neither in the TTBR0 range nor in
the TTBR1 range of the paging form.  The architecture generates a Translation
fault; the library (`first_step_pgt_generic` without `step_check_uaddr/saddr`)
silently drops the upper address bits and translates `va mod 2^vb`. -/
def devVaRange (pf : PagingForm) (va : Nat) : Bool :=
  !vaInRange (spanBits pf.fieldsz pf.fieldsz.length) va

/-- the known-deviation classes that apply to this input (empty: none) -/
def knownDeviations (_mem : Mem) (_t : Nat) (root : FullAddr) (_pteMask : Nat) (pf : PagingForm)
    (va : Nat) : List String :=
  if root.as = NOADDR then [] else
  (if devVaRange pf va then ["vaRange"] else [])

def knownDeviation (mem : Mem) (t : Nat) (root : FullAddr) (pteMask : Nat) (pf : PagingForm)
    (va : Nat) : Bool :=
  !(knownDeviations mem t root pteMask pf va).isEmpty

end Kdf.Spec.ArchAarch64
