import Kdf.Model.Sys
/-!
# Declarative statement of what `do_op` computes — C09

A chain is a list of stages, a stage a list of maps in order of preference.
For one stage and one address, `cand` says what a single map contributes:
nothing (`none`: wrong input space, map not installed, no method for the
address, or the method answers NOMETH/NODATA), or an outcome.  The stage
delivers the outcome of the **first** contributing map.  A route threads the
address through the stages and stops at the first address in a usable space.
-/
namespace Kdf.Spec.Route
open Kdf.Model.Pgt Kdf.Model.Sys

/-- denotation of one method: where it sends `addr` -/
def den (wk : WalkFn) (m : Meth) (addr : Nat) : Except XStatus FullAddr :=
  match m with
  | .linear t off => .ok ⟨(addr + off) % W, t⟩
  | m => (wk m addr).map (·.base)

/-- contribution of map `mi` for address `a` (`OpRes.call fa` = translated to `fa`) -/
def cand (sys : Sys) (wk : WalkFn) (a : FullAddr) (mi : Nat) : Option OpRes :=
  if a.as ≠ mapExpectAs mi then none
  else match sys.maps[mi]? with
    | none => some .oob
    | some none => none
    | some (some m) =>
      let idx := Kdf.Model.Map.mapSearch m a.addr
      if idx = Kdf.Model.Map.NONE then none
      else match methAt sys idx with
        | none => some .oob
        | some meth =>
          match den wk meth a.addr with
          | .ok fa => some (.call fa)
          | .error e => if e = .nometh ∨ e = .nodata then none else some (.fail e)

/-- one stage: the first contributing map decides -/
def stage (sys : Sys) (caps : Nat) (wk : WalkFn) (alt : List Nat) (a : FullAddr) : AltRes :=
  match (alt.filterMap (cand sys wk a)).head? with
  | none => .next a
  | some (.call fa) => if capsHas caps fa.as then .done (.call fa) else .next fa
  | some r => .done r

/-- a route: stage after stage, until a usable address appears -/
def route (sys : Sys) (caps : Nat) (wk : WalkFn) : List (List Nat) → FullAddr → OpRes
  | [], _ => .fail .nometh
  | alt :: rest, a =>
    match stage sys caps wk alt a with
    | .done r => r
    | .next a' => route sys caps wk rest a'

end Kdf.Spec.Route
