import Kdf.Spec.ArchWalk
/-!
# Architectural specification: 32-bit Arm, short-descriptor translation tables — C02

Written from the Arm Architecture Reference Manual (ARMv7-A/R edition, DDI 0406C,
chapter B3.5 "Short-descriptor translation table format"; the AArch32 part of
DDI 0487, G5.4, is the same), **not** from `src/addrxlat/arm.c`.

## What the manual says

* Virtual addresses are 32 bits wide.  `TTBCR.N = n` (0 … 7) splits the address
  space: a VA whose top `n` bits are all zero is translated through `TTBR0`,
  whose first-level table has `2^(12-n)` word entries indexed by `VA[31-n:20]`
  (so it is `2^(14-n)` bytes long and aligned to its size); every other VA is
  translated through `TTBR1` (always the full 16 KiB, `VA[31:20]`).  A single
  page-table method of the library describes *one* table, i.e. `TTBR0` with
  `fieldsz = 12, 8, 12-n` (`init_pgt_meth(ctl, ttbcr_n)` in arm.c) — `n = 0`
  also describes `TTBR1`.
* first-level descriptor address = `TTBR[31:14-n] : VA[31-n:20] : 0b00`.
  First-level descriptor, bits[1:0]:
  - `0b00` invalid → Translation fault;
  - `0b01` page table: second-level table base = `desc[31:10]` (1 KiB aligned, 256 entries);
  - `0b1x` section (bit[18] = 0) or supersection (bit[18] = 1); bit[0] is the PXN
     attribute.  Section: `PA = desc[31:20] : VA[19:0]` (1 MiB).
     Supersection: `PA[39:0] = desc[8:5] : desc[23:20] : desc[31:24] : VA[23:0]` (16 MiB;
     the descriptor is replicated in 16 consecutive entries, the walk reads the
     one selected by `VA[31:20]`).
* second-level descriptor address = `desc1[31:10] : VA[19:12] : 0b00`.
  Second-level descriptor, bits[1:0]:
  - `0b00` invalid → Translation fault;
  - `0b01` large page: `PA = desc[31:16] : VA[15:0]` (64 KiB; replicated 16 times);
  - `0b1x` small page (bit[0] = XN): `PA = desc[31:12] : VA[11:0]`.

## Assumptions / places where this specification follows the library, not the manual

1. *PXN implemented.*  On an ARMv7 implementation **without** the PXN attribute
   (no LPAE) a first-level descriptor with bits[1:0] = `0b11` is reserved and
   faults.  With LPAE, and in ARMv8 AArch32, it is a (super)section with PXN = 1.
   The specification takes the latter (current) reading.
2. *40-bit supersections.*  The extended base address bits `PA[39:32]` of a
   supersection are optional in ARMv7 without LPAE (then they are SBZ);
   the specification assumes they are implemented.
3. *Faults.*  A Translation fault is reported as `notpresent` (library
   convention, as for the P bit of x86).  Domain, access-permission and
   access-flag checks are not part of address translation proper and are not
   modelled; neither is the IMPLEMENTATION DEFINED bit[9]/SBZ bits.
4. *PTE mask.*  `pte_mask` is a library feature (software bits to be cleared from
   every descriptor before it is interpreted); applied exactly as in the
   generic `descend`.
5. *Root.*  The manual takes the table base from `TTBR[31:14-n]` (low bits are
   attributes, the base is aligned).  The library's `root` is a full address
   in an arbitrary address space, to which the index is *added*; the
   specification does the same (identical for an aligned root below 2^32) and
   wraps at 2^64 for totality.  Second-level tables are read from the method's
   target address space (library convention, as in `descend`).
6. *No root.*  `root.as = NOADDR` gives `nodata` (library convention, as `archWalk`).
-/
namespace Kdf.Spec.ArchArm
open Kdf.Model.Pgt

/-- First-level descriptor kinds. `block k pa`: a region of `2^k` bytes at `pa`. -/
inductive Desc1
  | fault
  | pageTable (base : Nat)
  | block (k : Nat) (pa : Nat)
  deriving DecidableEq, Repr, Inhabited

/-- Second-level descriptor kinds. -/
inductive Desc2
  | fault
  | page (k : Nat) (pa : Nat)
  deriving DecidableEq, Repr, Inhabited

/-- bit field `x[hi:lo]` -/
def field (x hi lo : Nat) : Nat := x / 2^lo % 2^(hi + 1 - lo)

def decodeL1 (d : Nat) : Desc1 :=
  if field d 1 0 = 0 then .fault
  else if field d 1 0 = 1 then .pageTable (field d 31 10 * 2^10)
  else if field d 18 18 = 0 then .block 20 (field d 31 20 * 2^20)                      -- section
  else .block 24 (field d 31 24 * 2^24 + field d 23 20 * 2^32 + field d 8 5 * 2^36)    -- supersection

def decodeL2 (d : Nat) : Desc2 :=
  if field d 1 0 = 0 then .fault
  else if field d 1 0 = 1 then .page 16 (field d 31 16 * 2^16)                         -- large page
  else .page 12 (field d 31 12 * 2^12)                                                 -- small page

/-- The paging forms of the short-descriptor format: `TTBCR.N = 0 … 7`. -/
def archFormArm (pf : PagingForm) : Bool :=
  pf.fmt = .arm &&
  (pf.fieldsz = [12, 8, 12] || pf.fieldsz = [12, 8, 11] || pf.fieldsz = [12, 8, 10] ||
   pf.fieldsz = [12, 8, 9] || pf.fieldsz = [12, 8, 8] || pf.fieldsz = [12, 8, 7] ||
   pf.fieldsz = [12, 8, 6] || pf.fieldsz = [12, 8, 5])

/-- `TTBCR.N` of a paging form -/
def ttbcrN (pf : PagingForm) : Nat := 12 - pf.fieldsz.getD 2 0

/-- The translation table walk proper: `va` is an address that the first-level
table at `root` translates. -/
def tableWalk (mem : Mem) (t : Nat) (root : FullAddr) (pteMask : Nat) (va : Nat) :
    Except XStatus FullAddr :=
  match mem root.as ((root.addr + va / 2^20 * 4) % W) 4 with          -- index VA[31-n:20]
  | .error e => .error e
  | .ok raw1 =>
    match decodeL1 (raw1 &&& ((W - 1) ^^^ pteMask)) with
    | .fault => .error .notpresent
    | .block k pa => .ok ⟨pa + va % 2^k, t⟩
    | .pageTable l2 =>
      match mem t (l2 + va / 2^12 % 2^8 * 4) 4 with                  -- index VA[19:12]
      | .error e => .error e
      | .ok raw2 =>
        match decodeL2 (raw2 &&& ((W - 1) ^^^ pteMask)) with
        | .fault => .error .notpresent
        | .page k pa => .ok ⟨pa + va % 2^k, t⟩

/-- Translation of `va` through the table at `root` (see the file header). -/
def specArm (mem : Mem) (t : Nat) (root : FullAddr) (pteMask : Nat) (pf : PagingForm) (va : Nat) :
    Except XStatus FullAddr :=
  if root.as = NOADDR then .error .nodata
  -- not a 32-bit virtual address, or (N > 0) an address that TTBR0 does not translate
  else if va ≥ 2^(32 - ttbcrN pf) then .error .invalid
  else tableWalk mem t root pteMask va

/-- KNOWN DEVIATION (library vs. architecture) — recorded in `KNOWN_FINDINGS`, key `arm-va-range`.
`first_step_pgt` uses `first_step_pgt_generic` for `ADDRXLAT_PTE_ARM`, i.e. it
never checks `idx[nfields]`: an input address that is not a virtual address of
this table (`va ≥ 2^(32-N)`, in particular anything `≥ 2^32`) is silently
truncated to its low `32-N` bits and translated, where the architecture has no
such address (resp. uses TTBR1) and the library's own ia32 code answers
`ADDRXLAT_ERR_INVALID` ("Virtual address too big").  The predicate excludes
exactly this class from the implementation-vs-specification comparison. -/
def knownDeviation (pf : PagingForm) (va : Nat) : Bool :=
  decide (va ≥ 2^(32 - ttbcrN pf))

end Kdf.Spec.ArchArm
