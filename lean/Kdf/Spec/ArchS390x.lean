import Kdf.Spec.ArchWalk
/-!
# Architectural specification of z/Architecture dynamic address translation — C02

Written from *z/Architecture Principles of Operation* (SA22-7832), chapter 3,
"Dynamic Address Translation", independently of `src/addrxlat/s390x.c`.

IBM numbers bits from the left: bit 0 is the most significant bit of a 64-bit
word.  `fld x i n` is the `n`-bit field whose leftmost bit is bit `i`.

## Virtual address

| bits  | name | selects an entry of          |
|-------|------|------------------------------|
| 0–10  | RFX  | region-first table           |
| 11–21 | RSX  | region-second table          |
| 22–32 | RTX  | region-third table           |
| 33–43 | SX   | segment table                |
| 44–51 | PX   | page table                   |
| 52–63 | BX   | byte within the 4 KiB page   |

i.e. field widths `[12, 8, 11, 11, 11, 11]` counted from the right.  The
address-space-control element (ASCE) names the top-level table by its
designation type DT: `11` region-first, `10` region-second, `01` region-third,
`00` segment table.  With DT < 11 the index fields to the left of the first one
used must be zero, otherwise an *ASCE-type exception* is recognised.

## Table entries (all 8 bytes)

Region-table entry (TT = 11, 10, 01 for first, second, third):
bits 0–51 origin of the next lower table (4 KiB aligned), 56–57 TF (table
offset), 58 I (region invalid), 60–61 TT (table type), 62–63 TL (table length).
The designated table holds the quarters TF … TL of a full 2048-entry table: the
two leftmost bits of the next index are compared with TF and TL; below TF or
above TL the region-second / region-third / segment-translation exception of
the *next* level is recognised.  With EDAT-2 a region-third-table entry has the
format control FC in bit 53; FC = 1 makes it a leaf: bits 0–32 are the
region-frame absolute address (2 GiB frame) and there is no TF/TL.

Segment-table entry (TT = 00): 58 I, 60–61 TT, 53 FC (EDAT-1).  FC = 0: bits
0–52 are the page-table origin (2 KiB aligned: a page table has 256 entries);
FC = 1: bits 0–43 are the segment-frame absolute address (1 MiB frame).

Page-table entry: bits 0–51 page-frame real address, bit 52 must be zero, 53 I,
54 P, 55 IEP.

Exceptions (PoP "Translation-Specification Exception", "… Translation
Exception"): when I = 1 the rest of an entry is ignored and the region-first /
-second / -third / segment / page-translation exception is recognised
(`notPresent`).  For a *valid* entry a wrong TT, or a page-table entry with bit
52 = 1, is a translation-specification exception (`invalid`).

## Assumptions of this specification (library conventions, not the manual)

* The library has no ASCE, only a table origin `root` and a field list; the
  ASCE is taken to be: origin = `root.addr` (used as it is, even if it is not
  4 KiB aligned), DT = number of fields − 3, TL = 3 (full-length top table), R =
  0 (no real-space designation), P = 0 (so the common-region / common-segment
  bits cannot cause a translation-specification exception).
* EDAT-1 and EDAT-2 are installed and enabled (CR0.40), the instruction-execution
  protection facility is installed (so PTE bit 55 is IEP, not a must-be-zero bit).
* An ASCE-type exception (address does not fit the designation type) is reported
  as `invalid`: the address is untranslatable whatever the tables contain.
* Protection bits (P, IEP), access-control, change-recording override and the
  like do not influence the translated address and are ignored.
* Table-entry addresses wrap modulo 2^64 ("a carry out of bit position 0 is
  ignored").
* Prefixing (real → absolute) is not applied to the result: the library's target
  address space is whatever the caller names.
-/
namespace Kdf.Spec.ArchS390x
open Kdf.Model.Pgt Kdf.Spec.ArchWalk

/-- field of `n` bits whose leftmost bit is IBM bit `i` of a 64-bit word -/
def fld (x i n : Nat) : Nat := x / 2^(64 - i - n) % 2^n

/-- IBM bits `0 … k-1` of `x` with zeros appended on the right (an "origin" or
"frame address" field extended to a 64-bit byte address) -/
def leftBits (x k : Nat) : Nat := x / 2^(64 - k) * 2^(64 - k)

/-- The one documented deviation of the library (see `knownDeviation`).  The
specification proper is `strict`.  (A former second quirk, D1 "the table-offset/length
comparison is done with 0 instead of the two leftmost bits of the next index", was a
defect of the library — a shift by −1 — and has been fixed there in commit fff6375; TF
and TL are now enforced as the architecture says and the quirk no longer exists.) -/
structure Quirks where
  /-- D2: bit 52 of a valid page-table entry is not checked -/
  ignorePteBit52 : Bool
  deriving DecidableEq, Repr

def strict : Quirks := ⟨false⟩
def library : Quirks := ⟨true⟩

/-- the two leftmost bits of the index into the table designated by a level-`r`
region-table entry: RSX (bits 11–12) below a region-first-table entry, RTX (bits
22–23) below a region-second, SX (bits 33–34) below a region-third -/
def nextQuarter (va r : Nat) : Nat :=
  if r = 5 then fld va 11 2 else if r = 4 then fld va 22 2 else fld va 33 2

/-- Decoder of the entry selected by address field `r`:
`r = 1` page table, `2` segment table, `3`/`4`/`5` region-third, -second, -first table. -/
def decodeS390x (q : Quirks) (va : Nat) (r pte : Nat) : Desc :=
  if r = 1 then
    if fld pte 53 1 = 1 then .notPresent                        -- I: page-translation exception
    else if fld pte 52 1 = 1 ∧ q.ignorePteBit52 = false then .invalid   -- translation-specification
    else .leaf (leftBits pte 52)                                -- PFRA
  else if r = 2 then
    if fld pte 58 1 = 1 then .notPresent                        -- I: segment-translation exception
    else if fld pte 60 2 ≠ 0 then .invalid                      -- TT ≠ 00
    else if fld pte 53 1 = 1 then .leaf (leftBits pte 44)       -- FC = 1: SFAA, 1 MiB
    else .table (leftBits pte 53)                               -- page-table origin, 2 KiB aligned
  else
    -- region tables; there is no table above the region-first table (r ≥ 6): no TT value fits
    if fld pte 58 1 = 1 then .notPresent                        -- I: region-translation exception
    else if fld pte 60 2 ≠ r - 2 then .invalid                  -- TT: 01 third, 10 second, 11 first
    else if r = 3 ∧ fld pte 53 1 = 1 then .leaf (leftBits pte 33)   -- FC = 1: RFAA, 2 GiB
    else
      let x := nextQuarter va r
      if x < fld pte 56 2 ∨ x > fld pte 62 2 then .notPresent   -- outside TF … TL
      else .table (leftBits pte 52)                             -- table origin, 4 KiB aligned

/-- the four ASCE designation types -/
def archFormS390x (pf : PagingForm) : Bool :=
  pf.fmt = .s390x &&
  (pf.fieldsz = [12, 8, 11] || pf.fieldsz = [12, 8, 11, 11] || pf.fieldsz = [12, 8, 11, 11, 11] ||
   pf.fieldsz = [12, 8, 11, 11, 11, 11])

def specWith (q : Quirks) (mem : Mem) (t : Nat) (root : FullAddr) (pteMask : Nat) (pf : PagingForm)
    (va : Nat) : Except XStatus FullAddr :=
  archWalk (decodeS390x q va) .unsigned mem t root pteMask pf.fieldsz 8 va

/-- The specification: z/Architecture DAT as the manual defines it. -/
def specS390x (mem : Mem) (t : Nat) (root : FullAddr) (pteMask : Nat) (pf : PagingForm) (va : Nat) :
    Except XStatus FullAddr :=
  specWith strict mem t root pteMask pf va

/-- equality of two translation results -/
def sameResult : Except XStatus FullAddr → Except XStatus FullAddr → Bool
  | .ok a, .ok b => decide (a = b)
  | .error e, .error f => decide (e = f)
  | _, _ => false

/-- ### KNOWN DEVIATION of the library from the architecture

The inputs on which the outcome changes because of

* **D2** a valid page-table entry with bit 52 = 1 is accepted (the manual demands
  a translation-specification exception).  Benign: no operating system sets the bit
  in a valid entry; the library "follows Linux" here.  Not claimed as a defect, no
  `KNOWN_FINDINGS` entry; the check counts these inputs and still requires the
  library to agree with `specWith library` on them.

Nothing else is excluded: outside this class the library has to agree with
`specS390x`, inside it has to agree with `specWith library`.  (The former class D1,
see `Quirks`, disappeared with the library fix.) -/
def knownDeviation (mem : Mem) (t : Nat) (root : FullAddr) (pteMask : Nat) (pf : PagingForm)
    (va : Nat) : Bool :=
  !sameResult (specWith library mem t root pteMask pf va) (specWith strict mem t root pteMask pf va)

end Kdf.Spec.ArchS390x
