import Kdf.Model.Pgt
/-!
# Architectural specification of page-table translation — C02

An *independent* definition, written from the architecture manuals in
"output address ∥ low virtual-address bits" style: no index array, no
`remain`/`elemsz` bookkeeping, no huge-page folding.  A format is described by
how one table entry is decoded at a given level (`decode r pte`, where the entry
at level `r ≥ 1` maps a naturally aligned region of `2^(spanBits r)` bytes).

`archWalk` is the specification for page-table methods, `specXlat` extends it
to linear, lookup and memory-array methods.
-/
namespace Kdf.Spec.ArchWalk
open Kdf.Model.Pgt

inductive Desc
  | notPresent
  | invalid
  | table (addr : Nat)       -- physical address of the next-level table
  | leaf (addr : Nat)        -- physical base address of the region mapped by this entry
  deriving DecidableEq, Repr, Inhabited

inductive Canon | signed | unsigned | ignore
  deriving DecidableEq, Repr, Inhabited

/-- number of address bits translated below level `r` -/
def spanBits (fields : List Nat) (r : Nat) : Nat := (fields.take r).foldl (· + ·) 0

def canonical (c : Canon) (vb va : Nat) : Bool :=
  match c with
  | .ignore => true
  | .unsigned => va / 2^vb = 0
  | .signed => if va / 2^(vb - 1) % 2 = 1 then va / 2^vb = (W - 1) / 2^vb else va / 2^vb = 0

/-- Walk from the table `tbl` whose entries are selected by address field `r`. -/
def descend (decode : Nat → Nat → Desc) (mem : Mem) (fields : List Nat) (pteSize t pteMask va : Nat) :
    Nat → FullAddr → Except XStatus FullAddr
  | 0, tbl => .ok ⟨(tbl.addr + va % 2^(fields.getD 0 0)) % W, t⟩
  | r+1, tbl =>
    let idx := va / 2^(spanBits fields (r+1)) % 2^(fields.getD (r+1) 0)
    match mem tbl.as ((tbl.addr + idx * pteSize) % W) pteSize with
    | .error e => .error e
    | .ok raw =>
      let pte := raw &&& ((W - 1) ^^^ pteMask)
      match decode (r+1) pte with
      | .notPresent => .error .notpresent
      | .invalid => .error .invalid
      | .leaf a => .ok ⟨(a + va % 2^(spanBits fields (r+1))) % W, t⟩
      | .table a => descend decode mem fields pteSize t pteMask va r ⟨a, t⟩

/-- Specification of a page-table method. -/
def archWalk (decode : Nat → Nat → Desc) (canon : Canon) (mem : Mem) (t : Nat) (root : FullAddr)
    (pteMask : Nat) (fields : List Nat) (pteSize : Nat) (va : Nat) : Except XStatus FullAddr :=
  if root.as = NOADDR then .error .nodata
  else if !canonical canon (spanBits fields fields.length) va then .error .invalid
  else descend decode mem fields pteSize t pteMask va (fields.length - 1) root

/-! ## Per-format entry decoders (from the architecture manuals) -/

/-- AMD64 / Intel 64, 4- and 5-level: P = bit 0, PS = bit 7 (levels 2 and 3),
address bits 51:12 (51:21 for 2 MiB, 51:30 for 1 GiB pages). -/
def decodeX86_64 (r pte : Nat) : Desc :=
  if pte % 2 = 0 then .notPresent
  else if r = 1 then .leaf (pte % 2^52 / 2^12 * 2^12)
  else if r = 2 ∧ pte / 2^7 % 2 = 1 then .leaf (pte % 2^52 / 2^21 * 2^21)
  else if r = 3 ∧ pte / 2^7 % 2 = 1 then .leaf (pte % 2^52 / 2^30 * 2^30)
  else .table (pte % 2^52 / 2^12 * 2^12)

/-- IA-32 without PAE: 4 MiB pages with PSE-36 (PDE bits 20:13 are address bits 39:32). -/
def decodeIa32 (r pte : Nat) : Desc :=
  if pte % 2 = 0 then .notPresent
  else if r = 2 ∧ pte / 2^7 % 2 = 1 then .leaf (pte / 2^22 * 2^22 + pte / 2^13 % 2^8 * 2^32)
  else if r = 1 then .leaf (pte / 2^12 * 2^12)
  else .table (pte / 2^12 * 2^12)

/-- IA-32 with PAE: 2 MiB pages at the page-directory level. -/
def decodeIa32Pae (r pte : Nat) : Desc :=
  if pte % 2 = 0 then .notPresent
  else if r = 2 ∧ pte / 2^7 % 2 = 1 then .leaf (pte % 2^52 / 2^21 * 2^21)
  else if r = 1 then .leaf (pte % 2^52 / 2^12 * 2^12)
  else .table (pte % 2^52 / 2^12 * 2^12)

/-- RISC-V Sv39/48/57: V = bit 0, R/W/X = bits 3:1 (all zero: pointer to the next
level), PPN = bits 53:10.  A leaf at level `r` maps `2^(spanBits r)` bytes; the
low PPN bits of a superpage are ignored (the hardware would fault on a
misaligned superpage; the library, like the Linux kernel, does not check). -/
def decodeRiscv64 (fields : List Nat) (r pte : Nat) : Desc :=
  if pte % 2 = 0 then .notPresent
  else
    let ppn := pte / 2^10 % 2^44
    if pte / 2 % 8 = 0 then (if r = 1 then .invalid else .table (ppn * 2^12))
    else .leaf (ppn * 2^12 / 2^(spanBits fields r) * 2^(spanBits fields r))

/-- Plain PFN tables: a zero entry is not present, anything else is a frame number. -/
def decodePfn (fields : List Nat) (r pte : Nat) : Desc :=
  if pte = 0 then .notPresent
  else if r = 1 then .leaf (pte * 2^(fields.getD 0 0) % W) else .table (pte * 2^(fields.getD 0 0) % W)

/-- decoder, canonical-address rule and entry size of the formats specified here -/
def formatSpec (pf : PagingForm) : Option ((Nat → Nat → Desc) × Canon × Nat) :=
  match pf.fmt with
  | .x86_64 => some (decodeX86_64, .signed, 8)
  | .ia32 => some (decodeIa32, .unsigned, 4)
  | .ia32Pae => some (decodeIa32Pae, .unsigned, 8)
  | .riscv64 => some (decodeRiscv64 pf.fieldsz, .signed, 8)
  | .pfn32 => some (decodePfn pf.fieldsz, .unsigned, 4)
  | .pfn64 => some (decodePfn pf.fieldsz, .unsigned, 8)
  | _ => none

/-- The paging forms the architectures define (the library is only asked to be
right on these; other field layouts are covered by the correspondence only). -/
def archForm (pf : PagingForm) : Bool :=
  match pf.fmt with
  | .x86_64 => pf.fieldsz = [12, 9, 9, 9, 9] || pf.fieldsz = [12, 9, 9, 9, 9, 9]
  | .ia32 => pf.fieldsz = [12, 10, 10]
  | .ia32Pae => pf.fieldsz = [12, 9, 9, 2]
  | .riscv64 => pf.fieldsz = [12, 9, 9, 9] || pf.fieldsz = [12, 9, 9, 9, 9] || pf.fieldsz = [12, 9, 9, 9, 9, 9]
  | .pfn32 | .pfn64 => pf.fieldsz.length ≥ 1 && pf.fieldsz.all (fun b => 1 ≤ b && b < 64) &&
      decide (spanBits pf.fieldsz pf.fieldsz.length ≤ 64)
  | _ => false

/-- Specification of every method kind. -/
def specXlat (mem : Mem) (m : Meth) (va : Nat) : Except XStatus FullAddr :=
  match m with
  | .nometh => .error .nometh
  | .linear t off => .ok ⟨(off + va) % W, t⟩
  | .custom t mask hit miss =>
    -- a custom method is its callback: where the callback completes the translation
    -- itself the result is what it says (address space included), otherwise the
    -- remaining level is the linear one and ends in the declared target space
    match (if va &&& mask ≠ 0 then hit else miss) with
    | .finish as off => .ok ⟨(va + off) % W, as⟩
    | .step _ off => .ok ⟨(off + va) % W, t⟩
    | .fail st => .error (if st = .ok then .nometh else st)
  | .lookup t endoff tbl =>
    match tbl.find? (fun (orig, _) => orig ≤ va ∧ va ≤ (orig + endoff) % W) with
    | some (orig, dest) => .ok ⟨(dest + (va - orig)) % W, t⟩
    | none => .error .notpresent
  | .memarr t base shift elemsz valsz =>
    if valsz = 4 ∨ valsz = 8 then
      match mem base.as ((base.addr + va / 2^shift * elemsz) % W) valsz with
      | .error e => .error e
      | .ok v => .ok ⟨(v * 2^shift % W + va % 2^shift) % W, t⟩
    else .error .notimpl
  | .pgt t root pteMask pf =>
    match formatSpec pf with
    | some (decode, canon, sz) => archWalk decode canon mem t root pteMask pf.fieldsz sz va
    | none => .error .notimpl

end Kdf.Spec.ArchWalk
