/-!
# Specification of the Xen page index — C19

The page list of a Xen domain dump is a list `l` of frame numbers; the page
stored for `l[i]` is the `i`-th page of `.xen_pages`.  The specification of the
lookup is the position of a frame in the list, written without reference to
the run-length data structure of `elfdump.c`.
-/
namespace Kdf.Spec.XenIndex

/-- the value `IDX_NONE` of `elfdump.c` (all ones) -/
abbrev NONE : Nat := 2^64 - 1

/-- position of `p` in the list counting from `k`, `NONE` if it is not listed -/
def lookupFrom : List Nat → Nat → Nat → Nat
  | [], _, _ => NONE
  | x :: xs, k, p => if x = p then k else lookupFrom xs (k + 1) p

def lookup (l : List Nat) (p : Nat) : Nat := lookupFrom l 0 p

end Kdf.Spec.XenIndex
