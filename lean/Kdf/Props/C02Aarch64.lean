import Kdf.Lemmas.Aarch64
/-!
# C02 for AArch64: model of `addrxlat_walk` with `pgt_aarch64`, `pgt_aarch64_lpa`,
`pgt_aarch64_lpa2` = architectural specification (`Kdf/Spec/ArchAarch64.lean`)

`loop_eq` relates the `while (--step->remain)` loop of `addrxlat_walk` to the
specification's `descend`, level by level (induction on the level, generic in the
field list; the facts that depend on the concrete field list are in `formOK`, which
is decided for every architectural paging form in `Kdf/Lemmas/Aarch64.lean`).
`walk_eq_spec_aarch64` is the statement for whole translations.
-/
open Kdf.Model.Pgt Kdf.Model.PgtAarch64 Kdf.Spec.ArchWalk Kdf.Spec.ArchAarch64 Kdf.Lemmas.Aarch64

namespace Kdf.Props.C02Aarch64

theorem loop_eq (l : Layout) (mem : Mem) (t pteMask : Nat) (root : FullAddr) (pf : PagingForm) (va : Nat)
    (hl : layoutOf pf.fmt = some l) (hok : formOK l pf = true) (hmask : pteMask < W)
    (hmem : ∀ as a v, mem as a 8 = .ok v → v < 2^64) :
    ∀ r fuel (s : Step), r < pf.fieldsz.length → r + 1 ≤ fuel → s.remain = r + 1 → IdxOK pf va s.idx →
      s.elemsz = (if r = 0 then 1 else 8) →
      (walkLoop Kdf.Model.PgtArch.extra mem (.pgt t root pteMask pf) fuel s).map (·.base)
        = descend (decodeAarch64 l pf.fieldsz) mem pf.fieldsz 8 t pteMask va r s.base := by
  obtain ⟨hn2, hg, hfs, hpm, hlev⟩ := formOK_facts hok
  intro r
  induction r with
  | zero =>
    intro fuel s _ hfuel hrem hidx helem
    obtain ⟨fuel, rfl⟩ : ∃ f, fuel = f + 1 := ⟨fuel - 1, by omega⟩
    have h0 := hidx.2 0 (by omega)
    simp only [span_zero, Nat.pow_zero, Nat.div_one, List.getD_eq_getElem?_getD] at h0
    simp [walkLoop, hrem, descend, Except.map, helem, idxAt, h0, Meth.targetAs]
  | succ r ih =>
    intro fuel s hr hfuel hrem hidx helem
    obtain ⟨fuel, rfl⟩ : ∃ f, fuel = f + 1 := ⟨fuel - 1, by omega⟩
    have hidxr := hidx.2 (r+1) hr
    obtain ⟨hTM, hblk, hsp42, hsp52⟩ := levelOK_facts (hlev (r+1) (by omega) hr)
    rw [hTM] at hblk
    rw [walkLoop, descend]
    simp only [hrem, Nat.add_sub_cancel, Nat.succ_ne_zero, if_false, nextStep,
      nextStepPgt_eq l mem t pteMask pf _ hl, handler, idxAt, hidxr, helem]
    rw [Nat.mod_eq_of_lt hmask]
    generalize (s.base.addr + va / 2 ^ spanBits pf.fieldsz (r + 1) % 2 ^ pf.fieldsz.getD (r + 1) 0 * 8) % W = A
    cases hm : mem s.base.as A 8 with
    | error e => simp [Except.map]
    | ok v =>
      have hv64 : v < 2^64 := hmem _ _ _ hm
      simp only []
      generalize hpte : v &&& (W - 1 ^^^ pteMask) = pte
      have hp : pte < 2^64 := by rw [← hpte]; exact Nat.lt_of_le_of_lt Nat.and_le_left hv64
      have hbits1 : bits pte 0 1 = pte % 2 := by simp [bits]
      have hbits2 : bits pte 0 2 = pte % 4 := by simp [bits]
      rw [hbits1]
      by_cases hvalid : pte % 2 = 0
      · simp [hvalid, decodeAarch64, Except.map]
      · simp only [hvalid, if_false]
        have hg42 : pf.fieldsz.getD 0 0 ≤ 42 := by omega
        have e1 : spanBits pf.fieldsz 1 = pf.fieldsz.getD 0 0 := by rw [span_succ]; simp [spanBits]
        by_cases hb4 : pte % 4 = 1
        · -- 0b01: block descriptor or reserved encoding
          have hnt1 : ¬ pte / 2 % 2 = 1 := by omega
          by_cases hall : r + 1 ≠ 1 ∧ blockAllowed l (pf.fieldsz.getD 0 0) (r + 1) = true
          · have hdec : decodeAarch64 l pf.fieldsz (r + 1) pte
                = .leaf (descAddr l pte (spanBits pf.fieldsz (r + 1))) := by
              simp only [decodeAarch64, hvalid, hnt1, if_false, if_pos hall]
            have hcond : ¬ (r + 1 = 1 ∨ 2 ^ spanBits pf.fieldsz (r + 1) - 1 > maxRegion l) := fun h => (hblk.1 h) hall
            rw [hdec]
            have haddr := addr_eq l pte (spanBits pf.fieldsz (r + 1)) hp (hsp42 hall.2)
            simp only [tail, hbits2, hb4, PTE_TYPE_BLOCK, if_true, hcond, if_false, hTM, haddr]
            obtain ⟨fuel, rfl⟩ : ∃ f, fuel = f + 1 := ⟨fuel - 1, by omega⟩
            have hH := hugePage_spec pf
              { base := ⟨descAddr l pte (spanBits pf.fieldsz (r + 1)), t⟩, remain := r + 1, elemsz := 8,
                idx := s.idx, raw := v } va (r + 1) hidx rfl (by omega) hr (by omega)
            generalize hugePage pf _ = H at hH ⊢
            obtain ⟨hH1, hH2, hH3, hH4⟩ := hH
            rw [walkLoop]
            simp [hH1, hH2, hH3, hH4, Except.map, Meth.targetAs]
          · have hdec : decodeAarch64 l pf.fieldsz (r + 1) pte = .invalid := by
              simp only [decodeAarch64, hvalid, hnt1, if_false, hall]
            have hcond : (r + 1 = 1 ∨ 2 ^ spanBits pf.fieldsz (r + 1) - 1 > maxRegion l) := hblk.2 hall
            rw [hdec]
            simp only [tail, hbits2, hb4, PTE_TYPE_BLOCK, if_true, hTM, hcond]
            simp [Except.map]
        · -- 0b11: table or page descriptor
          have ht1 : pte / 2 % 2 = 1 := by omega
          have hb4' : ¬ pte % 4 = PTE_TYPE_BLOCK := hb4
          cases r with
          | zero =>
            -- page descriptor (level 3)
            have hdec : decodeAarch64 l pf.fieldsz (0 + 1) pte
                = .leaf (descAddr l pte (pf.fieldsz.getD 0 0)) := by
              simp [decodeAarch64, hvalid, ht1]
            rw [hdec]
            have haddr := addr_eq l pte (pf.fieldsz.getD 0 0) hp hg42
            simp only [tail, hbits2, hb4', if_false, hpm, haddr, if_true]
            have := ih fuel
              { base := ⟨descAddr l pte (pf.fieldsz.getD 0 0), t⟩, remain := 0 + 1, elemsz := 1,
                idx := s.idx, raw := v } (by omega) (by omega) rfl hidx rfl
            simp only [this, descend, e1]
          | succ r =>
            -- table descriptor
            have hdec : decodeAarch64 l pf.fieldsz (r + 1 + 1) pte
                = .table (descAddr l pte (pf.fieldsz.getD 0 0)) := by
              simp [decodeAarch64, hvalid, ht1]
            rw [hdec]
            have haddr := addr_eq l pte (pf.fieldsz.getD 0 0) hp hg42
            have hne : ¬ (r + 1 + 1 = 1) := by omega
            simp only [tail, hbits2, hb4', if_false, hpm, haddr, hne]
            exact ih fuel
              { base := ⟨descAddr l pte (pf.fieldsz.getD 0 0), t⟩, remain := r + 1 + 1, elemsz := 8,
                idx := s.idx, raw := v } (by omega) (by omega) rfl hidx (by simp)

theorem firstStep_eq (t : Nat) (root : FullAddr) (pteMask : Nat) (pf : PagingForm) (va : Nat) (l : Layout)
    (hl : layoutOf pf.fmt = some l) :
    firstStep (.pgt t root pteMask pf) va = firstStepPgtGeneric root pf va := by
  cases hf : pf.fmt <;> rw [hf] at hl <;> simp [layoutOf] at hl <;> simp [firstStep, hf]

theorem ptevalShift_eq (pf : PagingForm) (l : Layout) (hl : layoutOf pf.fmt = some l) :
    ptevalShift pf.fmt = some 3 := by
  cases hf : pf.fmt <;> rw [hf] at hl <;> simp [layoutOf] at hl <;> simp [ptevalShift]

/-- **C02 for AArch64.**  On every paging form the architecture defines for the
formats `aarch64`, `aarch64_lpa`, `aarch64_lpa2`, for every memory, table base,
PTE mask and input address outside the one documented deviation class (`vaRange`), the model of
`addrxlat_walk` (generic step machinery + `pgt_aarch64*`) returns exactly what
the architectural specification returns. -/
theorem walk_eq_spec_aarch64 (mem : Mem) (t : Nat) (root : FullAddr) (pteMask : Nat) (pf : PagingForm)
    (va : Nat) (hform : archFormAarch64 pf = true) (_hva : va < W) (_hroot : root.addr < W)
    (hmask : pteMask < W) (hmem : ∀ as a sz v, mem as a sz = .ok v → v < 2^(8*sz))
    (hdev : knownDeviation mem t root pteMask pf va = false) :
    (walk Kdf.Model.PgtArch.extra mem (.pgt t root pteMask pf) va).map (·.base)
      = specAarch64 mem t root pteMask pf va := by
  obtain ⟨l, hl⟩ : ∃ l, layoutOf pf.fmt = some l := by
    cases h : layoutOf pf.fmt with
    | some l => exact ⟨l, rfl⟩
    | none => simp [archFormAarch64, h] at hform
  have hok := formOK_of_arch pf l hl hform
  obtain ⟨hn2, hg, hfs, hpm, hlev⟩ := formOK_facts hok
  have hmem8 : ∀ as a v, mem as a 8 = .ok v → v < 2^64 := fun as a v h => hmem as a 8 v h
  unfold walk specAarch64
  rw [firstStep_eq t root pteMask pf va l hl]
  simp only [hl]
  by_cases hno : root.as = NOADDR
  · simp [firstStepPgtGeneric, hno, Except.map]
  · -- the deviation classes do not apply
    simp only [knownDeviation, knownDeviations, hno, if_false, List.isEmpty_iff, Bool.not_eq_false'] at hdev
    have hrange : vaInRange (spanBits pf.fieldsz pf.fieldsz.length) va = true := by
      by_cases h : devVaRange pf va = true
      · simp [h] at hdev
      · simpa [devVaRange] using h
    simp only [hrange, Bool.not_true, Bool.false_eq_true, if_false, hno]
    simp only [firstStepPgtGeneric, hno, if_false]
    have hne : ¬ pf.fieldsz.length = 0 := by omega
    simp only [hne, if_false]
    apply loop_eq l mem t pteMask root pf va hl hok hmask hmem8 (pf.fieldsz.length - 1)
    · omega
    · show pf.fieldsz.length - 1 + 1 ≤ pf.fieldsz.length + 1; omega
    · show pf.fieldsz.length = pf.fieldsz.length - 1 + 1; omega
    · constructor
      · simp [split_length]; omega
      · intro i hi
        have hlen := split_length pf.fieldsz va
        simp only []
        rw [List.getD_eq_getElem?_getD, List.getElem?_append_left (by omega), ← List.getD_eq_getElem?_getD]
        exact split_getD pf.fieldsz va i hfs hi
    · have h1 : pf.fieldsz.length > 1 := by omega
      have h2 : ¬ pf.fieldsz.length - 1 = 0 := by omega
      simp [h1, h2, ptevalShift_eq pf l hl]

end Kdf.Props.C02Aarch64
