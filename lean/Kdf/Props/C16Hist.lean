import Kdf.Model.SysMsg
/-!
# C16 — the error string after `addrxlat_op` / `addrxlat_fulladdr_conv`

For every translation system, capability mask, walk function and address: the
message-threading model of `do_op` computes the same result as the C09 model
(`Kdf.Model.Sys`, tied to sys.c by stream `sys`), a call that reaches the
callback leaves the error string empty whatever the alternatives tried before
left behind, and a call that fails without reaching it leaves a message.
-/
namespace Kdf.Props.C16
open Kdf.Model.Pgt Kdf.Model.Sys Kdf.Model.SysMsg
open Kdf.Model

theorem tryAltM_fst (sys : Sys) (caps : Nat) (wk : WalkFn) (alts : List Nat) (a : FullAddr) (m : Bool) :
    (tryAltM sys caps wk alts a m).1 = tryAlt sys caps wk alts a := by
  induction alts generalizing m with
  | nil => simp [tryAltM, tryAlt]
  | cons mi ms ih =>
    unfold tryAltM tryAlt
    by_cases h1 : a.as ≠ mapExpectAs mi
    · rw [if_pos h1, if_pos h1]; exact ih _
    · rw [if_neg h1, if_neg h1]
      cases sys.maps[mi]? with
      | none => rfl
      | some om =>
        cases om with
        | none => exact ih _
        | some mp =>
          dsimp only
          by_cases h2 : Map.mapSearch mp a.addr = Map.NONE
          · rw [if_pos h2, if_pos h2]; exact ih _
          · rw [if_neg h2, if_neg h2]
            cases methAt sys (Map.mapSearch mp a.addr) with
            | none => rfl
            | some meth =>
              cases meth <;> dsimp only <;>
                first
                | (split <;> rfl)
                | (cases wk _ a.addr with
                   | ok s => dsimp only; split <;> rfl
                   | error e => dsimp only; split <;> first | exact ih _ | rfl)

/-- what the inner loop leaves: a callback call on an empty string, a failure with a message -/
theorem tryAltM_inv (sys : Sys) (caps : Nat) (wk : WalkFn) (alts : List Nat) (a : FullAddr) (m : Bool) :
    (∀ fa m', tryAltM sys caps wk alts a m = (.done (.call fa), m') → m' = false) ∧
    (∀ e m', tryAltM sys caps wk alts a m = (.done (.fail e), m') → m' = true) := by
  induction alts generalizing m with
  | nil => simp [tryAltM]
  | cons mi ms ih =>
    unfold tryAltM
    by_cases h1 : a.as ≠ mapExpectAs mi
    · rw [if_pos h1]; exact ih _
    · rw [if_neg h1]
      cases sys.maps[mi]? with
      | none => simp
      | some om =>
        cases om with
        | none => exact ih _
        | some mp =>
          dsimp only
          by_cases h2 : Map.mapSearch mp a.addr = Map.NONE
          · rw [if_pos h2]; exact ih _
          · rw [if_neg h2]
            cases methAt sys (Map.mapSearch mp a.addr) with
            | none => simp
            | some meth =>
              cases meth <;> dsimp only <;> repeat' split
              all_goals first | exact ih _ | simp

theorem doOpM_fst (sys : Sys) (caps : Nat) (wk : WalkFn) (ch : List (List Nat)) (a : FullAddr) (m : Bool) :
    (doOpM sys caps wk ch a m).1 = doOp sys caps wk ch a := by
  induction ch generalizing a m with
  | nil => simp [doOpM, doOp]
  | cons alt rest ih =>
    unfold doOpM doOp
    have h := tryAltM_fst sys caps wk alt a m
    split <;> rename_i heq <;> rw [heq] at h <;> simp only at h <;> rw [← h]
    · exact ih _ _

/-- `do_op`: success (the callback is reached) leaves no stale message -/
theorem doOpM_call_clean (sys : Sys) (caps : Nat) (wk : WalkFn) (ch : List (List Nat)) (a : FullAddr) (m : Bool)
    (fa : FullAddr) (m' : Bool) (h : doOpM sys caps wk ch a m = (.call fa, m')) : m' = false := by
  induction ch generalizing a m with
  | nil => simp [doOpM] at h
  | cons alt rest ih =>
    unfold doOpM at h
    split at h
    · rename_i r m1 heq
      have := (tryAltM_inv sys caps wk alt a m).1
      simp only [Prod.mk.injEq] at h
      obtain ⟨h1, h2⟩ := h
      subst h1; subst h2
      exact this _ _ heq
    · exact ih _ _ h

/-- `do_op`: a failure carries a message -/
theorem doOpM_fail_msg (sys : Sys) (caps : Nat) (wk : WalkFn) (ch : List (List Nat)) (a : FullAddr) (m : Bool)
    (e : XStatus) (m' : Bool) (h : doOpM sys caps wk ch a m = (.fail e, m')) : m' = true := by
  induction ch generalizing a m with
  | nil => simp [doOpM] at h; exact h.2
  | cons alt rest ih =>
    unfold doOpM at h
    split at h
    · rename_i r m1 heq
      have := (tryAltM_inv sys caps wk alt a m).2
      simp only [Prod.mk.injEq] at h
      obtain ⟨h1, h2⟩ := h
      subst h1; subst h2
      exact this _ _ heq
    · exact ih _ _ h

/-- the message-threading model of `addrxlat_op` is the C09 model plus the flag -/
theorem opTopM_fst (c : Cfg) (caps : Nat) (a : FullAddr) : (opTopM c caps a).1 = opTop c caps a := by
  unfold opTopM opTop
  show _ = op c (15 + 1) caps [] a
  rw [op]
  split <;> rename_i heq <;> simp only [heq]
  · simp [doOpM_fst, MAX_INFLIGHT]

/-- `addrxlat_op` / `addrxlat_fulladdr_conv`: a successful call leaves no stale error behind -/
theorem op_success_clean (c : Cfg) (caps : Nat) (a fa : FullAddr) (m : Bool)
    (h : opTopM c caps a = (.call fa, m)) : m = false := by
  unfold opTopM at h
  split at h
  · simp at h; exact h.2
  · simp only [Prod.mk.injEq] at h; rename_i r hne _; exact absurd h.1 (hne _)
  · exact doOpM_call_clean _ _ _ _ _ _ _ _ h

/-- `addrxlat_op` / `addrxlat_fulladdr_conv`: a failing call leaves a message -/
theorem op_failure_msg (c : Cfg) (caps : Nat) (a : FullAddr) (e : XStatus) (m : Bool)
    (h : opTopM c caps a = (.fail e, m)) : m = true := by
  unfold opTopM at h
  split at h
  · simp at h
  · simp only [Prod.mk.injEq] at h; exact h.2.symm
  · exact doOpM_fail_msg _ _ _ _ _ _ _ _ h

end Kdf.Props.C16
