import Kdf.Lemmas.ResFn
import Kdf.Lemmas.ResAx
import Kdf.Model.BlobPin
/-!
# C15 — every path gives back what it took

Model: `Kdf.Model.Res` (event traces of the diskdump read path at the cache /
allocator interface, for every answer of the environment) and its ledger
semantics `runEvs`.  `Runs evs L L'` says: the trace `evs` can be executed from
the ledger `L` — nothing is given back that is not held at that moment — and
leaves the multiset `L'`.

All statements are over *all* oracles (validity and address of every cache
entry, outcome of every pread/mmap/malloc — in particular every fault point),
all page descriptors, all lengths and positions, all policies and all start
ledgers; loops (`fcache_pread`, `fcache_get_chunk`, `read_locked`, sessions)
are handled by induction, there is no bound.

Not proved here: that the `stuck` result of the model (oracle does not fit the
call, or `fcache_get_chunk` would store an entry outside its array) is never
reached by the implementation — the correspondence check would show it as a
differing trace (`STUCK`).
-/
namespace Kdf.Props.C15
open Kdf.Model.Res Kdf.Lemmas.Res

/-- the ledger checker is sound for the counting reading of the property: if a
trace runs from `L` to `M`, then for every resource the number held at the end
is what was held before, plus what was taken, minus what was given back -/
theorem ledger_sound {L M : List Res} (evs : List Ev) (r : Res) (h : runEvs evs L = some M) :
    M.count r + gives r evs = L.count r + takes r evs :=
  runEvs_count evs r h

/-- … and it is prefix closed: in a trace that runs, no prefix gives back
something that is not held at that point -/
theorem ledger_prefix {L M : List Res} (a b : List Ev) (h : runEvs (a ++ b) L = some M) :
    ∃ N, runEvs a L = some N :=
  runEvs_prefix a b h

/-- frame rule: what a trace does not touch can be added to the ledger -/
theorem runs_frame {evs : List Ev} {L L' : List Res} (h : Runs evs L L') (F : List Res) :
    Runs evs (L ++ F) (L' ++ F) :=
  h.frame F

/-- `fcache_get` (all four mmap policies, failed mapping remembered in the
cache, fallback to read): success holds exactly the returned entry, every
failure holds nothing -/
theorem fcacheGet_balanced (cfg : Cfg) (pol : Policy) (fidx pos : Nat) (orc : List Ext) (L : List Res) :
    Runs (fcacheGet cfg pol fidx pos orc).evs L
      ((match (fcacheGet cfg pol fidx pos orc).res with
        | .ok (f, _) => [Res.pin f.c f.key]
        | _ => []) ++ L) := by
  have h := fcacheGet_runs cfg pol fidx pos orc L
  cases hr : (fcacheGet cfg pol fidx pos orc).res with
  | ok fp => obtain ⟨f, p⟩ := fp; rw [hr] at h; simpa [gainFceP, pinOf] using h
  | err s => rw [hr] at h; simpa [gainFceP] using h
  | stuck => rw [hr] at h; simpa [gainFceP] using h

/-- `fcache_pread`: whatever happens in whichever round, nothing stays held -/
theorem fcachePread_balanced (cfg : Cfg) (fuel : Nat) (pol : Policy) (len fidx pos : Nat) (orc : List Ext) (L : List Res) :
    Runs (fcachePread cfg fuel pol len fidx pos orc).evs L L :=
  fcachePread_runs cfg fuel pol len fidx pos orc L

/-- `fcache_get_chunk`: a failure (any round, before or after the switch to a
copied buffer, failing `malloc` of the entry array or of the copy buffer)
holds nothing; success holds exactly what the returned chunk describes, and
that chunk is one `fcache_put_chunk` can take apart -/
theorem fcacheGetChunk_balanced (cfg : Cfg) (pol : Policy) (len fidx pos : Nat) (orc : List Ext) (L : List Res) :
    Runs (fcacheGetChunk cfg pol len fidx pos orc).evs L
      ((match (fcacheGetChunk cfg pol len fidx pos orc).res with
        | .ok (.chunk c _) => chunkRes c
        | _ => []) ++ L)
    ∧ ∀ c p, (fcacheGetChunk cfg pol len fidx pos orc).res = .ok (.chunk c p) → WF cfg c := by
  have h := fcacheGetChunk_runs cfg pol len fidx pos orc L
  refine ⟨?_, h.2⟩
  cases hr : (fcacheGetChunk cfg pol len fidx pos orc).res with
  | ok cr => obtain ⟨c, p⟩ := cr; have h1 := h.1; rw [hr] at h1; simpa [gainChunk] using h1
  | err s => have h1 := h.1; rw [hr] at h1; simpa [gainChunk] using h1
  | stuck => have h1 := h.1; rw [hr] at h1; simpa [gainChunk] using h1

/-- `fcache_put_chunk` gives back exactly what a well-formed chunk holds -/
theorem fcachePutChunk_balanced (cfg : Cfg) (c : Chunk) (L : List Res) (hwf : WF cfg c) :
    Runs (fcachePutChunk cfg c) (chunkRes c ++ L) L :=
  fcachePutChunk_runs cfg c L hwf

/-- get followed by put returns to the start ledger -/
theorem chunk_roundtrip (cfg : Cfg) (pol : Policy) (len fidx pos : Nat) (orc : List Ext) (L : List Res)
    (c : Chunk) (p : Policy) (h : (fcacheGetChunk cfg pol len fidx pos orc).res = .ok (.chunk c p)) :
    Runs ((fcacheGetChunk cfg pol len fidx pos orc).evs ++ fcachePutChunk cfg c) L L := by
  have hg := fcacheGetChunk_runs cfg pol len fidx pos orc L
  have h1 := hg.1
  rw [h] at h1
  exact Runs.append (by simpa [gainChunk] using h1) (fcachePutChunk_runs cfg c L (hg.2 c p h))

/-- `diskdump_read_page`: on every exit — out-of-range or excluded frame,
unreadable descriptor, wrong raw size, unreadable data, every compression
method whether compiled in or not, failing or succeeding decompression —
nothing stays held (the page-cache entry belongs to the caller) -/
theorem diskdumpReadPage_balanced (cfg : Cfg) (pol : Policy) (pfn : Nat) (pg : PageInfo) (orc : List Ext) (L : List Res) :
    Runs (diskdumpReadPage cfg pol pfn pg orc).evs L L :=
  diskdumpReadPage_runs cfg pol pfn pg orc L

/-- `cache_get_page`: success holds the page-cache entry, failure nothing -/
theorem cacheGetPage_balanced (cfg : Cfg) (pol : Policy) (key pfn : Nat) (pg : PageInfo) (orc : List Ext) (L : List Res) :
    Runs (cacheGetPage cfg pol key pfn pg orc).evs L
      ((match (cacheGetPage cfg pol key pfn pg orc).res with
        | .ok _ => [Res.pin .pc key]
        | _ => []) ++ L) := by
  have h := cacheGetPage_runs cfg pol key pfn pg orc L
  cases hr : (cacheGetPage cfg pol key pfn pg orc).res with
  | ok p => rw [hr] at h; simpa [gainPage] using h
  | err s => rw [hr] at h; simpa [gainPage] using h
  | stuck => rw [hr] at h; simpa [gainPage] using h

/-- `diskdump_get_page` (early refusal of excluded frames, else `cache_get_page`):
success holds the page-cache entry, failure nothing -/
theorem diskdumpGetPage_balanced (cfg : Cfg) (pol : Policy) (key pfn : Nat) (pg : PageInfo) (orc : List Ext) (L : List Res) :
    Runs (diskdumpGetPage cfg pol key pfn pg orc).evs L
      ((match (diskdumpGetPage cfg pol key pfn pg orc).res with
        | .ok _ => [Res.pin .pc key]
        | _ => []) ++ L) := by
  have h := diskdumpGetPage_runs cfg pol key pfn pg orc L
  cases hr : (diskdumpGetPage cfg pol key pfn pg orc).res with
  | ok p => rw [hr] at h; simpa [gainPage] using h
  | err s => rw [hr] at h; simpa [gainPage] using h
  | stuck => rw [hr] at h; simpa [gainPage] using h

/-- `read_locked`: after the call, successful, partial or failed, no entry is
referenced on its behalf -/
theorem readLocked_balanced (cfg : Cfg) (pages : Nat → PageInfo) (as fuel : Nat) (pol : Policy) (addr remain : Nat)
    (orc : List Ext) (L : List Res) :
    Runs (readLocked cfg pages as fuel pol addr remain orc).evs L L :=
  readLocked_runs cfg pages as fuel pol addr remain orc L

/-- `addrxlat_get_page`: success lends the descriptor and the page entry,
failure (allocation or page) leaves nothing behind -/
theorem addrxlatGetPage_balanced (cfg : Cfg) (pol : Policy) (as addr : Nat) (pages : Nat → PageInfo) (orc : List Ext) (L : List Res) :
    Runs (addrxlatGetPage cfg pol as addr pages orc).evs L
      ((match (addrxlatGetPage cfg pol as addr pages orc).res with
        | .ok _ => lentRes cfg as addr
        | _ => []) ++ L) := by
  have h := addrxlatGetPage_runs cfg pol as addr pages orc L
  cases hr : (addrxlatGetPage cfg pol as addr pages orc).res with
  | ok p => rw [hr] at h; simpa [gainLent] using h
  | err s => rw [hr] at h; simpa [gainLent] using h
  | stuck => rw [hr] at h; simpa [gainLent] using h

/-- `addrxlat_put_page` returns exactly what `addrxlat_get_page` lent -/
theorem addrxlatPage_roundtrip (cfg : Cfg) (as addr : Nat) (L : List Res) :
    Runs (addrxlatPutPage cfg as addr) (lentRes cfg as addr ++ L) L :=
  addrxlatPutPage_runs cfg as addr L

/-! ## sessions: any sequence of calls -/

inductive Call
  | read (as addr len : Nat)
  | getpage (as addr : Nat)
  | putpage (as addr : Nat)

/-- everything lent to libaddrxlat's read cache -/
def lentAll (cfg : Cfg) : List (Nat × Nat) → List Res
  | [] => []
  | p :: t => lentRes cfg p.1 p.2 ++ lentAll cfg t

/-- a session: reads, pages taken through `get_page` and given back through
`put_page` in any order (a page that is not lent is not given back); returns
the trace and the pages still lent -/
def session (cfg : Cfg) (pages : Nat → PageInfo) : List Call → Policy → List (Nat × Nat) → List Ext → List Ev × List (Nat × Nat)
  | [], _, lent, _ => ([], lent)
  | .read as addr len :: cs, pol, lent, orc =>
      let out := readLocked cfg pages as len pol addr len orc
      let pol' := match out.res with
        | .ok (_, p) => p
        | _ => polAfterErr pol
      let rest := session cfg pages cs pol' lent out.orc
      (out.evs ++ rest.1, rest.2)
  | .getpage as addr :: cs, pol, lent, orc =>
      let out := addrxlatGetPage cfg pol as addr pages orc
      match out.res with
      | .ok p =>
          let rest := session cfg pages cs p ((as, addr) :: lent) out.orc
          (out.evs ++ rest.1, rest.2)
      | _ =>
          let rest := session cfg pages cs (polAfterErr pol) lent out.orc
          (out.evs ++ rest.1, rest.2)
  | .putpage as addr :: cs, pol, lent, orc =>
      if (as, addr) ∈ lent then
        let rest := session cfg pages cs pol (lent.erase (as, addr)) orc
        (addrxlatPutPage cfg as addr ++ rest.1, rest.2)
      else session cfg pages cs pol lent orc

theorem lentAll_erase (cfg : Cfg) (p : Nat × Nat) (lent : List (Nat × Nat)) (h : p ∈ lent) :
    (lentAll cfg lent).Perm (lentRes cfg p.1 p.2 ++ lentAll cfg (lent.erase p)) := by
  induction lent with
  | nil => cases h
  | cons q t ih =>
    by_cases hq : q = p
    · subst hq; simp [lentAll]
    · have hp : p ∈ t := by
        cases h with
        | head => exact absurd rfl hq
        | tail _ h' => exact h'
      rw [List.erase_cons_tail (by simp [hq])]
      simp only [lentAll]
      have := ih hp
      have h2 := this.append_left (lentRes cfg q.1 q.2)
      refine h2.trans ?_
      simp only [lentRes]
      perm_tac

/-- after any sequence of calls, with any outcome of each, the library holds
exactly the pages that are currently lent — in particular nothing once every
lent page has been given back -/
theorem session_balanced (cfg : Cfg) (pages : Nat → PageInfo) (cs : List Call) (pol : Policy)
    (lent : List (Nat × Nat)) (orc : List Ext) (L : List Res) :
    Runs (session cfg pages cs pol lent orc).1 (lentAll cfg lent ++ L)
      (lentAll cfg (session cfg pages cs pol lent orc).2 ++ L) := by
  induction cs generalizing pol lent orc with
  | nil => exact Runs.nil _
  | cons c cs ih =>
    cases c with
    | read as addr len =>
      simp only [session]
      exact Runs.append (readLocked_runs cfg pages as len pol addr len orc _) (ih _ _ _)
    | getpage as addr =>
      simp only [session]
      have hg := addrxlatGetPage_runs cfg pol as addr pages orc (lentAll cfg lent ++ L)
      cases hr : (addrxlatGetPage cfg pol as addr pages orc).res with
      | ok p =>
        rw [hr] at hg
        simp only [gainLent] at hg
        have := ih p ((as, addr) :: lent) (addrxlatGetPage cfg pol as addr pages orc).orc
        simp only [lentAll, List.append_assoc] at this
        exact Runs.append hg this
      | err s =>
        rw [hr] at hg
        simp only [gainLent, List.nil_append] at hg
        exact Runs.append hg (ih _ _ _)
      | stuck =>
        rw [hr] at hg
        simp only [gainLent, List.nil_append] at hg
        exact Runs.append hg (ih _ _ _)
    | putpage as addr =>
      simp only [session]
      split
      · rename_i hmem
        have hp := addrxlatPutPage_runs cfg as addr (lentAll cfg (lent.erase (as, addr)) ++ L)
        have hperm := (lentAll_erase cfg (as, addr) lent hmem).append_right L
        simp only [List.append_assoc] at hperm
        exact Runs.append (hp.perm_left hperm.symm) (ih _ _ _)
      · exact ih _ _ _


/-! ## `fcache_get_fb` and the Xen table scan -/

/-- `fcache_get_fb`: success holds the returned entry — nothing when the data
went to the bounce buffer (the entry looked up first has been released) —,
every failure (lookup, or any round of the read into the bounce buffer) holds nothing -/
theorem fcacheGetFb_balanced (cfg : Cfg) (pol : Policy) (fidx pos sz : Nat) (orc : List Ext) (L : List Res) :
    Runs (fcacheGetFb cfg pol fidx pos sz orc).evs L
      ((match (fcacheGetFb cfg pol fidx pos sz orc).res with
        | .ok (r, _) => fbRes r
        | _ => []) ++ L) := by
  have h := fcacheGetFb_runs cfg pol fidx pos sz orc L
  cases hr : (fcacheGetFb cfg pol fidx pos sz orc).res with
  | ok rp => obtain ⟨r, p⟩ := rp; rw [hr] at h; simpa [gainFb] using h
  | err s => rw [hr] at h; simpa [gainFb] using h
  | stuck => rw [hr] at h; simpa [gainFb] using h

/-- get followed by `fcache_put` returns to the start ledger, bounce buffer or not -/
theorem fcacheGetFb_roundtrip (cfg : Cfg) (pol : Policy) (fidx pos sz : Nat) (orc : List Ext) (L : List Res)
    (r : Option Fce) (p : Policy) (h : (fcacheGetFb cfg pol fidx pos sz orc).res = .ok (r, p)) :
    Runs ((fcacheGetFb cfg pol fidx pos sz orc).evs ++ fcachePut r) L L := by
  have hg := fcacheGetFb_runs cfg pol fidx pos sz orc L
  rw [h] at hg
  exact Runs.append (by simpa [gainFb] using hg) (fcachePut_runs r L)

/-- the table scan of `make_xen_pfn_map_auto/_nonauto`: whatever the alignment of
the table (any number of records straddling entry boundaries), whichever read
fails and whichever record is rejected, the scan ends holding nothing.

The hypothesis `hns` is needed: when the oracle does not fit the calls the model
answers `stuck` with an EMPTY trace (see the header of `Kdf.Model.Res`), so the
entry `st.cur` the scan started with is still held — without `hns` the
statement is false (`xenMapScan_stuck_keeps` below is the counterexample). -/
theorem xenMapScan_balanced (cfg : Cfg) (entsz : Nat) (addOk : Nat → Bool) (n k : Nat) (pol : Policy) (pos : Nat)
    (st : ScanSt) (orc : List Ext) (L : List Res)
    (hns : (xenMapScan cfg entsz addOk n k pol pos st orc).res ≠ .stuck) :
    Runs (xenMapScan cfg entsz addOk n k pol pos st orc).evs (fbRes st.cur ++ L) L := by
  have h := xenMapScan_runs cfg entsz addOk n k pol pos st orc L
  cases hr : (xenMapScan cfg entsz addOk n k pol pos st orc).res with
  | ok p => rw [hr] at h; simpa [scanLeft] using h
  | err s => rw [hr] at h; simpa [scanLeft] using h
  | stuck => exact absurd hr hns

/-- the same for every outcome, `stuck` included: a stuck scan has done nothing,
so it still holds the entry it started with — and only then is anything held -/
theorem xenMapScan_balanced_total (cfg : Cfg) (entsz : Nat) (addOk : Nat → Bool) (n k : Nat) (pol : Policy) (pos : Nat)
    (st : ScanSt) (orc : List Ext) (L : List Res) :
    Runs (xenMapScan cfg entsz addOk n k pol pos st orc).evs (fbRes st.cur ++ L)
      ((match (xenMapScan cfg entsz addOk n k pol pos st orc).res with
        | .stuck => fbRes st.cur
        | _ => []) ++ L) := by
  have h := xenMapScan_runs cfg entsz addOk n k pol pos st orc L
  cases hr : (xenMapScan cfg entsz addOk n k pol pos st orc).res with
  | ok p => rw [hr] at h; simpa [scanLeft] using h
  | err s => rw [hr] at h; simpa [scanLeft] using h
  | stuck => rw [hr] at h; simpa [scanLeft] using h

/-- a scan that starts with no entry held (as `make_xen_pfn_map_*` does: `fce.cache = NULL`)
ends holding nothing on every outcome — no hypothesis needed then -/
theorem xenMapScan_balanced_fresh (cfg : Cfg) (entsz : Nat) (addOk : Nat → Bool) (n k : Nat) (pol : Policy) (pos : Nat)
    (left : Nat) (orc : List Ext) (L : List Res) :
    Runs (xenMapScan cfg entsz addOk n k pol pos ⟨none, left⟩ orc).evs L L := by
  have h := xenMapScan_runs cfg entsz addOk n k pol pos ⟨none, left⟩ orc L
  cases hr : (xenMapScan cfg entsz addOk n k pol pos ⟨none, left⟩ orc).res with
  | ok p => rw [hr] at h; simpa [scanLeft, fbRes] using h
  | err s => rw [hr] at h; simpa [scanLeft, fbRes] using h
  | stuck => rw [hr] at h; simpa [scanLeft, fbRes] using h

/-! ## SADUMP probe: the magic-number scan -/

/-- `verify_magic_number`: whatever the file holds (`cont`), wherever it ends (the next
entry cannot be fetched, or holds fewer than four bytes), whichever access path is used and
whichever fetch fails, every file-cache entry obtained has been given back exactly once when
the function returns: nothing is held afterwards, nothing is given back twice (the run of
the events is defined on the ledger). -/
theorem verifyMagic_balanced (cfg : Cfg) (fidx : Nat) (cont : Nat → Bool) (fuel : Nat) (pol : Policy) (pos : Nat)
    (orc : List Ext) (L : List Res) :
    Runs (verifyMagic cfg fidx cont fuel pol pos orc).evs L L :=
  verifyMagic_runs cfg fidx cont fuel pol pos orc L

/-- the loop alone, entered with entry `f` held: it ends with nothing held on every outcome
(`stuck`: the oracle does not fit; nothing has happened then and `f` is still held) -/
theorem magicLoop_balanced (cfg : Cfg) (fidx : Nat) (cont : Nat → Bool) (fuel k : Nat) (pol : Policy) (pos : Nat)
    (f : Fce) (left : Nat) (orc : List Ext) (L : List Res)
    (hns : (magicLoop cfg fidx cont fuel k pol pos f left orc).res ≠ .stuck) :
    Runs (magicLoop cfg fidx cont fuel k pol pos f left orc).evs (Res.pin f.c f.key :: L) L := by
  have h := magicLoop_runs cfg fidx cont fuel k pol pos f left orc L
  cases hr : (magicLoop cfg fidx cont fuel k pol pos f left orc).res with
  | ok p => rw [hr] at h; simpa [scanLeft, pinOf] using h
  | err s => rw [hr] at h; simpa [scanLeft, pinOf] using h
  | stuck => exact absurd hr hns

/-! ## libaddrxlat's read cache and the callback records -/

/-- `get_cache_buf`: reuse, eviction, successful or failing fetch — afterwards the
library holds exactly what the read cache's slots say -/
theorem getCacheBuf_balanced (cfg : Cfg) (pol : Policy) (rc : RdCache) (as addr : Nat) (pages : Nat → PageInfo)
    (orc : List Ext) (L : List Res) (hwf : rc.WF) :
    Runs (getCacheBuf cfg pol rc as addr pages orc).1.evs (rcRes cfg rc.slots ++ L)
      (rcRes cfg (getCacheBuf cfg pol rc as addr pages orc).2.slots ++ L)
    ∧ (getCacheBuf cfg pol rc as addr pages orc).2.WF :=
  getCacheBuf_runs cfg pol rc as addr pages orc L hwf

/-- `cleanup_cache` gives back every page the read cache holds -/
theorem cleanupCache_balanced (cfg : Cfg) (slots : List (Option Page)) (L : List Res) :
    Runs (cleanupCache cfg slots) (rcRes cfg slots ++ L) L :=
  cleanupCache_runs cfg slots L

/-- `addrxlat_ctx_add_cb` holds the new record on success and nothing on failure -/
theorem ctxAddCb_balanced (cbSize : Nat) (x : AxCtx) (id : Nat) (orc : List Ext) (L : List Res) :
    Runs (ctxAddCb cbSize x id orc).1.evs (cbRes cbSize x.cbs ++ L) (cbRes cbSize (ctxAddCb cbSize x id orc).2.cbs ++ L)
    ∧ (ctxAddCb cbSize x id orc).2.rc = x.rc :=
  ctxAddCb_runs cbSize x id orc L

/-- removing a callback record — the topmost one or one below other records —
gives back every page of the read cache and the record itself: afterwards no
page is lent through a record that no longer exists -/
theorem ctxDelCb_balanced (cfg : Cfg) (cbSize : Nat) (x : AxCtx) (id : Nat) (L : List Res) (h : id ∈ x.cbs) :
    Runs (ctxDelCb cfg cbSize x id).1 (rcRes cfg x.rc.slots ++ cbRes cbSize x.cbs ++ L)
      (cbRes cbSize (ctxDelCb cfg cbSize x id).2.cbs ++ L)
    ∧ rcRes cfg (ctxDelCb cfg cbSize x id).2.rc.slots = []
    ∧ ((ctxDelCb cfg cbSize x id).2.rc.WF ↔ x.rc.WF) :=
  ctxDelCb_runs cfg cbSize x id L h

/-- calls on a translation context -/
inductive AxCall
  | axread (as addr : Nat)     -- a read through `get_cache_buf`
  | addcb (id : Nat)
  | delcb (id : Nat)
  | read (as addr len : Nat)   -- `kdump_read` in between

/-- a session on a dump's translation context: returns the trace and the context afterwards -/
def axSession (cfg : Cfg) (cbSize : Nat) (pages : Nat → PageInfo) : List AxCall → Policy → AxCtx → List Ext → List Ev × AxCtx
  | [], _, x, _ => ([], x)
  | .axread as addr :: cs, pol, x, orc =>
      let r := getCacheBuf cfg pol x.rc as addr pages orc
      let pol' := match r.1.res with
        | .ok p => p
        | _ => polAfterErr pol
      let rest := axSession cfg cbSize pages cs pol' { x with rc := r.2 } r.1.orc
      (r.1.evs ++ rest.1, rest.2)
  | .addcb id :: cs, pol, x, orc =>
      let r := ctxAddCb cbSize x id orc
      let rest := axSession cfg cbSize pages cs pol r.2 r.1.orc
      (r.1.evs ++ rest.1, rest.2)
  | .delcb id :: cs, pol, x, orc =>
      let r := ctxDelCb cfg cbSize x id
      let rest := axSession cfg cbSize pages cs pol r.2 orc
      (r.1 ++ rest.1, rest.2)
  | .read as addr len :: cs, pol, x, orc =>
      let out := readLocked cfg pages as len pol addr len orc
      let pol' := match out.res with
        | .ok (_, p) => p
        | _ => polAfterErr pol
      let rest := axSession cfg cbSize pages cs pol' x out.orc
      (out.evs ++ rest.1, rest.2)

/-- after any sequence of reads through the read cache, record additions and
removals (in any order, also of records that are not on top) and plain reads,
with any outcome of each, the library holds exactly the pages in the read
cache's slots and the records on the stack -/
theorem axSession_balanced (cfg : Cfg) (cbSize : Nat) (pages : Nat → PageInfo) (cs : List AxCall) (pol : Policy)
    (x : AxCtx) (orc : List Ext) (L : List Res) (hwf : x.rc.WF) :
    Runs (axSession cfg cbSize pages cs pol x orc).1 (rcRes cfg x.rc.slots ++ cbRes cbSize x.cbs ++ L)
      (rcRes cfg (axSession cfg cbSize pages cs pol x orc).2.rc.slots ++ cbRes cbSize (axSession cfg cbSize pages cs pol x orc).2.cbs ++ L) := by
  induction cs generalizing pol x orc with
  | nil => exact Runs.nil _
  | cons c cs ih =>
    cases c with
    | axread as addr =>
      simp only [axSession]
      have hg := getCacheBuf_runs cfg pol x.rc as addr pages orc (cbRes cbSize x.cbs ++ L) hwf
      have h1 := hg.1
      simp only [← List.append_assoc] at h1
      exact Runs.append h1 (ih _ _ _ hg.2)
    | addcb id =>
      simp only [axSession]
      have hg := ctxAddCb_runs cbSize x id orc L
      have h1 := (hg.1.frame (rcRes cfg x.rc.slots)).perm_left
        (L₂ := rcRes cfg x.rc.slots ++ cbRes cbSize x.cbs ++ L) (by perm_tac)
      have h2 := h1.perm_right
        (L'' := rcRes cfg (ctxAddCb cbSize x id orc).2.rc.slots ++ cbRes cbSize (ctxAddCb cbSize x id orc).2.cbs ++ L)
        (by rw [hg.2]; perm_tac)
      exact Runs.append h2 (ih _ _ _ (by rw [hg.2]; exact hwf))
    | delcb id =>
      simp only [axSession]
      exact Runs.append (ctxDelCb_runs' cfg cbSize x id L) (ih _ _ _ (ctxDelCb_wf cfg cbSize x id hwf))
    | read as addr len =>
      simp only [axSession]
      exact Runs.append (readLocked_runs cfg pages as len pol addr len orc _) (ih _ _ _ hwf)

/-- a session that ends with a removal: the context is the one the removal leaves -/
theorem axSession_snoc_delcb (cfg : Cfg) (cbSize : Nat) (pages : Nat → PageInfo) (cs : List AxCall) (pol : Policy)
    (x : AxCtx) (orc : List Ext) (id : Nat) :
    (axSession cfg cbSize pages (cs ++ [.delcb id]) pol x orc).2 =
      (ctxDelCb cfg cbSize (axSession cfg cbSize pages cs pol x orc).2 id).2 := by
  induction cs generalizing pol x orc with
  | nil => simp only [List.nil_append, axSession]
  | cons c cs ih =>
    cases c <;> simp only [List.cons_append, axSession, ih]

/-- … in particular: once the last record has been removed nothing is lent -/
theorem axSession_delcb_last (cfg : Cfg) (cbSize : Nat) (pages : Nat → PageInfo) (cs : List AxCall) (pol : Policy)
    (x : AxCtx) (orc : List Ext) (id : Nat) (hwf : x.rc.WF)
    (h : id ∈ (axSession cfg cbSize pages cs pol x orc).2.cbs) :
    rcRes cfg (axSession cfg cbSize pages (cs ++ [.delcb id]) pol x orc).2.rc.slots = [] := by
  -- `hwf` is not needed: `addrxlat_ctx_del_cb` empties every slot whatever the ring looks like
  have _ := hwf
  rw [axSession_snoc_delcb]
  exact (ctxDelCb_runs cfg cbSize _ id [] h).2.1

/-! ## the hypotheses are satisfiable, the statements are not vacuous -/

def cfg0 : Cfg := ⟨4096, 4194304, 100000, 32, 104, 2, 4096, 16, false, false, true, true⟩

/-- three read-cache entries that are not adjacent in memory: the chunk is
copied, the entry array is freed during the switch -/
example : (fcacheGetChunk cfg0 .never 9000 0 4000
    [.alloc true, .entMiss 1000, .io true, .entMiss 50000, .io true, .alloc true, .entHit (some 9000), .entHit (some 9500)]).evs =
    [.malloc .fces 128 true, .acq .fb 0, .pread 0 true, .ins .fb 0, .acq .fb 4096, .pread 4096 true, .ins .fb 4096,
     .malloc .data 9000 true, .put .fb 0, .free .fces 128, .put .fb 4096, .acq .fb 8192, .put .fb 8192,
     .acq .fb 12288, .put .fb 12288] := by
  decide

/-- … and its ledger run ends with the copy buffer only -/
example : runEvs (fcacheGetChunk cfg0 .never 9000 0 4000
    [.alloc true, .entMiss 1000, .io true, .entMiss 50000, .io true, .alloc true, .entHit (some 9000), .entHit (some 9500)]).evs [] =
    some [.mem .data 9000] := by
  decide

/-- the error exit after the switch (third entry unreadable): nothing is held -/
example : runEvs (fcacheGetChunk cfg0 .never 9000 0 4000
    [.alloc true, .entMiss 1000, .io true, .entMiss 50000, .io true, .alloc true, .entMiss 7, .io false]).evs [] =
    some [] := by
  decide

/-- an LZO page in a build without LZO: the chunk is released before NOTIMPL -/
example : runEvs (diskdumpReadPage cfg0 .never 3 ⟨some 16384, 20480, 300, 2, 0⟩
    [.entHit (some 500), .entMiss 800, .io true]).evs [.pin .pc 12289] = some [.pin .pc 12289] := by
  decide

/-- the trace that the unrepaired code produced for that page (no release of
the chunk) does not balance: the read-cache entry stays held -/
example : runEvs [.acq .fb 16384, .put .fb 16384, .acq .fb 20480, .pread 20480 true, .ins .fb 20480] [] =
    some [.pin .fb 20480] := by
  decide

/-- giving back an entry twice is rejected by the ledger -/
example : runEvs [.acq .fb 0, .put .fb 0, .put .fb 0] [] = none := by
  decide

/-- a session with a failing and a succeeding `get_page` and a late `put_page` -/
example : (session cfg0 (fun _ => ⟨none, 0, 0, 0, 0⟩) [.getpage 1 4096, .getpage 1 8192, .read 1 4096 8, .putpage 1 8192]
    .never [] [.alloc true, .entMiss 5, .alloc true, .entHit (some 7), .entBusy]).2 = [] := by
  decide


/-- a 16-byte record 8 bytes before the end of a read-cache entry: the entry is
released before the bytes are read into the bounce buffer, nothing stays held -/
example : (fcacheGetFb cfg0 .never 0 4088 16 [.entHit (some 1000), .entHit (some 1000), .entMiss 2000, .io true]).evs =
    [.acq .fb 0, .put .fb 0, .acq .fb 0, .put .fb 0, .acq .fb 4096, .pread 4096 true, .ins .fb 4096, .put .fb 4096] := by
  decide

/-- the order of the unrepaired-looking variant (entry released after it was
re-targeted to the bounce buffer, i.e. never) leaves the entry pinned -/
example : runEvs [.acq .fb 0, .acq .fb 0, .put .fb 0, .acq .fb 4096, .pread 4096 true, .ins .fb 4096, .put .fb 4096] [] =
    some [.pin .fb 0] := by
  decide

/-- a table of three 16-byte records at 4072: the second straddles the boundary -/
example : runEvs (xenMapScan cfg0 16 (fun _ => true) 3 0 .never 4072 ⟨none, 0⟩
    [.entHit (some 1000), .entHit (some 1000), .entHit (some 1000), .entHit (some 3000), .entHit (some 3000)]).evs [] = some [] := by
  decide

/-- a file that ends on a cache-entry boundary while the magic sequence still continues
(16-byte entries, 16-byte file, first magic number at 8): the held entry is released, the
fetch of the next entry fails with EOF, and nothing is released a second time -/
example : (verifyMagic ⟨16, 4194304, 16, 32, 104, 2, 4096, 16, false, false, true, true⟩ 0 (fun _ => true) 100 .never 8
    [.entHit (some 1000)]).evs = [.acq .fb 0, .put .fb 0] := by decide
example : (match (verifyMagic ⟨16, 4194304, 16, 32, 104, 2, 4096, 16, false, false, true, true⟩ 0 (fun _ => true) 100 .never 8
    [.entHit (some 1000)]).res with | .err .eof => true | _ => false) = true := by decide
/-- the sequence ends in the second entry: both entries released once -/
example : runEvs (verifyMagic ⟨16, 4194304, 64, 32, 104, 2, 4096, 16, false, false, true, true⟩ 0 (fun k => k < 3) 100 .never 8
    [.entHit (some 1000), .entMiss 2000, .io true]).evs [] = some [] := by decide

/-- why `xenMapScan_balanced` needs `hns`: an entry is held, a record has to be
fetched, and the oracle has no answer left — the model is `stuck` with an empty
trace, so the entry is still held and the ledger does not return to `[]` -/
theorem xenMapScan_stuck_keeps :
    (xenMapScan cfg0 16 (fun _ => true) 1 0 .never 0 ⟨some ⟨0, 0, .fb, 0⟩, 0⟩ []).evs = [] ∧
    ¬ Runs (xenMapScan cfg0 16 (fun _ => true) 1 0 .never 0 ⟨some ⟨0, 0, .fb, 0⟩, 0⟩ []).evs
        (fbRes (some ⟨0, 0, .fb, 0⟩) ++ []) [] := by
  have h : (xenMapScan cfg0 16 (fun _ => true) 1 0 .never 0 ⟨some ⟨0, 0, .fb, 0⟩, 0⟩ []).evs = [] := by decide
  refine ⟨h, ?_⟩
  rw [h]
  rintro ⟨M, h1, h2⟩
  simp only [runEvs, fbRes, List.append_nil, Option.some.injEq] at h1
  subst h1
  simpa using h2.length_eq

/-- a page fetched through the read cache, a record added on top, the LOWER
record removed: the page is given back although the removed record is not the top one -/
example : (axSession cfg0 64 (fun _ => ⟨some 100, 0, 0, 0, 0⟩) [.axread 1 4100, .addcb 1, .delcb 0] .never
    ⟨rcInit 4, [0]⟩ [.alloc true, .entHit (some 7), .alloc true]) =
    ([.malloc .pio 104 true, .acq .pc 4097, .malloc .cb 64 true, .put .pc 4097, .free .pio 104, .free .cb 64],
     ⟨⟨[none, none, none, none], [3, 0, 1, 2]⟩, [1]⟩) := by
  decide

/-! ### pins on the raw note blob of a derived attribute (`derived_attr_revalidate`) -/
open Kdf.Model.BlobPin in
/-- **every exit of the extraction gives its pin back**: whatever the blob (absent, too short, any size) and whatever
    the register's offset and length, no pin is held when the call returns, and nothing is unpinned that was not pinned. -/
theorem derivedRevalidate_balanced (raw : Option Nat) (off len : Nat) :
    net (derivedRevalidate raw off len).2 = 0 ∧ wellNested 0 (derivedRevalidate raw off len).2 = true := by
  unfold derivedRevalidate
  cases raw with
  | none => simp [net, wellNested]
  | some size =>
    by_cases h1 : off + len > size
    · simp [h1, net, wellNested]
    · by_cases h2 : len = 1 ∨ len = 2 ∨ len = 4 ∨ len = 8
      · simp [h1, h2, net, wellNested]
      · simp [h1, h2, net, wellNested]

open Kdf.Model.BlobPin in
/-- a blob shorter than the register's end is reported as corrupt (and only then) -/
theorem derivedRevalidate_short (size off len : Nat) :
    (derivedRevalidate (some size) off len).1 = .corrupt ↔ off + len > size := by
  unfold derivedRevalidate
  by_cases h1 : off + len > size
  · simp [h1]
  · by_cases h2 : len = 1 ∨ len = 2 ∨ len = 4 ∨ len = 8 <;> simp [h1, h2]

end Kdf.Props.C15
