import Kdf.Lemmas.ResFn
/-!
# C15 — every path gives back what it took

Model: `Kdf.Model.Res` (event traces of the diskdump read path at the cache /
allocator interface, for every answer of the environment) and its ledger
semantics `runEvs`.  `Runs evs L L'` says: the trace `evs` can be executed from
the ledger `L` — nothing is given back that is not held at that moment — and
leaves the multiset `L'`.

All statements are over *all* oracles (validity and address of every cache
entry, outcome of every pread/mmap/malloc — in particular every fault point),
all page descriptors, all lengths and positions, all policies and all start
ledgers; loops (`fcache_pread`, `fcache_get_chunk`, `read_locked`, sessions)
are handled by induction, there is no bound.

Not proved here: that the `stuck` result of the model (oracle does not fit the
call, or `fcache_get_chunk` would store an entry outside its array) is never
reached by the implementation — the correspondence check would show it as a
differing trace (`STUCK`).
-/
namespace Kdf.Props.C15
open Kdf.Model.Res Kdf.Lemmas.Res

/-- the ledger checker is sound for the counting reading of the property: if a
trace runs from `L` to `M`, then for every resource the number held at the end
is what was held before, plus what was taken, minus what was given back -/
theorem ledger_sound {L M : List Res} (evs : List Ev) (r : Res) (h : runEvs evs L = some M) :
    M.count r + gives r evs = L.count r + takes r evs :=
  runEvs_count evs r h

/-- … and it is prefix closed: in a trace that runs, no prefix gives back
something that is not held at that point -/
theorem ledger_prefix {L M : List Res} (a b : List Ev) (h : runEvs (a ++ b) L = some M) :
    ∃ N, runEvs a L = some N :=
  runEvs_prefix a b h

/-- frame rule: what a trace does not touch can be added to the ledger -/
theorem runs_frame {evs : List Ev} {L L' : List Res} (h : Runs evs L L') (F : List Res) :
    Runs evs (L ++ F) (L' ++ F) :=
  h.frame F

/-- `fcache_get` (all four mmap policies, failed mapping remembered in the
cache, fallback to read): success holds exactly the returned entry, every
failure holds nothing -/
theorem fcacheGet_balanced (cfg : Cfg) (pol : Policy) (fidx pos : Nat) (orc : List Ext) (L : List Res) :
    Runs (fcacheGet cfg pol fidx pos orc).evs L
      ((match (fcacheGet cfg pol fidx pos orc).res with
        | .ok (f, _) => [Res.pin f.c f.key]
        | _ => []) ++ L) := by
  have h := fcacheGet_runs cfg pol fidx pos orc L
  cases hr : (fcacheGet cfg pol fidx pos orc).res with
  | ok fp => obtain ⟨f, p⟩ := fp; rw [hr] at h; simpa [gainFceP, pinOf] using h
  | err s => rw [hr] at h; simpa [gainFceP] using h
  | stuck => rw [hr] at h; simpa [gainFceP] using h

/-- `fcache_pread`: whatever happens in whichever round, nothing stays held -/
theorem fcachePread_balanced (cfg : Cfg) (fuel : Nat) (pol : Policy) (len fidx pos : Nat) (orc : List Ext) (L : List Res) :
    Runs (fcachePread cfg fuel pol len fidx pos orc).evs L L :=
  fcachePread_runs cfg fuel pol len fidx pos orc L

/-- `fcache_get_chunk`: a failure (any round, before or after the switch to a
copied buffer, failing `malloc` of the entry array or of the copy buffer)
holds nothing; success holds exactly what the returned chunk describes, and
that chunk is one `fcache_put_chunk` can take apart -/
theorem fcacheGetChunk_balanced (cfg : Cfg) (pol : Policy) (len fidx pos : Nat) (orc : List Ext) (L : List Res) :
    Runs (fcacheGetChunk cfg pol len fidx pos orc).evs L
      ((match (fcacheGetChunk cfg pol len fidx pos orc).res with
        | .ok (.chunk c _) => chunkRes c
        | _ => []) ++ L)
    ∧ ∀ c p, (fcacheGetChunk cfg pol len fidx pos orc).res = .ok (.chunk c p) → WF cfg c := by
  have h := fcacheGetChunk_runs cfg pol len fidx pos orc L
  refine ⟨?_, h.2⟩
  cases hr : (fcacheGetChunk cfg pol len fidx pos orc).res with
  | ok cr => obtain ⟨c, p⟩ := cr; have h1 := h.1; rw [hr] at h1; simpa [gainChunk] using h1
  | err s => have h1 := h.1; rw [hr] at h1; simpa [gainChunk] using h1
  | stuck => have h1 := h.1; rw [hr] at h1; simpa [gainChunk] using h1

/-- `fcache_put_chunk` gives back exactly what a well-formed chunk holds -/
theorem fcachePutChunk_balanced (cfg : Cfg) (c : Chunk) (L : List Res) (hwf : WF cfg c) :
    Runs (fcachePutChunk cfg c) (chunkRes c ++ L) L :=
  fcachePutChunk_runs cfg c L hwf

/-- get followed by put returns to the start ledger -/
theorem chunk_roundtrip (cfg : Cfg) (pol : Policy) (len fidx pos : Nat) (orc : List Ext) (L : List Res)
    (c : Chunk) (p : Policy) (h : (fcacheGetChunk cfg pol len fidx pos orc).res = .ok (.chunk c p)) :
    Runs ((fcacheGetChunk cfg pol len fidx pos orc).evs ++ fcachePutChunk cfg c) L L := by
  have hg := fcacheGetChunk_runs cfg pol len fidx pos orc L
  have h1 := hg.1
  rw [h] at h1
  exact Runs.append (by simpa [gainChunk] using h1) (fcachePutChunk_runs cfg c L (hg.2 c p h))

/-- `diskdump_read_page`: on every exit — out-of-range or excluded frame,
unreadable descriptor, wrong raw size, unreadable data, every compression
method whether compiled in or not, failing or succeeding decompression —
nothing stays held (the page-cache entry belongs to the caller) -/
theorem diskdumpReadPage_balanced (cfg : Cfg) (pol : Policy) (pfn : Nat) (pg : PageInfo) (orc : List Ext) (L : List Res) :
    Runs (diskdumpReadPage cfg pol pfn pg orc).evs L L :=
  diskdumpReadPage_runs cfg pol pfn pg orc L

/-- `cache_get_page`: success holds the page-cache entry, failure nothing -/
theorem cacheGetPage_balanced (cfg : Cfg) (pol : Policy) (key pfn : Nat) (pg : PageInfo) (orc : List Ext) (L : List Res) :
    Runs (cacheGetPage cfg pol key pfn pg orc).evs L
      ((match (cacheGetPage cfg pol key pfn pg orc).res with
        | .ok _ => [Res.pin .pc key]
        | _ => []) ++ L) := by
  have h := cacheGetPage_runs cfg pol key pfn pg orc L
  cases hr : (cacheGetPage cfg pol key pfn pg orc).res with
  | ok p => rw [hr] at h; simpa [gainPage] using h
  | err s => rw [hr] at h; simpa [gainPage] using h
  | stuck => rw [hr] at h; simpa [gainPage] using h

/-- `diskdump_get_page` (early refusal of excluded frames, else `cache_get_page`):
success holds the page-cache entry, failure nothing -/
theorem diskdumpGetPage_balanced (cfg : Cfg) (pol : Policy) (key pfn : Nat) (pg : PageInfo) (orc : List Ext) (L : List Res) :
    Runs (diskdumpGetPage cfg pol key pfn pg orc).evs L
      ((match (diskdumpGetPage cfg pol key pfn pg orc).res with
        | .ok _ => [Res.pin .pc key]
        | _ => []) ++ L) := by
  have h := diskdumpGetPage_runs cfg pol key pfn pg orc L
  cases hr : (diskdumpGetPage cfg pol key pfn pg orc).res with
  | ok p => rw [hr] at h; simpa [gainPage] using h
  | err s => rw [hr] at h; simpa [gainPage] using h
  | stuck => rw [hr] at h; simpa [gainPage] using h

/-- `read_locked`: after the call, successful, partial or failed, no entry is
referenced on its behalf -/
theorem readLocked_balanced (cfg : Cfg) (pages : Nat → PageInfo) (as fuel : Nat) (pol : Policy) (addr remain : Nat)
    (orc : List Ext) (L : List Res) :
    Runs (readLocked cfg pages as fuel pol addr remain orc).evs L L :=
  readLocked_runs cfg pages as fuel pol addr remain orc L

/-- `addrxlat_get_page`: success lends the descriptor and the page entry,
failure (allocation or page) leaves nothing behind -/
theorem addrxlatGetPage_balanced (cfg : Cfg) (pol : Policy) (as addr : Nat) (pages : Nat → PageInfo) (orc : List Ext) (L : List Res) :
    Runs (addrxlatGetPage cfg pol as addr pages orc).evs L
      ((match (addrxlatGetPage cfg pol as addr pages orc).res with
        | .ok _ => lentRes cfg as addr
        | _ => []) ++ L) := by
  have h := addrxlatGetPage_runs cfg pol as addr pages orc L
  cases hr : (addrxlatGetPage cfg pol as addr pages orc).res with
  | ok p => rw [hr] at h; simpa [gainLent] using h
  | err s => rw [hr] at h; simpa [gainLent] using h
  | stuck => rw [hr] at h; simpa [gainLent] using h

/-- `addrxlat_put_page` returns exactly what `addrxlat_get_page` lent -/
theorem addrxlatPage_roundtrip (cfg : Cfg) (as addr : Nat) (L : List Res) :
    Runs (addrxlatPutPage cfg as addr) (lentRes cfg as addr ++ L) L :=
  addrxlatPutPage_runs cfg as addr L

/-! ## sessions: any sequence of calls -/

inductive Call
  | read (as addr len : Nat)
  | getpage (as addr : Nat)
  | putpage (as addr : Nat)

/-- everything lent to libaddrxlat's read cache -/
def lentAll (cfg : Cfg) : List (Nat × Nat) → List Res
  | [] => []
  | p :: t => lentRes cfg p.1 p.2 ++ lentAll cfg t

/-- a session: reads, pages taken through `get_page` and given back through
`put_page` in any order (a page that is not lent is not given back); returns
the trace and the pages still lent -/
def session (cfg : Cfg) (pages : Nat → PageInfo) : List Call → Policy → List (Nat × Nat) → List Ext → List Ev × List (Nat × Nat)
  | [], _, lent, _ => ([], lent)
  | .read as addr len :: cs, pol, lent, orc =>
      let out := readLocked cfg pages as len pol addr len orc
      let pol' := match out.res with
        | .ok (_, p) => p
        | _ => polAfterErr pol
      let rest := session cfg pages cs pol' lent out.orc
      (out.evs ++ rest.1, rest.2)
  | .getpage as addr :: cs, pol, lent, orc =>
      let out := addrxlatGetPage cfg pol as addr pages orc
      match out.res with
      | .ok p =>
          let rest := session cfg pages cs p ((as, addr) :: lent) out.orc
          (out.evs ++ rest.1, rest.2)
      | _ =>
          let rest := session cfg pages cs (polAfterErr pol) lent out.orc
          (out.evs ++ rest.1, rest.2)
  | .putpage as addr :: cs, pol, lent, orc =>
      if (as, addr) ∈ lent then
        let rest := session cfg pages cs pol (lent.erase (as, addr)) orc
        (addrxlatPutPage cfg as addr ++ rest.1, rest.2)
      else session cfg pages cs pol lent orc

theorem lentAll_erase (cfg : Cfg) (p : Nat × Nat) (lent : List (Nat × Nat)) (h : p ∈ lent) :
    (lentAll cfg lent).Perm (lentRes cfg p.1 p.2 ++ lentAll cfg (lent.erase p)) := by
  induction lent with
  | nil => cases h
  | cons q t ih =>
    by_cases hq : q = p
    · subst hq; simp [lentAll]
    · have hp : p ∈ t := by
        cases h with
        | head => exact absurd rfl hq
        | tail _ h' => exact h'
      rw [List.erase_cons_tail (by simp [hq])]
      simp only [lentAll]
      have := ih hp
      have h2 := this.append_left (lentRes cfg q.1 q.2)
      refine h2.trans ?_
      simp only [lentRes]
      perm_tac

/-- after any sequence of calls, with any outcome of each, the library holds
exactly the pages that are currently lent — in particular nothing once every
lent page has been given back -/
theorem session_balanced (cfg : Cfg) (pages : Nat → PageInfo) (cs : List Call) (pol : Policy)
    (lent : List (Nat × Nat)) (orc : List Ext) (L : List Res) :
    Runs (session cfg pages cs pol lent orc).1 (lentAll cfg lent ++ L)
      (lentAll cfg (session cfg pages cs pol lent orc).2 ++ L) := by
  induction cs generalizing pol lent orc with
  | nil => exact Runs.nil _
  | cons c cs ih =>
    cases c with
    | read as addr len =>
      simp only [session]
      exact Runs.append (readLocked_runs cfg pages as len pol addr len orc _) (ih _ _ _)
    | getpage as addr =>
      simp only [session]
      have hg := addrxlatGetPage_runs cfg pol as addr pages orc (lentAll cfg lent ++ L)
      cases hr : (addrxlatGetPage cfg pol as addr pages orc).res with
      | ok p =>
        rw [hr] at hg
        simp only [gainLent] at hg
        have := ih p ((as, addr) :: lent) (addrxlatGetPage cfg pol as addr pages orc).orc
        simp only [lentAll, List.append_assoc] at this
        exact Runs.append hg this
      | err s =>
        rw [hr] at hg
        simp only [gainLent, List.nil_append] at hg
        exact Runs.append hg (ih _ _ _)
      | stuck =>
        rw [hr] at hg
        simp only [gainLent, List.nil_append] at hg
        exact Runs.append hg (ih _ _ _)
    | putpage as addr =>
      simp only [session]
      split
      · rename_i hmem
        have hp := addrxlatPutPage_runs cfg as addr (lentAll cfg (lent.erase (as, addr)) ++ L)
        have hperm := (lentAll_erase cfg (as, addr) lent hmem).append_right L
        simp only [List.append_assoc] at hperm
        exact Runs.append (hp.perm_left hperm.symm) (ih _ _ _)
      · exact ih _ _ _

/-! ## the hypotheses are satisfiable, the statements are not vacuous -/

def cfg0 : Cfg := ⟨4096, 4194304, 100000, 32, 104, 2, 4096, 16, false, false, true, true⟩

/-- three read-cache entries that are not adjacent in memory: the chunk is
copied, the entry array is freed during the switch -/
example : (fcacheGetChunk cfg0 .never 9000 0 4000
    [.alloc true, .entMiss 1000, .io true, .entMiss 50000, .io true, .alloc true, .entHit (some 9000), .entHit (some 9500)]).evs =
    [.malloc .fces 128 true, .acq .fb 0, .pread 0 true, .ins .fb 0, .acq .fb 4096, .pread 4096 true, .ins .fb 4096,
     .malloc .data 9000 true, .put .fb 0, .free .fces 128, .put .fb 4096, .acq .fb 8192, .put .fb 8192,
     .acq .fb 12288, .put .fb 12288] := by
  decide

/-- … and its ledger run ends with the copy buffer only -/
example : runEvs (fcacheGetChunk cfg0 .never 9000 0 4000
    [.alloc true, .entMiss 1000, .io true, .entMiss 50000, .io true, .alloc true, .entHit (some 9000), .entHit (some 9500)]).evs [] =
    some [.mem .data 9000] := by
  decide

/-- the error exit after the switch (third entry unreadable): nothing is held -/
example : runEvs (fcacheGetChunk cfg0 .never 9000 0 4000
    [.alloc true, .entMiss 1000, .io true, .entMiss 50000, .io true, .alloc true, .entMiss 7, .io false]).evs [] =
    some [] := by
  decide

/-- an LZO page in a build without LZO: the chunk is released before NOTIMPL -/
example : runEvs (diskdumpReadPage cfg0 .never 3 ⟨some 16384, 20480, 300, 2, 0⟩
    [.entHit (some 500), .entMiss 800, .io true]).evs [.pin .pc 12289] = some [.pin .pc 12289] := by
  decide

/-- the trace that the unrepaired code produced for that page (no release of
the chunk) does not balance: the read-cache entry stays held -/
example : runEvs [.acq .fb 16384, .put .fb 16384, .acq .fb 20480, .pread 20480 true, .ins .fb 20480] [] =
    some [.pin .fb 20480] := by
  decide

/-- giving back an entry twice is rejected by the ledger -/
example : runEvs [.acq .fb 0, .put .fb 0, .put .fb 0] [] = none := by
  decide

/-- a session with a failing and a succeeding `get_page` and a late `put_page` -/
example : (session cfg0 (fun _ => ⟨none, 0, 0, 0, 0⟩) [.getpage 1 4096, .getpage 1 8192, .read 1 4096 8, .putpage 1 8192]
    .never [] [.alloc true, .entMiss 5, .alloc true, .entHit (some 7), .entBusy]).2 = [] := by
  decide

end Kdf.Props.C15
