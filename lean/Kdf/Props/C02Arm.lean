import Kdf.Model.Pgt
import Kdf.Model.PgtArch
import Kdf.Spec.ArchArm
/-!
# C02 for 32-bit Arm (short descriptors): the model of the library's walk equals
the architectural specification `Kdf.Spec.ArchArm.specArm`

`walk_eq_spec_arm` at the end of the file.  Structure: `first` evaluates
`first_step_pgt_generic`, `pgtArm_eq` rewrites the do-block of `pgtArm` as nested
`if`s, `core` unrolls the two levels of the walk, the `*_arith` lemmas are the
bit-field identities (disjoint OR = addition, then `omega`).
-/
set_option linter.unusedSimpArgs false

namespace Kdf.Props.C02Arm
open Kdf.Model.Pgt Kdf.Model.PgtArch Kdf.Model.PgtArm Kdf.Spec.ArchArm

theorem first (root : FullAddr) (k va : Nat) (hk : k < 64) (hr : root.as ≠ NOADDR) :
    firstStep (.pgt t root pteMask ⟨.arm, [12, 8, k]⟩) va =
      .ok { base := root, remain := 3, elemsz := 4,
            idx := [va % 2^12, va / 2^12 % 2^8, va / 2^12 / 2^8 % 2^k, va / 2^12 / 2^8 / 2^k, 0, 0, 0, 0, 0], raw := 0 } := by
  simp [firstStep, firstStepPgtGeneric, firstStepPgtGeneric.split, hr, hk, ptevalShift, List.replicate]

theorem pgtArm_eq (mem : Mem) (t pteMask : Nat) (pf : PagingForm) (s : Step) :
    pgtArm mem t pteMask pf s =
      match mem s.base.as s.base.addr 4 with
      | .error e => .error e
      | .ok v =>
        let d := v &&& ((W - 1) ^^^ pteMask % W)
        let s1 : Step := { s with raw := v, base := { s.base with as := t } }
        if d % 4 = 0 then .error .notpresent
        else if s.remain > 1 then
          if d % 4 = 1 then .ok { s1 with base := ⟨clearLow d 10, t⟩ }
          else if d / 2^18 % 2 = 0 then .ok (hugePage pf { s1 with base := ⟨clearLow d 20, t⟩ })
          else .ok (hugePage pf { addOverlap pf s1 4 with
                 base := ⟨clearLow d 24 ||| ((d / 2^20 % 2^4 * 2^32) % W) ||| ((d / 2^5 % 2^4 * 2^36) % W), t⟩ })
        else
          if d % 4 = 1 then .ok { addOverlap pf s1 4 with base := ⟨clearLow d 16, t⟩, elemsz := 1 }
          else .ok { s1 with base := ⟨clearLow d 12, t⟩, elemsz := 1 } := by
  unfold pgtArm readPte
  cases mem s.base.as s.base.addr 4 with
  | error e => rfl
  | ok v =>
    generalize hd : (v &&& ((W - 1) ^^^ pteMask % W)) = d
    simp only [bits, Nat.pow_zero, Nat.div_one, hd]
    by_cases h0 : d % 4 = 0
    · simp [h0, bind, Except.bind, throw, throwThe, MonadExceptOf.throw]
    · by_cases h1 : d % 4 = 1 <;> by_cases hr : 1 < s.remain <;> by_cases h18 : d / 262144 % 2 = 0 <;>
        simp [h0, h1, hr, h18, bind, Except.bind, throw, throwThe, MonadExceptOf.throw, pure, Except.pure]

theorem nextStep_arm (mem : Mem) (t : Nat) (root : FullAddr) (pteMask : Nat) (f : List Nat) (s : Step) :
    nextStep extra mem (.pgt t root pteMask ⟨.arm, f⟩) s = pgtArm mem t pteMask ⟨.arm, f⟩ s := rfl


theorem or_mul (a b k : Nat) (h : a < 2^k) : a ||| b * 2^k = b * 2^k + a := by
  rw [Nat.or_comm, ← Nat.shiftLeft_eq, ← Nat.shiftLeft_add_eq_or_of_lt h]

theorem sect_arith (d va : Nat) (hd : d < 2^32) :
    (clearLow d 20 + (va % 4096 ||| va / 4096 % 256 * 4096 % W)) % W
      = d / 1048576 % 4096 * 1048576 + va % 1048576 := by
  have e1 : va / 4096 % 256 * 4096 % W = va / 4096 % 256 * 4096 :=
    Nat.mod_eq_of_lt (by simp only [W]; omega)
  have e2 : va % 4096 ||| va / 4096 % 256 * 4096 = va / 4096 % 256 * 4096 + va % 4096 :=
    or_mul (va % 4096) (va / 4096 % 256) 12 (by omega)
  rewrite [e1, e2]
  clear e1 e2
  simp only [clearLow, W]
  omega

theorem super_arith (d va : Nat) (hd : d < 2^32) :
   ((clearLow d 24 ||| d / 1048576 % 16 * 4294967296 % W ||| d / 32 % 16 * 68719476736 % W) +
        (va % 4096 ||| (va / 4096 % 256 + va / 1048576 % 16 * 256) * 4096 % W)) % W =
    d / 16777216 % 256 * 16777216 + d / 1048576 % 16 * 4294967296 + d / 32 % 16 * 68719476736 + va % 16777216 := by
  show ((d / 16777216 * 16777216 ||| d / 1048576 % 16 * 4294967296 % 18446744073709551616 ||| d / 32 % 16 * 68719476736 % 18446744073709551616) +
        (va % 4096 ||| (va / 4096 % 256 + va / 1048576 % 16 * 256) * 4096 % 18446744073709551616)) % 18446744073709551616 = _
  have hd' : d < 4294967296 := hd
  have m1 : d / 1048576 % 16 * 4294967296 % 18446744073709551616 = d / 1048576 % 16 * 4294967296 := Nat.mod_eq_of_lt (by omega)
  have m2 : d / 32 % 16 * 68719476736 % 18446744073709551616 = d / 32 % 16 * 68719476736 := Nat.mod_eq_of_lt (by omega)
  have m3 : (va / 4096 % 256 + va / 1048576 % 16 * 256) * 4096 % 18446744073709551616 = (va / 4096 % 256 + va / 1048576 % 16 * 256) * 4096 :=
    Nat.mod_eq_of_lt (by omega)
  have o1 : d / 16777216 * 16777216 ||| d / 1048576 % 16 * 4294967296 = d / 1048576 % 16 * 4294967296 + d / 16777216 * 16777216 :=
    or_mul (d / 16777216 * 16777216) (d / 1048576 % 16) 32 (by omega)
  have o2 : (d / 1048576 % 16 * 4294967296 + d / 16777216 * 16777216) ||| d / 32 % 16 * 68719476736
      = d / 32 % 16 * 68719476736 + (d / 1048576 % 16 * 4294967296 + d / 16777216 * 16777216) :=
    or_mul (d / 1048576 % 16 * 4294967296 + d / 16777216 * 16777216) (d / 32 % 16) 36 (by omega)
  have o3 : va % 4096 ||| (va / 4096 % 256 + va / 1048576 % 16 * 256) * 4096 = (va / 4096 % 256 + va / 1048576 % 16 * 256) * 4096 + va % 4096 :=
    or_mul (va % 4096) (va / 4096 % 256 + va / 1048576 % 16 * 256) 12 (by omega)
  rewrite [m1, m2, m3, o1, o2, o3]
  have l1 : d / 16777216 % 256 = d / 16777216 := by omega
  have l2 : (va / 4096 % 256 + va / 1048576 % 16 * 256) * 4096 + va % 4096 = va % 16777216 := by omega
  rewrite [l1, l2]
  have hX : d / 1048576 % 16 < 16 := by omega
  have hY : d / 32 % 16 < 16 := by omega
  have hA : d / 16777216 < 256 := by omega
  have hV : va % 16777216 < 16777216 := by omega
  generalize d / 1048576 % 16 = X at hX ⊢
  generalize d / 32 % 16 = Y at hY ⊢
  generalize d / 16777216 = A at hA ⊢
  generalize va % 16777216 = V at hV ⊢
  clear m1 m2 m3 o1 o2 o3 l1 l2
  omega

theorem large_arith (d va : Nat) (hd : d < 2^32) :
    (clearLow d 16 + (va % 4096 + va / 4096 % 16 * 4096)) % W = d / 65536 % 65536 * 65536 + va % 65536 := by
  simp only [clearLow, W]; omega

theorem small_arith (d va : Nat) (hd : d < 2^32) :
    (clearLow d 12 + va % 4096) % W = d / 4096 % 1048576 * 4096 + va % 4096 := by
  simp only [clearLow, W]; omega

theorem walkLoop_succ (mem : Mem) (m : Meth) (fuel : Nat) (s : Step) :
    walkLoop extra mem m (fuel+1) s =
      (let r := s.remain - 1
       if r = 0 then
         .ok { s with remain := 0, elemsz := 0,
                      base := ⟨(s.base.addr + idxAt s 0 * s.elemsz) % W, m.targetAs⟩ }
       else
         let s1 := { s with remain := r, base := { s.base with addr := (s.base.addr + idxAt s r * s.elemsz) % W } }
         match nextStep extra mem m s1 with
         | .error e => .error e
         | .ok s2 => walkLoop extra mem m fuel s2) := rfl

theorem core (mem : Mem) (t : Nat) (root : FullAddr) (pteMask k va : Nat) (hk : k < 64)
    (hr : root.as ≠ NOADDR) (hva : va / 2^12 / 2^8 < 2^k) (hmask : pteMask < W)
    (hmem : ∀ as a v, mem as a 4 = .ok v → v < 2^32) :
    (walk extra mem (.pgt t root pteMask ⟨.arm, [12, 8, k]⟩) va).map (·.base)
      = tableWalk mem t root pteMask va := by
  have e20 : va / 2^12 / 2^8 = va / 2^20 := by omega
  unfold walk tableWalk
  rw [first root k va hk hr]
  simp only [Nat.mod_eq_of_lt hva]
  rw [e20]
  generalize va / 2^20 / 2^k = i3
  simp only [show ((3:Nat) = 0) = False from by simp, if_false]
  rw [show (3 + 1 : Nat) = 3 + 1 from rfl, walkLoop_succ]
  simp only [nextStep_arm, pgtArm_eq, idxAt, Nat.mod_eq_of_lt hmask]
  simp only [show (3 - 1 : Nat) = 2 from rfl, show ((2:Nat) = 0) = False from by simp, if_false,
    List.getD_cons_succ, List.getD_cons_zero]
  cases hm1 : mem root.as ((root.addr + va / 2^20 * 4) % W) 4 with
  | error e => simp [Except.map]
  | ok v1 =>
    have hv1 := hmem _ _ _ hm1
    simp only []
    have hd1 : (v1 &&& ((W - 1) ^^^ pteMask)) < 2^32 := Nat.lt_of_le_of_lt Nat.and_le_left hv1
    generalize (v1 &&& ((W - 1) ^^^ pteMask)) = d1 at hd1 ⊢
    by_cases h0 : d1 % 4 = 0
    · simp [h0, decodeL1, field, Except.map]
    · by_cases h1 : d1 % 4 = 1
      · simp only [h1, if_true, show (2 > 1) = True from by simp, show ¬ ((1:Nat) = 0) from by simp, if_false]
        have hdec : decodeL1 d1 = .pageTable (d1 / 2^10 % 2^22 * 2^10) := by
          simp [decodeL1, field, h1]
        rw [hdec]
        simp only []
        rw [show (3 : Nat) = 2 + 1 from rfl, walkLoop_succ]
        simp only [nextStep_arm, pgtArm_eq, idxAt, Nat.mod_eq_of_lt hmask]
        simp only [show (2 - 1 : Nat) = 1 from rfl, show ((1:Nat) = 0) = False from by simp, if_false,
          List.getD_cons_succ, List.getD_cons_zero]
        have ea : (clearLow d1 10 + va / 2^12 % 2^8 * 4) % W = d1 / 2^10 % 2^22 * 2^10 + va / 2^12 % 2^8 * 4 := by
          simp only [clearLow, W]; omega
        rw [ea]
        cases hm2 : mem t (d1 / 2^10 % 2^22 * 2^10 + va / 2^12 % 2^8 * 4) 4 with
        | error e => simp [Except.map]
        | ok v2 =>
          have hv2 := hmem _ _ _ hm2
          simp only []
          have hd2 : (v2 &&& ((W - 1) ^^^ pteMask)) < 2^32 := Nat.lt_of_le_of_lt Nat.and_le_left hv2
          generalize (v2 &&& ((W - 1) ^^^ pteMask)) = d2 at hd2 ⊢
          by_cases g0 : d2 % 4 = 0
          · simp [g0, decodeL2, field, Except.map]
          · by_cases g1 : d2 % 4 = 1
            · simp only [g0, g1, if_false, if_true, show ¬ (1 > 1) from by simp]
              simp only [addOverlap, fieldAt, setIdx, idxAt, walkLoop_succ]
              simp [decodeL2, field, g0, g1, Except.map, Meth.targetAs]
              exact large_arith d2 va hd2
            · simp only [g0, g1, if_false, if_true, show ¬ (1 > 1) from by simp]
              simp only [addOverlap, fieldAt, setIdx, idxAt, walkLoop_succ]
              simp [decodeL2, field, g0, g1, Except.map, Meth.targetAs]
              exact small_arith d2 va hd2
      · by_cases h18 : d1 / 2^18 % 2 = 0
        · simp only [h0, h1, h18, if_false, if_true, show (2 > 1) = True from by simp]
          simp only [hugePage, hugePage.go, fieldAt, setIdx, idxAt, walkLoop_succ]
          simp [decodeL1, field, h0, h1, h18, Except.map, Meth.targetAs]
          exact sect_arith d1 va hd1
        · simp only [h0, h1, h18, if_false, if_true, show (2 > 1) = True from by simp]
          simp only [addOverlap, hugePage, hugePage.go, fieldAt, setIdx, idxAt, walkLoop_succ]
          simp [decodeL1, field, h0, h1, h18, Except.map, Meth.targetAs]
          exact super_arith d1 va hd1

theorem nodata_case (mem : Mem) (t : Nat) (root : FullAddr) (pteMask : Nat) (f : List Nat) (va : Nat)
    (hr : root.as = NOADDR) :
    (walk extra mem (.pgt t root pteMask ⟨.arm, f⟩) va).map (·.base) = .error .nodata := by
  simp [walk, firstStep, firstStepPgtGeneric, hr, Except.map]

theorem form_case (mem : Mem) (t : Nat) (root : FullAddr) (pteMask k va : Nat) (hk : 5 ≤ k ∧ k ≤ 12)
    (hmask : pteMask < W)
    (hmem : ∀ as a size v, mem as a size = .ok v → v < 2^(8*size))
    (hdev : knownDeviation ⟨.arm, [12, 8, k]⟩ va = false) :
    (walk extra mem (.pgt t root pteMask ⟨.arm, [12, 8, k]⟩) va).map (·.base)
      = specArm mem t root pteMask ⟨.arm, [12, 8, k]⟩ va := by
  have hlt : va < 2^(20 + k) := by
    simp [knownDeviation, ttbcrN] at hdev
    have : 32 - (12 - k) = 20 + k := by omega
    rw [this] at hdev; exact hdev
  unfold specArm
  by_cases hr : root.as = NOADDR
  · simp [hr, nodata_case]
  · have hge : ¬ (va ≥ 2^(32 - ttbcrN ⟨.arm, [12, 8, k]⟩)) := by
      have : 32 - ttbcrN ⟨.arm, [12, 8, k]⟩ = 20 + k := by simp [ttbcrN]; omega
      rw [this]; omega
    simp only [hr, hge, if_false]
    have hdiv : va / 2^12 / 2^8 < 2^k := by
      rw [Nat.div_div_eq_div_mul, Nat.div_lt_iff_lt_mul (by decide)]
      have : 2^(20+k) = 2^k * (2^12 * 2^8) := by rw [Nat.pow_add]; omega
      omega
    exact core mem t root pteMask k va (by omega) hr hdiv hmask (fun as a v h => hmem as a 4 v h)

/-- **C02 (32-bit Arm)**: on every architecturally defined paging form, the
library's page-table walk (model of `addrxlat_walk`, `first_step_pgt_generic`,
`pgt_arm`, `pgt_huge_page`) computes exactly the architectural translation. -/
theorem walk_eq_spec_arm (mem : Mem) (t : Nat) (root : FullAddr) (pteMask : Nat) (pf : PagingForm) (va : Nat)
    (hpf : archFormArm pf = true) (_hva : va < W) (_hroot : root.addr < W) (hmask : pteMask < W)
    (hmem : ∀ as a size v, mem as a size = .ok v → v < 2^(8*size))
    (hdev : knownDeviation pf va = false) :
    (walk extra mem (.pgt t root pteMask pf) va).map (·.base) = specArm mem t root pteMask pf va := by
  obtain ⟨fmt, fs⟩ := pf
  simp only [archFormArm, Bool.and_eq_true, Bool.or_eq_true, decide_eq_true_eq] at hpf
  obtain ⟨hf, hfs⟩ := hpf
  subst hf
  rcases hfs with ((((((h | h) | h) | h) | h) | h) | h) | h <;> subst h <;>
    exact form_case mem t root pteMask _ va (by omega) hmask hmem hdev

end Kdf.Props.C02Arm
