import Kdf.Model.Flat
import Kdf.Lemmas.FlatDefs
import Kdf.Lemmas.FlatRead
import Kdf.Lemmas.FlatScan
import Kdf.Lemmas.Split
/-!
# C11 — flattened and split packaging do not change what a dump contains

Property theorems only; helper lemmas live in `Kdf/Lemmas/Flat*.lean` and
`Kdf/Lemmas/Split.lean`.

Flattened part.  `Parsed f p recs` is the format's own definition of the record
list of a flattened stream; `rearranged f recs` is the file makedumpfile would
have written had it been able to seek: all zero, then every record written in
stream order.  The theorems say that `flatmap_file_init` accepts exactly the
well-formed streams (inside `off_t`) and that, afterwards, both read functions
deliver `rearranged` for every position and length — any record sizes, any
order, overlapping rewrites, holes (zero), empty stream.

Split part.  The order in which the files of a split set are passed does not
change the sorted `pdmap[]` array (as file contents), every element still points
at its own file, and the file selected for a frame is the one whose window
contains it.
-/
namespace Kdf.Props.C11
open Kdf.Model.Map Kdf.Model.Flat Kdf.Lemmas.Map Kdf.Lemmas.Flat Kdf.Lemmas.Split

/-- the state in which `flatmap_file_init` enters its loop -/
def init : Scan := ⟨[], [], HDR⟩

theorem inv_init : Inv [] init :=
  ⟨Or.inl rfl, rfl, fun _ _ => rfl, fun _ h => absurd h (by simp)⟩

/-- **Reads of a flattened file return the rearranged file.**  If the scan of
the stream succeeds, the stream is a well-formed record list and
`flatmap_pread_flat` returns, for every position and length, exactly the bytes
of the rearranged file (zero where no record wrote). -/
theorem pread_flat_rearranged (f : File) (fuel : Nat) (s : Scan) (h : scan f fuel init = .ok s) :
    ∃ recs, Parsed f HDR recs ∧ ∀ pos len, pos + len ≤ W →
      preadFlat s.map s.offs f pos len = .ok ((List.range len).map fun i => rearranged f recs (pos + i)) := by
  obtain ⟨recs, hp, hi⟩ := scan_inv f fuel init s [] h inv_init
  refine ⟨recs, hp, fun pos len hlen => ?_⟩
  have hi' : Inv recs s := by simpa using hi
  rw [preadFlat_via s.map s.offs f pos len hi'.1 (inv_full recs s hi') hlen (inv_valid recs s hi' pos len hlen)]
  congr 1
  apply List.map_congr_left
  intro i hi2
  have : i < len := List.mem_range.mp hi2
  exact inv_viaMap f recs s hi' (pos + i) (by omega)

/-- **Chunks of a flattened file are chunks of the rearranged file**: inside
one record, spanning records, inside a hole, in a stream without records. -/
theorem get_chunk_rearranged (f : File) (fuel : Nat) (s : Scan) (h : scan f fuel init = .ok s) :
    ∃ recs, Parsed f HDR recs ∧ ∀ pos len, pos + len ≤ W → pos < W →
      ∃ b, getChunkFlat s.map s.offs f pos len =
        .ok (b, (List.range len).map fun i => rearranged f recs (pos + i)) := by
  obtain ⟨recs, hp, hi⟩ := scan_inv f fuel init s [] h inv_init
  refine ⟨recs, hp, fun pos len hlen hpos => ?_⟩
  have hi' : Inv recs s := by simpa using hi
  obtain ⟨b, hb⟩ := getChunkFlat_via s.map s.offs f pos len hi'.1 (inv_full recs s hi') hlen hpos
    (inv_valid recs s hi' pos (max len 1) (by omega))
  refine ⟨b, ?_⟩
  rw [hb]
  congr 2
  apply List.map_congr_left
  intro i hi2
  have : i < len := List.mem_range.mp hi2
  exact inv_viaMap f recs s hi' (pos + i) (by omega)

/-- **Every well-formed stream is accepted** (any number, sizes and order of
records, overlaps and holes included), as long as it stays inside `off_t`. -/
theorem scan_accepts (f : File) (recs : List Rec) (hp : Parsed f HDR recs) (hf : Fits recs)
    (fuel : Nat) (hfuel : recs.length < fuel) :
    ∃ s, scan f fuel init = .ok s :=
  scan_complete f fuel init [] recs hp hf inv_init hfuel

/-- **The scan terminates**: on a file of `n` bytes the loop runs at most
`n + 2` times (the bound used by the driver is never the reason to stop). -/
theorem scan_terminates (f : File) (n : Nat) (hz : ∀ i, n ≤ i → f i = 0) :
    scan f (n + 2) init ≠ .fuel :=
  Kdf.Lemmas.Flat.scan_terminates f n hz (n + 2) init (by omega) (by simp [init])

/-- Positions the flattened stream never wrote read as zero. -/
theorem hole_reads_zero (f : File) (recs : List Rec) (p : Nat) (h : ∀ r ∈ recs, ¬ r.covers p) :
    rearranged f recs p = 0 := by
  unfold rearranged
  suffices H : ∀ (l : List Rec) (a : Nat), (∀ r ∈ l, ¬ r.covers p) →
      l.foldl (fun acc r => if r.covers p then f (r.dpos + (p - r.pos)) % 256 else acc) a = a from H recs 0 h
  intro l
  induction l with
  | nil => intro a _; rfl
  | cons x xs ih =>
    intro a hx
    simp only [List.foldl_cons, if_neg (hx x (List.mem_cons_self ..))]
    exact ih a (fun r hr => hx r (List.mem_cons_of_mem _ hr))

/-- A later record overwrites everything before it. -/
theorem last_record_wins (f : File) (recs : List Rec) (r : Rec) (p : Nat) (h : r.covers p) :
    rearranged f (recs ++ [r]) p = f (r.dpos + (p - r.pos)) % 256 := by
  simp [rearranged, List.foldl_append, h]

/-- A record that does not cover the position changes nothing there. -/
theorem other_record_keeps (f : File) (recs : List Rec) (r : Rec) (p : Nat) (h : ¬ r.covers p) :
    rearranged f (recs ++ [r]) p = rearranged f recs p := by
  simp [rearranged, List.foldl_append, h]

/-! ### Split sets -/

/-- **The order of the files does not matter.**  For two orders of the same
files (distinct `end_pfn`), the descriptor lookup of every frame finds the same
file (as content) and the same position in it. -/
theorem split_order_irrelevant (bs1 bs2 : List Body) (hp : bs1.Perm bs2) (hd : DistinctEnds bs1)
    (maxPfn pfn : Nat) :
    (pdLookup (sortFiles (index bs1)) maxPfn pfn).map (fun r => (bs1[r.1]?, r.2)) =
    (pdLookup (sortFiles (index bs2)) maxPfn pfn).map (fun r => (bs2[r.1]?, r.2)) :=
  pdLookup_perm bs1 bs2 hp hd maxPfn pfn

/-- **The file selected for a frame is the one whose window contains it.** -/
theorem split_selects_window (l : List SFile)
    (hs : l.Pairwise (fun a b => a.endPfn ≤ b.startPfn)) (hw : ∀ m ∈ l, m.startPfn ≤ m.endPfn)
    (pfn : Nat) (m : SFile) :
    (findFile l pfn = some m ∧ m.startPfn ≤ pfn) ↔ (m ∈ l ∧ m.startPfn ≤ pfn ∧ pfn < m.endPfn) :=
  findFile_window l hs hw pfn m

/-- **A frame outside every window of the set is an excluded frame.**  For a set whose windows do not overlap (they need
not cover the frame space: files may be missing, the last window may end before `max_mapnr`), a frame below `maxPfn` that no
window contains is read as a page of zeroes when `file.zero_excluded` is on and as "no data" when it is off - exactly what the
plain single-file dump gives for a frame without a descriptor.  In particular the read never reaches a descriptor. -/
theorem split_uncovered_excluded (l : List SFile)
    (hs : l.Pairwise (fun a b => a.endPfn ≤ b.startPfn)) (hw : ∀ m ∈ l, m.startPfn ≤ m.endPfn)
    (maxPfn pfn : Nat) (hlt : pfn < maxPfn) (zx : Bool)
    (hout : ∀ m ∈ l, ¬ (m.startPfn ≤ pfn ∧ pfn < m.endPfn)) :
    readPageSrc l maxPfn zx pfn = if zx then .zero else .nodata := by
  have hnone : pdLookup l maxPfn pfn = none := by
    unfold pdLookup
    rw [if_neg (by omega)]
    cases hf : findFile l pfn with
    | none => rfl
    | some m =>
      simp only
      by_cases hle : m.startPfn ≤ pfn
      · have := (findFile_window l hs hw pfn m).mp ⟨hf, hle⟩
        exact absurd ⟨this.2.1, this.2.2⟩ (hout m this.1)
      · rw [if_neg hle]
  unfold readPageSrc
  rw [if_neg (by omega), hnone]

/-- the option only matters for frames without a descriptor: a frame whose descriptor is found is read from it either way,
and nothing is ever delivered for a frame at or above `maxPfn` -/
theorem zero_excluded_only_excluded (l : List SFile) (maxPfn pfn : Nat) :
    (∀ fi pos, pdLookup l maxPfn pfn = some (fi, pos) → ∀ zx, readPageSrc l maxPfn zx pfn = .desc fi pos) ∧
    (maxPfn ≤ pfn → ∀ zx, readPageSrc l maxPfn zx pfn = .nodata) := by
  refine ⟨fun fi pos h zx => ?_, fun h zx => ?_⟩
  · have hlt : ¬ pfn ≥ maxPfn := by
      intro hge; unfold pdLookup at h; rw [if_pos hge] at h; cases h
    unfold readPageSrc
    rw [if_neg hlt, h]
  · unfold readPageSrc
    rw [if_pos h]

/-! ### Non-vacuity -/

/-- a stream with two overlapping records and a hole: bytes 1,2,3 at 0, byte 9 at 1, END -/
def demoTail : List Nat :=
  [0,0,0,0,0,0,0,0, 0,0,0,0,0,0,0,3, 1,2,3] ++
  [0,0,0,0,0,0,0,1, 0,0,0,0,0,0,0,1, 9] ++
  [255,255,255,255,255,255,255,255, 0,0,0,0,0,0,0,0]
def demo : File := fun i => if i < 4096 then 0 else demoTail.getD (i - 4096) 0
def demoScan : Scan := ⟨[⟨0, 0⟩, ⟨0, 1⟩, ⟨0, 0⟩, ⟨W - 4, NONE⟩], [4112, 4130], 4132⟩
def demoRecs : List Rec := [⟨0, 3, 4112⟩, ⟨1, 1, 4131⟩]

set_option maxRecDepth 8000 in
example : scan demo 8 init = .ok demoScan := by decide
example : preadFlat demoScan.map demoScan.offs demo 0 5 = .ok [1, 9, 3, 0, 0] := by rfl
example : getChunkFlat demoScan.map demoScan.offs demo 0 2 = .ok (false, [1, 9]) := by rfl
example : getChunkFlat demoScan.map demoScan.offs demo 2 1 = .ok (true, [3]) := by rfl
example : getChunkFlat demoScan.map demoScan.offs demo 3 2 = .ok (false, [0, 0]) := by rfl
example : Parsed demo HDR demoRecs :=
  @Parsed.more demo 4096 _ 0 3 (by decide) (by decide) (by decide)
    (@Parsed.more demo 4115 _ 1 1 (by decide) (by decide) (by decide) (@Parsed.done demo 4132 (by decide)))
example : (List.range 5).map (rearranged demo demoRecs) = [1, 9, 3, 0, 0] := by decide
example : Fits demoRecs := by unfold Fits; decide

/-! ### a regular file has an end: `scanE` -/

/-- **the EOF rule only ever ends the scan early**: whatever `scanE` accepts, `scan` accepts with the same result, so
    every theorem above about an accepted stream (`pread_flat_rearranged`, `get_chunk_rearranged`, …) holds for `scanE`. -/
theorem scanE_ok_scan (f : File) (fsz : Nat) : ∀ (fuel : Nat) (s s' : Scan),
    scanE f fsz fuel s = .ok s' → scan f fuel s = .ok s' := by
  intro fuel
  induction fuel with
  | zero => intro s s' h; simp [scanE] at h
  | succ n ih =>
    intro s s' h
    unfold scanE at h
    unfold scan
    split at h
    · simp at h
    · simp only at h ⊢
      split
      · split at h
        · exact h
        · rename_i h1 h2; exact absurd h1 h2
      · rename_i hp
        rw [if_neg hp] at h
        split
        · rename_i hn; rw [if_pos hn] at h; simp at h
        · rename_i hn
          rw [if_neg hn] at h
          split
          · rename_i hs; rw [if_pos hs] at h; simp at h
          · rename_i hs
            rw [if_neg hs] at h
            split <;> rename_i hm <;> rw [hm] at h <;> simp only at h
            · split
              · rename_i hu; rw [if_pos hu] at h; simp at h
              · rename_i hu; rw [if_neg hu] at h; exact ih _ _ h
            · simp at h
            · simp at h

/-- **a file that contains every header the scan reads is scanned as before**: when no record header lies behind the
    end of the file, `scanE` is `scan`. -/
theorem scanE_eq_scan_of_no_eof (f : File) (fsz : Nat) (h : ∀ p, hdrBehindEof fsz p = false) :
    ∀ (fuel : Nat) (s : Scan), scanE f fsz fuel s = scan f fuel s := by
  intro fuel
  induction fuel with
  | zero => intro s; simp [scanE, scan]
  | succ n ih =>
    intro s
    unfold scanE scan
    rw [h s.flatpos]
    simp only [Bool.false_eq_true, if_false]
    split
    · rfl
    · split
      · rfl
      · split
        · rfl
        · split
          · split
            · rfl
            · exact ih _
          · rfl
          · rfl

/-- **a stream without end marker is refused**: a header behind the end of a regular file ends the scan with an error,
    never with an accepted map. -/
theorem scanE_eof_refused (f : File) (fsz fuel : Nat) (s : Scan) (h : hdrBehindEof fsz s.flatpos = true) :
    scanE f fsz (fuel + 1) s = .err .eof s.flatpos := by
  unfold scanE; simp [h]

set_option maxRecDepth 8000 in
example : scanE demo 4132 8 init = .ok demoScan := by decide
example : hdrBehindEof 4096 4096 = true := by decide
set_option maxRecDepth 8000 in
example : scanE (fun i => if i < 16 then magic.getD i 0 else 0) 4096 3 init = .err .eof 4096 := by decide

/-- a split set of two files (frames 2-4 in the window [0,11), frames 12-13 in [11,33)) -/
def demoB : List Body := [⟨0, 11, [⟨2, 3, 16384⟩]⟩, ⟨11, 33, [⟨12, 2, 16384⟩]⟩]

example : DistinctEnds demoB := by unfold DistinctEnds demoB; decide
example : demoB.Perm demoB.reverse := (List.reverse_perm _).symm
example : pdLookup (sortFiles (index demoB)) 33 13 = some (1, 16384 + 24) := by decide
example : pdLookup (sortFiles (index demoB.reverse)) 33 13 = some (0, 16384 + 24) := by decide
example : pdLookup (sortFiles (index demoB.reverse)) 33 3 = some (1, 16384 + 24) := by decide
example : pdLookup (sortFiles (index demoB.reverse)) 33 7 = none := by decide
example : (sortFiles (index demoB.reverse)).Pairwise (fun a b => a.endPfn ≤ b.startPfn) := by decide

end Kdf.Props.C11
