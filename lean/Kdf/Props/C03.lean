import Kdf.Model.Bounds
import Kdf.Lemmas.Bounds
/-!
# C03 — no byte sequence offered as a dump can crash or corrupt the process

PARTIAL.  The full statement — *for every byte string offered as a dump, every
call of open / read / attribute enumeration / page-map query performs no invalid
memory access and no division by zero, returns a documented status, and returns
within time proportional to the size of the input* — quantifies over the whole
library (12 000 lines of C); no model of that size exists, so it is not proved.
What is proved here, over ALL field values / byte strings and without bounds, is
the same statement for the parsing steps whose indices and loop counts come
from the file, on the models of `Kdf.Model.Bounds` (each tied to the real
function by the `bounds` correspondence stream on every run):

* `…_in_bounds`  : the model never reaches its distinguished `oob` result, i.e.
  every access index + width stays inside the actual buffer;
* `…_terminates` : the loop ends within the stated number of iterations, which is
  linear in the size of the input;
* no zero divisor / no undefined shift count is ever used.
Everything else is enumerated and fuzzed under sanitizers (stream `hostile`) —
evidence, not proof.
-/
namespace Kdf.Props.C03
open Kdf.Model.Bounds Kdf.Lemmas.Bounds

/-! ### uncompress_rle -/

/-- Every read of `src` is inside `src[0,len)` and every write inside `dst[0,cap)`, for all inputs. -/
theorem rle_in_bounds (src : List Nat) (cap : Nat) : rle src cap ≠ .oob := by
  intro h; have := rle_good src cap; rw [h] at this; exact this

/-- The loop ends after at most `src.length` iterations. -/
theorem rle_terminates (src : List Nat) (cap : Nat) : rle src cap ≠ .fuel := by
  intro h; have := rle_good src cap; rw [h] at this; exact this

/-- On success the reported length is the number of bytes written and does not exceed the buffer. -/
theorem rle_ok_len (src : List Nat) (cap n : Nat) (out : List Nat) (h : rle src cap = .ok n out) :
    out.length = n ∧ n ≤ cap := by
  have := rle_good src cap; rw [h] at this; exact this

example : rle [0, 3, 7, 5, 0, 0] 5 = .ok 5 [7, 7, 7, 5, 0] := by decide
example : rle [0, 3, 7, 5] 3 = .err := by decide          -- literal with no room left
example : rle [0, 4, 7] 3 = .err := by decide             -- run one longer than the room left
example : rle [9, 0] 8 = .err := by decide                -- stream ends inside an escape

/-! ### do_notes -/

/-- The note header and everything handed to the callback lie inside the note buffer. -/
theorem notes_in_bounds (rd32 : Nat → Nat) (total : Nat) : notes rd32 total ≠ .oob := by
  intro h; have := notes_good rd32 total; rw [h] at this; exact this

/-- At most `total / 12 + 1` iterations. -/
theorem notes_terminates (rd32 : Nat → Nat) (total : Nat) : notes rd32 total ≠ .fuel := by
  intro h; have := notes_good rd32 total; rw [h] at this; exact this

/-- Name and descriptor of every reported note lie inside the buffer. -/
theorem notes_ranges (rd32 : Nat → Nat) (total : Nat) (ns : List Note) (h : notes rd32 total = .done ns) :
    ∀ n ∈ ns, 12 ≤ n.nameOff ∧ n.nameOff + n.namesz ≤ total ∧ n.descOff + n.descsz ≤ total := by
  have := notes_good rd32 total; rw [h] at this; exact this

example : notes (fun p => if p = 0 then 5 else if p = 4 then 6 else if p = 8 then 1 else 0) 28
    = .done [⟨1, 12, 5, 20, 6⟩] := by decide
example : notes (fun p => if p = 0 then 0xffffffff else 0) 28 = .done [] := by decide

/-! ### diskdump: try_header / read_bitmap -/

/- `block_size` is an `int32_t`: the hypothesis `-2^31 ≤ bs` of `dd_header_accept` is the range of
that type, not a restriction.  Over unbounded `Int` the statement would be false — a negative
value whose 64-bit cast lands in the page-size window passes the model's check: -/
example : tryHeader (-18446744073709547520) 1 0 = true ∧ ¬ (0 : Int) ≤ -18446744073709547520 := by decide

/-- What an accepted header guarantees (`block_size` in the range of `int32_t`). -/
theorem dd_header_accept (bs : Int) (blocks mapnr : Nat) (hbs : -2^31 ≤ bs) (hb : blocks < 2^32)
    (h : tryHeader bs blocks mapnr = true) :
    0 ≤ bs ∧ MIN_PAGE_SIZE ≤ bs.toNat ∧ bs.toNat ≤ MAX_PAGE_SIZE ∧ mapnr ≤ 8 * blocks * bs.toNat :=
  tryHeader_accept bs blocks mapnr hbs hb h

/-- With a page size accepted by `try_header` and 32-bit header fields no intermediate of the
bitmap sizing leaves its C type. -/
theorem dd_bitmap_no_overflow (ps : Nat) (sub : Int) (blocks maxPfn : Nat)
    (hps : MIN_PAGE_SIZE ≤ ps ∧ ps ≤ MAX_PAGE_SIZE) (hsub : sub < 2^31) (hb : blocks < 2^32) :
    readBitmap ps sub blocks maxPfn ≠ .ovf :=
  readBitmap_no_ovf ps sub blocks maxPfn hps hsub hb

/-- The bits scanned are exactly the bits of the chunk that is read, `max_pfn` is clamped to
them, and the chunk lies between the memory bitmap offset and the page descriptors. -/
theorem dd_bitmap_in_bounds (ps : Nat) (sub : Int) (blocks maxPfn : Nat) (r : BmpReq)
    (h : readBitmap ps sub blocks maxPfn = .req r) :
    r.maxBitmapPfn = 8 * r.len ∧ r.maxPfn ≤ 8 * r.len ∧ r.maxPfn ≤ maxPfn ∧
    r.memOff ≤ r.off ∧ r.off + r.len ≤ r.descoff :=
  readBitmap_req ps sub blocks maxPfn r h

example : readBitmap 4096 1 2 20 = .req ⟨12288, 4096, 16384, 20, 32768, 8192⟩ := by decide
example : readBitmap 4096 (-1) 2 20 = .corrupt := by decide
example : tryHeader 4096 2 20 = true := by decide
example : tryHeader 0 2 20 = false := by decide
example : tryHeader (-4096) 2 20 = false := by decide

/-! ### flatmap_file_init -/

/-- What a read of a record header behind the end of the file can yield: it fails
(`file.mmap_policy` ALWAYS) or it yields zeroes (`fcache_get_read` zero-pads, policies NEVER/TRY). -/
def BehindEOF (rd : Nat → Option (Int × Int)) (bound : Nat) : Prop :=
  ∀ p, bound ≤ p → rd p = none ∨ rd p = some (0, 0)

/-- The record scan ends within `bound / 17 + 2` iterations, `bound` being the end of the last
block of the file: every record advances the position by at least 17 bytes, and a header read
behind the file either fails or is all zero, which is rejected (size 0). -/
theorem flat_terminates (rd : Nat → Option (Int × Int)) (bound : Nat) (hEOF : BehindEOF rd bound) :
    flatScan rd bound ≠ .fuel :=
  flatScan_ne_fuel rd bound (fun p hp => hEOF p hp)

/-- Every segment of an accepted flattened file is non-empty, its data lies behind its record
header and in front of the END record, which starts inside the file. -/
theorem flat_segs (rd : Nat → Option (Int × Int)) (bound : Nat) (hEOF : BehindEOF rd bound)
    (segs : List Seg) (h : flatScan rd bound = .ok segs) :
    ∀ s ∈ segs, 0 < s.size ∧ (MDF_HEADER_SIZE + 16 : Int) ≤ s.flatoff + s.pos ∧
      s.flatoff + s.pos + s.size < bound :=
  flatScan_segs rd bound (fun p hp => hEOF p hp) segs h

example : flatScan (fun p => if p = 4096 then some (0, 10) else if p = 4122 then some (-1, 0) else none) 8192
    = .ok [⟨0, 10, 4112⟩] := by decide
example : BehindEOF (fun p => if p = 4096 then some (0, 10) else if p = 4122 then some (-1, 0) else none) 8192 := by
  intro p hp
  have h1 : p ≠ 4096 := by omega
  have h2 : p ≠ 4122 := by omega
  simp [h1, h2]
example : flatScan (fun p => if p = 4096 then some (0, 10) else some (0, 0)) 8192 = .corrupt := by decide   -- zeroes behind the data

/-! ### flatmap_get_chunk_flat -/

/-- For a map whose methods are indices into the offset array (or NONE), the range pointer is
never dereferenced past the array and `offs` is never indexed outside it — for every position
and length, including holes, the area behind the last segment and the empty map. -/
theorem chunk_in_bounds (ranges : List (Nat × Int)) (offs : List Int) (pos len : Nat)
    (hwf : ∀ r ∈ ranges, r.2 = -1 ∨ (0 ≤ r.2 ∧ r.2.toNat < offs.length)) :
    chunkIdx ranges offs pos len ≠ .oob :=
  chunkIdx_ne_oob ranges offs pos len hwf

example : chunkIdx [(9, -1), (9, 0), (2^64 - 21, -1)] [4112] 12 4 = .direct 4124 := by decide
example : chunkIdx [(9, -1), (9, 0), (2^64 - 21, -1)] [4112] 3 4 = .copy := by decide     -- in a hole
example : chunkIdx [] [] 0 4 = .copy := by decide                                          -- no records

/-! ### sadump setup_arch, page_size_pre_hook -/

theorem cpusz_no_divzero (total cpus : Nat) : cpuStateSz total cpus ≠ .divzero :=
  cpuStateSz_ne_divzero total cpus

theorem pgshift_defined (ps : Nat) : pageShift ps ≠ .badshift :=
  pageShift_ne_badshift ps

/-- An accepted page size is the power of two of the returned shift, and the shift is a valid
shift count for a 64-bit value. -/
theorem pgshift_spec (ps s : Nat) (hps : ps < 2^64) (h : pageShift ps = .shift s) : ps = 2^s ∧ s < 64 :=
  pageShift_shift ps s hps h

example : pageShift 4096 = .shift 12 := by decide
example : pageShift 0 = .corrupt := by decide
example : pageShift 12288 = .corrupt := by decide

/-! ### Summary

Full statement of C03 (NOT proved — it quantifies over the whole library, for which no model
exists):

    ∀ (files : List (List UInt8)) (calls : List ApiCall),
      let run := execute libkdumpfile (open files :: calls)
      run.noInvalidAccess ∧ run.noDivisionByZero ∧
      (∀ c ∈ run.returns, c.status ∈ documentedStatuses) ∧ run.steps ≤ k * (files.map length).sum

What is proved is its restriction to the modelled parsing steps; what is missing is the same
for every other function reached by open / read / attribute enumeration / page-map queries
(covered by the `hostile` stream under ASan+UBSan only). -/
theorem hostile_input_safe_partial :
    (∀ src cap, rle src cap ≠ .oob ∧ rle src cap ≠ .fuel) ∧
    (∀ rd32 total, notes rd32 total ≠ .oob ∧ notes rd32 total ≠ .fuel) ∧
    (∀ ps sub blocks maxPfn, MIN_PAGE_SIZE ≤ ps ∧ ps ≤ MAX_PAGE_SIZE → sub < 2^31 → blocks < 2^32 →
        readBitmap ps sub blocks maxPfn ≠ .ovf) ∧
    (∀ rd bound, BehindEOF rd bound → flatScan rd bound ≠ .fuel) ∧
    (∀ ranges offs pos len, (∀ r ∈ ranges, r.2 = -1 ∨ (0 ≤ r.2 ∧ r.2.toNat < offs.length)) →
        chunkIdx ranges offs pos len ≠ .oob) ∧
    (∀ total cpus, cpuStateSz total cpus ≠ .divzero) ∧
    (∀ ps, pageShift ps ≠ .badshift) :=
  ⟨fun s c => ⟨rle_in_bounds s c, rle_terminates s c⟩,
   fun r t => ⟨notes_in_bounds r t, notes_terminates r t⟩,
   fun ps sub b m h1 h2 h3 => dd_bitmap_no_overflow ps sub b m h1 h2 h3,
   fun rd b h => flat_terminates rd b h,
   fun rs o p l h => chunk_in_bounds rs o p l h,
   cpusz_no_divzero, pgshift_defined⟩

end Kdf.Props.C03
