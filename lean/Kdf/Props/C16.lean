import Kdf.Model.Err
import Kdf.Model.Status
import Kdf.Model.ErrFlow
import Kdf.Lemmas.Err
import Kdf.Lemmas.ErrVadd
/-!
# C16 — failures carry a documented status and a message that tells the story

Property theorems only: the error-string buffer arithmetic of `err_vadd`
(chain, in-bounds, NUL termination, marked truncation that keeps the oldest
text), the status conversions, and the probe loop of `open_dump`.
-/
namespace Kdf.Props.C16
open Kdf.Model.Err Kdf.Lemmas.Err

/-- A fresh buffer is well-formed and holds no message. -/
theorem init_inv (n : Nat) (h : 2 ≤ n) : Inv (init n) ∧ text (init n) = [] := init_inv_aux n h

theorem clear_inv (e : ErrBuf) (h : Inv e) : Inv (clear e) ∧ text (clear e) = [] := clear_inv_aux e h

/-- When the allocation succeeds (or is not needed) the new string is the chain
`msg ++ ": " ++ old`, newest first; the object stays well-formed: NUL-terminated,
nothing written outside the inline buffer or the current heap block. -/
theorem vadd_chain (e : ErrBuf) (h : Inv e) (msg : List Byte) (hm : MsgWF msg) :
    Inv (vadd e msg true) ∧ text (vadd e msg true) = chain msg (text e) := vadd_chain_aux e h msg hm

/-- If the new message and the delimiter fit in front of the current string, no
allocation is attempted: the outcome does not depend on the allocator and the
heap block is untouched. -/
theorem vadd_fits_no_alloc (e : ErrBuf) (h : Inv e) (msg : List Byte) (hm : MsgWF msg)
    (hfit : msg.length + (if text e = [] then 0 else 2) ≤ room e) :
    vadd e msg false = vadd e msg true ∧ (vadd e msg false).dyn = e.dyn := vadd_fits_aux e h msg hm hfit

/-- When memory for a long chain cannot be obtained the string degrades to a
marked truncation: the object stays well-formed (in bounds, NUL-terminated), the
result starts with `<`, and the oldest text is preserved intact as a suffix
(all of it if at least one byte was free, all but its first character, which
the mark overwrites, otherwise). -/
theorem vadd_trunc (e : ErrBuf) (h : Inv e) (msg : List Byte) (hm : MsgWF msg)
    (hnofit : room e < msg.length + (if text e = [] then 0 else 2)) :
    let e' := vadd e msg false
    Inv e' ∧ (text e').head? = some 60 ∧
    (if room e = 0 then (text e).drop 1 <:+ text e' else text e <:+ text e') ∧
    (text e').length ≤ max (e.bufsz - 1) ((text e).length + 1) := vadd_trunc_aux e h msg hm hnofit

/-- Never an access outside the inline buffer, the heap block or the local
buffer — for every message length relative to `bufsz` and both allocation outcomes. -/
theorem vadd_inbounds (e : ErrBuf) (h : Inv e) (msg : List Byte) (hm : MsgWF msg) (a : Bool) :
    (vadd e msg a).oob = false := (vadd_inv_aux e h msg hm a).no_oob

/-- All of the above lifted over arbitrary histories of prepends (any lengths,
any allocation outcomes) and clears. -/
theorem history_inv (n : Nat) (hn : 2 ≤ n) (ops : List Op) (hw : ∀ o ∈ ops, o.wf) :
    Inv (ops.foldl step (init n)) := foldl_step_inv ops (init n) (init_inv n hn).1 hw

/-- With a working allocator the string is always the chain of the messages
added since the last clear, newest first, separated by ": ". -/
theorem history_chain (n : Nat) (hn : 2 ≤ n) (msgs : List (List Byte)) (hw : ∀ m ∈ msgs, MsgWF m) :
    text ((msgs.map (fun m => Op.add m true)).foldl step (init n)) =
      msgs.foldl (fun acc m => chain m acc) [] := by
  rw [foldl_chain msgs (init n) (init_inv n hn).1 hw, (init_inv n hn).2]

/-! ### Status conversions and the probe loop -/
open Kdf.Model.Status Kdf.Gen.Status

/-- the two enumerations are what the headers document: consecutive codes from 0 -/
theorem codes_documented : kdumpCodes = [0, 1, 2, 3, 4, 5, 6, 7, 8, 9] ∧ addrxlatCodes = [0, 1, 2, 3, 4, 5, 6] ∧
    noprobe ∉ kdumpCodes := by decide

/-- converting a documented libkdumpfile status to addrxlat and back is the identity -/
theorem status_roundtrip (st : Int) (h : st ∈ kdumpCodes) : addrxlat2kdump (kdump2addrxlat st) = st := by
  have : st = 0 ∨ st = 1 ∨ st = 2 ∨ st = 3 ∨ st = 4 ∨ st = 5 ∨ st = 6 ∨ st = 7 ∨ st = 8 ∨ st = 9 := by
    simpa [kdumpCodes] using h
  rcases this with h | h | h | h | h | h | h | h | h | h <;> subst h <;> decide

/-- a documented addrxlat status becomes a documented libkdumpfile status -/
theorem addrxlat2kdump_documented (st : Int) (h : st ∈ addrxlatCodes) : addrxlat2kdump st ∈ kdumpCodes := by
  have : st = 0 ∨ st = 1 ∨ st = 2 ∨ st = 3 ∨ st = 4 ∨ st = 5 ∨ st = 6 := by simpa [addrxlatCodes] using h
  rcases this with h | h | h | h | h | h | h <;> subst h <;> decide

/-- the internal no-probe marker never escapes from opening a file -/
theorem probe_never_noprobe (ps : List Probe) : openDump ps ≠ noprobe := by
  induction ps with
  | nil => decide
  | cons p rest ih =>
    cases p with
    | ok => simp only [openDump]; decide
    | noprobe => simpa [openDump] using ih
    | err st =>
      simp only [openDump]
      split
      · exact ih
      · assumption

/-! ### Non-vacuity -/
example : text (vadd (vadd (init 16) [105, 110, 110, 101, 114] true) [111, 117, 116] true)
    = [111, 117, 116, 58, 32, 105, 110, 110, 101, 114] := by decide
example : text (vadd (vadd (init 8) [97, 98, 99, 100, 101] true) [120, 121, 122] false)
    = [60, 32, 97, 98, 99, 100, 101] := by decide

/-! ## The message discipline above the buffer (`Kdf.Model.ErrFlow`) -/
section Flow
open Kdf.Model.ErrFlow

/-- what the property asks of a call that was entered with an empty error string:
the string is empty exactly when the status is OK -/
def Disciplined (r : Res) : Prop := r.1 = 0 ↔ r.2 = []

theorem setError_disciplined (c : Chain) (st : Int) (m : String) (h : st = 0 → c = []) :
    Disciplined (setError c st m) := by
  unfold Disciplined setError
  by_cases hs : st = 0
  · simp [hs, h hs]
  · simp [hs]

theorem part_disciplined (p : Part) (h : p.wf) : Disciplined (p.apply []) := by
  unfold Disciplined Part.apply
  obtain ⟨h0, h1⟩ := h
  by_cases hs : p.st = 0
  · simp [hs, h0 hs]
  · simp [hs, h1 hs]

/-- `direct_read_ok` is a tolerated failure: it never adds text to the error
string; when the read fails the string is empty afterwards. -/
theorem directReadOk_tolerates (caps : Bool) (rd : Part) (hw : rd.wf) (c : Chain) :
    (directReadOk caps rd c).2 = c ∨ ((directReadOk caps rd c).1 = false ∧ (directReadOk caps rd c).2 = []) := by
  unfold directReadOk Part.apply clearError
  obtain ⟨h0, _⟩ := hw
  cases caps <;> by_cases hs : rd.st = 0 <;> simp [hs, h0]

/-- entered with an empty string (as from every caller right after a successful
step), it leaves the string as it was before the call: empty -/
theorem directReadOk_empty (caps : Bool) (rd : Part) (hw : rd.wf) : (directReadOk caps rd []).2 = [] := by
  rcases directReadOk_tolerates caps rd hw [] with h | h
  · exact h
  · exact h.2

/-- The stories `get_linux_pgtroot` (aarch64, riscv64) can tell, entered with an
empty string: success with an empty string, the failed symbol look-up, or the
failed number look-up — never the text of the tolerated direct read. -/
theorem pgtroot_story (numName : String) (swapper rd num : Part) (caps : Bool)
    (hs : swapper.wf) (hr : rd.wf) (hn : num.wf) :
    let r := getLinuxPgtroot numName swapper caps rd num []
    r = (0, []) ∨
    (swapper.st ≠ 0 ∧ r = (swapper.st, ["Cannot determine page table virtual address",
        "Cannot resolve \"swapper_pg_dir\""] ++ swapper.links)) ∨
    (num.st ≠ 0 ∧ r = (num.st, ["Cannot determine " ++ numName,
        "Cannot get number(" ++ numName ++ ")"] ++ num.links)) := by
  intro r
  show _ ∨ _ ∨ _
  simp only [r]
  unfold getLinuxPgtroot getSymval getNumber directReadOk setError Part.apply clearError
  obtain ⟨hs0, _⟩ := hs
  obtain ⟨hr0, _⟩ := hr
  obtain ⟨hn0, _⟩ := hn
  by_cases h1 : swapper.st = 0
  · by_cases h2 : rd.st = 0 <;> by_cases h3 : num.st = 0 <;> cases caps <;> simp [h1, h2, h3, hs0, hr0, hn0]
  · simp [h1]

theorem pgtroot_disciplined (numName : String) (swapper rd num : Part) (caps : Bool)
    (hs : swapper.wf) (hr : rd.wf) (hn : num.wf) :
    Disciplined (getLinuxPgtroot numName swapper caps rd num []) := by
  rcases pgtroot_story numName swapper rd num caps hs hr hn with h | ⟨h1, h⟩ | ⟨h1, h⟩
  · rw [h]; simp [Disciplined]
  · rw [h]; simp [Disciplined, h1]
  · rw [h]; simp [Disciplined, h1]

/-- `map_linux_aarch64` / `map_linux_riscv64` as a whole: a successful set-up ends
with an empty string whatever the optional linear-map search did, a failing one
with a non-empty string. -/
theorem mapLinuxPgtroot_disciplined (rootOpt : Bool) (numName : String) (swapper rd num physmaps linear : Part)
    (caps : Bool) (hs : swapper.wf) (hr : rd.wf) (hn : num.wf) (hp : physmaps.wf) :
    Disciplined (mapLinuxPgtroot rootOpt numName swapper caps rd num physmaps linear []) := by
  have hroot := pgtroot_disciplined numName swapper rd num caps hs hr hn
  unfold mapLinuxPgtroot
  cases rootOpt
  · simp only [Bool.false_eq_true, ↓reduceIte]
    by_cases h : (getLinuxPgtroot numName swapper caps rd num []).1 = 0
    · have he : (getLinuxPgtroot numName swapper caps rd num []).2 = [] := hroot.mp h
      simp only [h, he, ne_eq, not_true_eq_false, ↓reduceIte]
      have := part_disciplined physmaps hp
      by_cases h2 : (physmaps.apply []).1 = 0
      · simp [h2, Disciplined, clearError]
      · simp only [h2, not_false_eq_true, ↓reduceIte]; exact this
    · simp only [ne_eq, h, not_false_eq_true, ↓reduceIte]; exact hroot
  · simp only [↓reduceIte, ne_eq, not_true_eq_false]
    have := part_disciplined physmaps hp
    by_cases h2 : (physmaps.apply []).1 = 0
    · simp [h2, Disciplined, clearError]
    · simp only [h2, not_false_eq_true, ↓reduceIte]; exact this

/-- `map_linux_arm`, entered with an empty string: a successful set-up ends with
an empty string — whether or not `_stext` could be resolved, whether or not the
root page table could be read directly, whatever `set_linux_direct` did — and a
failing one with a non-empty string. -/
theorem mapLinuxArm_disciplined (rootKnown capsOk physBase : Bool) (swapper stext rd mapDirect linDirect : Part)
    (hs : swapper.wf) (hx : stext.wf) (hr : rd.wf) (hm : mapDirect.wf) (hl : linDirect.wf) :
    Disciplined (mapLinuxArm rootKnown swapper stext capsOk rd physBase mapDirect linDirect []) := by
  unfold mapLinuxArm getSymval directReadOk setError Part.apply clearError Disciplined
  obtain ⟨hs0, hs1⟩ := hs
  obtain ⟨hx0, hx1⟩ := hx
  obtain ⟨hr0, hr1⟩ := hr
  obtain ⟨hm0, hm1⟩ := hm
  obtain ⟨hl0, hl1⟩ := hl
  by_cases h1 : swapper.st = 0 <;> by_cases h2 : stext.st = 0 <;> by_cases h3 : rd.st = 0 <;>
    by_cases h4 : mapDirect.st = 0 <;> by_cases h5 : linDirect.st = 0 <;>
    cases rootKnown <;> cases capsOk <;> cases physBase <;>
    simp [h1, h2, h3, h4, h5, hs0, hx0, hr0, hm0, hl0, hm1]

/-- … and its failing chain tells one story: every link is a message of the
set-up itself or comes from the failed look-up / allocation it reports — never
from the tolerated direct read of the root page table or from the optional
linear mapping. -/
theorem mapLinuxArm_story (rootKnown capsOk physBase : Bool) (swapper stext rd mapDirect linDirect : Part)
    (hs : swapper.wf) (hx : stext.wf) (hr : rd.wf) (hm : mapDirect.wf) (hl : linDirect.wf) :
    ∀ l ∈ (mapLinuxArm rootKnown swapper stext capsOk rd physBase mapDirect linDirect []).2,
      l ∈ ["Cannot determine page table virtual address", "Cannot resolve \"swapper_pg_dir\"",
           "Cannot determine PAGE_BASE", "Cannot resolve \"_stext\""] ∨
      l ∈ swapper.links ∨ l ∈ stext.links ∨ l ∈ mapDirect.links := by
  unfold mapLinuxArm getSymval directReadOk setError Part.apply clearError
  obtain ⟨hs0, hs1⟩ := hs
  obtain ⟨hx0, hx1⟩ := hx
  obtain ⟨hr0, hr1⟩ := hr
  obtain ⟨hm0, hm1⟩ := hm
  obtain ⟨hl0, hl1⟩ := hl
  intro l
  by_cases h1 : swapper.st = 0 <;> by_cases h2 : stext.st = 0 <;> by_cases h3 : rd.st = 0 <;>
    by_cases h4 : mapDirect.st = 0 <;> by_cases h5 : linDirect.st = 0 <;>
    cases rootKnown <;> cases capsOk <;> cases physBase <;>
    simp (config := { contextual := true }) [or_imp, h1, h2, h3, h4, h5, hs0, hx0, hr0, hm0, hl0]

theorem nodata_ne_ok : ((0 : Int) = kdumpNODATA) = False := by decide

/-- `update_xen_extra_ver`, entered with an empty string -/
theorem xenver_disciplined (attrSet : Bool) (reval rd setAttr : Part)
    (hv : reval.wf) (hr : rd.wf) (hs : setAttr.wf) :
    Disciplined (updateXenExtraVer attrSet reval rd setAttr []) := by
  unfold updateXenExtraVer setError Part.apply clearError Disciplined
  obtain ⟨hv0, hv1⟩ := hv
  obtain ⟨hr0, hr1⟩ := hr
  obtain ⟨hs0, hs1⟩ := hs
  cases attrSet
  · simp
  · by_cases h1 : reval.st = 0
    · by_cases h2 : rd.st = kdumpNODATA
      · simp [h1, h2]
      · by_cases h3 : rd.st = 0
        · by_cases h4 : setAttr.st = 0
          · simp [h1, h3, h4, hv0, hr0, hs0, nodata_ne_ok]
          · simp [h1, h3, h4, hv0, hr0, nodata_ne_ok]
        · simp [h1, h2, h3, hv0]
    · simp [h1]

/-- missing data is tolerated there: the call succeeds and the string is as it
was before the call (empty), whatever the failed read had put into it -/
theorem xenver_tolerates (reval rd setAttr : Part) (h0 : reval.st = 0) (h : rd.st = kdumpNODATA) :
    updateXenExtraVer true reval rd setAttr [] = (0, []) := by
  unfold updateXenExtraVer setError Part.apply clearError
  simp [h0, h]

/-- register reads and writes below `kdump_get_attr` / `kdump_set_attr` -/
theorem derived_disciplined (b : Blob) (key : String) (c : Chain) :
    Disciplined (getDerived b key c) ∧ Disciplined (setDerived b key c) := by
  cases b <;> simp [Disciplined, getDerived, setDerived, derivedAccess, getAttrBlob, setError, clearError, kdumpNODATA, kdumpCORRUPT,
    Kdf.Gen.Status.kdumpCodes]

/-- a failing access names its cause: the innermost link says which blob is missing -/
theorem derived_names_cause (b : Blob) (key : String) (c : Chain) (h : b = .cleared ∨ b = .absent) :
    setDerived b key c = (kdumpNODATA, [key ++ " raw attribute not found"]) ∧
    getDerived b key c = (kdumpNODATA, ["Value cannot be revalidated", key ++ " raw attribute not found"]) := by
  rcases h with h | h <;> subst h <;>
    simp [getDerived, setDerived, derivedAccess, getAttrBlob, setError, clearError, kdumpNODATA, Kdf.Gen.Status.kdumpCodes]


/-- VMCOREINFO look-ups by name: success leaves no message, every miss leaves one -/
theorem vmcoreinfoLookup_disciplined (sym : Bool) (l : VLook) (os : String) (c : Chain) :
    Disciplined (vmcoreinfoLookup sym l os c) := by
  cases l <;> cases sym <;> simp [Disciplined, vmcoreinfoLookup, ostypeAttr, setError, clearError, kdumpNODATA, Kdf.Gen.Status.kdumpCodes]

/-- a name that starts with a dot is a miss like any other: same status, same story -/
theorem vmcoreinfoLookup_dot_is_miss (sym : Bool) (os : String) (c : Chain) :
    vmcoreinfoLookup sym .dot os c = vmcoreinfoLookup sym .miss os c := by
  simp [vmcoreinfoLookup, ostypeAttr]

/-- every failing look-up answers NODATA with exactly one link -/
theorem vmcoreinfoLookup_fail_one_link (sym : Bool) (l : VLook) (os : String) (c : Chain) (h : l ≠ .found) :
    (vmcoreinfoLookup sym l os c).1 = kdumpNODATA ∧ (vmcoreinfoLookup sym l os c).2.length = 1 := by
  cases l <;> cases sym <;> simp_all [vmcoreinfoLookup, ostypeAttr, setError, clearError, kdumpNODATA, Kdf.Gen.Status.kdumpCodes]

/-! ### Non-vacuity: concrete runs of the modelled functions -/
example : mapLinuxArm false ⟨0, []⟩ ⟨5, ["no sym _stext"]⟩ true ⟨2, ["page not available"]⟩ true Part.ok Part.ok []
    = (5, ["Cannot determine PAGE_BASE"]) := by decide
example : mapLinuxArm true ⟨0, []⟩ ⟨5, ["no sym _stext"]⟩ true Part.ok false Part.ok Part.ok [] = (0, []) := by decide
example : getLinuxPgtroot "kimage_voffset" ⟨0, []⟩ true ⟨2, ["page not available"]⟩ ⟨5, ["no num kimage_voffset"]⟩ []
    = (5, ["Cannot determine kimage_voffset", "Cannot get number(kimage_voffset)", "no num kimage_voffset"]) := by decide
example : updateXenExtraVer true Part.ok ⟨7, ["Cannot read page data at 8192"]⟩ Part.ok []
    = (7, ["Cannot read Xen extra version", "Cannot read page data at 8192"]) := by decide
example : (⟨2, ["page not available"]⟩ : Part).wf := by simp [Part.wf]

end Flow

section Alloc
open Kdf.Model.ErrFlow

/-- `ctx_malloc` keeps its contract for EVERY size (no size is refused silently): a failure leaves a message, and the
newest link names the object and the size that was asked for -/
theorem ctxMalloc_disciplined (size : Nat) (desc errnoText : String) (got : Bool) :
    Disciplined (ctxMalloc size desc got errnoText []) := by
  cases got <;> simp [Disciplined, ctxMalloc, setErrorSystem, kdumpSYSTEM, Kdf.Gen.Status.kdumpCodes]

theorem ctxMalloc_fail_message (size : Nat) (desc errnoText : String) (c : Chain) :
    (ctxMalloc size desc false errnoText c).1 = kdumpSYSTEM ∧ (ctxMalloc size desc false errnoText c).1 ≠ 0 ∧
    (ctxMalloc size desc false errnoText c).2.head? = some ("Cannot allocate " ++ desc ++ " (" ++ toString size ++ " bytes)") := by
  unfold ctxMalloc setErrorSystem
  refine ⟨by simp, by simp [kdumpSYSTEM, Kdf.Gen.Status.kdumpCodes], ?_⟩
  by_cases h : c = [] <;> simp [h]

/-- a successful allocation does not touch the error string -/
theorem ctxMalloc_ok_silent (size : Nat) (desc errnoText : String) (c : Chain) :
    ctxMalloc size desc true errnoText c = (0, c) := by simp [ctxMalloc]

/-- setting the OS type on an s390x dump whose os_info claims a VMCOREINFO of `size` bytes: for every size, when the
allocation fails the call fails with a non-empty chain that names the buffer and the size; otherwise the outcome is
that of the rest of the hook -/
theorem s390OsInfoAlloc_story (size : Nat) (errnoText : String) (rest : Part) (c : Chain) :
    s390OsInfoAlloc size false errnoText rest c =
      (kdumpSYSTEM, ["Cannot allocate VMCOREINFO buffer (" ++ toString size ++ " bytes)", errnoText]) ∧
    s390OsInfoAlloc size true errnoText rest c = rest.apply [] := by
  constructor
  · simp [s390OsInfoAlloc, ctxMalloc, setErrorSystem, clearError, kdumpSYSTEM, Kdf.Gen.Status.kdumpCodes]
  · simp [s390OsInfoAlloc, ctxMalloc, clearError]

theorem s390OsInfoAlloc_disciplined (size : Nat) (got : Bool) (errnoText : String) (rest : Part) (h : rest.wf) (c : Chain) :
    Disciplined (s390OsInfoAlloc size got errnoText rest c) := by
  cases got
  · rw [(s390OsInfoAlloc_story size errnoText rest c).1]
    simp [Disciplined, kdumpSYSTEM, Kdf.Gen.Status.kdumpCodes]
  · rw [(s390OsInfoAlloc_story size errnoText rest c).2]
    exact part_disciplined rest h

example : s390OsInfoAlloc (2 ^ 63) false "Cannot allocate memory" Part.ok ["stale"]
    = (1, ["Cannot allocate VMCOREINFO buffer (9223372036854775808 bytes)", "Cannot allocate memory"]) := by decide

end Alloc

end Kdf.Props.C16
