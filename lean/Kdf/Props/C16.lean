import Kdf.Model.Err
import Kdf.Model.Status
import Kdf.Lemmas.Err
import Kdf.Lemmas.ErrVadd
/-!
# C16 — failures carry a documented status and a message that tells the story

Property theorems only: the error-string buffer arithmetic of `err_vadd`
(chain, in-bounds, NUL termination, marked truncation that keeps the oldest
text), the status conversions, and the probe loop of `open_dump`.
-/
namespace Kdf.Props.C16
open Kdf.Model.Err Kdf.Lemmas.Err

/-- A fresh buffer is well-formed and holds no message. -/
theorem init_inv (n : Nat) (h : 2 ≤ n) : Inv (init n) ∧ text (init n) = [] := init_inv_aux n h

theorem clear_inv (e : ErrBuf) (h : Inv e) : Inv (clear e) ∧ text (clear e) = [] := clear_inv_aux e h

/-- When the allocation succeeds (or is not needed) the new string is the chain
`msg ++ ": " ++ old`, newest first; the object stays well-formed: NUL-terminated,
nothing written outside the inline buffer or the current heap block. -/
theorem vadd_chain (e : ErrBuf) (h : Inv e) (msg : List Byte) (hm : MsgWF msg) :
    Inv (vadd e msg true) ∧ text (vadd e msg true) = chain msg (text e) := vadd_chain_aux e h msg hm

/-- If the new message and the delimiter fit in front of the current string, no
allocation is attempted: the outcome does not depend on the allocator and the
heap block is untouched. -/
theorem vadd_fits_no_alloc (e : ErrBuf) (h : Inv e) (msg : List Byte) (hm : MsgWF msg)
    (hfit : msg.length + (if text e = [] then 0 else 2) ≤ room e) :
    vadd e msg false = vadd e msg true ∧ (vadd e msg false).dyn = e.dyn := vadd_fits_aux e h msg hm hfit

/-- When memory for a long chain cannot be obtained the string degrades to a
marked truncation: the object stays well-formed (in bounds, NUL-terminated), the
result starts with `<`, and the oldest text is preserved intact as a suffix
(all of it if at least one byte was free, all but its first character, which
the mark overwrites, otherwise). -/
theorem vadd_trunc (e : ErrBuf) (h : Inv e) (msg : List Byte) (hm : MsgWF msg)
    (hnofit : room e < msg.length + (if text e = [] then 0 else 2)) :
    let e' := vadd e msg false
    Inv e' ∧ (text e').head? = some 60 ∧
    (if room e = 0 then (text e).drop 1 <:+ text e' else text e <:+ text e') ∧
    (text e').length ≤ max (e.bufsz - 1) ((text e).length + 1) := vadd_trunc_aux e h msg hm hnofit

/-- Never an access outside the inline buffer, the heap block or the local
buffer — for every message length relative to `bufsz` and both allocation outcomes. -/
theorem vadd_inbounds (e : ErrBuf) (h : Inv e) (msg : List Byte) (hm : MsgWF msg) (a : Bool) :
    (vadd e msg a).oob = false := (vadd_inv_aux e h msg hm a).no_oob

/-- All of the above lifted over arbitrary histories of prepends (any lengths,
any allocation outcomes) and clears. -/
theorem history_inv (n : Nat) (hn : 2 ≤ n) (ops : List Op) (hw : ∀ o ∈ ops, o.wf) :
    Inv (ops.foldl step (init n)) := foldl_step_inv ops (init n) (init_inv n hn).1 hw

/-- With a working allocator the string is always the chain of the messages
added since the last clear, newest first, separated by ": ". -/
theorem history_chain (n : Nat) (hn : 2 ≤ n) (msgs : List (List Byte)) (hw : ∀ m ∈ msgs, MsgWF m) :
    text ((msgs.map (fun m => Op.add m true)).foldl step (init n)) =
      msgs.foldl (fun acc m => chain m acc) [] := by
  rw [foldl_chain msgs (init n) (init_inv n hn).1 hw, (init_inv n hn).2]

/-! ### Status conversions and the probe loop -/
open Kdf.Model.Status Kdf.Gen.Status

/-- the two enumerations are what the headers document: consecutive codes from 0 -/
theorem codes_documented : kdumpCodes = [0, 1, 2, 3, 4, 5, 6, 7, 8, 9] ∧ addrxlatCodes = [0, 1, 2, 3, 4, 5, 6] ∧
    noprobe ∉ kdumpCodes := by decide

/-- converting a documented libkdumpfile status to addrxlat and back is the identity -/
theorem status_roundtrip (st : Int) (h : st ∈ kdumpCodes) : addrxlat2kdump (kdump2addrxlat st) = st := by
  have : st = 0 ∨ st = 1 ∨ st = 2 ∨ st = 3 ∨ st = 4 ∨ st = 5 ∨ st = 6 ∨ st = 7 ∨ st = 8 ∨ st = 9 := by
    simpa [kdumpCodes] using h
  rcases this with h | h | h | h | h | h | h | h | h | h <;> subst h <;> decide

/-- a documented addrxlat status becomes a documented libkdumpfile status -/
theorem addrxlat2kdump_documented (st : Int) (h : st ∈ addrxlatCodes) : addrxlat2kdump st ∈ kdumpCodes := by
  have : st = 0 ∨ st = 1 ∨ st = 2 ∨ st = 3 ∨ st = 4 ∨ st = 5 ∨ st = 6 := by simpa [addrxlatCodes] using h
  rcases this with h | h | h | h | h | h | h <;> subst h <;> decide

/-- the internal no-probe marker never escapes from opening a file -/
theorem probe_never_noprobe (ps : List Probe) : openDump ps ≠ noprobe := by
  induction ps with
  | nil => decide
  | cons p rest ih =>
    cases p with
    | ok => simp only [openDump]; decide
    | noprobe => simpa [openDump] using ih
    | err st =>
      simp only [openDump]
      split
      · exact ih
      · assumption

/-! ### Non-vacuity -/
example : text (vadd (vadd (init 16) [105, 110, 110, 101, 114] true) [111, 117, 116] true)
    = [111, 117, 116, 58, 32, 105, 110, 110, 101, 114] := by decide
example : text (vadd (vadd (init 8) [97, 98, 99, 100, 101] true) [120, 121, 122] false)
    = [60, 32, 97, 98, 99, 100, 101] := by decide

end Kdf.Props.C16
