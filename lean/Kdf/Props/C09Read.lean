import Kdf.Model.RCache
import Kdf.Lemmas.RCache
import Kdf.Model.Sys
import Kdf.Spec.ArchWalk
/-!
# C09, second part — reads through a re-entrant get-page callback terminate and
give back what they took; custom methods end where their callback says

`Kdf.Model.RCache.getBuf` transcribes the repaired `get_cache_buf`: a slot is marked
while its get-page callback runs, a nested fetch recycles the least recently used slot
that is **not** marked, and fails with NODATA when every slot is.  For **every**
callback of the modelled family (any `pre`, any outcome function), every cache state
and address (invariant `Kdf.Lemmas.RCache.getBuf_good`, induction on the recursion
budget):

* `read_nesting_bounded` / `read_not_stuck` — callbacks never nest deeper than the number of
  slots that are not being filled (at most `READ_CACHE_SLOTS` for a read from outside), and
  that is what ends the recursion: the model's budget is never what stops it;
* `filling_slot_never_chosen`, `filling_slot_untouched`, `filling_marks_restored` — a slot
  whose fetch is in progress is not recycled and not modified by any nested read, and every
  call clears exactly the mark it set;
* `read_gives_back` — the ledger: buffers delivered by the callbacks + buffers the cache
  held before = `put_page` calls + buffers the cache holds afterwards (nothing is lost; the
  rest is given back by `cleanup_cache`);
* `read_hit_no_callback`, `read_self_fetch_detected` — a hit starts no callback; the library's
  "Infinite read recursion" guard answers NODATA after exactly one callback when the object
  the callback needs lies in the old window of the slot being filled.
-/
namespace Kdf.Props.C09
open Kdf.Model.Pgt Kdf.Model.RCache Kdf.Lemmas.RCache

/-- Callbacks started by one `get_cache_buf` never nest deeper (and, in this callback family,
are never more) than the number of slots that are not being filled — whatever the callback reads
before it delivers a page, whatever the cache holds, whatever the recursion budget of the model. -/
theorem read_nesting_bounded (cb : Cb) (fuel : Nat) (c : RCache) (a : FullAddr) :
    (getBuf cb fuel c a).depth ≤ free c ∧ (getBuf cb fuel c a).calls ≤ free c ∧ free c ≤ c.slots.length :=
  ⟨(getBuf_good cb fuel c a).depth, (getBuf_good cb fuel c a).calls, free_le_length c⟩

/-- The recursion budget of the model is not what ends a read: with a budget of at least the
number of slots not being filled the out-of-budget arm is never taken (the C code has no
counter; it stops because the slot choice fails).  In particular for `read`. -/
theorem read_not_stuck (cb : Cb) (fuel : Nat) (c : RCache) (a : FullAddr) (h : free c ≤ fuel) :
    (getBuf cb fuel c a).stuck = false ∧ (read cb c a).stuck = false :=
  ⟨(getBuf_good cb fuel c a).stuck h, (getBuf_good cb _ c a).stuck (free_le_length c)⟩

/-- A read from outside on the four-slot cache: at most `READ_CACHE_SLOTS` nested callbacks. -/
theorem read_nesting_le_slots (cb : Cb) (c : RCache) (a : FullAddr) (h : c.slots.length = READ_CACHE_SLOTS) :
    (read cb c a).depth ≤ READ_CACHE_SLOTS := by
  have := read_nesting_bounded cb c.slots.length c a
  unfold Kdf.Model.RCache.read; omega

/-- The slot chosen for a fetch exists and is not being filled. -/
theorem filling_slot_never_chosen (c : RCache) (i : Nat) (h : pick c = some i) :
    i < c.slots.length ∧ (slotAt c i).filling = false := pick_usable h

/-- A slot that is being filled (by a callback further up the call chain) comes out of any
nested `get_cache_buf` exactly as it went in: address, size, data pointer and mark. -/
theorem filling_slot_untouched (cb : Cb) (fuel : Nat) (c : RCache) (a : FullAddr) (k : Nat)
    (h : (slotAt c k).filling = true) : slotAt (getBuf cb fuel c a).cache k = slotAt c k :=
  (getBuf_good cb fuel c a).frame k h

/-- Every call clears exactly the mark it set: afterwards the same slots are marked as before
(none, after a read from outside). -/
theorem filling_marks_restored (cb : Cb) (fuel : Nat) (c : RCache) (a : FullAddr) (k : Nat) :
    (slotAt (getBuf cb fuel c a).cache k).filling = (slotAt c k).filling :=
  (getBuf_good cb fuel c a).flags k

/-- Give-back.  Every buffer a callback delivered during the call is either still in a slot
afterwards or `put_page` was called for it: delivered + held before = put + held after.
(`held` counts the slots with `size != 0` that are not being refilled; `cleanup_cache` puts
exactly those when the context goes away.) -/
theorem read_gives_back (cb : Cb) (fuel : Nat) (c : RCache) (a : FullAddr) :
    (getBuf cb fuel c a).got + held c = (getBuf cb fuel c a).put + held (getBuf cb fuel c a).cache :=
  (getBuf_good cb fuel c a).ledger

/-- A read of an address some slot covers with data starts no callback: the slot is
returned and becomes the most recently used one. -/
theorem read_hit_no_callback (cb : Cb) (fuel : Nat) (c : RCache) (a : FullAddr) (i : Nat)
    (h : c.slots.findIdx? (·.covers a) = some i) (hp : (slotAt c i).ptr = true) :
    getBuf cb fuel c a = ⟨.ok i, touch c i, 0, 0, 0, 0, false⟩ := by
  cases fuel <;> (unfold getBuf; simp only [h, finish, hp, if_true])

theorem findIdx_set {α} (p : α → Bool) (l : List α) (i : Nat) (x : α) (hi : i < l.length)
    (hx : p x = true) (hn : ∀ y ∈ l, p y = false) : (l.set i x).findIdx? p = some i := by
  induction l generalizing i with
  | nil => simp at hi
  | cons y ys ih =>
    cases i with
    | zero => simp [List.findIdx?_cons, hx]
    | succ j =>
      have hy : p y = false := hn y List.mem_cons_self
      have := ih j (by simpa using hi) (fun z hz => hn z (List.mem_cons_of_mem _ hz))
      simp [List.findIdx?_cons, hy, this]

/-- The library's guard.  The callback, asked for the page of `a` (which no slot covers), first
reads an object `e` that no slot covers either.  If the slot `i` chosen for `a` held a page before
and `e` lies in the window of that page's size behind `a` (same address space) — e.g. `e` is in
the page of `a`, at or behind it — the nested read finds the slot being filled and fails with
NODATA without starting another callback, and so does the fetch: one callback, nesting 1. -/
theorem read_self_fetch_detected (cb : Cb) (fuel : Nat) (c : RCache) (a e : FullAddr) (i : Nat)
    (hmiss : c.slots.findIdx? (·.covers a) = none) (hpick : pick c = some i)
    (hpre : cb.pre a = some e) (hcaps : capsHas cb.readCaps e.as = true)
    (hnone : ∀ s ∈ c.slots, s.covers e = false)
    (hwin : (e.addr + W - a.addr) % W < (slotAt c i).size) (has : a.as = e.as) :
    (getBuf cb (fuel+1) c a).res = .error .nodata ∧ (getBuf cb (fuel+1) c a).calls = 1 ∧
    (getBuf cb (fuel+1) c a).depth = 1 := by
  have hlt := (pick_usable hpick).1
  have hfind : (beginFill c i a).slots.findIdx? (·.covers e) = some i := by
    unfold beginFill setSlot
    apply findIdx_set _ _ _ _ hlt
    · simp [Slot.covers, hwin, has]
    · exact hnone
  have hptr : (slotAt (beginFill c i a) i).ptr = false := by
    simp [slotAt, beginFill, setSlot, List.getD, hlt]
  have hin : getBuf cb fuel (beginFill c i a) e = ⟨.error .nodata, beginFill c i a, 0, 0, 0, 0, false⟩ := by
    cases fuel <;> (unfold getBuf; simp only [hfind, finish, hptr]; rfl)
  unfold getBuf
  simp [hmiss, hpick, preRead, hpre, hcaps, hin, deliver, failed]

/-! ## non-vacuity: the situations of the defect reports -/

/-- every page exists; the callback reads the frame-table entry of the page first:
the table starts at `base` in KPHYS, 8 bytes per page, pages below 8 are known -/
def p2mAt (base : Nat) : Cb :=
  ⟨1, fun a => if a.addr / PAGE < 8 then none else some ⟨base + a.addr / PAGE * 8, 0⟩, fun _ => .data⟩
def p2mCb : Cb := p2mAt 0x10000

/-- four earlier reads filled all slots -/
def warm : RCache :=
  (read p2mCb (read p2mCb (read p2mCb (read p2mCb init ⟨0x0, 0⟩).cache ⟨0x1000, 0⟩).cache ⟨0x2000, 0⟩).cache ⟨0x3000, 0⟩).cache

example : warm.order = [0, 1, 2, 3] ∧ (warm.slots.map (·.size)) = [4096, 4096, 4096, 4096] ∧ held warm = 4 := by decide

/-- page 0x10 holds its own table entry (0x10080).  Warm: the guard fires at once. -/
example : ((read p2mCb warm ⟨0x10048, 0⟩).status, (read p2mCb warm ⟨0x10048, 0⟩).calls, (read p2mCb warm ⟨0x10048, 0⟩).depth)
    = (.nodata, 1, 1) := by decide
/-- the hypotheses of `read_self_fetch_detected` hold in that state -/
example : warm.slots.findIdx? (·.covers ⟨0x10048, 0⟩) = none ∧ pick warm = some 3 ∧
    p2mCb.pre ⟨0x10048, 0⟩ = some ⟨0x10080, 0⟩ ∧ (∀ s ∈ warm.slots, s.covers ⟨0x10080, 0⟩ = false) ∧
    (0x10080 + W - 0x10048) % W < (slotAt warm 3).size := by decide
/-- Cold: the slot being filled has size 0 and matches nothing; each level marks one more slot,
the fifth fetch finds none: NODATA after four callbacks, all marks cleared, nothing held. -/
example : ((read p2mCb init ⟨0x10048, 0⟩).status, (read p2mCb init ⟨0x10048, 0⟩).calls, (read p2mCb init ⟨0x10048, 0⟩).depth,
    (read p2mCb init ⟨0x10048, 0⟩).cache.slots.map (·.filling), held (read p2mCb init ⟨0x10048, 0⟩).cache)
    = (.nodata, 4, 4, [false, false, false, false], 0) := by decide
/-- The situation of the give-back defect: the table entry of page 0x20 lives in the readable
page 4.  The nested fetch takes slot 2 (slot 3 is being filled), both pages are cached afterwards
(before the repair the nested fetch recycled slot 3 and page 4's buffer was lost). -/
example : ((read (p2mAt 0x4000) init ⟨0x20000, 0⟩).res.toOption, (read (p2mAt 0x4000) init ⟨0x20000, 0⟩).calls,
    (read (p2mAt 0x4000) init ⟨0x20000, 0⟩).got, (read (p2mAt 0x4000) init ⟨0x20000, 0⟩).put,
    held (read (p2mAt 0x4000) init ⟨0x20000, 0⟩).cache, (read (p2mAt 0x4000) init ⟨0x20000, 0⟩).cache.order)
    = (some 3, 2, 2, 0, 2, [3, 2, 0, 1]) := by decide

/-! ## custom methods -/

open Kdf.Model.Sys in
/-- A custom method is its callback: the model's `addrxlat_walk` on a custom method equals the
specification (`Spec.ArchWalk.specXlat`) — where the callback completes the translation in its
first step the result carries the address space the callback chose, not `target_as`. -/
theorem walk_custom_eq_spec (extra : Extra) (mem : Mem) (t mask : Nat) (hit miss : CustomArm) (addr : Nat) :
    (walk extra mem (.custom t mask hit miss) addr).map (·.base) =
      Kdf.Spec.ArchWalk.specXlat mem (.custom t mask hit miss) addr := by
  by_cases h : addr &&& mask = 0 <;> cases hit <;> cases miss <;>
    simp [walk, firstStep, firstStepCustom, Kdf.Spec.ArchWalk.specXlat, h, Except.map, walkLoop, idxAt,
          Meth.targetAs, Nat.add_comm]

open Kdf.Model.Sys in
/-- the system of the seeded change's demonstration: KV → (custom, declared KPHYS; addresses with
bit 12 set are "foreign" and come out as MACHPHYS) and MACHPHYS → KPHYS linear -/
def customSys : Sys :=
  ⟨[none, some [⟨W - 1, 0⟩], none, some [⟨W - 1, 1⟩], none],
   [.custom KPHYS 0x1000 (.finish MACHPHYS 0x800000) (.finish KPHYS 0x40000), .linear KPHYS (W - 0x500000)]
     ++ List.replicate 14 .nometh⟩
open Kdf.Model.Sys in
def customCfg : Cfg := ⟨some customSys, 0, fun _ _ _ => .ok 0⟩

open Kdf.Model.Sys in
/-- a caller that can only use KPHYS gets the foreign page through the second stage … -/
example : opTop customCfg 1 ⟨0x3456, KV⟩ = .call ⟨0x303456, KPHYS⟩ := by decide
open Kdf.Model.Sys in
/-- … and one that can use MACHPHYS gets it directly although the method declares KPHYS -/
example : opTop customCfg 2 ⟨0x3456, KV⟩ = .call ⟨0x803456, MACHPHYS⟩ := by decide
open Kdf.Model.Sys in
example : opTop customCfg 1 ⟨0x2345, KV⟩ = .call ⟨0x42345, KPHYS⟩ := by decide

end Kdf.Props.C09
