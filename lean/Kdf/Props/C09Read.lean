import Kdf.Model.RCache
import Kdf.Model.Sys
import Kdf.Spec.ArchWalk
/-!
# C09, second part — reads through a re-entrant get-page callback terminate;
custom methods end where their callback says

`Kdf.Model.RCache.getBuf` (`get_cache_buf`) is a total function by structural
recursion on the nesting budget the repaired code enforces, for **every**
callback of the modelled family (any `pre`, any outcome function) and every cache
state.  The theorems say what that budget means in terms of observable events:
the number of get-page callbacks started by one read and their nesting are bounded
by the budget (`read_nesting_bounded`), a hit starts none (`read_hit_no_callback`),
and the library's own guard answers NODATA after exactly one callback when the
page being fetched is needed to fetch it and the recycled slot held a page before
(`read_self_fetch_detected`).  The `example`s replay the two situations of the
defect report: the warm slot (guard fires at depth 1) and the cold slot (the guard
cannot fire, the translation ends at the nesting limit).
-/
namespace Kdf.Props.C09
open Kdf.Model.Pgt Kdf.Model.RCache

theorem finish_calls (c : RCache) (i k d : Nat) : (finish c i k d).calls = k := by
  unfold finish; split <;> rfl
theorem finish_depth (c : RCache) (i k d : Nat) : (finish c i k d).depth = d := by
  unfold finish; split <;> rfl

/-- One read starts at most `fuel` get-page callbacks and never nests them deeper
than `fuel` — whatever the callback reads before it delivers a page, whatever the
cache holds.  With `fuel = MAX_READ_NESTING` (a read from outside) this is the
bound the harness measures (`gp=`, `nest=`). -/
theorem read_nesting_bounded (cb : Cb) (fuel : Nat) (c : RCache) (a : FullAddr) :
    (getBuf cb fuel c a).depth ≤ fuel ∧ (getBuf cb fuel c a).calls ≤ fuel := by
  induction fuel generalizing c a with
  | zero =>
    unfold getBuf
    split
    · simp [finish_calls, finish_depth]
    · simp
  | succ n ih =>
    unfold getBuf
    split
    · simp [finish_calls, finish_depth]
    · simp only []
      -- the callback's own read
      have hpre : ∀ (p : Out), (p.depth ≤ n ∧ p.calls ≤ n) →
          ((match p.res with
            | .error st => failed p.cache (lru c) st (p.calls + 1) (p.depth + 1)
            | .ok _ =>
              match cb.res a with
              | .fail st => failed p.cache (lru c) st (p.calls + 1) (p.depth + 1)
              | .data => finish (setSlot p.cache (lru c) ⟨⟨a.addr / PAGE * PAGE, a.as⟩, PAGE, true⟩) (lru c) (p.calls + 1) (p.depth + 1)
              | .noptr => finish (setSlot p.cache (lru c) ⟨⟨a.addr / PAGE * PAGE, a.as⟩, PAGE, false⟩) (lru c) (p.calls + 1) (p.depth + 1)).depth ≤ n + 1 ∧
           (match p.res with
            | .error st => failed p.cache (lru c) st (p.calls + 1) (p.depth + 1)
            | .ok _ =>
              match cb.res a with
              | .fail st => failed p.cache (lru c) st (p.calls + 1) (p.depth + 1)
              | .data => finish (setSlot p.cache (lru c) ⟨⟨a.addr / PAGE * PAGE, a.as⟩, PAGE, true⟩) (lru c) (p.calls + 1) (p.depth + 1)
              | .noptr => finish (setSlot p.cache (lru c) ⟨⟨a.addr / PAGE * PAGE, a.as⟩, PAGE, false⟩) (lru c) (p.calls + 1) (p.depth + 1)).calls ≤ n + 1) := by
        intro p ⟨hd, hc⟩
        cases p.res with
        | error st => simp only [failed]; omega
        | ok v =>
          simp only []
          cases cb.res a with
          | fail st => simp only [failed]; omega
          | data => simp only [finish_calls, finish_depth]; omega
          | noptr => simp only [finish_calls, finish_depth]; omega
      apply hpre
      split
      · simp
      · split
        · exact ih _ _
        · simp

/-- A read of an address some slot covers with data starts no callback: the slot is
returned and becomes the most recently used one. -/
theorem read_hit_no_callback (cb : Cb) (fuel : Nat) (c : RCache) (a : FullAddr) (i : Nat)
    (h : c.slots.findIdx? (·.covers a) = some i) (hp : (slotAt c i).ptr = true) :
    getBuf cb fuel c a = ⟨.ok i, touch c i, 0, 0⟩ := by
  cases fuel <;> (unfold getBuf; simp only [h, finish, hp, if_true])

/-- the guard, stated on the cache state the callback sees -/
theorem read_self_fetch_detected_aux (cb : Cb) (fuel : Nat) (c : RCache) (a e : FullAddr)
    (hmiss : c.slots.findIdx? (·.covers a) = none)
    (hpre : cb.pre a = some e) (hcaps : capsHas cb.readCaps e.as = true)
    (hfind : (setSlot c (lru c) ⟨a, (slotAt c (lru c)).size, false⟩).slots.findIdx? (·.covers e) = some (lru c))
    (hlt : lru c < c.slots.length) :
    (getBuf cb (fuel+1) c a).res = .error .nodata ∧ (getBuf cb (fuel+1) c a).calls = 1 ∧
    (getBuf cb (fuel+1) c a).depth = 1 := by
  have hptr : (slotAt (setSlot c (lru c) ⟨a, (slotAt c (lru c)).size, false⟩) (lru c)).ptr = false := by
    simp [slotAt, setSlot, List.getD, hlt]
  have hin : getBuf cb fuel (setSlot c (lru c) ⟨a, (slotAt c (lru c)).size, false⟩) e =
      ⟨.error .nodata, setSlot c (lru c) ⟨a, (slotAt c (lru c)).size, false⟩, 0, 0⟩ := by
    cases fuel <;> (unfold getBuf; simp only [hfind, finish, hptr]; rfl)
  unfold getBuf
  simp [hmiss, hpre, hcaps, hin, failed]

theorem findIdx_set {α} (p : α → Bool) (l : List α) (i : Nat) (x : α) (hi : i < l.length)
    (hx : p x = true) (hn : ∀ y ∈ l, p y = false) : (l.set i x).findIdx? p = some i := by
  induction l generalizing i with
  | nil => simp at hi
  | cons y ys ih =>
    cases i with
    | zero => simp [List.findIdx?_cons, hx]
    | succ j =>
      have hy : p y = false := hn y List.mem_cons_self
      have := ih j (by simpa using hi) (fun z hz => hn z (List.mem_cons_of_mem _ hz))
      simp [List.findIdx?_cons, hy, this]

/-- The library's guard.  The callback, asked for the page of `a` (which no slot
covers), first reads an object `e` that no slot covers either.  If the slot that is
recycled for `a` held a page before and `e` lies in the window of that page's size
behind `a` (same address space) — e.g. `e` is in the page of `a`, at or behind it —
the nested read finds the slot in progress and fails with NODATA without starting
another callback, and so does the fetch: one callback, nesting 1.  (For an empty
slot the window is empty: that case ends at the nesting limit, see the `example`.) -/
theorem read_self_fetch_detected (cb : Cb) (fuel : Nat) (c : RCache) (a e : FullAddr)
    (hmiss : c.slots.findIdx? (·.covers a) = none)
    (hpre : cb.pre a = some e) (hcaps : capsHas cb.readCaps e.as = true)
    (hnone : ∀ s ∈ c.slots, s.covers e = false)
    (hwin : (e.addr + W - a.addr) % W < (slotAt c (lru c)).size) (has : a.as = e.as)
    (hlt : lru c < c.slots.length) :
    (getBuf cb (fuel+1) c a).res = .error .nodata ∧ (getBuf cb (fuel+1) c a).calls = 1 ∧
    (getBuf cb (fuel+1) c a).depth = 1 := by
  apply read_self_fetch_detected_aux cb fuel c a e hmiss hpre hcaps _ hlt
  unfold setSlot
  apply findIdx_set _ _ _ _ hlt
  · simp [Slot.covers, hwin, has]
  · exact hnone

/-! ## non-vacuity: the two situations of the defect report -/

/-- every page exists; the callback reads the frame-table entry of the page first:
the table starts at 0x10000 in KPHYS, 8 bytes per page, pages below 8 are known -/
def p2mAt (base : Nat) : Cb :=
  ⟨1, fun a => if a.addr / PAGE < 8 then none else some ⟨base + a.addr / PAGE * 8, 0⟩, fun _ => .data⟩
def p2mCb : Cb := p2mAt 0x10000

/-- four earlier reads filled all slots -/
def warm : RCache :=
  (read p2mCb (read p2mCb (read p2mCb (read p2mCb init ⟨0x0, 0⟩).cache ⟨0x1000, 0⟩).cache ⟨0x2000, 0⟩).cache ⟨0x3000, 0⟩).cache

example : warm.order = [0, 1, 2, 3] ∧ (warm.slots.map (·.size)) = [4096, 4096, 4096, 4096] := by decide

/-- page 0x10 holds its own table entry (0x10080).  Warm: the guard fires at once. -/
example : ((read p2mCb warm ⟨0x10048, 0⟩).status, (read p2mCb warm ⟨0x10048, 0⟩).calls, (read p2mCb warm ⟨0x10048, 0⟩).depth)
    = (.nodata, 1, 1) := by decide
/-- the hypotheses of `read_self_fetch_detected` hold in that state -/
example : warm.slots.findIdx? (·.covers ⟨0x10048, 0⟩) = none ∧ p2mCb.pre ⟨0x10048, 0⟩ = some ⟨0x10080, 0⟩ ∧
    (∀ s ∈ warm.slots, s.covers ⟨0x10080, 0⟩ = false) ∧
    (0x10080 + W - 0x10048) % W < (slotAt warm (lru warm)).size ∧ lru warm < warm.slots.length := by decide
/-- Cold: the slot being filled has size 0 and matches nothing, every level starts another
callback for the same page; the translation ends at the nesting limit, with a status. -/
example : ((read p2mCb init ⟨0x10048, 0⟩).status, (read p2mCb init ⟨0x10048, 0⟩).calls, (read p2mCb init ⟨0x10048, 0⟩).depth)
    = (.nodata, 16, 16) := by decide
/-- a page whose table entry lives in another, readable page is delivered; the nested fetch
recycled the slot that was being filled, the outer callback then stored its own page there -/
example : ((read (p2mAt 0x4000) init ⟨0x20000, 0⟩).res.toOption, (read (p2mAt 0x4000) init ⟨0x20000, 0⟩).calls,
    (read (p2mAt 0x4000) init ⟨0x20000, 0⟩).depth, (read (p2mAt 0x4000) init ⟨0x20000, 0⟩).cache.order)
    = (some 3, 2, 2, [3, 0, 1, 2]) := by decide

/-! ## custom methods -/

open Kdf.Model.Sys in
/-- A custom method is its callback: the model's `addrxlat_walk` on a custom method equals the
specification (`Spec.ArchWalk.specXlat`) — where the callback completes the translation in its
first step the result carries the address space the callback chose, not `target_as`. -/
theorem walk_custom_eq_spec (extra : Extra) (mem : Mem) (t mask : Nat) (hit miss : CustomArm) (addr : Nat) :
    (walk extra mem (.custom t mask hit miss) addr).map (·.base) =
      Kdf.Spec.ArchWalk.specXlat mem (.custom t mask hit miss) addr := by
  by_cases h : addr &&& mask = 0 <;> cases hit <;> cases miss <;>
    simp [walk, firstStep, firstStepCustom, Kdf.Spec.ArchWalk.specXlat, h, Except.map, walkLoop, idxAt,
          Meth.targetAs, Nat.add_comm]

open Kdf.Model.Sys in
/-- the system of the seeded change's demonstration: KV → (custom, declared KPHYS; addresses with
bit 12 set are "foreign" and come out as MACHPHYS) and MACHPHYS → KPHYS linear -/
def customSys : Sys :=
  ⟨[none, some [⟨W - 1, 0⟩], none, some [⟨W - 1, 1⟩], none],
   [.custom KPHYS 0x1000 (.finish MACHPHYS 0x800000) (.finish KPHYS 0x40000), .linear KPHYS (W - 0x500000)]
     ++ List.replicate 14 .nometh⟩
open Kdf.Model.Sys in
def customCfg : Cfg := ⟨some customSys, 0, fun _ _ _ => .ok 0⟩

open Kdf.Model.Sys in
/-- a caller that can only use KPHYS gets the foreign page through the second stage … -/
example : opTop customCfg 1 ⟨0x3456, KV⟩ = .call ⟨0x303456, KPHYS⟩ := by decide
open Kdf.Model.Sys in
/-- … and one that can use MACHPHYS gets it directly although the method declares KPHYS -/
example : opTop customCfg 2 ⟨0x3456, KV⟩ = .call ⟨0x803456, MACHPHYS⟩ := by decide
open Kdf.Model.Sys in
example : opTop customCfg 1 ⟨0x2345, KV⟩ = .call ⟨0x42345, KPHYS⟩ := by decide

end Kdf.Props.C09
