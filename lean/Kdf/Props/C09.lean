import Kdf.Model.Sys
import Kdf.Spec.Route
import Kdf.Lemmas.Sys
import Kdf.Lemmas.SysSound
/-!
# C09 — address-space conversion terminates and lands where the caller can use it

Property theorems about `Kdf.Model.Sys.op` (`addrxlat_op`) and `conv`
(`addrxlat_fulladdr_conv`); helper lemmas live in `Kdf/Lemmas/Sys.lean`, the
declarative route in `Kdf/Spec/Route.lean`.

Termination: `op` is a total Lean function defined by structural recursion on
the nesting budget (`MAX_INFLIGHT` minus the number of translations in flight),
which is what the repaired `addrxlat_op` enforces; the inner loops recurse on
the constant chain tables and the page-table walk on `remain`.  So no system,
memory content or source address makes the model diverge.  What the theorems add:
the limit never changes an answer other than by turning it into NOTIMPL
(`op_limit_conservative`), the in-flight entries are pairwise distinct and at
most `MAX_INFLIGHT` (`inflight_distinct`), and the concrete self-translating
memory array of the defect report does run into the limit (`example`s below),
i.e. the exact-match guard alone does not bound the recursion.
-/
namespace Kdf.Props.C09
open Kdf.Model.Pgt Kdf.Model.Sys Kdf.Lemmas.Sys Kdf.Lemmas.SysSound Kdf.Spec.Route

/-! ## pass-through -/

/-- An address already in a usable space is handed to the callback unchanged,
whatever the system, the nesting state and the in-flight list. -/
theorem op_passthrough (c : Cfg) (fuel caps : Nat) (infl : List (FullAddr × Chain)) (a : FullAddr)
    (h : capsHas caps a.as = true) : op c fuel caps infl a = .call a := by
  cases fuel <;> simp [op, pre, h]

/-! ## the callback only sees usable address spaces -/

theorem pre_call {c : Cfg} {caps : Nat} {a fa : FullAddr} (h : pre c caps a = .error (.call fa)) :
    fa = a ∧ capsHas caps a.as = true := by
  unfold pre at h
  split at h
  · rename_i hc; injection h with h; injection h with h; exact ⟨h.symm, hc⟩
  · split at h
    · injection h with h; cases h
    · split at h
      · injection h with h; cases h
      · split at h
        · injection h with h; cases h
        · cases h

theorem tryAlt_call {sys : Sys} {caps : Nat} {wk : WalkFn} {alt : List Nat} {a fa : FullAddr}
    (h : tryAlt sys caps wk alt a = .done (.call fa)) : capsHas caps fa.as = true := by
  induction alt with
  | nil => simp [tryAlt] at h
  | cons mi ms ih =>
    unfold tryAlt at h
    split at h
    · exact ih h
    · split at h
      · cases h
      · exact ih h
      · simp only [] at h
        split at h
        · exact ih h
        · split at h
          · cases h
          · split at h
            · rename_i hc; injection h with h; injection h with h; subst h; exact hc
            · cases h
          · split at h
            · split at h
              · rename_i hc; injection h with h; injection h with h; subst h; exact hc
              · cases h
            · split at h
              · exact ih h
              · cases h

theorem doOp_call {sys : Sys} {caps : Nat} {wk : WalkFn} {alts : List (List Nat)} {a fa : FullAddr}
    (h : doOp sys caps wk alts a = .call fa) : capsHas caps fa.as = true := by
  induction alts generalizing a with
  | nil => simp [doOp] at h
  | cons alt rest ih =>
    unfold doOp at h
    split at h
    · rename_i r hr; subst h; exact tryAlt_call hr
    · exact ih h

/-- Whenever the callback runs, its address lies in one of the address spaces
the caller declared usable (hence is a real address space, never NOADDR). -/
theorem op_target_in_caps (c : Cfg) (fuel caps : Nat) (infl : List (FullAddr × Chain)) (a fa : FullAddr)
    (h : op c fuel caps infl a = .call fa) : capsHas caps fa.as = true ∧ fa.as < 3 := by
  have key : capsHas caps fa.as = true := by
    cases fuel with
    | zero =>
      unfold op at h
      split at h
      · rename_i r hp; subst h; exact (pre_call hp).1 ▸ (pre_call hp).2
      · cases h
    | succ n =>
      unfold op at h
      split at h
      · rename_i r hp; subst h; exact (pre_call hp).1 ▸ (pre_call hp).2
      · split at h
        · cases h
        · exact doOp_call h
  exact ⟨key, capsHas_lt key⟩

/-! ## exactly once -/

/-- The callback is invoked at most once; it is invoked exactly when the result
is the callback's own status; a status produced by the library itself comes
with no invocation. -/
theorem op_calls_once (c : Cfg) (fuel caps : Nat) (infl : List (FullAddr × Chain)) (a : FullAddr) (cbst : XStatus) :
    let r := op c fuel caps infl a
    r.calls.length ≤ 1 ∧
    (r.calls.length = 1 ↔ ∃ fa, r = .call fa) ∧
    (∀ fa, r = .call fa → r.status cbst = some cbst ∧ r.calls = [fa]) ∧
    (∀ e, r = .fail e → r.status cbst = some e ∧ r.calls = []) := by
  intro r
  cases hr : r with
  | call fa => simp [OpRes.calls, OpRes.status]
  | fail e => simp [OpRes.calls, OpRes.status]
  | oob => simp [OpRes.calls]

/-- The library never reports success on its own: status OK comes out of
`addrxlat_op` only as the status of the callback, which then ran exactly once. -/
theorem op_ok_only_by_callback (c : Cfg) (hpm : MemSound c.pm) (fuel caps : Nat)
    (infl : List (FullAddr × Chain)) (a : FullAddr) (cbst : XStatus)
    (h : (op c fuel caps infl a).status cbst = some .ok) :
    cbst = .ok ∧ ∃ fa, op c fuel caps infl a = .call fa ∧ (op c fuel caps infl a).calls = [fa] := by
  cases hr : op c fuel caps infl a with
  | call fa =>
    rw [hr] at h
    simp [OpRes.status] at h
    exact ⟨h, fa, rfl, rfl⟩
  | fail e =>
    rw [hr] at h
    simp [OpRes.status] at h
    subst h
    exact absurd hr (op_sound c hpm fuel caps infl a)
  | oob => rw [hr] at h; simp [OpRes.status] at h

/-! ## no out-of-bounds access for well-formed systems -/

/-- what `addrxlat_sys_new` + `addrxlat_sys_set_map` + `addrxlat_map_set` with valid
method indices build -/
def WF (sys : Sys) : Prop :=
  sys.maps.length = 5 ∧
  ∀ m, some m ∈ sys.maps → ∀ r ∈ m, r.meth = Kdf.Model.Map.NONE ∨ (0 ≤ r.meth ∧ r.meth.toNat < sys.meths.length)

theorem chain_idx_lt (ch : Chain) : ∀ alt ∈ ch.alts, ∀ mi ∈ alt, mi < 5 := by
  cases ch <;> simp [Chain.alts]

theorem tryAlt_no_oob {sys : Sys} (hw : WF sys) (caps : Nat) (wk : WalkFn) (alt : List Nat) (a : FullAddr)
    (hi : ∀ mi ∈ alt, mi < 5) : tryAlt sys caps wk alt a ≠ .done .oob := by
  induction alt with
  | nil => simp [tryAlt]
  | cons mi ms ih =>
    have ih' := ih (fun x hx => hi x (List.mem_cons_of_mem _ hx))
    have hmi : mi < 5 := hi mi List.mem_cons_self
    unfold tryAlt
    split
    · exact ih'
    · split
      · rename_i hn
        have : mi < sys.maps.length := by rw [hw.1]; exact hmi
        simp at hn
        omega
      · exact ih'
      · rename_i m hm
        simp only []
        split
        · exact ih'
        · rename_i hne
          have hmem : some m ∈ sys.maps := List.mem_of_getElem? hm
          rcases mapSearch_mem m a.addr with h0 | ⟨r, hr, he⟩
          · exact absurd h0 hne
          · have hr' := hw.2 m hmem r hr
            rw [he] at hr'
            rcases hr' with h0 | ⟨h1, h2⟩
            · exact absurd h0 hne
            · have hsome : ∃ meth, methAt sys (Kdf.Model.Map.mapSearch m a.addr) = some meth := by
                unfold methAt
                have : ¬ Kdf.Model.Map.mapSearch m a.addr < 0 := by omega
                simp only [this, if_false]
                exact ⟨_, List.getElem?_eq_getElem h2⟩
              obtain ⟨meth, hmeth⟩ := hsome
              rw [hmeth]
              cases meth with
              | linear t off => simp only []; split <;> simp
              | nometh => simp only []; split <;> (try split) <;> (try split) <;> first | exact ih' | simp
              | custom _ _ _ _ => simp only []; split <;> (try split) <;> (try split) <;> first | exact ih' | simp
              | pgt _ _ _ _ => simp only []; split <;> (try split) <;> (try split) <;> first | exact ih' | simp
              | lookup _ _ _ => simp only []; split <;> (try split) <;> (try split) <;> first | exact ih' | simp
              | memarr _ _ _ _ _ => simp only []; split <;> (try split) <;> (try split) <;> first | exact ih' | simp

theorem doOp_no_oob {sys : Sys} (hw : WF sys) (caps : Nat) (wk : WalkFn) (alts : List (List Nat)) (a : FullAddr)
    (hi : ∀ alt ∈ alts, ∀ mi ∈ alt, mi < 5) : doOp sys caps wk alts a ≠ .oob := by
  induction alts generalizing a with
  | nil => simp [doOp]
  | cons alt rest ih =>
    unfold doOp
    split
    · rename_i r hr
      intro h; subst h
      exact tryAlt_no_oob hw caps wk alt a (hi alt List.mem_cons_self) hr
    · exact ih _ (fun x hx => hi x (List.mem_cons_of_mem _ hx))

theorem pre_no_oob {c : Cfg} {caps : Nat} {a : FullAddr} : pre c caps a ≠ .error .oob := by
  unfold pre
  split
  · simp
  · split
    · simp
    · split
      · simp
      · split <;> simp

/-- For a well-formed system the model never reports an access outside the
method or map arrays — at any nesting depth, so the `oob → invalid` conversion
inside `nestedRead` is dead code. -/
theorem op_no_oob (c : Cfg) (hw : ∀ sys, c.sys = some sys → WF sys) (fuel caps : Nat)
    (infl : List (FullAddr × Chain)) (a : FullAddr) : op c fuel caps infl a ≠ .oob := by
  cases fuel with
  | zero =>
    unfold op
    split
    · rename_i r hp; intro h; subst h; exact pre_no_oob hp
    · simp
  | succ n =>
    unfold op
    split
    · rename_i r hp; intro h; subst h; exact pre_no_oob hp
    · rename_i sys ch hp
      have hsys : c.sys = some sys := by
        unfold pre at hp
        split at hp
        · cases hp
        · split at hp
          · cases hp
          · split at hp
            · cases hp
            · rename_i s hs
              split at hp
              · cases hp
              · injection hp with hp; injection hp with h1 h2; subst h1; exact hs
      split
      · simp
      · exact doOp_no_oob (hw sys hsys) caps _ ch.alts a (chain_idx_lt ch)

/-! ## the result is the first-match composition of the selected methods -/

/-- The linear shortcut of `do_op` computes what walking the linear method computes. -/
theorem linear_shortcut_eq_walk (extra : Extra) (mem : Mem) (t off addr : Nat) :
    (walk extra mem (.linear t off) addr).map (·.base) = .ok ⟨(addr + off) % W, t⟩ := by
  simp [walk, firstStep, walkLoop, idxAt, Meth.targetAs, Except.map, Nat.add_comm]

theorem stage_cons (sys : Sys) (caps : Nat) (wk : WalkFn) (mi : Nat) (ms : List Nat) (a : FullAddr) :
    stage sys caps wk (mi :: ms) a =
      match cand sys wk a mi with
      | none => stage sys caps wk ms a
      | some (.call fa) => if capsHas caps fa.as then .done (.call fa) else .next fa
      | some r => .done r := by
  unfold stage
  simp only [List.filterMap_cons]
  cases cand sys wk a mi with
  | none => rfl
  | some r => cases r <;> rfl

/-- Inner loop of `do_op` = "the first contributing map of the stage decides". -/
theorem tryAlt_eq_spec (sys : Sys) (caps : Nat) (wk : WalkFn) (alt : List Nat) (a : FullAddr) :
    tryAlt sys caps wk alt a = stage sys caps wk alt a := by
  induction alt with
  | nil => rfl
  | cons mi ms ih =>
    rw [stage_cons, ← ih]
    by_cases h1 : a.as ≠ mapExpectAs mi
    · simp [tryAlt, cand, h1]
    · cases h2 : sys.maps[mi]? with
      | none => simp [tryAlt, cand, h1, h2]
      | some om =>
        cases om with
        | none => simp [tryAlt, cand, h1, h2]
        | some m =>
          by_cases h3 : Kdf.Model.Map.mapSearch m a.addr = Kdf.Model.Map.NONE
          · simp [tryAlt, cand, h1, h2, h3]
          · cases h4 : methAt sys (Kdf.Model.Map.mapSearch m a.addr) with
            | none => simp [tryAlt, cand, h1, h2, h3, h4]
            | some meth =>
              cases meth with
              | linear t off => simp [tryAlt, cand, h1, h2, h3, h4, den]
              | nometh =>
                cases h5 : wk .nometh a.addr with
                | ok s => simp [tryAlt, cand, h1, h2, h3, h4, den, h5, Except.map]
                | error e =>
                  by_cases h6 : e = .nometh ∨ e = .nodata <;>
                    simp [tryAlt, cand, h1, h2, h3, h4, den, h5, Except.map, h6]
              | custom t mk hi lo =>
                cases h5 : wk (.custom t mk hi lo) a.addr with
                | ok s => simp [tryAlt, cand, h1, h2, h3, h4, den, h5, Except.map]
                | error e =>
                  by_cases h6 : e = .nometh ∨ e = .nodata <;>
                    simp [tryAlt, cand, h1, h2, h3, h4, den, h5, Except.map, h6]
              | pgt t r pm pf =>
                cases h5 : wk (.pgt t r pm pf) a.addr with
                | ok s => simp [tryAlt, cand, h1, h2, h3, h4, den, h5, Except.map]
                | error e =>
                  by_cases h6 : e = .nometh ∨ e = .nodata <;>
                    simp [tryAlt, cand, h1, h2, h3, h4, den, h5, Except.map, h6]
              | lookup t eo tb =>
                cases h5 : wk (.lookup t eo tb) a.addr with
                | ok s => simp [tryAlt, cand, h1, h2, h3, h4, den, h5, Except.map]
                | error e =>
                  by_cases h6 : e = .nometh ∨ e = .nodata <;>
                    simp [tryAlt, cand, h1, h2, h3, h4, den, h5, Except.map, h6]
              | memarr t b sh es vs =>
                cases h5 : wk (.memarr t b sh es vs) a.addr with
                | ok s => simp [tryAlt, cand, h1, h2, h3, h4, den, h5, Except.map]
                | error e =>
                  by_cases h6 : e = .nometh ∨ e = .nodata <;>
                    simp [tryAlt, cand, h1, h2, h3, h4, den, h5, Except.map, h6]

/-- `do_op` = the declarative route. -/
theorem doOp_eq_spec (sys : Sys) (caps : Nat) (wk : WalkFn) (alts : List (List Nat)) (a : FullAddr) :
    doOp sys caps wk alts a = route sys caps wk alts a := by
  induction alts generalizing a with
  | nil => rfl
  | cons alt rest ih =>
    unfold doOp route
    rw [tryAlt_eq_spec]
    cases stage sys caps wk alt a with
    | done r => rfl
    | next a' => exact ih a'

/-- the memory `walk` sees at nesting budget `fuel+1` while translating `a` along `ch` -/
def readMem (c : Cfg) (fuel : Nat) (infl : List (FullAddr × Chain)) (a : FullAddr) (ch : Chain) : Mem :=
  fun as addr size =>
    if capsHas c.readCaps as then c.pm as addr size
    else nestedRead c.pm size (op c fuel c.readCaps ((a, ch) :: infl) ⟨addr, as⟩)

/-- A conversion that is neither passed through nor refused up front, not a
repetition of a translation in flight and within the nesting limit, delivers
exactly the first usable address of the route selected by (source space,
capabilities): per stage the first map that has a method for the address and
whose method does not answer NOMETH/NODATA, methods reading their tables through
the same conversion with the read capabilities. -/
theorem op_eq_composition (c : Cfg) (fuel caps : Nat) (infl : List (FullAddr × Chain)) (a : FullAddr)
    (sys : Sys) (ch : Chain) (hp : pre c caps a = .ok (sys, ch)) (hg : infl.contains (a, ch) = false) :
    op c (fuel+1) caps infl a = route sys caps (walk noExtra (readMem c fuel infl a ch)) ch.alts a := by
  unfold op
  simp only [hp, hg]
  rw [← doOp_eq_spec]
  rfl

/-! ## `addrxlat_fulladdr_conv` -/

/-- A successful conversion ends in the requested address space (and only a real
address space can be requested successfully).  `MemSound`: the page reader never
fails "with status OK". -/
theorem conv_single_target (c : Cfg) (hpm : MemSound c.pm) (t : Nat) (a fa : FullAddr)
    (h : conv c t a = some (.ok, fa)) : fa.as = t ∧ t < 3 := by
  unfold conv at h
  split at h
  · rename_i fa' hr
    injection h with h; injection h with _ h; subst h
    exact capsHas_capsOf (op_target_in_caps c _ _ _ _ _ hr).1
  · rename_i e hr
    injection h with h; injection h with h1 _
    subst h1
    exact absurd hr (op_sound c hpm _ _ _ _)
  · cases h

/-- A failed conversion leaves the caller's address untouched. -/
theorem conv_fail_unchanged (c : Cfg) (t : Nat) (a fa : FullAddr) (st : XStatus)
    (h : conv c t a = some (st, fa)) (hst : st ≠ .ok) : fa = a := by
  unfold conv at h
  split at h
  · injection h with h; injection h with h1 _; exact absurd h1.symm hst
  · injection h with h; injection h with _ h2; exact h2.symm
  · cases h

/-! ## the in-flight list -/

/-- invariant of the pair (nesting budget, in-flight list) -/
def Inv (fuel : Nat) (infl : List (FullAddr × Chain)) : Prop :=
  infl.Nodup ∧ infl.length + fuel = MAX_INFLIGHT

/-- The invariant holds when `addrxlat_op` is entered from outside, and the only
recursive call in `op` (made with budget `fuel` and list `(a, ch) :: infl` after
the guard `infl.contains (a, ch) = false`) preserves it: the translations in
flight are pairwise distinct and never more than `MAX_INFLIGHT`. -/
theorem inflight_distinct :
    Inv MAX_INFLIGHT [] ∧
    (∀ fuel infl a ch, Inv (fuel+1) infl → infl.contains (a, ch) = false → Inv fuel ((a, ch) :: infl)) ∧
    (∀ fuel infl, Inv fuel infl → infl.length ≤ MAX_INFLIGHT) := by
  refine ⟨⟨List.nodup_nil, rfl⟩, ?_, ?_⟩
  · intro fuel infl a ch ⟨hn, hl⟩ hc
    refine ⟨List.nodup_cons.mpr ⟨?_, hn⟩, by simp only [List.length_cons]; omega⟩
    intro hm
    have : infl.contains (a, ch) = true := List.contains_iff_mem.mpr hm
    rw [hc] at this; cases this
  · intro fuel infl ⟨_, hl⟩; omega

/-! ## the nesting limit is conservative -/

theorem readMem_le (c : Cfg) (infl : List (FullAddr × Chain)) (a : FullAddr) (ch : Chain) (n : Nat)
    (ih : ∀ caps infl a, op c n caps infl a = .fail .notimpl ∨ op c n caps infl a = op c (n+1) caps infl a) :
    MemLe (readMem c n infl a ch) (readMem c (n+1) infl a ch) := by
  intro as addr size
  unfold readMem
  split
  · right; rfl
  · rcases ih c.readCaps ((a, ch) :: infl) ⟨addr, as⟩ with h | h
    · left; rw [h]; rfl
    · right; rw [h]

theorem op_step (c : Cfg) (n : Nat) :
    ∀ caps infl a, op c n caps infl a = .fail .notimpl ∨ op c n caps infl a = op c (n+1) caps infl a := by
  induction n with
  | zero =>
    intro caps infl a
    unfold op
    cases hp : pre c caps a with
    | error r => right; rfl
    | ok p => left; rfl
  | succ n ih =>
    intro caps infl a
    unfold op
    cases hp : pre c caps a with
    | error r => right; rfl
    | ok p =>
      obtain ⟨sys, ch⟩ := p
      simp only []
      split
      · right; rfl
      · exact doOp_le (walk_le (readMem_le c infl a ch n ih)) sys caps ch.alts a

/-- Raising the nesting limit never changes an answer other than NOTIMPL: every
result obtained within budget `n` that is not NOTIMPL is the result for every
larger budget.  (So the limit only ever cuts a translation off; it cannot make
a conversion land somewhere else.) -/
theorem op_limit_conservative (c : Cfg) (n k caps : Nat) (infl : List (FullAddr × Chain)) (a : FullAddr)
    (h : op c n caps infl a ≠ .fail .notimpl) : op c (n+k) caps infl a = op c n caps infl a := by
  induction k with
  | zero => rfl
  | succ k ih =>
    rcases op_step c (n+k) caps infl a with h1 | h1
    · rw [ih] at h1; exact absurd h1 h
    · rw [← ih, h1]; rfl

/-! ## non-vacuity: concrete systems -/

def zeroMem : Mem := fun _ _ _ => .ok 0

/-- KV → KPHYS (+0x1000) through KV_PHYS, KPHYS → MACHPHYS (+0x100000) through KPHYS_MACHPHYS -/
def demoSys : Sys :=
  ⟨[none, some [⟨W - 1, 0⟩], none, none, some [⟨W - 1, 1⟩]],
   [.linear KPHYS 0x1000, .linear MACHPHYS 0x100000] ++ List.replicate 14 .nometh⟩
def demoCfg : Cfg := ⟨some demoSys, 1, zeroMem⟩

example : WF demoSys := by
  refine ⟨rfl, ?_⟩
  intro m hm r hr
  simp [demoSys] at hm
  rcases hm with rfl | rfl <;> simp at hr <;> subst hr <;> simp [demoSys]

/-- two-stage composition: the callback wants MACHPHYS only -/
example : opTop demoCfg 2 ⟨0x2000, KV⟩ = .call ⟨0x103000, MACHPHYS⟩ := by decide
/-- the same source with KPHYS usable stops after the first stage -/
example : opTop demoCfg 1 ⟨0x2000, KV⟩ = .call ⟨0x3000, KPHYS⟩ := by decide
example : MemSound zeroMem := by intro _ _ _; simp [zeroMem, NotOkErr]
example : conv demoCfg MACHPHYS ⟨0x2000, KV⟩ = some (.ok, ⟨0x103000, MACHPHYS⟩) := by decide
/-- hypotheses of `op_eq_composition` and `op_limit_conservative` are satisfiable -/
example : pre demoCfg 2 ⟨0x2000, KV⟩ = .ok (demoSys, .kv2phys) := by rfl
example : opTop demoCfg 2 ⟨0x2000, KV⟩ ≠ .fail .notimpl := by decide

/-- The defect witness: a memory array (shift 0, elemsz 3) whose base is a KVADDR,
installed for the whole KV → PHYS map, with only KPHYSADDR readable.  Every
level asks for a different address (4096, 16384, 53248, …), so the exact-match
guard never fires; the translation ends at the nesting limit. -/
def selfSys : Sys :=
  ⟨[none, some [⟨W - 1, 0⟩], none, none, none],
   [.memarr KPHYS ⟨4096, KV⟩ 0 3 8] ++ List.replicate 15 .nometh⟩
def selfCfg : Cfg := ⟨some selfSys, 1, zeroMem⟩

example : opTop selfCfg 1 ⟨4096, KV⟩ = .fail .notimpl := by decide
/-- … and it is the limit, not the guard, that stops it: with a smaller budget the
answer is the same NOTIMPL, and no budget up to the limit yields another answer -/
example : op selfCfg 3 1 [] ⟨4096, KV⟩ = .fail .notimpl := by decide

/-- A page table whose root is a KVADDR that only the table itself maps: the second
request repeats the first one exactly, the guard answers NOMETH at depth 2. -/
def loopSys : Sys :=
  ⟨[none, some [⟨W - 1, 0⟩], none, none, none],
   [.pgt KPHYS ⟨0, KV⟩ 0 ⟨.pfn64, [12, 9]⟩] ++ List.replicate 15 .nometh⟩
def loopCfg : Cfg := ⟨some loopSys, 1, zeroMem⟩
example : opTop loopCfg 1 ⟨0, KV⟩ = .fail .nometh := by decide
example : op loopCfg 3 1 [] ⟨0, KV⟩ = .fail .nometh := by decide

end Kdf.Props.C09
