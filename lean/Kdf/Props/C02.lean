import Kdf.Model.Pgt
import Kdf.Model.PgtArch
import Kdf.Spec.ArchWalk
import Kdf.Lemmas.Pgt
import Kdf.Lemmas.PgtStep
import Kdf.Lemmas.PgtSim
import Kdf.Lemmas.PgtForm
/-!
# C02 — address translation equals the architecture's page-table walk

Property theorems only.  `walk` is the model of `addrxlat_walk` (tied to the C
code by the `walk` correspondence stream), `specXlat` the independent
architectural specification.  Guards: 64-bit quantities (`va`, root address,
PTE mask, memory values) are below `2^64`, and the paging form is one the
architecture defines (`archForm`).
-/
namespace Kdf.Props.C02
set_option linter.unusedVariables false
open Kdf.Model.Pgt Kdf.Spec.ArchWalk Kdf.Lemmas.Pgt Kdf.Model.PgtArch

/-- Page-table methods: same physical address, or the same error class. -/
theorem walk_eq_spec_pgt (mem : Mem) (hmem : MemWF mem) (t : Nat) (root : FullAddr) (pteMask : Nat)
    (pf : PagingForm) (va : Nat) (hform : archForm pf = true) (hva : va < W) (hroot : root.addr < W)
    (hmask : pteMask < W) :
    (walk extra mem (.pgt t root pteMask pf) va).map (·.base) =
      specXlat mem (.pgt t root pteMask pf) va := by
  cases hfmt : pf.fmt
  case x86_64 => exact walk_pgt_x86_64 mem t root pteMask pf va hfmt hform hmask
  case ia32 => exact walk_pgt_ia32 mem hmem t root pteMask pf va hfmt hform hmask
  case ia32Pae => exact walk_pgt_ia32Pae mem t root pteMask pf va hfmt hform hmask
  case riscv64 => exact walk_pgt_riscv64 mem t root pteMask pf va hfmt hform hmask
  case pfn32 => exact walk_pgt_pfn32 mem t root pteMask pf va hfmt hform hmask
  case pfn64 => exact walk_pgt_pfn64 mem t root pteMask pf va hfmt hform hmask
  all_goals simp [archForm, hfmt] at hform

/-- Linear, lookup-table and memory-array methods equal their definitions. -/
theorem walk_eq_spec_linear (mem : Mem) (t off va : Nat) (hva : va < W) (hoff : off < W) :
    (walk extra mem (.linear t off) va).map (·.base) = specXlat mem (.linear t off) va := by
  simp [walk, firstStep, walkLoop, specXlat, idxAt, Meth.targetAs, Except.map]

theorem walk_eq_spec_lookup (mem : Mem) (t endoff : Nat) (tbl : List (Nat × Nat)) (va : Nat) (hva : va < W)
    (htbl : ∀ e ∈ tbl, e.1 < W ∧ e.2 < W) :
    (walk extra mem (.lookup t endoff tbl) va).map (·.base) = specXlat mem (.lookup t endoff tbl) va := by
  simp only [walk, firstStep, specXlat]
  generalize List.find? _ tbl = r
  cases r with
  | none => rfl
  | some p =>
    obtain ⟨orig, dest⟩ := p
    simp [walkLoop, idxAt, Meth.targetAs, Except.map]

theorem walk_eq_spec_memarr (mem : Mem) (hmem : MemWF mem) (t : Nat) (base : FullAddr) (shift elemsz valsz va : Nat)
    (hva : va < W) (hbase : base.addr < W) (hshift : shift < 64) :
    (walk extra mem (.memarr t base shift elemsz valsz) va).map (·.base) =
      specXlat mem (.memarr t base shift elemsz valsz) va := by
  unfold walk firstStep specXlat
  simp only [walkLoop, nextStep, nextMemarr, idxAt, Meth.targetAs]
  by_cases hv : valsz = 4 ∨ valsz = 8
  · simp only [hv, if_true]
    simp only [show (2:Nat) ≠ 0 by decide, if_false, show (2:Nat) - 1 = 1 from rfl,
      show (1:Nat) ≠ 0 by decide, List.getD_cons_succ, List.getD_cons_zero]
    cases mem base.as ((base.addr + va / 2 ^ shift * elemsz) % W) valsz with
    | error e => rfl
    | ok v => simp [Except.map]
  · simp [hv, Except.map]

/-- Non-canonical input addresses are invalid (formats with a canonical-address rule). -/
theorem noncanonical_invalid (mem : Mem) (t : Nat) (root : FullAddr) (pteMask : Nat) (pf : PagingForm) (va : Nat)
    (hform : archForm pf = true) (hva : va < W) (hroot : root.as ≠ NOADDR)
    (decode : Nat → Nat → Desc) (canon : Canon) (sz : Nat) (hspec : formatSpec pf = some (decode, canon, sz))
    (hnc : canonical canon (spanBits pf.fieldsz pf.fieldsz.length) va = false) :
    walk extra mem (.pgt t root pteMask pf) va = .error .invalid :=
  walk_noncanonical mem t root pteMask pf va canon hroot
    (firstOK_of_form t root pteMask pf va hform decode canon sz hspec) hnc

/-- Performing the walk in one call or as launch plus single steps gives the
same outcome, for every method kind, every paging form and every memory. -/
theorem launch_steps_eq_walk (mem : Mem) (m : Meth) (va : Nat) :
    (launchSteps extra mem m va).2 = walk extra mem m va := by
  unfold launchSteps walk
  cases firstStep m va with
  | error e => rfl
  | ok s0 =>
    by_cases h0 : s0.remain = 0
    · simp only [h0, if_true]
      exact launch_go_done _ _ _ _ _ h0
    · simp only [h0, if_false]
      exact launch_go_eq_walkLoop _ _ _ _ _ (by omega) (by omega)

/-! ### Non-vacuity: a 4-level x86-64 walk through a 2 MiB page -/
def demoMem : Mem := fun _ a sz =>
  if sz ≠ 8 then .error .nodata
  else if a = 0x1000 + 8 * 0 then .ok 0x2003        -- PML4[0] -> 0x2000
  else if a = 0x2000 + 8 * 1 then .ok 0x3003        -- PDPT[1] -> 0x3000
  else if a = 0x3000 + 8 * 2 then .ok 0x40000083    -- PD[2]: 2 MiB page at 0x40000000
  else .ok 0

example : archForm ⟨.x86_64, [12, 9, 9, 9, 9]⟩ = true := by decide
example : (walk extra demoMem (.pgt 0 ⟨0x1000, 1⟩ 0 ⟨.x86_64, [12, 9, 9, 9, 9]⟩) (0x40000000 + 0x400000 + 0x12345)).map (·.base)
    = .ok ⟨0x40000000 + 0x12345, 0⟩ := by rfl

end Kdf.Props.C02
