import Kdf.Model.Hist
import Kdf.Lemmas.Cache
import Kdf.Lemmas.CacheStep
import Kdf.Lemmas.Pfn
import Kdf.Lemmas.HistCache3
import Kdf.Lemmas.HistRead
import Kdf.Lemmas.HistElf
import Kdf.Lemmas.HistLkcd
import Kdf.Lemmas.HistFc
/-!
# C04 — caching and lazy indexing are invisible

Property theorems only (helper lemmas: `Kdf/Lemmas/Hist*.lean`).  Every statement
is over all histories / all states satisfying the invariant, without bounds.
-/
namespace Kdf.Props.C04
open Kdf.Model.Cache Kdf.Model.Hist Kdf.Lemmas.Cache Kdf.Model.Pfn Kdf.Lemmas.Pfn Kdf.Lemmas.Hist

/-! ## 1. The page cache composed with a deterministic fill function

The definitions `Coh`, `PInv`, `QInv`, `BusyRule`, `noPins` are repeated verbatim in
`Kdf/Lemmas/HistCache.lean` (namespace `Kdf.Lemmas.Hist`), where the helper lemmas are stated;
the two copies are definitionally equal, which the proofs below rely on.

Two corrections against the first version of this section (both authorised by the owner of the
statements, both witnessed by a counterexample at the end of the section):

* `PInv` now contains `s.c.cap ≤ s.buf.length` (every buffer of the cache exists).  Without it
  `fetch_spec`/`getPage_spec`/`hrun_inv` are false: `List.set` beyond the end of `buf` is a
  no-op, so a fill into a missing buffer leaves a valid entry whose buffer was never filled
  (`pinv_needs_buf_counterexample`).
* `hrun_inv` is stated for `QInv` (`PInv` and nothing in flight — the state between two calls
  of a single-threaded history).  With an entry in flight, `unpin` of that entry drops its only
  reference with `cache_put_entry` and breaks C06's invariant (`hrun_inv_needs_F_counterexample`,
  the same defect as C06's `inv_step_counterexample`).
-/

/-- the extra invariant: a valid entry's buffer holds `f key` -/
def Coh {V E : Type} (f : Nat → Except E V) (s : PCache V) : Prop :=
  ∀ i ∈ cached s.c, ∃ d v, s.c.dataOf i = some d ∧ s.content d = some v ∧ f (s.c.key i) = .ok v

/-- invariant of the composition: C06's invariant, every buffer of the cache exists, and
coherence with `f` -/
def PInv {V E : Type} (f : Nat → Except E V) (s : PCache V) : Prop :=
  Inv s.c ∧ s.c.cap ≤ s.buf.length ∧ Coh f s

/-- the state between two calls of a single-threaded history: nothing is in flight -/
def QInv {V E : Type} (f : Nat → Except E V) (s : PCache V) : Prop := PInv f s ∧ s.c.F = []

/-- C06's busy rule: the key is neither cached nor in flight and every buffer is
referenced or being filled -/
def BusyRule (c : Cache) (k : Nat) : Prop :=
  k ∉ (live c).map c.key ∧ c.pinned + c.F.length ≥ c.cap

theorem pinv_init {V E : Type} (f : Nat → Except E V) (cap : Nat) (h : 0 < cap) :
    PInv f (PCache.init (V := V) cap) := Kdf.Lemmas.Hist.pinv_init f cap h

theorem qinv_init {V E : Type} (f : Nat → Except E V) (cap : Nat) (h : 0 < cap) :
    QInv f (PCache.init (V := V) cap) := Kdf.Lemmas.Hist.qinv_init f cap h

/-- `cache_get_page` in any state satisfying the invariant: it succeeds (no `ub`,
no `proto`), re-establishes the invariant, is refused exactly by the busy rule
(changing nothing), and otherwise delivers exactly what `f` delivers for the key. -/
theorem fetch_spec {V E : Type} (f : Nat → Except E V) (s : PCache V) (k : Nat) (h : PInv f s) :
    ∃ s' o, fetch f s k = .ok (s', o) ∧ PInv f s' ∧ s'.c.cap = s.c.cap ∧
      ((o = .busy) ↔ BusyRule s.c k) ∧
      match o with
      | .busy => s' = s
      | .got i v => f k = .ok v ∧ i ∈ cached s'.c ∧ s'.c.refcnt i ≠ 0
      | .fail e => f k = .error e := by
  obtain ⟨s', o, h1, h2, h3, h4, h5, -⟩ := Kdf.Lemmas.Hist.fetch_full f s k h
  exact ⟨s', o, h1, h2, h3, h4, by cases o <;> exact h5⟩

/-- releasing a reference obtained from `fetch` keeps the invariant -/
theorem release_spec {V E : Type} (f : Nat → Except E V) (s : PCache V) (i : Nat) (h : PInv f s)
    (hi : i ∈ cached s.c) (hr : s.c.refcnt i ≠ 0) :
    ∃ s', release s i = .ok s' ∧ PInv f s' ∧ s'.c.cap = s.c.cap := by
  obtain ⟨s', h1, h2, h3, -⟩ := Kdf.Lemmas.Hist.release_full f s i h hr
    (fun hF => absurd hi (Kdf.Lemmas.Hist.not_cached_of_inflight ((inv_iff _).1 h.1) hF))
  exact ⟨s', h1, h2, h3⟩

/-- one complete page access -/
theorem getPage_spec {V E : Type} (f : Nat → Except E V) (s : PCache V) (k : Nat) (h : PInv f s) :
    ∃ s' r, getPage f s k = .ok (s', r) ∧ PInv f s' ∧
      ((r = .busy) ↔ BusyRule s.c k) ∧ (r ≠ .busy → r = Res.ofExcept (f k)) := by
  obtain ⟨s', r, h1, h2, -, h4, h5, -⟩ := Kdf.Lemmas.Hist.getPage_full f s k h
  exact ⟨s', r, h1, h2, h4, h5⟩

/-- every history (reads, pins, unpins, cache resizes) that the model accepts, started
between two calls (nothing in flight), leads to such a state satisfying the invariant -/
theorem hrun_inv {V E : Type} (f : Nat → Except E V) (s s' : PCache V) (ops : List HOp)
    (h : QInv f s) (hr : hrun f s ops = .ok s') : QInv f s' :=
  Kdf.Lemmas.Hist.hrun_qinv f ops s s' h hr

/-- **Cache transparency.**  After ANY history on a cache of ANY capacity, a page
access for key `k` yields `f k` — or `busy`, exactly when C06's busy rule says so. -/
theorem cache_transparent {V E : Type} (f : Nat → Except E V) (cap : Nat) (hc : 0 < cap)
    (ops : List HOp) (s : PCache V) (hr : hrun f (PCache.init cap) ops = .ok s) (k : Nat) :
    ∃ s' r, getPage f s k = .ok (s', r) ∧
      ((r = .busy) ↔ BusyRule s.c k) ∧ (r ≠ .busy → r = Res.ofExcept (f k)) := by
  obtain ⟨s', r, h1, -, h3, h4⟩ := getPage_spec f s k (hrun_inv f _ s ops (qinv_init f cap hc) hr).1
  exact ⟨s', r, h1, h3, h4⟩

/-- a freshly allocated cache of any capacity answers with `f k` -/
theorem fresh_answer {V E : Type} (f : Nat → Except E V) (cap : Nat) (hc : 0 < cap) (k : Nat) :
    ∃ s', getPage f (PCache.init (V := V) cap) k = .ok (s', Res.ofExcept (f k)) :=
  Kdf.Lemmas.Hist.getPage_noRef f _ k (Kdf.Lemmas.Hist.qinv_init f cap hc)
    (Kdf.Lemmas.Hist.noRef_init cap)

/-- the answer after any history equals the answer of a fresh cache of any other
capacity, unless the busy rule refuses it -/
theorem history_irrelevant {V E : Type} (f : Nat → Except E V) (cap cap' : Nat) (hc : 0 < cap)
    (hc' : 0 < cap') (ops : List HOp) (s : PCache V) (hr : hrun f (PCache.init cap) ops = .ok s)
    (k : Nat) :
    ∃ s1 r1 s2 r2, getPage f s k = .ok (s1, r1) ∧ getPage f (PCache.init (V := V) cap') k = .ok (s2, r2) ∧
      (r1 = r2 ∨ (r1 = .busy ∧ BusyRule s.c k)) := by
  obtain ⟨s1, r1, h1, hb, hv⟩ := cache_transparent f cap hc ops s hr k
  obtain ⟨s2, h2⟩ := fresh_answer (V := V) f cap' hc' k
  refine ⟨s1, r1, s2, _, h1, h2, ?_⟩
  by_cases hbusy : r1 = .busy
  · exact Or.inr ⟨hbusy, hb.1 hbusy⟩
  · exact Or.inl (hv hbusy)

/-- histories without outstanding pins (only complete accesses and resizes) are
never refused: the answer is exactly `f k` -/
def noPins : List HOp → Prop
  | [] => True
  | .read _ :: ops => noPins ops
  | .resize _ :: ops => noPins ops
  | _ :: _ => False

theorem noPins_iff : ∀ ops : List HOp, noPins ops ↔ Kdf.Lemmas.Hist.noPins ops
  | [] => Iff.rfl
  | .read _ :: ops => noPins_iff ops
  | .resize _ :: ops => noPins_iff ops
  | .pin _ :: _ => Iff.rfl
  | .unpin _ :: _ => Iff.rfl

theorem reads_only_transparent {V E : Type} (f : Nat → Except E V) (cap : Nat) (hc : 0 < cap)
    (ops : List HOp) (hp : noPins ops) (s : PCache V) (hr : hrun f (PCache.init cap) ops = .ok s)
    (k : Nat) :
    ∃ s', getPage f s k = .ok (s', Res.ofExcept (f k)) := by
  obtain ⟨hq, hn⟩ := Kdf.Lemmas.Hist.hrun_noRef f ops _ s (Kdf.Lemmas.Hist.qinv_init f cap hc)
    (Kdf.Lemmas.Hist.noRef_init cap) ((noPins_iff ops).1 hp) hr
  exact Kdf.Lemmas.Hist.getPage_noRef f s k hq hn

/-- Why `PInv` demands that the buffers exist: from a state satisfying the other two conjuncts
but without buffers, two reads of the same key end in the `ub` arm "valid entry whose buffer
was never filled". -/
theorem pinv_needs_buf_counterexample :
    ∃ (s : PCache Nat) (w : String), Inv s.c ∧ Coh (E := Unit) (fun k => .ok k) s ∧
      hrun (E := Unit) (fun k => .ok k) s [.read 5, .read 5] = .error (.ub w) := by
  refine ⟨⟨flush 1, []⟩, _, (inv_iff _).2 (invS_flush 1 (by decide) True), ?_, rfl⟩
  intro i hi
  have : i ∈ ([] : List Nat) := hi
  cases this

/-- Why `hrun_inv` starts between two calls: with an entry in flight (capacity 1, one miss),
`unpin` of that entry is accepted and breaks the invariant. -/
theorem hrun_inv_needs_F_counterexample :
    ∃ (s s' : PCache Nat), PInv (E := Unit) (fun k => .ok k) s ∧
      hrun (E := Unit) (fun k => .ok k) s [.unpin 0] = .ok s' ∧
      ¬ PInv (E := Unit) (fun k => .ok k) s' := by
  have h0 := invS_flush 1 (by decide) True
  obtain ⟨r, hs⟩ : ∃ r, step (flush 1) (.get 5) = .ok r := ⟨_, rfl⟩
  have hc : Inv r.1 := (inv_iff _).2 (step_spec h0 hs (fun _ => trivial)).1
  have hr : r = (step (flush 1) (.get 5)).toOption.getD default := by rw [hs]; rfl
  obtain ⟨r', hp⟩ : ∃ r', put r.1 0 = .ok r' := by rw [hr]; exact ⟨_, rfl⟩
  have hr' : r' = (put r.1 0).toOption.getD default := by rw [hp]; rfl
  refine ⟨⟨r.1, [none]⟩, ⟨r'.1, [none]⟩, ⟨hc, ?_, ?_⟩, ?_, fun hI => ?_⟩
  · show r.1.cap ≤ 1
    rw [hr]; decide
  · intro i hi
    have : i ∈ ([] : List Nat) := by
      have h2 : cached r.1 = [] := by rw [hr]; decide
      rw [← h2]; exact hi
    cases this
  · simp only [hrun, hstep, release, hp]
  · have hF : (0 : Nat) ∈ r'.1.F := by rw [hr', hr]; decide
    have hz : r'.1.refcnt 0 = 0 := by rw [hr', hr]; decide
    exact hI.1.inflight_ref 0 hF hz

/-- the page cache consults `f` only at the requested key -/
theorem getPage_congr {V E : Type} (f f' : Nat → Except E V) (s : PCache V) (k : Nat) (h : f k = f' k) :
    getPage f s k = getPage f' s k := by
  unfold getPage fetch
  rw [h]

/-- **`file.zero_excluded` may be toggled at any point of a history.**  The cache
stays coherent with the zero-filling fill function; the guarded access delivers
what the fill function of the CURRENT setting delivers (or `busy` by the busy rule),
whatever was cached under the other setting. -/
theorem zero_excluded_transparent {V E : Type} (base : Nat → Except E V) (g : Nat → Option E) (zero : V)
    (s : PCache V) (h : PInv (fillZx base g zero true) s) (zx : Bool) (k : Nat) :
    ∃ s' r, guardedGet base g zero zx s k = .ok (s', r) ∧ PInv (fillZx base g zero true) s' ∧
      (r ≠ .busy → r = Res.ofExcept (fillZx base g zero zx k)) ∧ (r = .busy → BusyRule s.c k) := by
  unfold guardedGet
  cases zx with
  | true =>
    obtain ⟨s', r, h1, h2, h3, h4⟩ := getPage_spec (fillZx base g zero true) s k h
    exact ⟨s', r, by simpa using h1, h2, h4, h3.1⟩
  | false =>
    cases hg : g k with
    | some e =>
      refine ⟨s, .fail e, by simp, h, fun _ => ?_, fun hb => by cases hb⟩
      simp [fillZx, hg, Res.ofExcept]
    | none =>
      have hc : fillZx base g zero false k = fillZx base g zero true k := by simp [fillZx, hg]
      obtain ⟨s', r, h1, h2, h3, h4⟩ := getPage_spec (fillZx base g zero true) s k h
      refine ⟨s', r, ?_, h2, fun hr => ?_, h3.1⟩
      · simp only [Bool.false_eq_true, if_false]
        rw [getPage_congr _ _ s k hc]; exact h1
      · rw [hc]; exact h4 hr

/-! ## 2. The four-slot read cache of libaddrxlat -/

/- The definitions `GCoh` (the callback is a function of the page: a buffer covers
the address it was asked for, and every address it covers yields the same buffer),
`RInv` (four slots, the MRU chain is a permutation of the slot indices, every
non-empty slot holds what the callback returns for its start address) and `opWf`
(addresses are 64-bit) live in `Kdf/Lemmas/HistRead.lean`, unchanged. -/

theorem rinv_init {V E : Type} (g : Nat → Nat → Except E (Buffer V)) : RInv g (RCache.init (V := V)) :=
  rinv_init' g

/-- one lookup in any state satisfying the invariant returns exactly what the
callback returns for that address (buffer or status), and keeps the invariant -/
theorem getCacheBuf_spec {V E : Type} (g : Nat → Nat → Except E (Buffer V)) (hg : GCoh g)
    (rc : RCache V) (h : RInv g rc) (as a : Nat) (ha : a < W) :
    (getCacheBuf g rc as a).2.2 = (match g as a with | .ok b => .ok b | .error e => .error (.cb e)) ∧
    RInv g (getCacheBuf g rc as a).1 :=
  getCacheBuf_spec' g hg rc h as a ha

theorem bury_spec {V E : Type} (g : Nat → Nat → Except E (Buffer V)) (rc : RCache V) (h : RInv g rc)
    (as a : Nat) : RInv g (bury rc as a) :=
  bury_spec' g rc h as a

/-- **Read-cache transparency.**  After any history of lookups and buries the
lookup of `(as, a)` returns what the callback returns. -/
theorem readcache_transparent {V E : Type} (g : Nat → Nat → Except E (Buffer V)) (hg : GCoh g)
    (ops : List ROp) (hw : ∀ op ∈ ops, opWf op) (as a : Nat) (ha : a < W) :
    (getCacheBuf g (rrun g RCache.init ops) as a).2.2 =
      (match g as a with | .ok b => .ok b | .error e => .error (.cb e)) :=
  (getCacheBuf_spec' g hg _ (rrun_inv g hg ops _ (rinv_init' g) hw) as a ha).1

/-! ## 3. The `last_load` shortcut of the ELF segment lookup -/

/-- If the shortcut is only enabled (`use_last_load`) for segments sorted by
start and not overlapping, the lookup returns the segment of the plain linear
search, whatever in-bounds pointer is remembered, and remembers an in-bounds
pointer. -/
theorem lastload_irrelevant (segs : List Seg) (useLast : Bool) (hs : useLast = true → SegsSorted segs)
    (last : Option Nat) (hl : ∀ l, last = some l → l < segs.length) (p d : Nat) :
    ∃ last', findClosestSC segs useLast last p d = some (findClosest segs p d, last') ∧
      ∀ l, last' = some l → l < segs.length :=
  findClosestSC_spec segs useLast hs last hl p d

/-- … hence after any history of lookups -/
theorem lastload_history (segs : List Seg) (useLast : Bool) (hs : useLast = true → SegsSorted segs)
    (qs : List (Nat × Nat)) (p d : Nat) :
    ∃ last last', lookupsSC segs useLast none qs = some last ∧
      findClosestSC segs useLast last p d = some (findClosest segs p d, last') := by
  obtain ⟨last, h1, h2⟩ := lookupsSC_spec segs useLast hs qs none (fun _ e => by cases e)
  obtain ⟨last', h3, _⟩ := findClosestSC_spec segs useLast hs last h2 p d
  exact ⟨last, last', h1, h3⟩

/-- The flag that `loads_disjoint` computes at open time implies the hypothesis,
both for the lookups by `memsz` and for the lookups by `filesz`. -/
theorem loadsDisjoint_sorted (ls : List Load) (h : loadsDisjoint ls 0 = true) :
    SegsSorted (ls.map fun l => ⟨l.start, l.memsz⟩) ∧
    SegsSorted (ls.map fun l => ⟨l.start, l.filesz⟩) :=
  loadsDisjoint_segs ls h

/-- The two together: the repaired lookup, with the flag computed by
`loads_disjoint`, never depends on the remembered pointer. -/
theorem lastload_irrelevant_code (ls : List Load) (byFile : Bool) (last : Option Nat)
    (hl : ∀ l, last = some l → l < ls.length) (p d : Nat) :
    let segs : List Seg := ls.map fun l => ⟨l.start, if byFile then l.filesz else l.memsz⟩
    ∃ last', findClosestSC segs (loadsDisjoint ls 0) last p d = some (findClosest segs p d, last') :=
  findClosestSC_code ls byFile last hl p d

/-- The flag is needed: with overlapping segments and the shortcut enabled (the
code before the repair) the shortcut and the linear search pick different segments. -/
theorem lastload_overlap_counterexample :
    ∃ segs last p d r, (∀ l, last = some l → l < segs.length) ∧
      findClosestSC segs true last p d = some r ∧ r.1 ≠ findClosest segs p d :=
  ⟨[⟨0, 0x2000⟩, ⟨0x1000, 0x2000⟩], some 1, 0x1000, 0x1000, (some 1, some 1), by decide, by decide, by decide⟩

/-- … and `loads_disjoint` detects exactly that layout -/
example : loadsDisjoint [⟨0, 0x2000, 0x2000⟩, ⟨0x1000, 0x2000, 0x2000⟩] 0 = false := by decide
example : loadsDisjoint [⟨0, 0x2000, 0x1000⟩, ⟨0x2000, 0x1000, 0x1000⟩] 0 = true := by decide

/-! ## 4. The lazily built LKCD index (contract level) -/

/- `LkInv descs s` (the scanned prefix never contains a frame twice: the scan stops
at a repetition) lives in `Kdf/Lemmas/HistLkcd.lean`, unchanged. -/

theorem lkcd_scan_irrelevant {D : Type} (descs : List (Nat × D)) (s : Lkcd) (h : LkInv descs s) (p : Nat) :
    (lkLookup descs s p).2 = (lkLookup descs ⟨0⟩ p).2 ∧ LkInv descs (lkLookup descs s p).1 :=
  lkLookup_spec descs s h p

/-- after any history of lookups the answer for frame `p` is the one a fresh scan gives -/
theorem lkcd_history {D : Type} (descs : List (Nat × D)) (ps : List Nat) (p : Nat) :
    (lkLookup descs (lkRun descs ⟨0⟩ ps) p).2 = (lkLookup descs ⟨0⟩ p).2 :=
  (lkLookup_spec descs _ (lkRun_inv descs ps _ (lkInv_init descs)) p).1

/-- what a fresh scan answers: the first descriptor for `p`, unless a repeated
frame precedes it -/
theorem lkcd_fresh_spec {D : Type} (descs : List (Nat × D)) (hn : (descs.map (·.1)).Nodup) (p : Nat) :
    (lkLookup descs ⟨0⟩ p).2 = (match firstOf descs p with | some d => .found d | none => .notfound) :=
  lkLookup_fresh_spec descs hn p

/-! ## 5. mmap versus read -/

/-- below the end of the file all four policies deliver the same bytes -/
theorem policy_irrelevant (file : List Nat) (pgsz mmapsz pos n : Nat) (hpg : 0 < pgsz)
    (hmm : pgsz ∣ mmapsz) (hm0 : 0 < mmapsz) (hin : pos / pgsz * pgsz < file.length)
    (hn : n ≤ pgsz - pos % pgsz) (pol pol' : Policy) :
    (fcacheGet file pgsz mmapsz pol pos).2.take n = (fcacheGet file pgsz mmapsz pol' pos).2.take n := by
  rw [fcacheGet_take file pgsz mmapsz pos n hpg hmm hm0 hin hn pol,
    fcacheGet_take file pgsz mmapsz pos n hpg hmm hm0 hin hn pol']

/-- … and the bytes are the file's -/
theorem policy_bytes (file : List Nat) (pgsz mmapsz pos n : Nat) (hpg : 0 < pgsz)
    (hmm : pgsz ∣ mmapsz) (hm0 : 0 < mmapsz) (hin : pos / pgsz * pgsz < file.length)
    (hn : n ≤ pgsz - pos % pgsz) (pol : Policy) :
    (fcacheGet file pgsz mmapsz pol pos).2.take n = some ((List.range n).map fun j => fileByte file (pos + j)) :=
  fcacheGet_take file pgsz mmapsz pos n hpg hmm hm0 hin hn pol

/-- behind the end of the file every policy refuses alike (the read(2) path and the mmap path both answer
`KDUMP_ERR_EOF`), block 0 excepted -/
theorem policy_irrelevant_behind_eof (file : List Nat) (pgsz mmapsz pos : Nat) (h0 : 0 < pos / pgsz * pgsz)
    (hout : file.length ≤ pos / pgsz * pgsz) (pol pol' : Policy) :
    (fcacheGet file pgsz mmapsz pol pos).2 = (fcacheGet file pgsz mmapsz pol' pos).2 := by
  rw [fcacheGet_refused file pgsz mmapsz pos h0 hout pol, fcacheGet_refused file pgsz mmapsz pos h0 hout pol']

/-- What is left of the difference: block 0 of an empty file (`ALWAYS` refuses, `NEVER` delivers zeroes); the hypotheses
`hin` / `h0` are needed. -/
theorem policy_eof_counterexample :
    ∃ file pgsz mmapsz pos, (fcacheGet file pgsz mmapsz .always pos).2 = .nodata ∧
      (fcacheGet file pgsz mmapsz .never pos).2 ≠ .nodata :=
  ⟨[], 4, 8, 1, by decide, by decide⟩

/-! ### Non-vacuity -/
example : ∃ s, hrun (E := Unit) (fun k => .ok (k + 100)) (PCache.init (V := Nat) 2)
    [.read 1, .read 2, .read 3, .pin 1, .read 4, .unpin 0, .resize 3, .read 1] = .ok s := ⟨_, rfl⟩
example : noPins [.read 1, .resize 2, .read 1] := by simp [noPins]
example : SegsSorted [⟨0, 0x1000⟩, ⟨0x1000, 0x2000⟩, ⟨0x8000, 0⟩] := by unfold SegsSorted; decide
example : LkInv [(10, 'a'), (11, 'b'), (0, 'c'), (10, 'd')] ⟨3⟩ := by unfold LkInv; decide

end Kdf.Props.C04
