import Kdf.Model.PgtArch
import Kdf.Spec.ArchPpc64
/-!
# C02 for Linux/ppc64 (`ppc64_linux_rpn30`): the library's walk equals the specification

`walk_eq_spec_ppc64`: for every memory, root, PTE mask (`< 2^64`), architectural
paging form (`archFormPpc64`) and input address, the one-call walk of the model
(`Kdf.Model.Pgt.walk` with the ppc64 handler of `Kdf/Model/PgtPpc64.lean`)
returns the address `Kdf.Spec.ArchPpc64.specPpc64` defines, or fails with the same
status — provided the walk does not meet an entry of the documented deviation
classes D1/D2 (`knownDeviation`, see `Kdf/Spec/ArchPpc64.lean`).

No bound on `va`, `root.addr` or the memory contents is needed.

The two paging forms are handled by two textually identical developments
(`Form1` = `[16,12,12,4]`, `Form2` = `[16,8,10,12]`) that differ only in the four
`local notation`s: `omega` needs literal powers of two.  Each unrolls the walk
level by level (`level1` PTE page, `level2` PMD, `level3` PGD).
-/
namespace Kdf.Props.C02Ppc64
set_option maxRecDepth 8000
set_option linter.unusedSimpArgs false
open Kdf.Model.Pgt Kdf.Model.PgtArch Kdf.Model.PgtPpc64 Kdf.Spec.ArchPpc64

theorem or_mul_pow (a b k : Nat) (h : b < 2^k) : a * 2^k ||| b = a * 2^k + b := by
  rw [← Nat.shiftLeft_eq, Nat.shiftLeft_add_eq_or_of_lt h]

theorem pshift_eq : ∀ p, p < 16 → mmuPshift p = psizeShift p := by decide

theorem pgt_char (mem : Mem) (t mask : Nat) (pf : PagingForm) (s : Step) :
    pgtPpc64LinuxRpn30 mem t mask pf s =
      match mem s.base.as s.base.addr 8 with
      | .error e => .error e
      | .ok v =>
        let pte := v &&& ((W - 1) ^^^ mask % W)
        let s' : Step := { s with raw := v }
        if pte = 0 then .error .notpresent
        else if s.remain > 1 then
          if pte % 4 ≠ 0 then .ok (hugePageLinux t pf s' pte 30)
          else if pte / 2^63 % 2 = 1 then
            .ok { s' with base := ⟨pte / 2^(3 + fieldAt pf (s.remain - 1)) * 2^(3 + fieldAt pf (s.remain - 1)), 2⟩ }
          else hugePdLinux pf s' pte
        else .ok { s' with base := ⟨(pte / 2^30 * 2^(fieldAt pf 0)) % W, t⟩, elemsz := 1 } := by
  unfold pgtPpc64LinuxRpn30 pgtPpc64Linux readPte
  cases h : mem s.base.as s.base.addr 8 with
  | error e => rfl
  | ok v =>
    simp only [bind, Except.bind, pure, Except.pure, throw, throwThe, MonadExceptOf.throw,
      isHugepteLinux, isHugepdLinux, testBit, clearLow, Kdf.Model.PgtPpc64.KVADDR]
    generalize v &&& ((W - 1) ^^^ mask % W) = pte
    by_cases h0 : pte = 0
    · simp [h0]
    · by_cases hr : s.remain > 1
      · by_cases h4 : pte % 4 = 0
        · by_cases h63 : pte / 2^63 % 2 = 1
          · simp [h0, hr, h4, h63]
          · simp [h0, hr, h4, h63]
        · simp [h0, hr, h4]
      · simp [h0, hr]

theorem k_isHugepd (e : Nat) : kernel.isHugepd e = decide (e / 4 % 16 ≠ 0) := rfl
theorem k_needPresent : kernel.needPresent = true := rfl

theorem walkLoop_final (mem : Mem) (m : Meth) (fuel : Nat) (s : Step) (h : s.remain = 1) :
    walkLoop extra mem m (fuel + 1) s =
      .ok { base := { addr := (s.base.addr + idxAt s 0 * s.elemsz) % W, as := m.targetAs },
            remain := 0, elemsz := 0, idx := s.idx, raw := s.raw } := by
  simp [walkLoop, h]

theorem walkLoop_step (mem : Mem) (m : Meth) (fuel : Nat) (s : Step) (h : s.remain - 1 ≠ 0) :
    walkLoop extra mem m (fuel + 1) s =
      match nextStep extra mem m
          { base := { addr := (s.base.addr + idxAt s (s.remain - 1) * s.elemsz) % W, as := s.base.as },
            remain := s.remain - 1, elemsz := s.elemsz, idx := s.idx, raw := s.raw } with
      | .error e => .error e
      | .ok s2 => walkLoop extra mem m fuel s2 := by
  rw [walkLoop]
  simp only [h, if_false]
  split <;> simp_all

theorem hugepd_invalid (pf : PagingForm) (s : Step) (pte : Nat) (h : hugepdShift pte = 0) :
    hugePdLinux pf s pte = .error .invalid := by
  simp [hugePdLinux, h]


namespace Form1

local notation "f0" => 16
local notation "f1" => 12
local notation "f2" => 12
local notation "f3" => 4

def FF : List Nat := [f0, f1, f2, f3]
def PF : PagingForm := ⟨.ppc64LinuxRpn30, FF⟩
def idxs (va : Nat) : List Nat :=
  [va % 2^f0, va / 2^f0 % 2^f1, va / 2^(f0+f1) % 2^f2, va / 2^(f0+f1+f2) % 2^f3, va / 2^(f0+f1+f2+f3), 0, 0, 0, 0]
/-- canonical state in front of the table indexed by field `r` -/
def st (va r : Nat) (tbl : FullAddr) (raw : Nat) : Step :=
  { base := tbl, remain := r + 1, elemsz := 8, idx := idxs va, raw := raw }

theorem first (t : Nat) (root : FullAddr) (m va : Nat) (h : root.as ≠ NOADDR) :
    firstStep (.pgt t root m PF) va = .ok (st va 3 root 0) := by
  simp [firstStep, firstStepPgtGeneric, h, PF, FF, firstStepPgtGeneric.split, st, idxs, ptevalShift]
  omega

theorem fold3 (va : Nat) :
    va % 2^f0 ||| ((va / 2^(f0+f1) % 2^f2 * 2^f1 % W ||| va / 2^f0 % 2^f1) * 2^f0 % W) = va % 2^(f0+f1+f2) := by
  rw [Nat.mod_eq_of_lt (show va / 2^(f0+f1) % 2^f2 * 2^f1 < W by show _ < 2^64; omega),
    or_mul_pow _ _ f1 (by omega),
    Nat.mod_eq_of_lt (show (va / 2^(f0+f1) % 2^f2 * 2^f1 + va / 2^f0 % 2^f1) * 2^f0 < W by show _ < 2^64; omega),
    Nat.or_comm, or_mul_pow _ _ f0 (by omega)]
  omega

theorem fold2 (va : Nat) :
    va % 2^f0 ||| (va / 2^f0 % 2^f1 * 2^f0 % W) = va % 2^(f0+f1) := by
  rw [Nat.mod_eq_of_lt (show va / 2^f0 % 2^f1 * 2^f0 < W by show _ < 2^64; omega),
    Nat.or_comm, or_mul_pow _ _ f0 (by omega)]
  omega

theorem huge3 (t va : Nat) (b : FullAddr) (raw pte : Nat) :
    hugePageLinux t PF { base := b, remain := 3, elemsz := 8, idx := idxs va, raw := raw } pte 30 =
      { base := ⟨pte / 2^30 * 2^f0 % W, t⟩, remain := 1, elemsz := 1,
        idx := (va % 2^(f0+f1+f2)) :: (idxs va).tail, raw := raw } := by
  simp [hugePageLinux, hugePage, hugePage.go, PF, FF, fieldAt, idxs, setIdx, idxAt]
  simpa using fold3 va

theorem huge2 (t va : Nat) (b : FullAddr) (raw pte : Nat) :
    hugePageLinux t PF { base := b, remain := 2, elemsz := 8, idx := idxs va, raw := raw } pte 30 =
      { base := ⟨pte / 2^30 * 2^f0 % W, t⟩, remain := 1, elemsz := 1,
        idx := (va % 2^(f0+f1)) :: (idxs va).tail, raw := raw } := by
  simp [hugePageLinux, hugePage, hugePage.go, PF, FF, fieldAt, idxs, setIdx, idxAt]
  simpa using fold2 va

theorem idxAt0 (b : FullAddr) (r e va w : Nat) :
    idxAt { base := b, remain := r, elemsz := e, idx := idxs va, raw := w } 0 = va % 2^f0 := rfl
theorem idxAt1 (b : FullAddr) (r e va w : Nat) :
    idxAt { base := b, remain := r, elemsz := e, idx := idxs va, raw := w } 1 = va / 2^f0 % 2^f1 := rfl
theorem idxAt2 (b : FullAddr) (r e va w : Nat) :
    idxAt { base := b, remain := r, elemsz := e, idx := idxs va, raw := w } 2 = va / 2^(f0+f1) % 2^f2 := rfl
theorem idxAt3 (b : FullAddr) (r e va w : Nat) :
    idxAt { base := b, remain := r, elemsz := e, idx := idxs va, raw := w } 3 = va / 2^(f0+f1+f2) % 2^f3 := rfl
theorem idxAt0' (b : FullAddr) (r e x w : Nat) (l : List Nat) :
    idxAt { base := b, remain := r, elemsz := e, idx := x :: l, raw := w } 0 = x := rfl
theorem nextStep_eq (mem : Mem) (t : Nat) (root : FullAddr) (mask : Nat) (s : Step) :
    nextStep extra mem (.pgt t root mask PF) s = pgtPpc64LinuxRpn30 mem t mask PF s := by
  simp [nextStep, nextStepPgt, extra, PF]

theorem level1 (mem : Mem) (t : Nat) (root : FullAddr) (mask va : Nat) (tbl : FullAddr) (raw fuel : Nat)
    (hmask : mask < W) (hdev : deviationClass mem FF mask va 1 tbl = 0) :
    (walkLoop extra mem (.pgt t root mask PF) (fuel + 2) (st va 1 tbl raw)).map (·.base) =
      Kdf.Spec.ArchPpc64.descend kernel mem FF t mask va 1 tbl := by
  rw [walkLoop_step _ _ _ _ (by simp [st]), nextStep_eq, pgt_char]
  rw [deviationClass] at hdev
  rw [Kdf.Spec.ArchPpc64.descend]
  simp only [st, FF, Kdf.Spec.ArchWalk.spanBits, Nat.mod_eq_of_lt hmask] at hdev ⊢
  simp [idxAt1] at hdev ⊢
  cases hm : mem tbl.as ((tbl.addr + va / 2^f0 % 2^f1 * 8) % W) 8 with
  | error e => rfl
  | ok v =>
    rw [hm] at hdev
    simp only at hdev ⊢
    generalize v &&& (18446744073709551615 ^^^ mask) = pte at hdev ⊢
    by_cases h0 : pte = 0
    · simp [h0, finalPte, Except.map]
    · have hp : pte % 2 = 1 := by
        simp [devFinal, h0] at hdev; omega
      simp [h0, finalPte, k_needPresent, hp, walkLoop_final, Except.map, idxAt0, Meth.targetAs, PF, FF, fieldAt, rpnShift]

theorem level2 (mem : Mem) (t : Nat) (root : FullAddr) (mask va : Nat) (tbl : FullAddr) (raw fuel : Nat)
    (hmask : mask < W) (hdev : deviationClass mem FF mask va 2 tbl = 0) :
    (walkLoop extra mem (.pgt t root mask PF) (fuel + 3) (st va 2 tbl raw)).map (·.base) =
      Kdf.Spec.ArchPpc64.descend kernel mem FF t mask va 2 tbl := by
  rw [walkLoop_step _ _ _ _ (by simp [st]), nextStep_eq, pgt_char]
  rw [deviationClass] at hdev
  rw [Kdf.Spec.ArchPpc64.descend]
  simp only [st, FF, Kdf.Spec.ArchWalk.spanBits, Nat.mod_eq_of_lt hmask] at hdev ⊢
  simp [idxAt2] at hdev ⊢
  cases hm : mem tbl.as ((tbl.addr + va / 2^(f0+f1) % 2^f2 * 8) % W) 8 with
  | error e => rfl
  | ok v =>
    rw [hm] at hdev
    simp only at hdev ⊢
    generalize v &&& (18446744073709551615 ^^^ mask) = pte at hdev ⊢
    by_cases h0 : pte = 0
    · simp [h0, Except.map]
    · by_cases h4 : pte % 4 = 0
      · simp only [h0, h4, if_true, if_false] at hdev ⊢
        by_cases hd : devDir pte = true
        · simp [hd] at hdev
        · simp only [hd] at hdev
          by_cases h63 : pte / 9223372036854775808 % 2 = 1
          · have hps : pte / 4 % 16 = 0 := by
              simp [devDir, h63] at hd; omega
            simp only [hps, if_true] at hdev
            have := level1 mem t root mask va ⟨pte / 2^(3+f1) * 2^(3+f1), 2⟩ v fuel hmask
              (by simpa [FF, Kdf.Spec.ArchPpc64.KVADDR] using hdev)
            simp [h63, k_isHugepd, hps]
            simpa [st, PF, FF, fieldAt, Kdf.Spec.ArchPpc64.KVADDR] using this
          · have h63' : pte / 9223372036854775808 % 2 = 0 := by omega
            have hps : pte / 4 % 16 ≠ 0 ∧ psizeShift (pte / 4 % 16) = 0 := by
              simp [devDir, h63'] at hd; exact hd
            have hsh : hugepdShift pte = 0 := by
              have e : pte % 2^6 / 2^2 = pte / 4 % 16 := by omega
              rw [hugepdShift, e, pshift_eq _ (by omega)]; exact hps.2
            simp [h63, k_isHugepd, hps.1, hps.2, hugepd_invalid _ _ _ hsh, Except.map]
      · have hp : pte % 2 = 1 := by
          simp [devFinal, h0, h4] at hdev; omega
        simp [h0, h4, huge2, finalPte, k_needPresent, hp, walkLoop_final, Except.map, idxAt0', Meth.targetAs, rpnShift]

theorem level3 (mem : Mem) (t : Nat) (root : FullAddr) (mask va : Nat) (tbl : FullAddr) (raw fuel : Nat)
    (hmask : mask < W) (hdev : deviationClass mem FF mask va 3 tbl = 0) :
    (walkLoop extra mem (.pgt t root mask PF) (fuel + 4) (st va 3 tbl raw)).map (·.base) =
      Kdf.Spec.ArchPpc64.descend kernel mem FF t mask va 3 tbl := by
  rw [walkLoop_step _ _ _ _ (by simp [st]), nextStep_eq, pgt_char]
  rw [deviationClass] at hdev
  rw [Kdf.Spec.ArchPpc64.descend]
  simp only [st, FF, Kdf.Spec.ArchWalk.spanBits, Nat.mod_eq_of_lt hmask] at hdev ⊢
  simp [idxAt3] at hdev ⊢
  cases hm : mem tbl.as ((tbl.addr + va / 2^(f0+f1+f2) % 2^f3 * 8) % W) 8 with
  | error e => rfl
  | ok v =>
    rw [hm] at hdev
    simp only at hdev ⊢
    generalize v &&& (18446744073709551615 ^^^ mask) = pte at hdev ⊢
    by_cases h0 : pte = 0
    · simp [h0, Except.map]
    · by_cases h4 : pte % 4 = 0
      · simp only [h0, h4, if_true, if_false] at hdev ⊢
        by_cases hd : devDir pte = true
        · simp [hd] at hdev
        · simp only [hd] at hdev
          by_cases h63 : pte / 9223372036854775808 % 2 = 1
          · have hps : pte / 4 % 16 = 0 := by
              simp [devDir, h63] at hd; omega
            simp only [hps, if_true] at hdev
            have := level2 mem t root mask va ⟨pte / 2^(3+f2) * 2^(3+f2), 2⟩ v fuel hmask
              (by simpa [FF, Kdf.Spec.ArchPpc64.KVADDR] using hdev)
            simp [h63, k_isHugepd, hps]
            simpa [st, PF, FF, fieldAt, Kdf.Spec.ArchPpc64.KVADDR] using this
          · have h63' : pte / 9223372036854775808 % 2 = 0 := by omega
            have hps : pte / 4 % 16 ≠ 0 ∧ psizeShift (pte / 4 % 16) = 0 := by
              simp [devDir, h63'] at hd; exact hd
            have hsh : hugepdShift pte = 0 := by
              have e : pte % 2^6 / 2^2 = pte / 4 % 16 := by omega
              rw [hugepdShift, e, pshift_eq _ (by omega)]; exact hps.2
            simp [h63, k_isHugepd, hps.1, hps.2, hugepd_invalid _ _ _ hsh, Except.map]
      · have hp : pte % 2 = 1 := by
          simp [devFinal, h0, h4] at hdev; omega
        simp [h0, h4, huge3, finalPte, k_needPresent, hp, walkLoop_final, Except.map, idxAt0', Meth.targetAs, rpnShift]

theorem walk_form (mem : Mem) (t : Nat) (root : FullAddr) (mask va : Nat) (hmask : mask < W)
    (hdev : knownDeviation mem t root mask PF va = false) :
    (walk extra mem (.pgt t root mask PF) va).map (·.base) = specPpc64 mem t root mask PF va := by
  unfold walk specPpc64 specWith
  by_cases hr : root.as = NOADDR
  · simp [firstStep, firstStepPgtGeneric, hr, PF, Except.map]
  · rw [first _ _ _ _ hr]
    have hd : deviationClass mem FF mask va 3 root = 0 := by
      simpa [knownDeviation, knownDeviationClass, hr, PF, FF] using hdev
    have := level3 mem t root mask va root 0 1 hmask hd
    simpa [st, hr, PF, FF] using this

end Form1

namespace Form2

local notation "f0" => 16
local notation "f1" => 8
local notation "f2" => 10
local notation "f3" => 12

def FF : List Nat := [f0, f1, f2, f3]
def PF : PagingForm := ⟨.ppc64LinuxRpn30, FF⟩
def idxs (va : Nat) : List Nat :=
  [va % 2^f0, va / 2^f0 % 2^f1, va / 2^(f0+f1) % 2^f2, va / 2^(f0+f1+f2) % 2^f3, va / 2^(f0+f1+f2+f3), 0, 0, 0, 0]
/-- canonical state in front of the table indexed by field `r` -/
def st (va r : Nat) (tbl : FullAddr) (raw : Nat) : Step :=
  { base := tbl, remain := r + 1, elemsz := 8, idx := idxs va, raw := raw }

theorem first (t : Nat) (root : FullAddr) (m va : Nat) (h : root.as ≠ NOADDR) :
    firstStep (.pgt t root m PF) va = .ok (st va 3 root 0) := by
  simp [firstStep, firstStepPgtGeneric, h, PF, FF, firstStepPgtGeneric.split, st, idxs, ptevalShift]
  omega

theorem fold3 (va : Nat) :
    va % 2^f0 ||| ((va / 2^(f0+f1) % 2^f2 * 2^f1 % W ||| va / 2^f0 % 2^f1) * 2^f0 % W) = va % 2^(f0+f1+f2) := by
  rw [Nat.mod_eq_of_lt (show va / 2^(f0+f1) % 2^f2 * 2^f1 < W by show _ < 2^64; omega),
    or_mul_pow _ _ f1 (by omega),
    Nat.mod_eq_of_lt (show (va / 2^(f0+f1) % 2^f2 * 2^f1 + va / 2^f0 % 2^f1) * 2^f0 < W by show _ < 2^64; omega),
    Nat.or_comm, or_mul_pow _ _ f0 (by omega)]
  omega

theorem fold2 (va : Nat) :
    va % 2^f0 ||| (va / 2^f0 % 2^f1 * 2^f0 % W) = va % 2^(f0+f1) := by
  rw [Nat.mod_eq_of_lt (show va / 2^f0 % 2^f1 * 2^f0 < W by show _ < 2^64; omega),
    Nat.or_comm, or_mul_pow _ _ f0 (by omega)]
  omega

theorem huge3 (t va : Nat) (b : FullAddr) (raw pte : Nat) :
    hugePageLinux t PF { base := b, remain := 3, elemsz := 8, idx := idxs va, raw := raw } pte 30 =
      { base := ⟨pte / 2^30 * 2^f0 % W, t⟩, remain := 1, elemsz := 1,
        idx := (va % 2^(f0+f1+f2)) :: (idxs va).tail, raw := raw } := by
  simp [hugePageLinux, hugePage, hugePage.go, PF, FF, fieldAt, idxs, setIdx, idxAt]
  simpa using fold3 va

theorem huge2 (t va : Nat) (b : FullAddr) (raw pte : Nat) :
    hugePageLinux t PF { base := b, remain := 2, elemsz := 8, idx := idxs va, raw := raw } pte 30 =
      { base := ⟨pte / 2^30 * 2^f0 % W, t⟩, remain := 1, elemsz := 1,
        idx := (va % 2^(f0+f1)) :: (idxs va).tail, raw := raw } := by
  simp [hugePageLinux, hugePage, hugePage.go, PF, FF, fieldAt, idxs, setIdx, idxAt]
  simpa using fold2 va

theorem idxAt0 (b : FullAddr) (r e va w : Nat) :
    idxAt { base := b, remain := r, elemsz := e, idx := idxs va, raw := w } 0 = va % 2^f0 := rfl
theorem idxAt1 (b : FullAddr) (r e va w : Nat) :
    idxAt { base := b, remain := r, elemsz := e, idx := idxs va, raw := w } 1 = va / 2^f0 % 2^f1 := rfl
theorem idxAt2 (b : FullAddr) (r e va w : Nat) :
    idxAt { base := b, remain := r, elemsz := e, idx := idxs va, raw := w } 2 = va / 2^(f0+f1) % 2^f2 := rfl
theorem idxAt3 (b : FullAddr) (r e va w : Nat) :
    idxAt { base := b, remain := r, elemsz := e, idx := idxs va, raw := w } 3 = va / 2^(f0+f1+f2) % 2^f3 := rfl
theorem idxAt0' (b : FullAddr) (r e x w : Nat) (l : List Nat) :
    idxAt { base := b, remain := r, elemsz := e, idx := x :: l, raw := w } 0 = x := rfl
theorem nextStep_eq (mem : Mem) (t : Nat) (root : FullAddr) (mask : Nat) (s : Step) :
    nextStep extra mem (.pgt t root mask PF) s = pgtPpc64LinuxRpn30 mem t mask PF s := by
  simp [nextStep, nextStepPgt, extra, PF]

theorem level1 (mem : Mem) (t : Nat) (root : FullAddr) (mask va : Nat) (tbl : FullAddr) (raw fuel : Nat)
    (hmask : mask < W) (hdev : deviationClass mem FF mask va 1 tbl = 0) :
    (walkLoop extra mem (.pgt t root mask PF) (fuel + 2) (st va 1 tbl raw)).map (·.base) =
      Kdf.Spec.ArchPpc64.descend kernel mem FF t mask va 1 tbl := by
  rw [walkLoop_step _ _ _ _ (by simp [st]), nextStep_eq, pgt_char]
  rw [deviationClass] at hdev
  rw [Kdf.Spec.ArchPpc64.descend]
  simp only [st, FF, Kdf.Spec.ArchWalk.spanBits, Nat.mod_eq_of_lt hmask] at hdev ⊢
  simp [idxAt1] at hdev ⊢
  cases hm : mem tbl.as ((tbl.addr + va / 2^f0 % 2^f1 * 8) % W) 8 with
  | error e => rfl
  | ok v =>
    rw [hm] at hdev
    simp only at hdev ⊢
    generalize v &&& (18446744073709551615 ^^^ mask) = pte at hdev ⊢
    by_cases h0 : pte = 0
    · simp [h0, finalPte, Except.map]
    · have hp : pte % 2 = 1 := by
        simp [devFinal, h0] at hdev; omega
      simp [h0, finalPte, k_needPresent, hp, walkLoop_final, Except.map, idxAt0, Meth.targetAs, PF, FF, fieldAt, rpnShift]

theorem level2 (mem : Mem) (t : Nat) (root : FullAddr) (mask va : Nat) (tbl : FullAddr) (raw fuel : Nat)
    (hmask : mask < W) (hdev : deviationClass mem FF mask va 2 tbl = 0) :
    (walkLoop extra mem (.pgt t root mask PF) (fuel + 3) (st va 2 tbl raw)).map (·.base) =
      Kdf.Spec.ArchPpc64.descend kernel mem FF t mask va 2 tbl := by
  rw [walkLoop_step _ _ _ _ (by simp [st]), nextStep_eq, pgt_char]
  rw [deviationClass] at hdev
  rw [Kdf.Spec.ArchPpc64.descend]
  simp only [st, FF, Kdf.Spec.ArchWalk.spanBits, Nat.mod_eq_of_lt hmask] at hdev ⊢
  simp [idxAt2] at hdev ⊢
  cases hm : mem tbl.as ((tbl.addr + va / 2^(f0+f1) % 2^f2 * 8) % W) 8 with
  | error e => rfl
  | ok v =>
    rw [hm] at hdev
    simp only at hdev ⊢
    generalize v &&& (18446744073709551615 ^^^ mask) = pte at hdev ⊢
    by_cases h0 : pte = 0
    · simp [h0, Except.map]
    · by_cases h4 : pte % 4 = 0
      · simp only [h0, h4, if_true, if_false] at hdev ⊢
        by_cases hd : devDir pte = true
        · simp [hd] at hdev
        · simp only [hd] at hdev
          by_cases h63 : pte / 9223372036854775808 % 2 = 1
          · have hps : pte / 4 % 16 = 0 := by
              simp [devDir, h63] at hd; omega
            simp only [hps, if_true] at hdev
            have := level1 mem t root mask va ⟨pte / 2^(3+f1) * 2^(3+f1), 2⟩ v fuel hmask
              (by simpa [FF, Kdf.Spec.ArchPpc64.KVADDR] using hdev)
            simp [h63, k_isHugepd, hps]
            simpa [st, PF, FF, fieldAt, Kdf.Spec.ArchPpc64.KVADDR] using this
          · have h63' : pte / 9223372036854775808 % 2 = 0 := by omega
            have hps : pte / 4 % 16 ≠ 0 ∧ psizeShift (pte / 4 % 16) = 0 := by
              simp [devDir, h63'] at hd; exact hd
            have hsh : hugepdShift pte = 0 := by
              have e : pte % 2^6 / 2^2 = pte / 4 % 16 := by omega
              rw [hugepdShift, e, pshift_eq _ (by omega)]; exact hps.2
            simp [h63, k_isHugepd, hps.1, hps.2, hugepd_invalid _ _ _ hsh, Except.map]
      · have hp : pte % 2 = 1 := by
          simp [devFinal, h0, h4] at hdev; omega
        simp [h0, h4, huge2, finalPte, k_needPresent, hp, walkLoop_final, Except.map, idxAt0', Meth.targetAs, rpnShift]

theorem level3 (mem : Mem) (t : Nat) (root : FullAddr) (mask va : Nat) (tbl : FullAddr) (raw fuel : Nat)
    (hmask : mask < W) (hdev : deviationClass mem FF mask va 3 tbl = 0) :
    (walkLoop extra mem (.pgt t root mask PF) (fuel + 4) (st va 3 tbl raw)).map (·.base) =
      Kdf.Spec.ArchPpc64.descend kernel mem FF t mask va 3 tbl := by
  rw [walkLoop_step _ _ _ _ (by simp [st]), nextStep_eq, pgt_char]
  rw [deviationClass] at hdev
  rw [Kdf.Spec.ArchPpc64.descend]
  simp only [st, FF, Kdf.Spec.ArchWalk.spanBits, Nat.mod_eq_of_lt hmask] at hdev ⊢
  simp [idxAt3] at hdev ⊢
  cases hm : mem tbl.as ((tbl.addr + va / 2^(f0+f1+f2) % 2^f3 * 8) % W) 8 with
  | error e => rfl
  | ok v =>
    rw [hm] at hdev
    simp only at hdev ⊢
    generalize v &&& (18446744073709551615 ^^^ mask) = pte at hdev ⊢
    by_cases h0 : pte = 0
    · simp [h0, Except.map]
    · by_cases h4 : pte % 4 = 0
      · simp only [h0, h4, if_true, if_false] at hdev ⊢
        by_cases hd : devDir pte = true
        · simp [hd] at hdev
        · simp only [hd] at hdev
          by_cases h63 : pte / 9223372036854775808 % 2 = 1
          · have hps : pte / 4 % 16 = 0 := by
              simp [devDir, h63] at hd; omega
            simp only [hps, if_true] at hdev
            have := level2 mem t root mask va ⟨pte / 2^(3+f2) * 2^(3+f2), 2⟩ v fuel hmask
              (by simpa [FF, Kdf.Spec.ArchPpc64.KVADDR] using hdev)
            simp [h63, k_isHugepd, hps]
            simpa [st, PF, FF, fieldAt, Kdf.Spec.ArchPpc64.KVADDR] using this
          · have h63' : pte / 9223372036854775808 % 2 = 0 := by omega
            have hps : pte / 4 % 16 ≠ 0 ∧ psizeShift (pte / 4 % 16) = 0 := by
              simp [devDir, h63'] at hd; exact hd
            have hsh : hugepdShift pte = 0 := by
              have e : pte % 2^6 / 2^2 = pte / 4 % 16 := by omega
              rw [hugepdShift, e, pshift_eq _ (by omega)]; exact hps.2
            simp [h63, k_isHugepd, hps.1, hps.2, hugepd_invalid _ _ _ hsh, Except.map]
      · have hp : pte % 2 = 1 := by
          simp [devFinal, h0, h4] at hdev; omega
        simp [h0, h4, huge3, finalPte, k_needPresent, hp, walkLoop_final, Except.map, idxAt0', Meth.targetAs, rpnShift]

theorem walk_form (mem : Mem) (t : Nat) (root : FullAddr) (mask va : Nat) (hmask : mask < W)
    (hdev : knownDeviation mem t root mask PF va = false) :
    (walk extra mem (.pgt t root mask PF) va).map (·.base) = specPpc64 mem t root mask PF va := by
  unfold walk specPpc64 specWith
  by_cases hr : root.as = NOADDR
  · simp [firstStep, firstStepPgtGeneric, hr, PF, Except.map]
  · rw [first _ _ _ _ hr]
    have hd : deviationClass mem FF mask va 3 root = 0 := by
      simpa [knownDeviation, knownDeviationClass, hr, PF, FF] using hdev
    have := level3 mem t root mask va root 0 1 hmask hd
    simpa [st, hr, PF, FF] using this

end Form2

/-- **C02 / ppc64.** -/
theorem walk_eq_spec_ppc64 (mem : Mem) (t : Nat) (root : FullAddr) (pteMask : Nat) (pf : PagingForm)
    (va : Nat) (hform : archFormPpc64 pf = true) (hmask : pteMask < W)
    (hdev : knownDeviation mem t root pteMask pf va = false) :
    (walk extra mem (.pgt t root pteMask pf) va).map (·.base) = specPpc64 mem t root pteMask pf va := by
  obtain ⟨fmt, fieldsz⟩ := pf
  simp only [archFormPpc64, Bool.and_eq_true, Bool.or_eq_true, decide_eq_true_eq] at hform
  obtain ⟨hfmt, hf | hf⟩ := hform
  · subst hfmt; subst hf
    exact Form1.walk_form mem t root pteMask va hmask hdev
  · subst hfmt; subst hf
    exact Form2.walk_form mem t root pteMask va hmask hdev

end Kdf.Props.C02Ppc64
