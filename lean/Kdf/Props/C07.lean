import Kdf.Model.Pfn
import Kdf.Lemmas.Pfn
import Kdf.Lemmas.PfnScan
import Kdf.Lemmas.PfnRegions
import Kdf.Lemmas.PfnFind
import Kdf.Lemmas.PfnBits
import Kdf.Lemmas.PfnMaps
import Kdf.Lemmas.PfnGetBits
/-!
# C07 — page maps agree with what can be read, and with themselves

Property theorems only.  `S` = the set of frames a bitmap / region list /
segment list describes; every query function returns what `S` says.
-/
set_option linter.unusedVariables false  -- some hypotheses of the statements are not needed

namespace Kdf.Props.C07
open Kdf.Model.Pfn Kdf.Lemmas.Pfn

/-! ### Bit scans (both bit orders) -/

theorem skip_clear_spec (msb0 : Bool) (bm : Bitmap) (hb : BytesWF bm) (size pfn : Nat) (hs : size ≤ bm.length) :
    let r := if msb0 then skipClearMsb0 bm size pfn else skipClearLsb0 bm size pfn
    pfn ≤ r ∧ (pfn < size * 8 → r ≤ size * 8) ∧
    (∀ j, pfn ≤ j → j < r → j < size * 8 → bitOf msb0 bm j = false) ∧
    (r < size * 8 → bitOf msb0 bm r = true) :=
  skipClear_spec msb0 bm hb size pfn

theorem skip_set_spec (msb0 : Bool) (bm : Bitmap) (hb : BytesWF bm) (size pfn : Nat) (hs : size ≤ bm.length) :
    let r := if msb0 then skipSetMsb0 bm size pfn else skipSetLsb0 bm size pfn
    pfn ≤ r ∧ (pfn < size * 8 → r ≤ size * 8) ∧
    (∀ j, pfn ≤ j → j < r → j < size * 8 → bitOf msb0 bm j = true) ∧
    (r < size * 8 → bitOf msb0 bm r = false) :=
  skipSet_spec msb0 bm hb size pfn

/-! ### Regions built from a bitmap -/

/-- The region list consists of the maximal runs of set bits inside
`[start, end)`, in ascending order, and covers exactly the set bits. -/
theorem regions_spec (msb0 : Bool) (bm : Bitmap) (hb : BytesWF bm) (startPfn endPfn fileoff elemsz : Nat)
    (hlen : (endPfn + 7) / 8 ≤ bm.length) :
    let rs := regionsFromBitmap bm msb0 startPfn endPfn fileoff elemsz
    RegionsMaximal rs ∧
    (∀ r ∈ rs, startPfn ≤ r.pfn ∧ r.pfn + r.cnt ≤ endPfn ∧ ∀ p, r.has p → bitOf msb0 bm p = true) ∧
    (∀ p, startPfn ≤ p → p < endPfn → bitOf msb0 bm p = true → ∃ r ∈ rs, r.has p) := by
  obtain ⟨h1, h2, h3, _⟩ := rgo_spec msb0 bm hb endPfn elemsz ((endPfn + 7) / 8) (by omega)
    (endPfn + 1) startPfn fileoff (by omega)
  exact ⟨h1, h2, h3⟩

/-- File position of a region = `fileoff + elemsz ·` (number of set bits in `[start, r.pfn)`). -/
theorem regions_pos (msb0 : Bool) (bm : Bitmap) (hb : BytesWF bm) (startPfn endPfn fileoff elemsz : Nat)
    (hlen : (endPfn + 7) / 8 ≤ bm.length) (r : Region)
    (hr : r ∈ regionsFromBitmap bm msb0 startPfn endPfn fileoff elemsz) :
    r.pos = fileoff + elemsz *
      ((List.range (r.pfn - startPfn)).filter (fun i => bitOf msb0 bm (startPfn + i))).length := by
  obtain ⟨_, _, _, h4⟩ := rgo_spec msb0 bm hb endPfn elemsz ((endPfn + 7) / 8) (by omega)
    (endPfn + 1) startPfn fileoff (by omega)
  exact h4 r hr

/-! ### Lookups -/

/-- Binary search: the region containing `p`, else the first region above `p`, else none. -/
theorem find_region_spec (rs : List Region) (h : RegionsSorted rs) (p : Nat) :
    match findRegion rs p with
    | some r => r ∈ rs ∧ p < r.pfn + r.cnt ∧ ∀ q ∈ rs, p < q.pfn + q.cnt → r.pfn ≤ q.pfn
    | none => ∀ q ∈ rs, q.pfn + q.cnt ≤ p := by
  split
  · rename_i r hr; exact findRegion_some h hr
  · rename_i hr; exact findRegion_none h hr

/-- find-next-set: the least mapped frame at or above `p` (single file or split set). -/
theorem find_mapped_spec (maps : List FileMap) (h : MapsWF maps) (p : Nat) :
    match findMapped maps p with
    | some q => p ≤ q ∧ Mapped maps q ∧ ∀ j, p ≤ j → j < q → ¬ Mapped maps j
    | none => ∀ j, p ≤ j → ¬ Mapped maps j := by
  split
  · rename_i q hq; exact findMapped_some h hq
  · rename_i hq; exact findMapped_none h hq

/-- find-next-clear: the least unmapped frame at or above `p`. -/
theorem find_unmapped_spec (maps : List FileMap) (h : MapsWF maps) (p fuel : Nat)
    (hf : (maps.map (fun m => m.regions.length)).foldl (· + ·) 0 < fuel) :
    let q := findUnmapped maps fuel p
    p ≤ q ∧ ¬ Mapped maps q ∧ ∀ j, p ≤ j → j < q → Mapped maps j := by
  apply findUnmapped_spec' maps h fuel p
  rw [total_regions] at hf
  exact Nat.lt_of_le_of_lt (remaining_le maps p) hf

/-! ### Bulk retrieval -/

/-- `set_bits` sets exactly the bits `[s, e]`, touches no other bit and stays
inside the buffer. -/
theorem set_bits_spec (buf : Bitmap) (hb : BytesWF buf) (s e : Nat) (hse : s ≤ e) (he : e / 8 < buf.length) :
    ∃ buf', setBits buf s e = some buf' ∧ buf'.length = buf.length ∧ BytesWF buf' ∧
      ∀ i, i < buf.length * 8 → bitL buf' i = (if s ≤ i ∧ i ≤ e then true else bitL buf i) :=
  setBits_spec buf hb s e hse he

theorem clear_bits_spec (buf : Bitmap) (hb : BytesWF buf) (s e : Nat) (hse : s ≤ e) (he : e / 8 < buf.length) :
    ∃ buf', clearBits buf s e = some buf' ∧ buf'.length = buf.length ∧ BytesWF buf' ∧
      ∀ i, i < buf.length * 8 → bitL buf' i = (if s ≤ i ∧ i ≤ e then false else bitL buf i) :=
  clearBits_spec buf hb s e hse he

/-- Bulk retrieval over any range: the buffer has exactly `(last−first)/8+1`
bytes (nothing is written beyond), bit `i` says whether frame `first+i` is
mapped, and the padding bits of the last byte are zero. -/
theorem get_bits_spec (maps : List FileMap) (h : MapsWF maps) (first last : Nat) (hfl : first ≤ last) :
    ∃ buf, getMapBits maps first last = some buf ∧ buf.length = (last - first) / 8 + 1 ∧ BytesWF buf ∧
      ∀ i, i < buf.length * 8 → (bitL buf i = true ↔ (i ≤ last - first ∧ Mapped maps (first + i))) :=
  getMapBits_spec maps h first last hfl

/-- The three queries are mutually consistent (corollary of the specs). -/
theorem queries_consistent (maps : List FileMap) (h : MapsWF maps) (first last : Nat) (hfl : first ≤ last) (buf : Bitmap)
    (hb : getMapBits maps first last = some buf) (i : Nat) (hi : i ≤ last - first) :
    (bitL buf i = true → findMapped maps (first + i) = some (first + i)) ∧
    (bitL buf i = false → ∀ fuel, (maps.map (fun m => m.regions.length)).foldl (· + ·) 0 < fuel →
        findUnmapped maps fuel (first + i) = first + i) := by
  obtain ⟨buf', e1, e2, _, e4⟩ := get_bits_spec maps h first last hfl
  rw [hb] at e1
  simp only [Option.some.injEq] at e1
  subst e1
  have hbit := e4 i (by rw [e2]; omega)
  constructor
  · intro ht
    have hm : Mapped maps (first + i) := (hbit.mp ht).2
    have := find_mapped_spec maps h (first + i)
    split at this
    · rename_i q hq
      obtain ⟨a1, a2, a3⟩ := this
      by_cases hlt : first + i < q
      · exact absurd hm (a3 _ (Nat.le_refl _) hlt)
      · rw [hq]; congr 1; omega
    · exact absurd hm (this _ (Nat.le_refl _))
  · intro hf fuel hfuel
    have hm : ¬ Mapped maps (first + i) := by
      intro hm
      have := hbit.mpr ⟨hi, hm⟩
      rw [hf] at this
      exact Bool.false_ne_true this
    obtain ⟨a1, a2, a3⟩ := find_unmapped_spec maps h (first + i) fuel hfuel
    by_cases hlt : first + i < findUnmapped maps fuel (first + i)
    · exact absurd (a3 _ (Nat.le_refl _) hlt) hm
    · omega

/-! ### ELF segments -/

theorem elf_get_bits_spec (segs : List Seg) (h : SegsSorted segs) (shift first last : Nat) (hfl : first ≤ last)
    (hsh : shift < 64) :
    ∃ buf, elfGetBits segs shift first last = some buf ∧ buf.length = (last - first) / 8 + 1 ∧ BytesWF buf ∧
      ∀ i, i < buf.length * 8 → (bitL buf i = true ↔ (i ≤ last - first ∧ SegMapped segs shift (first + i))) :=
  elfGetBits_spec segs h shift first last hfl

theorem elf_find_set_spec (segs : List Seg) (h : SegsSorted segs) (shift idx : Nat) (hsh : shift < 64)
    (hsmall : ∀ s ∈ segs, s.phys + s.size < 2^64) (hidx : idx * 2^shift < 2^64) :
    match elfFindSet segs shift idx with
    | some q => idx ≤ q ∧ SegMapped segs shift q ∧ ∀ j, idx ≤ j → j < q → ¬ SegMapped segs shift j
    | none => ∀ j, idx ≤ j → ¬ SegMapped segs shift j := by
  split
  · rename_i q hq; exact elfFindSet_some h hq
  · rename_i hq; exact elfFindSet_none hsmall hq

/-! ### Non-vacuity -/
example : regionsFromBitmap [0x67, 0x0e] false 0 16 1000 24 =
    [⟨0, 3, 1000⟩, ⟨5, 2, 1072⟩, ⟨9, 3, 1120⟩] := by decide
example : regionsFromBitmap [0xf8, 0x70] true 3 16 0 4096 = [⟨3, 2, 0⟩, ⟨9, 3, 8192⟩] := by decide
example : getMapBits [⟨[⟨0, 3, 0⟩, ⟨5, 2, 0⟩], 0, 8⟩, ⟨[⟨9, 3, 0⟩], 8, 16⟩] 1 12 = some [0x33, 0x07] := by decide

/-! ### Axiom audit -/

end Kdf.Props.C07
