import Kdf.Model.Conc
import Kdf.Lemmas.ConcStep
import Kdf.Lemmas.ConcProps
/-!
# C05 — clones of one dump can be used from different threads at the same time

Property theorems only (helpers: `Kdf/Lemmas/Conc*.lean`).  `Reach cfg cap n s` quantifies over
ALL schedules of `n` threads (any `n`), all lookup keys and all fill outcomes, for every
capacity `cap ≥ 1`; `fixed` is the library with the reference drop under `cache_lock`,
`asFound` the library with the unlocked `--refcnt`.
-/
namespace Kdf.Props.C05
open Kdf.Model.Cache Kdf.Model.Conc Kdf.Lemmas.Cache Kdf.Lemmas.Conc

/-- Under every schedule, the reference count of every cache entry equals the number of
threads that are between `cache_get_entry` and the reference drop on that entry. -/
theorem pins_eq_holders (cap n : Nat) (hc : 0 < cap) (s : State) (h : Reach fixed cap n s) (i : Nat) :
    s.cache.refcnt i = holders s i := by
  exact (reach_ginv hc h).ref i

/-- After all threads have finished no cache entry is pinned. -/
theorem quiescent_unpinned (cap n : Nat) (hc : 0 < cap) (s : State) (h : Reach fixed cap n s)
    (hq : quiescent s) (i : Nat) : s.cache.refcnt i = 0 := by
  rw [(reach_ginv hc h).ref i]; exact holders_zero_of_quiescent hq i

/-- The C06 invariant of the page cache holds in every state reachable under any schedule. -/
theorem cache_inv (cap n : Nat) (hc : 0 < cap) (s : State) (h : Reach fixed cap n s) : Inv s.cache := by
  exact (reach_ginv hc h).cinv

/-- No thread ever copies out of a buffer that does not hold the complete page of its key
(two threads missing on the same page, a fill failing while another thread holds the same
in-flight entry, eviction pressure = number of threads: all schedules). -/
theorem no_wrong_bytes (cap n : Nat) (hc : 0 < cap) (s : State) (h : Reach fixed cap n s) :
    ∀ th ∈ s.thr, th.bad = false := by
  exact (reach_ginv hc h).bad

/-- No schedule drives the cache code into an undefined state or an API misuse. -/
theorem no_model_error (cap n : Nat) (hc : 0 < cap) (s : State) (h : Reach fixed cap n s)
    (t : Nat) (ev : Ev) (e : Err) : step fixed s t ev ≠ .err e := by
  exact ginv_no_err (reach_ginv hc h) t ev e

/-- A lookup is refused (`KDUMP_ERR_BUSY`) only while at least `cap` reads are in flight. -/
theorem busy_only_when_full (cap n : Nat) (hc : 0 < cap) (s : State) (h : Reach fixed cap n s)
    (k : Nat) (c' : Cache) (hb : get s.cache k = .ok (c', .busy)) : cap ≤ inFlightReads s := by
  exact ginv_busy_full (reach_ginv hc h) hb

/- FALSE as written: `step` does not look at the owner field of `cache_lock` when a thread is at
a pc inside a critical section, so for an arbitrary (unreachable) state `s` the thread `t` can be
at `locked1` while `s.lock = none`; the owner field is tied to the pc only by the invariant
(clause `lockA`), i.e. in reachable states.  Original statement:
theorem cache_ops_locked (s s' : State) (t : Nat) (ev : Ev) (hs : step fixed s t ev = .ok s')
    (hne : s'.cache ≠ s.cache) : s.lock = some t ∧ needLock ev = true -/

/-- The cache bookkeeping is only ever changed by the owner of `cache_lock`, through one of
the operations of the lock table (in every reachable state, under every schedule). -/
theorem cache_ops_locked (cap n : Nat) (hc : 0 < cap) (s s' : State) (h : Reach fixed cap n s)
    (t : Nat) (ev : Ev) (hs : step fixed s t ev = .ok s')
    (hne : s'.cache ≠ s.cache) : s.lock = some t ∧ needLock ev = true := by
  have g := reach_ginv hc h
  rcases step_cache_change hs hne with ⟨hl, hn⟩ | ⟨-, e, tmp, hp⟩
  · exact ⟨(g.lockA t).1 hl, hn⟩
  · exact absurd hp (g.noPutU t e tmp)

/- FALSE as written for the same reason (no invariant ties `s.lock` to the pc of an arbitrary
state).  Original statement:
theorem cache_ops_locked_as_found (s s' : State) (t : Nat) (ev : Ev) (hs : step asFound s t ev = .ok s')
    (hne : s'.cache ≠ s.cache) : (s.lock = some t ∧ needLock ev = true) ∨ ev = .store -/

/-- for the code as found the only exception is the unlocked store of `--refcnt`: every other
step that changes the cache bookkeeping is an operation of the lock table taken by a thread
inside a `cache_lock` critical section (any state, no invariant needed) -/
theorem cache_ops_locked_as_found (s s' : State) (t : Nat) (ev : Ev) (hs : step asFound s t ev = .ok s')
    (hne : s'.cache ≠ s.cache) :
    ((s.thread t).pc.hasLock = true ∧ needLock ev = true) ∨ ev = .store := by
  rcases step_cache_change hs hne with h | ⟨h, -⟩
  · exact Or.inl h
  · exact Or.inr h

/-- an (unreachable) state in which thread 0 is inside a critical section although nobody owns
`cache_lock`: the witness that the two statements above are false without `Reach` -/
def unlockedCs : State := { init 1 1 with thr := [⟨.locked1, 0, none, false⟩] }

theorem cache_ops_locked_counterexample :
    ∃ s s' t ev, step fixed s t ev = .ok s' ∧ s'.cache ≠ s.cache ∧
      ¬ (s.lock = some t ∧ needLock ev = true) := by
  refine ⟨unlockedCs, _, 0, .get 7, rfl, ?_, ?_⟩ <;> decide

theorem cache_ops_locked_as_found_counterexample :
    ∃ s s' t ev, step asFound s t ev = .ok s' ∧ s'.cache ≠ s.cache ∧
      ¬ ((s.lock = some t ∧ needLock ev = true) ∨ ev = .store) := by
  refine ⟨unlockedCs, _, 0, .get 7, rfl, ?_, ?_⟩ <;> decide

/-- `cache_lock` is held by exactly the thread inside a critical section: at most one. -/
theorem mutual_exclusion (cap n : Nat) (hc : 0 < cap) (s : State) (h : Reach fixed cap n s) (t : Nat) :
    (s.thread t).pc.hasLock = true ↔ s.lock = some t := by
  exact (reach_ginv hc h).lockA t

/-- A writer of `shared->lock` (attribute write) excludes every read. -/
theorem writer_exclusive (cap n : Nat) (hc : 0 < cap) (s : State) (h : Reach fixed cap n s) (t : Nat)
    (hw : s.writer = some t) (t' : Nat) (hne : t' ≠ t) : (s.thread t').pc = .idle := by
  have g := reach_ginv hc h
  have hr := g.wrX (by rw [hw]; rfl) t'
  cases hpc : (s.thread t').pc <;> rw [hpc] at hr <;> first | rfl | (cases hr; done) | skip
  have hw' := (g.wrA t').1 hpc
  rw [hw] at hw'
  cases hw'
  exact absurd rfl hne

/-- No deadlock and no lost wake-up: in every reachable state in which some thread is inside the
library, some thread can take a step. -/
theorem no_deadlock (cap n : Nat) (hc : 0 < cap) (s : State) (h : Reach fixed cap n s)
    (hq : ¬ quiescent s) : ∃ t ev s', step fixed s t ev = .ok s' := by
  exact ginv_progress (reach_ginv hc h) hq

/-- every state a schedule leads to is reachable (ties `run`, which the driver executes, to `Reach`) -/
theorem run_reach (cfg : Cfg) (cap n : Nat) (sched : List (Nat × Ev)) (s : State)
    (hr : run cfg (init cap n) sched = .ok s) : Reach cfg cap n s := by
  exact run_reach_from cfg cap n sched _ s Reach.init hr

/-! ### The code as found: the statements above are FALSE, with concrete 2-thread witnesses -/

/-- both threads hit the same page; the two unlocked `--refcnt` interleave (load, load, store,
store): one decrement is lost and the entry stays pinned forever -/
def schedLost : List (Nat × Ev) :=
  [(0,.rdlock),(0,.lock),(0,.get 7),(0,.unlock),(0,.fillEnd true),(0,.lock),(0,.insert),(0,.unlock),(0,.copy),
   (1,.rdlock),(1,.lock),(1,.get 7),(1,.unlock),(1,.copy),
   (0,.load),(1,.load),(0,.store),(1,.store),(0,.rdunlock),(1,.rdunlock)]

/-- thread 0 loads the count (1); thread 1 hits the same entry (count 2); thread 0 stores 0: the
entry is evictable while thread 1 uses it; thread 0 reads another page into the same buffer;
thread 1 copies the wrong page -/
def schedBad : List (Nat × Ev) :=
  [(0,.rdlock),(0,.lock),(0,.get 7),(0,.unlock),(0,.fillEnd true),(0,.lock),(0,.insert),(0,.unlock),(0,.copy),
   (0,.load),(1,.rdlock),(1,.lock),(1,.get 7),(1,.unlock),(0,.store),
   (0,.lock),(0,.get 9),(0,.unlock),(0,.fillEnd true),(1,.copy)]

theorem unlocked_put_loses_count :
    ∃ s, run asFound (init 1 2) schedLost = .ok s ∧ quiescent s ∧ s.cache.refcnt 0 = 1 := by
  refine ⟨_, rfl, ?_, ?_⟩ <;> decide

theorem unlocked_put_wrong_bytes :
    ∃ s, run asFound (init 1 2) schedBad = .ok s ∧ (s.thread 1).bad = true := by
  refine ⟨_, rfl, ?_⟩; decide

/-- negation of `quiescent_unpinned` for the code as found -/
theorem quiescent_unpinned_false_as_found :
    ¬ ∀ s, Reach asFound 1 2 s → quiescent s → ∀ i, s.cache.refcnt i = 0 := by
  intro hall
  obtain ⟨s, hr, hq, h1⟩ := unlocked_put_loses_count
  have h0 := hall s (run_reach asFound 1 2 schedLost s hr) hq 0
  rw [h1] at h0
  cases h0

/-- negation of `no_wrong_bytes` for the code as found -/
theorem no_wrong_bytes_false_as_found :
    ¬ ∀ s, Reach asFound 1 2 s → ∀ th ∈ s.thr, th.bad = false := by
  intro hall
  obtain ⟨s, hr, hb⟩ := unlocked_put_wrong_bytes
  have hlt : 1 < s.thr.length := by
    apply lt_of_pc_ne_idle
    intro hp
    have hs : s = match run asFound (init 1 2) schedBad with | .ok s => s | _ => default := by rw [hr]
    rw [hs] at hp
    revert hp
    decide
  have h0 := hall s (run_reach asFound 1 2 schedBad s hr) _ (thread_memP hlt)
  rw [hb] at h0
  cases h0

/-! ### Lock order -/

/-- the lock-order graph of the repaired library has no cycle … -/
theorem lock_order_acyclic : hasCycle lockOrder = false ∧ acyclicBy lockOrder id = true := by decide

/-- … the graph of the library as found (LKCD `pfn_block_mutex` → `cache_lock` in
`lkcd_max_pfn_revalidate`) has one -/
theorem lock_order_as_found_cyclic : hasCycle lockOrderAsFound = true := by decide

/-! ### Non-vacuity -/

/-- a schedule of the repaired protocol in which two threads miss on the same page, one fill
fails while the other thread holds the same in-flight entry, and both finish -/
def schedSame : List (Nat × Ev) :=
  [(0,.rdlock),(0,.lock),(0,.get 7),(0,.unlock),
   (1,.rdlock),(1,.lock),(1,.get 7),(1,.unlock),
   (0,.fillEnd false),(0,.lock),(0,.discard),(0,.unlock),(0,.rdunlock),
   (1,.fillEnd true),(1,.lock),(1,.insert),(1,.unlock),(1,.copy),(1,.lock),(1,.put),(1,.unlock),(1,.rdunlock)]

example : ∃ s, run fixed (init 1 2) schedSame = .ok s ∧ quiescent s := by
  refine ⟨_, rfl, ?_⟩; decide

end Kdf.Props.C05
