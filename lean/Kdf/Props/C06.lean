import Kdf.Model.Cache
import Kdf.Lemmas.Cache
import Kdf.Lemmas.CacheStep
/-!
# C06 — the page cache never loses, duplicates or recycles a buffer in use

Property theorems only (helper lemmas: `Kdf/Lemmas/Cache*.lean`).  All statements
hold for every capacity and every history; API-protocol violations are `proto`
errors of the model, so "the step succeeded" is the protocol hypothesis.

Two statements of the original list are FALSE as written (`inv_step`, `inv_reachable`):
`cache_put_entry` on an in-flight entry whose reference count is 1 succeeds in the model
(and in the C code) and leaves an unreferenced entry on the in-flight list, which violates
the field `inflight_ref` of `Inv`.  The counterexample is proved below
(`inv_step_counterexample`, `inv_reachable_counterexample`); the original statements are
kept as comments, and two replacements are proved for each:

* `…_partial`: the original conclusion under the minimal extra hypothesis `putOk`/`runOk`
  (the last reference on an in-flight entry is dropped with `discard`, not `put`);
* `…_weak`: without any extra hypothesis, every field of `Inv` except `inflight_ref`
  (`WInv`) is preserved / holds in every reachable state.
-/
namespace Kdf.Props.C06
open Kdf.Model.Cache Kdf.Lemmas.Cache

/-- A freshly flushed cache satisfies the invariant. -/
theorem inv_flush (cap : Nat) (h : 0 < cap) : Inv (flush cap) :=
  (inv_iff _).2 (invS_flush cap h True)

/- FALSE as written (see `inv_step_counterexample`):
theorem inv_step (c c' : Cache) (op : Op) (o : Out) (h : Inv c) (hs : step c op = .ok (c', o)) :
    Inv c' -/

/-- Every operation preserves the invariant, provided a `put` does not drop the last
reference of an entry that is still in flight (`putOk`; vacuous for the other operations). -/
theorem inv_step_partial (c c' : Cache) (op : Op) (o : Out) (h : Inv c)
    (hs : step c op = .ok (c', o)) (hp : putOk c op) : Inv c' :=
  (inv_iff _).2 (step_spec ((inv_iff _).1 h) hs (fun _ => hp)).1

/-- Every operation, without exception, preserves all fields of the invariant other than
`inflight_ref`. -/
theorem inv_step_weak (c c' : Cache) (op : Op) (o : Out) (h : WInv c)
    (hs : step c op = .ok (c', o)) : WInv c' :=
  (step_spec h hs (fun f => f.elim)).1

/-- `Inv` is `WInv` plus `inflight_ref`. -/
theorem inv_iff_weak (c : Cache) : Inv c ↔ WInv c ∧ ∀ i ∈ c.F, c.refcnt i ≠ 0 := inv_iff_winv c

/-- Counterexample to the unconditional `inv_step`: capacity 1, one miss (entry 0 in flight
with one reference), then `put 0`. -/
theorem inv_step_counterexample :
    ∃ c c' o, Inv c ∧ step c (.put 0) = .ok (c', o) ∧ ¬ Inv c' := by
  have h0 : Inv (flush 1) := inv_flush 1 (by decide)
  obtain ⟨r, hs⟩ : ∃ r, step (flush 1) (.get 5) = .ok r := ⟨_, rfl⟩
  have hc : Inv r.1 := inv_step_partial _ _ _ r.2 h0 hs trivial
  have hr : r = (step (flush 1) (.get 5)).toOption.getD default := by rw [hs]; rfl
  obtain ⟨r', hp⟩ : ∃ r', step r.1 (.put 0) = .ok r' := by rw [hr]; exact ⟨_, rfl⟩
  refine ⟨r.1, r'.1, r'.2, hc, hp, fun hI => ?_⟩
  have hr' : r' = (step r.1 (.put 0)).toOption.getD default := by rw [hp]; rfl
  have hF : (0 : Nat) ∈ r'.1.F := by rw [hr', hr]; decide
  have hz : r'.1.refcnt 0 = 0 := by rw [hr', hr]; decide
  exact hI.inflight_ref 0 hF hz

/-- The "cannot happen" arms of the C code (uninitialised `zprec`/`zprobe`, empty
unused partition with no ghost, …) are unreachable. -/
theorem no_ub (c : Cache) (op : Op) (h : Inv c) (w : String) : step c op ≠ .error (.ub w) :=
  step_no_ub ((inv_iff _).1 h) op w

/-- `no_ub` needs only the weak invariant, hence holds in every reachable state. -/
theorem no_ub_weak (c : Cache) (op : Op) (h : WInv c) (w : String) : step c op ≠ .error (.ub w) :=
  step_no_ub h op w

/- FALSE as written (see `inv_reachable_counterexample`):
theorem inv_reachable (cap : Nat) (hc : 0 < cap) (ops : List Op) (c : Cache)
    (hr : run (flush cap) ops = .ok c) : Inv c -/

/-- Every state reachable by a history in which no `put` drops the last reference of an
in-flight entry satisfies the invariant: any capacity, any such history. -/
theorem inv_reachable_partial (cap : Nat) (hc : 0 < cap) (ops : List Op) (c : Cache)
    (hp : runOk (flush cap) ops) (hr : run (flush cap) ops = .ok c) : Inv c :=
  (inv_iff _).2 (run_inv ops _ _ (invS_flush cap hc True) (fun _ => hp) hr)

/-- Every reachable state satisfies all fields of the invariant other than `inflight_ref`:
any capacity, any history. -/
theorem inv_reachable_weak (cap : Nat) (hc : 0 < cap) (ops : List Op) (c : Cache)
    (hr : run (flush cap) ops = .ok c) : WInv c :=
  run_inv ops _ _ (invS_flush cap hc False) (fun f => f.elim) hr

/-- Counterexample to the unconditional `inv_reachable`. -/
theorem inv_reachable_counterexample :
    ∃ c, run (flush 1) [.get 5, .put 0] = .ok c ∧ ¬ Inv c := by
  obtain ⟨c, hr⟩ : ∃ c, run (flush 1) [.get 5, .put 0] = .ok c := ⟨_, rfl⟩
  refine ⟨c, hr, fun hI => ?_⟩
  have hc : c = (run (flush 1) [.get 5, .put 0]).toOption.getD default := by rw [hr]; rfl
  have hF : (0 : Nat) ∈ c.F := by rw [hc]; decide
  have h0 : c.refcnt 0 = 0 := by rw [hc]; decide
  exact hI.inflight_ref 0 hF h0

/-- A lookup is refused exactly when the key is neither cached nor in flight
and every buffer is referenced or being filled; a refused lookup changes nothing. -/
theorem busy_iff (c : Cache) (k : Nat) (h : Inv c) :
    (∃ c', get c k = .ok (c', .busy)) ↔
      (k ∉ (live c).map c.key ∧ c.pinned + c.F.length ≥ c.cap) := by
  obtain ⟨c'', o, hg, -, -, -, hout⟩ := get_spec ((inv_iff _).1 h) k
  constructor
  · rintro ⟨c', hs⟩
    rw [hg] at hs
    simp only [Except.ok.injEq, Prod.mk.injEq] at hs
    obtain ⟨rfl, rfl⟩ := hs
    obtain ⟨-, hk, hb⟩ := hout
    refine ⟨fun hm => ?_, hb⟩
    obtain ⟨i, hi, hik⟩ := List.mem_map.1 hm
    exact hk i hi hik
  · rintro ⟨hk, hb⟩
    have hk' : ∀ j ∈ live c, c.key j ≠ k := fun j hj hjk => hk (List.mem_map.2 ⟨j, hj, hjk⟩)
    cases o with
    | busy => exact ⟨c'', hg⟩
    | done => exact hout.elim
    | entry i v =>
      cases v with
      | true =>
        obtain ⟨hi, hik, -⟩ := hout
        exact absurd hik (hk' i (by
          unfold live; unfold cached at hi
          exact List.mem_append_left _ hi))
      | false =>
        obtain ⟨-, -, ⟨j, hj, hjk⟩ | hlt⟩ := hout
        · exact absurd hjk (hk' j hj)
        · omega

theorem busy_unchanged (c c' : Cache) (k : Nat) (hs : get c k = .ok (c', .busy)) : c' = c :=
  get_busy_eq hs

/-- An entry that a caller references is never evicted, recycled or rewritten by
any lookup: it stays cached/in flight with the same key and the same buffer. -/
theorem referenced_stable (c c' : Cache) (k : Nat) (o : Out) (h : Inv c) (hs : get c k = .ok (c', o))
    (i : Nat) (hi : i < 2 * c.cap) (hr : c.refcnt i ≠ 0) :
    i ∈ live c' ∧ c'.key i = c.key i ∧ c'.dataOf i = c.dataOf i ∧ c'.refcnt i ≥ c.refcnt i := by
  obtain ⟨c'', o', hg, -, -, hfr, -⟩ := get_spec ((inv_iff _).1 h) k
  rw [hg] at hs
  simp only [Except.ok.injEq, Prod.mk.injEq] at hs
  obtain ⟨rfl, rfl⟩ := hs
  exact hfr.refd i (h.ref_live i hi hr) hr

/-- An entry that stays cached across any operation keeps its key and its
buffer (so a later hit returns the buffer that was filled for that key). -/
theorem cached_stable (c c' : Cache) (op : Op) (o : Out) (h : Inv c) (hs : step c op = .ok (c', o))
    (i : Nat) (hi : i ∈ cached c) (hi' : i ∈ cached c') :
    c'.key i = c.key i ∧ c'.dataOf i = c.dataOf i :=
  (step_spec h.winv hs (fun f => f.elim)).2 i hi'

/-- A hit returns a valid cached entry for the requested key. -/
theorem hit_key (c c' : Cache) (k i : Nat) (h : Inv c) (hs : get c k = .ok (c', .entry i true)) :
    i ∈ cached c ∧ c.key i = k ∧ i ∈ cached c' ∧ c'.dataOf i = c.dataOf i := by
  obtain ⟨c'', o', hg, -, -, hfr, hout⟩ := get_spec ((inv_iff _).1 h) k
  rw [hg] at hs
  simp only [Except.ok.injEq, Prod.mk.injEq] at hs
  obtain ⟨rfl, rfl⟩ := hs
  obtain ⟨h1, h2, h3⟩ := hout
  exact ⟨h1, h2, h3, (hfr.cach i h3).2.2⟩

/-- A miss hands out an in-flight entry for the key that owns a buffer no other
live entry owns. -/
theorem miss_entry (c c' : Cache) (k i : Nat) (h : Inv c) (hs : get c k = .ok (c', .entry i false)) :
    i ∈ c'.F ∧ c'.key i = k ∧ hasData c' i = true ∧
      ∀ j ∈ live c', j ≠ i → c'.dataOf j ≠ c'.dataOf i := by
  obtain ⟨c'', o', hg, hI, -, -, hout⟩ := get_spec ((inv_iff _).1 h) k
  rw [hg] at hs
  simp only [Except.ok.injEq, Prod.mk.injEq] at hs
  obtain ⟨rfl, rfl⟩ := hs
  obtain ⟨hF, hk, -⟩ := hout
  have hI' : Inv c'' := (inv_iff _).2 hI
  have hd : hasData c'' i = true := hI'.live_data i (by unfold live; simp [hF])
  refine ⟨hF, hk, hd, ?_⟩
  intro j hj hne
  obtain ⟨d, hdi⟩ := Option.isSome_iff_exists.1 hd
  have hlt : ∀ x ∈ live c'', x < 2 * c''.cap := by
    intro x hx
    have := (hI'.part.mem_iff (a := x)).1 (by
      unfold ring; unfold live at hx
      simp only [List.mem_append] at hx ⊢
      rcases hx with (h | h) | h <;> simp [h])
    exact List.mem_range.1 this
  rw [hdi]
  exact inv_unique_buffer hI (hlt i (by unfold live; simp [hF])) (hlt j hj) (Ne.symm hne) hdi

/-! ### Non-vacuity -/
example : Inv (flush 2) := inv_flush 2 (by decide)
/-- a history with a miss, a fill, a hit, a second miss and a hit is accepted -/
example : ∃ c, run (flush 2) [.get 1, .insert 0, .put 0, .get 2, .get 1] = .ok c := ⟨_, rfl⟩
/-- … and it satisfies the protocol condition of `inv_reachable_partial` -/
example : runOk (flush 2) [.get 1, .insert 0, .put 0, .get 2, .get 1] := by decide

/-! ### buffer addresses (`cache_flush`): entry `i` of the first half owns `data + i * elemsize` -/

/-- address of the buffer `cache_flush` hands to entry `i` -/
def bufAddr (data elemsize i : Nat) : Nat := data + i * elemsize

/-- **no two entries share a buffer**, whatever the capacity and the element size (in particular beyond 4 GiB):
    distinct entries own disjoint byte ranges. -/
theorem buffer_addresses_distinct (data elemsize i j : Nat) (hs : 0 < elemsize) (hij : i < j) :
    bufAddr data elemsize i + elemsize ≤ bufAddr data elemsize j := by
  unfold bufAddr
  have : (i + 1) * elemsize ≤ j * elemsize := Nat.mul_le_mul_right elemsize hij
  rw [Nat.add_mul, Nat.one_mul] at this
  omega

example : bufAddr 4096 (2^30) 4 = 4096 + 2^32 := by decide

/-! ### a released cache lives exactly as long as one of its entries is referenced -/

/-- the invariant: an orphaned cache is freed iff no entry is referenced; a cache that was not released is not freed -/
def LifeInv (l : Life) : Prop := (l.freed = true ↔ (l.orphan = true ∧ l.idle = true))

theorem life_idle_upd (l : Life) (o f : Bool) : ({ l with orphan := o, freed := f } : Life).idle = l.idle := rfl

theorem life_release_inv (l : Life) (hf : l.freed = false) : LifeInv l.release := by
  unfold LifeInv Life.release
  by_cases hi : l.idle = true
  · rw [if_pos hi]; simp only [life_idle_upd, hi, and_self]
  · rw [if_neg hi]
    have e : ∀ f, (Life.mk l.refs true f).idle = l.idle := fun _ => rfl
    simp [hf, e, hi]

theorem life_getD_zero_of_idle (r : List Nat) (i : Nat) (h : r.all (· == 0) = true) : r.getD i 0 = 0 := by
  rw [List.all_eq_true] at h
  by_cases hlt : i < r.length
  · have := h _ (List.getElem_mem hlt)
    simp only [List.getD_eq_getElem?_getD, List.getElem?_eq_getElem hlt, Option.getD_some]
    simpa using this
  · simp only [List.getD_eq_getElem?_getD, List.getElem?_eq_none (by omega : r.length ≤ i), Option.getD_none]

/-- **never freed while a reference is out, freed with the last one**: dropping a reference of an orphaned, not yet
    freed cache keeps the invariant, whichever entry it is (first or second half of the entry array). -/
theorem life_drop_inv (l : Life) (i : Nat) (ho : l.orphan = true) (hf : l.freed = false) : LifeInv (l.drop i) := by
  unfold Life.drop
  simp only
  by_cases hz : ((l.refs.modify i (· - 1)).getD i 0 == 0 && l.orphan) = true
  · rw [if_pos hz]
    exact life_release_inv _ hf
  · rw [if_neg hz]
    unfold LifeInv
    simp only [hf, ho, Bool.false_eq_true, true_and, false_iff]
    intro hidle
    apply hz
    simp only [ho, Bool.and_true, beq_iff_eq]
    exact life_getD_zero_of_idle _ i hidle

/-- every history of drops after a release keeps the invariant (as long as the cache exists) -/
theorem life_history (l : Life) (hf : l.freed = false) (is : List Nat) :
    ∀ l', (is.foldl (fun (a : Life) i => if a.freed then a else a.drop i) l.release) = l' → LifeInv l' := by
  have key : ∀ (is : List Nat) (a : Life), a.orphan = true → LifeInv a →
      LifeInv (is.foldl (fun (a : Life) i => if a.freed then a else a.drop i) a) := by
    intro is
    induction is with
    | nil => intro a _ h; exact h
    | cons i is ih =>
      intro a ho hinv
      simp only [List.foldl_cons]
      by_cases hfa : a.freed = true
      · simp only [hfa, if_true]; exact ih a ho hinv
      · have hfa' : a.freed = false := by simpa using hfa
        simp only [hfa', Bool.false_eq_true, if_false]
        have ho' : (a.drop i).orphan = true := by
          unfold Life.drop Life.release; simp only; split <;> (try split) <;> simp [ho]
        exact ih _ ho' (life_drop_inv a i ho hfa')
  intro l' h
  rw [← h]
  have ho : l.release.orphan = true := by unfold Life.release; split <;> simp
  exact key is _ ho (life_release_inv l hf)

example : ({ refs := [0, 0, 1, 0] } : Life).release.freed = false := by decide
example : (({ refs := [0, 0, 1, 0] } : Life).release.drop 2).freed = true := by decide
example : ({ refs := [0, 0, 0, 0] } : Life).release.freed = true := by decide

end Kdf.Props.C06
