import Kdf.Model.Map
import Kdf.Lemmas.Map
/-!
# C10 — a translation map behaves as a total function from addresses to methods

Property theorems only; helper lemmas live in `Kdf/Lemmas/Map.lean`.
The only hypothesis besides well-formedness is the no-wrap guard
`addr + r.endoff < W` (a range that wraps around the top of the address space
is outside the property).
-/
namespace Kdf.Props.C10
open Kdf.Model.Map Kdf.Lemmas.Map

/-- `search` returns the function's value for every address. -/
theorem search_eq_den (m : Map) (h : WF m) (a : Nat) (ha : a < W) :
    mapSearch m a = den m 0 a := by
  have _ := ha
  rcases h with rfl | h
  · rfl
  · exact searchFrom_eq_den m 0 a (by omega)

/-- A guarded `set` with a succeeding allocation succeeds (in particular the
model never reports an out-of-bounds access on a well-formed map). -/
theorem set_ok (m : Map) (h : WF m) (addr : Nat) (r : Range) (hr : addr + r.endoff < W) :
    (mapSet m addr r true).1 = .ok := by
  obtain ⟨P, T', S, f, l, T, p, _, _, hset⟩ := mapSet_spec m h addr r hr
  rw [hset]

/-- The result tiles the whole address space: it is non-empty and its ranges
add up to exactly `2^64` (range starts are implicit, so there can be no gaps,
and every range has at least one address). -/
theorem set_wf (m : Map) (h : WF m) (addr : Nat) (r : Range) (hr : addr + r.endoff < W) :
    (mapSet m addr r true).2 ≠ [] ∧ total (mapSet m addr r true).2 = W := by
  obtain ⟨P, T', S, f, l, T, p, _, hps, hset⟩ := mapSet_spec m h addr r hr
  rw [hset]
  have ht := (newMap_sem hps).1
  refine ⟨fun e => ?_, ht⟩
  have e' : newMap P S f l r addr p = [] := e
  rw [e'] at ht
  simp [W] at ht

/-- Setting a range changes the function on exactly that range. -/
theorem set_den (m : Map) (h : WF m) (addr : Nat) (r : Range) (hr : addr + r.endoff < W)
    (a : Nat) (ha : a < W) :
    den (mapSet m addr r true).2 0 a =
      if addr ≤ a ∧ a ≤ addr + r.endoff then r.meth else den m 0 a := by
  have _ := ha
  obtain ⟨P, T', S, f, l, T, p, hden, hps, hset⟩ := mapSet_spec m h addr r hr
  rw [hset, ← hden a]
  exact (newMap_sem hps).2 a

/-- If the allocation fails, either the call reports `nomem` and the map is
unchanged, or no allocation was needed and the outcome is the same as with a
succeeding allocator. -/
theorem set_nomem (m : Map) (addr : Nat) (r : Range) :
    mapSet m addr r false = (.nomem, m) ∨ mapSet m addr r false = mapSet m addr r true :=
  mapSet_nomem m addr r

/-- Copy yields an equal map (independence of the copy is a property of C
aliasing and is checked by the correspondence stream only). -/
theorem copy_eq (m : Map) : mapCopy m true true = some m := by simp [mapCopy]

theorem copy_fail (m : Map) (a b : Bool) (h : (a && b) = false) : mapCopy m a b = none := by
  simp [mapCopy, h]

/-! ### Lift over histories -/

/-- One API operation on a map. -/
inductive Op
  | set (addr : Nat) (r : Range) (allocOk : Bool)
  deriving Repr

def Op.guarded : Op → Prop
  | .set addr r _ => addr + r.endoff < W

/-- Run a history on the model. -/
def run : Map → List Op → Map
  | m, [] => m
  | m, .set addr r ok :: ops => run (mapSet m addr r ok).2 ops

/-- The abstract specification: point-wise function update, skipped exactly when
the model reports `nomem`. -/
def spec : Map → (Nat → Int) → List Op → (Nat → Int)
  | _, f, [] => f
  | m, f, .set addr r ok :: ops =>
    let res := mapSet m addr r ok
    let f' := if res.1 = .ok then (fun a => if addr ≤ a ∧ a ≤ addr + r.endoff then r.meth else f a) else f
    spec res.2 f' ops

/-- For every history of guarded sets with arbitrary allocation outcomes,
starting from any well-formed map (in particular the empty one), the map stays
well-formed and denotes the fold of point-wise updates. -/
theorem history (m : Map) (h : WF m) (ops : List Op) (hg : ∀ o ∈ ops, o.guarded) :
    WF (run m ops) ∧ ∀ a, a < W → den (run m ops) 0 a = spec m (fun a => den m 0 a) ops a := by
  -- generalise to any function agreeing with the map below `W`
  suffices H : ∀ (ops : List Op) (m : Map) (f : Nat → Int), WF m →
      (∀ a, a < W → f a = den m 0 a) → (∀ o ∈ ops, o.guarded) →
      WF (run m ops) ∧ ∀ a, a < W → den (run m ops) 0 a = spec m f ops a from
    H ops m (fun a => den m 0 a) h (fun _ _ => rfl) hg
  clear h hg m ops
  intro ops
  induction ops with
  | nil => intro m f h hf _; exact ⟨h, fun a ha => (hf a ha).symm⟩
  | cons o ops ih =>
    intro m f h hf hg
    cases o with
    | set addr r ok =>
      have hr : addr + r.endoff < W := hg (.set addr r ok) (List.mem_cons_self ..)
      have hg' : ∀ o ∈ ops, o.guarded := fun o ho => hg o (List.mem_cons_of_mem _ ho)
      show WF (run (mapSet m addr r ok).2 ops) ∧ ∀ a, a < W →
        den (run (mapSet m addr r ok).2 ops) 0 a =
          spec (mapSet m addr r ok).2
            (if (mapSet m addr r ok).1 = .ok
              then (fun a => if addr ≤ a ∧ a ≤ addr + r.endoff then r.meth else f a) else f) ops a
      have hok : ∀ ok', mapSet m addr r ok' = mapSet m addr r true →
          WF (mapSet m addr r ok').2 ∧ ∀ a, a < W →
            (if (mapSet m addr r ok').1 = .ok
              then (fun a => if addr ≤ a ∧ a ≤ addr + r.endoff then r.meth else f a) else f) a
              = den (mapSet m addr r ok').2 0 a := by
        intro ok' e
        rw [e]
        refine ⟨Or.inr (set_wf m h addr r hr).2, fun a ha => ?_⟩
        rw [if_pos (set_ok m h addr r hr), set_den m h addr r hr a ha, hf a ha]
      cases ok with
      | true => exact ih _ _ (hok true rfl).1 (hok true rfl).2 hg'
      | false =>
        rcases set_nomem m addr r with e | e
        · rw [e]
          exact ih m _ h (fun a ha => by rw [if_neg (by simp)]; exact hf a ha) hg'
        · exact ih _ _ (hok false e).1 (hok false e).2 hg'

/-- Failed allocations never surface as anything but `nomem`. -/
theorem set_status (m : Map) (h : WF m) (addr : Nat) (r : Range) (hr : addr + r.endoff < W) (ok : Bool) :
    (mapSet m addr r ok).1 = .ok ∨ ((mapSet m addr r ok).1 = .nomem ∧ ok = false) := by
  cases ok with
  | true => exact Or.inl (set_ok m h addr r hr)
  | false =>
    rcases set_nomem m addr r with e | e
    · exact Or.inr ⟨by rw [e], rfl⟩
    · exact Or.inl (by rw [e]; exact set_ok m h addr r hr)

/-! ### Non-vacuity -/
example : WF ([] : Map) := Or.inl rfl
example : WF [⟨0xfff, 1⟩, ⟨W - 0x1000 - 1, NONE⟩] := by
  right; simp [total, W]
example : (mapSet [⟨0xfff, 1⟩, ⟨W - 0x1000 - 1, NONE⟩] 0x800 ⟨0xfff, 2⟩ true) =
    (.ok, [⟨0x7ff, 1⟩, ⟨0xfff, 2⟩, ⟨W - 0x1800 - 1, NONE⟩]) := by decide

end Kdf.Props.C10
