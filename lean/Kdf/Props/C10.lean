import Kdf.Model.Map
import Kdf.Lemmas.Map
/-!
# C10 — a translation map behaves as a total function from addresses to methods

Property theorems only; helper lemmas live in `Kdf/Lemmas/Map.lean`.
The only hypothesis besides well-formedness is the no-wrap guard
`addr + r.endoff < W` (a range that wraps around the top of the address space
is outside the property).
-/
namespace Kdf.Props.C10
open Kdf.Model.Map Kdf.Lemmas.Map

/-- `search` returns the function's value for every address. -/
theorem search_eq_den (m : Map) (h : WF m) (a : Nat) (ha : a < W) :
    mapSearch m a = den m 0 a := by
  have _ := ha
  rcases h with rfl | h
  · rfl
  · exact searchFrom_eq_den m 0 a (by omega)

/-- A guarded `set` with a succeeding allocation succeeds (in particular the
model never reports an out-of-bounds access on a well-formed map). -/
theorem set_ok (m : Map) (h : WF m) (addr : Nat) (r : Range) (hr : addr + r.endoff < W) :
    (mapSet m addr r true).1 = .ok := by
  obtain ⟨P, T', S, f, l, T, p, _, _, hset⟩ := mapSet_spec m h addr r hr
  rw [hset]

/-- The result tiles the whole address space: it is non-empty and its ranges
add up to exactly `2^64` (range starts are implicit, so there can be no gaps,
and every range has at least one address). -/
theorem set_wf (m : Map) (h : WF m) (addr : Nat) (r : Range) (hr : addr + r.endoff < W) :
    (mapSet m addr r true).2 ≠ [] ∧ total (mapSet m addr r true).2 = W := by
  obtain ⟨P, T', S, f, l, T, p, _, hps, hset⟩ := mapSet_spec m h addr r hr
  rw [hset]
  have ht := (newMap_sem hps).1
  refine ⟨fun e => ?_, ht⟩
  have e' : newMap P S f l r addr p = [] := e
  rw [e'] at ht
  simp [W] at ht

/-- Setting a range changes the function on exactly that range. -/
theorem set_den (m : Map) (h : WF m) (addr : Nat) (r : Range) (hr : addr + r.endoff < W)
    (a : Nat) (ha : a < W) :
    den (mapSet m addr r true).2 0 a =
      if addr ≤ a ∧ a ≤ addr + r.endoff then r.meth else den m 0 a := by
  have _ := ha
  obtain ⟨P, T', S, f, l, T, p, hden, hps, hset⟩ := mapSet_spec m h addr r hr
  rw [hset, ← hden a]
  exact (newMap_sem hps).2 a

/-- If the allocation fails, either the call reports `nomem` and the map is
unchanged, or no allocation was needed and the outcome is the same as with a
succeeding allocator. -/
theorem set_nomem (m : Map) (addr : Nat) (r : Range) :
    mapSet m addr r false = (.nomem, m) ∨ mapSet m addr r false = mapSet m addr r true :=
  mapSet_nomem m addr r

/-- Copy yields an equal map (independence of the copy is a property of C
aliasing and is checked by the correspondence stream only). -/
theorem copy_eq (m : Map) : mapCopy m true true = some m := by simp [mapCopy]

theorem copy_fail (m : Map) (a b : Bool) (h : (a && b) = false) : mapCopy m a b = none := by
  simp [mapCopy, h]

/-! ### Lift over histories -/

/-- One API operation on a map. -/
inductive Op
  | set (addr : Nat) (r : Range) (allocOk : Bool)
  deriving Repr

def Op.guarded : Op → Prop
  | .set addr r _ => addr + r.endoff < W

/-- Run a history on the model. -/
def run : Map → List Op → Map
  | m, [] => m
  | m, .set addr r ok :: ops => run (mapSet m addr r ok).2 ops

/-- The abstract specification: point-wise function update, skipped exactly when
the model reports `nomem`. -/
def spec : Map → (Nat → Int) → List Op → (Nat → Int)
  | _, f, [] => f
  | m, f, .set addr r ok :: ops =>
    let res := mapSet m addr r ok
    let f' := if res.1 = .ok then (fun a => if addr ≤ a ∧ a ≤ addr + r.endoff then r.meth else f a) else f
    spec res.2 f' ops

/-- For every history of guarded sets with arbitrary allocation outcomes,
starting from any well-formed map (in particular the empty one), the map stays
well-formed and denotes the fold of point-wise updates. -/
theorem history (m : Map) (h : WF m) (ops : List Op) (hg : ∀ o ∈ ops, o.guarded) :
    WF (run m ops) ∧ ∀ a, a < W → den (run m ops) 0 a = spec m (fun a => den m 0 a) ops a := by
  -- generalise to any function agreeing with the map below `W`
  suffices H : ∀ (ops : List Op) (m : Map) (f : Nat → Int), WF m →
      (∀ a, a < W → f a = den m 0 a) → (∀ o ∈ ops, o.guarded) →
      WF (run m ops) ∧ ∀ a, a < W → den (run m ops) 0 a = spec m f ops a from
    H ops m (fun a => den m 0 a) h (fun _ _ => rfl) hg
  clear h hg m ops
  intro ops
  induction ops with
  | nil => intro m f h hf _; exact ⟨h, fun a ha => (hf a ha).symm⟩
  | cons o ops ih =>
    intro m f h hf hg
    cases o with
    | set addr r ok =>
      have hr : addr + r.endoff < W := hg (.set addr r ok) (List.mem_cons_self ..)
      have hg' : ∀ o ∈ ops, o.guarded := fun o ho => hg o (List.mem_cons_of_mem _ ho)
      show WF (run (mapSet m addr r ok).2 ops) ∧ ∀ a, a < W →
        den (run (mapSet m addr r ok).2 ops) 0 a =
          spec (mapSet m addr r ok).2
            (if (mapSet m addr r ok).1 = .ok
              then (fun a => if addr ≤ a ∧ a ≤ addr + r.endoff then r.meth else f a) else f) ops a
      have hok : ∀ ok', mapSet m addr r ok' = mapSet m addr r true →
          WF (mapSet m addr r ok').2 ∧ ∀ a, a < W →
            (if (mapSet m addr r ok').1 = .ok
              then (fun a => if addr ≤ a ∧ a ≤ addr + r.endoff then r.meth else f a) else f) a
              = den (mapSet m addr r ok').2 0 a := by
        intro ok' e
        rw [e]
        refine ⟨Or.inr (set_wf m h addr r hr).2, fun a ha => ?_⟩
        rw [if_pos (set_ok m h addr r hr), set_den m h addr r hr a ha, hf a ha]
      cases ok with
      | true => exact ih _ _ (hok true rfl).1 (hok true rfl).2 hg'
      | false =>
        rcases set_nomem m addr r with e | e
        · rw [e]
          exact ih m _ h (fun a ha => by rw [if_neg (by simp)]; exact hf a ha) hg'
        · exact ih _ _ (hok false e).1 (hok false e).2 hg'

/-- Failed allocations never surface as anything but `nomem`. -/
theorem set_status (m : Map) (h : WF m) (addr : Nat) (r : Range) (hr : addr + r.endoff < W) (ok : Bool) :
    (mapSet m addr r ok).1 = .ok ∨ ((mapSet m addr r ok).1 = .nomem ∧ ok = false) := by
  cases ok with
  | true => exact Or.inl (set_ok m h addr r hr)
  | false =>
    rcases set_nomem m addr r with e | e
    · exact Or.inr ⟨by rw [e], rfl⟩
    · exact Or.inl (by rw [e]; exact set_ok m h addr r hr)

/-! ### Non-vacuity -/
example : WF ([] : Map) := Or.inl rfl
example : WF [⟨0xfff, 1⟩, ⟨W - 0x1000 - 1, NONE⟩] := by
  right; simp [total, W]
example : (mapSet [⟨0xfff, 1⟩, ⟨W - 0x1000 - 1, NONE⟩] 0x800 ⟨0xfff, 2⟩ true) =
    (.ok, [⟨0x7ff, 1⟩, ⟨0xfff, 2⟩, ⟨W - 0x1800 - 1, NONE⟩]) := by decide


/-!
## Layout tables (`sys_set_layout`): a successful call has made every range assignment

`setLayout` puts a table of regions into the map of a slot; a region with the direct action
also puts `[0, last-first] -> RDIRECT` into the reverse direct map.  Allocation outcomes are an
arbitrary stream.  The call reports `ok` or `nomem` (and `nomem` only if the stream contains a
failure); after `ok` *both* maps exist, are well-formed and denote the fold of the point-wise
updates of the table: no assignment has been skipped.
-/
/-- function view of a map slot (`NULL` = nothing translated) -/
def denOpt : Option Map → Nat → Int
  | none, _ => NONE
  | some m, a => den m 0 a

def WFOpt : Option Map → Prop
  | none => True
  | some m => WF m

def regionGuarded (g : LRegion) : Prop := g.first ≤ g.last ∧ g.last < W

/-- point-wise specification of the target map -/
def layoutSpec : (Nat → Int) → List LRegion → (Nat → Int)
  | f, [] => f
  | f, g :: rest => layoutSpec (fun a => if g.first ≤ a ∧ a ≤ g.last then g.meth else f a) rest

/-- point-wise specification of the reverse direct map -/
def revSpec : (Nat → Int) → List LRegion → (Nat → Int)
  | f, [] => f
  | f, g :: rest =>
    revSpec (if g.direct then (fun a => if a ≤ g.last - g.first then RDIRECT else f a) else f) rest

/-! ### Helper lemmas

Results of the model functions are always named by an equation `f … = (st, m', al')`; projections of
an application of `mapSet`/`setAll`/`layoutLoop` to a literal `[]` are never handed to `dsimp`
(reducing them would evaluate the whole of `addrxlat_map_set` symbolically). -/

theorem range_endoff (g : LRegion) (hg : regionGuarded g) :
    (g.last + W - g.first) % W = g.last - g.first := by
  have h1 := hg.1
  have h2 := hg.2
  simp only [W] at *; omega

theorem status_ne : ¬ Status.nomem = Status.ok := by decide

/-- One range assignment on the allocation stream (by components). -/
theorem mapSetS_comp (m : Map) (h : WF m) (addr : Nat) (r : Range) (hr : addr + r.endoff < W)
    (al : List Bool) :
    ((mapSetS m addr r al).1 = .ok ∧ (mapSetS m addr r al).2.1 = (mapSet m addr r true).2 ∧
        (false ∈ (mapSetS m addr r al).2.2 → false ∈ al)) ∨
      ((mapSetS m addr r al).1 = .nomem ∧ false ∈ al) := by
  have hok := set_ok m h addr r hr
  unfold mapSetS
  split
  · cases al with
    | nil => exact Or.inl ⟨hok, rfl, fun x => x⟩
    | cons b bs =>
      cases b with
      | true => exact Or.inl ⟨hok, rfl, fun x => List.mem_cons_of_mem _ x⟩
      | false =>
        rcases set_nomem m addr r with e | e
        · refine Or.inr ⟨?_, List.mem_cons_self ..⟩
          show (mapSet m addr r false).1 = .nomem
          rw [e]
        · refine Or.inl ⟨?_, ?_, fun x => List.mem_cons_of_mem _ x⟩
          · show (mapSet m addr r false).1 = .ok
            rw [e]; exact hok
          · show (mapSet m addr r false).2 = _
            rw [e]
  · exact Or.inl ⟨hok, rfl, fun x => x⟩

/-- One range assignment on the allocation stream. -/
theorem mapSetS_spec (m : Map) (h : WF m) (addr : Nat) (r : Range) (hr : addr + r.endoff < W)
    (al : List Bool) :
    (∃ al', mapSetS m addr r al = (.ok, (mapSet m addr r true).2, al') ∧ (false ∈ al' → false ∈ al)) ∨
      (∃ m' al', mapSetS m addr r al = (.nomem, m', al') ∧ false ∈ al) := by
  rcases mapSetS_comp m h addr r hr al with ⟨h1, h2, h3⟩ | ⟨h1, h3⟩
  · revert h1 h2 h3
    generalize mapSetS m addr r al = x
    obtain ⟨st, mm, al'⟩ := x
    intro h1 h2 h3
    dsimp only at h1 h2 h3
    subst h1 h2
    exact Or.inl ⟨al', rfl, h3⟩
  · revert h1
    generalize mapSetS m addr r al = x
    obtain ⟨st, mm, al'⟩ := x
    intro h1
    dsimp only at h1
    subst h1
    exact Or.inr ⟨mm, al', rfl, h3⟩

/-- Result of a successful assignment: well-formed, non-empty, point-wise update. -/
theorem mapSetS_ok (m : Map) (h : WF m) (addr : Nat) (r : Range) (hr : addr + r.endoff < W) :
    WF (mapSet m addr r true).2 ∧ (mapSet m addr r true).2 ≠ [] ∧
      ∀ a, a < W → den (mapSet m addr r true).2 0 a =
        if addr ≤ a ∧ a ≤ addr + r.endoff then r.meth else den m 0 a :=
  ⟨Or.inr (set_wf m h addr r hr).2, (set_wf m h addr r hr).1, fun a ha => set_den m h addr r hr a ha⟩

theorem rev_lt (g : LRegion) (hg : regionGuarded g) :
    0 + (⟨(g.last + W - g.first) % W, RDIRECT⟩ : Range).endoff < W := by
  show 0 + (g.last + W - g.first) % W < W
  rw [range_endoff g hg]; have := hg.2; omega

theorem setAll_one (m : Map) (addr : Nat) (r : Range) (al : List Bool) :
    setAll m [(addr, r)] al =
      if (mapSetS m addr r al).1 = .ok then (.ok, (mapSetS m addr r al).2.1, (mapSetS m addr r al).2.2)
      else mapSetS m addr r al := by
  simp only [setAll]

/-- the table of `act_direct` on an existing map -/
theorem setAll_rev (f : Nat → Int) (g : LRegion) (hg : regionGuarded g) (m : Map) (al : List Bool)
    (hm : WF m) (hden : ∀ a, a < W → den m 0 a = f a) :
    (∃ r' al', setAll m g.revTable al = (.ok, r', al') ∧ r' ≠ [] ∧ WF r' ∧
        (∀ a, a < W → den r' 0 a = if a ≤ g.last - g.first then RDIRECT else f a) ∧
        (false ∈ al' → false ∈ al)) ∨
      (∃ r' al', setAll m g.revTable al = (.nomem, r', al') ∧ false ∈ al) := by
  have he := range_endoff g hg
  have hlt := rev_lt g hg
  have ho := mapSetS_ok m hm 0 _ hlt
  unfold LRegion.revTable
  rw [setAll_one]
  rcases mapSetS_spec m hm 0 _ hlt al with ⟨al', e, h3⟩ | ⟨m', al', e, h3⟩
  · left
    rw [e]
    dsimp only
    rw [if_pos rfl]
    refine ⟨_, al', rfl, ho.2.1, ho.1, ?_, h3⟩
    intro a ha
    rw [ho.2.2 a ha, hden a ha]
    show (if 0 ≤ a ∧ a ≤ 0 + (g.last + W - g.first) % W then RDIRECT else f a) = _
    rw [he]
    simp
  · right
    rw [e]
    dsimp only
    rw [if_neg status_ne]
    exact ⟨m', al', rfl, h3⟩

theorem slotNew_some (m : Map) (al : List Bool) : slotNew (some m) al = (some m, al) := rfl
theorem slotNew_nil : slotNew none [] = (some [], []) := rfl
theorem slotNew_true (bs : List Bool) : slotNew none (true :: bs) = (some [], bs) := rfl
theorem slotNew_false (bs : List Bool) : slotNew none (false :: bs) = (none, bs) := rfl

/-- `internal_map_new` on a slot: a (possibly new, empty) map with the same function view, or a
failed allocation. -/
theorem slotNew_spec (s : Option Map) (hs : WFOpt s) (al : List Bool) :
    (∃ m al', slotNew s al = (some m, al') ∧ WF m ∧ (∀ a, den m 0 a = denOpt s a) ∧
        (false ∈ al' → false ∈ al) ∧ (∀ r0, s = some r0 → m = r0)) ∨
      (∃ al', slotNew s al = (none, al') ∧ false ∈ al) := by
  cases s with
  | some m => exact Or.inl ⟨m, al, rfl, hs, fun _ => rfl, fun x => x, fun r0 h => by injection h⟩
  | none =>
    cases al with
    | nil => exact Or.inl ⟨[], [], rfl, Or.inl rfl, fun _ => rfl, fun x => x, fun r0 h => by cases h⟩
    | cons b bs =>
      cases b with
      | true =>
        exact Or.inl ⟨[], bs, rfl, Or.inl rfl, fun _ => rfl, fun x => List.mem_cons_of_mem _ x,
          fun r0 h => by cases h⟩
      | false => exact Or.inr ⟨bs, rfl, List.mem_cons_self ..⟩

theorem layoutPlain_some (rev : Option Map) (m : Map) (al al' : List Bool) (regs : List (Nat × Range))
    (h : slotNew rev al = (some m, al')) :
    layoutPlain rev regs al = ((setAll m regs al').1, some (setAll m regs al').2.1, (setAll m regs al').2.2) := by
  unfold layoutPlain; rw [h]

theorem layoutPlain_none (rev : Option Map) (al al' : List Bool) (regs : List (Nat × Range))
    (h : slotNew rev al = (none, al')) :
    layoutPlain rev regs al = (.nomem, none, al') := by
  unfold layoutPlain; rw [h]

/-- The nested call of `act_direct`. -/
theorem layoutPlain_rev (rev : Option Map) (hr : WFOpt rev) (g : LRegion) (hg : regionGuarded g)
    (al : List Bool) :
    (∃ r' al', layoutPlain rev g.revTable al = (.ok, some r', al') ∧ r' ≠ [] ∧ WF r' ∧
        (∀ a, a < W → den r' 0 a = if a ≤ g.last - g.first then RDIRECT else denOpt rev a) ∧
        (false ∈ al' → false ∈ al)) ∨
      (∃ r' al', layoutPlain rev g.revTable al = (.nomem, r', al') ∧ false ∈ al) := by
  rcases slotNew_spec rev hr al with ⟨m, al1, e, hm, hden, hal, _⟩ | ⟨al1, e, hal⟩
  · rw [layoutPlain_some _ _ _ _ _ e]
    rcases setAll_rev (denOpt rev) g hg m al1 hm (fun a _ => hden a) with
      ⟨r', al2, e2, h1, h2, h3, h4⟩ | ⟨r', al2, e2, h4⟩
    · rw [e2]
      exact Or.inl ⟨r', al2, rfl, h1, h2, h3, fun x => hal (h4 x)⟩
    · rw [e2]
      exact Or.inr ⟨some r', al2, rfl, hal h4⟩
  · rw [layoutPlain_none _ _ _ _ e]
    exact Or.inr ⟨none, al1, rfl, hal⟩

theorem layoutLoop_plain (m : Map) (rev : Option Map) (g : LRegion) (rest : List LRegion)
    (al : List Bool) (hd : g.direct = false) (st2 : Status) (m2 : Map) (al2 : List Bool)
    (hs : mapSetS m g.first g.range al = (st2, m2, al2)) :
    layoutLoop m rev (g :: rest) al =
      if st2 = .ok then layoutLoop m2 rev rest al2 else (st2, m2, rev, al2) := by
  rw [layoutLoop]
  simp only [hd, Bool.false_eq_true, if_false, if_true, hs]

theorem layoutLoop_direct (m : Map) (rev : Option Map) (g : LRegion) (rest : List LRegion)
    (al : List Bool) (hd : g.direct = true) (rev1 : Option Map) (al1 : List Bool)
    (hp : layoutPlain rev g.revTable al = (.ok, rev1, al1)) (st2 : Status) (m2 : Map) (al2 : List Bool)
    (hs : mapSetS m g.first g.range al1 = (st2, m2, al2)) :
    layoutLoop m rev (g :: rest) al =
      if st2 = .ok then layoutLoop m2 rev1 rest al2 else (st2, m2, rev1, al2) := by
  rw [layoutLoop]
  simp only [hd, if_true, hp, hs]

theorem layoutLoop_direct_fail (m : Map) (rev : Option Map) (g : LRegion) (rest : List LRegion)
    (al : List Bool) (hd : g.direct = true) (rev1 : Option Map) (al1 : List Bool)
    (hp : layoutPlain rev g.revTable al = (.nomem, rev1, al1)) :
    layoutLoop m rev (g :: rest) al = (.nomem, m, rev1, al1) := by
  rw [layoutLoop]
  simp only [hd, if_true, hp, status_ne, if_false]


/-- The region loop: after `ok` both maps denote the fold of the table; `nomem` only after a failed
allocation.  `fm`, `fr` are any functions agreeing with the maps below `W`. -/
theorem layoutLoop_spec : ∀ (regs : List LRegion) (m : Map) (rev : Option Map) (al : List Bool)
    (fm fr : Nat → Int), WF m → WFOpt rev → (∀ a, a < W → fm a = den m 0 a) →
    (∀ a, a < W → fr a = denOpt rev a) → (∀ g ∈ regs, regionGuarded g) →
    (∃ m' rev' al', layoutLoop m rev regs al = (.ok, m', rev', al') ∧ WF m' ∧
        (∀ a, a < W → den m' 0 a = layoutSpec fm regs a) ∧ WFOpt rev' ∧
        (∀ a, a < W → denOpt rev' a = revSpec fr regs a) ∧
        (((∃ g ∈ regs, g.direct = true) ∨ (∃ r0, rev = some r0 ∧ r0 ≠ [])) →
          ∃ r', rev' = some r' ∧ r' ≠ [])) ∨
      (∃ m' rev' al', layoutLoop m rev regs al = (.nomem, m', rev', al') ∧ false ∈ al) := by
  intro regs
  induction regs with
  | nil =>
    intro m rev al fm fr hm hrv hfm hfr _
    refine Or.inl ⟨m, rev, al, rfl, hm, fun a ha => (hfm a ha).symm, hrv, fun a ha => (hfr a ha).symm, ?_⟩
    rintro (⟨g, hg, _⟩ | ⟨r0, h1, h2⟩)
    · cases hg
    · exact ⟨r0, h1, h2⟩
  | cons g rest ih =>
    intro m rev al fm fr hm hrv hfm hfr hg
    have hgg := hg g (List.mem_cons_self ..)
    have hg' : ∀ g' ∈ rest, regionGuarded g' := fun g' h => hg g' (List.mem_cons_of_mem _ h)
    have he := range_endoff g hgg
    have hend : g.first + g.range.endoff = g.last := by
      show g.first + (g.last + W - g.first) % W = g.last
      rw [he]; have := hgg.1; omega
    have hlt : g.first + g.range.endoff < W := by rw [hend]; exact hgg.2
    -- the action of the region
    have pre : (∃ rev1 al1,
          (∀ st2 m2 al2, mapSetS m g.first g.range al1 = (st2, m2, al2) →
            layoutLoop m rev (g :: rest) al =
              if st2 = .ok then layoutLoop m2 rev1 rest al2 else (st2, m2, rev1, al2)) ∧
          WFOpt rev1 ∧
          (∀ a, a < W → (if g.direct = true then
              (fun a => if a ≤ g.last - g.first then RDIRECT else fr a) else fr) a = denOpt rev1 a) ∧
          (false ∈ al1 → false ∈ al) ∧
          ((g.direct = true ∨ ∃ r0, rev = some r0 ∧ r0 ≠ []) → ∃ r', rev1 = some r' ∧ r' ≠ [])) ∨
        (∃ m' rev' al', layoutLoop m rev (g :: rest) al = (.nomem, m', rev', al') ∧ false ∈ al) := by
      by_cases hd : g.direct = true
      · rcases layoutPlain_rev rev hrv g hgg al with ⟨r', al1, e, h1, h2, h3, h4⟩ | ⟨r', al1, e, h4⟩
        · refine Or.inl ⟨some r', al1, fun st2 m2 al2 hs => layoutLoop_direct m rev g rest al hd _ _ e _ _ _ hs,
            h2, fun a ha => ?_, h4, fun _ => ⟨r', rfl, h1⟩⟩
          rw [if_pos hd]
          show (if a ≤ g.last - g.first then RDIRECT else fr a) = den r' 0 a
          rw [h3 a ha, hfr a ha]
        · exact Or.inr ⟨m, r', al1, layoutLoop_direct_fail m rev g rest al hd _ _ e, h4⟩
      · have hd' : g.direct = false := (Bool.not_eq_true _).mp hd
        refine Or.inl ⟨rev, al, fun st2 m2 al2 hs => layoutLoop_plain m rev g rest al hd' _ _ _ hs,
            hrv, fun a ha => ?_, fun x => x, ?_⟩
        · rw [if_neg hd]; exact hfr a ha
        · rintro (h | h)
          · exact absurd h hd
          · exact h
    rcases pre with ⟨rev1, al1, hstep, hrv1, hfr1, hal1, hsome⟩ | h
    · rcases mapSetS_spec m hm g.first g.range hlt al1 with ⟨al2, e, h3⟩ | ⟨m', al2, e, h3⟩
      · rw [hstep _ _ _ e, if_pos rfl]
        have ho := mapSetS_ok m hm g.first g.range hlt
        have hfm' : ∀ a, a < W →
            (fun a => if g.first ≤ a ∧ a ≤ g.last then g.meth else fm a) a =
              den (mapSet m g.first g.range true).2 0 a := by
          intro a ha
          rw [ho.2.2 a ha, hend, ← hfm a ha]
          rfl
        rcases ih (mapSet m g.first g.range true).2 rev1 al2 _ _ ho.1 hrv1 hfm' hfr1 hg' with
          ⟨m', rev', al', e', k1, k2, k3, k4, k5⟩ | ⟨m', rev', al', e', k1⟩
        · refine Or.inl ⟨m', rev', al', e', k1, k2, k3, k4, ?_⟩
          rintro (⟨g', hg1, hg2⟩ | h)
          · rcases List.mem_cons.mp hg1 with rfl | hg1
            · exact k5 (Or.inr (hsome (Or.inl hg2)))
            · exact k5 (Or.inl ⟨g', hg1, hg2⟩)
          · exact k5 (Or.inr (hsome (Or.inr h)))
        · exact Or.inr ⟨m', rev', al', e', hal1 (h3 k1)⟩
      · rw [hstep _ _ _ e, if_neg status_ne]
        exact Or.inr ⟨m', rev1, al2, rfl, hal1 h3⟩
    · exact Or.inr h

theorem setLayout_some (s : Sys) (regs : List LRegion) (al : List Bool) (m : Map) (al' : List Bool)
    (h : slotNew s.map al = (some m, al')) (st : Status) (m' : Map) (rev' : Option Map)
    (al'' : List Bool) (hl : layoutLoop m s.rev regs al' = (st, m', rev', al'')) :
    setLayout s regs al = (st, ⟨some m', rev'⟩) := by
  unfold setLayout
  rw [h]
  dsimp only
  rw [hl]

theorem setLayout_none (s : Sys) (regs : List LRegion) (al : List Bool) (al' : List Bool)
    (h : slotNew s.map al = (none, al')) : setLayout s regs al = (.nomem, s) := by
  unfold setLayout
  rw [h]

/-- The whole call. -/
theorem setLayout_spec (s : Sys) (hm : WFOpt s.map) (hr : WFOpt s.rev) (regs : List LRegion)
    (hg : ∀ g ∈ regs, regionGuarded g) (al : List Bool) :
    (∃ m' rev', setLayout s regs al = (.ok, ⟨some m', rev'⟩) ∧ WF m' ∧
        (∀ a, a < W → den m' 0 a = layoutSpec (denOpt s.map) regs a) ∧ WFOpt rev' ∧
        (∀ a, a < W → denOpt rev' a = revSpec (denOpt s.rev) regs a) ∧
        ((∃ g ∈ regs, g.direct = true) → ∃ r', rev' = some r' ∧ r' ≠ [])) ∨
      ((setLayout s regs al).1 = .nomem ∧ false ∈ al) := by
  rcases slotNew_spec s.map hm al with ⟨m, al1, e, hwf, hden, hal, _⟩ | ⟨al1, e, hal⟩
  · rcases layoutLoop_spec regs m s.rev al1 (denOpt s.map) (denOpt s.rev) hwf hr
        (fun a _ => (hden a).symm) (fun _ _ => rfl) hg with
      ⟨m', rev', al2, e2, k1, k2, k3, k4, k5⟩ | ⟨m', rev', al2, e2, k1⟩
    · rw [setLayout_some s regs al m al1 e _ _ _ _ e2]
      exact Or.inl ⟨m', rev', rfl, k1, k2, k3, k4, fun h => k5 (Or.inl h)⟩
    · rw [setLayout_some s regs al m al1 e _ _ _ _ e2]
      exact Or.inr ⟨rfl, hal k1⟩
  · rw [setLayout_none s regs al al1 e]
    exact Or.inr ⟨rfl, hal⟩

/-- The call reports `ok`, or `nomem` and then some allocation of the stream did fail. -/
theorem layout_status (s : Sys) (hm : WFOpt s.map) (hr : WFOpt s.rev) (regs : List LRegion)
    (hg : ∀ g ∈ regs, regionGuarded g) (al : List Bool) :
    (setLayout s regs al).1 = .ok ∨ ((setLayout s regs al).1 = .nomem ∧ false ∈ al) := by
  rcases setLayout_spec s hm hr regs hg al with ⟨m', rev', e, _⟩ | h
  · rw [e]; exact Or.inl rfl
  · exact Or.inr h

/-- After `ok` the target map exists, is well-formed and denotes the whole table. -/
theorem layout_ok_map (s : Sys) (hm : WFOpt s.map) (hr : WFOpt s.rev) (regs : List LRegion)
    (hg : ∀ g ∈ regs, regionGuarded g) (al : List Bool) (h : (setLayout s regs al).1 = .ok) :
    ∃ m', (setLayout s regs al).2.map = some m' ∧ WF m' ∧
      ∀ a, a < W → den m' 0 a = layoutSpec (denOpt s.map) regs a := by
  rcases setLayout_spec s hm hr regs hg al with ⟨m', rev', e, k1, k2, _⟩ | ⟨h1, _⟩
  · rw [e]; exact ⟨m', rfl, k1, k2⟩
  · exact absurd (h1.symm.trans h) status_ne

/-- After `ok` the reverse direct map denotes the reverse of every direct region of the table
(in particular it exists as soon as the table has a direct region: see `layout_ok_rev_some`). -/
theorem layout_ok_rev (s : Sys) (hm : WFOpt s.map) (hr : WFOpt s.rev) (regs : List LRegion)
    (hg : ∀ g ∈ regs, regionGuarded g) (al : List Bool) (h : (setLayout s regs al).1 = .ok) :
    WFOpt (setLayout s regs al).2.rev ∧
      ∀ a, a < W → denOpt (setLayout s regs al).2.rev a = revSpec (denOpt s.rev) regs a := by
  rcases setLayout_spec s hm hr regs hg al with ⟨m', rev', e, _, _, k3, k4, _⟩ | ⟨h1, _⟩
  · rw [e]; exact ⟨k3, k4⟩
  · exact absurd (h1.symm.trans h) status_ne

theorem layout_ok_rev_some (s : Sys) (hm : WFOpt s.map) (hr : WFOpt s.rev) (regs : List LRegion)
    (hg : ∀ g ∈ regs, regionGuarded g) (al : List Bool) (h : (setLayout s regs al).1 = .ok)
    (hd : ∃ g ∈ regs, g.direct = true) :
    ∃ r', (setLayout s regs al).2.rev = some r' ∧ r' ≠ [] := by
  rcases setLayout_spec s hm hr regs hg al with ⟨m', rev', e, _, _, _, _, k5⟩ | ⟨h1, _⟩
  · rw [e]; exact k5 hd
  · exact absurd (h1.symm.trans h) status_ne

/-- Without a failing allocation the call succeeds. -/
theorem layout_no_fault (s : Sys) (hm : WFOpt s.map) (hr : WFOpt s.rev) (regs : List LRegion)
    (hg : ∀ g ∈ regs, regionGuarded g) (al : List Bool) (hal : false ∉ al) :
    (setLayout s regs al).1 = .ok := by
  rcases layout_status s hm hr regs hg al with h | ⟨_, h⟩
  · exact h
  · exact absurd h hal

/-! ### Non-vacuity: the ppc64-like table `[direct region, vmalloc region]` from empty slots -/
example : setLayout ⟨none, none⟩ [⟨0x1000, 0x1fff, 2, true⟩, ⟨0x4000, 0x4fff, 0, false⟩] [] =
    (.ok, ⟨some [⟨0xfff, NONE⟩, ⟨0xfff, 2⟩, ⟨0x1fff, NONE⟩, ⟨0xfff, 0⟩, ⟨W - 0x5000 - 1, NONE⟩],
           some [⟨0xfff, RDIRECT⟩, ⟨W - 0x1000 - 1, NONE⟩]⟩) := by decide
/-- the allocation of the reverse map fails (2nd request): the call fails -/
example : (setLayout ⟨none, none⟩ [⟨0x1000, 0x1fff, 2, true⟩] [true, false]).1 = .nomem := by decide
/-- the `realloc` inside the nested assignment fails (3rd request): the call fails -/
example : (setLayout ⟨none, none⟩ [⟨0x1000, 0x1fff, 2, true⟩] [true, true, false]).1 = .nomem := by decide

end Kdf.Props.C10
