import Kdf.Model.Derived
import Kdf.Lemmas.DerivedPage
import Kdf.Lemmas.DerivedReg
import Kdf.Lemmas.DerivedXen
import Kdf.Lemmas.DerivedVmci
import Kdf.Lemmas.DerivedTyped
/-!
# C14 — derived views of dump metadata stay coherent with their source

Property theorems over `Kdf.Model.Derived` (tied to the C code by the `derived`
correspondence stream).  Helper lemmas: `Kdf.Lemmas.Derived{Page,Reg,Vmci}`.
-/
namespace Kdf.Props.C14
open Kdf.Model.Derived
open Kdf.Lemmas.DerivedPage Kdf.Lemmas.DerivedReg Kdf.Lemmas.DerivedVmci Kdf.Lemmas.DerivedXen Kdf.Lemmas.DerivedTyped

/-! ## page size = 2 ^ page shift -/

def isSet : PageOp → Bool
  | .setSize _ | .setShift _ => true
  | _ => false

/-- run a history; `none` = undefined behaviour or recursion fuel exhausted -/
def pageRun (p : Page) : List PageOp → Option Page
  | [] => some p
  | op :: t => match pageStep p op with
    | .done _ p' => pageRun p' t
    | _ => none

/-- Every set of either attribute — accepted or refused — keeps
`page_size = 2 ^ page_shift` (both set or both unset), never reaches the undefined
shift and never exhausts the hook recursion; a refused set changes nothing. -/
theorem page_set_coherent (p : Page) (hp : Coh p) (op : PageOp) (hop : isSet op = true) :
    ∃ st p', pageStep p op = .done st p' ∧ Coh p' ∧ (st ≠ .ok → p' = p) := by
  cases op with
  | setSize v =>
    obtain ⟨st, p', h1, h2, _, h4⟩ := setSize_coh pageFuel (by decide) p hp v
    exact ⟨st, p', h1, h2, h4⟩
  | setShift s =>
    obtain ⟨st, p', h1, h2, _, h4⟩ := setShift_coh pageFuel (by decide) p hp s
    exact ⟨st, p', h1, h2, h4⟩
  | clearSize => simp [isSet] at hop
  | clearShift => simp [isSet] at hop

/-- … hence after every history of sets, of any length, from any coherent state. -/
theorem page_history (ops : List PageOp) (h : ∀ op ∈ ops, isSet op = true) (p : Page) (hp : Coh p) :
    ∃ p', pageRun p ops = some p' ∧ Coh p' := by
  induction ops generalizing p with
  | nil => exact ⟨p, rfl, hp⟩
  | cons op t ih =>
    obtain ⟨st, p1, h1, h2, _⟩ := page_set_coherent p hp op (h op (by simp))
    obtain ⟨p', h3, h4⟩ := ih (fun o ho => h o (by simp [ho])) p1 h2
    exact ⟨p', by simp [pageRun, h1, h3], h4⟩

/-- A page size is accepted exactly when it is a power of two below 2^64 (0 included in
the refused values). -/
theorem page_set_ok_iff (p : Page) (hp : Coh p) (v : Nat) :
    (∃ p', setSize pageFuel p v = .done .ok p') ↔ ∃ s, s < 64 ∧ v = 2 ^ s :=
  setSize_ok_iff p hp v

/- FINDING (KNOWN_FINDINGS clear-page-size-shift): the full statement — coherence after
   every history of sets AND clears — is false for the code as it is: clearing one
   attribute leaves the other set.  Witness: -/
example : ¬ Coh (clearSize ⟨some 4096, some 12⟩) := by simp [Coh, clearSize]
example : ¬ Coh (clearShift ⟨some 4096, some 12⟩) := by simp [Coh, clearShift]
-- non-vacuity
example : Coh ⟨some 4096, some 12⟩ := by simp [Coh]
example : pageRun {} [.setSize 4096, .setShift 16, .setSize 3, .setShift 64] = some ⟨some 65536, some 16⟩ := by decide

/-! ## registers are views of PRSTATUS -/

inductive CpuOp
  | get (i : Nat) | set (i v : Nat) | blob (b : Bytes) | poke (off : Nat) (bs : Bytes) | clearBlob

def cpuStep (c : Cpu) : CpuOp → Cpu
  | .get i => (getReg c i).2.1
  | .set i v => (setReg c i v).2
  | .blob b => setBlob c b
  | .poke off bs => (poke c off bs).getD c
  | .clearBlob => clearBlob c

def cpuRun (c : Cpu) : List CpuOp → Cpu
  | [] => c
  | op :: t => cpuRun (cpuStep c op) t

/-- After every history of reads, writes, blob replacements, clears and in-place edits every
register is still flagged "re-read from the blob" (as at creation) … -/
theorem reg_history (c : Cpu) (h : AllInvalid c) (ops : List CpuOp) : AllInvalid (cpuRun c ops) := by
  induction ops generalizing c with
  | nil => exact h
  | cons op t ih =>
    apply ih
    cases op with
    | get i => exact getReg_allInvalid c h i
    | set i v => exact setReg_allInvalid c h i v
    | blob b => exact h
    | clearBlob => exact h
    | poke off bs =>
      simp only [cpuStep, poke]
      split <;> exact h

/-- … so a read returns exactly the blob's bytes at the register's offset in the dump's
byte order (and fails when the blob is too short), -/
theorem reg_read_eq_blob (c : Cpu) (h : AllInvalid c) (hb : c.blobSet = true) (i : Nat) (r : Reg)
    (hr : c.regs[i]? = some r) (hl : okLen r.d.len = true) :
    (r.d.off + r.d.len ≤ c.blob.length →
      (getReg c i).1 = .ok ∧ (getReg c i).2.2 = some (decode c.be ((c.blob.drop r.d.off).take r.d.len)) ∧
      (getReg c i).2.1.blob = c.blob) ∧
    (c.blob.length < r.d.off + r.d.len → (getReg c i).1 = .corrupt ∧ (getReg c i).2.2 = none) := by
  refine ⟨fun hin => ?_, fun hout => getReg_short c h hb i r hr hout⟩
  obtain ⟨h1, h2, h3, _⟩ := getReg_eq_blob c h hb i r hr hin hl
  exact ⟨h1, h2, h3⟩

/-- a write patches exactly the register's bytes (nothing outside, length unchanged) with
the value in dump byte order, or fails and leaves the blob alone, -/
theorem reg_write_patches_blob (c : Cpu) (h : AllInvalid c) (hb : c.blobSet = true) (i v : Nat) (r : Reg)
    (hr : c.regs[i]? = some r) (hl : okLen r.d.len = true) :
    (r.d.off + r.d.len ≤ c.blob.length →
      (setReg c i v).1 = .ok ∧
      (setReg c i v).2.blob = patch c.blob r.d.off (encode c.be r.d.len v) ∧
      (setReg c i v).2.blob.length = c.blob.length ∧
      (∀ j, (j < r.d.off ∨ r.d.off + r.d.len ≤ j) → (setReg c i v).2.blob[j]? = c.blob[j]?)) ∧
    (c.blob.length < r.d.off + r.d.len → (setReg c i v).1 = .corrupt ∧ (setReg c i v).2.blob = c.blob) := by
  refine ⟨fun hin => ?_, fun hout => setReg_short c h hb i v r hr hout⟩
  obtain ⟨h1, h2, h3, h4, _⟩ := setReg_blob c h hb i v r hr hin hl
  exact ⟨h1, h2, h3, h4⟩

/-- and reading back gives the written value truncated to the register's width. -/
theorem reg_read_after_write (c : Cpu) (h : AllInvalid c) (hb : c.blobSet = true) (i v : Nat) (r : Reg)
    (hr : c.regs[i]? = some r) (hin : r.d.off + r.d.len ≤ c.blob.length) (hl : okLen r.d.len = true) :
    (getReg (setReg c i v).2 i).2.2 = some (v % 256 ^ r.d.len) :=
  get_after_set c h hb i v r hr hin hl

/-- After PRSTATUS has been cleared no register can be read or written (`nodata`); the
views come back when a new blob is set (`setBlob` makes `blobSet` true again). -/
theorem reg_cleared (c : Cpu) (h : AllInvalid c) (i v : Nat) (r : Reg) (hr : (clearBlob c).regs[i]? = some r) :
    (getReg (clearBlob c) i).1 = .nodata ∧ (getReg (clearBlob c) i).2.2 = none ∧
    (setReg (clearBlob c) i v).1 = .nodata ∧ (setReg (clearBlob c) i v).2.blobSet = false ∧
    ∀ b, (setBlob (clearBlob c) b).blobSet = true ∧ (setBlob (clearBlob c) b).blob = b := by
  have h' : AllInvalid (clearBlob c) := h
  obtain ⟨a1, a2⟩ := getReg_cleared (clearBlob c) h' rfl i r hr
  obtain ⟨b1, _, b3⟩ := setReg_cleared (clearBlob c) h' rfl i v r hr
  exact ⟨a1, a2, b1, b3, fun b => ⟨rfl, rfl⟩⟩

-- non-vacuity: a big-endian 4-byte register at offset 2 of a 8-byte blob
example : AllInvalid { be := true, blob := [1,2,3,4,5,6,7,8], regs := [{ d := ⟨"a0", 2, 4⟩ }] } := by
  intro r hr; simp at hr; subst hr; rfl
example : (getReg { be := true, blob := [1,2,3,4,5,6,7,8], regs := [{ d := ⟨"a0", 2, 4⟩ }] } 0).2.2 = some 0x03040506 := by decide
example : (setReg { be := true, blob := [1,2,3,4,5,6,7,8], regs := [{ d := ⟨"a0", 2, 4⟩ }] } 0 0x1AABBCCDD).2.blob
    = [1,2,0xAA,0xBB,0xCC,0xDD,7,8] := by decide

/-! ## Xen: registers of virtual CPU `n` are views of record `n` of `.xen_prstatus` -/

/-- The section is cut into whole records (a trailing partial record creates nothing):
vCPU `n` exists iff record `n` is complete; its `XEN_PRSTATUS` blob is exactly that record,
its registers are the given layout, all flagged "re-read from the blob". -/
theorem xen_records (be : Bool) (recsz : Nat) (h0 : 0 < recsz) (defs : List RegDef) (data : Bytes) :
    (xenCpus be recsz defs data).length = data.length / recsz ∧
    ∀ n, n < data.length / recsz → ∃ c, (xenCpus be recsz defs data)[n]? = some c ∧
      c.blob = (data.drop (n * recsz)).take recsz ∧ c.blob.length = recsz ∧ c.blobSet = true ∧ c.be = be ∧
      AllInvalid c ∧ c.regs = defs.map (fun d => { d := d }) := by
  obtain ⟨h1, h2⟩ := xenSplit_spec recsz h0 data.length data (Nat.le_refl _)
  refine ⟨by simp [xenCpus, h1], fun n hn => ?_⟩
  refine ⟨_, by simp only [xenCpus, List.getElem?_map, h2 n hn]; rfl, rfl, ?_, rfl, rfl, ?_, rfl⟩
  · have hle : (n + 1) * recsz ≤ data.length := by
      have := Nat.div_mul_le_self data.length recsz
      have h3 : (n + 1) * recsz ≤ data.length / recsz * recsz := Nat.mul_le_mul_right _ hn
      omega
    have e : (n + 1) * recsz = n * recsz + recsz := Nat.succ_mul n recsz
    simp only [List.length_take, List.length_drop]
    omega
  · intro r hr
    simp only [List.mem_map] at hr
    obtain ⟨d, _, rfl⟩ := hr
    rfl

/-- On the dump as opened, register `i` of vCPU `n` reads the bytes of the section at
`n * recsz + off` in the dump's byte order — for every register that lies inside a record. -/
theorem xen_reg_read_eq_section (be : Bool) (recsz : Nat) (h0 : 0 < recsz) (defs : List RegDef) (data : Bytes)
    (n i : Nat) (d : RegDef) (hn : n < data.length / recsz) (hd : defs[i]? = some d)
    (hl : okLen d.len = true) (hin : d.off + d.len ≤ recsz) :
    (cpusGetReg (xenCpus be recsz defs data) n i).1 = .ok ∧
    (cpusGetReg (xenCpus be recsz defs data) n i).2.2 =
      some (decode be ((data.drop (n * recsz + d.off)).take d.len)) := by
  obtain ⟨_, h2⟩ := xen_records be recsz h0 defs data
  obtain ⟨c, hc, hb, hlen, hset, hbe, hinv, hregs⟩ := h2 n hn
  have hr : c.regs[i]? = some { d := d } := by
    rw [hregs, List.getElem?_map, hd]; rfl
  obtain ⟨g1, g2, _⟩ := reg_read_eq_blob c hinv hset i _ hr hl |>.1 (by simpa [hlen] using hin)
  simp only [cpusGetReg, hc]
  refine ⟨g1, ?_⟩
  rw [g2, hbe, hb]
  simp only [List.drop_take, List.take_take, List.drop_drop]
  have e : min d.len (recsz - d.off) = d.len := by omega
  rw [e]

/-- Frame: an access to a register of vCPU `n` is the single-CPU operation on that CPU's record and
leaves every other CPU (blob and registers) untouched. -/
theorem xen_cpu_frame (cs : List Cpu) (n i v : Nat) (c : Cpu) (hc : cs[n]? = some c) :
    ((cpusSetReg cs n i v).1 = (setReg c i v).1 ∧ (cpusSetReg cs n i v).2[n]? = some (setReg c i v).2 ∧
      ∀ m, m ≠ n → (cpusSetReg cs n i v).2[m]? = cs[m]?) ∧
    ((cpusGetReg cs n i).1 = (getReg c i).1 ∧ (cpusGetReg cs n i).2.2 = (getReg c i).2.2 ∧
      (cpusGetReg cs n i).2.1[n]? = some (getReg c i).2.1 ∧
      ∀ m, m ≠ n → (cpusGetReg cs n i).2.1[m]? = cs[m]?) := by
  simp only [cpusSetReg, cpusGetReg, hc]
  refine ⟨⟨trivial, getElem?_setNth_self' cs n _ c hc, fun m hm => ?_⟩, trivial, trivial, getElem?_setNth_self' cs n _ c hc, fun m hm => ?_⟩
  · exact getElem?_setNth_ne cs n m _ (Ne.symm hm)
  · exact getElem?_setNth_ne cs n m _ (Ne.symm hm)

/-- Writing register `i` of vCPU `n` patches exactly that register's bytes of that CPU's record in
dump byte order, touches no other CPU, and reading it back returns the value (truncated to the
register's width). -/
theorem xen_reg_write_patches_record (cs : List Cpu) (n i v : Nat) (c : Cpu) (r : Reg) (hc : cs[n]? = some c)
    (h : AllInvalid c) (hb : c.blobSet = true) (hr : c.regs[i]? = some r) (hl : okLen r.d.len = true)
    (hin : r.d.off + r.d.len ≤ c.blob.length) :
    (cpusSetReg cs n i v).1 = .ok ∧
    (∃ c', (cpusSetReg cs n i v).2[n]? = some c' ∧
       c'.blob = patch c.blob r.d.off (encode c.be r.d.len v) ∧ c'.blob.length = c.blob.length ∧
       ∀ j, (j < r.d.off ∨ r.d.off + r.d.len ≤ j) → c'.blob[j]? = c.blob[j]?) ∧
    (∀ m, m ≠ n → (cpusSetReg cs n i v).2[m]? = cs[m]?) ∧
    (cpusGetReg (cpusSetReg cs n i v).2 n i).2.2 = some (v % 256 ^ r.d.len) := by
  obtain ⟨⟨f1, f2, f3⟩, _⟩ := xen_cpu_frame cs n i v c hc
  obtain ⟨w1, w2, w3, w4⟩ := (reg_write_patches_blob c h hb i v r hr hl).1 hin
  refine ⟨by rw [f1]; exact w1, ⟨_, f2, w2, w3, w4⟩, f3, ?_⟩
  obtain ⟨_, g1, g2, _⟩ := xen_cpu_frame (cpusSetReg cs n i v).2 n i v _ f2
  rw [g2]
  exact reg_read_after_write c h hb i v r hr hin hl

inductive CpusOp
  | get (n i : Nat) | set (n i v : Nat) | blob (n : Nat) (b : Bytes) | poke (n off : Nat) (bs : Bytes)
  | clearBlob (n : Nat)

def cpusStep (cs : List Cpu) : CpusOp → List Cpu
  | .get n i => (cpusGetReg cs n i).2.1
  | .set n i v => (cpusSetReg cs n i v).2
  | .blob n b => (cpusUpdate cs n (fun c => some (setBlob c b))).getD cs
  | .poke n off bs => (cpusUpdate cs n (fun c => poke c off bs)).getD cs
  | .clearBlob n => (cpusUpdate cs n (fun c => some (clearBlob c))).getD cs

def cpusRun (cs : List Cpu) : List CpusOp → List Cpu
  | [] => cs
  | op :: t => cpusRun (cpusStep cs op) t

/-- After every history of register reads and writes, blob replacements, clears and in-place edits on
any of the CPUs, every register of every CPU is still flagged "re-read from the blob": the
single-CPU theorems above apply in every reachable state of a Xen dump. -/
theorem xen_history (cs : List Cpu) (h : AllCpusInvalid cs) (ops : List CpusOp) : AllCpusInvalid (cpusRun cs ops) := by
  induction ops generalizing cs with
  | nil => exact h
  | cons op t ih =>
    apply ih
    cases op with
    | get n i =>
      simp only [cpusStep, cpusGetReg]
      cases hc : cs[n]? with
      | none => exact h
      | some c =>
        intro x hx
        rcases mem_setNth cs n _ x hx with rfl | hm
        · exact getReg_allInvalid c (h c (List.mem_of_getElem? hc)) i
        · exact h x hm
    | set n i v =>
      simp only [cpusStep, cpusSetReg]
      cases hc : cs[n]? with
      | none => exact h
      | some c =>
        intro x hx
        rcases mem_setNth cs n _ x hx with rfl | hm
        · exact setReg_allInvalid c (h c (List.mem_of_getElem? hc)) i v
        · exact h x hm
    | blob n b => exact cpusUpdate_inv cs h n _ (fun c c' hc e => by cases e; exact hc)
    | clearBlob n => exact cpusUpdate_inv cs h n _ (fun c c' hc e => by cases e; exact hc)
    | poke n off bs =>
      refine cpusUpdate_inv cs h n _ (fun c c' hc e => ?_)
      simp only [poke] at e
      split at e
      · cases e; exact hc
      · cases e

-- non-vacuity: a 9-byte section with 4-byte records holds two vCPUs (the ninth byte is ignored);
-- a 2-byte register at offset 1
example : (xenCpus false 4 [⟨"cs", 1, 2⟩] [1,2,3,4,5,6,7,8,9]).map (·.blob) = [[1,2,3,4],[5,6,7,8]] := by decide
example : (cpusGetReg (xenCpus false 4 [⟨"cs", 1, 2⟩] [1,2,3,4,5,6,7,8,9]) 1 0).2.2 = some 0x0706 := by decide
example : ((cpusSetReg (xenCpus false 4 [⟨"cs", 1, 2⟩] [1,2,3,4,5,6,7,8,9]) 1 0 0x1AABB).2.map (·.blob))
    = [[1,2,3,4],[5,0xBB,0xAA,8]] := by decide
example : (cpusGetReg (xenCpus false 4 [⟨"cs", 1, 2⟩] [1,2,3,4,5,6,7,8,9]) 2 0).1 = .nokey := by decide
example : AllCpusInvalid (xenCpus false 4 [⟨"cs", 1, 2⟩] [1,2,3,4,5,6,7,8,9]) := by
  intro c hc r hr
  simp [xenCpus, xenSplit] at hc
  rcases hc with rfl | rfl <;> simp at hr <;> subst hr <;> rfl

/-! ## version code = KERNEL_VERSION of the release string -/

inductive VerOp
  | setRelease (s : Bytes) | clearRelease | get

/-- `none` = signed overflow inside `KERNEL_VERSION` (components ≥ 2^47 / 2^55) -/
def verStep (v : Ver) : VerOp → Option Ver
  | .setRelease s => some (setRelease v s)
  | .clearRelease => some (clearRelease v)
  | .get => match getVer v with
    | .done _ (v', _) => some v'
    | _ => none

def verRun (v : Ver) : List VerOp → Option Ver
  | [] => some v
  | op :: t => (verStep v op).bind (verRun · t)

/-- The invariant "a version code that is not flagged for revalidation is the code of the
current release string" holds after every history of setting / clearing the release
string and reading the version code. -/
theorem version_history (ops : List VerOp) (v : Ver) (h : VerInv v) (v' : Ver) (hr : verRun v ops = some v') :
    VerInv v' := by
  induction ops generalizing v with
  | nil => simp [verRun] at hr; subst hr; exact h
  | cons op t ih =>
    simp only [verRun] at hr
    cases op with
    | setRelease s => exact ih (setRelease v s) (setRelease_inv v h s) (by simpa [verStep] using hr)
    | clearRelease => exact ih (clearRelease v) (clearRelease_inv v h) (by simpa [verStep] using hr)
    | get =>
      have hg := getVer_inv v h
      simp only [verStep] at hr
      split at hr
      · rename_i st v1 r heq
        rw [heq] at hg
        exact ih v1 hg.1 (by simpa using hr)
      · simp at hr

/-- Whenever reading `linux.version_code` succeeds, the value is `KERNEL_VERSION(a,b,c)` of
the triple parsed from the current `linux.uts.release`; a failed read yields no value. -/
theorem version_code_coherent (v : Ver) (h : VerInv v) (st : Status) (v' : Ver) (r : Option Nat)
    (hg : getVer v = .done st (v', r)) :
    (st = .ok → ∃ rel a b c n, r = some n ∧ v.release = some rel ∧ parseRelease rel = some (a, b, c) ∧
                  kernelVersion a b c = some n) ∧
    (st ≠ .ok → r = none) := by
  have := getVer_inv v h
  rw [hg] at this
  exact ⟨this.2.2.1, this.2.2.2⟩

/-- After the release string is cleared the version code cannot be read. -/
theorem version_cleared (v : Ver) (h : VerInv v) : ∃ v', getVer (clearRelease v) = .done .nodata (v', none) :=
  getVer_cleared v h

-- non-vacuity: the triples of some release strings, and a read after a set
example : parseRelease (bytesOf "5.4.0-100-generic") = some (5, 4, 0) := by decide
example : parseRelease (bytesOf "5.4") = some (5, 4, 0) := by decide
example : parseRelease (bytesOf "6") = some (6, 0, 0) := by decide
example : parseRelease (bytesOf "4.19.300") = some (4, 19, 300) := by decide
example : parseRelease (bytesOf "5.x") = none := by decide
example : VerInv {} := by simp [VerInv]
example : (match getVer (setRelease {} (bytesOf "4.19.300")) with
    | .done .ok (_, r) => r == some (4 * 65536 + 19 * 256 + 255)
    | _ => false) = true := by decide

/-! ## VMCOREINFO: raw text, parsed lines, convenience calls -/

/-- The splitter loses nothing and invents nothing: no piece contains a newline, the
pieces glued with newlines give back the text up to one final newline (so a missing
final newline, empty lines and the empty text are all covered), and every piece is cut
at its first `'='` (a piece without `'='` has an empty value). -/
theorem vmci_lines_split (raw : Bytes) :
    (∀ l ∈ splitLines (raw.length + 1) raw, 10 ∉ l) ∧
    (raw = [] → rowsOf raw = []) ∧
    (raw ≠ [] → (List.intercalate [10] (splitLines (raw.length + 1) raw) = raw ∨
                 List.intercalate [10] (splitLines (raw.length + 1) raw) ++ [10] = raw)) ∧
    (∀ l, 61 ∉ (rowOfLine l).key ∧
          ((l = (rowOfLine l).key ∧ (rowOfLine l).val = []) ∨ l = (rowOfLine l).key ++ [61] ++ (rowOfLine l).val)) := by
  obtain ⟨h1, h2, h3⟩ := splitLines_spec raw
  exact ⟨h1, fun h => by simp [rowsOf, h2 h], h3, rowOfLine_spec⟩

/-- If a text is accepted, the parsed lines are exactly the key/value list of the text
(for a repeated key the last row wins), `kdump_vmcoreinfo_line` returns exactly that
value (and `nodata` for a key the text does not have) — for all texts and all keys:
repeated keys, keys that are plain or dotted prefixes of other keys (a text with a
dotted-prefix pair or with a key that starts with a dot is not accepted: see
`vmci_dir_refused`, `vmci_dot_refused`). -/
theorem vmci_lines_view (c : Ctx) (b : Bytes) (c' : Ctx)
    (h : setRaw c b = .done .ok c') (k : Bytes) :
    c'.lines.find k = lastVal (rowsOf b) k ∧
    vline c' k = (match lastVal (rowsOf b) k with
                  | some v => (.ok, v)
                  | none => (.nodata, [])) :=
  ⟨setRaw_lines c b c' h k, setRaw_vline c b c' h k⟩

/-- Whatever the outcome of setting a text, the raw attribute and `kdump_vmcoreinfo_raw`
give back exactly that text; clearing it clears every derived view. -/
theorem vmci_raw_unchanged (c : Ctx) (b : Bytes) (st : Status) (c' : Ctx) (h : setRaw c b = .done st c') :
    c'.raw = some b ∧ vraw c' = (.ok, b) ∧
    ((clearRaw c').raw = none ∧ (clearRaw c').lines = [] ∧ (clearRaw c').typed = [] ∧
     (∀ k, (vline (clearRaw c') k).1 = .nodata) ∧ (∀ k, (vsym (clearRaw c') k).1 = .nodata)) := by
  have h1 := setRaw_raw c b
  rw [h] at h1
  obtain ⟨a1, a2, a3, a4, a5, _⟩ := clearRaw_views c'
  exact ⟨h1, setRaw_vraw c b c' st h, a1, a2, a3, a4, a5⟩

/-- A row whose key names a directory of the tree built so far is refused and changes
nothing (FINDING vmci-dotted-prefix: such a text cannot be represented). -/
theorem vmci_dir_refused (c : Ctx) (r : Row) (hk : leadingDot r.key = false)
    (hnew : c.lines.find r.key = none) (hdir : c.lines.isDir r.key = true) :
    addRow c r = .done .invalid c :=
  addRow_dir_refused c r hk hnew hdir

/-- A row whose key starts with a dot is refused and changes nothing, an accepted text has
no such row, and the convenience calls never find a key with a leading dot (FINDING
vmci-leading-dot: such a text is refused as a whole). -/
theorem vmci_dot_refused (c : Ctx) (r : Row) (hk : leadingDot r.key = true) :
    addRow c r = .done .system c ∧ (vline c r.key).1 = .nodata ∧ (vsym c r.key).1 = .nodata ∧
    (∀ b c', setRaw c b = .done .ok c' → ∀ r' ∈ rowsOf b, leadingDot r'.key = false) := by
  refine ⟨addRow_dot_refused c r hk, ?_, ?_, fun b c' h => setRaw_ok_noDot c b c' h⟩
  · simp only [vline, hk]; split <;> rfl
  · simp only [vsym, hk]; split <;> rfl

/-- The typed views agree with the LAST row of their key: for an accepted text and every
well-formed `TYPE(sym)` key (`TYPE` one of SYMBOL, NUMBER, OFFSET, SIZE, LENGTH; `typedKey`),
the attribute `linux.vmcoreinfo.TYPE.sym` shows exactly what the value of the last row with
that key parses to (`strtoull`, whole string) — NO value when that row does not parse (an
earlier row's value is cleared: the repaired `parsed_line_hook`), and no leaf at all when the
text has no such row.  (Before the repair the completeness half was false: finding
vmci-stale-typed.) -/
theorem vmci_typed_last_row (c : Ctx) (b : Bytes) (c' : Ctx) (h : setRaw c b = .done .ok c')
    (key : Bytes) (isSym : Bool) (tn : String) (p : Bytes) (hk : typedKey key = some (isSym, tn, p)) :
    shownAt c' p = (lastVal (rowsOf b) key).bind (parseTyped isSym) ∧
    (lastVal (rowsOf b) key = none → c'.typed.find p = none) :=
  setRaw_typed c b c' h key isSym tn p hk

/-- … and `kdump_vmcoreinfo_symbol(sym)` answers accordingly: a value it returns is the parse of
the last `SYMBOL(sym)` row, and it has no data when that row does not parse or does not exist. -/
theorem vmci_symbol_view (c : Ctx) (b : Bytes) (c' : Ctx) (h : setRaw c b = .done .ok c')
    (key sym : Bytes) (tn : String) (hk : typedKey key = some (true, tn, bytesOf "SYMBOL." ++ sym)) :
    (∀ n, vsym c' sym = (.ok, n) → (lastVal (rowsOf b) key).bind (parseTyped true) = some (true, n)) ∧
    ((lastVal (rowsOf b) key).bind (parseTyped true) = none → (vsym c' sym).1 = .nodata) := by
  obtain ⟨h1, _⟩ := setRaw_typed c b c' h key true tn _ hk
  unfold shownAt at h1
  refine ⟨fun n hn => ?_, fun hnone => ?_⟩
  · rw [← h1]
    unfold vsym at hn
    split at hn
    · cases hn
    · split at hn
      · cases hn
      · split at hn
        · rename_i t ht
          split at hn
          · rename_i hc
            cases hn
            rw [ht]
            simp only [Bool.and_eq_true] at hc
            simp [Typed.shown, hc.1, hc.2]
          · cases hn
        · cases hn
  · rw [hnone] at h1
    unfold vsym
    split
    · rfl
    · split
      · rfl
      · split
        · rename_i t ht
          rw [ht] at h1
          split
          · rename_i hc
            simp only [Bool.and_eq_true] at hc
            simp [Typed.shown, hc.2] at h1
          · rfl
        · rfl

-- non-vacuity (texts as byte lists): "A=1\nB\n\nC=x=y"; "A=1\nAB=2\nA=3\n" (repeated key, plain
-- prefix key); "SYMBOL(s)=ff\n"; the dotted-prefix pairs "A=1\nA.B=2\n" and "A.B=2\nA=1\n"
example : rowsOf [65,61,49,10,66,10,10,67,61,120,61,121]
    = [⟨[65], [49]⟩, ⟨[66], []⟩, ⟨[], []⟩, ⟨[67], [120,61,121]⟩] := by decide
example : (match setRaw {} [65,61,49,10,65,66,61,50,10,65,61,51,10] with
    | .done .ok c => c.lines.find [65] == some [51] && c.lines.find [65,66] == some [50]
    | _ => false) = true := by decide
example : (match setRaw {} [83,89,77,66,79,76,40,115,41,61,102,102,10] with
    | .done .ok c => vsym c [115] == (.ok, 255)
    | _ => false) = true := by decide
example : (match setRaw {} [65,61,49,10,65,46,66,61,50,10] with | .done .system _ => true | _ => false) = true := by decide
example : (match setRaw {} [65,46,66,61,50,10,65,61,49,10] with | .done .invalid _ => true | _ => false) = true := by decide
-- "A=1\n.A=2\n": refused at the dotted row, line "A" keeps 1, ".A" is no line
example : (match setRaw {} [65,61,49,10,46,65,61,50,10] with
    | .done .system c => vline c [65] == (.ok, [49]) && vline c [46,65] == (.nodata, [])
    | _ => false) = true := by decide

-- "NUMBER(x)=1\nNUMBER(x)=zz\n": the second row does not parse -- the leaf NUMBER.x stays but shows nothing;
-- "SYMBOL(s)=10\nSYMBOL(s)=zz\n": kdump_vmcoreinfo_symbol("s") has no data; a third row "NUMBER(x)=7" shows again
example : typedKey [78,85,77,66,69,82,40,120,41] = some (false, "NUMBER", [78,85,77,66,69,82,46,120]) := by decide
example : (match setRaw {} [78,85,77,66,69,82,40,120,41,61,49,10, 78,85,77,66,69,82,40,120,41,61,122,122,10] with
    | .done .ok c => (c.typed.find [78,85,77,66,69,82,46,120]).map (·.set) == some false &&
                     shownAt c [78,85,77,66,69,82,46,120] == none
    | _ => false) = true := by decide
example : (match setRaw {} [83,89,77,66,79,76,40,115,41,61,49,48,10, 83,89,77,66,79,76,40,115,41,61,122,122,10] with
    | .done .ok c => vsym c [115] == (.nodata, 0)
    | _ => false) = true := by decide
example : (match setRaw {} [78,85,77,66,69,82,40,120,41,61,49,10, 78,85,77,66,69,82,40,120,41,61,122,122,10,
                            78,85,77,66,69,82,40,120,41,61,55,10] with
    | .done .ok c => shownAt c [78,85,77,66,69,82,46,120] == some (false, 7)
    | _ => false) = true := by decide

end Kdf.Props.C14
