import Kdf.Model.Oom
import Kdf.Lemmas.Oom
import Kdf.Lemmas.OomProg
/-!
# C18 — running out of memory is an error, not an accident

Property theorems for the ledger model `Kdf.Model.Oom` (constructors and
unwinders of `kdump_new`, `kdump_clone`, `alloc_ctx`, `attr_dict_new`,
`xlat_new`/`xlat_clone`, `add_pfn_region`).  Every theorem quantifies over ALL
fault points `n`, all sizes (`g` global attributes, `x` translation
attributes, `k` per-context slots, `m` cloned attributes) and any starting
ledger.  Related theorems proved elsewhere and listed by the check:
`Kdf.Props.C10.set_nomem`, `Kdf.Props.C10.history` (translation map unchanged
on NOMEM), `Kdf.Props.C16.vadd_trunc`, `Kdf.Props.C16.vadd_inbounds` (failed
message allocation degrades to an in-bounds truncation).
-/
namespace Kdf.Props.C18
open Kdf.Model.Oom Kdf.Lemmas.Oom

/-- Nothing of the caller's world changed: ledger, lock holds, undefined-operation
flag and the reference counts of the pre-existing objects. -/
def Restored (s0 s : St) : Prop :=
  s.live = s0.live ∧ s.rd = s0.rd ∧ s.wr = s0.wr ∧ s.bad = s0.bad ∧
  s.shRef = s0.shRef ∧ s.dictRef = s0.dictRef ∧ s.xlatRef = s0.xlatRef

/-- the `failAt`-th allocation falls among the next `t` attempts -/
def Hits (s : St) (t : Nat) : Prop := s.cnt < s.failAt ∧ s.failAt ≤ s.cnt + t

/-- `kdump_new`: it fails exactly when one of its `7+g+x` allocations fails, and
then everything it allocated is freed again, no lock is held and nothing
undefined happened. -/
theorem kdumpNew_fail (g x : Nat) (s : St) (hl : s.rd = 0 ∧ s.wr = 0) :
    (kdumpNew Fix.all g x s).1 = false → Restored s (kdumpNew Fix.all g x s).2 ∧ Hits s (kdumpNewTotal g x) := by
  intro h
  have f := (kdumpNew_spec g x s hl.1 hl.2).1 h
  exact ⟨⟨by simpa using f.live, f.fr.rd, f.fr.wr, f.fr.bad, f.fr.sh, f.fr.di, f.fr.xr⟩, f.hit⟩

theorem kdumpNew_ok (g x : Nat) (s : St) (hl : s.rd = 0 ∧ s.wr = 0) :
    (kdumpNew Fix.all g x s).1 = true →
      ¬ Hits s (kdumpNewTotal g x) ∧
      (kdumpNew Fix.all g x s).2.live.length = s.live.length + kdumpNewTotal g x ∧
      (kdumpNew Fix.all g x s).2.cnt = s.cnt + kdumpNewTotal g x ∧
      (kdumpNew Fix.all g x s).2.rd = 0 ∧ (kdumpNew Fix.all g x s).2.wr = 0 ∧
      (kdumpNew Fix.all g x s).2.bad = s.bad := by
  intro h
  obtain ⟨bl, d, hlen⟩ := (kdumpNew_spec g x s hl.1 hl.2).2 h
  refine ⟨d.nohit, ?_, d.cnt, d.fr.rd.trans hl.1, d.fr.wr.trans hl.2, d.fr.bad⟩
  show _ = s.live.length + (7 + g + x)
  rw [d.live, List.length_append, hlen]; omega

/-- The statement of the property for `kdump_new`, over all fault points. -/
theorem kdumpNew_oom_safe (g x n : Nat) (h1 : 1 ≤ n) (h2 : n ≤ kdumpNewTotal g x) :
    (kdumpNew Fix.all g x (St.init n)).1 = false ∧
    (kdumpNew Fix.all g x (St.init n)).2.live = [] ∧
    (kdumpNew Fix.all g x (St.init n)).2.rd = 0 ∧ (kdumpNew Fix.all g x (St.init n)).2.wr = 0 ∧
    (kdumpNew Fix.all g x (St.init n)).2.bad = false := by
  have hl : (St.init n).rd = 0 ∧ (St.init n).wr = 0 := ⟨rfl, rfl⟩
  cases hb : (kdumpNew Fix.all g x (St.init n)).1
  · obtain ⟨r, _⟩ := kdumpNew_fail g x _ hl hb
    exact ⟨rfl, r.1, r.2.1, r.2.2.1, r.2.2.2.1⟩
  · have hn := (kdumpNew_ok g x _ hl hb).1
    exact absurd ⟨(by show 0 < n; omega), (by show n ≤ 0 + kdumpNewTotal g x; omega)⟩ hn

/-- `kdump_clone` (both flag values, any number of per-context slots): on failure
the original's reference counts, the ledger and the lock are as before. -/
theorem kdumpClone_fail (xl : Bool) (k m : Nat) (s : St) (hl : s.rd = 0 ∧ s.wr = 0) :
    (kdumpClone Fix.all xl k m s).1 = false →
      Restored s (kdumpClone Fix.all xl k m s).2 ∧ Hits s (kdumpCloneTotal xl k m) := by
  intro h
  have f := (kdumpClone_spec xl k m s hl.1 hl.2).1 h
  exact ⟨⟨by simpa using f.live, f.fr.rd, f.fr.wr, f.fr.bad, f.fr.sh, f.fr.di, f.fr.xr⟩, f.hit⟩

theorem kdumpClone_ok (xl : Bool) (k m : Nat) (s : St) (hl : s.rd = 0 ∧ s.wr = 0) :
    (kdumpClone Fix.all xl k m s).1 = true →
      ¬ Hits s (kdumpCloneTotal xl k m) ∧
      (kdumpClone Fix.all xl k m s).2.live.length = s.live.length + kdumpCloneTotal xl k m ∧
      (kdumpClone Fix.all xl k m s).2.rd = 0 ∧ (kdumpClone Fix.all xl k m s).2.wr = 0 ∧
      (kdumpClone Fix.all xl k m s).2.bad = s.bad ∧
      (kdumpClone Fix.all xl k m s).2.shRef = s.shRef + (if xl then 2 else 1) ∧
      (kdumpClone Fix.all xl k m s).2.dictRef = s.dictRef + 1 ∧
      (kdumpClone Fix.all xl k m s).2.xlatRef = s.xlatRef + (if xl then 0 else 1) := by
  intro h
  obtain ⟨a1, a2, a3, a4, a5, a6, a7, a8⟩ := (kdumpClone_spec xl k m s hl.1 hl.2).2 h
  exact ⟨a1, a2, a3.trans hl.1, a4.trans hl.2, a5, a6, a7, a8⟩

theorem kdumpClone_oom_safe (xl : Bool) (k m n : Nat) (h1 : 1 ≤ n) (h2 : n ≤ kdumpCloneTotal xl k m) :
    (kdumpClone Fix.all xl k m (St.init n)).1 = false ∧
    Restored (St.init n) (kdumpClone Fix.all xl k m (St.init n)).2 := by
  have hl : (St.init n).rd = 0 ∧ (St.init n).wr = 0 := ⟨rfl, rfl⟩
  cases hb : (kdumpClone Fix.all xl k m (St.init n)).1
  · exact ⟨rfl, (kdumpClone_fail xl k m _ hl hb).1⟩
  · have hn := (kdumpClone_ok xl k m _ hl hb).1
    exact absurd ⟨(by show 0 < n; omega), (by show n ≤ 0 + kdumpCloneTotal xl k m; omega)⟩ hn

/-- `add_pfn_region`: a failed growth returns NULL and leaves the map as it was;
otherwise the region is appended. -/
theorem addRegion_nomem (inc : Nat) (mp : PfnMap) (r : Nat) :
    addRegion inc mp r false = (none, mp) ∨ addRegion inc mp r false = addRegion inc mp r true := by
  unfold addRegion; split <;> simp

theorem addRegion_fail_unchanged (inc : Nat) (mp : PfnMap) (r : Nat) (a : Bool) :
    (addRegion inc mp r a).1 = none → (addRegion inc mp r a).2 = mp := by
  unfold addRegion; split <;> (try split) <;> simp

theorem addRegion_ok (inc : Nat) (mp : PfnMap) (r : Nat) :
    ∃ mp', addRegion inc mp r true = (some mp', mp') ∧ mp'.regions = mp.regions ++ [r] := by
  unfold addRegion; split <;> simp

/-! ### Non-vacuity and the defects the repaired code no longer has -/

/-- concrete runs: 4 global attributes, 3 translation attributes, failing the
8th allocation (an attribute of the dictionary loop); a clean run; a clone with
two slots failing inside `clone_xlat_attrs` -/
example : (kdumpNew Fix.all 4 3 (St.init 8)).1 = false ∧ (kdumpNew Fix.all 4 3 (St.init 8)).2.live = [] := by decide
example : (kdumpNew Fix.all 4 3 (St.init 0)).1 = true ∧ (kdumpNew Fix.all 4 3 (St.init 0)).2.live.length = 14 := by decide
example : (kdumpClone Fix.all true 2 5 (St.init 12)).1 = false ∧ (kdumpClone Fix.all true 2 5 (St.init 12)).2.live = [] := by decide

/-- the code before `fix: attr_dict_new()`: failing the 7th allocation leaks the dictionary and an attribute -/
example : (kdumpNew { attrDictUnwind := false } 4 3 (St.init 7)).2.live = [6, 5] := by decide
/-- before `fix: xlat_clone()`: NULL dereference when `xlat_new` fails (6th allocation of a clone without slots) -/
example : (kdumpClone { xlatNullCheck := false } true 0 5 (St.init 6)).2.bad = true := by decide
/-- before `fix: kdump_clone() returned with the shared lock held` -/
example : (kdumpClone { cloneUnlock := false } false 2 0 (St.init 4)).2.rd = 1 := by decide
/-- before `fix: kdump_clone() error exits leaked …`: two blocks of the translation context stay -/
example : (kdumpClone { cloneUnwind := false } true 0 5 (St.init 4)).2.live = [3, 2] := by decide

end Kdf.Props.C18
