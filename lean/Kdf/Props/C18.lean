import Kdf.Model.Oom
import Kdf.Lemmas.Oom
import Kdf.Lemmas.OomProg
import Kdf.Lemmas.OomSlot
/-!
# C18 — running out of memory is an error, not an accident

Property theorems for the ledger model `Kdf.Model.Oom` (constructors and
unwinders of `kdump_new`, `kdump_clone`, `alloc_ctx`, `attr_dict_new`,
`xlat_new`/`xlat_clone`, `add_pfn_region`).  Every theorem quantifies over ALL
fault points `n`, all sizes (`g` global attributes, `x` translation
attributes, `k` per-context slots, `m` cloned attributes) and any starting
ledger.  Related theorems proved elsewhere and listed by the check:
`Kdf.Props.C10.set_nomem`, `Kdf.Props.C10.history` (translation map unchanged
on NOMEM), `Kdf.Props.C16.vadd_trunc`, `Kdf.Props.C16.vadd_inbounds` (failed
message allocation degrades to an in-bounds truncation).
-/
namespace Kdf.Props.C18
open Kdf.Model.Oom Kdf.Lemmas.Oom

/-- Nothing of the caller's world changed: ledger, lock holds, undefined-operation
flag and the reference counts of the pre-existing objects. -/
def Restored (s0 s : St) : Prop :=
  s.live = s0.live ∧ s.rd = s0.rd ∧ s.wr = s0.wr ∧ s.bad = s0.bad ∧
  s.shRef = s0.shRef ∧ s.dictRef = s0.dictRef ∧ s.xlatRef = s0.xlatRef

/-- the `failAt`-th allocation falls among the next `t` attempts -/
def Hits (s : St) (t : Nat) : Prop := s.cnt < s.failAt ∧ s.failAt ≤ s.cnt + t

/-- `kdump_new`: it fails exactly when one of its `7+g+x` allocations fails, and
then everything it allocated is freed again, no lock is held and nothing
undefined happened. -/
theorem kdumpNew_fail (g x : Nat) (s : St) (hl : s.rd = 0 ∧ s.wr = 0) :
    (kdumpNew Fix.all g x s).1 = false → Restored s (kdumpNew Fix.all g x s).2 ∧ Hits s (kdumpNewTotal g x) := by
  intro h
  have f := (kdumpNew_spec g x s hl.1 hl.2).1 h
  exact ⟨⟨by simpa using f.live, f.fr.rd, f.fr.wr, f.fr.bad, f.fr.sh, f.fr.di, f.fr.xr⟩, f.hit⟩

theorem kdumpNew_ok (g x : Nat) (s : St) (hl : s.rd = 0 ∧ s.wr = 0) :
    (kdumpNew Fix.all g x s).1 = true →
      ¬ Hits s (kdumpNewTotal g x) ∧
      (kdumpNew Fix.all g x s).2.live.length = s.live.length + kdumpNewTotal g x ∧
      (kdumpNew Fix.all g x s).2.cnt = s.cnt + kdumpNewTotal g x ∧
      (kdumpNew Fix.all g x s).2.rd = 0 ∧ (kdumpNew Fix.all g x s).2.wr = 0 ∧
      (kdumpNew Fix.all g x s).2.bad = s.bad := by
  intro h
  obtain ⟨bl, d, hlen⟩ := (kdumpNew_spec g x s hl.1 hl.2).2 h
  refine ⟨d.nohit, ?_, d.cnt, d.fr.rd.trans hl.1, d.fr.wr.trans hl.2, d.fr.bad⟩
  show _ = s.live.length + (7 + g + x)
  rw [d.live, List.length_append, hlen]; omega

/-- The statement of the property for `kdump_new`, over all fault points. -/
theorem kdumpNew_oom_safe (g x n : Nat) (h1 : 1 ≤ n) (h2 : n ≤ kdumpNewTotal g x) :
    (kdumpNew Fix.all g x (St.init n)).1 = false ∧
    (kdumpNew Fix.all g x (St.init n)).2.live = [] ∧
    (kdumpNew Fix.all g x (St.init n)).2.rd = 0 ∧ (kdumpNew Fix.all g x (St.init n)).2.wr = 0 ∧
    (kdumpNew Fix.all g x (St.init n)).2.bad = false := by
  have hl : (St.init n).rd = 0 ∧ (St.init n).wr = 0 := ⟨rfl, rfl⟩
  cases hb : (kdumpNew Fix.all g x (St.init n)).1
  · obtain ⟨r, _⟩ := kdumpNew_fail g x _ hl hb
    exact ⟨rfl, r.1, r.2.1, r.2.2.1, r.2.2.2.1⟩
  · have hn := (kdumpNew_ok g x _ hl hb).1
    exact absurd ⟨(by show 0 < n; omega), (by show n ≤ 0 + kdumpNewTotal g x; omega)⟩ hn

/-- `kdump_clone` (both flag values, any number of per-context slots): on failure
the original's reference counts, the ledger and the lock are as before. -/
theorem kdumpClone_fail (xl : Bool) (k m : Nat) (s : St) (hl : s.rd = 0 ∧ s.wr = 0) :
    (kdumpClone Fix.all xl k m s).1 = false →
      Restored s (kdumpClone Fix.all xl k m s).2 ∧ Hits s (kdumpCloneTotal xl k m) := by
  intro h
  have f := (kdumpClone_spec xl k m s hl.1 hl.2).1 h
  exact ⟨⟨by simpa using f.live, f.fr.rd, f.fr.wr, f.fr.bad, f.fr.sh, f.fr.di, f.fr.xr⟩, f.hit⟩

theorem kdumpClone_ok (xl : Bool) (k m : Nat) (s : St) (hl : s.rd = 0 ∧ s.wr = 0) :
    (kdumpClone Fix.all xl k m s).1 = true →
      ¬ Hits s (kdumpCloneTotal xl k m) ∧
      (kdumpClone Fix.all xl k m s).2.live.length = s.live.length + kdumpCloneTotal xl k m ∧
      (kdumpClone Fix.all xl k m s).2.rd = 0 ∧ (kdumpClone Fix.all xl k m s).2.wr = 0 ∧
      (kdumpClone Fix.all xl k m s).2.bad = s.bad ∧
      (kdumpClone Fix.all xl k m s).2.shRef = s.shRef + (if xl then 2 else 1) ∧
      (kdumpClone Fix.all xl k m s).2.dictRef = s.dictRef + 1 ∧
      (kdumpClone Fix.all xl k m s).2.xlatRef = s.xlatRef + (if xl then 0 else 1) := by
  intro h
  obtain ⟨a1, a2, a3, a4, a5, a6, a7, a8⟩ := (kdumpClone_spec xl k m s hl.1 hl.2).2 h
  exact ⟨a1, a2, a3.trans hl.1, a4.trans hl.2, a5, a6, a7, a8⟩

theorem kdumpClone_oom_safe (xl : Bool) (k m n : Nat) (h1 : 1 ≤ n) (h2 : n ≤ kdumpCloneTotal xl k m) :
    (kdumpClone Fix.all xl k m (St.init n)).1 = false ∧
    Restored (St.init n) (kdumpClone Fix.all xl k m (St.init n)).2 := by
  have hl : (St.init n).rd = 0 ∧ (St.init n).wr = 0 := ⟨rfl, rfl⟩
  cases hb : (kdumpClone Fix.all xl k m (St.init n)).1
  · exact ⟨rfl, (kdumpClone_fail xl k m _ hl hb).1⟩
  · have hn := (kdumpClone_ok xl k m _ hl hb).1
    exact absurd ⟨(by show 0 < n; omega), (by show n ≤ 0 + kdumpCloneTotal xl k m; omega)⟩ hn

/-- `add_pfn_region`: a failed growth returns NULL and leaves the map as it was;
otherwise the region is appended. -/
theorem addRegion_nomem (inc : Nat) (mp : PfnMap) (r : Nat) :
    addRegion inc mp r false = (none, mp) ∨ addRegion inc mp r false = addRegion inc mp r true := by
  unfold addRegion; split <;> simp

theorem addRegion_fail_unchanged (inc : Nat) (mp : PfnMap) (r : Nat) (a : Bool) :
    (addRegion inc mp r a).1 = none → (addRegion inc mp r a).2 = mp := by
  unfold addRegion; split <;> (try split) <;> simp

theorem addRegion_ok (inc : Nat) (mp : PfnMap) (r : Nat) :
    ∃ mp', addRegion inc mp r true = (some mp', mp') ∧ mp'.regions = mp.regions ++ [r] := by
  unfold addRegion; split <;> simp

/-! ### Non-vacuity and the defects the repaired code no longer has -/

/-- concrete runs: 4 global attributes, 3 translation attributes, failing the
8th allocation (an attribute of the dictionary loop); a clean run; a clone with
two slots failing inside `clone_xlat_attrs` -/
example : (kdumpNew Fix.all 4 3 (St.init 8)).1 = false ∧ (kdumpNew Fix.all 4 3 (St.init 8)).2.live = [] := by decide
example : (kdumpNew Fix.all 4 3 (St.init 0)).1 = true ∧ (kdumpNew Fix.all 4 3 (St.init 0)).2.live.length = 14 := by decide
example : (kdumpClone Fix.all true 2 5 (St.init 12)).1 = false ∧ (kdumpClone Fix.all true 2 5 (St.init 12)).2.live = [] := by decide

/-- the code before `fix: attr_dict_new()`: failing the 7th allocation leaks the dictionary and an attribute -/
example : (kdumpNew { attrDictUnwind := false } 4 3 (St.init 7)).2.live = [6, 5] := by decide
/-- before `fix: xlat_clone()`: NULL dereference when `xlat_new` fails (6th allocation of a clone without slots) -/
example : (kdumpClone { xlatNullCheck := false } true 0 5 (St.init 6)).2.bad = true := by decide
/-- before `fix: kdump_clone() returned with the shared lock held` -/
example : (kdumpClone { cloneUnlock := false } false 2 0 (St.init 4)).2.rd = 1 := by decide
/-- before `fix: kdump_clone() error exits leaked …`: two blocks of the translation context stay -/
example : (kdumpClone { cloneUnwind := false } true 0 5 (St.init 4)).2.live = [3, 2] := by decide

/-! ### per-context slots, the LKCD page-size change, the page map built on first use -/

/-- ledger well-formed: block ids are distinct and were all handed out before -/
def Wf (s : St) : Prop := s.live.Nodup ∧ ∀ i ∈ s.live, i ≤ s.cnt

/-- the buffers the object names are live, distinct blocks (nothing dangles, nothing is named twice) -/
def Owned (o : PgObj) (s : St) : Prop :=
  (o.bufs ++ o.cache).Nodup ∧ ∀ b ∈ o.bufs ++ o.cache, b ∈ s.live

/-- `per_ctx_alloc` / `cache_alloc`: when one of the `k` allocations fails, NULL (or -1) is returned and
everything obtained so far has been given back. -/
theorem allocAll_fail (k : Nat) (s : St) :
    (allocAll k s).1 = none → Restored s (allocAll k s).2 ∧ (allocAll k s).2.mtx = s.mtx ∧ Hits s k := by
  intro h
  rcases allocAll_cases k s with ⟨s', hc⟩ | ⟨got, s', hc⟩
  · obtain ⟨a1, a2, _, a4⟩ := allocAll_none hc
    rw [hc]
    exact ⟨⟨a1, a2.rd, a2.wr, a2.bad, a2.sh, a2.di, a2.xr⟩, a2.mtx, a4⟩
  · rw [hc] at h; cases h

theorem allocAll_ok (k : Nat) (s : St) (got : List Nat) :
    (allocAll k s).1 = some got →
      got.length = k ∧ (allocAll k s).2.live = got ++ s.live ∧ (∀ i ∈ got, s.cnt < i) ∧ ¬ Hits s k ∧
      (allocAll k s).2.cnt = s.cnt + k ∧ (allocAll k s).2.bad = s.bad ∧
      (allocAll k s).2.rd = s.rd ∧ (allocAll k s).2.wr = s.wr ∧ (allocAll k s).2.mtx = s.mtx := by
  intro h
  rcases allocAll_cases k s with ⟨s', hc⟩ | ⟨got', s', hc⟩
  · rw [hc] at h; cases h
  · rw [hc] at h; cases h
    obtain ⟨a1, a2, a3, a4, a5, a6, a7⟩ := allocAll_some hc
    rw [hc]
    exact ⟨a4, a1, fun i hi => (a5 i hi).1, a7, a3, a2.bad, a2.rd, a2.wr, a2.mtx⟩

/-- `lkcd_realloc_compressed`: when the new slot cannot be allocated the object is left exactly as it
was — same slot, same buffers, all of them still allocated. -/
theorem pgRound_slot_fail (c m : Nat) (o : PgObj) (s : St) (h : Hits s c) :
    (pgRound {} c m o s).1 = false ∧ (pgRound {} c m o s).2.1 = o ∧ Restored s (pgRound {} c m o s).2.2 := by
  rcases allocAll_cases c s with ⟨s1, hc⟩ | ⟨nw, s1, hc⟩
  · obtain ⟨a1, a2, _, _⟩ := allocAll_none hc
    rw [pgRound_eq1 hc]
    exact ⟨rfl, rfl, ⟨a1, a2.rd, a2.wr, a2.bad, a2.sh, a2.di, a2.xr⟩⟩
  · exact absurd h (allocAll_some hc).2.2.2.2.2.2

/-- One run of the hook chain, whatever fails: the object names live, distinct blocks afterwards,
nothing undefined happened, no lock changed hands, and the number of live blocks that the object does
not name is what it was (nothing leaked, nothing else freed). -/
theorem pgRound_safe (c m : Nat) (o : PgObj) (s : St) (hw : Wf s) (ho : Owned o s) :
    Wf (pgRound {} c m o s).2.2 ∧ Owned (pgRound {} c m o s).2.1 (pgRound {} c m o s).2.2 ∧
    (pgRound {} c m o s).2.2.bad = s.bad ∧ (pgRound {} c m o s).2.2.rd = s.rd ∧
    (pgRound {} c m o s).2.2.wr = s.wr ∧ (pgRound {} c m o s).2.2.mtx = s.mtx ∧
    (pgRound {} c m o s).2.2.failAt = s.failAt ∧
    (pgRound {} c m o s).2.2.live.length + (o.bufs.length + o.cache.length) =
      s.live.length + ((pgRound {} c m o s).2.1.bufs.length + (pgRound {} c m o s).2.1.cache.length) ∧
    ((pgRound {} c m o s).1 = true →
      (pgRound {} c m o s).2.1.bufs.length = c ∧ (pgRound {} c m o s).2.1.cache.length = m ∧
      (pgRound {} c m o s).2.2.cnt = s.cnt + (c + m) ∧ ¬ Hits s (c + m)) ∧
    ((pgRound {} c m o s).1 = false → Hits s (c + m)) := by
  obtain ⟨hb, hcN, hd⟩ := List.nodup_append.mp ho.1
  have hbm : ∀ b ∈ o.bufs, b ∈ s.live := fun b hb => ho.2 b (List.mem_append_left _ hb)
  have hcm : ∀ b ∈ o.cache, b ∈ s.live := fun b hb => ho.2 b (List.mem_append_right _ hb)
  rcases allocAll_cases c s with ⟨s1, hc⟩ | ⟨nw, s1, hc⟩
  · -- the slot allocation fails
    obtain ⟨a1, a2, a3, a4⟩ := allocAll_none hc
    have hw1 : WfL s1 := WfL.allocAll_none hw hc
    rw [pgRound_eq1 hc]
    refine ⟨hw1, ⟨ho.1, ?_⟩, a2.bad, a2.rd, a2.wr, a2.mtx, a2.fa, ?_, ?_, ?_⟩
    · intro b hb; show b ∈ s1.live; rw [a1]; exact ho.2 b hb
    · show s1.live.length + _ = _; rw [a1]
    · intro h; cases h
    · intro _; unfold Hits; omega
  · obtain ⟨b1, b2, b3, b4, b5, b6, b7⟩ := allocAll_some hc
    have hw1 : WfL s1 := WfL.allocAll_some hw hc
    have hbm1 : ∀ b ∈ o.bufs, b ∈ s1.live := by
      intro b hb; rw [b1]; exact List.mem_append_right _ (hbm b hb)
    obtain ⟨c1, c2, c3, c4, c5⟩ := freeAll_sub o.bufs s1 hw1.1 hb hbm1
    have hw2 : WfL (freeAll o.bufs s1) := WfL.freeAll hw1 hb hbm1
    have hnw2 : ∀ i ∈ nw, i ∈ (freeAll o.bufs s1).live := by
      intro i hi
      rw [c2, b1]
      refine ⟨List.mem_append_left _ hi, ?_⟩
      intro hib
      have := hw.2 i (hbm i hib); have := (b5 i hi).1; omega
    have hca2 : ∀ i ∈ o.cache, i ∈ (freeAll o.bufs s1).live := by
      intro i hi
      rw [c2, b1]
      exact ⟨List.mem_append_right _ (hcm i hi), fun hib => hd i hib i hi rfl⟩
    have hnwc : ∀ a ∈ nw, ∀ b ∈ o.cache, a ≠ b := by
      intro a ha b hb e
      have := hw.2 b (hcm b hb); have := (b5 a ha).1; omega
    have hlen1 : s1.live.length = c + s.live.length := by rw [b1, List.length_append, b4]
    rcases allocAll_cases m (freeAll o.bufs s1) with ⟨s3, hc2⟩ | ⟨nc, s3, hc2⟩
    · -- the cache allocation fails
      obtain ⟨d1, d2, d3, d4⟩ := allocAll_none hc2
      have hw3 : WfL s3 := WfL.allocAll_none hw2 hc2
      have fr := (b2.trans c5).trans d2
      rw [pgRound_eq2 hc hc2]
      refine ⟨hw3, ⟨?_, ?_⟩, fr.bad, fr.rd, fr.wr, fr.mtx, fr.fa, ?_, ?_, ?_⟩
      · show (nw ++ o.cache).Nodup
        exact List.nodup_append.mpr ⟨b6, hcN, hnwc⟩
      · intro b hb
        show b ∈ s3.live
        rw [d1]
        change b ∈ nw ++ o.cache at hb
        rcases List.mem_append.mp hb with hb | hb
        · exact hnw2 b hb
        · exact hca2 b hb
      · show s3.live.length + _ = s.live.length + (nw.length + o.cache.length)
        rw [d1]; omega
      · intro h; cases h
      · intro _
        have := b2.fa; have := c5.fa
        unfold Hits; omega
    · -- both groups allocated
      obtain ⟨e1, e2, e3, e4, e5, e6, e7⟩ := allocAll_some hc2
      have hw3 : WfL s3 := WfL.allocAll_some hw2 hc2
      have hcm3 : ∀ b ∈ o.cache, b ∈ s3.live := by
        intro b hb; rw [e1]; exact List.mem_append_right _ (hca2 b hb)
      obtain ⟨f1, f2, f3, f4, f5⟩ := freeAll_sub o.cache s3 hw3.1 hcN hcm3
      have hw4 : WfL (freeAll o.cache s3) := WfL.freeAll hw3 hcN hcm3
      have fr := ((b2.trans c5).trans e2).trans f5
      rw [pgRound_eq3 hc hc2]
      refine ⟨hw4, ⟨?_, ?_⟩, fr.bad, fr.rd, fr.wr, fr.mtx, fr.fa, ?_, ?_, ?_⟩
      · show (nw ++ nc).Nodup
        refine List.nodup_append.mpr ⟨b6, e6, ?_⟩
        intro a ha b hb e
        have := (b5 a ha).2; have := (e5 b hb).1; omega
      · intro b hb
        show b ∈ (freeAll o.cache s3).live
        change b ∈ nw ++ nc at hb
        rw [f2, e1]
        rcases List.mem_append.mp hb with hb | hb
        · exact ⟨List.mem_append_right _ (hnw2 b hb), fun hbc => hnwc b hb b hbc rfl⟩
        · refine ⟨List.mem_append_left _ hb, ?_⟩
          intro hbc
          have := hw.2 b (hcm b hbc); have := (e5 b hb).1; omega
      · show (freeAll o.cache s3).live.length + _ = s.live.length + (nw.length + nc.length)
        have : s3.live.length = m + (freeAll o.bufs s1).live.length := by
          rw [e1, List.length_append, e4]
        omega
      · intro _
        have := b2.fa; have := c5.fa
        refine ⟨b4, e4, ?_, ?_⟩
        · show (freeAll o.cache s3).cnt = _; omega
        · unfold Hits; omega
      · intro h; cases h

/-- `kdump_set_attr("arch.page_size")` on an open LKCD dump with `c` contexts, over all fault points. -/
theorem setPageSize_safe (c m : Nat) (o : PgObj) (s : St) (hl : s.rd = 0 ∧ s.wr = 0) (hw : Wf s) (ho : Owned o s) :
    Wf (setPageSize {} c m o s).2.2 ∧ Owned (setPageSize {} c m o s).2.1 (setPageSize {} c m o s).2.2 ∧
    (setPageSize {} c m o s).2.2.bad = s.bad ∧ (setPageSize {} c m o s).2.2.rd = 0 ∧
    (setPageSize {} c m o s).2.2.wr = 0 ∧ (setPageSize {} c m o s).2.2.mtx = s.mtx ∧
    (setPageSize {} c m o s).2.2.live.length + (o.bufs.length + o.cache.length) =
      s.live.length + ((setPageSize {} c m o s).2.1.bufs.length + (setPageSize {} c m o s).2.1.cache.length) ∧
    ((setPageSize {} c m o s).1 = true →
      (setPageSize {} c m o s).2.1.bufs.length = c ∧ (setPageSize {} c m o s).2.1.cache.length = m ∧
      ¬ Hits s (setPageSizeTotal c m)) ∧
    ((setPageSize {} c m o s).1 = false → Hits s (setPageSizeTotal c m)) := by
  obtain ⟨w1, w2, w3, w4, w5, w6, w7⟩ := wrlock_free hl.1 hl.2
  have hw0 : Wf (wrlock s) := by
    refine ⟨by rw [w3]; exact hw.1, ?_⟩
    intro i hi; rw [w3] at hi; rw [w6]; exact hw.2 i hi
  have ho0 : Owned o (wrlock s) := ⟨ho.1, fun b hb => by rw [w3]; exact ho.2 b hb⟩
  have p1 := pgRound_safe c m o (wrlock s) hw0 ho0
  rcases h1 : pgRound {} c m o (wrlock s) with ⟨b1, o1, s1⟩
  rw [h1] at p1
  obtain ⟨q1, q2, q3, q4, q5, q6, q7, q8, q9, q10⟩ := p1
  dsimp only at q1 q2 q3 q4 q5 q6 q7 q8 q9 q10
  cases b1
  · -- first run fails
    obtain ⟨u1, u2, u3, u4, u5, u6, u7⟩ := unlock_wr1 (q5.trans w1)
    rw [setPageSize_eq1 h1]
    refine ⟨?_, ⟨q2.1, ?_⟩, ?_, ?_, u1, ?_, ?_, ?_, ?_⟩
    · refine ⟨by show (unlock s1).live.Nodup; rw [u3]; exact q1.1, ?_⟩
      intro i hi
      show i ≤ (unlock s1).cnt
      rw [u6]; exact q1.2 i (by rw [← u3]; exact hi)
    · intro b hb; show b ∈ (unlock s1).live; rw [u3]; exact q2.2 b hb
    · show (unlock s1).bad = s.bad; rw [u4, q3, w4]
    · show (unlock s1).rd = 0; rw [u2, q4, w2]
    · show (unlock s1).mtx = s.mtx; rw [u5, q6, w5]
    · show (unlock s1).live.length + _ = s.live.length + (o1.bufs.length + o1.cache.length)
      rw [u3, ← w3]; exact q8
    · intro h; cases h
    · intro _
      have := q10 rfl
      unfold Hits at this ⊢
      unfold setPageSizeTotal
      omega
  · -- second run
    obtain ⟨r1, r2, r3, r4⟩ := q9 rfl
    have p2 := pgRound_safe c m o1 s1 q1 q2
    rcases h2 : pgRound {} c m o1 s1 with ⟨b2, o2, s2⟩
    rw [h2] at p2
    obtain ⟨t1, t2, t3, t4, t5, t6, t7, t8, t9, t10⟩ := p2
    dsimp only at t1 t2 t3 t4 t5 t6 t7 t8 t9 t10
    obtain ⟨u1, u2, u3, u4, u5, u6, u7⟩ := unlock_wr1 ((t5.trans q5).trans w1)
    rw [setPageSize_eq2 h1 h2]
    refine ⟨?_, ⟨t2.1, ?_⟩, ?_, ?_, u1, ?_, ?_, ?_, ?_⟩
    · refine ⟨by show (unlock s2).live.Nodup; rw [u3]; exact t1.1, ?_⟩
      intro i hi
      show i ≤ (unlock s2).cnt
      rw [u6]; exact t1.2 i (by rw [← u3]; exact hi)
    · intro b hb; show b ∈ (unlock s2).live; rw [u3]; exact t2.2 b hb
    · show (unlock s2).bad = s.bad; rw [u4, t3, q3, w4]
    · show (unlock s2).rd = 0; rw [u2, t4, q4, w2]
    · show (unlock s2).mtx = s.mtx; rw [u5, t6, q6, w5]
    · show (unlock s2).live.length + _ = s.live.length + (o2.bufs.length + o2.cache.length)
      rw [u3, ← w3]; omega
    · intro hb
      have hb' : b2 = true := hb
      obtain ⟨v1, v2, v3, v4⟩ := t9 hb'
      refine ⟨v1, v2, ?_⟩
      unfold Hits at r4 v4 ⊢
      unfold setPageSizeTotal
      omega
    · intro hb
      have hb' : b2 = false := hb
      have := t10 hb'
      unfold Hits at r4 this ⊢
      unfold setPageSizeTotal
      omega

/-- `kdump_get_attr("memory.pagemap")` while the map has still to be built: whatever fails, neither
the shared lock nor `cache_lock` is held at return; the call fails exactly when one of its `g`
allocations does; at most the region array itself (kept by the format data) is new in the ledger. -/
theorem pagemapGet_safe (g : Nat) (s : St) (hl : s.rd = 0 ∧ s.wr = 0 ∧ s.mtx = 0) :
    (pagemapGet {} g s).2.rd = 0 ∧ (pagemapGet {} g s).2.wr = 0 ∧ (pagemapGet {} g s).2.mtx = 0 ∧
    (pagemapGet {} g s).2.bad = s.bad ∧
    ((pagemapGet {} g s).1 = false ↔ Hits s g) ∧
    ((pagemapGet {} g s).2.live = s.live ∨ (pagemapGet {} g s).2.live = (s.cnt + 1) :: s.live) := by
  obtain ⟨n1, n2, n3, n4, n5, n6, n7⟩ := enter_spec hl.1 hl.2.1 hl.2.2
  cases g with
  | zero =>
    obtain ⟨x1, x2, x3, x4, x5⟩ := exit_spec n1 n2 n3
    rw [pagemapGet_zero]
    refine ⟨x1, x2, x3, x5.trans n5, ?_, Or.inl (x4.trans n4)⟩
    unfold Hits
    constructor
    · intro h; cases h
    · intro h; omega
  | succ g =>
    rcases ha : alloc (mlock (rdlock s)) with ⟨_ | i, s1⟩
    · obtain ⟨a1, a2, a3, a4⟩ := alloc_none2 ha
      obtain ⟨x1, x2, x3, x4, x5⟩ := exit_spec (a4.rd.trans n1) (a4.wr.trans n2) (a4.mtx.trans n3)
      rw [pagemapGet_eq1 ha]
      refine ⟨x1, x2, x3, (x5.trans a4.bad).trans n5, ?_, Or.inl ((x4.trans a3).trans n4)⟩
      unfold Hits
      constructor
      · intro _; omega
      · intro _; rfl
    · obtain ⟨a1, a2, a3, a4, a5⟩ := alloc_some2 ha
      obtain ⟨g1, g2, g3, g4⟩ := regrowN_spec g s1
      rcases hr : regrowN g s1 with ⟨b, s2⟩
      rw [hr] at g1 g2 g3 g4
      dsimp only at g1 g2 g3 g4
      have fr := a5.trans g2
      obtain ⟨x1, x2, x3, x4, x5⟩ := exit_spec (fr.rd.trans n1) (fr.wr.trans n2) (fr.mtx.trans n3)
      rw [pagemapGet_eq2 ha hr]
      refine ⟨x1, x2, x3, (x5.trans fr.bad).trans n5, ?_, Or.inr ?_⟩
      · show b = false ↔ _
        rw [g4]
        have := a5.fa
        unfold Hits
        omega
      · show (unlock (munlock s2)).live = _
        rw [x4, g1, a4, a2, n4, n6]

/-- `kdump_set_attr(file.set.number)` growing the file set: whichever of the `per * k` allocations fails — in the
first new slot or in a later one — the call fails with every block given back and the lock released; it succeeds
exactly when none of them fails. -/
theorem numFilesGrow_safe (per k : Nat) (s : St) (hl : s.rd = 0 ∧ s.wr = 0) :
    (numFilesGrow per k s).2.rd = 0 ∧ (numFilesGrow per k s).2.wr = 0 ∧ (numFilesGrow per k s).2.bad = s.bad ∧
    ((numFilesGrow per k s).1 = false → (numFilesGrow per k s).2.live = s.live ∧ Hits s (per * k)) ∧
    ((numFilesGrow per k s).1 = true →
      (numFilesGrow per k s).2.live.length = s.live.length + per * k ∧ ¬ Hits s (per * k)) := by
  have hw : wrlock s = { s with wr := 1, trace := .W :: s.trace } := by
    unfold wrlock; simp [hl.1, hl.2]
  have hf := allocAll_fail (per * k) (wrlock s)
  have hk := allocAll_ok (per * k) (wrlock s)
  unfold numFilesGrow
  simp only []
  rcases hr : allocAll (per * k) (wrlock s) with ⟨_ | got, s2⟩
  · rw [hr] at hf
    obtain ⟨⟨l1, l2, l3, l4, _⟩, _, hh⟩ := hf rfl
    rw [hw] at l1 l2 l3 l4 hh
    simp only at l1 l2 l3 l4
    have hu : unlock s2 = { s2 with wr := s2.wr - 1, trace := .U :: s2.trace } := by
      unfold unlock; simp [l3]
    simp only [hu, Option.isSome_none]
    refine ⟨by rw [l2]; exact hl.1, by rw [l3], l4, ?_, ?_⟩
    · intro _; exact ⟨l1, by unfold Hits at hh ⊢; simpa using hh⟩
    · intro h; cases h
  · rw [hr] at hk
    obtain ⟨k1, k2, _, k4, _, k6, k7, k8, _⟩ := hk got rfl
    rw [hw] at k2 k4 k6 k7 k8
    simp only at k2 k4 k6 k7 k8
    have hu : unlock s2 = { s2 with wr := s2.wr - 1, trace := .U :: s2.trace } := by
      unfold unlock; simp [k8]
    simp only [hu, Option.isSome_some]
    refine ⟨by rw [k7]; exact hl.1, by rw [k8], k6, ?_, ?_⟩
    · intro h; cases h
    · intro _
      refine ⟨by rw [k2, List.length_append, k1]; omega, ?_⟩
      unfold Hits at k4 ⊢; simpa using k4

example : (numFilesGrow 4 3 (St.init 7)).1 = false ∧ (numFilesGrow 4 3 (St.init 7)).2.live = [] ∧
    (numFilesGrow 4 3 (St.init 7)).2.wr = 0 := by decide
example : (numFilesGrow 4 3 (St.init 0)).1 = true ∧ (numFilesGrow 4 3 (St.init 0)).2.live.length = 12 := by decide

/-- concrete runs: 3 contexts, a 2-block cache, the old slot buffers 1,2,3 and the old cache 4,5 -/
example : (setPageSize {} 3 2 { cbuf := some [3, 2, 1], cache := [5, 4] } { cnt := 5, live := [5, 4, 3, 2, 1], failAt := 5 + 8 }).1 = false ∧
    (setPageSize {} 3 2 { cbuf := some [3, 2, 1], cache := [5, 4] } { cnt := 5, live := [5, 4, 3, 2, 1], failAt := 5 + 8 }).2.2.live = [10, 9, 8, 7, 6] := by decide
example : (setPageSize {} 3 2 { cbuf := some [3, 2, 1], cache := [5, 4] } { cnt := 5, live := [5, 4, 3, 2, 1], failAt := 0 }).1 = true := by decide
/-- the old slot released before the new one is allocated (`slotFirst := false`): failing the 2nd
allocation leaves the object naming the freed buffers 1,2,3 -/
example : (setPageSize { slotFirst := false } 3 2 { cbuf := some [3, 2, 1], cache := [5, 4] } { cnt := 5, live := [5, 4, 3, 2, 1], failAt := 5 + 2 }).2.1.cbuf = some [3, 2, 1] ∧
    (setPageSize { slotFirst := false } 3 2 { cbuf := some [3, 2, 1], cache := [5, 4] } { cnt := 5, live := [5, 4, 3, 2, 1], failAt := 5 + 2 }).2.2.live = [5, 4] := by decide
/-- an error exit of `mem_pagemap_revalidate` that skips the unlock: `cache_lock` stays held -/
example : (pagemapGet { unlockOnError := false } 1 (St.init 1)).2.mtx = 1 ∧ (pagemapGet {} 1 (St.init 1)).2.mtx = 0 := by decide

end Kdf.Props.C18
