import Kdf.Model.Xen
import Kdf.Spec.XenIndex
import Kdf.Lemmas.XenGlue
/-!
# C19 — Xen domain dumps: guest and machine frame views describe the same pages

Property theorems only; helper lemmas live in `Kdf/Lemmas/Xen*.lean`.

`l` is the page list of the dump (guest frames of `.xen_pfn`/`.xen_p2m`, or the
machine frames of `.xen_p2m`) in file order, so `l[i]` is the frame whose
content is the `i`-th page of `.xen_pages`.  Hypotheses, all explicit:
the frames are 64-bit values and pairwise distinct (a frame listed twice has
no single page to compare with), and the list has fewer than `2^63` entries
(`int_fast64_t len`).  Nothing is assumed about the order of the list, about
gaps, or about the allocation oracle beyond the build having succeeded; the
uninitialised `cur->pfn` is universally quantified (`junk`).  `qsort` is
an insertion sort over the C comparators (trusted to sort).
-/
namespace Kdf.Props.C19
open Kdf.Model.Xen Kdf.Spec.XenIndex Kdf.Lemmas.Xen

/-- The run-length index equals the list index: for every page list of distinct
frames, in any order, the search of the finished map returns the position of
the frame in the list, and `IDX_NONE` for every frame that is not listed. -/
theorem search_build (ok : Nat → Bool) (junk : Nat) (l : List Nat) (m : PMap)
    (hl : ∀ p ∈ l, p < W) (hnd : l.Nodup) (hlen : l.length < 2^63)
    (hb : build ok junk l = some m) (p : Nat) (hp : p < W) :
    search m p = lookup l p := by
  by_cases hm : p ∈ l
  · obtain ⟨i, hi⟩ := List.getElem?_of_mem hm
    rw [found_of_build ok junk l m hl hnd hlen hb i p hi, lookup_of_getElem l hnd i p hi]
  · rw [none_of_build ok junk l m hl hnd hlen hb p hp hm, lookup_of_not_mem l p hm]

/-- every listed frame is found, with the index of its page -/
theorem listed_found (ok : Nat → Bool) (junk : Nat) (l : List Nat) (m : PMap)
    (hl : ∀ p ∈ l, p < W) (hnd : l.Nodup) (hlen : l.length < 2^63)
    (hb : build ok junk l = some m) (i p : Nat) (hi : l[i]? = some p) :
    search m p = i ∧ i ≠ IDX_NONE :=
  ⟨found_of_build ok junk l m hl hnd hlen hb i p hi,
   idx_ne_none l.length i hlen (List.getElem?_eq_some_iff.mp hi).1⟩

/-- frames the dump does not list are reported as missing -/
theorem unlisted_none (ok : Nat → Bool) (junk : Nat) (l : List Nat) (m : PMap)
    (hl : ∀ p ∈ l, p < W) (hnd : l.Nodup) (hlen : l.length < 2^63)
    (hb : build ok junk l = some m) (p : Nat) (hp : p < W) (hn : p ∉ l) :
    search m p = IDX_NONE :=
  none_of_build ok junk l m hl hnd hlen hb p hp hn

/-- if no allocation fails the index is built, for every list -/
theorem build_total (ok : Nat → Bool) (hok : ∀ n, ok n = true) (junk : Nat) (l : List Nat) :
    ∃ m, build ok junk l = some m :=
  build_total' ok hok junk l

/-- the field `pfn2idx_map_start` leaves uninitialised never influences the result -/
theorem build_junk_irrelevant (ok : Nat → Bool) (j1 j2 : Nat) (l : List Nat) :
    build ok j1 l = build ok j2 l :=
  build_junk' ok j1 j2 l

/-- Hypotheses on a `.xen_p2m` table: distinct guest frames, distinct machine
frames, all below `2^(64 - page_shift)` (so that they have byte addresses). -/
structure GoodTable (be : Bool) (shift : Nat) (tbl : List Entry) : Prop where
  shift_le : shift ≤ 64
  pnodup : (pfns be tbl).Nodup
  mnodup : (mfns be tbl).Nodup
  pbound : ∀ p ∈ pfns be tbl, p < 2^(64 - shift)
  mbound : ∀ p ∈ mfns be tbl, p < 2^(64 - shift)
  len : tbl.length < 2^63

/-- Converting a listed guest-physical address to machine-physical and back
returns the original address (and the machine address is the listed one). -/
theorem p2m_m2p_roundtrip (okP okM : Nat → Bool) (jP jM : Nat) (be : Bool) (shift mapOff pagesOff : Nat)
    (tbl : List Entry) (d : Dump)
    (hd : mkDump okP okM jP jM true be shift mapOff pagesOff tbl = some d)
    (g : GoodTable be shift tbl) (i : Nat) (e : Entry) (hi : tbl[i]? = some e)
    (off : Nat) (hoff : off < 2^shift) :
    p2m d (toh be e.pfn * 2^shift + off) = .ok (toh be e.mfn * 2^shift + off) ∧
    m2p d (toh be e.mfn * 2^shift + off) = .ok (toh be e.pfn * 2^shift + off) := by
  obtain ⟨pm, mm, hpm, hmm, rfl⟩ := mkDump_nonauto okP okM jP jM be shift mapOff pagesOff tbl d hd
  have hil : i < tbl.length := (List.getElem?_eq_some_iff.mp hi).1
  have hne := idx_ne_none tbl.length i g.len hil
  have hp : (pfns be tbl)[i]? = some (toh be e.pfn) := by simp [pfns, hi]
  have hm : (mfns be tbl)[i]? = some (toh be e.mfn) := by simp [mfns, hi]
  have hpb := g.pbound _ (List.mem_of_getElem? hp)
  have hmb := g.mbound _ (List.mem_of_getElem? hm)
  have hsp := found_of_build okP jP _ pm (fun p h => frame_lt_W shift p (g.pbound p h)) g.pnodup
    (by simpa [pfns] using g.len) hpm i _ hp
  have hsm := found_of_build okM jM _ mm (fun p h => frame_lt_W shift p (g.mbound p h)) g.mnodup
    (by simpa [mfns] using g.len) hmm i _ hm
  exact ⟨p2m_ok _ _ i off e g.shift_le hsp hne hi hmb hoff,
         m2p_ok _ _ i off e g.shift_le hsm hne hi hpb hoff⟩

/-- The guest view and the machine view of a listed page are the same file
offset (hence the same bytes): page `i` of `.xen_pages`. -/
theorem both_views_same_page (okP okM : Nat → Bool) (jP jM : Nat) (be : Bool) (shift mapOff pagesOff : Nat)
    (tbl : List Entry) (d : Dump)
    (hd : mkDump okP okM jP jM true be shift mapOff pagesOff tbl = some d)
    (g : GoodTable be shift tbl) (hfile : pagesOff + tbl.length * 2^shift ≤ 2^63)
    (i : Nat) (e : Entry) (hi : tbl[i]? = some e) (off off' : Nat) (hoff : off < 2^shift) (hoff' : off' < 2^shift) :
    getPage d .kphys (toh be e.pfn * 2^shift + off) = .ok (pagesOff + i * 2^shift) ∧
    getPage d .machphys (toh be e.mfn * 2^shift + off') = .ok (pagesOff + i * 2^shift) := by
  obtain ⟨pm, mm, hpm, hmm, rfl⟩ := mkDump_nonauto okP okM jP jM be shift mapOff pagesOff tbl d hd
  have hil : i < tbl.length := (List.getElem?_eq_some_iff.mp hi).1
  have hne := idx_ne_none tbl.length i g.len hil
  have hp : (pfns be tbl)[i]? = some (toh be e.pfn) := by simp [pfns, hi]
  have hm : (mfns be tbl)[i]? = some (toh be e.mfn) := by simp [mfns, hi]
  have hsp := found_of_build okP jP _ pm (fun p h => frame_lt_W shift p (g.pbound p h)) g.pnodup
    (by simpa [pfns] using g.len) hpm i _ hp
  have hsm := found_of_build okM jM _ mm (fun p h => frame_lt_W shift p (g.mbound p h)) g.mnodup
    (by simpa [mfns] using g.len) hmm i _ hm
  exact ⟨getPage_ok _ .kphys _ i off hsp hne hil hfile hoff,
         getPage_ok _ .machphys _ i off' hsm hne hil hfile hoff'⟩

/-- Frames the dump does not list are missing in both views: no page, no conversion. -/
theorem unlisted_missing_both (okP okM : Nat → Bool) (jP jM : Nat) (be : Bool) (shift mapOff pagesOff : Nat)
    (tbl : List Entry) (d : Dump)
    (hd : mkDump okP okM jP jM true be shift mapOff pagesOff tbl = some d)
    (g : GoodTable be shift tbl) (f off : Nat) (hf : f < 2^(64 - shift)) (hoff : off < 2^shift) :
    (f ∉ pfns be tbl → getPage d .kphys (f * 2^shift + off) = .error .nodata ∧
                        p2m d (f * 2^shift + off) = .error .nodata) ∧
    (f ∉ mfns be tbl → getPage d .machphys (f * 2^shift + off) = .error .nodata ∧
                        m2p d (f * 2^shift + off) = .error .nodata) := by
  obtain ⟨pm, mm, hpm, hmm, rfl⟩ := mkDump_nonauto okP okM jP jM be shift mapOff pagesOff tbl d hd
  have hfW := frame_lt_W shift f hf
  constructor
  · intro hn
    have hs := none_of_build okP jP _ pm (fun p h => frame_lt_W shift p (g.pbound p h)) g.pnodup
      (by simpa [pfns] using g.len) hpm f hfW hn
    exact ⟨getPage_nodata _ .kphys f off hs hoff, p2m_nodata _ f off hs hoff⟩
  · intro hn
    have hs := none_of_build okM jM _ mm (fun p h => frame_lt_W shift p (g.mbound p h)) g.mnodup
      (by simpa [mfns] using g.len) hmm f hfW hn
    exact ⟨getPage_nodata _ .machphys f off hs hoff, m2p_nodata _ f off hs hoff⟩

/-- The pfn-only layout (auto-translated guest): listed guest frames give their
page, unlisted ones are missing. -/
theorem pfn_only_view (okP okM : Nat → Bool) (jP jM : Nat) (be : Bool) (shift mapOff pagesOff : Nat)
    (tbl : List Entry) (d : Dump)
    (hd : mkDump okP okM jP jM false be shift mapOff pagesOff tbl = some d)
    (hs : shift ≤ 64) (hnd : (pfns be tbl).Nodup) (hb : ∀ p ∈ pfns be tbl, p < 2^(64 - shift))
    (hlen : tbl.length < 2^63) (hfile : pagesOff + tbl.length * 2^shift ≤ 2^63)
    (off : Nat) (hoff : off < 2^shift) :
    (∀ i e, tbl[i]? = some e → getPage d .kphys (toh be e.pfn * 2^shift + off) = .ok (pagesOff + i * 2^shift)) ∧
    (∀ f, f < 2^(64 - shift) → f ∉ pfns be tbl → getPage d .kphys (f * 2^shift + off) = .error .nodata) := by
  have _ := hs  -- not needed: `xc_get_page` does no 64-bit shifting of the frame
  obtain ⟨pm, hpm, rfl⟩ := mkDump_auto okP okM jP jM be shift mapOff pagesOff tbl d hd
  have hW : ∀ p ∈ pfns be tbl, p < W := fun p h => frame_lt_W shift p (hb p h)
  have hl : (pfns be tbl).length < 2^63 := by simpa [pfns] using hlen
  constructor
  · intro i e hi
    have hil : i < tbl.length := (List.getElem?_eq_some_iff.mp hi).1
    have hp : (pfns be tbl)[i]? = some (toh be e.pfn) := by simp [pfns, hi]
    have hsp := found_of_build okP jP _ pm hW hnd hl hpm i _ hp
    exact getPage_ok _ .kphys _ i off hsp (idx_ne_none tbl.length i hlen hil) hil hfile hoff
  · intro f hf hn
    have hs := none_of_build okP jP _ pm hW hnd hl hpm f (frame_lt_W shift f hf) hn
    exact getPage_nodata _ .kphys f off hs hoff

/-! ## Histories: option changes re-initialise the translation system -/

/-- what an application does between `open` and `close`: change a translation option,
ask for the translation (`kdump_get_addrxlat`, or a read that needs it) while the
library's set-up succeeds / fails after the wipe / fails before it -/
inductive XOp
  | setOpt | fetch (o : OsInit)
  deriving Repr

def xStep (d : Dump) (x : Xlat) : XOp → Xlat
  | .setOpt => setOpt x
  | .fetch o => (revalidate d o x).2

def xRun (d : Dump) (x : Xlat) : List XOp → Xlat
  | [] => x
  | op :: t => xRun d (xStep d x op) t

/-- a system that is not flagged dirty holds the xc_core methods iff the dump needs them -/
def XInv (d : Dump) (x : Xlat) : Prop := x.dirty = false → x.xc = d.nonauto

/-- After every history of option changes and (successful or failing) set-ups, starting from
the freshly opened dump, a translation system that is not flagged dirty has the P2M/M2P
methods of a non-auto-translated dump installed … -/
theorem xlat_history (d : Dump) (ops : List XOp) : XInv d (xRun d {} ops) := by
  have step : ∀ x op, XInv d x → XInv d (xStep d x op) := by
    intro x op hx
    cases op with
    | setOpt => intro h; simp [xStep, setOpt] at h
    | fetch o =>
      simp only [xStep, revalidate]
      by_cases hd : x.dirty = true
      · rw [if_pos hd]
        cases o with
        | ok => intro _; cases hn : d.nonauto <;> simp [vtopInit, xcPost, hn]
        | failWiped => intro h; simp [vtopInit] at h
        | failEarly => intro h; simp [vtopInit] at h
      · rw [if_neg hd]; exact hx
  have run : ∀ ops x, XInv d x → XInv d (xRun d x ops) := by
    intro ops
    induction ops with
    | nil => intro x hx; exact hx
    | cons op t ih => intro x hx; exact ih _ (step x op hx)
  exact run ops {} (by intro h; simp at h)

/-- … so whenever the application is handed the translation system (the set-up reported
success), guest→machine and machine→guest conversions are the same functions of the page
list as on the first use — those of `p2m_m2p_roundtrip` — whatever was changed in between. -/
theorem reinit_same_function (d : Dump) (hn : d.nonauto = true) (ops : List XOp) (o : OsInit)
    (hok : (revalidate d o (xRun d {} ops)).1 = true) (addr : Nat) :
    convP2m d (revalidate d o (xRun d {} ops)).2 addr = some (p2m d addr) ∧
    convM2p d (revalidate d o (xRun d {} ops)).2 addr = some (m2p d addr) := by
  have hinv := xlat_history d (ops ++ [.fetch o])
  have hrun : ∀ (l : List XOp) x, xRun d x (l ++ [.fetch o]) = (revalidate d o (xRun d x l)).2 := by
    intro l
    induction l with
    | nil => intro x; rfl
    | cons a t ih => intro x; exact ih _
  rw [hrun] at hinv
  have hclean : (revalidate d o (xRun d {} ops)).2.dirty = false := by
    revert hok
    simp only [revalidate]
    by_cases hd : (xRun d {} ops).dirty = true
    · rw [if_pos hd]
      cases o <;> simp [vtopInit, xcPost, hn]
    · rw [if_neg hd]; intro _; simpa using hd
  have hxc := hinv hclean
  simp [convP2m, convM2p, hxc, hn]

/-- A set-up that fails is not forgotten: the system stays flagged, so the next request runs
`vtop_init` again (and reports the failure again) instead of handing out the wiped system. -/
theorem failed_setup_retried (d : Dump) (x : Xlat) (o : OsInit) (hf : (revalidate d o x).1 = false) :
    (revalidate d o x).2.dirty = true := by
  revert hf
  simp only [revalidate]
  by_cases hd : x.dirty = true
  · rw [if_pos hd]; cases o <;> simp [vtopInit]
  · rw [if_neg hd]; simp

/-! ## Re-open histories: one context, one dump after the other

`openCtx` is `kdump_open_fd` (or setting `file.fd`) on a context in ANY state `c` — in
particular one that had dumps of either kind open before.  The theorems say that nothing of
`c` reaches the views: the private data (both frame maps and the translation mode that
`xc_get_page` / `xc_post_addrxlat` read) is that of `mkDump` on the last file, to which the
theorems above apply, and once the translation has been set up again the whole state equals
that of a context that was created for this file. -/

/-- the private data after an open is that of the last dump alone -/
theorem reopen_last_dump_only (okP okM : Nat → Bool) (jP jM : Nat) (c : Ctx) (s : Spec) :
    (openCtx okP okM jP jM c s).map (·.file) =
      (mkDump okP okM jP jM s.p2m s.be s.shift s.mapOff s.pagesOff s.tbl).map some := by
  unfold openCtx openCommon closeFormat setXenXlat mkDump
  cases hp : s.p2m
  · cases build okP jP (pfns s.be s.tbl) <;> simp
  · cases build okP jP (pfns s.be s.tbl) <;> simp
    cases build okM jM (mfns s.be s.tbl) <;> simp

/-- the stored translation mode after an open is the one the last file's section asks for -/
theorem reopen_mode_of_last (okP okM : Nat → Bool) (jP jM : Nat) (c c' : Ctx) (s : Spec)
    (h : openCtx okP okM jP jM c s = some c') :
    c'.xenXlat = s.p2m ∧ ∃ d, c'.file = some d ∧ d.nonauto = s.p2m ∧ c'.x.dirty = true := by
  revert h
  unfold openCtx openCommon closeFormat setXenXlat setOpt
  cases hp : s.p2m
  · cases build okP jP (pfns s.be s.tbl) <;> simp
    intro h; subst h; simp
  · cases build okP jP (pfns s.be s.tbl) <;> simp
    cases build okM jM (mfns s.be s.tbl) <;> simp
    intro h; subst h; simp

/-- after the translation has been set up again the state is that of a fresh context -/
theorem reopen_views_last_only (okP okM : Nat → Bool) (jP jM : Nat) (c c₁ c₂ : Ctx) (s : Spec)
    (h₁ : openCtx okP okM jP jM c s = some c₁) (h₂ : openCtx okP okM jP jM {} s = some c₂) :
    fetchXlat .ok c₁ = fetchXlat .ok c₂ := by
  have f₁ := reopen_last_dump_only okP okM jP jM c s
  have f₂ := reopen_last_dump_only okP okM jP jM {} s
  rw [h₁] at f₁; rw [h₂, ← f₁] at f₂
  simp only [Option.map_some, Option.some.injEq] at f₂
  obtain ⟨m₁, d₁, hd₁, -, hx₁⟩ := reopen_mode_of_last okP okM jP jM c c₁ s h₁
  obtain ⟨m₂, d₂, hd₂, -, hx₂⟩ := reopen_mode_of_last okP okM jP jM {} c₂ s h₂
  have hd : d₁ = d₂ := by rw [hd₁, hd₂] at f₂; exact (Option.some.inj f₂).symm
  subst hd
  obtain ⟨a₁, b₁, x₁⟩ := c₁
  obtain ⟨a₂, b₂, x₂⟩ := c₂
  simp only at m₁ m₂ hd₁ hd₂ hx₁ hx₂
  subst m₁ m₂ hd₁ hd₂
  simp [fetchXlat, revalidate, hx₁, hx₂, vtopInit]

/-- a whole history of opens (dumps of either kind, in any order) leaves the views of the last one -/
theorem history_last_only (okP okM : Nat → Bool) (jP jM : Nat) (ss : List Spec) (c c₁ c₂ : Ctx) (s : Spec)
    (h₁ : openAll okP okM jP jM c (ss ++ [s]) = some c₁) (h₂ : openAll okP okM jP jM {} [s] = some c₂) :
    fetchXlat .ok c₁ = fetchXlat .ok c₂ := by
  induction ss generalizing c with
  | nil =>
    simp only [List.nil_append, openAll] at h₁ h₂
    cases e₁ : openCtx okP okM jP jM c s with
    | none => simp [e₁] at h₁
    | some a =>
      cases e₂ : openCtx okP okM jP jM {} s with
      | none => simp [e₂] at h₂
      | some b =>
        simp [e₁] at h₁; simp [e₂] at h₂; subst h₁ h₂
        exact reopen_views_last_only okP okM jP jM c a b s e₁ e₂
  | cons t ts ih =>
    simp only [List.cons_append, openAll] at h₁
    cases e : openCtx okP okM jP jM c t with
    | none => simp [e] at h₁
    | some a => simp [e] at h₁; exact ih a h₁

/-! ## Non-vacuity: the hypotheses are met by concrete, non-trivial states -/

/-- a mixed list: ascending run, isolated frame, descending run, frames at both
ends of the 64-bit space, numerically adjacent pieces listed apart -/
def exList : List Nat := [5, 6, 7, 20, 3, 2, 2^64 - 1, 0, 4, 2^32 + 1, 2^32]

example : (∀ p ∈ exList, p < W) ∧ exList.Nodup ∧ exList.length < 2^63 := by decide
example : (build (fun _ => true) 0 exList).map (fun m => (m.ranges.length, m.singles.length)) = some (3, 4) := by decide
example : (build (fun _ => true) 0 exList).map (fun m => exList.map (search m)) = some (List.range 11) := by decide
example : (build (fun _ => true) 0 exList).map (fun m => [1, 8, 19, 21, 2^64 - 2, 2^32 + 2].map (search m)) =
    some (List.replicate 6 IDX_NONE) := by decide

def exTbl : List Entry := [⟨0x50, 0x4fff⟩, ⟨0xf, 0x7000⟩, ⟨0x10, 0x5000⟩, ⟨0x11, 0x5001⟩, ⟨0x33, 0x6802⟩, ⟨0x32, 0x6801⟩]

example : GoodTable false 12 exTbl := by
  refine ⟨by decide, by decide, by decide, ?_, ?_, by decide⟩ <;> decide
def exDump : Option Dump := mkDump (fun _ => true) (fun _ => true) 0 0 true false 12 0x1000 0x2000 exTbl

example : exDump.map (fun d => (p2m d 0x10123, m2p d 0x5000123)) = some (.ok 0x5000123, .ok 0x10123) := by decide
example : exDump.map (fun d => (getPage d .kphys 0x10123, getPage d .machphys 0x5000fff)) = some (.ok 0x4000, .ok 0x4000) := by decide
example : exDump.map (fun d => (getPage d .kphys 0x12000, m2p d 0x5002000)) = some (.error .nodata, .error .nodata) := by decide

-- a history: first use, two option changes, a failing set-up (wiped), a repaired option, use
example : exDump.map (fun d => xRun d {} [.fetch .ok, .setOpt, .setOpt, .fetch .failWiped, .fetch .failWiped, .setOpt, .fetch .ok])
    = some ⟨false, true⟩ := by decide
example : exDump.map (fun d => (revalidate d .failWiped (xRun d {} [.fetch .ok, .setOpt])).2) = some ⟨true, false⟩ := by decide
example : exDump.map (fun d => convP2m d (xRun d {} [.fetch .ok, .setOpt, .fetch .ok]) 0x10123) = some (some (.ok 0x5000123)) := by decide

-- re-open histories: a PV dump, then an HVM dump with the same guest frames on the same context:
-- the machine view is the guest view again, no stale machine-frame map, no xc_core methods
def exPfnSpec : Spec := ⟨false, false, 12, 0x1000, 0x2000, exTbl.map fun e => ⟨e.pfn, 0⟩⟩
def exP2mSpec : Spec := ⟨true, false, 12, 0x1000, 0x2000, exTbl⟩
def exOpen : Ctx → Spec → Option Ctx := openCtx (fun _ => true) (fun _ => true) 0 0
example : ((exOpen {} exP2mSpec).bind (exOpen · exPfnSpec)).map (fun c => (c.xenXlat, c.file.map fun d => (getPage d .machphys 0x10123, getPage d .machphys 0x5000123)))
    = some (false, some (.ok 0x4000, .error .nodata)) := by decide
example : ((exOpen {} exPfnSpec).bind (exOpen · exP2mSpec)).map (fun c => (c.xenXlat, c.file.map fun d => (getPage d .machphys 0x10123, getPage d .machphys 0x5000123)))
    = some (true, some (.error .nodata, .ok 0x4000)) := by decide
example : (((exOpen {} exP2mSpec).map (fun c => (fetchXlat .ok c).2)).bind (exOpen · exPfnSpec)).map (fun c => ((fetchXlat .ok c).2.x, c.x))
    = some (⟨false, false⟩, ⟨true, true⟩) := by decide

/-! ### Allocation failures while the indexes are built

`make_xen_pfn_map_nonauto` builds both indexes in one pass and finishes (`pfn2idx_map_end`) first the
guest-frame index, then the machine-frame index; every `realloc` of either may fail.  An open that
reports success has finished BOTH builds — so the theorems above (stated for `mkDump`) apply to it —
and a failure anywhere in the machine-frame build, in particular in its final flush, fails the open. -/

/-- an open of a `.xen_p2m` dump that reports success holds both complete indexes -/
theorem open_ok_both_complete (okP okM : Nat → Bool) (jP jM : Nat) (c c' : Ctx) (s : Spec)
    (hp : s.p2m = true) (h : openCtx okP okM jP jM c s = some c') :
    ∃ d, c'.file = some d ∧ build okP jP (pfns s.be s.tbl) = some d.pfnmap ∧
      build okM jM (mfns s.be s.tbl) = some d.mfnmap := by
  revert h
  unfold openCtx openCommon closeFormat setXenXlat
  simp only [hp, if_true]
  cases build okP jP (pfns s.be s.tbl) <;> simp
  cases build okM jM (mfns s.be s.tbl) <;> simp
  intro h; subst h; simp

/-- a failed allocation in the machine-frame index (any step, the final flush included) fails the open -/
theorem open_fails_when_mfn_index_fails (okP okM : Nat → Bool) (jP jM : Nat) (c : Ctx) (s : Spec)
    (hp : s.p2m = true) (hm : build okM jM (mfns s.be s.tbl) = none) :
    openCtx okP okM jP jM c s = none := by
  unfold openCtx openCommon closeFormat setXenXlat
  simp only [hp, if_true, hm]
  cases build okP jP (pfns s.be s.tbl) <;> simp

/-- the final flush of a build is an allocation point: when the list is one run (no array exists yet)
and that first `realloc` fails, the build fails -/
theorem mapEnd_alloc_fails (ok : Nat → Bool) (m : PMap) (c : Range)
    (hl : c.len > 1 ∨ c.len < -1) (hr : m.ranges.length % ALLOC_INC = 0) (hf : ok (nallocs m) = false) :
    mapEnd ok m c = none := by
  unfold mapEnd addrange
  simp [hl, hr, hf]

end Kdf.Props.C19
