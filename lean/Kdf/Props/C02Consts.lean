import Kdf.Gen.PgtConsts
/-!
# C02 — the literals of the page-table models are the values of the C macros

`Kdf.Gen.PgtConsts` is regenerated from `src/addrxlat/<arch>.c` on every run:
the value of every bit-field macro the handlers use (for a field extractor
`F`: the set of input bits it looks at and `F(~0)`).  The models in
`Kdf/Model/Pgt*.lean` are written with literals; this theorem states that those
literals are what the source says *now*.  If a mask or shift changes in the C
code the theorem stops compiling, and the check then searches implementation
versus architectural specification for a concrete failing translation.
-/
namespace Kdf.Props.C02Consts
open Kdf.Gen.PgtConsts

theorem consts_x86_64 :
    x86_64_PHYSADDR_MASK = 2^52 - 1 ∧ x86_64_PAGE_PRESENT = 2^0 ∧ x86_64_PAGE_PSE = 2^7 ∧
    x86_64_PAGE_MASK = 2^12 - 1 ∧ x86_64_PAGE_MASK_2M = 2^21 - 1 ∧ x86_64_PAGE_MASK_1G = 2^30 - 1 := by decide

theorem consts_ia32 :
    ia32_PHYSADDR_MASK_PAE = 2^52 - 1 ∧ ia32_PAGE_PRESENT = 1 ∧ ia32_PAGE_PSE = 2^7 ∧ ia32_PAGE_MASK = 2^12 - 1 ∧
    ia32_PAGE_MASK_2M = 2^21 - 1 ∧ ia32_PAGE_MASK_4M = 2^22 - 1 ∧
    ia32_pgd_pse_high_in = (2^8 - 1) * 2^13 ∧ ia32_pgd_pse_high_all = (2^8 - 1) * 2^32 := by decide

theorem consts_riscv64 :
    riscv64_PAGE_MASK = 2^12 - 1 ∧ riscv64_PTE_VALID_in = 1 ∧ riscv64_PTE_VALID_all = 1 ∧
    riscv64_PTE_PERM_in = 7 * 2 ∧ riscv64_PTE_PERM_all = 7 ∧
    riscv64_PTE_PPN_in = (2^44 - 1) * 2^10 ∧ riscv64_PTE_PPN_all = 2^44 - 1 := by decide

theorem consts_aarch64 :
    aarch64_PA_MASK = 2^48 - 1 ∧ aarch64_MAX_REGION_MASK = 2^30 - 1 ∧ aarch64_MAX_REGION_MASK_LPA = 2^42 - 1 ∧
    aarch64_MAX_REGION_MASK_LPA2 = 2^39 - 1 ∧ aarch64_PTE_VALID_in = 1 ∧ aarch64_PTE_TYPE_in = 3 ∧ aarch64_PTE_TYPE_all = 3 := by decide

theorem consts_s390x :
    s390x_PAGE_MASK = 2^12 - 1 ∧ s390x_PTO_MASK = 2^11 - 1 ∧ s390x_SFAA_MASK = 2^20 - 1 ∧ s390x_RFAA_MASK = 2^31 - 1 ∧
    s390x_RSTE_FC_in = 2^10 ∧ s390x_RSTE_I_in = 2^5 ∧ s390x_RSTE_TF_in = 3 * 2^6 ∧ s390x_RSTE_TF_all = 3 ∧
    s390x_RSTE_TT_in = 3 * 2^2 ∧ s390x_RSTE_TT_all = 3 ∧ s390x_RSTE_TL_in = 3 ∧ s390x_RSTE_TL_all = 3 ∧ s390x_PTE_I_in = 2^10 := by decide

theorem consts_arm :
    arm_PHYSADDR_MASK = 2^40 - 1 ∧ arm_SMALL_PAGE_MASK = 2^12 - 1 ∧ arm_LARGE_PAGE_MASK = 2^16 - 1 ∧ arm_PAGE_TABLE_MASK = 2^10 - 1 ∧
    arm_SECT_MASK = 2^20 - 1 ∧ arm_SUPERSECT_MASK = 2^24 - 1 ∧ arm_PTE_TYPE_in = 3 ∧ arm_PTE_SECTYPE_in = 2^18 ∧
    arm_SUPERSECT_32_35_in = 15 * 2^20 ∧ arm_SUPERSECT_32_35_all = 15 ∧ arm_SUPERSECT_36_39_in = 15 * 2^5 ∧ arm_SUPERSECT_36_39_all = 15 := by decide

theorem consts_ppc64 :
    ppc64_PD_HUGE = 2^63 ∧ ppc64_HUGEPD_SHIFT_MASK = 63 ∧ ppc64_HUGE_PTE_MASK = 3 ∧ ppc64_PAGE_SHIFT_64K = 16 ∧ ppc64_PTE_SHIFT = 3 := by decide

end Kdf.Props.C02Consts
