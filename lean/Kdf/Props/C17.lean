import Kdf.Model.Cb
/-!
# C17 — a callback layer that overrides nothing changes nothing

Property theorems only.  The hypothesis-free statements at the end are obtained
by discharging the facts about the C forwarders by `decide` on the *generated*
table `Kdf.Gen.cbForward`; they compile only while every forwarder in
`src/addrxlat/ctx.c` calls the same slot of `cb->next` and passes `cb->next`.
-/
namespace Kdf.Props.C17
open Kdf.Model.Cb

/-- The fact about the C source the property rests on. -/
def ForwardersOk : Prop := ∀ h : Hook, Kdf.Gen.cbForward h = (some h, Fwd.next)

instance : Decidable ForwardersOk := by
  unfold ForwardersOk
  exact decidable_of_iff (∀ h ∈ Hook.all, Kdf.Gen.cbForward h = (some h, Fwd.next))
    ⟨fun H h => H h (by cases h <;> simp [Hook.all]), fun H h _ => H h⟩

/-- The C chain walk computes the specification, for every stack depth. -/
theorem invoke_eq_spec (hf : ForwardersOk) (stack : List Layer) (h : Hook) (fuel : Nat)
    (hfuel : stack.length < fuel) : invoke fuel stack h = invokeSpec stack h := by
  unfold invoke
  induction stack generalizing fuel with
  | nil =>
    cases fuel with
    | zero => omega
    | succ n => simp [callFn, invokeSpec]
  | cons L rest ih =>
    cases fuel with
    | zero => omega
    | succ n =>
      simp only [callFn, invokeSpec]
      cases hL : L.impl h with
      | some f => simp
      | none =>
        simp only [hf h]
        exact ih n (by simpa using hfuel)

/-- A layer that leaves hook `h` untouched is transparent for `h`: the
previously installed implementation is invoked with its own record, at any
depth of stacking. -/
theorem passthrough_transparent_of (hf : ForwardersOk) (L : Layer) (stack : List Layer) (h : Hook)
    (hno : L.impl h = none) (fuel : Nat) (hfuel : stack.length + 1 < fuel) :
    invoke fuel (addCb stack L) h = invoke (fuel - 1) stack h := by
  have hl : Kdf.Gen.addCbLinksOnTop = true := by decide
  rw [addCb, if_pos hl, invoke_eq_spec hf _ _ _ (by simpa using hfuel),
      invoke_eq_spec hf _ _ _ (by omega)]
  simp [invokeSpec, hno]

/-- Adding a layer and removing it again restores the previous chain. -/
theorem add_del_restores (L : Layer) (stack : List Layer) : delCb (addCb stack L) 0 = stack := by
  have hl : Kdf.Gen.addCbLinksOnTop = true := by decide
  simp [addCb, delCb, hl]

/-- Removing a pass-through layer from anywhere in the chain changes no hook it
left untouched. -/
theorem del_passthrough_spec (stack : List Layer) (i : Nat) (h : Hook) (L : Layer)
    (hi : stack[i]? = some L) (hno : L.impl h = none) :
    (invokeSpec (delCb stack i) h = .base h 0 ↔ invokeSpec stack h = .base h 0) := by
  induction stack generalizing i with
  | nil => simp at hi
  | cons A rest ih =>
    cases i with
    | zero =>
      simp at hi; subst hi
      simp [delCb, invokeSpec, hno]
    | succ j =>
      simp at hi
      simp only [delCb, List.eraseIdx_cons_succ, invokeSpec]
      cases hA : A.impl h with
      | some f => simp
      | none => simpa [delCb] using ih j hi

/-! ### Hypothesis-free forms (tie to the C source through `Kdf.Gen`) -/

theorem forwarders_ok : ForwardersOk := by decide

theorem passthrough_transparent (L : Layer) (stack : List Layer) (h : Hook)
    (hno : L.impl h = none) (fuel : Nat) (hfuel : stack.length + 1 < fuel) :
    invoke fuel (addCb stack L) h = invoke (fuel - 1) stack h :=
  passthrough_transparent_of forwarders_ok L stack h hno fuel hfuel

theorem invoke_never_diverges (stack : List Layer) (h : Hook) :
    invoke (stack.length + 1) stack h = invokeSpec stack h ∧ invokeSpec stack h ≠ .diverge := by
  refine ⟨invoke_eq_spec forwarders_ok _ _ _ (by omega), ?_⟩
  induction stack with
  | nil => simp [invokeSpec]
  | cons L rest ih =>
    simp only [invokeSpec]
    cases L.impl h <;> simp [ih]

/-! ### Non-vacuity: a two-deep stack with a pass-through layer on top of an
overriding base layer sees the base layer's private data. -/
example :
    let base : Layer := { priv := 0x1111, impl := fun h => if h = .symValue then some 7 else none }
    let top : Layer := { priv := 0x2222, impl := fun _ => none }
    top.impl .symValue = none ∧
    invokeSpec (addCb [base] top) .symValue = .called 7 0x1111 1 := by
  decide

end Kdf.Props.C17
