import Kdf.Model.Cb
/-!
# C17 — a callback layer that overrides nothing changes nothing

Property theorems only.  The hypothesis-free statements at the end are obtained
by discharging the facts about the C forwarders by `decide` on the *generated*
table `Kdf.Gen.cbForward`; they compile only while every forwarder in
`src/addrxlat/ctx.c` calls the same slot of `cb->next` and passes `cb->next`.
-/
namespace Kdf.Props.C17
open Kdf.Model.Cb

/-- The fact about the C source the property rests on. -/
def ForwardersOk : Prop := ∀ h : Hook, Kdf.Gen.cbForward h = (some h, Fwd.next)

instance : Decidable ForwardersOk := by
  unfold ForwardersOk
  exact decidable_of_iff (∀ h ∈ Hook.all, Kdf.Gen.cbForward h = (some h, Fwd.next))
    ⟨fun H h => H h (by cases h <;> simp [Hook.all]), fun H h _ => H h⟩

/-- The C chain walk computes the specification, for every stack depth. -/
theorem invoke_eq_spec (hf : ForwardersOk) (stack : List Layer) (h : Hook) (fuel : Nat)
    (hfuel : stack.length < fuel) : invoke fuel stack h = invokeSpec stack h := by
  unfold invoke
  induction stack generalizing fuel with
  | nil =>
    cases fuel with
    | zero => omega
    | succ n => simp [callFn, invokeSpec]
  | cons L rest ih =>
    cases fuel with
    | zero => omega
    | succ n =>
      simp only [callFn, invokeSpec]
      cases hL : L.impl h with
      | some f => simp
      | none =>
        simp only [hf h]
        exact ih n (by simpa using hfuel)

/-- A layer that leaves hook `h` untouched is transparent for `h`: the
previously installed implementation is invoked with its own record, at any
depth of stacking. -/
theorem passthrough_transparent_of (hf : ForwardersOk) (L : Layer) (stack : List Layer) (h : Hook)
    (hno : L.impl h = none) (fuel : Nat) (hfuel : stack.length + 1 < fuel) :
    invoke fuel (addCb stack L) h = invoke (fuel - 1) stack h := by
  have hl : Kdf.Gen.addCbLinksOnTop = true := by decide
  rw [addCb, if_pos hl, invoke_eq_spec hf _ _ _ (by simpa using hfuel),
      invoke_eq_spec hf _ _ _ (by omega)]
  simp [invokeSpec, hno]

/-- Adding a layer and removing it again restores the previous chain. -/
theorem add_del_restores (L : Layer) (stack : List Layer) : delCb (addCb stack L) 0 = stack := by
  have hl : Kdf.Gen.addCbLinksOnTop = true := by decide
  simp [addCb, delCb, hl]

/-- Forget how far above the default record the invoked record sits (removing a
lower layer shifts that distance for everything above it, nothing else). -/
def forgetDepth : Res → Res
  | .called f p _ => .called f p 0
  | .base h _ => .base h 0
  | r => r

/-- Removing a layer from anywhere in the chain (any add/remove order) changes
no hook that the layer left untouched: the same implementation is invoked with
the same private data. -/
theorem del_passthrough (stack : List Layer) (i : Nat) (h : Hook) (L : Layer)
    (hi : stack[i]? = some L) (hno : L.impl h = none) :
    forgetDepth (invokeSpec (delCb stack i) h) = forgetDepth (invokeSpec stack h) := by
  induction stack generalizing i with
  | nil => simp at hi
  | cons A rest ih =>
    cases i with
    | zero =>
      simp at hi; subst hi
      simp [delCb, invokeSpec, hno]
    | succ j =>
      simp at hi
      simp only [delCb, List.eraseIdx_cons_succ, invokeSpec]
      cases hA : A.impl h with
      | some f => simp [forgetDepth]
      | none => simpa [delCb] using ih j hi

/-- Removing a layer that does override `h` exposes exactly what was below or
above it: the chain without that layer is what gets consulted. -/
theorem del_is_erase (stack : List Layer) (i : Nat) : delCb stack i = stack.eraseIdx i := rfl

/-! ### Hypothesis-free forms (tie to the C source through `Kdf.Gen`) -/

theorem forwarders_ok : ForwardersOk := by decide

theorem passthrough_transparent (L : Layer) (stack : List Layer) (h : Hook)
    (hno : L.impl h = none) (fuel : Nat) (hfuel : stack.length + 1 < fuel) :
    invoke fuel (addCb stack L) h = invoke (fuel - 1) stack h :=
  passthrough_transparent_of forwarders_ok L stack h hno fuel hfuel

theorem invoke_never_diverges (stack : List Layer) (h : Hook) :
    invoke (stack.length + 1) stack h = invokeSpec stack h ∧ invokeSpec stack h ≠ .diverge := by
  refine ⟨invoke_eq_spec forwarders_ok _ _ _ (by omega), ?_⟩
  induction stack with
  | nil => simp [invokeSpec]
  | cons L rest ih =>
    simp only [invokeSpec]
    cases L.impl h <;> simp [ih]

/-! ### Non-vacuity: a two-deep stack with a pass-through layer on top of an
overriding base layer sees the base layer's private data. -/
example :
    let base : Layer := { priv := 0x1111, impl := fun h => if h = .symValue then some 7 else none }
    let top : Layer := { priv := 0x2222, impl := fun _ => none }
    top.impl .symValue = none ∧
    invokeSpec (addCb [base] top) .symValue = .called 7 0x1111 1 := by
  decide

end Kdf.Props.C17
