import Kdf.Model.Cb
/-!
# C17 — a callback layer that overrides nothing changes nothing

Property theorems only.  The hypothesis-free statements at the end are obtained
by discharging the facts about the C forwarders by `decide` on the *generated*
table `Kdf.Gen.cbForward`; they compile only while every forwarder in
`src/addrxlat/ctx.c` calls the same slot of `cb->next` and passes `cb->next`.
-/
namespace Kdf.Props.C17
open Kdf.Model.Cb

/-- The fact about the C source the property rests on. -/
def ForwardersOk : Prop := ∀ h : Hook, Kdf.Gen.cbForward h = (some h, Fwd.next)

instance : Decidable ForwardersOk := by
  unfold ForwardersOk
  exact decidable_of_iff (∀ h ∈ Hook.all, Kdf.Gen.cbForward h = (some h, Fwd.next))
    ⟨fun H h => H h (by cases h <;> simp [Hook.all]), fun H h _ => H h⟩

/-- The C chain walk computes the specification, for every stack depth. -/
theorem invoke_eq_spec (hf : ForwardersOk) (stack : List Layer) (h : Hook) (fuel : Nat)
    (hfuel : stack.length < fuel) : invoke fuel stack h = invokeSpec stack h := by
  unfold invoke
  induction stack generalizing fuel with
  | nil =>
    cases fuel with
    | zero => omega
    | succ n => simp [callFn, invokeSpec]
  | cons L rest ih =>
    cases fuel with
    | zero => omega
    | succ n =>
      simp only [callFn, invokeSpec]
      cases hL : L.impl h with
      | some f => simp
      | none =>
        simp only [hf h]
        exact ih n (by simpa using hfuel)

/-- A layer that leaves hook `h` untouched is transparent for `h`: the
previously installed implementation is invoked with its own record, at any
depth of stacking. -/
theorem passthrough_transparent_of (hf : ForwardersOk) (L : Layer) (stack : List Layer) (h : Hook)
    (hno : L.impl h = none) (fuel : Nat) (hfuel : stack.length + 1 < fuel) :
    invoke fuel (addCb stack L) h = invoke (fuel - 1) stack h := by
  have hl : Kdf.Gen.addCbLinksOnTop = true := by decide
  rw [addCb, if_pos hl, invoke_eq_spec hf _ _ _ (by simpa using hfuel),
      invoke_eq_spec hf _ _ _ (by omega)]
  simp [invokeSpec, hno]

/-- Adding a layer and removing it again restores the previous chain. -/
theorem add_del_restores (L : Layer) (stack : List Layer) : delCb (addCb stack L) 0 = stack := by
  have hl : Kdf.Gen.addCbLinksOnTop = true := by decide
  simp [addCb, delCb, hl]

/-- Forget how far above the default record the invoked record sits (removing a
lower layer shifts that distance for everything above it, nothing else). -/
def forgetDepth : Res → Res
  | .called f p _ => .called f p 0
  | .base h _ => .base h 0
  | r => r

/-- Removing a layer from anywhere in the chain (any add/remove order) changes
no hook that the layer left untouched: the same implementation is invoked with
the same private data. -/
theorem del_passthrough (stack : List Layer) (i : Nat) (h : Hook) (L : Layer)
    (hi : stack[i]? = some L) (hno : L.impl h = none) :
    forgetDepth (invokeSpec (delCb stack i) h) = forgetDepth (invokeSpec stack h) := by
  induction stack generalizing i with
  | nil => simp at hi
  | cons A rest ih =>
    cases i with
    | zero =>
      simp at hi; subst hi
      simp [delCb, invokeSpec, hno]
    | succ j =>
      simp at hi
      simp only [delCb, List.eraseIdx_cons_succ, invokeSpec]
      cases hA : A.impl h with
      | some f => simp [forgetDepth]
      | none => simpa [delCb] using ih j hi

/-- Removing a layer that does override `h` exposes exactly what was below or
above it: the chain without that layer is what gets consulted. -/
theorem del_is_erase (stack : List Layer) (i : Nat) : delCb stack i = stack.eraseIdx i := rfl

/-! ### Hypothesis-free forms (tie to the C source through `Kdf.Gen`) -/

theorem forwarders_ok : ForwardersOk := by decide

theorem passthrough_transparent (L : Layer) (stack : List Layer) (h : Hook)
    (hno : L.impl h = none) (fuel : Nat) (hfuel : stack.length + 1 < fuel) :
    invoke fuel (addCb stack L) h = invoke (fuel - 1) stack h :=
  passthrough_transparent_of forwarders_ok L stack h hno fuel hfuel

theorem invoke_never_diverges (stack : List Layer) (h : Hook) :
    invoke (stack.length + 1) stack h = invokeSpec stack h ∧ invokeSpec stack h ≠ .diverge := by
  refine ⟨invoke_eq_spec forwarders_ok _ _ _ (by omega), ?_⟩
  induction stack with
  | nil => simp [invokeSpec]
  | cons L rest ih =>
    simp only [invokeSpec]
    cases L.impl h <;> simp [ih]

/-! ### Calls the libraries make themselves, on the context a dump object hands out -/

/-- The fact about the C sources: every call site that goes through the top
record of a context passes that record. -/
def TopCallsOk : Prop := ∀ h : Hook, Kdf.Gen.topCallPasses h = Fwd.self

instance : Decidable TopCallsOk := by
  unfold TopCallsOk
  exact decidable_of_iff (∀ h ∈ Hook.all, Kdf.Gen.topCallPasses h = Fwd.self)
    ⟨fun H h => H h (by cases h <;> simp [Hook.all]), fun H h _ => H h⟩

theorem top_calls_ok : TopCallsOk := by decide

/-- the specification skips layers that leave the hook untouched -/
theorem invokeSpec_skip (tops : List Layer) (stack : List Layer) (h : Hook)
    (hno : ∀ T ∈ tops, T.impl h = none) :
    invokeSpec (tops ++ stack) h = invokeSpec stack h := by
  induction tops with
  | nil => rfl
  | cons T rest ih =>
    have hT : T.impl h = none := hno T (by simp)
    simp only [List.cons_append, invokeSpec, hT]
    exact ih (fun U hU => hno U (by simp [hU]))

/-- Any number of application layers that leave hook `h` untouched, stacked on
the layer that a dump object installed (before or after the dump was opened),
are invisible to the libraries' own calls: the dump object's implementation is
run, with its own record (hence its own private data). -/
theorem topCall_transparent_of (hf : ForwardersOk) (ht : TopCallsOk) (tops : List Layer) (D : Layer) (rest : List Layer)
    (h : Hook) (f : Nat) (hno : ∀ T ∈ tops, T.impl h = none) (hD : D.impl h = some f) (fuel : Nat)
    (hfuel : (tops ++ D :: rest).length < fuel) (own : Nat) :
    topCall fuel (tops ++ D :: rest) h own = .called f D.priv (rest.length + 1) := by
  unfold topCall
  rw [ht h]
  have := invoke_eq_spec hf (tops ++ D :: rest) h fuel hfuel
  unfold invoke at this
  simp only [this, invokeSpec_skip tops (D :: rest) h hno, invokeSpec, hD]

theorem topCall_transparent (tops : List Layer) (D : Layer) (rest : List Layer)
    (h : Hook) (f : Nat) (hno : ∀ T ∈ tops, T.impl h = none) (hD : D.impl h = some f) (fuel : Nat)
    (hfuel : (tops ++ D :: rest).length < fuel) (own : Nat) :
    topCall fuel (tops ++ D :: rest) h own = .called f D.priv (rest.length + 1) :=
  topCall_transparent_of forwarders_ok top_calls_ok tops D rest h f hno hD fuel hfuel own

/-- What the property excludes: a call site that fetches the top record but
passes the dump object's own record makes the top layer's forwarder continue
BELOW the dump object's layer — with one pass-through layer on top the look-up
ends at the built-in default instead of the dump object's implementation. -/
example :
    let D : Layer := { priv := 0x1111, impl := fun h => if h = .symValue then some 3 else none }
    let T : Layer := { priv := 0x2222, impl := fun _ => none }
    callFn 8 [T, D] .symValue ([T, D].drop 1) = .base .symValue 0 ∧
    callFn 8 [T, D] .symValue [T, D] = .called 3 0x1111 1 := by
  decide

/-! ### Non-vacuity: a two-deep stack with a pass-through layer on top of an
overriding base layer sees the base layer's private data. -/
example :
    let base : Layer := { priv := 0x1111, impl := fun h => if h = .symValue then some 7 else none }
    let top : Layer := { priv := 0x2222, impl := fun _ => none }
    top.impl .symValue = none ∧
    invokeSpec (addCb [base] top) .symValue = .called 7 0x1111 1 := by
  decide

end Kdf.Props.C17
