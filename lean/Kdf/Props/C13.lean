import Kdf.Model.Attr
import Kdf.Lemmas.Attr
import Kdf.Lemmas.AttrIter
/-!
# C13 — the attribute tree behaves like a typed hierarchical dictionary

Theorems about `Kdf.Model.Attr` (the transcription of attr.c that the `attr`
correspondence stream ties to the C code on every run).  All statements are
over every store `st` (any list of nodes, any hash function `h`, any
dictionaries).  The set/clear/re-open laws need no well-formedness hypothesis,
because the model addresses nodes by identifier and the operations are maps and
filters over the node list; the iteration law needs distinct identifiers, which
`new_attr` preserves (`newAttr_wf`).

What is proved / what is only observed is listed in REPORT_C13.txt.
-/
namespace Kdf.Props.C13
open Kdf.Model.Attr Kdf.Lemmas.Attr

/-- What `get` (by path, by reference, by sub-reference or through an iterator
    position — they all end in the same node) reports for node `i`. -/
def getById (st : St) (i : Nat) : Option (Bool × Ty × String) :=
  (st.get i).map (fun n => (n.isset, n.ty, n.val))

/-- **get after set.**  After the attribute part of `set_attr` on a leaf, the
    node is set, carries exactly the new value and the requested persistence,
    and keeps its type and key. -/
theorem get_after_set (st : St) (i : Nat) (p : Bool) (v : String) (n : Node)
    (hn : st.get i = some n) (hty : n.ty ≠ .dir) :
    ((setPlain st i p v).get i).map (fun m => (m.isset, m.persist, m.val, m.ty, m.key, m.parent)) =
      some (true, p, v, n.ty, n.key, n.parent) := by
  unfold setPlain
  rw [hn]
  simp only [St.get]
  rw [find_upd_self _ _ _ (by intro n; rfl)]
  have h1 := find_instantiate_strip st.next st.nodes n.parent i
  have hn' : find st.nodes i = some n := hn
  rw [hn'] at h1
  cases h2 : find (instantiate st.nodes st.next n.parent) i with
  | none => rw [h2] at h1; simp at h1
  | some m =>
    rw [h2] at h1
    simp only [Option.map_some, Option.some.injEq] at h1
    have e1 : m.ty = n.ty := by have := congrArg Node.ty h1; simpa [strip] using this
    have e2 : m.key = n.key := by have := congrArg Node.key h1; simpa [strip] using this
    have e3 : m.parent = n.parent := by have := congrArg Node.parent h1; simpa [strip] using this
    simp [e1, e2, e3]
    intro hh; exact absurd hh hty

/-- **frame of set.**  Setting `i` changes no other node except that unset
    ancestors become set: type, value, persistence, key, parent of every other
    node are untouched, and nothing that was set becomes unset. -/
theorem set_frame (st : St) (i j : Nat) (p : Bool) (v : String) (hij : j ≠ i) :
    ((setPlain st i p v).get j).map strip = (st.get j).map strip ∧
    (∀ m, st.get j = some m → m.isset = true →
      ∃ m', (setPlain st i p v).get j = some m' ∧ m'.isset = true) := by
  unfold setPlain
  cases hn : st.get i with
  | none => exact ⟨rfl, fun m h hs => ⟨m, h, hs⟩⟩
  | some n =>
    simp only [St.get]
    rw [find_upd_ne _ _ _ (by intro n; rfl) _ hij]
    refine ⟨find_instantiate_strip _ _ _ _, ?_⟩
    intro m h hs
    exact find_instantiate_isset _ _ _ _ m h hs

/-- **wrong type.**  `check_set_attr` with a value whose type differs from the
    attribute's type is refused with `invalid` and leaves the store as it was. -/
theorem set_wrong_type_noop (h : HashFn) (st : St) (dict i : Nat) (tok blob : String) (n : Node)
    (hn : st.get i = some n) (hnil : tyOfTok tok ≠ .nil) (hty : tyOfTok tok ≠ n.ty) :
    checkSet h st dict i tok blob = (st, .invalid) := by
  unfold checkSet
  rw [hn]
  simp [hnil, hty]

/-- **clear.**  After `clear_attr(a)` every remaining node that was `a` or
    below `a` reports no value. -/
theorem clear_subtree_unset (st : St) (a : Nat) :
    ∀ m ∈ (clearAttr st a).nodes, isUnder st.nodes a st.next m.id = true → m.isset = false := by
  intro m hm hu
  unfold clearAttr at hm
  have h1 := rawsweep_sub _ _ m hm
  simp only [List.mem_map] at h1
  obtain ⟨n, _, hnm⟩ := h1
  by_cases hc : isUnder st.nodes a st.next n.id = true
  · simp only [hc, if_true] at hnm; rw [← hnm]
  · simp only [hc] at hnm
    rw [← hnm] at hu
    exact absurd hu hc

/-- **frame of clear.**  A node that is not below `a` is either untouched or
    (only when the subtree holds a VMCOREINFO blob) deallocated. -/
theorem clear_frame (st : St) (a : Nat) :
    ∀ m ∈ (clearAttr st a).nodes, isUnder st.nodes a st.next m.id = false → m ∈ st.nodes := by
  intro m hm hu
  unfold clearAttr at hm
  have h1 := rawsweep_sub _ _ m hm
  simp only [List.mem_map] at h1
  obtain ⟨n, hn, hnm⟩ := h1
  by_cases hc : isUnder st.nodes a st.next n.id = true
  · simp only [hc, if_true] at hnm
    rw [← hnm] at hu
    simp [hc] at hu
  · simp only [hc] at hnm
    rw [← hnm]; exact hn

/-- **re-open drops file-derived values.**  After `clear_volatile` a node of the
    tree without a persistent node in its subtree reports no value. -/
theorem volatile_dropped (st : St) (root : Nat) :
    ∀ m ∈ (clearVolatile st root).nodes, isUnder st.nodes root st.next m.id = true →
      keeps st.nodes st.next m.id = false → m.isset = false := by
  intro m hm hu hk
  unfold clearVolatile at hm
  have h1 := rawsweep_sub _ _ m hm
  simp only [List.mem_map] at h1
  obtain ⟨n, _, hnm⟩ := h1
  by_cases hc : (isUnder st.nodes root st.next n.id && !keeps st.nodes st.next n.id) = true
  · rw [if_pos hc] at hnm; rw [← hnm]
  · rw [if_neg hc] at hnm
    rw [← hnm] at hu hk
    simp [hu, hk] at hc

/-- **a failed open leaves nothing volatile behind** (the teardown of `open_dump`): after `openFdFailed`
    every node below the root that has no persistent node in its subtree is unset. -/
theorem failed_open_drops_volatile (h : HashFn) (st : St) (dict : Nat) (fdTok : String) (prov : List Provided)
    (root : Nat) (hr : rootOf (openFd h st dict fdTok prov) dict = some root) :
    let s := openFd h st dict fdTok prov
    ∀ m ∈ (openFdFailed h st dict fdTok prov).nodes, isUnder s.nodes root s.next m.id = true →
      keeps s.nodes s.next m.id = false → m.isset = false := by
  intro s m hm hu hk
  have : openFdFailed h st dict fdTok prov = clearVolatile s root := by
    unfold openFdFailed; simp only [s] at *; rw [hr]
  rw [this] at hm
  exact volatile_dropped s root m hm hu hk

/-- **re-open keeps application values.**  A node with a persistent node in
    its subtree (in particular every persistent node) survives `clear_volatile`
    unchanged — value, flags and all — unless a VMCOREINFO blob that went away
    took it along. -/
theorem persist_across_reopen (st : St) (root : Nat) :
    ∀ m ∈ (clearVolatile st root).nodes, keeps st.nodes st.next m.id = true → m ∈ st.nodes := by
  intro m hm hk
  unfold clearVolatile at hm
  have h1 := rawsweep_sub _ _ m hm
  simp only [List.mem_map] at h1
  obtain ⟨n, hn, hnm⟩ := h1
  by_cases hc : (isUnder st.nodes root st.next n.id && !keeps st.nodes st.next n.id) = true
  · rw [if_pos hc] at hnm
    rw [← hnm] at hk
    simp [hk] at hc
  · rw [if_neg hc] at hnm
    rw [← hnm]; exact hn

/-- **the path to a persistent attribute is kept**: every ancestor-or-self `i`
    of a persistent node counts as kept. -/
theorem ancestors_kept (ns : List Node) (fuel i : Nat) (m : Node) (hm : m ∈ ns)
    (hp : m.persist = true) (hu : isUnder ns i fuel m.id = true) : keeps ns fuel i = true := by
  unfold keeps
  rw [List.any_eq_true]
  exact ⟨m, List.mem_filter.mpr ⟨hm, hp⟩, hu⟩

/-- Keys met when walking `k` steps up from `d`, and the node reached. -/
def walkUp (ns : List Node) : Nat → Nat → Option (List String × Nat)
  | 0, d => some ([], d)
  | k + 1, d =>
    match find ns d with
    | none => none
    | some n =>
      match n.parent with
      | none => none
      | some p => (walkUp ns k p).map (fun (ks, a) => (n.key :: ks, a))

theorem keycmpGo_walk (ns : List Node) : ∀ (cs : List String) (d a : Nat),
    keycmpGo ns cs d = some a → walkUp ns cs.length d = some (cs, a) := by
  intro cs
  induction cs with
  | nil => intro d a h; simp [keycmpGo] at h; simp [walkUp, h]
  | cons c cs ih =>
    intro d a h
    simp only [keycmpGo] at h
    simp only [List.length_cons, walkUp]
    cases hf : find ns d with
    | none => simp [hf] at h
    | some n =>
      simp only [hf] at h ⊢
      by_cases hk : (n.key == c) = true
      · simp only [hk, if_true] at h
        cases hp : n.parent with
        | none => simp [hp] at h
        | some p =>
          simp only [hp] at h ⊢
          rw [ih p a h]
          have : n.key = c := by simpa using hk
          simp [this]
      · simp [hk] at h

/-- **lookups are sound.**  Whatever a hash bucket scan returns — for every
    hash function, every bucket content — is a node of the searched dictionary
    whose chain of keys, walking up, spells the looked-up path and ends in a
    node with the template of the base directory: a lookup by path, by
    sub-path of a reference or during path creation can never hand out an
    attribute stored under another name. -/
theorem lookup_sound (ns : List Node) (dict hv tmpl : Nat) (comps : List String) (r : Nat)
    (h : lookupIn ns dict hv tmpl comps = some r) :
    ∃ n a an, n ∈ ns ∧ n.id = r ∧ n.dict = dict ∧ n.hidx = hv ∧
      walkUp ns (effComps comps).length r = some ((effComps comps).reverse, a) ∧
      find ns a = some an ∧ an.tmpl = tmpl := by
  unfold lookupIn at h
  cases hf : ns.find? (fun d => d.dict == dict && d.hidx == hv && keycmp ns d.id tmpl comps) with
  | none => simp [hf] at h
  | some n =>
    simp only [hf, Option.map_some, Option.some.injEq] at h
    have hp := List.find?_some hf
    have hmem := List.mem_of_find?_eq_some hf
    simp only [Bool.and_eq_true, beq_iff_eq] at hp
    obtain ⟨⟨hd, hh⟩, hk⟩ := hp
    unfold keycmp at hk
    cases hg : keycmpGo ns (effComps comps).reverse n.id with
    | none => simp [hg] at hk
    | some a =>
      simp only [hg] at hk
      cases ha : find ns a with
      | none => simp [ha] at hk
      | some an =>
        simp only [ha, beq_iff_eq] at hk
        have hw := keycmpGo_walk ns _ _ _ hg
        simp only [List.length_reverse] at hw
        subst h
        exact ⟨n, a, an, hmem, rfl, hd, hh, hw, ha, hk⟩

/-- **a clone falls back to the original.**  What a private dictionary does
    not hold itself is looked up in the dictionary it was cloned from, with the
    same arguments: everything that is not a private copy is the original's
    node, hence seen identically. -/
theorem clone_falls_back (st : St) (hv tmpl : Nat) (comps : List String) (f dict fb : Nat)
    (hpriv : lookupIn st.nodes dict hv tmpl comps = none)
    (hfb : (st.dicts[dict]?).bind (·.fallback) = some fb) :
    lookupChain st hv tmpl comps true (f + 1) dict = lookupChain st hv tmpl comps true f fb := by
  simp [lookupChain, hpriv, hfb]

/-- … and what it does hold privately shadows the original. -/
theorem clone_private_first (st : St) (hv tmpl : Nat) (comps : List String) (fbk : Bool) (f dict r : Nat)
    (hpriv : lookupIn st.nodes dict hv tmpl comps = some r) :
    lookupChain st hv tmpl comps fbk (f + 1) dict = some r := by
  simp [lookupChain, hpriv]

/-- **iteration.**  In a store whose node identifiers are distinct, a whole
    iteration over a set directory (iter_start, then iter_next until the end)
    visits exactly the children that have a value, each exactly once, in
    sibling-list order. -/
theorem iter_each_set_child_once (st : St) (d : Nat) (dn : Node)
    (hnd : (st.nodes.map (·.id)).Nodup)
    (hd : st.get d = some dn) (hset : dn.isset = true) (hdir : dn.ty = .dir) :
    iterAll st d = ((children st.nodes d).filter (·.isset)).map (·.id) ∧
    (iterAll st d).Nodup := by
  have h1 : iterAll st d = ((children st.nodes d).filter (·.isset)).map (·.id) := by
    unfold iterAll iterStart
    rw [hd]
    simp only [hset, hdir]
    simp only [Bool.not_true, Bool.false_eq_true, if_false, bne_self_eq_false]
    exact Kdf.Lemmas.AttrIter.iterFrom_enum st d st.nodes [] st.nodes.length (by simp)
      (by intro y hy; simp at hy) hnd (Nat.le_refl _)
  refine ⟨h1, ?_⟩
  rw [h1]
  have hsub : List.Sublist (((children st.nodes d).filter (·.isset)).map (·.id)) (st.nodes.map (·.id)) := by
    apply List.Sublist.map
    exact List.Sublist.trans List.filter_sublist (by unfold children; exact List.filter_sublist)
  exact List.Sublist.nodup hsub hnd

/-- **identifiers stay distinct.**  `new_attr` (the only operation that adds a
    node; all others map or filter the node list) keeps the hypothesis of
    `iter_each_set_child_once`. -/
theorem newAttr_wf (h : HashFn) (st : St) (dict : Nat) (parent : Option Nat) (key : String) (ty : Ty)
    (tmpl : Option Nat) (hook : Hook) (fidx : Nat)
    (hlt : ∀ n ∈ st.nodes, n.id < st.next) (hnd : (st.nodes.map (·.id)).Nodup) :
    (∀ n ∈ (newAttr h st dict parent key ty tmpl hook fidx).1.nodes,
        n.id < (newAttr h st dict parent key ty tmpl hook fidx).1.next) ∧
    ((newAttr h st dict parent key ty tmpl hook fidx).1.nodes.map (·.id)).Nodup := by
  simp only [newAttr, List.map_cons, List.nodup_cons, List.mem_cons, List.mem_map]
  refine ⟨?_, ?_, hnd⟩
  · intro n hn
    rcases hn with rfl | hn
    · simp
    · exact Nat.lt_succ_of_lt (hlt n hn)
  · rintro ⟨n, hn, he⟩
    have := hlt n hn
    omega

/-! ### allocation failure while the file set grows (num_files_pre_hook) -/

theorem dealloc_sub (s : St) (a : Nat) : ∀ n ∈ (dealloc s a).nodes, n ∈ s.nodes := by
  intro n h
  simp only [dealloc] at h
  exact (List.mem_filter.mp h).1

theorem dealloc_removes (s : St) (a : Nat) (hnext : s.next ≠ 0) : ∀ n ∈ (dealloc s a).nodes, n.id ≠ a := by
  intro n h he
  simp only [dealloc] at h
  have h2 := (List.mem_filter.mp h).2
  obtain ⟨f, hf⟩ := Nat.exists_eq_succ_of_ne_zero hnext
  rw [hf, he] at h2
  simp [isUnder] at h2

theorem foldl_dealloc_next (l : List Node) : ∀ (s : St), (l.foldl (fun s c => dealloc s c.id) s).next = s.next := by
  induction l with
  | nil => intro s; rfl
  | cons b bs ih => intro s; simp only [List.foldl_cons]; rw [ih]; rfl

theorem foldl_dealloc_sub (l : List Node) (s : St) :
    ∀ n ∈ (l.foldl (fun s c => dealloc s c.id) s).nodes, n ∈ s.nodes :=
  mem_foldl_filter (fun (s : St) (c : Node) => dealloc s c.id) (fun s c => dealloc_sub s c.id) l s

theorem foldl_dealloc_removes (l : List Node) : ∀ (s : St), s.next ≠ 0 → ∀ c ∈ l,
    ∀ m ∈ (l.foldl (fun s c => dealloc s c.id) s).nodes, m.id ≠ c.id := by
  induction l with
  | nil => intro s _ c hc; simp at hc
  | cons b bs ih =>
    intro s hnext c hc m hm
    simp only [List.foldl_cons] at hm
    rcases List.mem_cons.mp hc with rfl | hc'
    · exact dealloc_removes s c.id hnext m (foldl_dealloc_sub bs _ m hm)
    · exact ih (dealloc s b.id) (by simpa [dealloc] using hnext) c hc' m hm

/-- the roll-back adds nothing -/
theorem numFiles_rollback_sub (st : St) (parent keep : Nat) :
    ∀ n ∈ (numFilesRollback st parent keep).nodes, n ∈ st.nodes := by
  unfold numFilesRollback
  exact foldl_dealloc_sub _ st

/-- **no stale slot.**  After the roll-back no slot directory `file.set.<N>`
    with `N ≥ keep` is left below `file.set` — whichever slots had been created
    completely or in part. -/
theorem numFiles_rollback_no_stale (st : St) (parent keep : Nat) (hnext : st.next ≠ 0) :
    ∀ c ∈ (numFilesRollback st parent keep).nodes, c.parent = some parent → c.ty = .dir → c.fidx < keep := by
  intro c hc hp hty
  apply Classical.byContradiction
  intro hge
  have hin : c ∈ st.nodes := numFiles_rollback_sub st parent keep c hc
  have hv : c ∈ (children st.nodes parent).filter (fun c => c.ty == .dir && c.fidx ≥ keep) := by
    simp only [children, List.mem_filter]
    refine ⟨⟨hin, by simp [hp]⟩, ?_⟩
    simp [hty]
    omega
  unfold numFilesRollback at hc
  exact foldl_dealloc_removes _ st hnext c hv c hc rfl

/-- **an allocation failure while the file set grows leaves no slot behind.**
    `num_files_pre_hook` with a failing allocation in a new slot (the first new
    one or a later one, at the directory, its `fd` or its `name`) answers
    `system` and no slot directory numbered `cur` or higher exists afterwards:
    the keys `file.set.<cur>` … are unknown again, as before the call. -/
theorem numFiles_fail_no_stale (h : HashFn) (st : St) (dict : Nat) (attr : Node) (n cur slot stage parent : Nat)
    (hp : attr.parent = some parent) (hlt : cur + slot < n)
    (hnext : (numFilesPreFail h st dict attr n cur slot stage).1.next ≠ 0) :
    (numFilesPreFail h st dict attr n cur slot stage).2 = .system ∧
    ∀ c ∈ (numFilesPreFail h st dict attr n cur slot stage).1.nodes,
      c.parent = some parent → c.ty = .dir → c.fidx < cur := by
  unfold numFilesPreFail at hnext ⊢
  simp only [hp, hlt, if_true] at hnext ⊢
  refine ⟨trivial, ?_⟩
  apply numFiles_rollback_no_stale
  unfold numFilesRollback at hnext
  rw [foldl_dealloc_next] at hnext
  exact hnext

/-! ### a derived attribute answers the same through every getter -/

/-- **linux.version_code follows linux.uts.release.**  After the post-set hook
    of the release string, the node `linux.version_code` — the one node that a
    lookup by path, a reference, a sub-reference and an iterator position all
    end in — is set and carries KERNEL_VERSION of the NEW release: no getter
    can see the placeholder stored before revalidation. -/
theorem version_code_follows_release (st : St) (rel uts vc : Node) (val : String) (l : Nat)
    (h1 : rel.parent.bind st.get = some uts) (h2 : uts.parent = some l)
    (h3 : findChildKey st l "version_code" = some vc)
    (hv : st.get vc.id = some vc) (hty : vc.ty ≠ .dir) :
    getById (utsReleasePost st rel val) vc.id =
      some (true, vc.ty, "num:" ++ toString ((kernelVersion (tokStr val)).getD 0)) := by
  unfold utsReleasePost
  rw [h1]
  simp only [h2, Option.bind_some, h3]
  have g := get_after_set st vc.id false ("num:" ++ toString ((kernelVersion (tokStr val)).getD 0)) vc hv hty
  unfold getById
  cases hg : (setPlain st vc.id false ("num:" ++ toString ((kernelVersion (tokStr val)).getD 0))).get vc.id with
  | none => rw [hg] at g; simp at g
  | some m =>
    rw [hg] at g
    simp only [Option.map_some, Option.some.injEq, Prod.mk.injEq] at g ⊢
    exact ⟨g.1, g.2.2.2.1, g.2.2.1⟩

/-! ### non-vacuity: a concrete store (root, a directory with three children of which two are set) -/

def exNodes : List Node :=
  [ { id := 4, parent := some 1, key := "c", ty := .num, isset := true, persist := false, val := "num:3", dict := 0, tmpl := 4, hook := .none, hidx := 0, fidx := 0 },
    { id := 3, parent := some 1, key := "b", ty := .str, isset := false, persist := false, val := "", dict := 0, tmpl := 3, hook := .none, hidx := 0, fidx := 0 },
    { id := 2, parent := some 1, key := "a", ty := .num, isset := true, persist := true, val := "num:1", dict := 0, tmpl := 2, hook := .none, hidx := 0, fidx := 0 },
    { id := 1, parent := some 0, key := "dir", ty := .dir, isset := true, persist := false, val := "", dict := 0, tmpl := 1, hook := .none, hidx := 0, fidx := 0 },
    { id := 0, parent := none, key := "", ty := .dir, isset := true, persist := false, val := "", dict := 0, tmpl := 0, hook := .none, hidx := 0, fidx := 0 } ]

def exSt : St := { nodes := exNodes, next := 5, dicts := [{ root := 0, fallback := none }] }

/-- all keys collide in one bucket: the laws do not depend on the hash -/
def exHash : HashFn := fun _ => 0

example : (exSt.nodes.map (·.id)).Nodup := by decide
example : iterAll exSt 1 = [4, 2] := by decide
example : lookup exHash exSt 0 (some "dir.b") = some 3 := by decide
example : lookup exHash exSt 0 (some "dir.bb") = none := by decide
example : getById (setPlain exSt 3 true "str:41") 3 = some (true, .str, "str:41") := by decide
example : (checkSet exHash exSt 0 3 "num:5").2 = .invalid := by decide
example : (iterAll (clearAttr exSt 1) 0) = [] := by decide
example : getById (clearVolatile exSt 0) 4 = some (false, .num, "num:3") ∧
          getById (clearVolatile exSt 0) 2 = some (true, .num, "num:1") ∧
          getById (clearVolatile exSt 0) 1 = some (true, .dir, "") := by decide


/-- a file set without slots: root, `set` (the directory file.set), `number` (hook numFiles, stored number 0) -/
def exFsNum : Node :=
  { id := 2, parent := some 1, key := "number", ty := .num, isset := false, persist := false, val := "num:0", dict := 0, tmpl := 2, hook := .numFiles, hidx := 0, fidx := 0 }
def exFs : St :=
  { nodes := [ exFsNum,
      { id := 1, parent := some 0, key := "set", ty := .dir, isset := false, persist := false, val := "", dict := 0, tmpl := 1, hook := .none, hidx := 0, fidx := 0 },
      { id := 0, parent := none, key := "", ty := .dir, isset := true, persist := false, val := "", dict := 0, tmpl := 0, hook := .none, hidx := 0, fidx := 0 } ],
    next := 3, dicts := [{ root := 0, fallback := none }] }

-- growing to three files creates three slots of three nodes each
example : ((numFilesPre exHash exFs 0 exFsNum 3 0).1.nodes.length, (numFilesPre exHash exFs 0 exFsNum 3 0).2) = (12, Status.ok) := by decide
-- an allocation failure in the first new slot (directory created, `fd` not) or in the second one (`name` missing):
-- status system and the node list is the one before the call
example : ((numFilesPreFail exHash exFs 0 exFsNum 3 0 0 1).1.nodes.map (·.id), (numFilesPreFail exHash exFs 0 exFsNum 3 0 0 1).2) =
    ([2, 1, 0], Status.system) := by decide
example : (numFilesPreFail exHash exFs 0 exFsNum 3 0 1 2).1.nodes.map (·.id) = exFs.nodes.map (·.id) := by decide
example : (numFilesPreFail exHash exFs 0 exFsNum 3 0 2 0).1.nodes.map (·.id) = exFs.nodes.map (·.id) := by decide
-- without the roll-back the partial slot would stay
example : (numFilesPartial exHash exFs 0 1 0 2).nodes.length = 5 := by decide
example : kernelVersion "5.4.0-verif" = some 328704 := by decide
example : kernelVersion "6.12" = some 396288 := by decide
example : kernelVersion "6.9.300" = some 395775 := by decide
example : kernelVersion "x.1" = none := by decide

/-! ### the legacy alias `file.fd` of `file.set.0.fd` (num_files_post_hook, fdset_clear_hook, file_fd_post_hook) -/

theorem isUnder_self (ns : List Node) (a f : Nat) (hf : f ≠ 0) : isUnder ns a f a = true := by
  cases f with
  | zero => exact absurd rfl hf
  | succ k => simp [isUnder]

/-- **a one-file set keeps its legacy descriptor**: the alias rule of `file.set.number` changes nothing when the new size is 1. -/
theorem numFilesAlias_one (h : HashFn) (st : St) (dict : Nat) : numFilesAlias h st dict 1 = st := by
  simp [numFilesAlias]

/-- **a set that is not one file has no legacy descriptor**: after the alias rule for a size other than 1 (0 = the set was
    emptied, or more than one file) `file.fd` reports no value. -/
theorem fileFd_unset_unless_one (h : HashFn) (st : St) (dict n a : Nat) (hn : n ≠ 1) (hnext : st.next ≠ 0)
    (ha : lookup h st dict (some "file.fd") = some a) :
    ∀ m ∈ (numFilesAlias h st dict n).nodes, m.id = a → m.isset = false := by
  intro m hm hid
  have hne : (n != 1) = true := by simp [bne_iff_ne, hn]
  unfold numFilesAlias at hm
  rw [if_pos hne] at hm
  unfold clearFileFd at hm
  rw [ha] at hm
  exact clear_subtree_unset st a m hm (by rw [hid]; exact isUnder_self _ _ _ hnext)

/-- **clearing slot 0 clears the alias**: when the cleared subtree holds `file.set.0.fd`, `file.fd` reports no value afterwards. -/
theorem clearHooked_clears_alias (h : HashFn) (st : St) (dict a f fd : Nat)
    (hf : lookup h st dict (some "file.set.0.fd") = some f) (hu : isUnder st.nodes a st.next f = true)
    (hfd : lookup h (clearAttr st a) dict (some "file.fd") = some fd) (hnext : (clearAttr st a).next ≠ 0) :
    ∀ m ∈ (clearHooked h st dict a).nodes, m.id = fd → m.isset = false := by
  intro m hm hid
  unfold clearHooked at hm
  simp only [hf, hu, if_true] at hm
  unfold clearFileFd at hm
  rw [hfd] at hm
  exact clear_subtree_unset _ fd m hm (by rw [hid]; exact isUnder_self _ _ _ hnext)

/-- **clearing elsewhere leaves the alias alone**: `clearHooked` is `clearAttr` when slot 0's descriptor is not in the subtree. -/
theorem clearHooked_frame (h : HashFn) (st : St) (dict a f : Nat)
    (hf : lookup h st dict (some "file.set.0.fd") = some f) (hu : isUnder st.nodes a st.next f = false) :
    clearHooked h st dict a = clearAttr st a := by
  unfold clearHooked
  simp [hf, hu]

/-- **the value set through `file.fd` is there afterwards** (the repaired file_fd_post_hook): whatever the open did to the
    file set, every node that is `file.fd` reports a value after `setFileFd`. -/
theorem setFileFd_alias_set (h : HashFn) (st : St) (dict a : Nat) (tok : String) (prov : List Provided) (n : Node)
    (ha : lookup h st dict (some "file.fd") = some a) (hn : st.get a = some n) (hv : hasValue n tok = false) :
    ∀ m ∈ (setFileFd h st dict tok prov).nodes, m.id = a → m.isset = true := by
  intro m hm hid
  unfold setFileFd at hm
  rw [ha] at hm
  simp only [hn, hv, Bool.false_eq_true, if_false] at hm
  rw [upd, List.mem_map] at hm
  obtain ⟨m0, _, hm0⟩ := hm
  by_cases hc : (m0.id == a) = true
  · simp only [hc, if_true] at hm0; rw [← hm0]
  · have hc' : (m0.id == a) = false := by simpa using hc
    simp only [hc', Bool.false_eq_true, if_false] at hm0
    rw [← hm0] at hid
    simp [hid] at hc

end Kdf.Props.C13
