import Kdf.Model.Layout
import Kdf.Model.Scan
import Kdf.Lemmas.Layout
import Kdf.Lemmas.Scan
import Kdf.Lemmas.ScanLinear
import Kdf.Lemmas.ScanX64
import Kdf.Model.OsPick
/-!
# C08 — OS-level translation shortcuts never contradict the page tables

Property theorems only; helper lemmas live in `Kdf/Lemmas/Layout.lean`, `Kdf/Lemmas/Scan*.lean`.

What is proved here (over the models `Kdf.Model.Layout`, `Kdf.Model.Scan`, tied to the C code by the
`os` correspondence stream, and over the C09 model `Kdf.Model.Sys.conv` of `addrxlat_fulladdr_conv`):

* `direct_def` — a DIRECT region `[first, last]` installed through `sys_set_layout`/`act_direct`
  yields exactly the linear pair `va ↦ va - first`, `pa ↦ pa + first` on exactly `[first, last]` /
  `[0, last - first]`, every other address of both maps keeps its method, every other map and method is
  untouched — for ANY prior system state;
* `rdirect_direct_id` — in that system every physical address the reverse direct map turns into a
  virtual address maps back to itself, and every direct-map virtual address maps to `va - first` and
  back (second clause of the property, for the generic machinery, any memory, any read capabilities);
* `physmaps_ident` — `sys_set_physmaps` is the identity both ways on `[0, maxaddr]`;
* `layout_plain` — regions without actions update the map point-wise, later regions win, nothing else
  changes (the HW / KV→PHYS layouts of every architecture are built this way);
* `layout_total` — `sys_set_layout` never leaves a malformed map behind, whatever regions, actions,
  allocator outcome or status (all maps stay total functions in the sense of C10);
* `fast_linear_kv`, `fast_linear_kphys` — what a conversion does once the map selects a linear
  method (the fast path itself), independent of page tables, memory and read capabilities;
* `scanner_lowest_mapped`, `scanner_lowest_unmapped`, `scanner_highest_mapped` (together: *scanner_specs*) —
  on the x86-64 paging forms (4- and 5-level) and for ARBITRARY table content, each recursive scanner of
  step.c returns exactly the least / greatest mapped / unmapped address of the scanned interval, where
  "mapped" is the C02 hardware walk; a failing table read is reported at the first address it affects; the
  model's structural recursion budget always suffices (`.fuel`, `.undef` unreachable);
* `highest_linear_sound` — `highest_linear` is sound for images whose contiguous mapped runs are linear as a
  whole or not at all (`RunUniform`: the "laid out the way the supported kernels lay out memory" clause),
  given the scanner specifications (any paging form);
* `x64_highest_linear_sound` — the same with the scanner specifications discharged for x86-64: no hypothesis
  about the scanners is left.
* `check_pae_sound`, `ia32_root_exact`, `xen_text_pick_sound` (end of file) — three probing decisions of the set-up code
  (model `Kdf.Model.OsPick`, tied to the C code per image by the `ospick` ops of the `os` stream): `check_pae` accepts a
  paging form only if the start of the direct mapping walks to physical 0 under it; `get_linux_pgt_root` (ia32) hands CR3
  to the walk unchanged; the Xen text probe never takes an image with a 3.2-3.4 text mapping for a 4.0-dev snapshot.

What is NOT proved: the rest of the decision logic of `x86_64.c` (`linux_directmap_by_pgt`, `linux_ktext_extents`,
the other branches of `map_xen_x86_64`) and of the other architecture files — covered by the image stream of
tools/props/c08.py (property evaluated on the implementation against an independent walk).
-/
namespace Kdf.Props.C08
open Kdf.Model.Pgt Kdf.Model.Sys Kdf.Model.Layout
open Kdf.Model.Map (mapSearch)
open Kdf.Lemmas.Layout

theorem direct_def (s : LSys) (hs : Shape s) (first last : Nat) (hfl : first ≤ last) (hl : last < W) :
    ∃ s', setLayout true s MAP_KV_PHYS [⟨first, last, M_DIRECT, .direct⟩] = (.ok, s') ∧ Shape s' ∧
      s'.sys.meths[M_DIRECT]? = some (.linear KPHYS ((W - first) % W)) ∧
      s'.sys.meths[M_RDIRECT]? = some (.linear KV first) ∧
      (∀ i : Nat, i ≠ M_DIRECT → i ≠ M_RDIRECT → s'.sys.meths[i]? = s.sys.meths[i]?) ∧
      (∃ mk, s'.sys.maps[MAP_KV_PHYS]? = some (some mk) ∧
        ∀ va, va < W → mapSearch mk va =
          if first ≤ va ∧ va ≤ last then (M_DIRECT : Int)
          else match s.sys.maps[MAP_KV_PHYS]? with
            | some (some m0) => mapSearch m0 va
            | _ => Kdf.Model.Map.NONE) ∧
      (∃ md, s'.sys.maps[MAP_KPHYS_DIRECT]? = some (some md) ∧
        ∀ pa, pa < W → mapSearch md pa =
          if pa ≤ last - first then (M_RDIRECT : Int)
          else match s.sys.maps[MAP_KPHYS_DIRECT]? with
            | some (some m0) => mapSearch m0 pa
            | _ => Kdf.Model.Map.NONE) ∧
      (∀ i : Nat, i ≠ MAP_KV_PHYS → i ≠ MAP_KPHYS_DIRECT → s'.sys.maps[i]? = s.sys.maps[i]?) :=
  Kdf.Lemmas.Layout.direct_def s hs first last hfl hl

theorem rdirect_direct_id (s : LSys) (hs : Shape s) (first last : Nat) (hfl : first ≤ last) (hl : last < W)
    (s' : LSys) (h : setLayout true s MAP_KV_PHYS [⟨first, last, M_DIRECT, .direct⟩] = (.ok, s'))
    (readCaps : Nat) (pm : Mem) :
    let c : Cfg := ⟨some s'.sys, readCaps, pm⟩
    (∀ pa, pa ≤ last - first →
      conv c KV ⟨pa, KPHYS⟩ = some (.ok, ⟨pa + first, KV⟩) ∧
      conv c KPHYS ⟨pa + first, KV⟩ = some (.ok, ⟨pa, KPHYS⟩)) ∧
    (∀ va, first ≤ va → va ≤ last →
      conv c KPHYS ⟨va, KV⟩ = some (.ok, ⟨va - first, KPHYS⟩) ∧
      conv c KV ⟨va - first, KPHYS⟩ = some (.ok, ⟨va, KV⟩)) :=
  Kdf.Lemmas.Layout.rdirect_direct_id s hs first last hfl hl s' h readCaps pm

theorem physmaps_ident (s : LSys) (hs : Shape s) (maxaddr : Nat) (hm : maxaddr < W) :
    ∃ s', setPhysmaps true s maxaddr = (.ok, s') ∧ Shape s' ∧
      ∀ readCaps pm pa, pa ≤ maxaddr →
        conv ⟨some s'.sys, readCaps, pm⟩ KPHYS ⟨pa, MACHPHYS⟩ = some (.ok, ⟨pa, KPHYS⟩) ∧
        conv ⟨some s'.sys, readCaps, pm⟩ MACHPHYS ⟨pa, KPHYS⟩ = some (.ok, ⟨pa, MACHPHYS⟩) :=
  Kdf.Lemmas.Layout.physmaps_ident s hs maxaddr hm

theorem layout_plain (s : LSys) (hs : Shape s) (idx : Nat) (hidx : idx < 5) (layout : List Region)
    (hreg : ∀ rg ∈ layout, rg.first ≤ rg.last ∧ rg.last < W ∧ rg.act = .none) :
    ∃ s' m', setLayout true s idx layout = (.ok, s') ∧ Shape s' ∧ s'.sys.meths = s.sys.meths ∧ s'.offs = s.offs ∧
      s'.sys.maps[idx]? = some (some m') ∧
      (∀ i : Nat, i ≠ idx → s'.sys.maps[i]? = s.sys.maps[i]?) ∧
      ∀ a, a < W → mapSearch m' a =
        regionsDen (fun x => match s.sys.maps[idx]? with
                             | some (some m0) => mapSearch m0 x
                             | _ => Kdf.Model.Map.NONE) layout a :=
  Kdf.Lemmas.Layout.setLayout_plain s hs idx hidx layout hreg

/-- whatever the allocator answers, whatever the status: every map of the system stays well-formed -/
theorem layout_total (alloc : Bool) (s : LSys) (hs : Shape s) (idx : Nat) (layout : List Region)
    (hreg : ∀ rg ∈ layout, rg.first ≤ rg.last ∧ rg.last < W)
    (s' : LSys) (st : St) (h : setLayout alloc s idx layout = (st, s')) : Shape s' :=
  Kdf.Lemmas.Layout.setLayout_shape_any alloc s hs idx layout hreg s' st h

theorem fast_linear_kv (c : Cfg) (sys : Sys) (hc : c.sys = some sys) (mk : Kdf.Model.Map.Map)
    (hmk : sys.maps[MAP_KV_PHYS]? = some (some mk)) (va : Nat) (slot : Nat) (off : Nat)
    (hsearch : mapSearch mk va = (slot : Int)) (hmeth : sys.meths[slot]? = some (.linear KPHYS off)) :
    conv c KPHYS ⟨va, KV⟩ = some (.ok, ⟨(va + off) % W, KPHYS⟩) :=
  conv_kv_linear c sys hc mk hmk va slot off hsearch hmeth

theorem fast_linear_kphys (c : Cfg) (sys : Sys) (hc : c.sys = some sys) (md : Kdf.Model.Map.Map)
    (hmd : sys.maps[MAP_KPHYS_DIRECT]? = some (some md)) (pa : Nat) (slot : Nat) (off : Nat)
    (hsearch : mapSearch md pa = (slot : Int)) (hmeth : sys.meths[slot]? = some (.linear KV off)) :
    conv c KV ⟨pa, KPHYS⟩ = some (.ok, ⟨(pa + off) % W, KV⟩) :=
  conv_kphys_linear c sys hc md hmd pa slot off hsearch hmeth

/-! ### The page-table scanners (step.c) -/
open Kdf.Model.Scan Kdf.Model.PgtArch Kdf.Lemmas.Scan in
/-- `lowest_mapped`: the answer is the least mapped page of `[addr & ~0xfff, limit]` -/
theorem scanner_lowest_mapped (mem : Mem) (t : Nat) (root : FullAddr) (pteMask : Nat) (pf : PagingForm)
    (hpf : X64Form pf) (hmask : pteMask < W) (hroot : root.addr < W) (addr limit : Nat)
    (hmemok : ∀ as a sz, mem as a sz ≠ .error .ok)
    (hh : SameHalf pf (clearLow addr 12) limit) :
    match lowestMapped (firstStep (.pgt t root pteMask pf)) (stepOnce extra mem (.pgt t root pteMask pf)) pf addr limit with
    | .done .ok a s =>
        clearLow addr 12 ≤ a ∧ a ≤ limit ∧ a % 4096 = 0 ∧
        (walk extra mem (.pgt t root pteMask pf) a).map (·.base) = .ok s.base ∧
        ∀ x, clearLow addr 12 ≤ x → x < a → walk extra mem (.pgt t root pteMask pf) x = .error .notpresent
    | .done .notpresent _ _ =>
        ∀ x, clearLow addr 12 ≤ x → x ≤ limit → walk extra mem (.pgt t root pteMask pf) x = .error .notpresent
    | .done e a _ =>
        clearLow addr 12 ≤ a ∧ (walk extra mem (.pgt t root pteMask pf) a).map (·.base) = .error e ∧
        ∀ x, clearLow addr 12 ≤ x → x < a → walk extra mem (.pgt t root pteMask pf) x = .error .notpresent
    | .fuel => False
    | .undef => False :=
  lowestMapped_spec mem t root pteMask pf hpf hmask hroot addr limit hmemok hh

open Kdf.Model.Scan Kdf.Model.PgtArch Kdf.Lemmas.Scan in
/-- `lowest_unmapped`: the answer is the least page of `[addr & ~0xfff, limit]` whose walk ends in
"not present"; everything below it translates -/
theorem scanner_lowest_unmapped (mem : Mem) (t : Nat) (root : FullAddr) (pteMask : Nat) (pf : PagingForm)
    (hpf : X64Form pf) (hmask : pteMask < W) (hroot : root.addr < W) (addr limit : Nat)
    (hmemok : ∀ as a sz, mem as a sz ≠ .error .ok)
    (hh : SameHalf pf (clearLow addr 12) limit) :
    match lowestUnmapped (firstStep (.pgt t root pteMask pf)) (stepOnce extra mem (.pgt t root pteMask pf)) pf addr limit with
    | .done .ok a _ =>
        clearLow addr 12 ≤ a ∧ a ≤ limit ∧
        walk extra mem (.pgt t root pteMask pf) a = .error .notpresent ∧
        ∀ x, clearLow addr 12 ≤ x → x < a → ∃ s, walk extra mem (.pgt t root pteMask pf) x = .ok s
    | .done .notpresent _ _ =>
        ∀ x, clearLow addr 12 ≤ x → x ≤ limit → ∃ s, walk extra mem (.pgt t root pteMask pf) x = .ok s
    | .done e a _ =>
        clearLow addr 12 ≤ a ∧ (walk extra mem (.pgt t root pteMask pf) a).map (·.base) = .error e ∧
        ∀ x, clearLow addr 12 ≤ x → x < a → ∃ s, walk extra mem (.pgt t root pteMask pf) x = .ok s
    | .fuel => False
    | .undef => False :=
  lowestUnmapped_spec mem t root pteMask pf hpf hmask hroot addr limit hmemok hh

open Kdf.Model.Scan Kdf.Model.PgtArch Kdf.Lemmas.Scan in
/-- `highest_mapped`: the answer is the greatest mapped address of `[limit, addr | 0xfff]` -/
theorem scanner_highest_mapped (mem : Mem) (t : Nat) (root : FullAddr) (pteMask : Nat) (pf : PagingForm)
    (hpf : X64Form pf) (hmask : pteMask < W) (hroot : root.addr < W) (addr limit : Nat) (haddr : addr < W)
    (hmemok : ∀ as a sz, mem as a sz ≠ .error .ok)
    (hh : SameHalf pf limit (addr ||| 4095)) :
    match highestMapped (firstStep (.pgt t root pteMask pf)) (stepOnce extra mem (.pgt t root pteMask pf)) pf addr limit with
    | .done .ok a s =>
        limit ≤ a ∧ a ≤ (addr ||| 4095) ∧ a % 4096 = 4095 ∧
        (walk extra mem (.pgt t root pteMask pf) a).map (·.base) = .ok s.base ∧
        ∀ x, a < x → x ≤ (addr ||| 4095) → walk extra mem (.pgt t root pteMask pf) x = .error .notpresent
    | .done .notpresent _ _ =>
        ∀ x, limit ≤ x → x ≤ (addr ||| 4095) → walk extra mem (.pgt t root pteMask pf) x = .error .notpresent
    | .done e a _ =>
        a ≤ (addr ||| 4095) ∧ (walk extra mem (.pgt t root pteMask pf) a).map (·.base) = .error e ∧
        ∀ x, a < x → x ≤ (addr ||| 4095) → walk extra mem (.pgt t root pteMask pf) x = .error .notpresent
    | .fuel => False
    | .undef => False :=
  highestMapped_spec mem t root pteMask pf hpf hmask hroot addr limit haddr hmemok hh

open Kdf.Model.Scan Kdf.Lemmas.ScanLinear in
/-- `highest_linear` checks the offset only at the first page of every contiguous mapped run.  Given the
scanner specifications (`LMOk`, `LUOk`, needed only for scan starts inside `[addr & ~pagemask, limit]`) and
an image whose runs are uniformly linear or not (`RunUniform`), an OK answer `h` means: every mapped address
of `[addr & ~pagemask, min h limit]` translates with offset `off`.  Generic in the paging form. -/
theorem highest_linear_sound (launch : Nat → Except XStatus Step) (sf : StepFn) (pf : PagingForm)
    (tr : Tr) (conv : Nat → XStatus × Nat) (limit off : Nat) (pm : Nat)
    (hlim : limit < W)
    (hmono : ∀ a b, andNot a pm = a → a ≤ b → b ≤ limit → a ≤ andNot b pm)
    (fuel addr h : Nat) (haddr : addr < W) (hlo : andNot addr pm ≤ limit)
    (hlm : ∀ a, a < W → andNot addr pm ≤ andNot a pm → andNot a pm ≤ limit →
      LMOk tr pm (andNot a pm) limit (lowestMapped launch sf pf a limit))
    (hlu : ∀ a, a < W → andNot addr pm ≤ andNot a pm → andNot a pm ≤ limit →
      LUOk tr (andNot a pm) limit (lowestUnmapped launch sf pf a limit))
    (hrun : RunUniform tr conv off)
    (hres : highestLinear launch sf pf conv limit off fuel addr addr .notpresent = .done .ok h) :
    ∀ x, andNot addr pm ≤ x → x ≤ h → x ≤ limit → Mapped tr x → LinAt conv off x :=
  highestLinear_sound launch sf pf tr conv limit off pm hlim hmono fuel addr h haddr hlo hlm hlu hrun hres

open Kdf.Model.Scan Kdf.Model.PgtArch Kdf.Lemmas.Scan Kdf.Lemmas.ScanLinear in
/-- **x86-64, no scanner hypothesis left**: if `highest_linear` over x86-64 page tables (4- or 5-level,
arbitrary content, arbitrary memory failures) answers OK with end address `h` — this is how
`linux_ktext_extents` and `linux_directmap_by_pgt` of x86_64.c find the end of the kernel text and of the
direct map — then every address of `[addr & ~0xfff, min h limit]` that the page tables map translates with
the offset `off`, i.e. the LINEAR method the library installs on that range agrees with the hardware walk —
provided the image's contiguous mapped runs are linear as a whole or not at all (`RunUniform`: "laid out
the way the supported kernels lay out memory") and the scanned interval lies in one canonical half. -/
theorem x64_highest_linear_sound (mem : Mem) (t : Nat) (root : FullAddr) (pteMask : Nat) (pf : PagingForm)
    (hpf : X64Form pf) (hmask : pteMask < W) (hroot : root.addr < W)
    (hmemok : ∀ as a sz, mem as a sz ≠ .error .ok)
    (conv : Nat → XStatus × Nat) (limit off : Nat)
    (hrun : RunUniform (walk extra mem (.pgt t root pteMask pf)) conv off)
    (fuel addr h : Nat) (hh : SameHalf pf (clearLow addr 12) limit)
    (hres : highestLinear (firstStep (.pgt t root pteMask pf)) (stepOnce extra mem (.pgt t root pteMask pf)) pf
              conv limit off fuel addr addr .notpresent = .done .ok h) :
    ∀ x, clearLow addr 12 ≤ x → x ≤ h → x ≤ limit →
      Mapped (walk extra mem (.pgt t root pteMask pf)) x → LinAt conv off x :=
  Kdf.Lemmas.ScanX64.x64_highestLinear_sound mem t root pteMask pf hpf hmask hroot hmemok conv limit off hrun
    fuel addr h hh hres

/-! ### Non-vacuity -/
example : Shape fresh := fresh_shape

/-- the Linux 2.6.31+ direct map on a fresh system: the model computes the maps the library prints -/
example : (setLayout true fresh MAP_KV_PHYS [⟨0xffff880000000000, 0xffffc7ffffffffff, M_DIRECT, .direct⟩]).1 = .ok := by
  decide
example :
    (setLayout true fresh MAP_KV_PHYS [⟨0xffff880000000000, 0xffffc7ffffffffff, M_DIRECT, .direct⟩]).2.sys.maps[2]? =
      some (some [⟨0x3fffffffffff, 5⟩, ⟨W - 0x400000000000 - 1, -1⟩]) := by
  decide
example : (setPhysmaps true fresh (2^52 - 1)).1 = .ok := by decide

end Kdf.Props.C08

namespace Kdf.Props.C08
open Kdf.Model.Pgt Kdf.Model.Scan Kdf.Model.PgtArch Kdf.Lemmas.Scan

/-- a concrete 4-level table set: PGD[256] -> PUD, PUD[0] -> PMD, PMD[1] = 2 MiB page at 0x200000 -/
def demoTbl : List (Nat × Nat) := [(0x1000 + 8 * 256, 0x2003), (0x2000, 0x3003), (0x3000 + 8, 0x200083)]
def demoMem : Mem := fun _ a sz => if sz = 8 then .ok (((demoTbl.find? (·.1 = a)).map (·.2)).getD 0) else .error .notimpl
def demoPf : PagingForm := ⟨.x86_64, [12, 9, 9, 9, 9]⟩

example : X64Form demoPf := ⟨rfl, Or.inl rfl⟩
example : SameHalf demoPf (clearLow 0xffff800000000000 12) 0xffffc7ffffffffff := by
  refine ⟨by decide, by decide, Or.inr ?_⟩
  decide
example : ∀ as a sz, demoMem as a sz ≠ .error .ok := by
  intro as a sz; unfold demoMem; split <;> simp
/-- the scanner finds the first mapped page of the demo tables -/
example : (match lowestMapped (firstStep (.pgt 1 ⟨0x1000, 0⟩ 0 demoPf))
      (stepOnce extra demoMem (.pgt 1 ⟨0x1000, 0⟩ 0 demoPf)) demoPf 0xffff800000000000 0xffffc7ffffffffff with
    | .done st a _ => (st, a) | _ => (.nomem, 0)) = (.ok, 0xffff800000200000) := by decide
end Kdf.Props.C08

/-! ## Probing decisions of the set-up code (image stream, `ospick` correspondence) -/
namespace Kdf.Props.C08
open Kdf.Model.Pgt Kdf.Model.OsPick

/-- `check_pae` only ever chooses a paging form under which the hardware walk of the start of the direct mapping ends
at physical 0 — exactly what the DIRECT fast path (`va ↦ va - direct`, `direct_def`) gives there: the shortcut and the
chosen hardware form agree at the probe address; a hierarchy that merely parses as a complete walk (to some other
address) is not accepted. -/
theorem check_pae_sound (extra : Extra) (memPae memNon : Mem) (root : FullAddr) (direct : Nat) :
    (checkPae extra memPae memNon root direct = some 52 →
       walkAddr extra memPae root ia32PfPae direct = some (direct - direct)) ∧
    (checkPae extra memPae memNon root direct = some 32 →
       walkAddr extra memNon root ia32Pf direct = some (direct - direct) ∧
       walkAddr extra memPae root ia32PfPae direct ≠ some 0) ∧
    (∀ b, checkPae extra memPae memNon root direct = some b → b = 52 ∨ b = 32) := by
  unfold checkPae
  refine ⟨?_, ?_, ?_⟩
  · intro h; split at h
    · simpa using ‹_›
    · split at h <;> simp at h
  · intro h; split at h
    · simp at h
    · split at h
      · exact ⟨by simpa using ‹walkAddr extra memNon root ia32Pf direct = some 0›, ‹_›⟩
      · simp at h
  · intro b h; split at h
    · left; simpa using h.symm
    · split at h
      · right; simpa using h.symm
      · simp at h

/-- `get_linux_pgt_root` (ia32) hands the CR3 value to the walk bit for bit (any 32-byte aligned PDPT address inside a
page included); the `rootpgt` option has precedence, `swapper_pg_dir` is the last resort. -/
theorem ia32_root_exact (opt : Option FullAddr) (cr3 sym : Option Nat) :
    (∀ r, opt = some r → ia32LinuxRoot opt cr3 sym = r) ∧
    (∀ c, opt = none → cr3 = some c → ia32LinuxRoot opt cr3 sym = ⟨c, MACHPHYS⟩) ∧
    (∀ v, opt = none → cr3 = none → sym = some v → ia32LinuxRoot opt cr3 sym = ⟨v, KV⟩) := by
  refine ⟨?_, ?_, ?_⟩
  · intro r h; subst h; rfl
  · intro c h1 h2; subst h1; subst h2; rfl
  · intro v h1 h2 h3; subst h1; subst h2; subst h3; rfl

/-- The Xen text probe: whatever is chosen is a 2 MiB mapping at one of the five known text addresses; and an image
whose page tables map the 3.2-3.4 text address with 2 MiB pages is never taken for a 4.0 development snapshot, whatever
is mapped at `XEN_TEXT_4_0dev` (which lies in the ioremap area of those versions). -/
theorem xen_text_pick_sound (is2m : Nat → Bool) :
    (∀ a f, xenTextPick is2m = some (a, f) → is2m a = true ∧ (a, f) ∈ xenTextOrder) ∧
    (is2m XEN_TEXT_3_2 = true → ∀ f, xenTextPick is2m ≠ some (XEN_TEXT_4_0dev, f)) ∧
    (xenTextPick is2m = none → ∀ p ∈ xenTextOrder, is2m p.1 = false) := by
  refine ⟨?_, ?_, ?_⟩
  · intro a f h
    unfold xenTextPick at h
    exact ⟨by simpa using List.find?_some h, List.mem_of_find?_eq_some h⟩
  · intro h32 f h
    unfold XEN_TEXT_3_2 at h32
    unfold xenTextPick xenTextOrder XEN_TEXT_4_4 XEN_TEXT_4_3 XEN_TEXT_4_0 XEN_TEXT_3_2 XEN_TEXT_4_0dev at h
    simp only [List.find?, h32] at h
    split at h
    · simp at h
    · split at h
      · simp at h
      · split at h
        · simp at h
        · simp at h
  · intro h p hp
    unfold xenTextPick at h
    have := List.find?_eq_none.mp h p hp
    simpa using this

end Kdf.Props.C08
