import Kdf.Model.Read
import Kdf.Lemmas.Read
/-!
# C12 — a failed or partial read reports exactly the prefix it delivered

Property theorems only.  Guards: the page size is positive, the oracle returns
whole pages, and the range does not wrap (`addr + len ≤ 2^64`).
-/
namespace Kdf.Props.C12
open Kdf.Model.Read Kdf.Lemmas.Read

/-- The reported length never exceeds the requested length. -/
theorem read_len_le (ps : Nat) (pages : Oracle) (as addr len : Nat) :
    (readLocked ps pages as addr len).2.length ≤ len := by
  have := readLoop_len_le ps pages as len addr len []
  simpa [readLocked] using this

/-- Degenerate oracle: every fetch fails, but with the status `ok`. -/
def errOkPages : Oracle := fun _ _ => .error .ok

/-- Why `read_ok` and `read_ok_iff` carry the hypothesis `OracleSound`: the C loop
tests `ret != KDUMP_OK`, so a page fetch that "fails with status OK" is
indistinguishable from end of input.  With such an oracle all other guards hold,
the read reports `ok`, yet it delivered 0 of the 1 requested bytes. -/
theorem read_ok_needs_sound :
    0 < 4 ∧ PagesWF 4 errOkPages ∧ 0 + 1 ≤ W ∧
    readLocked 4 errOkPages 0 0 1 = (.ok, []) ∧
    ¬ ((([] : List Byte).length = 1) ∧
        ∀ i, i < 1 → memAt 4 errOkPages 0 (0 + i) = ([] : List Byte)[i]?) ∧
    ¬ ((readLocked 4 errOkPages 0 0 1).1 = .ok ↔ ∀ i, i < 1 → PageOk 4 errOkPages 0 (0 + i)) := by
  refine ⟨by decide, ?_, by decide, by decide, ?_, ?_⟩
  · intro as p d h; cases h
  · intro h; cases h.1
  · intro h
    obtain ⟨d, hd⟩ := h.mp (by decide) 0 (by decide)
    cases hd

/-- Success: the reported length equals the requested length and every byte is
the byte the dump holds at that address.  `OracleSound`: a failing page fetch never carries the status `ok`. -/
theorem read_ok (ps : Nat) (hps : 0 < ps) (pages : Oracle) (hwf : PagesWF ps pages)
    (hne : OracleSound pages)
    (as addr len : Nat) (hw : addr + len ≤ W) (out : List Byte)
    (h : readLocked ps pages as addr len = (.ok, out)) :
    out.length = len ∧ ∀ i, i < len → memAt ps pages as (addr + i) = out[i]? := by
  obtain ⟨del, hout, hbytes, hcase⟩ :=
    readLoop_spec ps hps pages hwf as len addr len [] .ok out (Nat.le_refl _) hw h
  rw [List.nil_append] at hout
  subst hout
  rcases hcase with ⟨hl, _⟩ | ⟨_, hpg, _⟩
  · exact ⟨hl, fun i hi => hbytes i (by omega)⟩
  · exact absurd hpg (hne _ _)

/-- Zero-length reads succeed without touching any page. -/
theorem read_zero_len (ps : Nat) (pages : Oracle) (as addr : Nat) :
    readLocked ps pages as addr 0 = (.ok, []) := by
  simp [readLocked, readLoop]

/-- Failure: the delivered bytes are a correct proper prefix, the count is the
distance to the first byte that could not be provided — the start of the first
page whose fetch failed (or the start address itself if that is in the first
page) — and the status is that page's status. -/
theorem read_fail_prefix (ps : Nat) (hps : 0 < ps) (pages : Oracle) (hwf : PagesWF ps pages)
    (as addr len : Nat) (hw : addr + len ≤ W) (e : Status) (out : List Byte)
    (h : readLocked ps pages as addr len = (e, out)) (he : e ≠ .ok) :
    out.length < len ∧
    (∀ i, i < out.length → memAt ps pages as (addr + i) = out[i]?) ∧
    pages as (pageAlign ps (addr + out.length)) = .error e ∧
    (out.length = 0 ∨ (addr + out.length) % ps = 0) := by
  obtain ⟨del, hout, hbytes, hcase⟩ :=
    readLoop_spec ps hps pages hwf as len addr len [] e out (Nat.le_refl _) hw h
  rw [List.nil_append] at hout
  subst hout
  rcases hcase with ⟨_, hs⟩ | ⟨hl, hpg, hal⟩
  · exact absurd hs he
  · exact ⟨hl, hbytes, hpg, hal⟩

/-- The `←` direction of `read_ok_iff` needs no soundness hypothesis: if every
page the read touches can be fetched, the read succeeds. -/
theorem read_ok_of_pages_ok (ps : Nat) (hps : 0 < ps) (pages : Oracle) (hwf : PagesWF ps pages)
    (as addr len : Nat) (hw : addr + len ≤ W)
    (hall : ∀ i, i < len → PageOk ps pages as (addr + i)) :
    (readLocked ps pages as addr len).1 = .ok := by
  obtain ⟨del, _, _, hcase⟩ :=
    readLoop_spec ps hps pages hwf as len addr len [] _ _ (Nat.le_refl _) hw rfl
  rcases hcase with ⟨_, hs⟩ | ⟨hl, hpg, _⟩
  · exact hs
  · obtain ⟨d, hd⟩ := hall del.length hl
    rw [hd] at hpg
    cases hpg

/-- The read succeeds exactly when every page it touches can be fetched.   -/
theorem read_ok_iff (ps : Nat) (hps : 0 < ps) (pages : Oracle) (hwf : PagesWF ps pages)
    (hne : OracleSound pages)
    (as addr len : Nat) (hw : addr + len ≤ W) :
    (readLocked ps pages as addr len).1 = .ok ↔ ∀ i, i < len → PageOk ps pages as (addr + i) := by
  constructor
  · intro hs i hi
    have h : readLocked ps pages as addr len = (.ok, (readLocked ps pages as addr len).2) := by
      rw [← hs]
    obtain ⟨hl, hb⟩ := read_ok ps hps pages hwf hne as addr len hw _ h
    have hsome : ((readLocked ps pages as addr len).2)[i]? =
        some ((readLocked ps pages as addr len).2[i]'(by omega)) :=
      List.getElem?_eq_getElem (by omega)
    exact memAt_some_pageOk ps pages as (addr + i) _ ((hb i hi).trans hsome)
  · exact read_ok_of_pages_ok ps hps pages hwf as addr len hw

/-- Hypothesis-free variant of `read_ok_iff`: the read delivers the full
requested length exactly when every page it touches can be fetched. -/
theorem read_full_iff (ps : Nat) (hps : 0 < ps) (pages : Oracle) (hwf : PagesWF ps pages)
    (as addr len : Nat) (hw : addr + len ≤ W) :
    (readLocked ps pages as addr len).2.length = len ↔
      ∀ i, i < len → PageOk ps pages as (addr + i) := by
  obtain ⟨del, hout, hbytes, hcase⟩ :=
    readLoop_spec ps hps pages hwf as len addr len [] _ _ (Nat.le_refl _) hw rfl
  rw [List.nil_append] at hout
  unfold readLocked
  rw [hout]
  constructor
  · intro hl i hi
    have hsome : del[i]? = some (del[i]'(by omega)) := List.getElem?_eq_getElem (by omega)
    exact memAt_some_pageOk ps pages as (addr + i) _ ((hbytes i (by omega)).trans hsome)
  · intro hall
    rcases hcase with ⟨hl, _⟩ | ⟨hl, hpg, _⟩
    · exact hl
    · obtain ⟨d, hd⟩ := hall del.length hl
      rw [hd] at hpg
      cases hpg

/-- A string read that succeeds returns exactly the bytes up to (excluding)
the first NUL at or after the address, across any number of pages. -/
theorem string_upto_nul (ps : Nat) (hps : 0 < ps) (pages : Oracle) (hwf : PagesWF ps pages)
    (as addr fuel : Nat) (allocOk : Nat → Bool) (s : List Byte)
    (hw : addr + s.length < W)
    (h : readString ps pages as addr allocOk fuel = (.ok, some s)) :
    (∀ i, i < s.length → ∃ b, memAt ps pages as (addr + i) = some b ∧ b ≠ 0 ∧ s[i]? = some b) ∧
    memAt ps pages as (addr + s.length) = some 0 := by
  obtain ⟨del, hs, hrest⟩ := strLoop_ok_spec ps hps pages hwf as allocOk fuel addr 0 [] s h
  rw [List.nil_append] at hs
  subst hs
  exact hrest hw

/-- A string read that fails hands no buffer to the caller. -/
theorem string_fail_no_result (ps : Nat) (pages : Oracle) (as addr fuel : Nat) (allocOk : Nat → Bool)
    (e : Status) (r : Option (List Byte))
    (h : readString ps pages as addr allocOk fuel = (e, r)) (he : e ≠ .ok) : r = none :=
  strLoop_fail_none ps pages as allocOk fuel addr 0 [] e r h he

/-- If a NUL exists at distance `n` with all bytes before it present and
non-zero, allocations succeed and there is enough fuel, the string read
succeeds (so `string_upto_nul` is not vacuous and the loop terminates). -/
theorem string_total (ps : Nat) (hps : 0 < ps) (pages : Oracle) (hwf : PagesWF ps pages)
    (as addr n : Nat) (hw : addr + n < W)
    (hpre : ∀ i, i < n → ∃ b, memAt ps pages as (addr + i) = some b ∧ b ≠ 0)
    (hnul : memAt ps pages as (addr + n) = some 0) (fuel : Nat) (hf : n < fuel) :
    ∃ s, readString ps pages as addr (fun _ => true) fuel = (.ok, some s) ∧ s.length = n := by
  obtain ⟨del, hs, hl⟩ := strLoop_total ps hps pages hwf as fuel addr n 0 [] hw hpre hnul hf
  exact ⟨del, by simpa [readString] using hs, hl⟩

/-! ### Non-vacuity: two present pages of size 4 followed by a missing one. -/
def demoPages : Oracle := fun _ p =>
  if p = 0 then .ok [1, 2, 3, 4] else if p = 4 then .ok [5, 0, 7, 8] else .error .nodata

example : PagesWF 4 demoPages := by
  intro as p d h
  unfold demoPages at h
  split at h
  · cases h; rfl
  · split at h
    · cases h; rfl
    · cases h
example : readLocked 4 demoPages 0 2 10 = (.nodata, [3, 4, 5, 0, 7, 8]) := by decide
example : readLocked 4 demoPages 0 1 6 = (.ok, [2, 3, 4, 5, 0, 7]) := by decide
example : readString 4 demoPages 0 2 (fun _ => true) 10 = (.ok, some [3, 4, 5]) := by decide

/-- Page size not known: a non-empty read fails with `invalid` and reports that nothing was delivered;
an empty read succeeds.  (The reported length is the length of the delivered list.) -/
theorem read_unknown_ps (pages : Oracle) (as addr len : Nat) :
    readApi 0 pages as addr len = if len = 0 then (.ok, []) else (.invalid, []) := by
  by_cases h : len = 0
  · subst h; simp [readApi, readLocked, readLoop]
  · simp [readApi, h]

/-- With a known page size the API read is the read loop, so every theorem above applies. -/
theorem readApi_known (ps : Nat) (hps : 0 < ps) (pages : Oracle) (as addr len : Nat) :
    readApi ps pages as addr len = readLocked ps pages as addr len := by
  have : ps ≠ 0 := by omega
  simp [readApi, this]

/-- In every state (page size known or not) the reported length never exceeds the requested length,
and a failure with an unknown page size never reports a delivered byte. -/
theorem readApi_len_le (ps : Nat) (pages : Oracle) (as addr len : Nat) :
    (readApi ps pages as addr len).2.length ≤ len := by
  unfold readApi
  split
  · simp
  · exact read_len_le ps pages as addr len

/-- String read without a page size: fails, no result (no partial buffer). -/
theorem string_unknown_ps (pages : Oracle) (as addr : Nat) (allocOk : Nat → Bool) (fuel : Nat) :
    readStringApi 0 pages as addr allocOk fuel = (.invalid, none) := by
  simp [readStringApi]

end Kdf.Props.C12
